/-
  C20 — Explanations of a violation are a sufficient cause (partial: fragment `explFrag`).

  "When a discrete-time offline specification is violated at time 0 and explain() has been
   called, the intervals reported for the input variables form a sufficient cause: every
   trace that coincides with the original one on all reported (variable, sample) positions
   violates the specification at time 0 as well. For a specification that is satisfied at
   time 0 nothing is reported."

  Proved for the mirror of the explainer (`Rtamt/Discrete/Explain.lean`) on `F.explFrag`
  (predicates over arithmetic terms; not / and / or / implies; prev / next weak and strong;
  once / historically / eventually / always bounded or not).  Excluded: since / until (the
  explainer raises), iff / xor and rise / fall (both operands resp. the operand are explained
  with the same polarity, which is not sound in general).
-/
import RtamtProofs.Lemmas.Lawful
import Rtamt.Discrete.Explain
import Mathlib.Order.Fin.Basic
import RtamtProofs.Lemmas.Instance

namespace Rtamt
open Val

variable {α : Type} [Val α] [LawfulVal α]

/-- "Satisfied at `t`" in the explainer's sense: `rho >= 0`; violated: `rho < 0`. -/
def holdsAs (flag : Bool) (v : α) : Prop := if flag then isSat v = true else isUnsat v = true

/-- All positions covered by an interval list, below `n`. -/
def covered (I : Ivs) (t : Nat) : Prop := ∃ p ∈ I, p.1 ≤ t ∧ t ≤ p.2

/-! ### interval lists -/

theorem covered_nil (t : Nat) : ¬ covered [] t := by
  rintro ⟨p, hp, _⟩; cases hp

theorem covered_cons (p : Nat × Nat) (I : Ivs) (t : Nat) :
    covered (p :: I) t ↔ (p.1 ≤ t ∧ t ≤ p.2) ∨ covered I t := by
  unfold covered; simp

theorem covered_append (I J : Ivs) (t : Nat) :
    covered (I ++ J) t ↔ covered I t ∨ covered J t := by
  unfold covered
  constructor
  · rintro ⟨p, hp, h⟩
    rcases List.mem_append.1 hp with hp | hp
    · exact Or.inl ⟨p, hp, h⟩
    · exact Or.inr ⟨p, hp, h⟩
  · rintro (⟨p, hp, h⟩ | ⟨p, hp, h⟩)
    · exact ⟨p, List.mem_append.2 (Or.inl hp), h⟩
    · exact ⟨p, List.mem_append.2 (Or.inr hp), h⟩

theorem covered_flatMap (h : Nat × Nat → Ivs) (I : Ivs) (t : Nat) :
    covered (I.flatMap h) t ↔ ∃ q ∈ I, covered (h q) t := by
  unfold covered
  constructor
  · rintro ⟨p, hp, ht⟩
    obtain ⟨q, hq, hpq⟩ := List.mem_flatMap.1 hp
    exact ⟨q, hq, p, hpq, ht⟩
  · rintro ⟨q, hq, p, hpq, ht⟩
    exact ⟨p, List.mem_flatMap.2 ⟨q, hq, hpq⟩, ht⟩

/-- Disjoint and increasing. -/
def Dj (I : Ivs) : Prop := I.Pairwise (fun p q => p.2 < q.1)

/-! ### `runs` -/

theorem runsLoop_covered (S : Nat → Bool) (e : Nat) :
    ∀ (k i : Nat) (cur : Option Nat), i + k = e + 1 → (∀ s, cur = some s → s < i) →
      ∀ t, covered (runsLoop S e k i cur) t ↔
        (∃ s, cur = some s ∧ s ≤ t ∧ t ≤ e ∧ ∀ u, i ≤ u → u ≤ t → S u = true) ∨
        (i ≤ t ∧ t ≤ e ∧ S t = true) := by
  intro k
  induction k with
  | zero =>
    intro i cur hik hcur t
    cases cur with
    | none => simp [runsLoop, covered_nil]; omega
    | some s =>
      simp only [runsLoop, covered_cons, covered_nil, or_false]
      constructor
      · rintro ⟨h1, h2⟩
        exact Or.inl ⟨s, rfl, h1, h2, fun u hu hu' => by omega⟩
      · rintro (⟨s', hs', h1, h2, _⟩ | ⟨h1, h2, _⟩)
        · cases hs'; exact ⟨h1, h2⟩
        · omega
  | succ k ih =>
    intro i cur hik hcur t
    cases cur with
    | none =>
      cases hS : S i with
      | true =>
        simp only [runsLoop, hS]
        rw [ih (i + 1) (some i) (by omega) (by intro s hs; cases hs; omega)]
        constructor
        · rintro (⟨s, hs, h1, h2, h3⟩ | ⟨h1, h2, h3⟩)
          · cases hs
            refine Or.inr ⟨h1, h2, ?_⟩
            rcases Nat.eq_or_lt_of_le h1 with h | h
            · rw [← h]; exact hS
            · exact h3 t (by omega) le_rfl
          · exact Or.inr ⟨by omega, h2, h3⟩
        · rintro (⟨s, hs, _⟩ | ⟨h1, h2, h3⟩)
          · cases hs
          · by_cases hall : ∀ u, i + 1 ≤ u → u ≤ t → S u = true
            · exact Or.inl ⟨i, rfl, h1, h2, hall⟩
            · refine Or.inr ⟨?_, h2, h3⟩
              by_contra hlt
              apply hall
              intro u hu hu'
              have : u = t := by omega
              omega
      | false =>
        simp only [runsLoop, hS]
        rw [ih (i + 1) none (by omega) (by intro s hs; cases hs)]
        constructor
        · rintro (⟨s, hs, _⟩ | ⟨h1, h2, h3⟩)
          · cases hs
          · exact Or.inr ⟨by omega, h2, h3⟩
        · rintro (⟨s, hs, _⟩ | ⟨h1, h2, h3⟩)
          · cases hs
          · refine Or.inr ⟨?_, h2, h3⟩
            rcases Nat.eq_or_lt_of_le h1 with h | h
            · rw [← h, hS] at h3; cases h3
            · omega
    | some s =>
      have hs := hcur s rfl
      cases hS : S i with
      | true =>
        simp only [runsLoop, hS]
        rw [ih (i + 1) (some s) (by omega) (by intro s' hs'; cases hs'; omega)]
        constructor
        · rintro (⟨s', hs', h1, h2, h3⟩ | ⟨h1, h2, h3⟩)
          · cases hs'
            by_cases hti : t < i
            · exact Or.inl ⟨s, rfl, h1, h2, fun u hu hu' => by omega⟩
            · refine Or.inl ⟨s, rfl, h1, h2, fun u hu hu' => ?_⟩
              rcases Nat.eq_or_lt_of_le hu with h | h
              · rw [← h]; exact hS
              · exact h3 u (by omega) hu'
          · exact Or.inr ⟨by omega, h2, h3⟩
        · rintro (⟨s', hs', h1, h2, h3⟩ | ⟨h1, h2, h3⟩)
          · cases hs'
            exact Or.inl ⟨s, rfl, h1, h2, fun u hu hu' => h3 u (by omega) hu'⟩
          · by_cases hall : ∀ u, i + 1 ≤ u → u ≤ t → S u = true
            · exact Or.inl ⟨s, rfl, by omega, h2, hall⟩
            · refine Or.inr ⟨?_, h2, h3⟩
              by_contra hlt
              apply hall
              intro u hu hu'
              omega
      | false =>
        simp only [runsLoop, hS, covered_cons]
        rw [ih (i + 1) none (by omega) (by intro s' hs'; cases hs')]
        constructor
        · rintro (⟨h1, h2⟩ | ⟨s', hs', _⟩ | ⟨h1, h2, h3⟩)
          · exact Or.inl ⟨s, rfl, h1, by omega, fun u hu hu' => by omega⟩
          · cases hs'
          · exact Or.inr ⟨by omega, h2, h3⟩
        · rintro (⟨s', hs', h1, h2, h3⟩ | ⟨h1, h2, h3⟩)
          · cases hs'
            by_cases hti : t < i
            · exact Or.inl ⟨h1, by omega⟩
            · have := h3 i le_rfl (by omega)
              rw [hS] at this; cases this
          · refine Or.inr (Or.inr ⟨?_, h2, h3⟩)
            rcases Nat.eq_or_lt_of_le h1 with h | h
            · rw [← h, hS] at h3; cases h3
            · omega

theorem runsLoop_struct (S : Nat → Bool) (e : Nat) :
    ∀ (k i : Nat) (cur : Option Nat), i + k = e + 1 → (∀ s, cur = some s → s < i) →
      (∀ r ∈ runsLoop S e k i cur, r.1 ≤ r.2 ∧ r.2 ≤ e ∧ (cur.getD i) ≤ r.1) ∧
      Dj (runsLoop S e k i cur) := by
  intro k
  induction k with
  | zero =>
    intro i cur hik hcur
    cases cur with
    | none => simp [runsLoop, Dj]
    | some s =>
      have := hcur s rfl
      simp only [runsLoop, Dj, List.mem_singleton, List.pairwise_singleton, and_true, Option.getD_some]
      rintro r rfl
      simp; omega
  | succ k ih =>
    intro i cur hik hcur
    cases cur with
    | none =>
      cases hS : S i with
      | true =>
        simp only [runsLoop, hS]
        obtain ⟨h1, h2⟩ := ih (i + 1) (some i) (by omega) (by intro s hs; cases hs; omega)
        exact ⟨fun r hr => by simpa using h1 r hr, h2⟩
      | false =>
        simp only [runsLoop, hS]
        obtain ⟨h1, h2⟩ := ih (i + 1) none (by omega) (by intro s hs; cases hs)
        refine ⟨fun r hr => ?_, h2⟩
        have := h1 r hr
        simp only [Option.getD_none] at this ⊢
        omega
    | some s =>
      have hs := hcur s rfl
      cases hS : S i with
      | true =>
        simp only [runsLoop, hS]
        obtain ⟨h1, h2⟩ := ih (i + 1) (some s) (by omega) (by intro s' hs'; cases hs'; omega)
        exact ⟨fun r hr => by simpa using h1 r hr, h2⟩
      | false =>
        simp only [runsLoop, hS]
        obtain ⟨h1, h2⟩ := ih (i + 1) none (by omega) (by intro s' hs'; cases hs')
        refine ⟨fun r hr => ?_, ?_⟩
        · rcases List.mem_cons.1 hr with rfl | hr
          · simp; omega
          · have := h1 r hr
            simp only [Option.getD_none, Option.getD_some] at this ⊢
            omega
        · refine List.pairwise_cons.2 ⟨fun r hr => ?_, h2⟩
          have := h1 r hr
          simp only [Option.getD_none] at this
          show i - 1 < r.1
          omega

theorem runs_covered (S : Nat → Bool) (b e t : Nat) :
    covered (runs S b e) t ↔ b ≤ t ∧ t ≤ e ∧ S t = true := by
  unfold runs
  by_cases hbe : b ≤ e + 1
  · rw [runsLoop_covered S e (e + 1 - b) b none (by omega) (by intro s hs; cases hs)]
    constructor
    · rintro (⟨s, hs, _⟩ | h)
      · cases hs
      · exact h
    · exact Or.inr
  · have : e + 1 - b = 0 := by omega
    rw [this]
    simp only [runsLoop]
    constructor
    · intro h; exact absurd h (covered_nil t)
    · rintro ⟨h1, h2, _⟩; omega

theorem runs_struct (S : Nat → Bool) (b e : Nat) :
    (∀ r ∈ runs S b e, b ≤ r.1 ∧ r.1 ≤ r.2 ∧ r.2 ≤ e) ∧ Dj (runs S b e) := by
  unfold runs
  by_cases hbe : b ≤ e + 1
  · obtain ⟨h1, h2⟩ := runsLoop_struct S e (e + 1 - b) b none (by omega) (by intro s hs; cases hs)
    refine ⟨fun r hr => ?_, h2⟩
    have := h1 r hr
    simp only [Option.getD_none] at this
    omega
  · have : e + 1 - b = 0 := by omega
    rw [this]
    simp [runsLoop, Dj]

theorem runsAll_eq (S : Nat → Bool) (I : Ivs) :
    runsAll S I = I.flatMap (fun p => runs S p.1 p.2) := rfl

theorem runsAll_covered (S : Nat → Bool) (I : Ivs) (t : Nat) :
    covered (runsAll S I) t ↔ covered I t ∧ S t = true := by
  rw [runsAll_eq, covered_flatMap]
  constructor
  · rintro ⟨q, hq, h⟩
    rw [runs_covered] at h
    exact ⟨⟨q, hq, h.1, h.2.1⟩, h.2.2⟩
  · rintro ⟨⟨q, hq, h1, h2⟩, h3⟩
    exact ⟨q, hq, (runs_covered S q.1 q.2 t).2 ⟨h1, h2, h3⟩⟩

/-! ### well-formed interval lists -/

/-- The interval lists the explainer produces from `[(0,0)]`: non-empty intervals below `n`;
    every covered position below the begin of an interval is covered by an earlier interval, and
    every covered position above its end by a later one (so the first begin is the least covered
    position, the last end the greatest one — hereditarily under run-extraction). -/
def Good (n : Nat) (I : Ivs) : Prop :=
  (∀ p ∈ I, p.1 ≤ p.2 ∧ p.2 < n) ∧
  (∀ L p R, I = L ++ p :: R → ∀ t, covered I t → t < p.1 → covered L t) ∧
  (∀ L p R, I = L ++ p :: R → ∀ t, covered I t → p.2 < t → covered R t)

theorem good_nil (n : Nat) : Good n [] := by
  refine ⟨by simp, ?_, ?_⟩ <;> intro L p R h <;> simp at h

theorem good_singleton (n b e : Nat) (h1 : b ≤ e) (h2 : e < n) : Good n [(b, e)] := by
  refine ⟨by simp; omega, ?_, ?_⟩
  · intro L p R h t ht hlt
    cases L with
    | nil =>
      simp at h
      obtain ⟨rfl, _⟩ := h
      simp [covered] at ht
      omega
    | cons x L => simp at h
  · intro L p R h t ht hlt
    cases L with
    | nil =>
      simp at h
      obtain ⟨rfl, _⟩ := h
      simp [covered] at ht
      omega
    | cons x L => simp at h

theorem flatMap_eq_append_cons {β γ : Type} (h : β → List γ) :
    ∀ (I : List β) (L' : List γ) (r : γ) (R' : List γ), I.flatMap h = L' ++ r :: R' →
      ∃ L p R l l', I = L ++ p :: R ∧ h p = l ++ r :: l' ∧ L' = L.flatMap h ++ l ∧
        R' = l' ++ R.flatMap h := by
  intro I
  induction I with
  | nil => intro L' r R' h'; simp at h'
  | cons x xs ih =>
    intro L' r R' h'
    rw [List.flatMap_cons, List.append_eq_append_iff] at h'
    rcases h' with ⟨a', h1, h2⟩ | ⟨c', h1, h2⟩
    · obtain ⟨L, p, R, l, l', e1, e2, e3, e4⟩ := ih a' r R' h2
      refine ⟨x :: L, p, R, l, l', by simp [e1], e2, ?_, e4⟩
      rw [h1, e3]; simp
    · cases c' with
      | nil =>
        simp only [List.nil_append] at h2
        obtain ⟨L, p, R, l, l', e1, e2, e3, e4⟩ := ih [] r R' h2.symm
        refine ⟨x :: L, p, R, l, l', by simp [e1], e2, ?_, e4⟩
        simp only [List.append_nil] at h1
        rw [List.flatMap_cons, ← h1, List.append_assoc, ← e3]; simp
      | cons c cs =>
        simp only [List.cons_append, List.cons.injEq] at h2
        obtain ⟨rfl, rfl⟩ := h2
        exact ⟨[], x, xs, L', cs, rfl, h1, by simp, rfl⟩

theorem good_flatMap (n : Nat) (I : Ivs) (h : Nat × Nat → Ivs) (hI : Good n I)
    (hb : ∀ p ∈ I, ∀ r ∈ h p, r.1 ≤ r.2 ∧ r.2 < n)
    (hD : ∀ p ∈ I, Dj (h p))
    (hE : ∀ p ∈ I, ∀ q ∈ I, ∀ r ∈ h p, ∀ t, covered (h q) t → t < r.1 →
      covered (h p) t ∨ ∃ u, (q.1 ≤ u ∧ u ≤ q.2) ∧ u < p.1 ∧
        ∀ p'' ∈ I, p''.1 ≤ u → u ≤ p''.2 → covered (h p'') t)
    (hE' : ∀ p ∈ I, ∀ q ∈ I, ∀ r ∈ h p, ∀ t, covered (h q) t → r.2 < t →
      covered (h p) t ∨ ∃ u, (q.1 ≤ u ∧ u ≤ q.2) ∧ p.2 < u ∧
        ∀ p'' ∈ I, p''.1 ≤ u → u ≤ p''.2 → covered (h p'') t) :
    Good n (I.flatMap h) := by
  obtain ⟨hI1, hI2, hI3⟩ := hI
  refine ⟨?_, ?_, ?_⟩
  · intro r hr
    obtain ⟨p, hp, hrp⟩ := List.mem_flatMap.1 hr
    exact hb p hp r hrp
  · intro L' r R' hdec t ht hlt
    obtain ⟨L, p, R, l, l', e1, e2, e3, e4⟩ := flatMap_eq_append_cons h I L' r R' hdec
    have hpI : p ∈ I := by rw [e1]; simp
    have hrp : r ∈ h p := by rw [e2]; simp
    obtain ⟨q, hq, htq⟩ := (covered_flatMap h I t).1 ht
    rw [e3, covered_append]
    rcases hE p hpI q hq r hrp t htq hlt with hc | ⟨u, hu, hup, hall⟩
    · rw [e2, covered_append, covered_cons] at hc
      rcases hc with hc | hc | ⟨s, hs, hs1, hs2⟩
      · exact Or.inr hc
      · omega
      · exfalso
        have hd := hD p hpI
        rw [e2] at hd
        have := (List.pairwise_cons.1 (List.pairwise_append.1 hd).2.1).1 s hs
        have := (hb p hpI r hrp).1
        omega
    · have hcu : covered I u := ⟨q, hq, hu⟩
      obtain ⟨p'', hp'', h1, h2⟩ := hI2 L p R e1 u hcu hup
      have hp''I : p'' ∈ I := by rw [e1]; exact List.mem_append.2 (Or.inl hp'')
      exact Or.inl ((covered_flatMap h L t).2 ⟨p'', hp'', hall p'' hp''I h1 h2⟩)
  · intro L' r R' hdec t ht hlt
    obtain ⟨L, p, R, l, l', e1, e2, e3, e4⟩ := flatMap_eq_append_cons h I L' r R' hdec
    have hpI : p ∈ I := by rw [e1]; simp
    have hrp : r ∈ h p := by rw [e2]; simp
    obtain ⟨q, hq, htq⟩ := (covered_flatMap h I t).1 ht
    rw [e4, covered_append]
    rcases hE' p hpI q hq r hrp t htq hlt with hc | ⟨u, hu, hup, hall⟩
    · rw [e2, covered_append, covered_cons] at hc
      rcases hc with ⟨s, hs, hs1, hs2⟩ | hc | hc
      · exfalso
        have hd := hD p hpI
        rw [e2] at hd
        have := (List.pairwise_append.1 hd).2.2 s hs r (by simp)
        have := (hb p hpI r hrp).1
        omega
      · omega
      · exact Or.inl hc
    · have hcu : covered I u := ⟨q, hq, hu⟩
      obtain ⟨p'', hp'', h1, h2⟩ := hI3 L p R e1 u hcu hup
      have hp''I : p'' ∈ I := by rw [e1]; simp [hp'']
      exact Or.inr ((covered_flatMap h R t).2 ⟨p'', hp'', hall p'' hp''I h1 h2⟩)

theorem covered_singleton (b e t : Nat) : covered [(b, e)] t ↔ b ≤ t ∧ t ≤ e := by
  simp [covered]

theorem dj_singleton (p : Nat × Nat) : Dj [p] := List.pairwise_singleton _ _

theorem good_runsAll (n : Nat) (S : Nat → Bool) (I : Ivs) (hI : Good n I) :
    Good n (runsAll S I) := by
  rw [runsAll_eq]
  have hI1 := hI.1
  apply good_flatMap n I _ hI
  · intro p hp r hr
    have := (runs_struct S p.1 p.2).1 r hr
    have := hI1 p hp
    omega
  · intro p _
    exact (runs_struct S p.1 p.2).2
  · intro p hp q hq r hr t ht hlt
    rw [runs_covered] at ht
    have hr' := (runs_struct S p.1 p.2).1 r hr
    by_cases h : p.1 ≤ t
    · exact Or.inl ((runs_covered S p.1 p.2 t).2 ⟨h, by omega, ht.2.2⟩)
    · refine Or.inr ⟨t, ⟨ht.1, ht.2.1⟩, by omega, fun p'' _ h1 h2 => ?_⟩
      exact (runs_covered S p''.1 p''.2 t).2 ⟨h1, h2, ht.2.2⟩
  · intro p hp q hq r hr t ht hlt
    rw [runs_covered] at ht
    have hr' := (runs_struct S p.1 p.2).1 r hr
    by_cases h : t ≤ p.2
    · exact Or.inl ((runs_covered S p.1 p.2 t).2 ⟨by omega, h, ht.2.2⟩)
    · refine Or.inr ⟨t, ⟨ht.1, ht.2.1⟩, by omega, fun p'' _ h1 h2 => ?_⟩
      exact (runs_covered S p''.1 p''.2 t).2 ⟨h1, h2, ht.2.2⟩

theorem good_runs (n : Nat) (S : Nat → Bool) (b e : Nat) (h2 : e < n) : Good n (runs S b e) := by
  by_cases h1 : b ≤ e
  · have := good_runsAll n S [(b, e)] (good_singleton n b e h1 h2)
    simpa [runsAll] using this
  · have : e + 1 - b = 0 := by omega
    unfold runs
    rw [this]
    exact good_nil n

/-- The list passed down by the bounded future operators. -/
def fwdIvs (n a b : Nat) (I : Ivs) : Ivs :=
  I.map (fun (x, y) => (min (x + a) (n - 1), min (y + b) (n - 1)))
/-- The list passed down by the bounded past operators. -/
def bwdIvs (a b : Nat) (I : Ivs) : Ivs := I.map (fun (x, y) => (x - b, y - a))

theorem fwdIvs_eq (n a b : Nat) (I : Ivs) :
    fwdIvs n a b I = I.flatMap (fun p => [(min (p.1 + a) (n - 1), min (p.2 + b) (n - 1))]) := by
  unfold fwdIvs; rw [List.map_eq_flatMap]

theorem bwdIvs_eq (a b : Nat) (I : Ivs) :
    bwdIvs a b I = I.flatMap (fun p => [(p.1 - b, p.2 - a)]) := by
  unfold bwdIvs; rw [List.map_eq_flatMap]

theorem good_fwd (n a b : Nat) (hab : a ≤ b) (I : Ivs) (hI : Good n I) :
    Good n (fwdIvs n a b I) := by
  rw [fwdIvs_eq]
  have hI1 := hI.1
  apply good_flatMap n I _ hI
  · intro p hp r hr
    have := hI1 p hp
    rw [List.mem_singleton] at hr
    subst hr
    simp only
    omega
  · intro p _; exact dj_singleton _
  · intro p hp q hq r hr t ht hlt
    rw [List.mem_singleton] at hr
    subst hr
    rw [covered_singleton] at ht
    simp only at hlt
    have := hI1 q hq
    refine Or.inr ⟨max q.1 (t - b), by omega, by omega, fun p'' _ h1 h2 => ?_⟩
    rw [covered_singleton]
    omega
  · intro p hp q hq r hr t ht hlt
    rw [List.mem_singleton] at hr
    subst hr
    rw [covered_singleton] at ht
    simp only at hlt
    have := hI1 q hq
    have := hI1 p hp
    by_cases hj : q.1 + a ≤ t
    · refine Or.inr ⟨max q.1 (t - b), by omega, by omega, fun p'' _ h1 h2 => ?_⟩
      rw [covered_singleton]
      omega
    · refine Or.inr ⟨q.1, by omega, by omega, fun p'' _ h1 h2 => ?_⟩
      rw [covered_singleton]
      omega

theorem good_bwd (n a b : Nat) (hab : a ≤ b) (I : Ivs) (hI : Good n I) :
    Good n (bwdIvs a b I) := by
  rw [bwdIvs_eq]
  have hI1 := hI.1
  apply good_flatMap n I _ hI
  · intro p hp r hr
    have := hI1 p hp
    rw [List.mem_singleton] at hr
    subst hr
    simp only
    omega
  · intro p _; exact dj_singleton _
  · intro p hp q hq r hr t ht hlt
    rw [List.mem_singleton] at hr
    subst hr
    rw [covered_singleton] at ht
    simp only at hlt
    have := hI1 q hq
    by_cases h0 : t = 0
    · refine Or.inr ⟨q.1, by omega, by omega, fun p'' _ h1 h2 => ?_⟩
      rw [covered_singleton]
      omega
    · refine Or.inr ⟨max q.1 (t + a), by omega, by omega, fun p'' _ h1 h2 => ?_⟩
      rw [covered_singleton]
      omega
  · intro p hp q hq r hr t ht hlt
    rw [List.mem_singleton] at hr
    subst hr
    rw [covered_singleton] at ht
    simp only at hlt
    have := hI1 q hq
    refine Or.inr ⟨max q.1 (t + a), by omega, by omega, fun p'' _ h1 h2 => ?_⟩
    rw [covered_singleton]
    omega

def nextBlock (n : Nat) (p : Nat × Nat) : Ivs :=
  if p.1 < n - 1 ∧ p.2 < n - 1 then [(p.1 + 1, p.2 + 1)]
  else if p.1 < n - 1 ∧ n - 1 ≤ p.2 then [(p.1 + 1, p.2)] else []

def prevBlock (p : Nat × Nat) : Ivs :=
  if p.1 > 0 ∧ p.2 > 0 then [(p.1 - 1, p.2 - 1)]
  else if p.1 ≤ 0 ∧ p.2 > 0 then [(p.1, p.2 - 1)] else []

theorem explNext_eq (n : Nat) (I : Ivs) : explNext n I = I.flatMap (nextBlock n) := by
  unfold explNext
  rw [List.filterMap_eq_flatMap_toList]
  congr 1
  funext p
  unfold nextBlock
  by_cases h1 : p.1 < n - 1 ∧ p.2 < n - 1
  · rw [if_pos h1]; exact (congrArg Option.toList (if_pos h1)).trans rfl
  · by_cases h2 : p.1 < n - 1 ∧ n - 1 ≤ p.2
    · rw [if_neg h1, if_pos h2]
      exact (congrArg Option.toList ((if_neg h1).trans (if_pos h2))).trans rfl
    · rw [if_neg h1, if_neg h2]
      exact (congrArg Option.toList ((if_neg h1).trans (if_neg h2))).trans rfl

theorem explPrev_eq (I : Ivs) : explPrev I = I.flatMap prevBlock := by
  unfold explPrev
  rw [List.filterMap_eq_flatMap_toList]
  congr 1
  funext p
  unfold prevBlock
  by_cases h1 : p.1 > 0 ∧ p.2 > 0
  · rw [if_pos h1]; exact (congrArg Option.toList (if_pos h1)).trans rfl
  · by_cases h2 : p.1 ≤ 0 ∧ p.2 > 0
    · rw [if_neg h1, if_pos h2]
      exact (congrArg Option.toList ((if_neg h1).trans (if_pos h2))).trans rfl
    · rw [if_neg h1, if_neg h2]
      exact (congrArg Option.toList ((if_neg h1).trans (if_neg h2))).trans rfl

theorem nextBlock_covered (n : Nat) (p : Nat × Nat) (hp : p.1 ≤ p.2 ∧ p.2 < n) (t : Nat) :
    covered (nextBlock n p) t ↔ 1 ≤ t ∧ t < n ∧ p.1 ≤ t - 1 ∧ t - 1 ≤ p.2 := by
  obtain ⟨hp1, hp2⟩ := hp
  unfold nextBlock
  split_ifs with h1 h2
  · rw [covered_singleton]; omega
  · rw [covered_singleton]; omega
  · constructor
    · intro h; exact absurd h (covered_nil t)
    · intro h; omega

theorem prevBlock_covered (p : Nat × Nat) (hp : p.1 ≤ p.2) (t : Nat) :
    covered (prevBlock p) t ↔ p.1 ≤ t + 1 ∧ t + 1 ≤ p.2 := by
  have hp' : p.1 ≤ p.2 := hp
  unfold prevBlock
  split_ifs with h1 h2
  · rw [covered_singleton]; omega
  · rw [covered_singleton]; omega
  · constructor
    · intro h; exact absurd h (covered_nil t)
    · intro h; omega

theorem nextBlock_mem (n : Nat) (p r : Nat × Nat) (hp : p.1 ≤ p.2 ∧ p.2 < n) (hr : r ∈ nextBlock n p) :
    r.1 = p.1 + 1 ∧ r.1 ≤ r.2 ∧ r.2 < n ∧ (r.2 = p.2 + 1 ∨ r.2 = n - 1) := by
  unfold nextBlock at hr
  split_ifs at hr with h1 h2
  · rw [List.mem_singleton] at hr; subst hr
    refine ⟨rfl, ?_, ?_, ?_⟩ <;> dsimp only <;> omega
  · rw [List.mem_singleton] at hr; subst hr
    refine ⟨rfl, ?_, ?_, ?_⟩ <;> dsimp only <;> omega
  · cases hr

theorem prevBlock_mem (p r : Nat × Nat) (hp : p.1 ≤ p.2) (hr : r ∈ prevBlock p) :
    r.1 = p.1 - 1 ∧ r.1 ≤ r.2 ∧ r.2 + 1 = p.2 := by
  unfold prevBlock at hr
  split_ifs at hr with h1 h2
  · rw [List.mem_singleton] at hr; subst hr
    refine ⟨?_, ?_, ?_⟩ <;> dsimp only <;> omega
  · rw [List.mem_singleton] at hr; subst hr
    refine ⟨?_, ?_, ?_⟩ <;> dsimp only <;> omega
  · cases hr

theorem dj_block_next (n : Nat) (p : Nat × Nat) : Dj (nextBlock n p) := by
  unfold nextBlock
  split_ifs <;> simp [Dj]

theorem dj_block_prev (p : Nat × Nat) : Dj (prevBlock p) := by
  unfold prevBlock
  split_ifs <;> simp [Dj]

theorem good_explNext (n : Nat) (I : Ivs) (hI : Good n I) : Good n (explNext n I) := by
  rw [explNext_eq]
  have hI1 := hI.1
  apply good_flatMap n I _ hI
  · intro p hp r hr
    have := nextBlock_mem n p r (hI1 p hp) hr
    omega
  · intro p _; exact dj_block_next n p
  · intro p hp q hq r hr t ht hlt
    have hr' := nextBlock_mem n p r (hI1 p hp) hr
    rw [nextBlock_covered n q (hI1 q hq)] at ht
    refine Or.inr ⟨t - 1, by omega, by omega, fun p'' hp'' h1 h2 => ?_⟩
    rw [nextBlock_covered n p'' (hI1 p'' hp'')]
    omega
  · intro p hp q hq r hr t ht hlt
    have hr' := nextBlock_mem n p r (hI1 p hp) hr
    rw [nextBlock_covered n q (hI1 q hq)] at ht
    refine Or.inr ⟨t - 1, by omega, by omega, fun p'' hp'' h1 h2 => ?_⟩
    rw [nextBlock_covered n p'' (hI1 p'' hp'')]
    omega

theorem good_explPrev (n : Nat) (I : Ivs) (hI : Good n I) : Good n (explPrev I) := by
  rw [explPrev_eq]
  have hI1 := hI.1
  apply good_flatMap n I _ hI
  · intro p hp r hr
    have := prevBlock_mem p r (hI1 p hp).1 hr
    have := hI1 p hp
    omega
  · intro p _; exact dj_block_prev p
  · intro p hp q hq r hr t ht hlt
    have hr' := prevBlock_mem p r (hI1 p hp).1 hr
    rw [prevBlock_covered q (hI1 q hq).1] at ht
    refine Or.inr ⟨t + 1, by omega, by omega, fun p'' hp'' h1 h2 => ?_⟩
    rw [prevBlock_covered p'' (hI1 p'' hp'').1]
    omega
  · intro p hp q hq r hr t ht hlt
    have hr' := prevBlock_mem p r (hI1 p hp).1 hr
    rw [prevBlock_covered q (hI1 q hq).1] at ht
    refine Or.inr ⟨t + 1, by omega, by omega, fun p'' hp'' h1 h2 => ?_⟩
    rw [prevBlock_covered p'' (hI1 p'' hp'').1]
    omega

/-! coverage of the child lists (needed positions are covered) -/

theorem explPrev_covered (n : Nat) (I : Ivs) (hI : Good n I) (t : Nat) (ht : covered I (t + 1)) :
    covered (explPrev I) t := by
  rw [explPrev_eq, covered_flatMap]
  obtain ⟨p, hp, h⟩ := ht
  exact ⟨p, hp, (prevBlock_covered p (hI.1 p hp).1 t).2 h⟩

theorem explNext_covered (n : Nat) (I : Ivs) (hI : Good n I) (t : Nat) (ht : covered I t)
    (htn : t + 1 < n) : covered (explNext n I) (t + 1) := by
  rw [explNext_eq, covered_flatMap]
  obtain ⟨p, hp, h⟩ := ht
  exact ⟨p, hp, (nextBlock_covered n p (hI.1 p hp) (t + 1)).2 (by omega)⟩

theorem fwd_covered (n a b : Nat) (I : Ivs) (t w : Nat) (ht : covered I t)
    (h1 : t + a ≤ w) (h2 : w < min (t + b + 1) n) : covered (fwdIvs n a b I) w := by
  obtain ⟨p, hp, h⟩ := ht
  refine ⟨(min (p.1 + a) (n - 1), min (p.2 + b) (n - 1)), ?_, ?_⟩
  · unfold fwdIvs
    exact List.mem_map.2 ⟨p, hp, rfl⟩
  · simp only; omega

theorem bwd_covered (a b : Nat) (I : Ivs) (t w : Nat) (ht : covered I t)
    (h1 : t - b ≤ w) (h2 : w < t + 1 - a) : covered (bwdIvs a b I) w := by
  obtain ⟨p, hp, h⟩ := ht
  refine ⟨(p.1 - b, p.2 - a), ?_, ?_⟩
  · unfold bwdIvs
    exact List.mem_map.2 ⟨p, hp, rfl⟩
  · simp only; omega

theorem good_lt (n : Nat) (I : Ivs) (hI : Good n I) (t : Nat) (ht : covered I t) : t < n := by
  obtain ⟨p, hp, h⟩ := ht
  have := hI.1 p hp
  omega

theorem good_first (n : Nat) (I : Ivs) (hI : Good n I) (t : Nat) (ht : covered I t) :
    ∃ b, firstBegin I = some b ∧ b ≤ t ∧ b ≤ n - 1 := by
  cases I with
  | nil => exact absurd ht (covered_nil t)
  | cons p R =>
    refine ⟨p.1, rfl, ?_, ?_⟩
    · by_contra hlt
      exact covered_nil t (hI.2.1 [] p R rfl t ht (by omega))
    · have := hI.1 p (by simp); omega

theorem good_last (n : Nat) (I : Ivs) (hI : Good n I) (t : Nat) (ht : covered I t) :
    ∃ e, lastEnd I = some e ∧ t ≤ e ∧ e < n := by
  have hne : I ≠ [] := by
    rintro rfl; exact covered_nil t ht
  obtain ⟨L, p, rfl⟩ : ∃ L p, I = L ++ [p] := ⟨I.dropLast, I.getLast hne, (List.dropLast_append_getLast hne).symm⟩
  refine ⟨p.2, by simp [lastEnd], ?_, ?_⟩
  · by_contra hlt
    exact covered_nil t (hI.2.2 L p [] rfl t ht (by omega))
  · have := hI.1 p (by simp); omega

/-! ### order facts about polarities -/

theorem isUnsat_iff (v : α) : isUnsat v = true ↔ v < Val.zero := LawfulVal.lt_iff _ _

theorem isUnsat_false_iff (v : α) : isUnsat v = false ↔ Val.zero ≤ v := by
  rw [← not_lt, ← isUnsat_iff, Bool.not_eq_true]

theorem isSat_iff (v : α) : isSat v = true ↔ Val.zero ≤ v := by
  unfold isSat
  rw [Bool.not_eq_true', ← isUnsat_false_iff]; rfl

theorem isSat_false_iff (v : α) : isSat v = false ↔ v < Val.zero := by
  unfold isSat
  rw [Bool.not_eq_false', LawfulVal.lt_iff]

theorem neg_lt_zero_iff (hz : Val.neg (Val.zero : α) = Val.zero) (v : α) :
    Val.neg v < Val.zero ↔ Val.zero < v := by
  rw [← not_le, ← not_le, not_iff_not]
  conv_lhs => rw [← hz]
  exact neg_le_neg_iff _ _

theorem zero_lt_neg_iff (hz : Val.neg (Val.zero : α) = Val.zero) (v : α) :
    Val.zero < Val.neg v ↔ v < Val.zero := by
  rw [← not_le, ← not_le, not_iff_not]
  conv_lhs => rw [← hz]
  exact neg_le_neg_iff _ _

/-- Monotone preservation: `v'` is "at least as satisfied" as a strictly satisfied `v`
    (`flag = true`), resp. "at least as violated" as a violated `v` (`flag = false`). -/
def pres (flag : Bool) (v v' : α) : Prop :=
  if flag then (Val.zero < v → v ≤ v') else (v < Val.zero → v' ≤ v)

theorem pres_of_eq (flag : Bool) {v v' : α} (h : v' = v) : pres flag v v' := by
  subst h; unfold pres; split <;> intro _ <;> exact le_rfl

theorem pres_true_of_not_sat {v v' : α} (h : isSat v = false) : pres true v v' := by
  rw [isSat_false_iff] at h
  intro h'; exact absurd h (not_lt.2 (le_of_lt h'))

theorem pres_false_of_not_unsat {v v' : α} (h : isUnsat v = false) : pres false v v' := by
  rw [isUnsat_false_iff] at h
  intro h'; exact absurd h' (not_lt.2 h)

theorem pres_neg (hz : Val.neg (Val.zero : α) = Val.zero) (flag : Bool) {v v' : α}
    (h : pres (!flag) v v') : pres flag (Val.neg v) (Val.neg v') := by
  cases flag with
  | false =>
    intro h'
    exact (neg_le_neg_iff _ _).2 (h ((neg_lt_zero_iff hz v).1 h'))
  | true =>
    intro h'
    exact (neg_le_neg_iff _ _).2 (h ((zero_lt_neg_iff hz v).1 h'))

theorem pres_min (flag : Bool) {a a' b b' : α} (ha : pres flag a a') (hb : pres flag b b') :
    pres flag (min a b) (min a' b') := by
  cases flag with
  | true =>
    intro h
    rw [lt_min_iff] at h
    exact min_le_min (ha h.1) (hb h.2)
  | false =>
    intro h
    rcases le_total a b with hab | hab
    · rw [min_eq_left hab] at h ⊢
      exact le_trans (min_le_left _ _) (ha h)
    · rw [min_eq_right hab] at h ⊢
      exact le_trans (min_le_right _ _) (hb h)

theorem pres_max (flag : Bool) {a a' b b' : α} (ha : pres flag a a') (hb : pres flag b b') :
    pres flag (max a b) (max a' b') := by
  cases flag with
  | false =>
    intro h
    rw [max_lt_iff] at h
    exact max_le_max (ha h.1) (hb h.2)
  | true =>
    intro h
    rcases le_total a b with hab | hab
    · rw [max_eq_right hab] at h ⊢
      exact le_trans (hb h) (le_max_right _ _)
    · rw [max_eq_left hab] at h ⊢
      exact le_trans (ha h) (le_max_left _ _)

theorem minOver_le (lo hi : Nat) (f : Nat → α) (w : Nat) (h1 : lo ≤ w) (h2 : w < hi) :
    minOver lo hi f ≤ f w := (le_minOver_iff lo hi f _).1 le_rfl w h1 h2

theorem le_maxOver (lo hi : Nat) (f : Nat → α) (w : Nat) (h1 : lo ≤ w) (h2 : w < hi) :
    f w ≤ maxOver lo hi f := (maxOver_le_iff lo hi f _).1 le_rfl w h1 h2

theorem pres_minOver (flag : Bool) (lo hi : Nat) (f f' : Nat → α)
    (h : ∀ w, lo ≤ w → w < hi → pres flag (f w) (f' w)) :
    pres flag (minOver lo hi f) (minOver lo hi f') := by
  cases flag with
  | true =>
    intro h0
    rw [le_minOver_iff]
    intro w h1 h2
    have hw := minOver_le lo hi f w h1 h2
    exact le_trans hw (h w h1 h2 (lt_of_lt_of_le h0 hw))
  | false =>
    intro h0
    have hex : ∃ w, lo ≤ w ∧ w < hi ∧ f w < Val.zero := by
      by_contra hne
      refine absurd h0 (not_lt.2 ((le_minOver_iff lo hi f _).2 fun w h1 h2 => ?_))
      by_contra hlt
      exact hne ⟨w, h1, h2, not_le.1 hlt⟩
    obtain ⟨w0, h01, h02, h03⟩ := hex
    rw [le_minOver_iff]
    intro w h1 h2
    by_cases hw : f w < Val.zero
    · exact le_trans (minOver_le lo hi f' w h1 h2) (h w h1 h2 hw)
    · refine le_trans (minOver_le lo hi f' w0 h01 h02) (le_trans (h w0 h01 h02 h03) ?_)
      exact le_trans (le_of_lt h03) (not_lt.1 hw)

theorem pres_maxOver (flag : Bool) (lo hi : Nat) (f f' : Nat → α)
    (h : ∀ w, lo ≤ w → w < hi → pres flag (f w) (f' w)) :
    pres flag (maxOver lo hi f) (maxOver lo hi f') := by
  cases flag with
  | false =>
    intro h0
    rw [maxOver_le_iff]
    intro w h1 h2
    have hw := le_maxOver lo hi f w h1 h2
    exact le_trans (h w h1 h2 (lt_of_le_of_lt hw h0)) hw
  | true =>
    intro h0
    have hex : ∃ w, lo ≤ w ∧ w < hi ∧ Val.zero < f w := by
      by_contra hne
      refine absurd h0 (not_lt.2 ((maxOver_le_iff lo hi f _).2 fun w h1 h2 => ?_))
      by_contra hlt
      exact hne ⟨w, h1, h2, not_le.1 hlt⟩
    obtain ⟨w0, h01, h02, h03⟩ := hex
    rw [maxOver_le_iff]
    intro w h1 h2
    by_cases hw : Val.zero < f w
    · exact le_trans (h w h1 h2 hw) (le_maxOver lo hi f' w h1 h2)
    · refine le_trans ?_ (le_trans (h w0 h01 h02 h03) (le_maxOver lo hi f' w0 h01 h02))
      exact le_trans (not_lt.1 hw) (le_of_lt h03)

/-! ### the explainer: basic facts -/

theorem both_ok {x y : Except Unit (List (String × Ivs))} {ex : List (String × Ivs)}
    (h : (do let a ← x; let b ← y; pure (a ++ b)) = .ok ex) :
    ∃ a b, x = .ok a ∧ y = .ok b ∧ ex = a ++ b := by
  cases x with
  | error e => cases h
  | ok a =>
    cases y with
    | error e => cases h
    | ok b =>
      refine ⟨a, b, rfl, rfl, ?_⟩
      cases h; rfl

theorem reported_append (a b : List (String × Ivs)) (x : String) (t : Nat) :
    reported (a ++ b) x t = (reported a x t || reported b x t) := by
  unfold reported; rw [List.any_append]

theorem reported_var (x : String) (I : Ivs) (t : Nat) (h : covered I t) :
    reported [(x, I)] x t = true := by
  obtain ⟨p, hp, h1, h2⟩ := h
  unfold reported
  simp only [List.any_cons, List.any_nil, Bool.or_false, beq_self_eq_true, Bool.true_and,
    List.any_eq_true]
  exact ⟨p, hp, by simp [h1, h2]⟩

/-- Point-wise operators whose explanation passes the interval list unchanged (whatever the
    polarity) or shifts it by one sample: all positions the value depends on are reported. -/
def F.explExact : F α → Bool
  | .var _ => true
  | .const _ => true
  | .un _ φ => φ.explExact
  | .bin op φ ψ =>
      (match op with | .and | .or | .implies => false | _ => true) && φ.explExact && ψ.explExact
  | .tmp1 op φ => (match op with | .prev | .sprev | .next | .snext => true | _ => false) && φ.explExact
  | _ => false

omit [Val α] [LawfulVal α] in
theorem explTerm_explExact : ∀ (φ : F α), φ.explTerm = true → φ.explExact = true
  | .var _, _ => rfl
  | .const _, _ => rfl
  | .un op φ, h => by
    simp only [F.explTerm, Bool.and_eq_true] at h
    simp only [F.explExact]
    exact explTerm_explExact φ h.2
  | .bin op φ ψ, h => by
    simp only [F.explTerm, Bool.and_eq_true] at h
    simp only [F.explExact, Bool.and_eq_true]
    refine ⟨⟨?_, explTerm_explExact φ h.1.2⟩, explTerm_explExact ψ h.2⟩
    cases op <;> first | rfl | exact absurd h.1.1 (by simp)
  | .tmp1 _ _, h => by simp [F.explTerm] at h
  | .tmp2 _ _ _, h => by simp [F.explTerm] at h
  | .tb1 _ _ _ _, h => by simp [F.explTerm] at h
  | .tb2 _ _ _ _ _, h => by simp [F.explTerm] at h

omit [LawfulVal α] in
theorem explain_bin_exact (σ : String → Nat → α) (n : Nat) (op : Bin) (φ ψ : F α) (I : Ivs)
    (flag : Bool) (hop : (match op with | .and | .or | .implies => false | _ => true) = true) :
    explain σ n (.bin op φ ψ) I flag =
      (do let a ← explain σ n φ I flag; let b ← explain σ n ψ I flag; pure (a ++ b)) := by
  cases op <;> cases flag <;> first | rfl | cases hop

omit [LawfulVal α] in
theorem exact_rho (σ σ' : String → Nat → α) (n : Nat) :
    ∀ (φ : F α), φ.explExact = true → ∀ (I : Ivs) (flag : Bool) (ex : List (String × Ivs)),
      explain σ n φ I flag = .ok ex → Good n I →
      (∀ x t, reported ex x t = true → t < n → σ' x t = σ x t) →
      ∀ t, covered I t → rho σ' n φ t = rho σ n φ t
  | .var x, _, I, flag, ex, hex, hI, hag, t, ht => by
    simp only [explain, Except.ok.injEq] at hex
    subst hex
    simp only [rho]
    exact hag x t (reported_var x I t ht) (good_lt n I hI t ht)
  | .const c, _, I, flag, ex, hex, hI, hag, t, ht => rfl
  | .un op φ, hx, I, flag, ex, hex, hI, hag, t, ht => by
    simp only [F.explExact] at hx
    have key : ∃ fl, explain σ n φ I fl = .ok ex := by
      cases op <;> first | exact ⟨flag, hex⟩ | exact ⟨!flag, hex⟩
    obtain ⟨fl, hex'⟩ := key
    simp only [rho]
    rw [exact_rho σ σ' n φ hx I fl ex hex' hI hag t ht]
  | .bin op φ ψ, hx, I, flag, ex, hex, hI, hag, t, ht => by
    simp only [F.explExact, Bool.and_eq_true] at hx
    rw [explain_bin_exact σ n op φ ψ I flag hx.1.1] at hex
    obtain ⟨a, b, h1, h2, rfl⟩ := both_ok hex
    simp only [rho]
    rw [exact_rho σ σ' n φ hx.1.2 I flag a h1 hI
          (fun x t h => hag x t (by rw [reported_append, h]; rfl)) t ht,
        exact_rho σ σ' n ψ hx.2 I flag b h2 hI
          (fun x t h => hag x t (by rw [reported_append, h]; simp)) t ht]
  | .tmp1 op φ, hx, I, flag, ex, hex, hI, hag, t, ht => by
    simp only [F.explExact, Bool.and_eq_true] at hx
    obtain ⟨hop, hx⟩ := hx
    have ih := exact_rho σ σ' n φ hx
    cases op <;> try (simp at hop; done)
    · -- prev
      have hex' : explain σ n φ (explPrev I) flag = .ok ex := by cases flag <;> exact hex
      simp only [rho]
      by_cases h0 : t = 0
      · simp [h0]
      · rw [if_neg h0, if_neg h0]
        exact ih _ flag ex hex' (good_explPrev n I hI) hag (t - 1)
          (explPrev_covered n I hI (t - 1) (by rwa [Nat.sub_add_cancel (by omega)]))
    · -- sprev
      have hex' : explain σ n φ (explPrev I) flag = .ok ex := by cases flag <;> exact hex
      simp only [rho]
      by_cases h0 : t = 0
      · simp [h0]
      · rw [if_neg h0, if_neg h0]
        exact ih _ flag ex hex' (good_explPrev n I hI) hag (t - 1)
          (explPrev_covered n I hI (t - 1) (by rwa [Nat.sub_add_cancel (by omega)]))
    · -- next
      have hex' : explain σ n φ (explNext n I) flag = .ok ex := by cases flag <;> exact hex
      simp only [rho]
      by_cases h0 : t + 1 < n
      · rw [if_pos h0, if_pos h0]
        exact ih _ flag ex hex' (good_explNext n I hI) hag (t + 1) (explNext_covered n I hI t ht h0)
      · rw [if_neg h0, if_neg h0]
    · -- snext
      have hex' : explain σ n φ (explNext n I) flag = .ok ex := by cases flag <;> exact hex
      simp only [rho]
      by_cases h0 : t + 1 < n
      · rw [if_pos h0, if_pos h0]
        exact ih _ flag ex hex' (good_explNext n I hI) hag (t + 1) (explNext_covered n I hI t ht h0)
      · rw [if_neg h0, if_neg h0]
  | .tmp2 _ _ _, hx, _, _, _, _, _, _, _, _ => by simp [F.explExact] at hx
  | .tb1 _ _ _ _, hx, _, _, _, _, _, _, _, _ => by simp [F.explExact] at hx
  | .tb2 _ _ _ _ _, hx, _, _, _, _, _, _, _, _ => by simp [F.explExact] at hx

theorem pres_sel_false (f f' : Nat → α) (K : Ivs)
    (h : ∀ w, covered (runsAll (fun i => isUnsat (f i)) K) w → pres false (f w) (f' w)) :
    ∀ w, covered K w → pres false (f w) (f' w) := by
  intro w hw
  cases hS : isUnsat (f w) with
  | false => exact pres_false_of_not_unsat hS
  | true => exact h w ((runsAll_covered _ K w).2 ⟨hw, hS⟩)

theorem pres_sel_true (f f' : Nat → α) (K : Ivs)
    (h : ∀ w, covered (runsAll (fun i => isSat (f i)) K) w → pres true (f w) (f' w)) :
    ∀ w, covered K w → pres true (f w) (f' w) := by
  intro w hw
  cases hS : isSat (f w) with
  | false => exact pres_true_of_not_sat hS
  | true => exact h w ((runsAll_covered _ K w).2 ⟨hw, hS⟩)

theorem pres_selr_false (f f' : Nat → α) (b e : Nat)
    (h : ∀ w, covered (runs (fun i => isUnsat (f i)) b e) w → pres false (f w) (f' w)) :
    ∀ w, b ≤ w → w ≤ e → pres false (f w) (f' w) := by
  intro w h1 h2
  cases hS : isUnsat (f w) with
  | false => exact pres_false_of_not_unsat hS
  | true => exact h w ((runs_covered _ b e w).2 ⟨h1, h2, hS⟩)

theorem pres_selr_true (f f' : Nat → α) (b e : Nat)
    (h : ∀ w, covered (runs (fun i => isSat (f i)) b e) w → pres true (f w) (f' w)) :
    ∀ w, b ≤ w → w ≤ e → pres true (f w) (f' w) := by
  intro w h1 h2
  cases hS : isSat (f w) with
  | false => exact pres_true_of_not_sat hS
  | true => exact h w ((runs_covered _ b e w).2 ⟨h1, h2, hS⟩)

omit [Val α] [LawfulVal α] in
theorem hag_left {σ σ' : String → Nat → α} {n : Nat} {a b : List (String × Ivs)}
    (hag : ∀ x t, reported (a ++ b) x t = true → t < n → σ' x t = σ x t) :
    ∀ x t, reported a x t = true → t < n → σ' x t = σ x t :=
  fun x t h => hag x t (by rw [reported_append, h]; rfl)

omit [Val α] [LawfulVal α] in
theorem hag_right {σ σ' : String → Nat → α} {n : Nat} {a b : List (String × Ivs)}
    (hag : ∀ x t, reported (a ++ b) x t = true → t < n → σ' x t = σ x t) :
    ∀ x t, reported b x t = true → t < n → σ' x t = σ x t :=
  fun x t h => hag x t (by rw [reported_append, h]; simp)

/-- The monotone invariant of the explainer. -/
theorem C20_mono (hz : Val.neg (Val.zero : α) = Val.zero) (σ σ' : String → Nat → α) (n : Nat) :
    ∀ (φ : F α), φ.explFrag = true →
      ∀ (I : Ivs) (flag : Bool) (ex : List (String × Ivs)),
      explain σ n φ I flag = .ok ex → Good n I →
      (∀ x t, reported ex x t = true → t < n → σ' x t = σ x t) →
      ∀ t, covered I t → pres flag (rho σ n φ t) (rho σ' n φ t)
  | .var _, hf, _, _, _, _, _, _, _, _ => by simp [F.explFrag] at hf
  | .const _, hf, _, _, _, _, _, _, _, _ => by simp [F.explFrag] at hf
  | .un op φ, hf, I, flag, ex, hex, hI, hag, t, ht => by
    simp only [F.explFrag, Bool.and_eq_true] at hf
    cases op <;> try (simp at hf; done)
    have hex' : explain σ n φ I (!flag) = .ok ex := hex
    exact pres_neg hz flag (C20_mono hz σ σ' n φ hf.2 I (!flag) ex hex' hI hag t ht)
  | .bin op φ ψ, hf, I, flag, ex, hex, hI, hag, t, ht => by
    cases op with
    | pred c =>
      simp only [F.explFrag, Bool.and_eq_true] at hf
      have hx : (F.bin (.pred c) φ ψ).explExact = true := by
        simp only [F.explExact, Bool.and_eq_true]
        exact ⟨⟨trivial, explTerm_explExact φ hf.1⟩, explTerm_explExact ψ hf.2⟩
      exact pres_of_eq flag (exact_rho σ σ' n _ hx I flag ex hex hI hag t ht)
    | and =>
      simp only [F.explFrag, Bool.and_eq_true] at hf
      have ih1 := C20_mono hz σ σ' n φ hf.1
      have ih2 := C20_mono hz σ σ' n ψ hf.2
      show pres flag (pmin (rho σ n φ t) (rho σ n ψ t)) (pmin (rho σ' n φ t) (rho σ' n ψ t))
      rw [pmin_eq, pmin_eq]
      cases flag with
      | true =>
        obtain ⟨a, b, h1, h2, rfl⟩ := both_ok hex
        exact pres_min true (ih1 I true a h1 hI (hag_left hag) t ht)
          (ih2 I true b h2 hI (hag_right hag) t ht)
      | false =>
        obtain ⟨a, b, h1, h2, rfl⟩ := both_ok hex
        exact pres_min false
          (pres_sel_false (rho σ n φ) (rho σ' n φ) I
            (ih1 _ false a h1 (good_runsAll n _ I hI) (hag_left hag)) t ht)
          (pres_sel_false (rho σ n ψ) (rho σ' n ψ) I
            (ih2 _ false b h2 (good_runsAll n _ I hI) (hag_right hag)) t ht)
    | or =>
      simp only [F.explFrag, Bool.and_eq_true] at hf
      have ih1 := C20_mono hz σ σ' n φ hf.1
      have ih2 := C20_mono hz σ σ' n ψ hf.2
      show pres flag (pmax (rho σ n φ t) (rho σ n ψ t)) (pmax (rho σ' n φ t) (rho σ' n ψ t))
      rw [pmax_eq, pmax_eq]
      cases flag with
      | false =>
        obtain ⟨a, b, h1, h2, rfl⟩ := both_ok hex
        exact pres_max false (ih1 I false a h1 hI (hag_left hag) t ht)
          (ih2 I false b h2 hI (hag_right hag) t ht)
      | true =>
        obtain ⟨a, b, h1, h2, rfl⟩ := both_ok hex
        exact pres_max true
          (pres_sel_true (rho σ n φ) (rho σ' n φ) I
            (ih1 _ true a h1 (good_runsAll n _ I hI) (hag_left hag)) t ht)
          (pres_sel_true (rho σ n ψ) (rho σ' n ψ) I
            (ih2 _ true b h2 (good_runsAll n _ I hI) (hag_right hag)) t ht)
    | implies =>
      simp only [F.explFrag, Bool.and_eq_true] at hf
      have ih1 := C20_mono hz σ σ' n φ hf.1
      have ih2 := C20_mono hz σ σ' n ψ hf.2
      show pres flag (pmax (Val.neg (rho σ n φ t)) (rho σ n ψ t))
        (pmax (Val.neg (rho σ' n φ t)) (rho σ' n ψ t))
      rw [pmax_eq, pmax_eq]
      cases flag with
      | false =>
        obtain ⟨a, b, h1, h2, rfl⟩ := both_ok hex
        exact pres_max false (pres_neg hz false (ih1 I true a h1 hI (hag_left hag) t ht))
          (ih2 I false b h2 hI (hag_right hag) t ht)
      | true =>
        obtain ⟨a, b, h1, h2, rfl⟩ := both_ok hex
        exact pres_max true
          (pres_neg hz true (pres_sel_false (rho σ n φ) (rho σ' n φ) I
            (ih1 _ false a h1 (good_runsAll n _ I hI) (hag_left hag)) t ht))
          (pres_sel_true (rho σ n ψ) (rho σ' n ψ) I
            (ih2 _ true b h2 (good_runsAll n _ I hI) (hag_right hag)) t ht)
    | _ => simp [F.explFrag] at hf
  | .tmp1 op φ, hf, I, flag, ex, hex, hI, hag, t, ht => by
    simp only [F.explFrag, Bool.and_eq_true] at hf
    have ih := C20_mono hz σ σ' n φ hf.2
    have htn := good_lt n I hI t ht
    cases op with
    | rise => simp at hf
    | fall => simp at hf
    | prev =>
      have hex' : explain σ n φ (explPrev I) flag = .ok ex := by cases flag <;> exact hex
      show pres flag (if t = 0 then pinf else rho σ n φ (t - 1))
        (if t = 0 then pinf else rho σ' n φ (t - 1))
      by_cases h0 : t = 0
      · rw [if_pos h0, if_pos h0]; exact pres_of_eq flag rfl
      · rw [if_neg h0, if_neg h0]
        exact ih _ flag ex hex' (good_explPrev n I hI) hag (t - 1)
          (explPrev_covered n I hI (t - 1) (by rwa [Nat.sub_add_cancel (by omega)]))
    | sprev =>
      have hex' : explain σ n φ (explPrev I) flag = .ok ex := by cases flag <;> exact hex
      show pres flag (if t = 0 then ninf else rho σ n φ (t - 1))
        (if t = 0 then ninf else rho σ' n φ (t - 1))
      by_cases h0 : t = 0
      · rw [if_pos h0, if_pos h0]; exact pres_of_eq flag rfl
      · rw [if_neg h0, if_neg h0]
        exact ih _ flag ex hex' (good_explPrev n I hI) hag (t - 1)
          (explPrev_covered n I hI (t - 1) (by rwa [Nat.sub_add_cancel (by omega)]))
    | next =>
      have hex' : explain σ n φ (explNext n I) flag = .ok ex := by cases flag <;> exact hex
      show pres flag (if t + 1 < n then rho σ n φ (t + 1) else pinf)
        (if t + 1 < n then rho σ' n φ (t + 1) else pinf)
      by_cases h0 : t + 1 < n
      · rw [if_pos h0, if_pos h0]
        exact ih _ flag ex hex' (good_explNext n I hI) hag (t + 1) (explNext_covered n I hI t ht h0)
      · rw [if_neg h0, if_neg h0]; exact pres_of_eq flag rfl
    | snext =>
      have hex' : explain σ n φ (explNext n I) flag = .ok ex := by cases flag <;> exact hex
      show pres flag (if t + 1 < n then rho σ n φ (t + 1) else ninf)
        (if t + 1 < n then rho σ' n φ (t + 1) else ninf)
      by_cases h0 : t + 1 < n
      · rw [if_pos h0, if_pos h0]
        exact ih _ flag ex hex' (good_explNext n I hI) hag (t + 1) (explNext_covered n I hI t ht h0)
      · rw [if_neg h0, if_neg h0]; exact pres_of_eq flag rfl
    | alw =>
      obtain ⟨b, hb, hbt, hbn⟩ := good_first n I hI t ht
      show pres flag (minOver t n (rho σ n φ)) (minOver t n (rho σ' n φ))
      apply pres_minOver
      intro w h1 h2
      cases flag with
      | true =>
        have hex' : explain σ n φ (match firstBegin I with | some b => [(b, n - 1)] | none => []) true
            = .ok ex := hex
        rw [hb] at hex'
        exact ih _ true ex hex' (good_singleton n b (n - 1) hbn (by omega)) hag w
          ((covered_singleton _ _ w).2 ⟨by omega, by omega⟩)
      | false =>
        have hex' : explain σ n φ (match firstBegin I with
            | some b => runs (fun i => isUnsat (rho σ n φ i)) b (n - 1) | none => []) false
            = .ok ex := hex
        rw [hb] at hex'
        exact pres_selr_false (rho σ n φ) (rho σ' n φ) b (n - 1)
          (ih _ false ex hex' (good_runs n _ b (n - 1) (by omega)) hag) w (by omega) (by omega)
    | ev =>
      obtain ⟨b, hb, hbt, hbn⟩ := good_first n I hI t ht
      show pres flag (maxOver t n (rho σ n φ)) (maxOver t n (rho σ' n φ))
      apply pres_maxOver
      intro w h1 h2
      cases flag with
      | false =>
        have hex' : explain σ n φ (match firstBegin I with | some b => [(b, n - 1)] | none => []) false
            = .ok ex := hex
        rw [hb] at hex'
        exact ih _ false ex hex' (good_singleton n b (n - 1) hbn (by omega)) hag w
          ((covered_singleton _ _ w).2 ⟨by omega, by omega⟩)
      | true =>
        have hex' : explain σ n φ (match firstBegin I with
            | some b => runs (fun i => isSat (rho σ n φ i)) b (n - 1) | none => []) true
            = .ok ex := hex
        rw [hb] at hex'
        exact pres_selr_true (rho σ n φ) (rho σ' n φ) b (n - 1)
          (ih _ true ex hex' (good_runs n _ b (n - 1) (by omega)) hag) w (by omega) (by omega)
    | hist =>
      obtain ⟨e, he, hte, hen⟩ := good_last n I hI t ht
      show pres flag (minOver 0 (t + 1) (rho σ n φ)) (minOver 0 (t + 1) (rho σ' n φ))
      apply pres_minOver
      intro w h1 h2
      cases flag with
      | true =>
        have hex' : explain σ n φ (match lastEnd I with | some e => [(0, e)] | none => []) true
            = .ok ex := hex
        rw [he] at hex'
        exact ih _ true ex hex' (good_singleton n 0 e (by omega) hen) hag w
          ((covered_singleton _ _ w).2 ⟨by omega, by omega⟩)
      | false =>
        have hex' : explain σ n φ (match lastEnd I with
            | some e => runs (fun i => isUnsat (rho σ n φ i)) 0 e | none => []) false
            = .ok ex := hex
        rw [he] at hex'
        exact pres_selr_false (rho σ n φ) (rho σ' n φ) 0 e
          (ih _ false ex hex' (good_runs n _ 0 e hen) hag) w (by omega) (by omega)
    | once =>
      obtain ⟨e, he, hte, hen⟩ := good_last n I hI t ht
      show pres flag (maxOver 0 (t + 1) (rho σ n φ)) (maxOver 0 (t + 1) (rho σ' n φ))
      apply pres_maxOver
      intro w h1 h2
      cases flag with
      | false =>
        have hex' : explain σ n φ (match lastEnd I with | some e => [(0, e)] | none => []) false
            = .ok ex := hex
        rw [he] at hex'
        exact ih _ false ex hex' (good_singleton n 0 e (by omega) hen) hag w
          ((covered_singleton _ _ w).2 ⟨by omega, by omega⟩)
      | true =>
        have hex' : explain σ n φ (match lastEnd I with
            | some e => runs (fun i => isSat (rho σ n φ i)) 0 e | none => []) true
            = .ok ex := hex
        rw [he] at hex'
        exact pres_selr_true (rho σ n φ) (rho σ' n φ) 0 e
          (ih _ true ex hex' (good_runs n _ 0 e hen) hag) w (by omega) (by omega)
  | .tmp2 _ _ _, hf, _, _, _, _, _, _, _, _ => by simp [F.explFrag] at hf
  | .tb1 op a b φ, hf, I, flag, ex, hex, hI, hag, t, ht => by
    simp only [F.explFrag, Bool.and_eq_true, decide_eq_true_eq] at hf
    have ih := C20_mono hz σ σ' n φ hf.2
    have hab := hf.1
    cases op with
    | alw =>
      show pres flag (minOver (t + a) (min (t + b + 1) n) (rho σ n φ))
        (minOver (t + a) (min (t + b + 1) n) (rho σ' n φ))
      apply pres_minOver
      intro w h1 h2
      have hw := fwd_covered n a b I t w ht h1 h2
      cases flag with
      | true =>
        have hex' : explain σ n φ (fwdIvs n a b I) true = .ok ex := hex
        exact ih _ true ex hex' (good_fwd n a b hab I hI) hag w hw
      | false =>
        have hex' : explain σ n φ (runsAll (fun i => isUnsat (rho σ n φ i)) (fwdIvs n a b I)) false
            = .ok ex := hex
        exact pres_sel_false (rho σ n φ) (rho σ' n φ) _
          (ih _ false ex hex' (good_runsAll n _ _ (good_fwd n a b hab I hI)) hag) w hw
    | ev =>
      show pres flag (maxOver (t + a) (min (t + b + 1) n) (rho σ n φ))
        (maxOver (t + a) (min (t + b + 1) n) (rho σ' n φ))
      apply pres_maxOver
      intro w h1 h2
      have hw := fwd_covered n a b I t w ht h1 h2
      cases flag with
      | false =>
        have hex' : explain σ n φ (fwdIvs n a b I) false = .ok ex := hex
        exact ih _ false ex hex' (good_fwd n a b hab I hI) hag w hw
      | true =>
        have hex' : explain σ n φ (runsAll (fun i => isSat (rho σ n φ i)) (fwdIvs n a b I)) true
            = .ok ex := hex
        exact pres_sel_true (rho σ n φ) (rho σ' n φ) _
          (ih _ true ex hex' (good_runsAll n _ _ (good_fwd n a b hab I hI)) hag) w hw
    | hist =>
      show pres flag (minOver (t - b) (t + 1 - a) (rho σ n φ))
        (minOver (t - b) (t + 1 - a) (rho σ' n φ))
      apply pres_minOver
      intro w h1 h2
      have hw := bwd_covered a b I t w ht h1 h2
      cases flag with
      | true =>
        have hex' : explain σ n φ (bwdIvs a b I) true = .ok ex := hex
        exact ih _ true ex hex' (good_bwd n a b hab I hI) hag w hw
      | false =>
        have hex' : explain σ n φ (runsAll (fun i => isUnsat (rho σ n φ i)) (bwdIvs a b I)) false
            = .ok ex := hex
        exact pres_sel_false (rho σ n φ) (rho σ' n φ) _
          (ih _ false ex hex' (good_runsAll n _ _ (good_bwd n a b hab I hI)) hag) w hw
    | once =>
      show pres flag (maxOver (t - b) (t + 1 - a) (rho σ n φ))
        (maxOver (t - b) (t + 1 - a) (rho σ' n φ))
      apply pres_maxOver
      intro w h1 h2
      have hw := bwd_covered a b I t w ht h1 h2
      cases flag with
      | false =>
        have hex' : explain σ n φ (bwdIvs a b I) false = .ok ex := hex
        exact ih _ false ex hex' (good_bwd n a b hab I hI) hag w hw
      | true =>
        have hex' : explain σ n φ (runsAll (fun i => isSat (rho σ n φ i)) (bwdIvs a b I)) true
            = .ok ex := hex
        exact pres_sel_true (rho σ n φ) (rho σ' n φ) _
          (ih _ true ex hex' (good_runsAll n _ _ (good_bwd n a b hab I hI)) hag) w hw
  | .tb2 _ _ _ _ _, hf, _, _, _, _, _, _, _, _ => by simp [F.explFrag] at hf


/-! ### the explainer is total on the fragment -/

theorem both_ok_intro {x y : Except Unit (List (String × Ivs))}
    (hx : ∃ a, x = .ok a) (hy : ∃ b, y = .ok b) :
    ∃ ex, (do let a ← x; let b ← y; pure (a ++ b)) = .ok ex := by
  obtain ⟨a, rfl⟩ := hx
  obtain ⟨b, rfl⟩ := hy
  exact ⟨a ++ b, rfl⟩

omit [LawfulVal α] in
theorem explain_ok_exact (σ : String → Nat → α) (n : Nat) :
    ∀ (φ : F α), φ.explExact = true → ∀ (I : Ivs) (flag : Bool),
      ∃ ex, explain σ n φ I flag = .ok ex
  | .var x, _, I, _ => ⟨[(x, I)], rfl⟩
  | .const _, _, _, _ => ⟨[], rfl⟩
  | .un op φ, hx, I, flag => by
    simp only [F.explExact] at hx
    have ih := explain_ok_exact σ n φ hx
    cases op <;> first | exact ih I flag | exact ih I (!flag)
  | .bin op φ ψ, hx, I, flag => by
    simp only [F.explExact, Bool.and_eq_true] at hx
    rw [explain_bin_exact σ n op φ ψ I flag hx.1.1]
    exact both_ok_intro (explain_ok_exact σ n φ hx.1.2 I flag) (explain_ok_exact σ n ψ hx.2 I flag)
  | .tmp1 op φ, hx, I, flag => by
    simp only [F.explExact, Bool.and_eq_true] at hx
    have ih := explain_ok_exact σ n φ hx.2
    have hop := hx.1
    cases op <;> try (simp at hop; done)
    all_goals (cases flag <;> exact ih _ _)
  | .tmp2 _ _ _, hx, _, _ => by simp [F.explExact] at hx
  | .tb1 _ _ _ _, hx, _, _ => by simp [F.explExact] at hx
  | .tb2 _ _ _ _ _, hx, _, _ => by simp [F.explExact] at hx

omit [LawfulVal α] in
theorem explain_ok_frag (σ : String → Nat → α) (n : Nat) :
    ∀ (φ : F α), φ.explFrag = true → ∀ (I : Ivs) (flag : Bool),
      ∃ ex, explain σ n φ I flag = .ok ex
  | .var _, hf, _, _ => by simp [F.explFrag] at hf
  | .const _, hf, _, _ => by simp [F.explFrag] at hf
  | .un op φ, hf, I, flag => by
    simp only [F.explFrag, Bool.and_eq_true] at hf
    cases op <;> try (simp at hf; done)
    exact explain_ok_frag σ n φ hf.2 I (!flag)
  | .bin op φ ψ, hf, I, flag => by
    cases op with
    | pred c =>
      simp only [F.explFrag, Bool.and_eq_true] at hf
      have hx : (F.bin (.pred c) φ ψ).explExact = true := by
        simp only [F.explExact, Bool.and_eq_true]
        exact ⟨⟨trivial, explTerm_explExact φ hf.1⟩, explTerm_explExact ψ hf.2⟩
      exact explain_ok_exact σ n _ hx I flag
    | and =>
      simp only [F.explFrag, Bool.and_eq_true] at hf
      have ih1 := explain_ok_frag σ n φ hf.1
      have ih2 := explain_ok_frag σ n ψ hf.2
      cases flag <;> exact both_ok_intro (ih1 _ _) (ih2 _ _)
    | or =>
      simp only [F.explFrag, Bool.and_eq_true] at hf
      have ih1 := explain_ok_frag σ n φ hf.1
      have ih2 := explain_ok_frag σ n ψ hf.2
      cases flag <;> exact both_ok_intro (ih1 _ _) (ih2 _ _)
    | implies =>
      simp only [F.explFrag, Bool.and_eq_true] at hf
      have ih1 := explain_ok_frag σ n φ hf.1
      have ih2 := explain_ok_frag σ n ψ hf.2
      cases flag <;> exact both_ok_intro (ih1 _ _) (ih2 _ _)
    | _ => simp [F.explFrag] at hf
  | .tmp1 op φ, hf, I, flag => by
    simp only [F.explFrag, Bool.and_eq_true] at hf
    have ih := explain_ok_frag σ n φ hf.2
    have hop := hf.1
    cases op <;> try (simp at hop; done)
    all_goals (cases flag <;> exact ih _ _)
  | .tmp2 _ _ _, hf, _, _ => by simp [F.explFrag] at hf
  | .tb1 op a b φ, hf, I, flag => by
    simp only [F.explFrag, Bool.and_eq_true] at hf
    have ih := explain_ok_frag σ n φ hf.2
    cases op <;> cases flag <;> exact ih _ _
  | .tb2 _ _ _ _ _, hf, _, _ => by simp [F.explFrag] at hf

/-! ### counterexamples (machine-checked) -/

/-- Three values `0 < 1 < 2` with `neg x = 2 - x`; `zero` is a parameter (`neg 1 = 1`);
    `sub l r = l`, so that the predicate `x >= x` has the value of `x`. -/
@[reducible] def val3 (z : Fin 3) : Val (Fin 3) where
  lt a b := decide (a < b)
  neg a := Fin.rev a
  abs a := a
  add a _ := a
  sub a _ := a
  mul a _ := a
  div a _ := a
  pinf := 2
  ninf := 0
  zero := z
  sqrt a := a
  exp a := a
  ln a := a
  pow a _ := a
  log a _ := a

@[reducible] def lawful3 (z : Fin 3) : @LawfulVal (Fin 3) (val3 z) :=
  letI := val3 z
  { toLinearOrder := inferInstance
    toBoundedOrder := inferInstance
    lt_iff := fun _ _ => decide_eq_true_iff
    pinf_top := rfl
    ninf_bot := rfl
    neg_neg := fun a => Fin.rev_rev a
    neg_le_neg := fun _ _ h => Fin.rev_le_rev.2 h }

def cexPred (x : String) : F (Fin 3) := .bin (.pred .ge) (.var x) (.var x)

/-- `C20_invariant` fails for `not` explained as "satisfied" when the operand is exactly `0`
    (here `zero = 1 = neg 1`): `not ((a >= a) and (b >= b))` on `a = b = 1`. -/
theorem C20_invariant_false_zero :
    ¬ ∀ (α : Type) (_ : Val α) (_ : LawfulVal α) (_ : Val.neg (Val.zero : α) = Val.zero)
        (σ σ' : String → Nat → α) (n : Nat) (φ : F α) (_ : φ.explFrag = true)
        (I : Ivs) (flag : Bool) (ex : List (String × Ivs))
        (_ : explain σ n φ I flag = .ok ex)
        (_ : ∀ t, covered I t → t < n)
        (_ : ∀ t, covered I t → holdsAs flag (rho σ n φ t))
        (_ : ∀ x t, reported ex x t = true → t < n → σ' x t = σ x t),
        ∀ t, covered I t → holdsAs flag (rho σ' n φ t) := by
  intro h
  have h0 : ∀ t, covered [(0, 0)] t → t = 0 := by
    rintro t ⟨p, hp, h1, h2⟩
    rw [List.mem_singleton] at hp; subst hp; omega
  have := h (Fin 3) (val3 1) (lawful3 1) rfl (fun _ _ => 1) (fun _ _ => 2) 1
    (.un .not (.bin .and (cexPred "a") (cexPred "b"))) rfl [(0, 0)] true
    [("a", []), ("a", []), ("b", []), ("b", [])] rfl
    (fun t ht => by rw [h0 t ht]; exact Nat.one_pos)
    (fun t ht => by rw [h0 t ht]; show @isSat _ (val3 1) _ = true; decide)
    (fun x t hr => by simp [reported] at hr)
    0 ⟨(0, 0), List.mem_singleton.2 rfl, le_rfl, le_rfl⟩
  exact absurd this (by show ¬ (@isSat _ (val3 1) _ = true); decide)

/-- `C20_invariant` fails on interval lists whose first begin is not the least covered position:
    `eventually (a >= a)` explained as "violated" on `[(3,3),(0,0)]`. -/
theorem C20_invariant_false_unsorted :
    ¬ ∀ (α : Type) (_ : Val α) (_ : LawfulVal α) (_ : Val.neg (Val.zero : α) = Val.zero)
        (σ σ' : String → Nat → α) (n : Nat) (φ : F α) (_ : φ.explFrag = true)
        (I : Ivs) (flag : Bool) (ex : List (String × Ivs))
        (_ : explain σ n φ I flag = .ok ex)
        (_ : ∀ t, covered I t → t < n)
        (_ : ∀ t, covered I t → holdsAs flag (rho σ n φ t))
        (_ : ∀ x t, reported ex x t = true → t < n → σ' x t = σ x t),
        ∀ t, covered I t → holdsAs flag (rho σ' n φ t) := by
  intro h
  have h0 : ∀ t, covered [(3, 3), (0, 0)] t → t = 3 ∨ t = 0 := by
    rintro t ⟨p, hp, h1, h2⟩
    simp only [List.mem_cons, List.not_mem_nil, or_false] at hp
    rcases hp with rfl | rfl
    · left; omega
    · right; omega
  have := h (Fin 3) (val3 1) (lawful3 1) rfl (fun _ _ => 0) (fun _ t => if t = 0 then 2 else 0) 4
    (.tmp1 .ev (cexPred "a")) rfl [(3, 3), (0, 0)] false
    [("a", [(3, 3)]), ("a", [(3, 3)])] rfl
    (fun t ht => by rcases h0 t ht with rfl | rfl <;> omega)
    (fun t ht => by rcases h0 t ht with rfl | rfl <;> (show @isUnsat _ (val3 1) _ = true; decide))
    (fun x t hr _ => by
      have : t = 3 := by
        simp [reported] at hr
        omega
      subst this; rfl)
    0 ⟨(0, 0), by simp, le_rfl, le_rfl⟩
  exact absurd this (by show ¬ (@isUnsat _ (val3 1) _ = true); decide)

def cexPhi : F (Fin 3) := .un .not (.bin .or (cexPred "a") (cexPred "b"))

/-- `C20_sufficient_partial` fails when `neg zero ≠ zero` (here `zero = 2`, `neg 2 = 0`):
    `not ((a >= a) or (b >= b))` on `a = b = 1`; nothing is reported, `a = b = 0` satisfies. -/
theorem C20_sufficient_partial_false :
    ¬ ∀ (α : Type) (_ : Val α) (_ : LawfulVal α) (σ σ' : String → Nat → α) (n : Nat) (_ : 0 < n)
        (φ : F α) (_ : φ.explFrag = true) (ex : List (String × Ivs))
        (_ : explainSpec σ n φ = .ok ex) (_ : isUnsat (rho σ n φ 0) = true)
        (_ : ∀ x t, reported ex x t = true → t < n → σ' x t = σ x t),
        isUnsat (rho σ' n φ 0) = true := by
  intro h
  have := h (Fin 3) (val3 2) (lawful3 2) (fun _ _ => 1) (fun _ _ => 0) 1 Nat.one_pos cexPhi rfl
    [("a", []), ("a", []), ("b", []), ("b", [])] rfl rfl
    (fun x t hr => by simp [reported] at hr)
  exact absurd this (by decide)

/-! ### the property -/

/-- Strict polarity: `rho > 0` resp. `rho < 0` (for `flag = false` this is `holdsAs false`). -/
def holdsStrictly (flag : Bool) (v : α) : Prop := if flag then Val.zero < v else v < Val.zero

/-  The naive generalised invariant —  if the formula has the polarity `flag` at every covered position of
    `I` on the original trace, and `σ'` coincides with `σ` on every position reported when
    explaining `(I, flag)`, then the formula has polarity `flag` at every covered position on `σ'`.

    is FALSE (it is not stated as a theorem; refuted by `C20_invariant_false_zero` and
    `C20_invariant_false_unsorted`; see `C20_invariant_partial`, `C20_invariant_false_partial`
    and `C20_mono` for what holds).  Counterexamples (values in any lawful instance with the usual
    arithmetic, e.g. `EReal`; `0` is `F.const 0`):
    1. `flag = true` and a value exactly `0` under `not` (or in the antecedent of `implies`):
       `φ = not ((a >= 0) and (b >= 0))`, `n = 1`, `I = [(0,0)]`, `flag = true`, `σ a 0 = 0`,
       `σ b 0 = 3`: `rho = -0 = 0 >= 0`; the conjunction is explained as "violated", none of its
       conjuncts is `< 0`, nothing is reported; `σ' a 0 = σ' b 0 = 7` gives `rho = -7 < 0`.
       ("satisfied" `>= 0` / "violated" `< 0` are not exchanged by negation.)
    2. an interval list whose first begin is not its least covered position (the unbounded
       operators only look at the first begin / the last end):
       `φ = eventually (a >= 0)`, `n = 4`, `I = [(3,3),(0,0)]`, `flag = false`, `σ a t = -1`:
       only `(a, 3)` is reported; `σ' a 0 = 5` gives `rho σ' φ 0 = 5 >= 0` at the covered `t = 0`.
    3. `LawfulVal` does not relate `Val.neg` and `Val.zero`: with `zero := 1` (usual order and
       negation) `φ = not ((a >= 0) or (b >= 0))`, `n = 1`, `I = [(0,0)]`, `flag = false`,
       `σ a 0 = σ b 0 = 1/2`: `rho = -1/2 < zero`, no disjunct is `>= zero`, nothing is reported;
       `σ' a 0 = σ' b 0 = -10` gives `rho = 10 >= zero`. -/

/-- The invariant on well-formed interval lists (`Good`: what the explainer produces from
    `[(0,0)]`), with strict polarities, for values with `neg 0 = 0`. -/
theorem C20_invariant_partial (hz : Val.neg (Val.zero : α) = Val.zero)
    (σ σ' : String → Nat → α) (n : Nat) (φ : F α) (hfrag : φ.explFrag = true)
    (I : Ivs) (flag : Bool) (ex : List (String × Ivs))
    (hex : explain σ n φ I flag = .ok ex)
    (hI : Good n I)
    (horig : ∀ t, covered I t → holdsStrictly flag (rho σ n φ t))
    (hagree : ∀ x t, reported ex x t = true → t < n → σ' x t = σ x t) :
    ∀ t, covered I t → holdsStrictly flag (rho σ' n φ t) := by
  intro t ht
  have h := C20_mono hz σ σ' n φ hfrag I flag ex hex hI hagree t ht
  have ho := horig t ht
  cases flag with
  | true => exact lt_of_lt_of_le ho (h ho)
  | false => exact lt_of_le_of_lt (h ho) ho

/-- `C20_invariant` for `flag = false` (the polarity of the top-level call), on well-formed
    interval lists, for values with `neg 0 = 0`. -/
theorem C20_invariant_false_partial (hz : Val.neg (Val.zero : α) = Val.zero)
    (σ σ' : String → Nat → α) (n : Nat) (φ : F α) (hfrag : φ.explFrag = true)
    (I : Ivs) (ex : List (String × Ivs))
    (hex : explain σ n φ I false = .ok ex)
    (hI : Good n I)
    (horig : ∀ t, covered I t → holdsAs false (rho σ n φ t))
    (hagree : ∀ x t, reported ex x t = true → t < n → σ' x t = σ x t) :
    ∀ t, covered I t → holdsAs false (rho σ' n φ t) := by
  intro t ht
  have := C20_invariant_partial hz σ σ' n φ hfrag I false ex hex hI
    (fun t ht => (isUnsat_iff _).1 (horig t ht)) hagree t ht
  exact (isUnsat_iff _).2 this

/-- C20 (partial: on the fragment `explFrag`), for values with `neg 0 = 0` (floats, `EReal`): the
    positions reported for a specification violated at time 0 are a sufficient cause of the
    violation — every trace `σ'` that coincides with `σ` on all reported positions violates the
    specification at time 0.  Without `hz` the statement is false, because `LawfulVal` does not
    relate `Val.neg` and `Val.zero` (`C20_sufficient_partial_false`). -/
theorem C20_sufficient_partial (hz : Val.neg (Val.zero : α) = Val.zero)
    (σ σ' : String → Nat → α) (n : Nat) (hn : 0 < n) (φ : F α)
    (hfrag : φ.explFrag = true) (ex : List (String × Ivs))
    (hex : explainSpec σ n φ = .ok ex) (hviol : isUnsat (rho σ n φ 0) = true)
    (hagree : ∀ x t, reported ex x t = true → t < n → σ' x t = σ x t) :
    isUnsat (rho σ' n φ 0) = true := by
  unfold explainSpec at hex
  rw [if_pos hviol] at hex
  exact C20_invariant_false_partial hz σ σ' n φ hfrag [(0, 0)] ex hex
    (good_singleton n 0 0 le_rfl hn)
    (fun t ht => by
      have : t = 0 := by
        rw [covered_singleton] at ht; omega
      subst this; exact hviol)
    hagree 0 ((covered_singleton 0 0 0).2 ⟨le_rfl, le_rfl⟩)

omit [LawfulVal α] in
/-- For a specification that is satisfied at time 0 nothing is reported. -/
theorem C20_satisfied_empty (σ : String → Nat → α) (n : Nat) (φ : F α)
    (hsat : isUnsat (rho σ n φ 0) = false) :
    explainSpec σ n φ = .ok [] := by
  unfold explainSpec
  rw [hsat]
  rfl

omit [LawfulVal α] in
/-- The explainer is defined on the whole fragment (it raises only on since / until). -/
theorem C20_defined_on_fragment (σ : String → Nat → α) (n : Nat) (φ : F α) (hfrag : φ.explFrag = true)
    (I : Ivs) (flag : Bool) : ∃ ex, explain σ n φ I flag = .ok ex :=
  explain_ok_frag σ n φ hfrag I flag

/-- Non-vacuity: the hypothesis `hz` holds for the extended reals (and for IEEE doubles, `-0.0 == 0.0`). -/
example : Val.neg (Val.zero : EReal) = Val.zero := by simp [Val.neg, Val.zero]

end Rtamt
