/-
  C20 — Explanations of a violation are a sufficient cause (partial: fragment `explFrag`).

  "When a discrete-time offline specification is violated at time 0 and explain() has been
   called, the intervals reported for the input variables form a sufficient cause: every
   trace that coincides with the original one on all reported (variable, sample) positions
   violates the specification at time 0 as well. For a specification that is satisfied at
   time 0 nothing is reported."

  Proved for the mirror of the explainer (`Rtamt/Discrete/Explain.lean`) on `F.explFrag`
  (predicates over arithmetic terms; not / and / or / implies; prev / next weak and strong;
  once / historically / eventually / always bounded or not).  Excluded: since / until (the
  explainer raises), iff / xor and rise / fall (both operands resp. the operand are explained
  with the same polarity, which is not sound in general).
-/
import RtamtProofs.Lemmas.Lawful
import Rtamt.Discrete.Explain

namespace Rtamt
open Val

variable {α : Type} [Val α] [LawfulVal α]

/-- "Satisfied at `t`" in the explainer's sense: `rho >= 0`; violated: `rho < 0`. -/
def holdsAs (flag : Bool) (v : α) : Prop := if flag then isSat v = true else isUnsat v = true

/-- All positions covered by an interval list, below `n`. -/
def covered (I : Ivs) (t : Nat) : Prop := ∃ p ∈ I, p.1 ≤ t ∧ t ≤ p.2

/-- Generalised invariant: if the formula has the polarity `flag` at every covered position of
    `I` on the original trace, and `σ'` coincides with `σ` on every position reported when
    explaining `(I, flag)`, then the formula has polarity `flag` at every covered position on `σ'`. -/
theorem C20_invariant (σ σ' : String → Nat → α) (n : Nat) (φ : F α) (hfrag : φ.explFrag = true)
    (I : Ivs) (flag : Bool) (ex : List (String × Ivs))
    (hex : explain σ n φ I flag = .ok ex)
    (hI : ∀ t, covered I t → t < n)
    (horig : ∀ t, covered I t → holdsAs flag (rho σ n φ t))
    (hagree : ∀ x t, reported ex x t = true → t < n → σ' x t = σ x t) :
    ∀ t, covered I t → holdsAs flag (rho σ' n φ t) := by
  sorry

/-- C20 (partial): the positions reported for a specification violated at time 0 are a
    sufficient cause of the violation. -/
theorem C20_sufficient_partial (σ σ' : String → Nat → α) (n : Nat) (hn : 0 < n) (φ : F α)
    (hfrag : φ.explFrag = true) (ex : List (String × Ivs))
    (hex : explainSpec σ n φ = .ok ex) (hviol : isUnsat (rho σ n φ 0) = true)
    (hagree : ∀ x t, reported ex x t = true → t < n → σ' x t = σ x t) :
    isUnsat (rho σ' n φ 0) = true := by
  sorry

/-- For a specification that is satisfied at time 0 nothing is reported. -/
theorem C20_satisfied_empty (σ : String → Nat → α) (n : Nat) (φ : F α)
    (hsat : isUnsat (rho σ n φ 0) = false) :
    explainSpec σ n φ = .ok [] := by
  sorry

/-- The explainer is defined on the whole fragment (it raises only on since / until). -/
theorem C20_defined_on_fragment (σ : String → Nat → α) (n : Nat) (φ : F α) (hfrag : φ.explFrag = true)
    (I : Ivs) (flag : Bool) : ∃ ex, explain σ n φ I flag = .ok ex := by
  sorry

end Rtamt
