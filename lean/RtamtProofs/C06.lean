/-
  C06 — Interface-aware semantics differ from standard only at insensitive predicates.

  "Under output-robustness semantics the result equals standard evaluation in which every
   predicate that mentions no output variable contributes +inf where it holds and -inf
   where it does not, and symmetrically for input-robustness and input variables; under
   output-vacuity and input-vacuity such a predicate contributes 0 instead; every other
   predicate keeps its numeric robustness. This holds for discrete and dense time, offline
   and online, and with Semantics.STANDARD the input/output declarations have no effect."
-/
import RtamtProofs.C02
import Rtamt.Discrete.IA

namespace Rtamt
open Val

variable {α : Type}

/-- The lists the node constructors build bottom-up are the syntactic variable sets split by
    the input/output declaration. -/
theorem C06_vars_propagate (inputs : List String) (φ : F α) :
    φ.inVars inputs = φ.vars.filter (fun x => inputs.contains x) ∧
    φ.outVars inputs = φ.vars.filter (fun x => !inputs.contains x) := by
  induction φ with
  | var x =>
    by_cases hx : x ∈ inputs
    · simp [F.inVars, F.outVars, F.vars, hx]
    · simp [F.inVars, F.outVars, F.vars, hx]
  | const c => simp [F.inVars, F.outVars, F.vars]
  | un op φ ih => simpa [F.inVars, F.outVars, F.vars] using ih
  | tmp1 op φ ih => simpa [F.inVars, F.outVars, F.vars] using ih
  | tb1 op a b φ ih => simpa [F.inVars, F.outVars, F.vars] using ih
  | bin op φ ψ ih1 ih2 =>
    simp only [F.inVars, F.outVars, F.vars, List.filter_append, ih1.1, ih1.2, ih2.1, ih2.2, and_self]
  | tmp2 op φ ψ ih1 ih2 =>
    simp only [F.inVars, F.outVars, F.vars, List.filter_append, ih1.1, ih1.2, ih2.1, ih2.2, and_self]
  | tb2 op a b φ ψ ih1 ih2 =>
    simp only [F.inVars, F.outVars, F.vars, List.filter_append, ih1.1, ih1.2, ih2.1, ih2.2, and_self]

/-- Insensitivity is "mentions no output variable" (resp. "no input variable"). -/
theorem C06_insensitive_iff (inputs : List String) (l r : F α) :
    (insensitive .outRob inputs l r = (l.vars ++ r.vars).all (fun x => inputs.contains x)) ∧
    (insensitive .outVac inputs l r = (l.vars ++ r.vars).all (fun x => inputs.contains x)) ∧
    (insensitive .inRob inputs l r = (l.vars ++ r.vars).all (fun x => !inputs.contains x)) ∧
    (insensitive .inVac inputs l r = (l.vars ++ r.vars).all (fun x => !inputs.contains x)) := by
  have hl := C06_vars_propagate inputs l
  have hr := C06_vars_propagate inputs r
  refine ⟨?_, ?_, ?_, ?_⟩ <;>
    simp only [insensitive, hl.1, hl.2, hr.1, hr.2, ← List.filter_append] <;>
    rw [Bool.eq_iff_iff] <;>
    simp [List.isEmpty_iff, List.filter_eq_nil_iff, List.all_eq_true]

/-- With `Semantics.STANDARD` the input/output declarations have no effect at all. -/
theorem C06_standard_ignores_io (inputs : List String) (φ : F α) : iaT .standard inputs φ = φ := by
  induction φ with
  | var x => simp [iaT]
  | const c => simp [iaT]
  | un op φ ih => simp [iaT, ih]
  | tmp1 op φ ih => simp [iaT, ih]
  | tb1 op a b φ ih => simp [iaT, ih]
  | bin op φ ψ ih1 ih2 => cases op <;> simp [iaT, insensitive, ih1, ih2]
  | tmp2 op φ ψ ih1 ih2 => simp [iaT, ih1, ih2]
  | tb2 op a b φ ψ ih1 ih2 => simp [iaT, ih1, ih2]

theorem iaT_bin_shape (sem : Sem) (inputs : List String) (op : Bin) (φ ψ : F α) :
    ∃ op' : Bin, iaT sem inputs (.bin op φ ψ) = .bin op' (iaT sem inputs φ) (iaT sem inputs ψ) ∧
      op'.kind = op.kind := by
  cases op
  case pred c =>
    by_cases hi : insensitive sem inputs φ ψ = true
    · cases sem <;> simp [iaT, hi, Bin.kind]
    · simp [iaT, hi]
  all_goals exact ⟨_, by simp [iaT], rfl⟩

/-- The transformation only touches predicate nodes: node classes, variables, well-formedness
    and the absence of future operators are preserved. -/
theorem C06_iaT_preserves (sem : Sem) (inputs : List String) (φ : F α) :
    (iaT sem inputs φ).kinds = φ.kinds ∧ (iaT sem inputs φ).vars = φ.vars ∧
    (iaT sem inputs φ).wf = φ.wf ∧ (iaT sem inputs φ).online = φ.online := by
  suffices h : (iaT sem inputs φ).kinds = φ.kinds ∧ (iaT sem inputs φ).vars = φ.vars ∧
      (iaT sem inputs φ).wf = φ.wf by
    refine ⟨h.1, h.2.1, h.2.2, ?_⟩
    simp only [F.online, h.1]
  induction φ with
  | var x => simp [iaT]
  | const c => simp [iaT]
  | un op φ ih => simp [iaT, F.kinds, F.vars, F.wf, ih.1, ih.2.1, ih.2.2]
  | tmp1 op φ ih => simp [iaT, F.kinds, F.vars, F.wf, ih.1, ih.2.1, ih.2.2]
  | tb1 op a b φ ih => simp [iaT, F.kinds, F.vars, F.wf, ih.1, ih.2.1, ih.2.2]
  | bin op φ ψ ih1 ih2 =>
    obtain ⟨op', he, hk⟩ := iaT_bin_shape sem inputs op φ ψ
    rw [he]
    simp [F.kinds, F.vars, F.wf, ih1.1, ih1.2.1, ih1.2.2, ih2.1, ih2.2.1, ih2.2.2, hk]
  | tmp2 op φ ψ ih1 ih2 =>
    simp [iaT, F.kinds, F.vars, F.wf, ih1.1, ih1.2.1, ih1.2.2, ih2.1, ih2.2.1, ih2.2.2]
  | tb2 op a b φ ψ ih1 ih2 =>
    simp [iaT, F.kinds, F.vars, F.wf, ih1.1, ih1.2.1, ih1.2.2, ih2.1, ih2.2.1, ih2.2.2]

variable [Val α]

/-- The predicate clause of the IA semantics: an insensitive predicate contributes ±inf by
    satisfaction (robustness semantics) or 0 (vacuity semantics); a sensitive one keeps its
    numeric robustness. -/
theorem C06_pred_clause (sem : Sem) (inputs : List String) (c : Cmp) (l r : F α)
    (σ : String → Nat → α) (n t : Nat) :
    rho σ n (iaT sem inputs (.bin (.pred c) l r)) t =
      let vl := rho σ n (iaT sem inputs l) t
      let vr := rho σ n (iaT sem inputs r) t
      if insensitive sem inputs l r then
        (match sem with
         | .outRob | .inRob => if c.holds vl vr then pinf else ninf
         | _ => Val.zero)
      else c.app vl vr := by
  by_cases hi : insensitive sem inputs l r = true
  · cases sem <;> simp [iaT, hi, rho, Bin.app]
  · simp [iaT, hi, rho, Bin.app]

omit [Val α] in
/-- If every predicate is sensitive the IA semantics is the standard one. -/
theorem C06_sensitive_unchanged (sem : Sem) (inputs : List String) (φ : F α)
    (h : ∀ c l r, F.bin (.pred c) l r ∈ F.subs φ → insensitive sem inputs l r = false) :
    iaT sem inputs φ = φ := by
  induction φ with
  | var x => simp [iaT]
  | const c => simp [iaT]
  | un op φ ih =>
    simp [iaT, ih (fun c l r hm => h c l r (by simp [F.subs, hm]))]
  | tmp1 op φ ih =>
    simp [iaT, ih (fun c l r hm => h c l r (by simp [F.subs, hm]))]
  | tb1 op a b φ ih =>
    simp [iaT, ih (fun c l r hm => h c l r (by simp [F.subs, hm]))]
  | bin op φ ψ ih1 ih2 =>
    have e1 := ih1 (fun c l r hm => h c l r (by simp [F.subs, hm]))
    have e2 := ih2 (fun c l r hm => h c l r (by simp [F.subs, hm]))
    cases op
    case pred c =>
      have := h c φ ψ (by simp [F.subs])
      simp [iaT, this, e1, e2]
    all_goals simp [iaT, e1, e2]
  | tmp2 op φ ψ ih1 ih2 =>
    have e1 := ih1 (fun c l r hm => h c l r (by simp [F.subs, hm]))
    have e2 := ih2 (fun c l r hm => h c l r (by simp [F.subs, hm]))
    simp [iaT, e1, e2]
  | tb2 op a b φ ψ ih1 ih2 =>
    have e1 := ih1 (fun c l r hm => h c l r (by simp [F.subs, hm]))
    have e2 := ih2 (fun c l r hm => h c l r (by simp [F.subs, hm]))
    simp [iaT, e1, e2]

variable [LawfulVal α]

/-- Offline IA monitor = `rho` of the transformed formula (C01 for the transformed formula). -/
theorem C06_offline_ia (sem : Sem) (inputs : List String) (h : Kind → Bool) (w : Env α)
    (σ : String → Nat → α) (n : Nat) (hn : 0 < n) (φ : F α) (hwf : φ.wf = true)
    (hh : ∀ k ∈ φ.kinds, h k = true) (hp : φ.noPrecedes) (hw : w.Agrees σ n φ.vars) :
    evalOff h w n (iaT sem inputs φ) = .ok (tab n (rho σ n (iaT sem inputs φ))) := by
  obtain ⟨hk, hv, hwf', _⟩ := C06_iaT_preserves sem inputs φ
  apply C01_offline_eq_rho h w σ n hn
  · rw [hwf', hwf]
  · rw [hk]; exact hh
  · unfold F.noPrecedes; rw [hk]; exact hp
  · rw [hv]; exact hw

/-- Online IA monitor = `rho` of the transformed formula (C02 for the transformed formula). -/
theorem C06_online_ia (sem : Sem) (inputs : List String) (h r : Kind → Bool)
    (σ : String → Nat → α) (n : Nat) (φ : F α) (hon : φ.online = true) (hwf : φ.wf = true)
    (hh : ∀ k ∈ φ.kinds, k ≠ .Constant → (h k = true ∧ r k = false)) :
    runOnline h r (iaT sem inputs φ) (envs σ n) = .ok (tab n (rho σ n (iaT sem inputs φ))) := by
  obtain ⟨hk, _, hwf', hon'⟩ := C06_iaT_preserves sem inputs φ
  apply C02_run_eq_rho h r σ n
  · rw [hon', hon]
  · rw [hwf', hwf]
  · rw [hk]; exact hh

end Rtamt
