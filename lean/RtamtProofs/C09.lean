/-
  C09 — Modular specifications are equivalent to their inlined form.
  C12 — Named sub-formula values are the robustness of that sub-formula.

  The parser substitutes, for every reference to an earlier assertion, the referenced
  node itself; the list of assertions `specs` therefore consists of the *inlined*
  formulas, sharing structure.  What remains to be shown is that the interpreter as the
  code organises it — one operator object per node *name*, all assertions evaluated at
  every update, every name stepped once per update (memo) — computes, for every
  assertion and every sub-formula, what a stand-alone monitor of that (inlined) formula
  computes.  `runProgram` is the mirror of that organisation (`Rtamt/Discrete/Program.lean`),
  `runOnline` the stand-alone tree-structured monitor of C02.
-/
import RtamtProofs.C02
import Rtamt.Discrete.Program

namespace Rtamt
open Val

variable {α : Type} [Val α] [DecidableEq α]

/-!
## Proof architecture (helpers in `Rtamt.C09`)

* `treeOf R φ` reads a stand-alone `STree` for `φ` off an assignment `R` of operator states to
  formulas (the dictionary); `initTree` yields `treeOf initNode φ` (`initOK_all`).
* One update (`section Round`): from a dictionary agreeing with `R0` on the keys `U`, with
  `stepTree e ψ (treeOf R0 ψ)` succeeding for every key, the invariant `Inv` says that every key
  is either *pending* (not in the memo, state `R0 ψ`) or *done* (memo holds the stand-alone
  value, the dictionary the root state of the stepped stand-alone tree, and all operator
  sub-formulas are done).  `visitOK_all` (structural induction, via the generic
  `visitOK_node1/2`) shows `visitM` preserves it; `round_ok` lifts this to `visitSpecs`.
* `treeStep_all`: the trees read off the dictionary after the round are the stepped trees, so
  the argument iterates (`runSpecs_ok`); `initStore_ok` establishes the initial agreement.
-/

namespace C09

omit [Val α] in
theorem lookup_cons_eq {β : Type} (k : F α) (s : β) (st : List (F α × β)) :
    List.lookup k ((k, s) :: st) = some s := by
  rw [List.lookup_cons]; simp

omit [Val α] in
theorem lookup_cons_ne {β : Type} (k k' : F α) (s : β) (st : List (F α × β)) (h : k ≠ k') :
    List.lookup k ((k', s) :: st) = st.lookup k := by
  rw [List.lookup_cons]
  have : (k == k') = false := by simpa using h
  rw [this]

omit [Val α] in
theorem lookup_filter_ne (k k' : F α) (st : Store α) (h : k ≠ k') :
    List.lookup k (st.filter (fun p => p.1 ≠ k')) = st.lookup k := by
  induction st with
  | nil => rfl
  | cons p st ih =>
    obtain ⟨a, b⟩ := p
    by_cases ha : a = k'
    · subst ha
      rw [List.filter_cons_of_neg (by simp), ih, lookup_cons_ne _ _ _ _ h]
    · rw [List.filter_cons_of_pos (by simpa using ha)]
      by_cases hk : k = a
      · subst hk; rw [lookup_cons_eq, lookup_cons_eq]
      · rw [lookup_cons_ne _ _ _ _ hk, lookup_cons_ne _ _ _ _ hk, ih]

omit [Val α] in
theorem lookup_set_eq (k : F α) (s : St α) (st : Store α) :
    List.lookup k (st.set k s) = some s := lookup_cons_eq _ _ _

omit [Val α] in
theorem lookup_set_ne (k k' : F α) (s : St α) (st : Store α) (h : k ≠ k') :
    List.lookup k (st.set k' s) = st.lookup k := by
  unfold Store.set
  rw [lookup_cons_ne _ _ _ _ h, lookup_filter_ne _ _ _ h]

def rootSt : STree α → St α
  | .leaf => .unit
  | .n1 s _ => s
  | .n2 s _ _ => s

def treeOf (R : F α → St α) : F α → STree α
  | .var _ => .leaf
  | .const _ => .leaf
  | .un op φ => .n1 (R (.un op φ)) (treeOf R φ)
  | .bin op φ ψ => .n2 (R (.bin op φ ψ)) (treeOf R φ) (treeOf R ψ)
  | .tmp1 op φ => .n1 (R (.tmp1 op φ)) (treeOf R φ)
  | .tmp2 op φ ψ => .n2 (R (.tmp2 op φ ψ)) (treeOf R φ) (treeOf R ψ)
  | .tb1 op a b φ => .n1 (R (.tb1 op a b φ)) (treeOf R φ)
  | .tb2 op a b φ ψ => .n2 (R (.tb2 op a b φ ψ)) (treeOf R φ) (treeOf R ψ)

omit [Val α] [DecidableEq α] in
theorem opSubs_size {φ ψ : F α} (h : ψ ∈ φ.opSubs) : ψ.size ≤ φ.size := by
  induction φ with
  | var x => simp [F.opSubs] at h
  | const c => simp [F.opSubs] at h
  | un op φ ih =>
    simp only [F.opSubs, List.mem_cons] at h
    rcases h with rfl | h
    · exact Nat.le_refl _
    · have := ih h; simp only [F.size]; omega
  | tmp1 op φ ih =>
    simp only [F.opSubs, List.mem_cons] at h
    rcases h with rfl | h
    · exact Nat.le_refl _
    · have := ih h; simp only [F.size]; omega
  | tb1 op a b φ ih =>
    simp only [F.opSubs, List.mem_cons] at h
    rcases h with rfl | h
    · exact Nat.le_refl _
    · have := ih h; simp only [F.size]; omega
  | bin op φ ψ ih1 ih2 =>
    simp only [F.opSubs, List.mem_cons, List.mem_append] at h
    rcases h with rfl | h | h
    · exact Nat.le_refl _
    · have := ih1 h; simp only [F.size]; omega
    · have := ih2 h; simp only [F.size]; omega
  | tmp2 op φ ψ ih1 ih2 =>
    simp only [F.opSubs, List.mem_cons, List.mem_append] at h
    rcases h with rfl | h | h
    · exact Nat.le_refl _
    · have := ih1 h; simp only [F.size]; omega
    · have := ih2 h; simp only [F.size]; omega
  | tb2 op a b φ ψ ih1 ih2 =>
    simp only [F.opSubs, List.mem_cons, List.mem_append] at h
    rcases h with rfl | h | h
    · exact Nat.le_refl _
    · have := ih1 h; simp only [F.size]; omega
    · have := ih2 h; simp only [F.size]; omega

omit [Val α] [DecidableEq α] in
theorem opSubs_trans {φ ψ ψ' : F α} (h : ψ ∈ φ.opSubs) (h' : ψ' ∈ ψ.opSubs) : ψ' ∈ φ.opSubs := by
  induction φ with
  | var x => simp [F.opSubs] at h
  | const c => simp [F.opSubs] at h
  | un op φ ih =>
    simp only [F.opSubs, List.mem_cons] at h
    rcases h with rfl | h
    · exact h'
    · simp only [F.opSubs, List.mem_cons]; exact Or.inr (ih h)
  | tmp1 op φ ih =>
    simp only [F.opSubs, List.mem_cons] at h
    rcases h with rfl | h
    · exact h'
    · simp only [F.opSubs, List.mem_cons]; exact Or.inr (ih h)
  | tb1 op a b φ ih =>
    simp only [F.opSubs, List.mem_cons] at h
    rcases h with rfl | h
    · exact h'
    · simp only [F.opSubs, List.mem_cons]; exact Or.inr (ih h)
  | bin op φ ψ ih1 ih2 =>
    simp only [F.opSubs, List.mem_cons, List.mem_append] at h
    rcases h with rfl | h | h
    · exact h'
    · simp only [F.opSubs, List.mem_cons, List.mem_append]; exact Or.inr (Or.inl (ih1 h))
    · simp only [F.opSubs, List.mem_cons, List.mem_append]; exact Or.inr (Or.inr (ih2 h))
  | tmp2 op φ ψ ih1 ih2 =>
    simp only [F.opSubs, List.mem_cons, List.mem_append] at h
    rcases h with rfl | h | h
    · exact h'
    · simp only [F.opSubs, List.mem_cons, List.mem_append]; exact Or.inr (Or.inl (ih1 h))
    · simp only [F.opSubs, List.mem_cons, List.mem_append]; exact Or.inr (Or.inr (ih2 h))
  | tb2 op a b φ ψ ih1 ih2 =>
    simp only [F.opSubs, List.mem_cons, List.mem_append] at h
    rcases h with rfl | h | h
    · exact h'
    · simp only [F.opSubs, List.mem_cons, List.mem_append]; exact Or.inr (Or.inl (ih1 h))
    · simp only [F.opSubs, List.mem_cons, List.mem_append]; exact Or.inr (Or.inr (ih2 h))

/-! ### one round -/

section Round
variable (e : String → α) (U : F α → Prop) (R0 : F α → St α)

def Steps (φ : F α) (t : STree α) (w : α) : Prop := stepTree e φ (treeOf R0 φ) = .ok (t, w)

def Inv (sm : Store α × Memo α) : Prop :=
  ∀ ψ, U ψ →
    (sm.2.lookup ψ = none → sm.1.lookup ψ = some (R0 ψ)) ∧
    (∀ w, sm.2.lookup ψ = some w →
      (∃ t, Steps e R0 ψ t w ∧ sm.1.lookup ψ = some (rootSt t)) ∧
      ∀ ψ' ∈ ψ.opSubs, sm.2.lookup ψ' ≠ none)

def VisitOK (φ : F α) : Prop :=
  ∀ sm, Inv e U R0 sm → (∀ ψ ∈ φ.opSubs, U ψ) →
    ∃ t w sm', Steps e R0 φ t w ∧ visitM e φ sm = .ok (w, sm') ∧ Inv e U R0 sm' ∧
      (∀ ψ, sm.2.lookup ψ ≠ none → sm'.2.lookup ψ ≠ none) ∧
      (∀ ψ, sm'.2.lookup ψ ≠ none → sm.2.lookup ψ ≠ none ∨ ψ ∈ φ.opSubs) ∧
      (∀ ψ ∈ φ.opSubs, sm'.2.lookup ψ ≠ none)

theorem visitOK_node1 (χ φ : F α) (step : St α → α → Except PyErr (St α × α))
    (hsubs : χ.opSubs = χ :: φ.opSubs)
    (hsz : φ.size < χ.size)
    (htree : treeOf R0 χ = .n1 (R0 χ) (treeOf R0 φ))
    (hstepT : ∀ s c, stepTree e χ (.n1 s c) =
      (do let (c', v) ← stepTree e φ c
          let (s', o) ← step s v
          pure (STree.n1 s' c', o)))
    (hhit : ∀ sm v, sm.2.lookup χ = some v → visitM e χ sm = .ok (v, sm))
    (hmiss : ∀ sm v st1 mm1 s s' o, sm.2.lookup χ = none →
      visitM e φ sm = .ok (v, (st1, mm1)) → st1.lookup χ = some s → step s v = .ok (s', o) →
      ∃ st2, visitM e χ sm = .ok (o, (st2, (χ, o) :: mm1)) ∧
        ∀ ψ, st2.lookup ψ = (st1.set χ s').lookup ψ)
    (Hstep : ∀ ψ, U ψ → ∃ t w, Steps e R0 ψ t w)
    (ih : VisitOK e U R0 φ) : VisitOK e U R0 χ := by
  intro sm hinv hU
  have hχ : U χ := hU χ (by rw [hsubs]; exact List.mem_cons_self)
  cases hl : sm.2.lookup χ with
  | some w0 =>
    obtain ⟨⟨t, ht, _⟩, hdone⟩ := (hinv χ hχ).2 w0 hl
    exact ⟨t, w0, sm, ht, hhit sm w0 hl, hinv, fun _ h => h, fun _ h => Or.inl h, hdone⟩
  | none =>
    obtain ⟨t1, v, ⟨st1, mm1⟩, hs1, hv1, hinv1, hmono1, honly1, hdone1⟩ :=
      ih sm hinv (fun ψ hψ => hU ψ (by rw [hsubs]; exact List.mem_cons_of_mem _ hψ))
    have hl1 : mm1.lookup χ = none := by
      cases hc : mm1.lookup χ with
      | none => rfl
      | some x =>
        rcases honly1 χ (by simp [hc]) with h | h
        · exact absurd hl h
        · have := opSubs_size h; omega
    have hst1 : st1.lookup χ = some (R0 χ) := (hinv1 χ hχ).1 hl1
    obtain ⟨t, w, htw⟩ := Hstep χ hχ
    have htw' := htw
    unfold Steps at htw' hs1
    rw [htree, hstepT, hs1] at htw'
    cases hst : step (R0 χ) v with
    | error x => simp [hst, bind, Except.bind] at htw'
    | ok p =>
      obtain ⟨s', o⟩ := p
      simp only [hst, bind, Except.bind, pure, Except.pure, Except.ok.injEq, Prod.mk.injEq] at htw'
      obtain ⟨rfl, rfl⟩ := htw'
      obtain ⟨st2, hv2, hst2⟩ := hmiss sm v st1 mm1 (R0 χ) s' o hl hv1 hst1 hst
      refine ⟨_, o, (st2, (χ, o) :: mm1), htw, hv2, ?_, ?_, ?_, ?_⟩
      · intro ψ hψ
        by_cases hψχ : ψ = χ
        · subst hψχ
          refine ⟨fun h => ?_, fun w hw => ?_⟩
          · simp at h
          · simp only [lookup_cons_eq, Option.some.injEq] at hw
            subst hw
            refine ⟨⟨_, htw, ?_⟩, ?_⟩
            · show st2.lookup ψ = _
              rw [hst2, lookup_set_eq]; rfl
            · intro ψ' hψ'
              rw [hsubs] at hψ'
              show List.lookup ψ' ((ψ, o) :: mm1) ≠ none
              by_cases h' : ψ' = ψ
              · subst h'; simp
              · rw [lookup_cons_ne _ _ _ _ h']
                rcases List.mem_cons.1 hψ' with h | h
                · exact absurd h h'
                · exact hdone1 ψ' h
        · have hm : List.lookup ψ ((χ, o) :: mm1) = mm1.lookup ψ := lookup_cons_ne _ _ _ _ hψχ
          have hs : st2.lookup ψ = st1.lookup ψ := by rw [hst2, lookup_set_ne _ _ _ _ hψχ]
          refine ⟨fun h => ?_, fun w hw => ?_⟩
          · show st2.lookup ψ = _
            rw [hs]; exact (hinv1 ψ hψ).1 (by rw [← hm]; exact h)
          · obtain ⟨⟨t', ht', hl'⟩, hd'⟩ := (hinv1 ψ hψ).2 w (by rw [← hm]; exact hw)
            refine ⟨⟨t', ht', by show st2.lookup ψ = _; rw [hs]; exact hl'⟩, ?_⟩
            intro ψ' hψ'
            show List.lookup ψ' ((χ, o) :: mm1) ≠ none
            by_cases h' : ψ' = χ
            · subst h'; simp
            · rw [lookup_cons_ne _ _ _ _ h']; exact hd' ψ' hψ'
      · intro ψ h
        show List.lookup ψ ((χ, o) :: mm1) ≠ none
        by_cases h' : ψ = χ
        · subst h'; simp
        · rw [lookup_cons_ne _ _ _ _ h']; exact hmono1 ψ h
      · intro ψ h
        by_cases h' : ψ = χ
        · subst h'; right; rw [hsubs]; exact List.mem_cons_self
        · have h2 : List.lookup ψ ((χ, o) :: mm1) ≠ none := h
          rw [lookup_cons_ne _ _ _ _ h'] at h2
          rcases honly1 ψ h2 with h3 | h3
          · exact Or.inl h3
          · right; rw [hsubs]; exact List.mem_cons_of_mem _ h3
      · intro ψ hψ
        rw [hsubs] at hψ
        show List.lookup ψ ((χ, o) :: mm1) ≠ none
        by_cases h' : ψ = χ
        · subst h'; simp
        · rw [lookup_cons_ne _ _ _ _ h']
          rcases List.mem_cons.1 hψ with h | h
          · exact absurd h h'
          · exact hdone1 ψ h

theorem visitOK_node2 (χ φ1 φ2 : F α) (step : St α → α → α → Except PyErr (St α × α))
    (hsubs : χ.opSubs = χ :: (φ1.opSubs ++ φ2.opSubs))
    (hsz : φ1.size + φ2.size < χ.size)
    (htree : treeOf R0 χ = .n2 (R0 χ) (treeOf R0 φ1) (treeOf R0 φ2))
    (hstepT : ∀ s c1 c2, stepTree e χ (.n2 s c1 c2) =
      (do let (c1', v1) ← stepTree e φ1 c1
          let (c2', v2) ← stepTree e φ2 c2
          let (s', o) ← step s v1 v2
          pure (STree.n2 s' c1' c2', o)))
    (hhit : ∀ sm v, sm.2.lookup χ = some v → visitM e χ sm = .ok (v, sm))
    (hmiss : ∀ sm v1 sm1 v2 st2 mm2 s s' o, sm.2.lookup χ = none →
      visitM e φ1 sm = .ok (v1, sm1) → visitM e φ2 sm1 = .ok (v2, (st2, mm2)) →
      st2.lookup χ = some s → step s v1 v2 = .ok (s', o) →
      ∃ st3, visitM e χ sm = .ok (o, (st3, (χ, o) :: mm2)) ∧
        ∀ ψ, st3.lookup ψ = (st2.set χ s').lookup ψ)
    (Hstep : ∀ ψ, U ψ → ∃ t w, Steps e R0 ψ t w)
    (ih1 : VisitOK e U R0 φ1) (ih2 : VisitOK e U R0 φ2) : VisitOK e U R0 χ := by
  intro sm hinv hU
  have hχ : U χ := hU χ (by rw [hsubs]; exact List.mem_cons_self)
  cases hl : sm.2.lookup χ with
  | some w0 =>
    obtain ⟨⟨t, ht, _⟩, hdone⟩ := (hinv χ hχ).2 w0 hl
    exact ⟨t, w0, sm, ht, hhit sm w0 hl, hinv, fun _ h => h, fun _ h => Or.inl h, hdone⟩
  | none =>
    obtain ⟨t1, v1, sm1, hs1, hv1, hinv1, hmono1, honly1, hdone1⟩ :=
      ih1 sm hinv (fun ψ hψ => hU ψ (by
        rw [hsubs]; exact List.mem_cons_of_mem _ (List.mem_append_left _ hψ)))
    obtain ⟨t2, v2, ⟨st2, mm2⟩, hs2, hv2, hinv2, hmono2, honly2, hdone2⟩ :=
      ih2 sm1 hinv1 (fun ψ hψ => hU ψ (by
        rw [hsubs]; exact List.mem_cons_of_mem _ (List.mem_append_right _ hψ)))
    have hl2 : mm2.lookup χ = none := by
      cases hc : mm2.lookup χ with
      | none => rfl
      | some x =>
        rcases honly2 χ (by simp [hc]) with h | h
        · rcases honly1 χ h with h | h
          · exact absurd hl h
          · have := opSubs_size h; omega
        · have := opSubs_size h; omega
    have hst2 : st2.lookup χ = some (R0 χ) := (hinv2 χ hχ).1 hl2
    obtain ⟨t, w, htw⟩ := Hstep χ hχ
    have htw' := htw
    unfold Steps at htw' hs1 hs2
    rw [htree, hstepT, hs1] at htw'
    simp only [bind, Except.bind, hs2] at htw'
    cases hst : step (R0 χ) v1 v2 with
    | error x => simp [hst] at htw'
    | ok p =>
      obtain ⟨s', o⟩ := p
      simp only [hst, pure, Except.pure, Except.ok.injEq, Prod.mk.injEq] at htw'
      obtain ⟨rfl, rfl⟩ := htw'
      obtain ⟨st3, hv3, hst3⟩ := hmiss sm v1 sm1 v2 st2 mm2 (R0 χ) s' o hl hv1 hv2 hst2 hst
      have hdone12 : ∀ ψ ∈ φ1.opSubs ++ φ2.opSubs, mm2.lookup ψ ≠ none := by
        intro ψ hψ
        rcases List.mem_append.1 hψ with h | h
        · exact hmono2 ψ (hdone1 ψ h)
        · exact hdone2 ψ h
      refine ⟨_, o, (st3, (χ, o) :: mm2), htw, hv3, ?_, ?_, ?_, ?_⟩
      · intro ψ hψ
        by_cases hψχ : ψ = χ
        · subst hψχ
          refine ⟨fun h => ?_, fun w hw => ?_⟩
          · simp at h
          · simp only [lookup_cons_eq, Option.some.injEq] at hw
            subst hw
            refine ⟨⟨_, htw, ?_⟩, ?_⟩
            · show st3.lookup ψ = _
              rw [hst3, lookup_set_eq]; rfl
            · intro ψ' hψ'
              rw [hsubs] at hψ'
              show List.lookup ψ' ((ψ, o) :: mm2) ≠ none
              by_cases h' : ψ' = ψ
              · subst h'; simp
              · rw [lookup_cons_ne _ _ _ _ h']
                rcases List.mem_cons.1 hψ' with h | h
                · exact absurd h h'
                · exact hdone12 ψ' h
        · have hm : List.lookup ψ ((χ, o) :: mm2) = mm2.lookup ψ := lookup_cons_ne _ _ _ _ hψχ
          have hs : st3.lookup ψ = st2.lookup ψ := by rw [hst3, lookup_set_ne _ _ _ _ hψχ]
          refine ⟨fun h => ?_, fun w hw => ?_⟩
          · show st3.lookup ψ = _
            rw [hs]; exact (hinv2 ψ hψ).1 (by rw [← hm]; exact h)
          · obtain ⟨⟨t', ht', hl'⟩, hd'⟩ := (hinv2 ψ hψ).2 w (by rw [← hm]; exact hw)
            refine ⟨⟨t', ht', by show st3.lookup ψ = _; rw [hs]; exact hl'⟩, ?_⟩
            intro ψ' hψ'
            show List.lookup ψ' ((χ, o) :: mm2) ≠ none
            by_cases h' : ψ' = χ
            · subst h'; simp
            · rw [lookup_cons_ne _ _ _ _ h']; exact hd' ψ' hψ'
      · intro ψ h
        show List.lookup ψ ((χ, o) :: mm2) ≠ none
        by_cases h' : ψ = χ
        · subst h'; simp
        · rw [lookup_cons_ne _ _ _ _ h']; exact hmono2 ψ (hmono1 ψ h)
      · intro ψ h
        by_cases h' : ψ = χ
        · subst h'; right; rw [hsubs]; exact List.mem_cons_self
        · have h2 : List.lookup ψ ((χ, o) :: mm2) ≠ none := h
          rw [lookup_cons_ne _ _ _ _ h'] at h2
          rcases honly2 ψ h2 with h3 | h3
          · rcases honly1 ψ h3 with h4 | h4
            · exact Or.inl h4
            · right; rw [hsubs]; exact List.mem_cons_of_mem _ (List.mem_append_left _ h4)
          · right; rw [hsubs]; exact List.mem_cons_of_mem _ (List.mem_append_right _ h3)
      · intro ψ hψ
        rw [hsubs] at hψ
        show List.lookup ψ ((χ, o) :: mm2) ≠ none
        by_cases h' : ψ = χ
        · subst h'; simp
        · rw [lookup_cons_ne _ _ _ _ h']
          rcases List.mem_cons.1 hψ with h | h
          · exact absurd h h'
          · exact hdone12 ψ h

omit [Val α] in
theorem get_ok_of_lookup {st : Store α} {k : F α} {s : St α} (h : st.lookup k = some s) :
    st.get k = .ok s := by
  simp [Store.get, h]

theorem visitOK_all (Hstep : ∀ ψ, U ψ → ∃ t w, Steps e R0 ψ t w) (φ : F α) :
    VisitOK e U R0 φ := by
  induction φ with
  | var x =>
    intro sm hinv _
    exact ⟨.leaf, e x, sm, rfl, rfl, hinv, fun _ h => h, fun _ h => Or.inl h,
      fun ψ hψ => by simp [F.opSubs] at hψ⟩
  | const c =>
    intro sm hinv _
    exact ⟨.leaf, c, sm, rfl, rfl, hinv, fun _ h => h, fun _ h => Or.inl h,
      fun ψ hψ => by simp [F.opSubs] at hψ⟩
  | un op φ ih =>
    refine visitOK_node1 e U R0 _ φ (fun s v => .ok (s, op.app v)) rfl (by simp [F.size]) rfl
      ?_ ?_ ?_ Hstep ih
    · intro s c
      simp only [stepTree]
      cases stepTree e φ c <;> rfl
    · intro sm v h
      rw [visitM]; simp only [h]
    · intro sm v st1 mm1 s s' o hl hv hs hst
      simp only [Except.ok.injEq, Prod.mk.injEq] at hst
      obtain ⟨rfl, rfl⟩ := hst
      refine ⟨st1, ?_, ?_⟩
      · rw [visitM]; simp only [hl, hv, get_ok_of_lookup hs, bind, Except.bind, pure, Except.pure]
      · intro ψ
        by_cases h : ψ = .un op φ
        · subst h; rw [lookup_set_eq, hs]
        · rw [lookup_set_ne _ _ _ _ h]
  | tmp1 op φ ih =>
    refine visitOK_node1 e U R0 _ φ (stepT1 op) rfl (by simp [F.size]) rfl
      (fun s c => rfl) ?_ ?_ Hstep ih
    · intro sm v h
      rw [visitM]; simp only [h]
    · intro sm v st1 mm1 s s' o hl hv hs hst
      refine ⟨_, ?_, fun _ => rfl⟩
      rw [visitM]; simp only [hl, hv, get_ok_of_lookup hs, hst, bind, Except.bind, pure, Except.pure]
  | tb1 op a b φ ih =>
    refine visitOK_node1 e U R0 _ φ (stepTB1 op a b) rfl (by simp [F.size]) rfl
      (fun s c => rfl) ?_ ?_ Hstep ih
    · intro sm v h
      rw [visitM]; simp only [h]
    · intro sm v st1 mm1 s s' o hl hv hs hst
      refine ⟨_, ?_, fun _ => rfl⟩
      rw [visitM]; simp only [hl, hv, get_ok_of_lookup hs, hst, bind, Except.bind, pure, Except.pure]
  | bin op φ ψ ih1 ih2 =>
    refine visitOK_node2 e U R0 _ φ ψ (fun s l r => .ok (s, op.app l r)) rfl (by simp [F.size]) rfl
      ?_ ?_ ?_ Hstep ih1 ih2
    · intro s c1 c2
      simp only [stepTree]
      cases stepTree e φ c1 with
      | error x => rfl
      | ok p =>
        obtain ⟨c1', v1⟩ := p
        cases stepTree e ψ c2 <;> rfl
    · intro sm v h
      rw [visitM]; simp only [h]
    · intro sm v1 sm1 v2 st2 mm2 s s' o hl hv1 hv2 hs hst
      simp only [Except.ok.injEq, Prod.mk.injEq] at hst
      obtain ⟨rfl, rfl⟩ := hst
      refine ⟨st2, ?_, ?_⟩
      · rw [visitM]
        simp only [hl, hv1, hv2, get_ok_of_lookup hs, bind, Except.bind, pure, Except.pure]
      · intro χ
        by_cases h : χ = .bin op φ ψ
        · subst h; rw [lookup_set_eq, hs]
        · rw [lookup_set_ne _ _ _ _ h]
  | tmp2 op φ ψ ih1 ih2 =>
    refine visitOK_node2 e U R0 _ φ ψ (stepT2 op) rfl (by simp [F.size]) rfl
      (fun s c1 c2 => rfl) ?_ ?_ Hstep ih1 ih2
    · intro sm v h
      rw [visitM]; simp only [h]
    · intro sm v1 sm1 v2 st2 mm2 s s' o hl hv1 hv2 hs hst
      refine ⟨_, ?_, fun _ => rfl⟩
      rw [visitM]
      simp only [hl, hv1, hv2, get_ok_of_lookup hs, hst, bind, Except.bind, pure, Except.pure]
  | tb2 op a b φ ψ ih1 ih2 =>
    refine visitOK_node2 e U R0 _ φ ψ (stepTB2 op a b) rfl (by simp [F.size]) rfl
      (fun s c1 c2 => rfl) ?_ ?_ Hstep ih1 ih2
    · intro sm v h
      rw [visitM]; simp only [h]
    · intro sm v1 sm1 v2 st2 mm2 s s' o hl hv1 hv2 hs hst
      refine ⟨_, ?_, fun _ => rfl⟩
      rw [visitM]
      simp only [hl, hv1, hv2, get_ok_of_lookup hs, hst, bind, Except.bind, pure, Except.pure]


/-- Value and next tree of the stand-alone step of `φ` from the tree read off `R0`. -/
def stepVal (φ : F α) : α :=
  match stepTree e φ (treeOf R0 φ) with
  | .ok p => p.2
  | .error _ => Val.zero

def stepTr (φ : F α) : STree α :=
  match stepTree e φ (treeOf R0 φ) with
  | .ok p => p.1
  | .error _ => .leaf

omit [DecidableEq α] in
theorem Steps.val {φ : F α} {t : STree α} {w : α} (h : Steps e R0 φ t w) : stepVal e R0 φ = w := by
  unfold Steps at h; simp [stepVal, h]

omit [DecidableEq α] in
theorem Steps.tr {φ : F α} {t : STree α} {w : α} (h : Steps e R0 φ t w) : stepTr e R0 φ = t := by
  unfold Steps at h; simp [stepTr, h]

theorem visitSpecs_ok (Hstep : ∀ ψ, U ψ → ∃ t w, Steps e R0 ψ t w) (specs : List (F α)) :
    ∀ sm, Inv e U R0 sm → (∀ φ ∈ specs, ∀ ψ ∈ φ.opSubs, U ψ) →
      ∃ sm', visitSpecs e specs sm = .ok (specs.map (stepVal e R0), sm') ∧ Inv e U R0 sm' ∧
        (∀ ψ, sm.2.lookup ψ ≠ none → sm'.2.lookup ψ ≠ none) ∧
        (∀ φ ∈ specs, ∀ ψ ∈ φ.opSubs, sm'.2.lookup ψ ≠ none) := by
  induction specs with
  | nil =>
    intro sm hinv _
    exact ⟨sm, rfl, hinv, fun _ h => h, fun φ hφ => by simp at hφ⟩
  | cons φ rest ih =>
    intro sm hinv hU
    obtain ⟨t, w, sm1, hs, hv, hinv1, hmono1, _, hdone1⟩ :=
      visitOK_all e U R0 Hstep φ sm hinv (hU φ List.mem_cons_self)
    obtain ⟨sm2, hv2, hinv2, hmono2, hdone2⟩ :=
      ih sm1 hinv1 (fun φ' hφ' => hU φ' (List.mem_cons_of_mem _ hφ'))
    refine ⟨sm2, ?_, hinv2, fun ψ h => hmono2 ψ (hmono1 ψ h), ?_⟩
    · simp only [visitSpecs, hv, hv2, bind, Except.bind, pure, Except.pure, List.map_cons, hs.val]
    · intro φ' hφ' ψ hψ
      rcases List.mem_cons.1 hφ' with rfl | h
      · exact hmono2 ψ (hdone1 ψ hψ)
      · exact hdone2 φ' h ψ hψ

end Round

/-- Operator sub-formulas of the assertions: the keys of the dictionary. -/
def InSpecs (specs : List (F α)) (ψ : F α) : Prop := ∃ φ ∈ specs, ψ ∈ φ.opSubs

theorem round_ok (e : String → α) (R0 : F α → St α) (specs : List (F α)) (st0 : Store α)
    (h0 : ∀ ψ, InSpecs specs ψ → st0.lookup ψ = some (R0 ψ))
    (Hstep : ∀ ψ, InSpecs specs ψ → ∃ t w, Steps e R0 ψ t w) :
    ∃ st' mm', visitSpecs e specs (st0, []) = .ok (specs.map (stepVal e R0), (st', mm')) ∧
      ∀ ψ, InSpecs specs ψ → mm'.lookup ψ = some (stepVal e R0 ψ) ∧
        st'.lookup ψ = some (rootSt (stepTr e R0 ψ)) := by
  have hinv : Inv e (InSpecs specs) R0 (st0, []) := by
    intro ψ hψ
    refine ⟨fun _ => h0 ψ hψ, fun w hw => ?_⟩
    simp at hw
  obtain ⟨⟨st', mm'⟩, hv, hinv', _, hdone⟩ :=
    visitSpecs_ok e (InSpecs specs) R0 Hstep specs (st0, []) hinv (fun φ hφ ψ hψ => ⟨φ, hφ, hψ⟩)
  refine ⟨st', mm', hv, ?_⟩
  intro ψ hψ
  obtain ⟨φ, hφ, hψφ⟩ := hψ
  cases hl : mm'.lookup ψ with
  | none => exact absurd hl (hdone φ hφ ψ hψφ)
  | some w =>
    obtain ⟨⟨t, ht, hst⟩, _⟩ := (hinv' ψ ⟨φ, hφ, hψφ⟩).2 w hl
    rw [ht.val, ht.tr]
    exact ⟨rfl, hst⟩

/-! ### the trees read off the dictionary after a round are the stepped trees -/

omit [DecidableEq α] in
theorem treeStep_node1 (e : String → α) (R0 R1 : F α → St α) (χ φ : F α)
    (step : St α → α → Except PyErr (St α × α))
    (htree : ∀ R, treeOf R χ = .n1 (R χ) (treeOf R φ))
    (hstepT : ∀ s c, stepTree e χ (.n1 s c) =
      (do let (c', v) ← stepTree e φ c
          let (s', o) ← step s v
          pure (STree.n1 s' c', o)))
    (hχ : ∃ t w, Steps e R0 χ t w)
    (hR1 : R1 χ = rootSt (stepTr e R0 χ))
    (ih : ∃ v, stepTree e φ (treeOf R0 φ) = .ok (treeOf R1 φ, v)) :
    ∃ w, stepTree e χ (treeOf R0 χ) = .ok (treeOf R1 χ, w) := by
  obtain ⟨t, w, htw⟩ := hχ
  obtain ⟨v, hv⟩ := ih
  have ht := htw.tr
  have htw' := htw
  unfold Steps at htw'
  rw [htree R0, hstepT, hv] at htw'
  cases hst : step (R0 χ) v with
  | error x => simp [hst, bind, Except.bind] at htw'
  | ok p =>
    obtain ⟨s', o⟩ := p
    simp only [hst, bind, Except.bind, pure, Except.pure, Except.ok.injEq, Prod.mk.injEq] at htw'
    obtain ⟨rfl, rfl⟩ := htw'
    refine ⟨o, ?_⟩
    rw [htree R1, hR1, ht]
    exact htw

omit [DecidableEq α] in
theorem treeStep_node2 (e : String → α) (R0 R1 : F α → St α) (χ φ1 φ2 : F α)
    (step : St α → α → α → Except PyErr (St α × α))
    (htree : ∀ R, treeOf R χ = .n2 (R χ) (treeOf R φ1) (treeOf R φ2))
    (hstepT : ∀ s c1 c2, stepTree e χ (.n2 s c1 c2) =
      (do let (c1', v1) ← stepTree e φ1 c1
          let (c2', v2) ← stepTree e φ2 c2
          let (s', o) ← step s v1 v2
          pure (STree.n2 s' c1' c2', o)))
    (hχ : ∃ t w, Steps e R0 χ t w)
    (hR1 : R1 χ = rootSt (stepTr e R0 χ))
    (ih1 : ∃ v, stepTree e φ1 (treeOf R0 φ1) = .ok (treeOf R1 φ1, v))
    (ih2 : ∃ v, stepTree e φ2 (treeOf R0 φ2) = .ok (treeOf R1 φ2, v)) :
    ∃ w, stepTree e χ (treeOf R0 χ) = .ok (treeOf R1 χ, w) := by
  obtain ⟨t, w, htw⟩ := hχ
  obtain ⟨v1, hv1⟩ := ih1
  obtain ⟨v2, hv2⟩ := ih2
  have ht := htw.tr
  have htw' := htw
  unfold Steps at htw'
  rw [htree R0, hstepT, hv1] at htw'
  simp only [bind, Except.bind, hv2] at htw'
  cases hst : step (R0 χ) v1 v2 with
  | error x => simp [hst] at htw'
  | ok p =>
    obtain ⟨s', o⟩ := p
    simp only [hst, pure, Except.pure, Except.ok.injEq, Prod.mk.injEq] at htw'
    obtain ⟨rfl, rfl⟩ := htw'
    refine ⟨o, ?_⟩
    rw [htree R1, hR1, ht]
    exact htw

omit [DecidableEq α] in
theorem treeStep_all (e : String → α) (U : F α → Prop) (R0 R1 : F α → St α)
    (Hstep : ∀ ψ, U ψ → ∃ t w, Steps e R0 ψ t w)
    (hR1 : ∀ ψ, U ψ → R1 ψ = rootSt (stepTr e R0 ψ)) (φ : F α) (hφ : ∀ ψ ∈ φ.opSubs, U ψ) :
    ∃ w, stepTree e φ (treeOf R0 φ) = .ok (treeOf R1 φ, w) := by
  induction φ with
  | var x => exact ⟨e x, rfl⟩
  | const c => exact ⟨c, rfl⟩
  | un op φ ih =>
    have hχ := hφ (F.un op φ) (by simp [F.opSubs])
    refine treeStep_node1 e R0 R1 _ φ (fun s v => .ok (s, op.app v)) (fun _ => rfl) ?_
      (Hstep _ hχ) (hR1 _ hχ) (ih (fun ψ h => hφ ψ (by simp [F.opSubs, h])))
    intro s c
    simp only [stepTree]
    cases stepTree e φ c <;> rfl
  | tmp1 op φ ih =>
    have hχ := hφ (F.tmp1 op φ) (by simp [F.opSubs])
    exact treeStep_node1 e R0 R1 _ φ (stepT1 op) (fun _ => rfl) (fun _ _ => rfl)
      (Hstep _ hχ) (hR1 _ hχ) (ih (fun ψ h => hφ ψ (by simp [F.opSubs, h])))
  | tb1 op a b φ ih =>
    have hχ := hφ (F.tb1 op a b φ) (by simp [F.opSubs])
    exact treeStep_node1 e R0 R1 _ φ (stepTB1 op a b) (fun _ => rfl) (fun _ _ => rfl)
      (Hstep _ hχ) (hR1 _ hχ) (ih (fun ψ h => hφ ψ (by simp [F.opSubs, h])))
  | bin op φ ψ ih1 ih2 =>
    have hχ := hφ (F.bin op φ ψ) (by simp [F.opSubs])
    refine treeStep_node2 e R0 R1 _ φ ψ (fun s l r => .ok (s, op.app l r)) (fun _ => rfl) ?_
      (Hstep _ hχ) (hR1 _ hχ) (ih1 (fun ψ h => hφ ψ (by simp [F.opSubs, h])))
      (ih2 (fun ψ h => hφ ψ (by simp [F.opSubs, h])))
    intro s c1 c2
    simp only [stepTree]
    cases stepTree e φ c1 with
    | error x => rfl
    | ok p =>
      obtain ⟨c1', v1⟩ := p
      cases stepTree e ψ c2 <;> rfl
  | tmp2 op φ ψ ih1 ih2 =>
    have hχ := hφ (F.tmp2 op φ ψ) (by simp [F.opSubs])
    exact treeStep_node2 e R0 R1 _ φ ψ (stepT2 op) (fun _ => rfl) (fun _ _ _ => rfl)
      (Hstep _ hχ) (hR1 _ hχ) (ih1 (fun ψ h => hφ ψ (by simp [F.opSubs, h])))
      (ih2 (fun ψ h => hφ ψ (by simp [F.opSubs, h])))
  | tb2 op a b φ ψ ih1 ih2 =>
    have hχ := hφ (F.tb2 op a b φ ψ) (by simp [F.opSubs])
    exact treeStep_node2 e R0 R1 _ φ ψ (stepTB2 op a b) (fun _ => rfl) (fun _ _ _ => rfl)
      (Hstep _ hχ) (hR1 _ hχ) (ih1 (fun ψ h => hφ ψ (by simp [F.opSubs, h])))
      (ih2 (fun ψ h => hφ ψ (by simp [F.opSubs, h])))

/-! ### all rounds -/

omit [DecidableEq α] in
theorem runTree_cons_inv {φ : F α} {t t' : STree α} {e : String → α} {es : List (String → α)}
    {os : List α} (h : runTree φ t (e :: es) = .ok (t', os)) :
    ∃ t1 w os', stepTree e φ t = .ok (t1, w) ∧ runTree φ t1 es = .ok (t', os') ∧ os = w :: os' := by
  cases hs : stepTree e φ t with
  | error x => simp [runTree, hs, bind, Except.bind] at h
  | ok p =>
    obtain ⟨t1, w⟩ := p
    cases hr : runTree φ t1 es with
    | error x => simp [runTree, hs, hr, bind, Except.bind] at h
    | ok q =>
      obtain ⟨t2, os'⟩ := q
      simp only [runTree, hs, hr, bind, Except.bind, pure, Except.pure, Except.ok.injEq,
        Prod.mk.injEq] at h
      obtain ⟨rfl, rfl⟩ := h
      exact ⟨t1, w, os', rfl, hr, rfl⟩

omit [DecidableEq α] in
theorem runTree_length {φ : F α} : ∀ {es : List (String → α)} {t t' : STree α} {os : List α},
    runTree φ t es = .ok (t', os) → os.length = es.length := by
  intro es
  induction es with
  | nil =>
    intro t t' os h
    simp only [runTree, Except.ok.injEq, Prod.mk.injEq] at h
    obtain ⟨_, rfl⟩ := h
    rfl
  | cons e es ih =>
    intro t t' os h
    obtain ⟨t1, w, os', _, hr, rfl⟩ := runTree_cons_inv h
    simp [ih hr]

theorem runSpecs_ok (specs : List (F α)) :
    ∀ (es : List (String → α)) (st0 : Store α) (R0 : F α → St α) (O : F α → List α),
      (∀ ψ, InSpecs specs ψ → st0.lookup ψ = some (R0 ψ)) →
      (∀ φ, (φ ∈ specs ∨ InSpecs specs φ) → ∃ t, runTree φ (treeOf R0 φ) es = .ok (t, O φ)) →
      ∃ rounds, runSpecs specs st0 es = .ok rounds ∧ rounds.length = es.length ∧
        ∀ j (hj : j < rounds.length),
          (rounds[j]).1 = specs.map (fun φ => (O φ).getD j Val.zero) ∧
          ∀ ψ, InSpecs specs ψ → (rounds[j]).2.lookup ψ = some ((O ψ).getD j Val.zero) := by
  intro es
  induction es with
  | nil =>
    intro st0 R0 O _ _
    exact ⟨[], rfl, rfl, fun j hj => absurd hj (by simp)⟩
  | cons e es ih =>
    intro st0 R0 O h0 hrun
    -- every formula of interest steps
    have hstep : ∀ φ, (φ ∈ specs ∨ InSpecs specs φ) →
        ∃ t1 w os' t, Steps e R0 φ t1 w ∧ runTree φ t1 es = .ok (t, os') ∧ O φ = w :: os' := by
      intro φ hφ
      obtain ⟨t, ht⟩ := hrun φ hφ
      obtain ⟨t1, w, os', h1, h2, h3⟩ := runTree_cons_inv ht
      exact ⟨t1, w, os', t, h1, h2, h3⟩
    have Hstep : ∀ ψ, InSpecs specs ψ → ∃ t w, Steps e R0 ψ t w := by
      intro ψ hψ
      obtain ⟨t1, w, _, _, h, _⟩ := hstep ψ (Or.inr hψ)
      exact ⟨t1, w, h⟩
    obtain ⟨st', mm', hv, hpost⟩ := round_ok e R0 specs st0 h0 Hstep
    let R1 : F α → St α := fun ψ => (st'.lookup ψ).getD .unit
    have hR1 : ∀ ψ, InSpecs specs ψ → R1 ψ = rootSt (stepTr e R0 ψ) := by
      intro ψ hψ
      show (st'.lookup ψ).getD .unit = _
      rw [(hpost ψ hψ).2]; rfl
    have hsubs : ∀ φ, (φ ∈ specs ∨ InSpecs specs φ) → ∀ ψ ∈ φ.opSubs, InSpecs specs ψ := by
      intro φ hφ ψ hψ
      rcases hφ with h | ⟨φ', h1, h2⟩
      · exact ⟨φ, h, hψ⟩
      · exact ⟨φ', h1, opSubs_trans h2 hψ⟩
    obtain ⟨rounds, hr, hlen, hrounds⟩ := ih st' R1 (fun φ => (O φ).tail)
      (fun ψ hψ => by
        show st'.lookup ψ = some ((st'.lookup ψ).getD .unit)
        rw [(hpost ψ hψ).2]; rfl)
      (fun φ hφ => by
        obtain ⟨t1, w, os', t, h1, h2, h3⟩ := hstep φ hφ
        obtain ⟨w', hw'⟩ := treeStep_all e (InSpecs specs) R0 R1 Hstep hR1 φ (hsubs φ hφ)
        unfold Steps at h1
        rw [h1] at hw'
        simp only [Except.ok.injEq, Prod.mk.injEq] at hw'
        refine ⟨t, ?_⟩
        rw [← hw'.1, h3]
        exact h2)
    refine ⟨(specs.map (stepVal e R0), mm') :: rounds, ?_, by simp [hlen], ?_⟩
    · simp only [runSpecs, updateSpecs, hv, hr, bind, Except.bind, pure, Except.pure]
    · intro j hj
      have hval : ∀ φ, (φ ∈ specs ∨ InSpecs specs φ) →
          stepVal e R0 φ = (O φ).getD 0 Val.zero := by
        intro φ hφ
        obtain ⟨t1, w, os', t, h1, h2, h3⟩ := hstep φ hφ
        rw [h1.val, h3]; rfl
      cases j with
      | zero =>
        refine ⟨?_, ?_⟩
        · show specs.map (stepVal e R0) = _
          exact List.map_congr_left (fun φ hφ => hval φ (Or.inl hφ))
        · intro ψ hψ
          show mm'.lookup ψ = _
          rw [(hpost ψ hψ).1, hval ψ (Or.inr hψ)]
      | succ j =>
        have hj' : j < rounds.length := by simpa using hj
        obtain ⟨h1, h2⟩ := hrounds j hj'
        refine ⟨?_, ?_⟩
        · show (rounds[j]).1 = _
          rw [h1]
          apply List.map_congr_left
          intro φ _
          cases O φ <;> simp
        · intro ψ hψ
          show (rounds[j]).2.lookup ψ = _
          rw [h2 ψ hψ]
          cases O ψ <;> simp

/-! ### construction -/

def InitOK (h r : Kind → Bool) (φ : F α) : Prop :=
  ∀ t, initTree h r φ = .ok t →
    t = treeOf initNode φ ∧ ∀ st : Store α, ∃ st', initStoreF h r φ st = .ok st' ∧
      (∀ ψ ∈ φ.opSubs, st'.lookup ψ = some (initNode ψ)) ∧
      (∀ ψ, ψ ∉ φ.opSubs → st'.lookup ψ = st.lookup ψ)

theorem initOK_node1 (h r : Kind → Bool) (χ φ : F α) (k : Kind) (s0 : St α)
    (hsubs : χ.opSubs = χ :: φ.opSubs)
    (htree : treeOf initNode χ = .n1 s0 (treeOf initNode φ))
    (hnode : initNode χ = s0)
    (hT : initTree h r χ = (do
      if r k then throw .rtamt
      let c ← initTree h r φ
      if h k then pure (STree.n1 s0 c) else throw .key))
    (hS : ∀ st, initStoreF h r χ st = (do
      if r k then throw .rtamt
      let st1 ← initStoreF h r φ st
      if h k then pure (st1.set χ s0) else pure st1))
    (ih : InitOK h r φ) : InitOK h r χ := by
  intro t ht
  rw [hT] at ht
  cases hr : r k with
  | true => simp [hr, bind, Except.bind, throw, throwThe, MonadExceptOf.throw] at ht
  | false =>
    cases hc : initTree h r φ with
    | error x => simp [hr, hc, bind, Except.bind] at ht
    | ok c =>
      cases hh : h k with
      | false =>
        simp [hr, hc, hh, bind, Except.bind, throw, throwThe, MonadExceptOf.throw] at ht
      | true =>
        simp only [hr, hc, hh, bind, Except.bind, pure, Except.pure, Bool.false_eq_true,
          if_false, if_true, Except.ok.injEq] at ht
        obtain ⟨hc', hst⟩ := ih c hc
        refine ⟨by rw [← ht, htree, hc'], ?_⟩
        intro st
        obtain ⟨st1, h1, h2, h3⟩ := hst st
        refine ⟨st1.set χ s0, ?_, ?_, ?_⟩
        · rw [hS]
          simp only [hr, h1, hh, bind, Except.bind, pure, Except.pure, Bool.false_eq_true,
            if_false, if_true]
        · intro ψ hψ
          rw [hsubs] at hψ
          by_cases hk : ψ = χ
          · subst hk; rw [lookup_set_eq, hnode]
          · rw [lookup_set_ne _ _ _ _ hk]
            rcases List.mem_cons.1 hψ with h' | h'
            · exact absurd h' hk
            · exact h2 ψ h'
        · intro ψ hψ
          rw [hsubs] at hψ
          have hk : ψ ≠ χ := fun h' => hψ (h' ▸ List.mem_cons_self)
          rw [lookup_set_ne _ _ _ _ hk]
          exact h3 ψ (fun h' => hψ (List.mem_cons_of_mem _ h'))

theorem initOK_node2 (h r : Kind → Bool) (χ φ1 φ2 : F α) (k : Kind) (s0 : St α)
    (hsubs : χ.opSubs = χ :: (φ1.opSubs ++ φ2.opSubs))
    (htree : treeOf initNode χ = .n2 s0 (treeOf initNode φ1) (treeOf initNode φ2))
    (hnode : initNode χ = s0)
    (hT : initTree h r χ = (do
      if r k then throw .rtamt
      let c1 ← initTree h r φ1
      let c2 ← initTree h r φ2
      if h k then pure (STree.n2 s0 c1 c2) else throw .key))
    (hS : ∀ st, initStoreF h r χ st = (do
      if r k then throw .rtamt
      let st1 ← initStoreF h r φ1 st
      let st2 ← initStoreF h r φ2 st1
      if h k then pure (st2.set χ s0) else pure st2))
    (ih1 : InitOK h r φ1) (ih2 : InitOK h r φ2) : InitOK h r χ := by
  intro t ht
  rw [hT] at ht
  cases hr : r k with
  | true => simp [hr, bind, Except.bind, throw, throwThe, MonadExceptOf.throw] at ht
  | false =>
    cases hc1 : initTree h r φ1 with
    | error x => simp [hr, hc1, bind, Except.bind] at ht
    | ok c1 =>
      cases hc2 : initTree h r φ2 with
      | error x => simp [hr, hc1, hc2, bind, Except.bind] at ht
      | ok c2 =>
        cases hh : h k with
        | false =>
          simp [hr, hc1, hc2, hh, bind, Except.bind, throw, throwThe, MonadExceptOf.throw] at ht
        | true =>
          simp only [hr, hc1, hc2, hh, bind, Except.bind, pure, Except.pure, Bool.false_eq_true,
            if_false, if_true, Except.ok.injEq] at ht
          obtain ⟨hc1', hst1⟩ := ih1 c1 hc1
          obtain ⟨hc2', hst2⟩ := ih2 c2 hc2
          refine ⟨by rw [← ht, htree, hc1', hc2'], ?_⟩
          intro st
          obtain ⟨st1, h1, h2, h3⟩ := hst1 st
          obtain ⟨st2, h1', h2', h3'⟩ := hst2 st1
          refine ⟨st2.set χ s0, ?_, ?_, ?_⟩
          · rw [hS]
            simp only [hr, h1, h1', hh, bind, Except.bind, pure, Except.pure, Bool.false_eq_true,
              if_false, if_true]
          · intro ψ hψ
            rw [hsubs] at hψ
            by_cases hk : ψ = χ
            · subst hk; rw [lookup_set_eq, hnode]
            · rw [lookup_set_ne _ _ _ _ hk]
              rcases List.mem_cons.1 hψ with h' | h'
              · exact absurd h' hk
              · by_cases hin : ψ ∈ φ2.opSubs
                · exact h2' ψ hin
                · rw [h3' ψ hin]
                  rcases List.mem_append.1 h' with h'' | h''
                  · exact h2 ψ h''
                  · exact absurd h'' hin
          · intro ψ hψ
            rw [hsubs] at hψ
            have hk : ψ ≠ χ := fun h' => hψ (h' ▸ List.mem_cons_self)
            rw [lookup_set_ne _ _ _ _ hk]
            rw [h3' ψ (fun h' => hψ (List.mem_cons_of_mem _ (List.mem_append_right _ h')))]
            exact h3 ψ (fun h' => hψ (List.mem_cons_of_mem _ (List.mem_append_left _ h')))

theorem initOK_all (h r : Kind → Bool) (φ : F α) : InitOK h r φ := by
  induction φ with
  | var x =>
    intro t ht
    cases hr : r .Variable with
    | true => simp [initTree, hr] at ht
    | false =>
      cases hh : h .Variable with
      | false => simp [initTree, hr, hh] at ht
      | true =>
        simp only [initTree, hr, hh, Bool.false_eq_true, if_false, if_true, Except.ok.injEq] at ht
        refine ⟨ht.symm, fun st => ⟨st, by simp [initStoreF, hr], ?_, fun _ _ => rfl⟩⟩
        intro ψ hψ; simp [F.opSubs] at hψ
  | const c =>
    intro t ht
    simp only [initTree, Except.ok.injEq] at ht
    refine ⟨ht.symm, fun st => ⟨st, rfl, ?_, fun _ _ => rfl⟩⟩
    intro ψ hψ; simp [F.opSubs] at hψ
  | un op φ ih => exact initOK_node1 h r _ φ op.kind .unit rfl rfl rfl rfl (fun _ => rfl) ih
  | tmp1 op φ ih => exact initOK_node1 h r _ φ op.kind (initT1 op) rfl rfl rfl rfl (fun _ => rfl) ih
  | tb1 op a b φ ih =>
    exact initOK_node1 h r _ φ op.kind (initTB1 op b) rfl rfl rfl rfl (fun _ => rfl) ih
  | bin op φ ψ ih1 ih2 =>
    exact initOK_node2 h r _ φ ψ op.kind .unit rfl rfl rfl rfl (fun _ => rfl) ih1 ih2
  | tmp2 op φ ψ ih1 ih2 =>
    exact initOK_node2 h r _ φ ψ op.kind (initT2 op) rfl rfl rfl rfl (fun _ => rfl) ih1 ih2
  | tb2 op a b φ ψ ih1 ih2 =>
    exact initOK_node2 h r _ φ ψ op.kind (initTB2 op b) rfl rfl rfl rfl (fun _ => rfl) ih1 ih2

theorem initStore_ok (h r : Kind → Bool) (specs : List (F α)) :
    ∀ st : Store α, (∀ φ ∈ specs, ∃ t, initTree h r φ = .ok t) →
      ∃ st', initStore h r specs st = .ok st' ∧
        (∀ ψ, InSpecs specs ψ → st'.lookup ψ = some (initNode ψ)) ∧
        (∀ ψ, ¬ InSpecs specs ψ → st'.lookup ψ = st.lookup ψ) := by
  induction specs with
  | nil =>
    intro st _
    refine ⟨st, rfl, ?_, fun _ _ => rfl⟩
    rintro ψ ⟨φ, hφ, _⟩
    simp at hφ
  | cons φ rest ih =>
    intro st hinit
    obtain ⟨t, ht⟩ := hinit φ List.mem_cons_self
    obtain ⟨_, hst⟩ := initOK_all h r φ t ht
    obtain ⟨st1, h1, h2, h3⟩ := hst st
    obtain ⟨st', h1', h2', h3'⟩ := ih st1 (fun φ' hφ' => hinit φ' (List.mem_cons_of_mem _ hφ'))
    refine ⟨st', ?_, ?_, ?_⟩
    · simp only [initStore, h1, h1', bind, Except.bind]
    · rintro ψ ⟨φ', hφ', hψ⟩
      by_cases hin : InSpecs rest ψ
      · exact h2' ψ hin
      · rw [h3' ψ hin]
        rcases List.mem_cons.1 hφ' with rfl | h'
        · exact h2 ψ hψ
        · exact absurd ⟨φ', h', hψ⟩ hin
    · intro ψ hψ
      rw [h3' ψ (fun ⟨φ', h', h''⟩ => hψ ⟨φ', List.mem_cons_of_mem _ h', h''⟩)]
      exact h3 ψ (fun h' => hψ ⟨φ, List.mem_cons_self, h'⟩)

omit [DecidableEq α] in
theorem runOnline_inv {h r : Kind → Bool} {φ : F α} {es : List (String → α)} {os : List α}
    (hrun : runOnline h r φ es = .ok os) :
    ∃ t0 t, initTree h r φ = .ok t0 ∧ runTree φ t0 es = .ok (t, os) := by
  cases hi : initTree h r φ with
  | error x => simp [runOnline, hi, bind, Except.bind] at hrun
  | ok t0 =>
    cases hr : runTree φ t0 es with
    | error x => simp [runOnline, hi, hr, bind, Except.bind] at hrun
    | ok p =>
      obtain ⟨t, os'⟩ := p
      simp only [runOnline, hi, hr, bind, Except.bind, pure, Except.pure, Except.ok.injEq] at hrun
      subst hrun
      exact ⟨t0, t, rfl, hr⟩

end C09

open C09

/-- Refinement: if the stand-alone monitor of every operator sub-formula `ψ` of the
    assertions returns `O ψ` on the inputs `es`, then the dictionary-and-memo interpreter
    returns, at update `j`, the `j`-th stand-alone value of every assertion — whatever the
    sharing between and inside the assertions — and its memo (`ast.results`) holds the
    `j`-th stand-alone value of every operator sub-formula. -/
theorem C09_program_refines_trees (h r : Kind → Bool) (specs : List (F α)) (es : List (String → α))
    (O : F α → List α)
    (hO : ∀ φ ∈ specs, ∀ ψ ∈ φ.opSubs, runOnline h r ψ es = .ok (O ψ))
    (hleaf : ∀ φ ∈ specs, runOnline h r φ es = .ok (O φ)) :
    ∃ rounds, runProgram h r specs es = .ok rounds ∧ rounds.length = es.length ∧
      ∀ j (hj : j < rounds.length),
        (rounds[j]).1 = specs.map (fun φ => (O φ).getD j Val.zero) ∧
        ∀ φ ∈ specs, ∀ ψ ∈ φ.opSubs, (rounds[j]).2.lookup ψ = some ((O ψ).getD j Val.zero) := by
  have hall : ∀ φ, (φ ∈ specs ∨ InSpecs specs φ) → runOnline h r φ es = .ok (O φ) := by
    rintro φ (hφ | ⟨φ', h1, h2⟩)
    · exact hleaf φ hφ
    · exact hO φ' h1 φ h2
  obtain ⟨st0, hst0, hlook, _⟩ := initStore_ok h r specs [] (fun φ hφ => by
    obtain ⟨t0, _, hi, _⟩ := runOnline_inv (hleaf φ hφ)
    exact ⟨t0, hi⟩)
  obtain ⟨rounds, hr, hlen, hrounds⟩ := runSpecs_ok specs es st0 initNode O hlook (fun φ hφ => by
    obtain ⟨t0, t, hi, hrun⟩ := runOnline_inv (hall φ hφ)
    obtain ⟨ht0, _⟩ := initOK_all h r φ t0 hi
    exact ⟨t, ht0 ▸ hrun⟩)
  refine ⟨rounds, ?_, hlen, ?_⟩
  · simp only [runProgram, hst0, hr, bind, Except.bind]
  · intro j hj
    obtain ⟨h1, h2⟩ := hrounds j hj
    exact ⟨h1, fun φ hφ ψ hψ => h2 ψ ⟨φ, hφ, hψ⟩⟩

variable [LawfulVal α]

namespace C09

omit [Val α] [DecidableEq α] [LawfulVal α] in
theorem opSubs_kinds {φ ψ : F α} (h : ψ ∈ φ.opSubs) : ∀ k ∈ ψ.kinds, k ∈ φ.kinds := by
  induction φ with
  | var x => simp [F.opSubs] at h
  | const c => simp [F.opSubs] at h
  | un op φ ih =>
    simp only [F.opSubs, List.mem_cons] at h
    rcases h with rfl | h
    · exact fun _ hk => hk
    · intro k hk; simp only [F.kinds, List.mem_cons]; exact Or.inr (ih h k hk)
  | tmp1 op φ ih =>
    simp only [F.opSubs, List.mem_cons] at h
    rcases h with rfl | h
    · exact fun _ hk => hk
    · intro k hk; simp only [F.kinds, List.mem_cons]; exact Or.inr (ih h k hk)
  | tb1 op a b φ ih =>
    simp only [F.opSubs, List.mem_cons] at h
    rcases h with rfl | h
    · exact fun _ hk => hk
    · intro k hk; simp only [F.kinds, List.mem_cons]; exact Or.inr (ih h k hk)
  | bin op φ ψ ih1 ih2 =>
    simp only [F.opSubs, List.mem_cons, List.mem_append] at h
    rcases h with rfl | h | h
    · exact fun _ hk => hk
    · intro k hk; simp only [F.kinds, List.mem_cons, List.mem_append]
      exact Or.inr (Or.inl (ih1 h k hk))
    · intro k hk; simp only [F.kinds, List.mem_cons, List.mem_append]
      exact Or.inr (Or.inr (ih2 h k hk))
  | tmp2 op φ ψ ih1 ih2 =>
    simp only [F.opSubs, List.mem_cons, List.mem_append] at h
    rcases h with rfl | h | h
    · exact fun _ hk => hk
    · intro k hk; simp only [F.kinds, List.mem_cons, List.mem_append]
      exact Or.inr (Or.inl (ih1 h k hk))
    · intro k hk; simp only [F.kinds, List.mem_cons, List.mem_append]
      exact Or.inr (Or.inr (ih2 h k hk))
  | tb2 op a b φ ψ ih1 ih2 =>
    simp only [F.opSubs, List.mem_cons, List.mem_append] at h
    rcases h with rfl | h | h
    · exact fun _ hk => hk
    · intro k hk; simp only [F.kinds, List.mem_cons, List.mem_append]
      exact Or.inr (Or.inl (ih1 h k hk))
    · intro k hk; simp only [F.kinds, List.mem_cons, List.mem_append]
      exact Or.inr (Or.inr (ih2 h k hk))

omit [Val α] [DecidableEq α] [LawfulVal α] in
theorem opSubs_online {φ ψ : F α} (h : ψ ∈ φ.opSubs) (hon : φ.online = true) : ψ.online = true := by
  simp only [F.online, List.all_eq_true] at hon ⊢
  exact fun k hk => hon k (opSubs_kinds h k hk)

omit [Val α] [DecidableEq α] [LawfulVal α] in
theorem opSubs_wf {φ ψ : F α} (h : ψ ∈ φ.opSubs) (hwf : φ.wf = true) : ψ.wf = true := by
  induction φ with
  | var x => simp [F.opSubs] at h
  | const c => simp [F.opSubs] at h
  | un op φ ih =>
    simp only [F.opSubs, List.mem_cons] at h
    rcases h with rfl | h
    · exact hwf
    · exact ih h (by simpa [F.wf] using hwf)
  | tmp1 op φ ih =>
    simp only [F.opSubs, List.mem_cons] at h
    rcases h with rfl | h
    · exact hwf
    · exact ih h (by simpa [F.wf] using hwf)
  | tb1 op a b φ ih =>
    simp only [F.opSubs, List.mem_cons] at h
    rcases h with rfl | h
    · exact hwf
    · simp only [F.wf, Bool.and_eq_true] at hwf; exact ih h hwf.2
  | bin op φ ψ ih1 ih2 =>
    simp only [F.opSubs, List.mem_cons, List.mem_append] at h
    rcases h with rfl | h | h
    · exact hwf
    · simp only [F.wf, Bool.and_eq_true] at hwf; exact ih1 h hwf.1
    · simp only [F.wf, Bool.and_eq_true] at hwf; exact ih2 h hwf.2
  | tmp2 op φ ψ ih1 ih2 =>
    simp only [F.opSubs, List.mem_cons, List.mem_append] at h
    rcases h with rfl | h | h
    · exact hwf
    · simp only [F.wf, Bool.and_eq_true] at hwf; exact ih1 h hwf.1
    · simp only [F.wf, Bool.and_eq_true] at hwf; exact ih2 h hwf.2
  | tb2 op a b φ ψ ih1 ih2 =>
    simp only [F.opSubs, List.mem_cons, List.mem_append] at h
    rcases h with rfl | h | h
    · exact hwf
    · simp only [F.wf, Bool.and_eq_true] at hwf; exact ih1 h hwf.1.2
    · simp only [F.wf, Bool.and_eq_true] at hwf; exact ih2 h hwf.2

end C09

/-- C09/C02 for multi-assertion specifications with shared stateful sub-specifications and
    duplicated text: the value `update()` returns (the last assertion) at update `j` is
    `rho` of the inlined last assertion at sample `j`; and (C12) `get_value` of any assertion
    or operator sub-formula is `rho` of that formula. -/
theorem C09_program_eq_rho (h r : Kind → Bool) (specs : List (F α)) (σ : String → Nat → α) (n : Nat)
    (hon : ∀ φ ∈ specs, φ.online = true ∧ φ.wf = true)
    (hh : ∀ φ ∈ specs, ∀ k ∈ φ.kinds, k ≠ .Constant → (h k = true ∧ r k = false)) :
    ∃ rounds, runProgram h r specs (envs σ n) = .ok rounds ∧ rounds.length = n ∧
      ∀ j (hj : j < rounds.length),
        (rounds[j]).1 = specs.map (fun φ => rho σ n φ j) ∧
        ∀ φ ∈ specs, ∀ ψ ∈ φ.opSubs, (rounds[j]).2.lookup ψ = some (rho σ n ψ j) := by
  obtain ⟨rounds, hr, hlen, hrounds⟩ := C09_program_refines_trees h r specs (envs σ n)
    (fun ψ => tab n (rho σ n ψ))
    (fun φ hφ ψ hψ => C02_run_eq_rho h r σ n ψ (opSubs_online hψ (hon φ hφ).1)
      (opSubs_wf hψ (hon φ hφ).2) (fun k hk hne => hh φ hφ k (opSubs_kinds hψ k hk) hne))
    (fun φ hφ => C02_run_eq_rho h r σ n φ (hon φ hφ).1 (hon φ hφ).2 (hh φ hφ))
  have hn : rounds.length = n := by rw [hlen, envs, tab_length]
  refine ⟨rounds, hr, hn, ?_⟩
  intro j hj
  obtain ⟨h1, h2⟩ := hrounds j hj
  have hg : ∀ ψ : F α, (tab n (rho σ n ψ)).getD j Val.zero = rho σ n ψ j := by
    intro ψ
    rw [List.getD_eq_getElem?_getD, tab_getElem?, if_pos (hn ▸ hj)]
    rfl
  refine ⟨?_, ?_⟩
  · rw [h1]
    exact List.map_congr_left (fun φ _ => hg φ)
  · intro φ hφ ψ hψ
    rw [h2 φ hφ ψ hψ, hg ψ]

end Rtamt
