/-
  The update visitor and the reset visitor of the online interpreter as translated from the Python source denote the
  mirrors `visitM` / `updateSpecs` (`Rtamt/Discrete/Program.lean`: operator dictionary keyed by the node name, per-update
  memo — the functions the C09 / C12 refinement theorems are stated on) and `resetM` / `resetSpecs`
  (`Rtamt/Discrete/ProgramReset.lean`).

  `Rtamt/Py/GeneratedGlue.lean` is produced on every run by `harness/py2lean.py` from
  `rtamt/semantics/abstract_online_interpreter.py` (`AbstractOnlineUpdateVisitor`, `AbstractOnlineResetVisitor`), the leaf
  methods of `DiscreteTimeOnlineUpdateVisitor` and `AbstractAstVisitor.visitAst`; `Rtamt/Py/Glue.lean` gives the terms their
  meaning and `Rtamt/Py/RunGlue.lean` adds the dispatch of `AbstractAstVisitor.visit`.

  Two differences of representation, none of behaviour:
  * the Python code visits the operands of a node *before* it looks the node up in the memo, the mirror looks it up first;
    on a memo that is closed under operator sub-formulas (`Closed`: it is, the memo being filled bottom-up from the empty one)
    the visits of the operands of a memoised node change nothing;
  * `operator.update(…)` of a state-less operator leaves the dictionary as it is in the mirror and re-binds the key in the run of
    the translated code: the dictionaries agree on every key (`StoreEq`), which is all the mirror's theorems use.
-/
import Rtamt.Py.RunGlue
import RtamtProofs.C09

namespace Rtamt.Py
open Rtamt Val

variable {α : Type} [Val α] [DecidableEq α]

/-- The dictionaries bind the same operator state to every key. -/
def StoreEq (a b : Store α) : Prop := ∀ k, a.lookup k = b.lookup k

/-- A memo that contains a node contains all its operator sub-formulas. -/
def Closed (m : Memo α) : Prop := ∀ ψ, m.lookup ψ ≠ none → ∀ χ ∈ ψ.opSubs, m.lookup χ ≠ none

/-! ### closed forms of the translated methods -/

/-- What the translated `visitUnary` of the update visitor computes. -/
def unaryG (χ : F α) (k : Visit α) (st : GSt α) : Except PyErr (Option α × GSt α) :=
  match k st with
  | .error e => .error e
  | .ok (ov, st1) =>
    match st1.updated.lookup χ with
    | some w => .ok (some w, { st1 with results := memoSet st1.results χ w })
    | none =>
      match st1.ops.lookup χ with
      | none => .error .key
      | some s =>
        match ov with
        | none => .error .type
        | some v =>
          match stepNode χ s [v] with
          | .error e => .error e
          | .ok (s', o) =>
              .ok (some o, { ops := st1.ops.set χ s', updated := memoSet st1.updated χ o,
                             results := memoSet st1.results χ o })

omit [Val α] [DecidableEq α] in
theorem gGet_gSet_same (x : String) (v : GV α) (l : List (String × GV α)) : gGet x (gSet x v l) = .ok v := by
  simp [gGet, gSet]

omit [Val α] [DecidableEq α] in
theorem gGet_gSet_ne (x y : String) (v : GV α) (l : List (String × GV α)) (h : x ≠ y) :
    gGet x (gSet y v l) = gGet x l := by
  have hb : (x == y) = false := by simpa using h
  have : List.lookup x (l.filter (fun p => p.1 != y)) = List.lookup x l := by
    induction l with
    | nil => rfl
    | cons p l ih =>
      obtain ⟨a, b⟩ := p
      by_cases ha : a = y
      · subst ha
        rw [List.filter_cons_of_neg (by simp), ih, List.lookup_cons, hb]
      · rw [List.filter_cons_of_pos (by simpa using ha), List.lookup_cons, List.lookup_cons, ih]
  simp only [gGet, gSet, List.lookup_cons, hb, this]

theorem unary_body (χ : F α) (vars : String → α) (k : Visit α) (st : GSt α) :
    (do valOf (← callG Gen.Glue.update_visitUnary χ vars [k] [] st)) = unaryG χ k st := by
  unfold unaryG callG Gen.Glue.update_visitUnary
  simp only [execGS, evalGE]
  cases hk : k st with
  | error e => simp only [List.getElem?_cons_zero, hk, bind, Except.bind]
  | ok p =>
    obtain ⟨ov, st1⟩ := p
    simp only [List.getElem?_cons_zero, hk, bind, Except.bind, pure, Except.pure]
    cases hu : List.lookup χ st1.updated with
    | some w =>
      simp only [Option.isSome_some, hu, gGet_gSet_same, valOf]
    | none =>
      simp only [Option.isSome_none]
      cases ho : List.lookup χ st1.ops with
      | none => rfl
      | some s =>
        have h1 : gGet "sample" (gSet "op" (GV.opRef χ) (gSet "sample" (gvOfOpt ov) [])) = .ok (gvOfOpt ov) := by
          rw [gGet_gSet_ne _ _ _ _ (by decide), gGet_gSet_same]
        simp only [gGet_gSet_same, evalArgs, evalGE, h1, bind, Except.bind, pure, Except.pure]
        cases ov with
        | none => rfl
        | some v =>
          simp only [gvOfOpt, Store.get, ho]
          cases hs : stepNode χ s [v] with
          | error e => rfl
          | ok q =>
            obtain ⟨s', o⟩ := q
            simp only [gGet_gSet_same, valOf]

/-- What the translated `visitBinary` of the update visitor computes. -/
def binaryG (χ : F α) (k1 k2 : Visit α) (st : GSt α) : Except PyErr (Option α × GSt α) :=
  match k1 st with
  | .error e => .error e
  | .ok (ov1, st1) =>
    match k2 st1 with
    | .error e => .error e
    | .ok (ov2, st2) =>
      match st2.updated.lookup χ with
      | some w => .ok (some w, { st2 with results := memoSet st2.results χ w })
      | none =>
        match st2.ops.lookup χ with
        | none => .error .key
        | some s =>
          match ov1, ov2 with
          | some v1, some v2 =>
            match stepNode χ s [v1, v2] with
            | .error e => .error e
            | .ok (s', o) =>
                .ok (some o, { ops := st2.ops.set χ s', updated := memoSet st2.updated χ o,
                               results := memoSet st2.results χ o })
          | _, _ => .error .type

theorem binary_body (χ : F α) (vars : String → α) (k1 k2 : Visit α) (st : GSt α) :
    (do valOf (← callG Gen.Glue.update_visitBinary χ vars [k1, k2] [] st)) = binaryG χ k1 k2 st := by
  unfold binaryG callG Gen.Glue.update_visitBinary
  simp only [execGS, evalGE]
  cases hk : k1 st with
  | error e => simp only [List.getElem?_cons_zero, hk, bind, Except.bind]
  | ok p =>
    obtain ⟨ov1, st1⟩ := p
    simp only [List.getElem?_cons_zero, List.getElem?_cons_succ, hk, bind, Except.bind, pure, Except.pure]
    cases hk2 : k2 st1 with
    | error e => rfl
    | ok p2 =>
      obtain ⟨ov2, st2⟩ := p2
      simp only []
      cases hu : List.lookup χ st2.updated with
      | some w =>
        simp only [Option.isSome_some, hu, gGet_gSet_same, valOf]
      | none =>
        simp only [Option.isSome_none]
        cases ho : List.lookup χ st2.ops with
        | none => rfl
        | some s =>
          have h1 : gGet "sample_left" (gSet "operator" (GV.opRef χ) (gSet "sample_right" (gvOfOpt ov2)
              (gSet "sample_left" (gvOfOpt ov1) []))) = .ok (gvOfOpt ov1) := by
            rw [gGet_gSet_ne _ _ _ _ (by decide), gGet_gSet_ne _ _ _ _ (by decide), gGet_gSet_same]
          have h2 : gGet "sample_right" (gSet "operator" (GV.opRef χ) (gSet "sample_right" (gvOfOpt ov2)
              (gSet "sample_left" (gvOfOpt ov1) []))) = .ok (gvOfOpt ov2) := by
            rw [gGet_gSet_ne _ _ _ _ (by decide), gGet_gSet_same]
          simp only [gGet_gSet_same, evalArgs, evalGE, h1, h2, bind, Except.bind, pure, Except.pure]
          cases ov1 with
          | none => rfl
          | some v1 =>
            cases ov2 with
            | none => rfl
            | some v2 =>
              simp only [gvOfOpt, Store.get, ho]
              cases hs : stepNode χ s [v1, v2] with
              | error e => rfl
              | ok q =>
                obtain ⟨s', o⟩ := q
                simp only [gGet_gSet_same, valOf]

theorem leaf_body_var (x : String) (vars : String → α) (st : GSt α) :
    visitGlue vars (.var x) st =
      .ok (some (vars x), { st with results := memoSet st.results (.var x) (vars x) }) := by
  rw [visitGlue]
  unfold callG Gen.Glue.update_visitLeaf
  simp only [execGS, evalGE, bind, Except.bind, pure, Except.pure, gGet_gSet_same]
  rfl

theorem leaf_body_const (c : α) (vars : String → α) (st : GSt α) :
    visitGlue vars (.const c) st =
      .ok (some c, { st with results := memoSet st.results (.const c) c }) := by
  rw [visitGlue]
  unfold callG Gen.Glue.update_visitLeaf
  simp only [execGS, evalGE, bind, Except.bind, pure, Except.pure, gGet_gSet_same]
  rfl

/-! ### dictionaries that agree on every key -/

omit [Val α] in
theorem StoreEq.set {a b : Store α} (h : StoreEq a b) (k : F α) (s : St α) : StoreEq (a.set k s) (b.set k s) := by
  intro k'
  by_cases hk : k' = k
  · subst hk; rw [C09.lookup_set_eq, C09.lookup_set_eq]
  · rw [C09.lookup_set_ne _ _ _ _ hk, C09.lookup_set_ne _ _ _ _ hk, h k']

omit [Val α] in
theorem StoreEq.set_self {a : Store α} {k : F α} {s : St α} (h : a.lookup k = some s) : StoreEq (a.set k s) a := by
  intro k'
  by_cases hk : k' = k
  · subst hk; rw [C09.lookup_set_eq, h]
  · rw [C09.lookup_set_ne _ _ _ _ hk]

omit [Val α] in
theorem StoreEq.trans {a b c : Store α} (h : StoreEq a b) (h' : StoreEq b c) : StoreEq a c :=
  fun k => (h k).trans (h' k)

omit [Val α] in
theorem StoreEq.refl (a : Store α) : StoreEq a a := fun _ => rfl

/-! ### the mirror in uniform shape -/

/-- `visitM` on a one-operand node, every operator class stepped by `stepNode` and re-bound. -/
def mirror1 (env : String → α) (χ φ : F α) (sm : Store α × Memo α) : Except PyErr (α × (Store α × Memo α)) :=
  match sm.2.lookup χ with
  | some v => .ok (v, sm)
  | none =>
    match visitM env φ sm with
    | .error e => .error e
    | .ok (v, (st1, mm1)) =>
      match st1.lookup χ with
      | none => .error .key
      | some s =>
        match stepNode χ s [v] with
        | .error e => .error e
        | .ok (s', o) => .ok (o, (st1.set χ s', (χ, o) :: mm1))

def mirror2 (env : String → α) (χ φ ψ : F α) (sm : Store α × Memo α) : Except PyErr (α × (Store α × Memo α)) :=
  match sm.2.lookup χ with
  | some v => .ok (v, sm)
  | none =>
    match visitM env φ sm with
    | .error e => .error e
    | .ok (v1, sm1) =>
      match visitM env ψ sm1 with
      | .error e => .error e
      | .ok (v2, (st2, mm2)) =>
        match st2.lookup χ with
        | none => .error .key
        | some s =>
          match stepNode χ s [v1, v2] with
          | .error e => .error e
          | .ok (s', o) => .ok (o, (st2.set χ s', (χ, o) :: mm2))

def MirrorRel : Except PyErr (α × (Store α × Memo α)) → Except PyErr (α × (Store α × Memo α)) → Prop
  | .ok (v, (o, m)), .ok (v', (o', m')) => v = v' ∧ StoreEq o o' ∧ m = m'
  | .error e, .error e' => e = e'
  | _, _ => False

omit [Val α] in
theorem MirrorRel.refl (a : Except PyErr (α × (Store α × Memo α))) : MirrorRel a a := by
  cases a with
  | error e => exact rfl
  | ok p => obtain ⟨v, o, m⟩ := p; exact ⟨rfl, StoreEq.refl _, rfl⟩

theorem mirror1_un (env : String → α) (op : Un) (φ : F α) (sm : Store α × Memo α) :
    MirrorRel (mirror1 env (.un op φ) φ sm) (visitM env (.un op φ) sm) := by
  unfold mirror1; rw [visitM]
  cases sm.2.lookup (F.un op φ) with
  | some v => exact MirrorRel.refl _
  | none =>
    simp only []
    cases visitM env φ sm with
    | error e => exact rfl
    | ok p =>
      obtain ⟨v, st1, mm1⟩ := p
      simp only [bind, Except.bind, Store.get]
      cases hs : List.lookup (F.un op φ) st1 with
      | none => exact rfl
      | some s => exact ⟨rfl, StoreEq.set_self hs, rfl⟩

theorem mirror1_tmp1 (env : String → α) (op : T1) (φ : F α) (sm : Store α × Memo α) :
    MirrorRel (mirror1 env (.tmp1 op φ) φ sm) (visitM env (.tmp1 op φ) sm) := by
  unfold mirror1; rw [visitM]
  cases sm.2.lookup (F.tmp1 op φ) with
  | some v => exact MirrorRel.refl _
  | none =>
    simp only []
    cases visitM env φ sm with
    | error e => exact rfl
    | ok p =>
      obtain ⟨v, st1, mm1⟩ := p
      simp only [bind, Except.bind, Store.get]
      cases hs : List.lookup (F.tmp1 op φ) st1 with
      | none => exact rfl
      | some s =>
        simp only [stepNode]
        cases stepT1 op s v with
        | error e => exact rfl
        | ok q => exact MirrorRel.refl _

theorem mirror1_tb1 (env : String → α) (op : TB1) (a b : Nat) (φ : F α) (sm : Store α × Memo α) :
    MirrorRel (mirror1 env (F.tb1 op a b φ) φ sm) (visitM env (F.tb1 op a b φ) sm) := by
  unfold mirror1; rw [visitM]
  cases sm.2.lookup (F.tb1 op a b φ) with
  | some v => exact MirrorRel.refl _
  | none =>
    simp only []
    cases visitM env φ sm with
    | error e => exact rfl
    | ok p =>
      obtain ⟨v, st1, mm1⟩ := p
      simp only [bind, Except.bind, Store.get]
      cases hs : List.lookup (F.tb1 op a b φ) st1 with
      | none => exact rfl
      | some s =>
        simp only [stepNode]
        cases stepTB1 op a b s v with
        | error e => exact rfl
        | ok q => exact MirrorRel.refl _

theorem mirror2_bin (env : String → α) (op : Bin) (φ ψ : F α) (sm : Store α × Memo α) :
    MirrorRel (mirror2 env (F.bin op φ ψ) φ ψ sm) (visitM env (F.bin op φ ψ) sm) := by
  unfold mirror2; rw [visitM]
  cases sm.2.lookup (F.bin op φ ψ) with
  | some v => exact MirrorRel.refl _
  | none =>
    simp only []
    cases visitM env φ sm with
    | error e => exact rfl
    | ok p =>
      obtain ⟨v1, sm1⟩ := p
      simp only [bind, Except.bind]
      cases visitM env ψ sm1 with
      | error e => exact rfl
      | ok p2 =>
        obtain ⟨v2, st2, mm2⟩ := p2
        simp only [Store.get]
        cases hs : List.lookup (F.bin op φ ψ) st2 with
        | none => exact rfl
        | some s =>
          exact ⟨rfl, StoreEq.set_self hs, rfl⟩

theorem mirror2_tmp2 (env : String → α) (op : T2) (φ ψ : F α) (sm : Store α × Memo α) :
    MirrorRel (mirror2 env (F.tmp2 op φ ψ) φ ψ sm) (visitM env (F.tmp2 op φ ψ) sm) := by
  unfold mirror2; rw [visitM]
  cases sm.2.lookup (F.tmp2 op φ ψ) with
  | some v => exact MirrorRel.refl _
  | none =>
    simp only []
    cases visitM env φ sm with
    | error e => exact rfl
    | ok p =>
      obtain ⟨v1, sm1⟩ := p
      simp only [bind, Except.bind]
      cases visitM env ψ sm1 with
      | error e => exact rfl
      | ok p2 =>
        obtain ⟨v2, st2, mm2⟩ := p2
        simp only [Store.get]
        cases hs : List.lookup (F.tmp2 op φ ψ) st2 with
        | none => exact rfl
        | some s =>
          simp only [stepNode]
          cases stepT2 op s v1 v2 with
          | error e => exact rfl
          | ok q => exact MirrorRel.refl _

theorem mirror2_tb2 (env : String → α) (op : TB2) (a b : Nat) (φ ψ : F α) (sm : Store α × Memo α) :
    MirrorRel (mirror2 env (F.tb2 op a b φ ψ) φ ψ sm) (visitM env (F.tb2 op a b φ ψ) sm) := by
  unfold mirror2; rw [visitM]
  cases sm.2.lookup (F.tb2 op a b φ ψ) with
  | some v => exact MirrorRel.refl _
  | none =>
    simp only []
    cases visitM env φ sm with
    | error e => exact rfl
    | ok p =>
      obtain ⟨v1, sm1⟩ := p
      simp only [bind, Except.bind]
      cases visitM env ψ sm1 with
      | error e => exact rfl
      | ok p2 =>
        obtain ⟨v2, st2, mm2⟩ := p2
        simp only [Store.get]
        cases hs : List.lookup (F.tb2 op a b φ ψ) st2 with
        | none => exact rfl
        | some s =>
          simp only [stepNode]
          cases stepTB2 op a b s v1 v2 with
          | error e => exact rfl
          | ok q => exact MirrorRel.refl _

/-- A visit of a formula whose operator sub-formulas are all memoised changes nothing. -/
theorem visitM_noop (env : String → α) (φ : F α) (ops : Store α) (m : Memo α)
    (h : ∀ ψ ∈ φ.opSubs, m.lookup ψ ≠ none) : ∃ v, visitM env φ (ops, m) = .ok (v, (ops, m)) := by
  cases φ with
  | var x => exact ⟨_, rfl⟩
  | const c => exact ⟨_, rfl⟩
  | un op φ =>
    cases hl : m.lookup (.un op φ) with
    | none => exact absurd hl (h _ (by simp [F.opSubs]))
    | some v => exact ⟨v, by rw [visitM]; simp only [hl]⟩
  | bin op φ ψ =>
    cases hl : m.lookup (.bin op φ ψ) with
    | none => exact absurd hl (h _ (by simp [F.opSubs]))
    | some v => exact ⟨v, by rw [visitM]; simp only [hl]⟩
  | tmp1 op φ =>
    cases hl : m.lookup (.tmp1 op φ) with
    | none => exact absurd hl (h _ (by simp [F.opSubs]))
    | some v => exact ⟨v, by rw [visitM]; simp only [hl]⟩
  | tmp2 op φ ψ =>
    cases hl : m.lookup (.tmp2 op φ ψ) with
    | none => exact absurd hl (h _ (by simp [F.opSubs]))
    | some v => exact ⟨v, by rw [visitM]; simp only [hl]⟩
  | tb1 op a b φ =>
    cases hl : m.lookup (.tb1 op a b φ) with
    | none => exact absurd hl (h _ (by simp [F.opSubs]))
    | some v => exact ⟨v, by rw [visitM]; simp only [hl]⟩
  | tb2 op a b φ ψ =>
    cases hl : m.lookup (.tb2 op a b φ ψ) with
    | none => exact absurd hl (h _ (by simp [F.opSubs]))
    | some v => exact ⟨v, by rw [visitM]; simp only [hl]⟩

/-- How a visit of `φ` changes the memo: entries are only added, only for operator sub-formulas of `φ`, and all of
    them are there afterwards. -/
def MemoProps (φ : F α) (m m' : Memo α) : Prop :=
  (∀ χ, m.lookup χ ≠ none → m'.lookup χ ≠ none) ∧ (∀ χ, χ ∉ φ.opSubs → m'.lookup χ = m.lookup χ) ∧
    (∀ χ ∈ φ.opSubs, m'.lookup χ ≠ none)

/-- `VisitAgree` (below) together with `MemoProps`. -/
def Agree (φ : F α) (m : Memo α) : Except PyErr (Option α × GSt α) → Except PyErr (α × (Store α × Memo α)) → Prop
  | .ok (ov, st'), .ok (v, (ops', memo')) =>
      (ov = some v ∧ StoreEq st'.ops ops' ∧ st'.updated = memo' ∧ Closed memo' ∧ st'.results.lookup φ = some v) ∧
        MemoProps φ m memo'
  | .error e, .error e' => e = e'
  | _, _ => False

omit [Val α] in
theorem Agree.trans {φ : F α} {m : Memo α} {g : Except PyErr (Option α × GSt α)}
    {a b : Except PyErr (α × (Store α × Memo α))} (h : Agree φ m g a) (h' : MirrorRel a b) : Agree φ m g b := by
  cases g with
  | error e =>
    cases a with
    | error e1 =>
      cases b with
      | error e2 => exact Eq.trans (a := e) h h'
      | ok q => exact h'.elim
    | ok p => exact h.elim
  | ok r =>
    obtain ⟨ov, st'⟩ := r
    cases a with
    | error e1 => exact h.elim
    | ok p =>
      obtain ⟨v, o, mm⟩ := p
      cases b with
      | error e2 => exact h'.elim
      | ok q =>
        obtain ⟨v', o', mm'⟩ := q
        obtain ⟨rfl, h2, rfl⟩ := h'
        obtain ⟨⟨h3, h4, h5, h6, h7⟩, h8⟩ := h
        exact ⟨⟨h3, h4.trans h2, h5, h6, h7⟩, h8⟩

def Good (vars : String → α) (φ : F α) : Prop :=
  ∀ st ops, StoreEq st.ops ops → Closed st.updated →
    Agree φ st.updated (visitGlue vars φ st) (visitM vars φ (ops, st.updated))

omit [Val α] in
theorem lookup_cons_ne_none {β : Type} (k k' : F α) (s : β) (m : List (F α × β)) (h : m.lookup k ≠ none) :
    List.lookup k ((k', s) :: m) ≠ none := by
  by_cases hk : k = k'
  · subst hk; rw [C09.lookup_cons_eq]; simp
  · rw [C09.lookup_cons_ne _ _ _ _ hk]; exact h

omit [Val α] in
theorem closed_cons {χ : F α} {o : α} {m : Memo α} (hc : Closed m) (h : ∀ ψ ∈ χ.opSubs, ψ ≠ χ → m.lookup ψ ≠ none) :
    Closed ((χ, o) :: m) := by
  intro ψ hψ ψ' hψ'
  by_cases hk : ψ' = χ
  · subst hk; rw [C09.lookup_cons_eq]; simp
  · rw [C09.lookup_cons_ne _ _ _ _ hk]
    by_cases hk2 : ψ = χ
    · subst hk2; exact h ψ' hψ' hk
    · rw [C09.lookup_cons_ne _ _ _ _ hk2] at hψ
      exact hc ψ hψ ψ' hψ'

theorem good_node1 (vars : String → α) (χ φ : F α) (hsubs : χ.opSubs = χ :: φ.opSubs) (hsz : φ.size < χ.size)
    (hG : ∀ st, visitGlue vars χ st = unaryG χ (visitGlue vars φ) st)
    (hM : ∀ sm, MirrorRel (mirror1 vars χ φ sm) (visitM vars χ sm))
    (ih : Good vars φ) : Good vars χ := by
  intro st ops heq hc
  refine Agree.trans ?_ (hM (ops, st.updated))
  rw [hG]
  unfold mirror1 unaryG
  have hχ : χ ∉ φ.opSubs := fun h => by have := C09.opSubs_size h; omega
  have ih0 := ih st ops heq hc
  cases hl : st.updated.lookup χ with
  | some w =>
    have hall : ∀ ψ ∈ χ.opSubs, st.updated.lookup ψ ≠ none := hc χ (by simp [hl])
    obtain ⟨v', hv'⟩ := visitM_noop vars φ ops st.updated
      (fun ψ hψ => hall ψ (by rw [hsubs]; exact List.mem_cons_of_mem _ hψ))
    rw [hv'] at ih0
    cases hg : visitGlue vars φ st with
    | error e => rw [hg] at ih0; exact ih0.elim
    | ok p =>
      obtain ⟨ov, st1⟩ := p
      rw [hg] at ih0
      obtain ⟨⟨h1, h2, h3, h4, h5⟩, -⟩ := ih0
      simp only [h3, hl]
      exact ⟨⟨rfl, h2, rfl, hc, C09.lookup_cons_eq _ _ _⟩, fun _ h => h, fun _ _ => rfl, hall⟩
  | none =>
    simp only []
    cases hm : visitM vars φ (ops, st.updated) with
    | error e =>
      rw [hm] at ih0
      cases hg : visitGlue vars φ st with
      | error e' => rw [hg] at ih0; exact ih0
      | ok p => rw [hg] at ih0; exact ih0.elim
    | ok q =>
      obtain ⟨v, o1, m1⟩ := q
      rw [hm] at ih0
      cases hg : visitGlue vars φ st with
      | error e' => rw [hg] at ih0; exact ih0.elim
      | ok p =>
        obtain ⟨ov, st1⟩ := p
        rw [hg] at ih0
        obtain ⟨⟨h1, h2, h3, h4, h5⟩, h6, h7, h8⟩ := ih0
        have hl1 : List.lookup χ m1 = none := by rw [h7 χ hχ]; exact hl
        subst h1
        simp only [h3, hl1, h2 χ]
        cases hs : List.lookup χ o1 with
        | none => exact rfl
        | some s =>
          simp only []
          cases hstep : stepNode χ s [v] with
          | error e => exact rfl
          | ok r =>
            obtain ⟨s', o⟩ := r
            refine ⟨⟨rfl, h2.set _ _, rfl, ?_, C09.lookup_cons_eq _ _ _⟩, ?_, ?_, ?_⟩
            · refine closed_cons h4 (fun ψ hψ hne => ?_)
              rw [hsubs] at hψ
              rcases List.mem_cons.1 hψ with h | h
              · exact absurd h hne
              · exact h8 ψ h
            · exact fun ψ h => lookup_cons_ne_none _ _ _ _ (h6 ψ h)
            · intro ψ hψ
              rw [hsubs] at hψ
              have hne : ψ ≠ χ := fun h => hψ (h ▸ List.mem_cons_self)
              rw [C09.lookup_cons_ne _ _ _ _ hne]
              exact h7 ψ (fun h => hψ (List.mem_cons_of_mem _ h))
            · intro ψ hψ
              rw [hsubs] at hψ
              rcases List.mem_cons.1 hψ with h | h
              · subst h; rw [C09.lookup_cons_eq]; simp
              · exact lookup_cons_ne_none _ _ _ _ (h8 ψ h)

theorem good_node2 (vars : String → α) (χ φ1 φ2 : F α) (hsubs : χ.opSubs = χ :: (φ1.opSubs ++ φ2.opSubs))
    (hsz : φ1.size + φ2.size < χ.size)
    (hG : ∀ st, visitGlue vars χ st = binaryG χ (visitGlue vars φ1) (visitGlue vars φ2) st)
    (hM : ∀ sm, MirrorRel (mirror2 vars χ φ1 φ2 sm) (visitM vars χ sm))
    (ih1 : Good vars φ1) (ih2 : Good vars φ2) : Good vars χ := by
  intro st ops heq hc
  refine Agree.trans ?_ (hM (ops, st.updated))
  rw [hG]
  unfold mirror2 binaryG
  have hχ1 : χ ∉ φ1.opSubs := fun h => by have := C09.opSubs_size h; omega
  have hχ2 : χ ∉ φ2.opSubs := fun h => by have := C09.opSubs_size h; omega
  have ih0 := ih1 st ops heq hc
  cases hl : st.updated.lookup χ with
  | some w =>
    have hall : ∀ ψ ∈ χ.opSubs, st.updated.lookup ψ ≠ none := hc χ (by simp [hl])
    obtain ⟨v1', hv1'⟩ := visitM_noop vars φ1 ops st.updated
      (fun ψ hψ => hall ψ (by rw [hsubs]; exact List.mem_cons_of_mem _ (List.mem_append_left _ hψ)))
    obtain ⟨v2', hv2'⟩ := visitM_noop vars φ2 ops st.updated
      (fun ψ hψ => hall ψ (by rw [hsubs]; exact List.mem_cons_of_mem _ (List.mem_append_right _ hψ)))
    rw [hv1'] at ih0
    cases hg : visitGlue vars φ1 st with
    | error e => rw [hg] at ih0; exact ih0.elim
    | ok p =>
      obtain ⟨ov1, st1⟩ := p
      rw [hg] at ih0
      obtain ⟨⟨h1, h2, h3, h4, h5⟩, -⟩ := ih0
      have ih0' := ih2 st1 ops h2 (by rw [h3]; exact hc)
      rw [h3, hv2'] at ih0'
      simp only []
      cases hg2 : visitGlue vars φ2 st1 with
      | error e => rw [hg2] at ih0'; exact ih0'.elim
      | ok p2 =>
        obtain ⟨ov2, st2⟩ := p2
        rw [hg2] at ih0'
        obtain ⟨⟨k1, k2, k3, k4, k5⟩, -⟩ := ih0'
        simp only [k3, hl]
        exact ⟨⟨rfl, k2, rfl, hc, C09.lookup_cons_eq _ _ _⟩, fun _ h => h, fun _ _ => rfl, hall⟩
  | none =>
    simp only []
    cases hm : visitM vars φ1 (ops, st.updated) with
    | error e =>
      rw [hm] at ih0
      cases hg : visitGlue vars φ1 st with
      | error e' => rw [hg] at ih0; exact ih0
      | ok p => rw [hg] at ih0; exact ih0.elim
    | ok q =>
      obtain ⟨v1, o1, m1⟩ := q
      rw [hm] at ih0
      cases hg : visitGlue vars φ1 st with
      | error e' => rw [hg] at ih0; exact ih0.elim
      | ok p =>
        obtain ⟨ov1, st1⟩ := p
        rw [hg] at ih0
        obtain ⟨⟨h1, h2, h3, h4, h5⟩, h6, h7, h8⟩ := ih0
        subst h1
        subst h3
        have ih0' := ih2 st1 o1 h2 h4
        simp only []
        cases hm2 : visitM vars φ2 (o1, st1.updated) with
        | error e =>
          rw [hm2] at ih0'
          cases hg2 : visitGlue vars φ2 st1 with
          | error e' => rw [hg2] at ih0'; exact ih0'
          | ok p => rw [hg2] at ih0'; exact ih0'.elim
        | ok q2 =>
          obtain ⟨v2, o2, m2⟩ := q2
          rw [hm2] at ih0'
          cases hg2 : visitGlue vars φ2 st1 with
          | error e' => rw [hg2] at ih0'; exact ih0'.elim
          | ok p2 =>
            obtain ⟨ov2, st2⟩ := p2
            rw [hg2] at ih0'
            obtain ⟨⟨k1, k2, k3, k4, k5⟩, k6, k7, k8⟩ := ih0'
            subst k1
            have hl2 : List.lookup χ m2 = none := by rw [k7 χ hχ2, h7 χ hχ1]; exact hl
            have hsubsOK : ∀ ψ ∈ φ1.opSubs ++ φ2.opSubs, List.lookup ψ m2 ≠ none := by
              intro ψ hψ
              rcases List.mem_append.1 hψ with h | h
              · exact k6 ψ (h8 ψ h)
              · exact k8 ψ h
            simp only [k3, hl2, k2 χ]
            cases hs : List.lookup χ o2 with
            | none => exact rfl
            | some s =>
              simp only []
              cases hstep : stepNode χ s [v1, v2] with
              | error e => exact rfl
              | ok r =>
                obtain ⟨s', o⟩ := r
                refine ⟨⟨rfl, k2.set _ _, rfl, ?_, C09.lookup_cons_eq _ _ _⟩, ?_, ?_, ?_⟩
                · refine closed_cons k4 (fun ψ hψ hne => ?_)
                  rw [hsubs] at hψ
                  rcases List.mem_cons.1 hψ with h | h
                  · exact absurd h hne
                  · exact hsubsOK ψ h
                · exact fun ψ h => lookup_cons_ne_none _ _ _ _ (k6 ψ (h6 ψ h))
                · intro ψ hψ
                  rw [hsubs] at hψ
                  have hne : ψ ≠ χ := fun h => hψ (h ▸ List.mem_cons_self)
                  rw [C09.lookup_cons_ne _ _ _ _ hne]
                  rw [k7 ψ (fun h => hψ (List.mem_cons_of_mem _ (List.mem_append_right _ h))),
                    h7 ψ (fun h => hψ (List.mem_cons_of_mem _ (List.mem_append_left _ h)))]
                · intro ψ hψ
                  rw [hsubs] at hψ
                  rcases List.mem_cons.1 hψ with h | h
                  · subst h; rw [C09.lookup_cons_eq]; simp
                  · exact lookup_cons_ne_none _ _ _ _ (hsubsOK ψ h)

theorem good_all (vars : String → α) (φ : F α) : Good vars φ := by
  induction φ with
  | var x =>
    intro st ops heq hc
    rw [leaf_body_var, visitM]
    exact ⟨⟨rfl, heq, rfl, hc, C09.lookup_cons_eq _ _ _⟩, fun _ h => h, fun _ _ => rfl,
      fun ψ h => by simp [F.opSubs] at h⟩
  | const c =>
    intro st ops heq hc
    rw [leaf_body_const, visitM]
    exact ⟨⟨rfl, heq, rfl, hc, C09.lookup_cons_eq _ _ _⟩, fun _ h => h, fun _ _ => rfl,
      fun ψ h => by simp [F.opSubs] at h⟩
  | un op φ ih =>
    exact good_node1 vars _ φ rfl (by simp [F.size]) (fun st => by rw [visitGlue]; exact unary_body _ _ _ _)
      (mirror1_un vars op φ) ih
  | tmp1 op φ ih =>
    exact good_node1 vars _ φ rfl (by simp [F.size]) (fun st => by rw [visitGlue]; exact unary_body _ _ _ _)
      (mirror1_tmp1 vars op φ) ih
  | tb1 op a b φ ih =>
    exact good_node1 vars _ φ rfl (by simp [F.size]) (fun st => by rw [visitGlue]; exact unary_body _ _ _ _)
      (mirror1_tb1 vars op a b φ) ih
  | bin op φ ψ ih1 ih2 =>
    exact good_node2 vars _ φ ψ rfl (by simp [F.size]) (fun st => by rw [visitGlue]; exact binary_body _ _ _ _ _)
      (mirror2_bin vars op φ ψ) ih1 ih2
  | tmp2 op φ ψ ih1 ih2 =>
    exact good_node2 vars _ φ ψ rfl (by simp [F.size]) (fun st => by rw [visitGlue]; exact binary_body _ _ _ _ _)
      (mirror2_tmp2 vars op φ ψ) ih1 ih2
  | tb2 op a b φ ψ ih1 ih2 =>
    exact good_node2 vars _ φ ψ rfl (by simp [F.size]) (fun st => by rw [visitGlue]; exact binary_body _ _ _ _ _)
      (mirror2_tb2 vars op a b φ ψ) ih1 ih2

/-- Outcome of a visit of the translated update visitor against the mirror's. -/
def VisitAgree (φ : F α) : Except PyErr (Option α × GSt α) → Except PyErr (α × (Store α × Memo α)) → Prop
  | .ok (ov, st'), .ok (v, (ops', memo')) =>
      ov = some v ∧ StoreEq st'.ops ops' ∧ st'.updated = memo' ∧ Closed memo' ∧ st'.results.lookup φ = some v
  | .error e, .error e' => e = e'
  | _, _ => False

/-- One visit: the translated `visitBinary` / `visitUnary` / `visitLeaf` against `visitM`. -/
theorem genGlue_visit (vars : String → α) (φ : F α) (st : GSt α) (ops : Store α)
    (heq : StoreEq st.ops ops) (hc : Closed st.updated) :
    VisitAgree φ (visitGlue vars φ st) (visitM vars φ (ops, st.updated)) := by
  have h := good_all vars φ st ops heq hc
  cases hg : visitGlue vars φ st with
  | error e =>
    rw [hg] at h
    cases hm : visitM vars φ (ops, st.updated) with
    | error e' => rw [hm] at h; exact h
    | ok q => rw [hm] at h; exact h.elim
  | ok p =>
    obtain ⟨ov, st1⟩ := p
    rw [hg] at h
    cases hm : visitM vars φ (ops, st.updated) with
    | error e' => rw [hm] at h; exact h.elim
    | ok q => obtain ⟨v, o1, m1⟩ := q; rw [hm] at h; exact h.1

/-! ### `visitAst` -/

/-- The loop of `visitAst`: the assertions are visited in order, the values collected. -/
def specsLoop : List (Visit α) → GSt α → Except PyErr (List (Option α) × GSt α)
  | [], st => .ok ([], st)
  | f :: fs, st =>
    match f st with
    | .error e => .error e
    | .ok (ov, st1) =>
      match specsLoop fs st1 with
      | .error e => .error e
      | .ok (l, st') => .ok (ov :: l, st')

/-- One iteration of `for spec in ast.specs: out.append(self.visit(spec, …))`. -/
def specStep (p : GEnv α × GSt α) (f : Visit α) : Except PyErr (GEnv α × GSt α) :=
  execGS (.appendLoc "out" .visitSpec) { p.1 with spec := some f } p.2 []

theorem specStep_eq (env : GEnv α) (st : GSt α) (f : Visit α) (acc : List (Option α))
    (henv : env.loc = [("out", .list acc)]) :
    specStep (env, st) f =
      match f st with
      | .error e => .error e
      | .ok (ov, st1) => .ok ({ env with spec := some f, loc := [("out", .list (acc ++ [ov]))] }, st1) := by
  unfold specStep
  have hg : gGet "out" [("out", GV.list acc)] = (.ok (.list acc) : Except PyErr (GV α)) := rfl
  simp only [execGS, evalGE, henv, bind, Except.bind, pure, Except.pure, hg]
  cases hf : f st with
  | error e => rfl
  | ok p =>
    obtain ⟨ov, st1⟩ := p
    cases ov with
    | none => rfl
    | some v => rfl

theorem forSpecs_loop (fs : List (Visit α)) : ∀ (env : GEnv α) (acc : List (Option α)) (st : GSt α),
    env.loc = [("out", .list acc)] →
    match specsLoop fs st with
    | .error e => fs.foldlM specStep (env, st) = .error e
    | .ok (l, st') =>
        ∃ env', fs.foldlM specStep (env, st) = .ok (env', st') ∧ env'.loc = [("out", .list (acc ++ l))] := by
  induction fs with
  | nil =>
    intro env acc st henv
    exact ⟨env, rfl, by rw [henv, List.append_nil]⟩
  | cons f fs ih =>
    intro env acc st henv
    rw [List.foldlM_cons, specStep_eq env st f acc henv]
    unfold specsLoop
    cases hf : f st with
    | error e => rfl
    | ok p =>
      obtain ⟨ov, st1⟩ := p
      have := ih { env with spec := some f, loc := [("out", .list (acc ++ [ov]))] } (acc ++ [ov]) st1 rfl
      simp only [bind, Except.bind]
      cases hl : specsLoop fs st1 with
      | error e => rw [hl] at this; exact this
      | ok q =>
        obtain ⟨l, st'⟩ := q
        rw [hl] at this
        obtain ⟨env', h1, h2⟩ := this
        exact ⟨env', h1, by rw [h2, List.append_assoc]; rfl⟩

theorem x_seq (a b : GS) (env : GEnv α) (st : GSt α) (specs : List (Visit α)) :
    execGS (.seq a b) env st specs = (execGS a env st specs >>= fun p => execGS b p.1 p.2 specs) := id rfl
theorem x_clear (env : GEnv α) (st : GSt α) (specs : List (Visit α)) :
    execGS (.clearDict "updated") env st specs = .ok (env, { st with updated := [] }) := id rfl
theorem x_out (env : GEnv α) (st : GSt α) (specs : List (Visit α)) :
    execGS (.setLoc "out" .emptyList) env st specs =
      .ok ({ env with loc := gSet "out" (.list []) env.loc }, st) := id rfl
theorem x_forSpecs (env : GEnv α) (st : GSt α) (specs : List (Visit α)) :
    execGS (.forSpecs (.appendLoc "out" .visitSpec)) env st specs = specs.foldlM specStep (env, st) := id rfl
theorem x_ok_bind {ε σ ρ : Type} (a : σ) (f : σ → Except ε ρ) : (Except.ok a >>= f) = f a := id rfl
theorem x_err_bind {ε σ ρ : Type} (e : ε) (f : σ → Except ε ρ) : (Except.error e >>= f) = .error e := id rfl

theorem updateSpecsG_eq (vars : String → α) (specs : List (F α)) (st : GSt α) :
    updateSpecsG vars specs st = specsLoop (specs.map (visitGlue vars)) { st with updated := [] } := by
  unfold updateSpecsG callG Gen.Glue.update_visitAst
  simp only [x_seq, x_clear, x_out, x_forSpecs, x_ok_bind]
  have := forSpecs_loop (specs.map (visitGlue vars))
    { node := F.const Val.zero, vars := vars, kids := [], loc := gSet "out" (GV.list []) [] } []
    { st with updated := [] } rfl
  cases hl : specsLoop (specs.map (visitGlue vars)) { st with updated := [] } with
  | error e => rw [hl] at this; rw [this]; rfl
  | ok q =>
    obtain ⟨l, st'⟩ := q
    rw [hl] at this
    obtain ⟨env', h1, h2⟩ := this
    rw [h1]
    simp only [x_ok_bind, evalGE, h2]
    rfl

/-- Outcome of one `update()` (all assertions, fresh memo). -/
def RoundAgree : Except PyErr (List (Option α) × GSt α) → Except PyErr (List α × Memo α × Store α) → Prop
  | .ok (ovs, st'), .ok (vs, memo', ops') => ovs = vs.map some ∧ StoreEq st'.ops ops' ∧ st'.updated = memo'
  | .error e, .error e' => e = e'
  | _, _ => False

def LoopAgree : Except PyErr (List (Option α) × GSt α) → Except PyErr (List α × (Store α × Memo α)) → Prop
  | .ok (ovs, st'), .ok (vs, (ops', memo')) => ovs = vs.map some ∧ StoreEq st'.ops ops' ∧ st'.updated = memo'
  | .error e, .error e' => e = e'
  | _, _ => False

theorem loop_agree (vars : String → α) (specs : List (F α)) : ∀ (st : GSt α) (ops : Store α),
    StoreEq st.ops ops → Closed st.updated →
    LoopAgree (specsLoop (specs.map (visitGlue vars)) st) (visitSpecs vars specs (ops, st.updated)) := by
  induction specs with
  | nil => intro st ops heq _; exact ⟨rfl, heq, rfl⟩
  | cons φ rest ih =>
    intro st ops heq hc
    have h := genGlue_visit vars φ st ops heq hc
    simp only [List.map_cons, specsLoop, visitSpecs, bind, Except.bind, pure, Except.pure]
    cases hg : visitGlue vars φ st with
    | error e =>
      rw [hg] at h
      cases hm : visitM vars φ (ops, st.updated) with
      | error e' => rw [hm] at h; exact h
      | ok q => rw [hm] at h; exact h.elim
    | ok p =>
      obtain ⟨ov, st1⟩ := p
      rw [hg] at h
      cases hm : visitM vars φ (ops, st.updated) with
      | error e' => rw [hm] at h; exact h.elim
      | ok q =>
        obtain ⟨v, o1, m1⟩ := q
        rw [hm] at h
        obtain ⟨rfl, h2, rfl, h4, -⟩ := h
        have h' := ih st1 o1 h2 h4
        simp only []
        cases hg2 : specsLoop (rest.map (visitGlue vars)) st1 with
        | error e =>
          rw [hg2] at h'
          cases hm2 : visitSpecs vars rest (o1, st1.updated) with
          | error e' => rw [hm2] at h'; exact h'
          | ok q => rw [hm2] at h'; exact h'.elim
        | ok p2 =>
          obtain ⟨l, st2⟩ := p2
          rw [hg2] at h'
          cases hm2 : visitSpecs vars rest (o1, st1.updated) with
          | error e' => rw [hm2] at h'; exact h'.elim
          | ok q2 =>
            obtain ⟨vs, o2, m2⟩ := q2
            rw [hm2] at h'
            obtain ⟨rfl, k2, k3⟩ := h'
            exact ⟨rfl, k2, k3⟩

/-- `visitAst` of the update visitor: the memo is cleared, the assertions are visited in order. -/
theorem genGlue_round (vars : String → α) (specs : List (F α)) (st : GSt α) (ops : Store α) (heq : StoreEq st.ops ops) :
    RoundAgree (updateSpecsG vars specs st) (updateSpecs vars specs ops) := by
  have h := loop_agree vars specs { st with updated := [] } ops heq (fun ψ hψ => absurd rfl hψ)
  rw [updateSpecsG_eq]
  unfold updateSpecs
  cases hg : specsLoop (specs.map (visitGlue vars)) { st with updated := [] } with
  | error e =>
    rw [hg] at h
    cases hm : visitSpecs vars specs (ops, []) with
    | error e' => rw [hm] at h; exact h
    | ok q => rw [hm] at h; exact h.elim
  | ok p =>
    obtain ⟨l, st'⟩ := p
    rw [hg] at h
    cases hm : visitSpecs vars specs (ops, []) with
    | error e' => rw [hm] at h; exact h.elim
    | ok q =>
      obtain ⟨vs, o2, m2⟩ := q
      rw [hm] at h
      exact h

/-! ### `results` -/

/-- The value a visit of `φ` returns while the memo is `m` (for an operator node: once it has been visited). -/
def Cur (vars : String → α) (m : Memo α) : F α → α → Prop
  | .var x, v => v = vars x
  | .const c, v => v = c
  | φ, v => m.lookup φ = some v

omit [Val α] in
theorem Cur.mono {vars : String → α} {m m' : Memo α} (h : ∀ χ w, m.lookup χ = some w → m'.lookup χ = some w)
    {χ : F α} {v : α} (hc : Cur vars m χ v) : Cur vars m' χ v := by
  cases χ with
  | var x => exact hc
  | const c => exact hc
  | _ => exact h _ _ hc

/-- Memo entries stay; a `results` binding that holds the current value of its node stays. -/
def Pres (vars : String → α) (st st' : GSt α) : Prop :=
  (∀ χ w, st.updated.lookup χ = some w → st'.updated.lookup χ = some w) ∧
  (∀ χ v, st.results.lookup χ = some v → Cur vars st.updated χ v → st'.results.lookup χ = some v)

omit [Val α] in
theorem Pres.refl (vars : String → α) (st : GSt α) : Pres vars st st := ⟨fun _ _ h => h, fun _ _ h _ => h⟩

omit [Val α] in
theorem Pres.trans {vars : String → α} {a b c : GSt α} (h : Pres vars a b) (h' : Pres vars b c) : Pres vars a c :=
  ⟨fun χ w hw => h'.1 χ w (h.1 χ w hw), fun χ v hv hc => h'.2 χ v (h.2 χ v hv hc) (Cur.mono h.1 hc)⟩

/-- The end of `visitUnary` / `visitBinary`: the node is read from the memo or stepped and memoised; `results` is bound. -/
def Finish (χ : F α) (st2 : GSt α) (ov : Option α) (st' : GSt α) : Prop :=
  (∃ w, st2.updated.lookup χ = some w ∧ ov = some w ∧ st'.updated = st2.updated ∧
    st'.results = memoSet st2.results χ w) ∨
  (∃ o, st2.updated.lookup χ = none ∧ ov = some o ∧ st'.updated = memoSet st2.updated χ o ∧
    st'.results = memoSet st2.results χ o)

theorem finish_of_tail {χ : F α} {st1 : GSt α} {ov : Option α} {st' : GSt α} {ovs : Option (List α)}
    (h : (match st1.updated.lookup χ with
      | some w => .ok (some w, { st1 with results := memoSet st1.results χ w })
      | none =>
        match st1.ops.lookup χ with
        | none => .error .key
        | some s =>
          match ovs with
          | none => .error .type
          | some vs =>
            match stepNode χ s vs with
            | .error e => .error e
            | .ok (s', o) =>
                .ok (some o, { ops := st1.ops.set χ s', updated := memoSet st1.updated χ o,
                               results := memoSet st1.results χ o })) = (.ok (ov, st') : Except PyErr (Option α × GSt α))) :
    Finish χ st1 ov st' := by
  cases hl : st1.updated.lookup χ with
  | some w =>
    rw [hl] at h
    simp only [Except.ok.injEq, Prod.mk.injEq] at h
    obtain ⟨rfl, rfl⟩ := h
    exact Or.inl ⟨w, hl, rfl, rfl, rfl⟩
  | none =>
    rw [hl] at h
    cases ho : st1.ops.lookup χ with
    | none => rw [ho] at h; exact absurd h (by simp)
    | some s =>
      rw [ho] at h
      cases ovs with
      | none => exact absurd h (by simp)
      | some vs =>
        simp only [] at h
        cases hs : stepNode χ s vs with
        | error e => rw [hs] at h; exact absurd h (by simp)
        | ok q =>
          obtain ⟨s', o⟩ := q
          rw [hs] at h
          simp only [Except.ok.injEq, Prod.mk.injEq] at h
          obtain ⟨rfl, rfl⟩ := h
          exact Or.inr ⟨o, hl, rfl, rfl, rfl⟩

theorem unaryG_inv {χ : F α} {k : Visit α} {st : GSt α} {ov : Option α} {st' : GSt α}
    (h : unaryG χ k st = .ok (ov, st')) : ∃ ov1 st1, k st = .ok (ov1, st1) ∧ Finish χ st1 ov st' := by
  unfold unaryG at h
  cases hk : k st with
  | error e => rw [hk] at h; exact absurd h (by simp)
  | ok p =>
    obtain ⟨ov1, st1⟩ := p
    rw [hk] at h
    refine ⟨ov1, st1, rfl, finish_of_tail (ovs := ov1.map (fun v => [v])) ?_⟩
    rw [← h]
    cases ov1 <;> rfl

def pair2 : Option α → Option α → Option (List α)
  | some a, some b => some [a, b]
  | _, _ => none

theorem binaryG_inv {χ : F α} {k1 k2 : Visit α} {st : GSt α} {ov : Option α} {st' : GSt α}
    (h : binaryG χ k1 k2 st = .ok (ov, st')) :
    ∃ ov1 st1 ov2 st2, k1 st = .ok (ov1, st1) ∧ k2 st1 = .ok (ov2, st2) ∧ Finish χ st2 ov st' := by
  unfold binaryG at h
  cases hk : k1 st with
  | error e => rw [hk] at h; exact absurd h (by simp)
  | ok p =>
    obtain ⟨ov1, st1⟩ := p
    rw [hk] at h
    simp only [] at h
    cases hk2 : k2 st1 with
    | error e => rw [hk2] at h; exact absurd h (by simp)
    | ok p2 =>
      obtain ⟨ov2, st2⟩ := p2
      rw [hk2] at h
      refine ⟨ov1, st1, ov2, st2, rfl, hk2, finish_of_tail
        (ovs := pair2 ov1 ov2) ?_⟩
      rw [← h]
      cases ov1 <;> cases ov2 <;> rfl

omit [Val α] in
theorem finish_props {vars : String → α} {χ : F α} (hcur : ∀ m v, Cur vars m χ v ↔ m.lookup χ = some v)
    {st2 : GSt α} {ov : Option α} {st' : GSt α} (h : Finish χ st2 ov st') :
    Pres vars st2 st' ∧ ∃ v, ov = some v ∧ st'.results.lookup χ = some v ∧ Cur vars st'.updated χ v := by
  rcases h with ⟨w, hl, rfl, hu, hr⟩ | ⟨o, hl, rfl, hu, hr⟩
  · refine ⟨⟨fun χ' w' hw' => by rw [hu]; exact hw', fun χ' v hv hc => ?_⟩, w, rfl, ?_, ?_⟩
    · rw [hr, memoSet]
      by_cases hk : χ' = χ
      · subst hk
        rw [C09.lookup_cons_eq, ← hl]
        exact (hcur _ _).1 hc
      · rw [C09.lookup_cons_ne _ _ _ _ hk]; exact hv
    · rw [hr, memoSet]; exact C09.lookup_cons_eq _ _ _
    · rw [hu]; exact (hcur _ _).2 hl
  · refine ⟨⟨fun χ' w' hw' => ?_, fun χ' v hv hc => ?_⟩, o, rfl, ?_, ?_⟩
    · rw [hu, memoSet]
      by_cases hk : χ' = χ
      · subst hk; rw [hl] at hw'; exact absurd hw' (by simp)
      · rw [C09.lookup_cons_ne _ _ _ _ hk]; exact hw'
    · rw [hr, memoSet]
      by_cases hk : χ' = χ
      · subst hk; rw [(hcur _ _).1 hc] at hl; exact absurd hl (by simp)
      · rw [C09.lookup_cons_ne _ _ _ _ hk]; exact hv
    · rw [hr, memoSet]; exact C09.lookup_cons_eq _ _ _
    · rw [hu, memoSet]; exact (hcur _ _).2 (C09.lookup_cons_eq _ _ _)

def ResOK (vars : String → α) (φ : F α) : Prop :=
  ∀ st ov st', visitGlue vars φ st = .ok (ov, st') →
    Pres vars st st' ∧ ∃ v, ov = some v ∧ st'.results.lookup φ = some v ∧ Cur vars st'.updated φ v

theorem res_node1 (vars : String → α) (χ φ : F α) (hcur : ∀ m v, Cur vars m χ v ↔ m.lookup χ = some v)
    (hG : ∀ st, visitGlue vars χ st = unaryG χ (visitGlue vars φ) st) (ih : ResOK vars φ) : ResOK vars χ := by
  intro st ov st' h
  rw [hG] at h
  obtain ⟨ov1, st1, h1, hf⟩ := unaryG_inv h
  obtain ⟨p1, -⟩ := ih st ov1 st1 h1
  obtain ⟨p2, hb⟩ := finish_props hcur hf
  exact ⟨p1.trans p2, hb⟩

theorem res_node2 (vars : String → α) (χ φ ψ : F α) (hcur : ∀ m v, Cur vars m χ v ↔ m.lookup χ = some v)
    (hG : ∀ st, visitGlue vars χ st = binaryG χ (visitGlue vars φ) (visitGlue vars ψ) st)
    (ih1 : ResOK vars φ) (ih2 : ResOK vars ψ) : ResOK vars χ := by
  intro st ov st' h
  rw [hG] at h
  obtain ⟨ov1, st1, ov2, st2, h1, h2, hf⟩ := binaryG_inv h
  obtain ⟨p1, -⟩ := ih1 st ov1 st1 h1
  obtain ⟨p2, -⟩ := ih2 st1 ov2 st2 h2
  obtain ⟨p3, hb⟩ := finish_props hcur hf
  exact ⟨(p1.trans p2).trans p3, hb⟩

theorem res_all (vars : String → α) (φ : F α) : ResOK vars φ := by
  induction φ with
  | var x =>
    intro st ov st' h
    rw [leaf_body_var] at h
    simp only [Except.ok.injEq, Prod.mk.injEq] at h
    obtain ⟨rfl, rfl⟩ := h
    refine ⟨⟨fun _ _ h => h, fun χ v hv hc => ?_⟩, _, rfl, C09.lookup_cons_eq _ _ _, rfl⟩
    show List.lookup χ (memoSet st.results (F.var x) (vars x)) = some v
    rw [memoSet]
    by_cases hk : χ = .var x
    · subst hk; rw [C09.lookup_cons_eq]; exact congrArg some (Eq.symm hc)
    · rw [C09.lookup_cons_ne _ _ _ _ hk]; exact hv
  | const c =>
    intro st ov st' h
    rw [leaf_body_const] at h
    simp only [Except.ok.injEq, Prod.mk.injEq] at h
    obtain ⟨rfl, rfl⟩ := h
    refine ⟨⟨fun _ _ h => h, fun χ v hv hc => ?_⟩, _, rfl, C09.lookup_cons_eq _ _ _, rfl⟩
    show List.lookup χ (memoSet st.results (F.const c) c) = some v
    rw [memoSet]
    by_cases hk : χ = .const c
    · subst hk; rw [C09.lookup_cons_eq]; exact congrArg some (Eq.symm hc)
    · rw [C09.lookup_cons_ne _ _ _ _ hk]; exact hv
  | un op φ ih =>
    exact res_node1 vars _ φ (fun _ _ => Iff.rfl) (fun st => by rw [visitGlue]; exact unary_body _ _ _ _) ih
  | tmp1 op φ ih =>
    exact res_node1 vars _ φ (fun _ _ => Iff.rfl) (fun st => by rw [visitGlue]; exact unary_body _ _ _ _) ih
  | tb1 op a b φ ih =>
    exact res_node1 vars _ φ (fun _ _ => Iff.rfl) (fun st => by rw [visitGlue]; exact unary_body _ _ _ _) ih
  | bin op φ ψ ih1 ih2 =>
    exact res_node2 vars _ φ ψ (fun _ _ => Iff.rfl) (fun st => by rw [visitGlue]; exact binary_body _ _ _ _ _) ih1 ih2
  | tmp2 op φ ψ ih1 ih2 =>
    exact res_node2 vars _ φ ψ (fun _ _ => Iff.rfl) (fun st => by rw [visitGlue]; exact binary_body _ _ _ _ _) ih1 ih2
  | tb2 op a b φ ψ ih1 ih2 =>
    exact res_node2 vars _ φ ψ (fun _ _ => Iff.rfl) (fun st => by rw [visitGlue]; exact binary_body _ _ _ _ _) ih1 ih2

theorem loop_results (vars : String → α) (specs : List (F α)) : ∀ (st : GSt α) (l : List (Option α)) (st' : GSt α),
    specsLoop (specs.map (visitGlue vars)) st = .ok (l, st') →
    Pres vars st st' ∧ ∀ i (hi : i < specs.length),
      ∃ v, l[i]? = some (some v) ∧ st'.results.lookup specs[i] = some v ∧ Cur vars st'.updated specs[i] v := by
  induction specs with
  | nil =>
    intro st l st' h
    simp only [List.map_nil, specsLoop, Except.ok.injEq, Prod.mk.injEq] at h
    obtain ⟨rfl, rfl⟩ := h
    exact ⟨Pres.refl _ _, fun i hi => absurd hi (by simp)⟩
  | cons φ rest ih =>
    intro st l st' h
    simp only [List.map_cons, specsLoop] at h
    cases hg : visitGlue vars φ st with
    | error e => rw [hg] at h; exact absurd h (by simp)
    | ok p =>
      obtain ⟨ov, st1⟩ := p
      rw [hg] at h
      simp only [] at h
      cases hl : specsLoop (rest.map (visitGlue vars)) st1 with
      | error e => rw [hl] at h; exact absurd h (by simp)
      | ok q =>
        obtain ⟨l2, st2⟩ := q
        rw [hl] at h
        simp only [Except.ok.injEq, Prod.mk.injEq] at h
        obtain ⟨rfl, rfl⟩ := h
        obtain ⟨p1, v, rfl, hr, hc⟩ := res_all vars φ st ov st1 hg
        obtain ⟨p2, hrest⟩ := ih st1 l2 st2 hl
        refine ⟨p1.trans p2, fun i hi => ?_⟩
        cases i with
        | zero => exact ⟨v, rfl, p2.2 φ v hr hc, Cur.mono p2.1 hc⟩
        | succ j => exact hrest j (by simpa using hi)

/-- What `get_value` reads: after a round, `results` holds for every assertion the value returned for it. -/
theorem genGlue_results (vars : String → α) (specs : List (F α)) (st st' : GSt α) (ovs : List (Option α))
    (h : updateSpecsG vars specs st = .ok (ovs, st')) :
    ∀ i (hi : i < specs.length), ∃ v, ovs[i]? = some (some v) ∧ st'.results.lookup specs[i] = some v := by
  rw [updateSpecsG_eq] at h
  intro i hi
  obtain ⟨v, h1, h2, -⟩ := (loop_results vars specs _ ovs st' h).2 i hi
  exact ⟨v, h1, h2⟩

/-- A sequence of updates through the translated visitor (the memo of the previous round is dropped by `visitAst`). -/
def runSpecsG (specs : List (F α)) : GSt α → List (String → α) → Except PyErr (List (List (Option α) × Memo α))
  | _, [] => .ok []
  | st, e :: es => do
      let (vs, st') ← updateSpecsG e specs st
      let rest ← runSpecsG specs st' es
      pure ((vs, st'.updated) :: rest)

/-- The whole run: values of all assertions and the memo of every round, as `runSpecs` of the mirror. -/
theorem genGlue_run (specs : List (F α)) (es : List (String → α)) (st : GSt α) (ops : Store α) (heq : StoreEq st.ops ops) :
    runSpecsG specs st es = (runSpecs specs ops es).map (fun l => l.map (fun r => (r.1.map some, r.2))) := by
  induction es generalizing st ops with
  | nil => rfl
  | cons e es ih =>
    have h := genGlue_round e specs st ops heq
    simp only [runSpecsG, runSpecs, bind, Except.bind, pure, Except.pure]
    cases hg : updateSpecsG e specs st with
    | error err =>
      rw [hg] at h
      cases hm : updateSpecs e specs ops with
      | error e' => rw [hm] at h; rw [h]; rfl
      | ok q => rw [hm] at h; exact h.elim
    | ok p =>
      obtain ⟨ovs, st'⟩ := p
      rw [hg] at h
      cases hm : updateSpecs e specs ops with
      | error e' => rw [hm] at h; exact h.elim
      | ok q =>
        obtain ⟨vs, m2, o2⟩ := q
        rw [hm] at h
        obtain ⟨rfl, k2, rfl⟩ := h
        simp only [ih st' o2 k2]
        cases runSpecs specs o2 es with
        | error err => rfl
        | ok rest => rfl

/-! ### the reset visitor -/

/-- What the translated `visitUnary` / `visitBinary` of the reset visitor compute. -/
def resetGForm (χ : F α) (kids : List (Visit α)) (st : GSt α) : Except PyErr (Option α × GSt α) :=
  match runKids kids st with
  | .error e => .error e
  | .ok st1 =>
    match st1.ops.lookup χ with
    | none => .error .key
    | some _ => .ok (none, { st1 with ops := st1.ops.set χ (initNode χ) })

theorem reset_body (χ : F α) (vars : String → α) (kids : List (Visit α)) (st : GSt α) :
    (do valOf (← callG Gen.Glue.reset_visitUnary χ vars kids [] st)) = resetGForm χ kids st := by
  unfold resetGForm callG Gen.Glue.reset_visitUnary
  simp only [execGS, evalGE, bind, Except.bind, pure, Except.pure]
  cases hk : runKids kids st with
  | error e => rfl
  | ok st1 =>
    simp only []
    cases ho : List.lookup χ st1.ops with
    | none => rfl
    | some s =>
      simp only [gGet_gSet_same, Store.get, ho]
      rfl

def ResetRel (st : GSt α) : Except PyErr (Option α × GSt α) → Except PyErr (Store α) → Prop
  | .ok (ov, st'), .ok ops' => ov = none ∧ StoreEq st'.ops ops' ∧ st'.updated = st.updated ∧ st'.results = st.results
  | .error e, .error e' => e = e'
  | _, _ => False

def RGood (φ : F α) : Prop := ∀ (st : GSt α) (ops : Store α), StoreEq st.ops ops → ResetRel st (resetGlue φ st) (resetM φ ops)

theorem resetRel_finish (χ : F α) (st st1 : GSt α) (o1 : Store α) (h2 : StoreEq st1.ops o1)
    (h3 : st1.updated = st.updated) (h4 : st1.results = st.results) :
    ResetRel st
      (match st1.ops.lookup χ with
        | none => .error .key
        | some _ => .ok (none, { st1 with ops := st1.ops.set χ (initNode χ) }))
      (resetAt χ o1) := by
  unfold resetAt
  simp only [Store.get, bind, Except.bind, pure, Except.pure, h2 χ]
  cases List.lookup χ o1 with
  | none => exact rfl
  | some s => exact ⟨rfl, h2.set _ _, h3, h4⟩

theorem rgood_node1 (χ φ : F α) (hG : ∀ st, resetGlue χ st = resetGForm χ [resetGlue φ] st)
    (hM : ∀ ops, resetM χ ops = (resetM φ ops >>= resetAt χ)) (ih : RGood φ) : RGood χ := by
  intro st ops heq
  rw [hG, hM]
  unfold resetGForm
  simp only [runKids, bind, Except.bind]
  have h := ih st ops heq
  cases hg : resetGlue φ st with
  | error e =>
    rw [hg] at h
    cases hm : resetM φ ops with
    | error e' => rw [hm] at h; exact h
    | ok q => rw [hm] at h; exact h.elim
  | ok p =>
    obtain ⟨ov, st1⟩ := p
    rw [hg] at h
    cases hm : resetM φ ops with
    | error e' => rw [hm] at h; exact h.elim
    | ok o1 =>
      rw [hm] at h
      obtain ⟨-, h2, h3, h4⟩ := h
      exact resetRel_finish χ st st1 o1 h2 h3 h4

theorem rgood_node2 (χ φ ψ : F α) (hG : ∀ st, resetGlue χ st = resetGForm χ [resetGlue φ, resetGlue ψ] st)
    (hM : ∀ ops, resetM χ ops = (resetM φ ops >>= fun o => resetM ψ o >>= resetAt χ))
    (ih1 : RGood φ) (ih2 : RGood ψ) : RGood χ := by
  intro st ops heq
  rw [hG, hM]
  unfold resetGForm
  simp only [runKids, bind, Except.bind]
  have h := ih1 st ops heq
  cases hg : resetGlue φ st with
  | error e =>
    rw [hg] at h
    cases hm : resetM φ ops with
    | error e' => rw [hm] at h; exact h
    | ok q => rw [hm] at h; exact h.elim
  | ok p =>
    obtain ⟨ov, st1⟩ := p
    rw [hg] at h
    cases hm : resetM φ ops with
    | error e' => rw [hm] at h; exact h.elim
    | ok o1 =>
      rw [hm] at h
      obtain ⟨-, h2, h3, h4⟩ := h
      have h' := ih2 st1 o1 h2
      simp only []
      cases hg2 : resetGlue ψ st1 with
      | error e =>
        rw [hg2] at h'
        cases hm2 : resetM ψ o1 with
        | error e' => rw [hm2] at h'; exact h'
        | ok q => rw [hm2] at h'; exact h'.elim
      | ok p2 =>
        obtain ⟨ov2, st2⟩ := p2
        rw [hg2] at h'
        cases hm2 : resetM ψ o1 with
        | error e' => rw [hm2] at h'; exact h'.elim
        | ok o2 =>
          rw [hm2] at h'
          obtain ⟨-, k2, k3, k4⟩ := h'
          exact resetRel_finish χ st st2 o2 k2 (k3.trans h3) (k4.trans h4)

theorem rgood_all (φ : F α) : RGood φ := by
  induction φ with
  | var x => intro st ops heq; exact ⟨rfl, heq, rfl, rfl⟩
  | const c => intro st ops heq; exact ⟨rfl, heq, rfl, rfl⟩
  | un op φ ih =>
    exact rgood_node1 _ φ (fun st => by rw [resetGlue]; exact reset_body _ _ _ _) (fun _ => rfl) ih
  | tmp1 op φ ih =>
    exact rgood_node1 _ φ (fun st => by rw [resetGlue]; exact reset_body _ _ _ _) (fun _ => rfl) ih
  | tb1 op a b φ ih =>
    exact rgood_node1 _ φ (fun st => by rw [resetGlue]; exact reset_body _ _ _ _) (fun _ => rfl) ih
  | bin op φ ψ ih1 ih2 =>
    exact rgood_node2 _ φ ψ (fun st => by rw [resetGlue]; exact reset_body _ _ _ _) (fun _ => rfl) ih1 ih2
  | tmp2 op φ ψ ih1 ih2 =>
    exact rgood_node2 _ φ ψ (fun st => by rw [resetGlue]; exact reset_body _ _ _ _) (fun _ => rfl) ih1 ih2
  | tb2 op a b φ ψ ih1 ih2 =>
    exact rgood_node2 _ φ ψ (fun st => by rw [resetGlue]; exact reset_body _ _ _ _) (fun _ => rfl) ih1 ih2

/-- Outcome of a reset. -/
def ResetAgree : Except PyErr (GSt α) → Except PyErr (Store α) → Prop
  | .ok st', .ok ops' => StoreEq st'.ops ops'
  | .error e, .error e' => e = e'
  | _, _ => False

/-- The translated reset visitor against `resetM`; the memo and the results are not touched. -/
theorem genGlue_reset (φ : F α) (st : GSt α) (ops : Store α) (heq : StoreEq st.ops ops) :
    (match resetGlue φ st, resetM φ ops with
     | .ok (ov, st'), .ok ops' => ov = none ∧ StoreEq st'.ops ops' ∧ st'.updated = st.updated ∧ st'.results = st.results
     | .error e, .error e' => e = e'
     | _, _ => False) := by
  have h := rgood_all φ st ops heq
  cases hg : resetGlue φ st with
  | error e =>
    rw [hg] at h
    cases hm : resetM φ ops with
    | error e' => rw [hm] at h; exact h
    | ok q => rw [hm] at h; exact h.elim
  | ok p =>
    obtain ⟨ov, st1⟩ := p
    rw [hg] at h
    cases hm : resetM φ ops with
    | error e' => rw [hm] at h; exact h.elim
    | ok o1 => rw [hm] at h; exact h

theorem resetSpecsG_eq (specs : List (F α)) (st : GSt α) :
    resetSpecsG specs st =
      match specsLoop (specs.map resetGlue) st with
      | .error e => .error e
      | .ok (_, st') => .ok st' := by
  unfold resetSpecsG callG Gen.Glue.base_visitAst
  simp only [x_seq, x_out, x_forSpecs, x_ok_bind]
  have := forSpecs_loop (specs.map resetGlue)
    { node := F.const Val.zero, vars := fun _ => Val.zero, kids := [], loc := gSet "out" (GV.list []) [] } [] st rfl
  cases hl : specsLoop (specs.map resetGlue) st with
  | error e => rw [hl] at this; rw [this]; rfl
  | ok q =>
    obtain ⟨l, st'⟩ := q
    rw [hl] at this
    obtain ⟨env', h1, h2⟩ := this
    rw [h1]
    simp only [x_ok_bind, evalGE, h2]
    rfl

theorem resetLoop_agree (specs : List (F α)) : ∀ (st : GSt α) (ops : Store α), StoreEq st.ops ops →
    ResetAgree (match specsLoop (specs.map resetGlue) st with
      | .error e => .error e
      | .ok (_, st') => .ok st') (resetSpecs specs ops) := by
  induction specs with
  | nil => intro st ops heq; exact heq
  | cons φ rest ih =>
    intro st ops heq
    have h := rgood_all φ st ops heq
    simp only [List.map_cons, specsLoop, resetSpecs, bind, Except.bind]
    cases hg : resetGlue φ st with
    | error e =>
      rw [hg] at h
      cases hm : resetM φ ops with
      | error e' => rw [hm] at h; exact h
      | ok q => rw [hm] at h; exact h.elim
    | ok p =>
      obtain ⟨ov, st1⟩ := p
      rw [hg] at h
      cases hm : resetM φ ops with
      | error e' => rw [hm] at h; exact h.elim
      | ok o1 =>
        rw [hm] at h
        obtain ⟨-, h2, -, -⟩ := h
        have h' := ih st1 o1 h2
        simp only []
        cases hl : specsLoop (rest.map resetGlue) st1 with
        | error e => rw [hl] at h'; exact h'
        | ok q => obtain ⟨l, st2⟩ := q; rw [hl] at h'; exact h'

theorem genGlue_resetSpecs (specs : List (F α)) (st : GSt α) (ops : Store α) (heq : StoreEq st.ops ops) :
    ResetAgree (resetSpecsG specs st) (resetSpecs specs ops) := by
  rw [resetSpecsG_eq]
  exact resetLoop_agree specs st ops heq

/-- The operator registered for `ψ` is in its initial state. -/
def InitAt (ops : Store α) (ψ : F α) : Prop := ops.lookup ψ = some (initNode ψ)

theorem resetAt_props {k : F α} {o o' : Store α} (h : resetAt k o = .ok o') :
    InitAt o' k ∧ ∀ ψ, InitAt o ψ → InitAt o' ψ := by
  unfold resetAt at h
  cases hg : o.get k with
  | error e => rw [hg] at h; exact absurd h (by simp [bind, Except.bind])
  | ok s =>
    rw [hg] at h
    simp only [bind, Except.bind, pure, Except.pure, Except.ok.injEq] at h
    subst h
    refine ⟨C09.lookup_set_eq _ _ _, fun ψ hψ => ?_⟩
    by_cases hk : ψ = k
    · subst hk; exact C09.lookup_set_eq _ _ _
    · unfold InitAt; rw [C09.lookup_set_ne _ _ _ _ hk]; exact hψ

def ResetInit (φ : F α) : Prop :=
  ∀ (o o' : Store α), resetM φ o = .ok o' → (∀ ψ, InitAt o ψ → InitAt o' ψ) ∧ ∀ ψ ∈ φ.opSubs, InitAt o' ψ

theorem resetInit_node1 (χ φ : F α) (hsubs : χ.opSubs = χ :: φ.opSubs)
    (hM : ∀ ops, resetM χ ops = (resetM φ ops >>= resetAt χ)) (ih : ResetInit φ) : ResetInit χ := by
  intro o o' h
  rw [hM] at h
  cases hm : resetM φ o with
  | error e => rw [hm] at h; exact absurd h (by simp [bind, Except.bind])
  | ok o1 =>
    rw [hm] at h
    obtain ⟨i1, i2⟩ := ih o o1 hm
    obtain ⟨r1, r2⟩ := resetAt_props (k := χ) (o := o1) h
    refine ⟨fun ψ hψ => r2 ψ (i1 ψ hψ), fun ψ hψ => ?_⟩
    rw [hsubs] at hψ
    rcases List.mem_cons.1 hψ with h' | h'
    · subst h'; exact r1
    · exact r2 ψ (i2 ψ h')

theorem resetInit_node2 (χ φ1 φ2 : F α) (hsubs : χ.opSubs = χ :: (φ1.opSubs ++ φ2.opSubs))
    (hM : ∀ ops, resetM χ ops = (resetM φ1 ops >>= fun o => resetM φ2 o >>= resetAt χ))
    (ih1 : ResetInit φ1) (ih2 : ResetInit φ2) : ResetInit χ := by
  intro o o' h
  rw [hM] at h
  cases hm : resetM φ1 o with
  | error e => rw [hm] at h; exact absurd h (by simp [bind, Except.bind])
  | ok o1 =>
    rw [hm] at h
    cases hm2 : resetM φ2 o1 with
    | error e => simp only [bind, Except.bind, hm2] at h; exact absurd h (by simp)
    | ok o2 =>
      simp only [bind, Except.bind, hm2] at h
      obtain ⟨i1, i2⟩ := ih1 o o1 hm
      obtain ⟨j1, j2⟩ := ih2 o1 o2 hm2
      obtain ⟨r1, r2⟩ := resetAt_props (k := χ) (o := o2) h
      refine ⟨fun ψ hψ => r2 ψ (j1 ψ (i1 ψ hψ)), fun ψ hψ => ?_⟩
      rw [hsubs] at hψ
      rcases List.mem_cons.1 hψ with h' | h'
      · subst h'; exact r1
      · rcases List.mem_append.1 h' with h'' | h''
        · exact r2 ψ (j1 ψ (i2 ψ h''))
        · exact r2 ψ (j2 ψ h'')

theorem resetInit_all (φ : F α) : ResetInit φ := by
  induction φ with
  | var x =>
    intro o o' h
    simp only [resetM, Except.ok.injEq] at h
    subst h
    exact ⟨fun _ h => h, fun ψ hψ => by simp [F.opSubs] at hψ⟩
  | const c =>
    intro o o' h
    simp only [resetM, Except.ok.injEq] at h
    subst h
    exact ⟨fun _ h => h, fun ψ hψ => by simp [F.opSubs] at hψ⟩
  | un op φ ih => exact resetInit_node1 _ φ rfl (fun _ => rfl) ih
  | tmp1 op φ ih => exact resetInit_node1 _ φ rfl (fun _ => rfl) ih
  | tb1 op a b φ ih => exact resetInit_node1 _ φ rfl (fun _ => rfl) ih
  | bin op φ ψ ih1 ih2 => exact resetInit_node2 _ φ ψ rfl (fun _ => rfl) ih1 ih2
  | tmp2 op φ ψ ih1 ih2 => exact resetInit_node2 _ φ ψ rfl (fun _ => rfl) ih1 ih2
  | tb2 op a b φ ψ ih1 ih2 => exact resetInit_node2 _ φ ψ rfl (fun _ => rfl) ih1 ih2

theorem resetSpecs_props (specs : List (F α)) : ∀ (o o' : Store α), resetSpecs specs o = .ok o' →
    (∀ ψ, InitAt o ψ → InitAt o' ψ) ∧ ∀ φ ∈ specs, ∀ ψ ∈ φ.opSubs, InitAt o' ψ := by
  induction specs with
  | nil =>
    intro o o' h
    simp only [resetSpecs, Except.ok.injEq] at h
    subst h
    exact ⟨fun _ h => h, fun φ hφ => by simp at hφ⟩
  | cons φ rest ih =>
    intro o o' h
    rw [resetSpecs] at h
    cases hm : resetM φ o with
    | error e => rw [hm] at h; exact absurd h (by simp [bind, Except.bind])
    | ok o1 =>
      rw [hm] at h
      obtain ⟨i1, i2⟩ := resetInit_all φ o o1 hm
      obtain ⟨j1, j2⟩ := ih o1 o' h
      refine ⟨fun ψ hψ => j1 ψ (i1 ψ hψ), fun φ' hφ' ψ hψ => ?_⟩
      rcases List.mem_cons.1 hφ' with h' | h'
      · subst h'; exact j1 ψ (i2 ψ hψ)
      · exact j2 φ' h' ψ hψ

/-- After `reset()` every operator of the assertions is in the state `set_ast` gave it. -/
theorem resetSpecs_init (specs : List (F α)) (ops ops' : Store α) (h : resetSpecs specs ops = .ok ops') :
    ∀ φ ∈ specs, ∀ ψ ∈ φ.opSubs, ops'.lookup ψ = some (initNode ψ) :=
  (resetSpecs_props specs ops ops' h).2

end Rtamt.Py
