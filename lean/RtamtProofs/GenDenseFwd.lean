/-
  The translated `once_timed_operation` / `historically_timed_operation` (`Gen.Dense.fn_once_timed_operation`,
  `Gen.Dense.fn_historically_timed_operation`) compute what the mirror `fwdTimed` (`onceTimed`, `histTimed`) computes:
  values and exceptions, for all inputs (no well-formedness assumption), with fuel `Fwd.G s.length = s.length + 1`.
  Auxiliary lemmas live in the namespace `Rtamt.Py.Dn.Fwd`.
-/
import RtamtProofs.GenDenseBase

namespace Rtamt.Py.Dn
open Rtamt Val Rtamt.Dense Rtamt.Dense.Alg

set_option linter.unusedSectionVars false
set_option linter.unusedVariables false

variable {α : Type} [Val α]

namespace Fwd

@[simp] theorem exceptMap_ok {ε σ ρ : Type} (a : σ) (f : σ → ρ) : Except.map f (Except.ok a : Except ε σ) = .ok (f a) := rfl
@[simp] theorem exceptMap_error {ε σ ρ : Type} (e : ε) (f : σ → ρ) : Except.map f (Except.error e : Except ε σ) = .error e := rfl

/-! ### `intersect.intersects` -/

theorem gen_intersects (fuel k : Nat) (x1 x2 y1 y2 : Tm) :
    callAt Gen.Dense.fns fuel (k + 1) "intersects" [.tm x1, .tm x2, .tm y1, .tm y2]
      = .ok (.bool (intersects x1 x2 y1 y2) : DV α) := by
  rw [callAt_fn _ _ _ _ Gen.Dense.fn_intersects _ rfl]
  cases h1 : Tm.le x1 y2 <;> cases h2 : Tm.le y1 x2 <;>
    simp [runFn, Gen.Dense.fn_intersects, exec, evalE, evalBin, isCmp, cmpDV, isTimeLike, toTm, cmpTm, truthy,
      intersects, h1, h2]

/-! ### locals through `List.lookup`, frames -/

@[simp] theorem lookup_setLoc (k k' : String) (v : DV α) (env : Env α) :
    (setLoc k' v env).lookup k = if k = k' then some v else env.lookup k := by
  by_cases h : k = k'
  · subst h; simp [lookup_setLoc_same]
  · simp [h, lookup_setLoc_ne _ _ _ _ h]

theorem getLoc_of_lookup {k : String} {env : Env α} {v : DV α} (h : env.lookup k = some v) : getLoc k env = .ok v := by
  unfold getLoc; rw [h]

theorem resolve_of_lookup {k : String} {env : Env α} (h : env.lookup k = none) : resolve env k = k := by
  unfold resolve; rw [h]

/-- `env'` agrees with `env` outside the names `xs`. -/
def Frame (xs : List String) (env env' : Env α) : Prop := ∀ x, x ∉ xs → env'.lookup x = env.lookup x

theorem Frame.refl (xs : List String) (env : Env α) : Frame xs env env := fun _ _ => rfl

theorem Frame.trans {xs : List String} {e1 e2 e3 : Env α} (h1 : Frame xs e1 e2) (h2 : Frame xs e2 e3) : Frame xs e1 e3 :=
  fun x hx => (h2 x hx).trans (h1 x hx)

theorem Frame.mono {xs ys : List String} {e1 e2 : Env α} (h : Frame xs e1 e2) (hs : ∀ x, x ∈ xs → x ∈ ys) : Frame ys e1 e2 :=
  fun x hx => h x (fun hm => hx (hs x hm))

theorem Frame.set {xs : List String} {e1 e2 : Env α} (h : Frame xs e1 e2) (k : String) (v : DV α) (hk : k ∈ xs) :
    Frame xs e1 (setLoc k v e2) := by
  intro x hx
  have : x ≠ k := fun e => hx (e ▸ hk)
  simp [this, h x hx]

/-! ### statements -/

theorem exec_seq_ok {call : Call α} {fuel : Nat} {a b : S} {env env' : Env α}
    (h : exec call fuel a env = .ok (env', none)) : exec call fuel (.seq a b) env = exec call fuel b env' := by
  simp [exec, h]

theorem exec_seq_err {call : Call α} {fuel : Nat} {a b : S} {env : Env α} {e : PyErr}
    (h : exec call fuel a env = .error e) : exec call fuel (.seq a b) env = .error e := by
  simp [exec, h]

theorem exec_setLoc {call : Call α} {fuel : Nat} {x : String} {e : E} {env : Env α} {v : DV α}
    (h : evalE call env e = .ok v) : exec call fuel (.setLoc x e) env = .ok (setLoc x v env, none) := by
  simp [exec, h]

theorem exec_appendLoc {call : Call α} {fuel : Nat} {x : String} {e : E} {env : Env α} {v : DV α} {l : List (DV α)}
    (h : evalE call env e = .ok v) (hx : env.lookup x = some (.list l)) :
    exec call fuel (.appendLoc x e) env = .ok (setLoc x (.list (l ++ [v])) env, none) := by
  simp [exec, h, getLoc_of_lookup hx]

theorem exec_ite {call : Call α} {fuel : Nat} {c : E} {t e : S} {env : Env α} {d : DV α} {b : Bool}
    (h : evalE call env c = .ok d) (hb : truthy d = .ok b) :
    exec call fuel (.ite c t e) env = if b then exec call fuel t env else exec call fuel e env := by
  simp [exec, h, hb]

/-! ### indexing -/

theorem pyIndex_nat (n k : Nat) (h : k < n) : pyIndex n (k : Int) = .ok k := by
  unfold pyIndex; simp [h]

theorem evalIdx_list_nat (l : List (DV α)) (k : Nat) (v : DV α) (h : l[k]? = some v) :
    evalIdx (.list l) (.int (k : Int)) = .ok v := by
  have hk : k < l.length := by
    rcases Nat.lt_or_ge k l.length with h' | h'
    · exact h'
    · rw [List.getElem?_eq_none h'] at h; cases h
  simp [evalIdx, pyIndex_nat _ _ hk, h]

theorem evalIdx_last (l : List (DV α)) (x : DV α) :
    evalIdx (.list (l ++ [x])) (.int (((l ++ [x]).length : Nat) - 1 : Int)) = .ok x := by
  have : (((l ++ [x]).length : Nat) - 1 : Int) = (l.length : Nat) := by simp
  rw [this]
  exact evalIdx_list_nat _ _ _ (by simp)

theorem evalIdx_last_nil : evalIdx (.list ([] : List (DV α))) (.int ((([] : List (DV α)).length : Nat) - 1 : Int)) = .error .index := by
  simp [evalIdx, pyIndex]

theorem delAt_last (l : List (DV α)) (x : DV α) :
    delAt (l ++ [x]) (((l ++ [x]).length : Nat) - 1 : Int) = .ok l := by
  have : (((l ++ [x]).length : Nat) - 1 : Int) = (l.length : Nat) := by simp
  rw [this]
  unfold delAt
  rw [pyIndex_nat _ _ (by simp)]
  have : (l ++ [x]).eraseIdx l.length = l := by
    induction l with
    | nil => rfl
    | cons y l ih => simp [ih]
  simp [this]

@[simp] theorem evalIdx_seg0 (lo hi : Tm) (v : α) : evalIdx (.seg lo hi v) (.int 0) = .ok (.tm lo) := by
  simp [evalIdx, pyIndex]
@[simp] theorem evalIdx_seg1 (lo hi : Tm) (v : α) : evalIdx (.seg lo hi v) (.int 1) = .ok (.tm hi) := by
  simp [evalIdx, pyIndex]
@[simp] theorem evalIdx_seg2 (lo hi : Tm) (v : α) : evalIdx (.seg lo hi v) (.int 2) = .ok (.val v) := by
  simp [evalIdx, pyIndex]
@[simp] theorem evalIdx_smp0 (t : Tm) (p : DV α) : evalIdx (.smp t p) (.int 0) = .ok (.tm t) := by
  simp [evalIdx, pyIndex]
@[simp] theorem evalIdx_smp1 (t : Tm) (p : DV α) : evalIdx (.smp t p) (.int 1) = .ok p := by
  simp [evalIdx, pyIndex]

/-! ### the code, cut into named pieces (`opW`: `<` / `>`, `opK`: `>=` / `<=`, `ninit`: `-inf` / `inf`) -/

def lenOutM1 : E := .bin .sub (.call1 "len" (.loc "out")) (.int 1)

def innerCond (opW : BinOp) : E :=
  .and_ (.bin opW (.idx (.loc "a") (.int 2)) (.idx (.loc "b") (.int 2))) (.bin .lt (.idx (.loc "b") (.int 0)) (.idx (.loc "a") (.int 0)))

def innerBody : S := .seq (.delIdx "out" lenOutM1) (.setLoc "a" (.idx (.loc "out") lenOutM1))

def splitStmt : S :=
  .seq (.delIdx "out" lenOutM1) (.seq (.ite (.bin .gt (.idx (.loc "b") (.int 0)) (.idx (.loc "a") (.int 0))) (.appendLoc "out" (.tup3 (.idx (.loc "a") (.int 0)) (.idx (.loc "b") (.int 0)) (.idx (.loc "a") (.int 2)))) .skip) (.appendLoc "out" (.tup3 (.idx (.loc "b") (.int 0)) (.idx (.loc "b") (.int 1)) (.idx (.loc "b") (.int 2)))))

def tailStmt (opK : BinOp) : S :=
  .ite (.not (.call4 "intersects" (.idx (.loc "a") (.int 0)) (.idx (.loc "a") (.int 1)) (.idx (.loc "b") (.int 0)) (.idx (.loc "b") (.int 1)))) (.appendLoc "out" (.loc "b")) (.ite (.bin opK (.idx (.loc "a") (.int 2)) (.idx (.loc "b") (.int 2))) (.appendLoc "out" (.tup3 (.idx (.loc "a") (.int 1)) (.idx (.loc "b") (.int 1)) (.idx (.loc "b") (.int 2)))) splitStmt)

def pushStmt (opW opK : BinOp) : S :=
  .ite (.not (.loc "out")) (.appendLoc "out" (.loc "b")) (.seq (.setLoc "a" (.idx (.loc "out") lenOutM1)) (.seq (.while_ (innerCond opW) innerBody) (tailStmt opK)))

def initStmt (ninit : E) : S :=
  .ite (.and_ (.bin .eq (.loc "i") (.int 1)) (.bin .gt (.loc "begin") (.int 0))) (.appendLoc "out" (.tup3 (.int 0) (.bin .add (.idx (.idx (.loc "input_list") (.int 0)) (.int 0)) (.loc "begin")) ninit)) .skip

def bStmt : S :=
  .ite (.bin .lt (.loc "i") (.call1 "len" (.loc "input_list"))) (.setLoc "b" (.tup3 (.bin .add (.idx (.idx (.loc "input_list") (.bin .sub (.loc "i") (.int 1))) (.int 0)) (.loc "begin")) (.bin .add (.idx (.idx (.loc "input_list") (.loc "i")) (.int 0)) (.loc "end")) (.idx (.idx (.loc "input_list") (.bin .sub (.loc "i") (.int 1))) (.int 1)))) (.setLoc "b" (.tup3 (.bin .add (.idx (.idx (.loc "input_list") (.bin .sub (.loc "i") (.int 1))) (.int 0)) (.loc "begin")) .inf (.idx (.idx (.loc "input_list") (.bin .sub (.loc "i") (.int 1))) (.int 1))))

def incStmt : S := .setLoc "i" (.bin .add (.loc "i") (.int 1))

def outerBody (opW opK : BinOp) (ninit : E) : S := .seq (initStmt ninit) (.seq bStmt (.seq (pushStmt opW opK) incStmt))

def outerCond : E := .bin .le (.loc "i") (.call1 "len" (.loc "input_list"))

def ansBody : S :=
  .seq (.ite (.or_ (.bin .ne (.idx (.loc "b") (.int 2)) (.loc "prev")) (.bin .eq (.loc "i") lenOutM1)) (.appendLoc "ans" (.list2 (.idx (.loc "b") (.int 0)) (.idx (.loc "b") (.int 2)))) .skip) (.setLoc "prev" (.idx (.loc "b") (.int 2)))

def endStmt : S := .seq (.setLoc "prev" .nan) (.seq (.forEnum "i" "b" (.loc "out") false ansBody) (.ret (.loc "ans")))

def domStmt : S := .ite (.loc "input_list") (.setLoc "domain_end" (.idx (.idx (.loc "input_list") (.bin .sub (.call1 "len" (.loc "input_list")) (.int 1))) (.int 0))) .skip

def fwdBody (opW opK : BinOp) (ninit : E) : S :=
  .seq (.setLoc "out" .emptyList) (.seq (.setLoc "input_list" (.loc "sample")) (.seq (.setLoc "ans" .emptyList) (.seq (.setLoc "prev" .emptyList) (.seq (.setLoc "residual_start" ninit) (.seq (.setLoc "max" ninit) (.seq (.setLoc "i" (.int 1)) (.seq (.setLoc "domain_end" .inf) (.seq domStmt (.seq (.while_ outerCond (outerBody opW opK ninit)) endStmt)))))))))

theorem once_body_eq : Gen.Dense.fn_once_timed_operation.body = fwdBody .lt .ge (.neg .inf) := rfl
theorem hist_body_eq : Gen.Dense.fn_historically_timed_operation.body = fwdBody .gt .le .inf := rfl

/-! ### parameters, encodings -/

/-- What the proof uses of the pieces in which `once_timed_operation` and `historically_timed_operation` differ. -/
structure Par (α : Type) [Val α] (opW opK : BinOp) (ninit : E) (worse : α → α → Bool) (neutral : α) : Prop where
  hW : ∀ x y : α, evalBin opW (.val x : DV α) (.val y) = .ok (.bool (worse x y))
  hK : ∀ x y : α, evalBin opK (.val x : DV α) (.val y) = .ok (.bool (!worse x y))
  hN : ∀ (call : Call α) (env : Env α), ∃ d, evalE call env ninit = .ok d ∧ toVal d = .ok neutral

theorem par_once : Par α .lt .ge (.neg .inf) ltW Val.ninf where
  hW := fun x y => by simp [evalBin, isCmp, cmpDV, isTimeLike, isValLike, toVal, cmpVal, ltW]
  hK := fun x y => by simp [evalBin, isCmp, cmpDV, isTimeLike, isValLike, toVal, cmpVal, ltW]
  hN := fun call env => ⟨.uinf true, by simp [evalE, evalNeg], rfl⟩

theorem par_hist : Par α .gt .le .inf gtW Val.pinf where
  hW := fun x y => by simp [evalBin, isCmp, cmpDV, isTimeLike, isValLike, toVal, cmpVal, gtW]
  hK := fun x y => by simp [evalBin, isCmp, cmpDV, isTimeLike, isValLike, toVal, cmpVal, gtW]
  hN := fun call env => ⟨.uinf false, by simp [evalE], rfl⟩

/-- what the code calls -/
structure CallOK (call : Call α) : Prop where
  len : ∀ l : List (DV α), call "len" [.list l] = .ok (.int l.length)
  ints : ∀ x1 x2 y1 y2 : Tm, call "intersects" [.tm x1, .tm x2, .tm y1, .tm y2] = .ok (.bool (intersects x1 x2 y1 y2))

def encSeg (g : Seg α) : DV α := .seg g.lo g.hi g.v

/-- the Python list `out`: the top of the stack is its last element -/
def pyStk (stk : List (Seg α)) : List (DV α) := stk.reverse.map encSeg

theorem pyStk_cons (x : Seg α) (stk : List (Seg α)) : pyStk (x :: stk) = pyStk stk ++ [encSeg x] := by
  simp [pyStk]

@[simp] theorem pyStk_nil : pyStk ([] : List (Seg α)) = [] := rfl

theorem eval_lenOutM1 {call : Call α} (hc : CallOK call) {env : Env α} {l : List (DV α)}
    (hout : env.lookup "out" = some (.list l)) (hlen : env.lookup "len" = none) :
    evalE call env lenOutM1 = .ok (.int ((l.length : Nat) - 1 : Int)) := by
  simp [lenOutM1, evalE, getLoc_of_lookup hout, resolve_of_lookup hlen, hc.len, evalBin, isCmp, arith]

/-! ### the inner loop: `while a[2] < b[2] and b[0] < a[0]: del out[len(out)-1]; a = out[len(out)-1]` -/

theorem cmpLtTm (x y : Tm) : evalBin .lt (.tm x : DV α) (.tm y) = .ok (.bool (Tm.lt x y)) := by
  simp [evalBin, isCmp, cmpDV, isTimeLike, toTm, cmpTm]

theorem cmpGtTm (x y : Tm) : evalBin .gt (.tm x : DV α) (.tm y) = .ok (.bool (Tm.lt y x)) := by
  simp [evalBin, isCmp, cmpDV, isTimeLike, toTm, cmpTm]

theorem innerCond_eval {opW opK : BinOp} {ninit : E} {worse : α → α → Bool} {neutral : α}
    (hp : Par α opW opK ninit worse neutral) (call : Call α) {env : Env α} {sa sb : Seg α}
    (ha : env.lookup "a" = some (encSeg sa)) (hb : env.lookup "b" = some (encSeg sb)) :
    (do truthy (← evalE call env (innerCond opW))) = .ok (worse sa.v sb.v && Tm.lt sb.lo sa.lo) := by
  cases hw : worse sa.v sb.v <;>
    simp [innerCond, evalE, getLoc_of_lookup ha, getLoc_of_lookup hb, encSeg, hp.hW, hw, truthy, cmpLtTm]

theorem innerBody_ok {call : Call α} (hc : CallOK call) (fuel : Nat) {env : Env α} {l : List (DV α)} {x y : DV α}
    (hout : env.lookup "out" = some (.list ((l ++ [y]) ++ [x]))) (hlen : env.lookup "len" = none) :
    exec call fuel innerBody env = .ok (setLoc "a" y (setLoc "out" (.list (l ++ [y])) env), none) := by
  have h1 : exec call fuel (.delIdx "out" lenOutM1) env = .ok (setLoc "out" (.list (l ++ [y])) env, none) := by
    simp only [exec, getLoc_of_lookup hout, eval_lenOutM1 hc hout hlen, ok_bind, delAt_last, pure_eq_ok]
  unfold innerBody
  rw [exec_seq_ok h1]
  apply exec_setLoc
  have hout' : (setLoc "out" (.list (l ++ [y])) env).lookup "out" = some (.list (l ++ [y])) := by simp
  have hlen' : (setLoc "out" (.list (l ++ [y])) env).lookup "len" = none := by simp [hlen]
  simp only [evalE, getLoc_of_lookup hout', eval_lenOutM1 hc hout' hlen', ok_bind, evalIdx_last]

theorem innerBody_err {call : Call α} (hc : CallOK call) (fuel : Nat) {env : Env α} {x : DV α}
    (hout : env.lookup "out" = some (.list ([] ++ [x]))) (hlen : env.lookup "len" = none) :
    exec call fuel innerBody env = .error .index := by
  have h1 : exec call fuel (.delIdx "out" lenOutM1) env = .ok (setLoc "out" (.list []) env, none) := by
    simp only [exec, getLoc_of_lookup hout, eval_lenOutM1 hc hout hlen, ok_bind, delAt_last, pure_eq_ok]
  unfold innerBody
  rw [exec_seq_ok h1]
  have hout' : (setLoc "out" (.list []) env).lookup "out" = some (.list ([] : List (DV α))) := by simp
  have hlen' : (setLoc "out" (.list []) env).lookup "len" = none := by simp [hlen]
  simp only [exec, evalE, getLoc_of_lookup hout', eval_lenOutM1 hc hout' hlen', ok_bind, evalIdx_last_nil, error_bind]

theorem innerLoop {opW opK : BinOp} {ninit : E} {worse : α → α → Bool} {neutral : α}
    (hp : Par α opW opK ninit worse neutral) {call : Call α} (hc : CallOK call) (fuel : Nat) (sb : Seg α) :
    ∀ (stk : List (Seg α)) (x : Seg α) (f : Nat) (env : Env α), stk.length + 2 ≤ f →
      env.lookup "out" = some (.list (pyStk (x :: stk))) → env.lookup "a" = some (encSeg x) →
      env.lookup "b" = some (encSeg sb) → env.lookup "len" = none →
      match popWhile worse sb (x :: stk) with
      | .ok stk' => ∃ env' top rest,
          whileLoop (fun env => do truthy (← evalE call env (innerCond opW))) (exec call fuel innerBody) f env
            = .ok (env', none) ∧
          stk' = top :: rest ∧ env'.lookup "out" = some (.list (pyStk stk')) ∧ env'.lookup "a" = some (encSeg top) ∧
          Frame ["out", "a"] env env'
      | .error e =>
          whileLoop (fun env => do truthy (← evalE call env (innerCond opW))) (exec call fuel innerBody) f env = .error e := by
  intro stk
  induction stk with
  | nil =>
      intro x f env hf hout ha hb hlen
      obtain ⟨f, rfl⟩ : ∃ f', f = f' + 1 := ⟨f - 1, by simp at hf; omega⟩
      cases hcond : (worse x.v sb.v && Tm.lt sb.lo x.lo) with
      | false =>
          have : popWhile worse sb [x] = .ok [x] := by simp [popWhile, hcond]
          rw [this]
          exact ⟨env, x, [], whileLoop_done _ _ _ _ (by rw [innerCond_eval hp call ha hb, hcond]), rfl, hout, ha,
            Frame.refl _ _⟩
      | true =>
          have : popWhile worse sb [x] = .error .index := by simp [popWhile, hcond]
          rw [this]
          exact whileLoop_raise _ _ _ _ _ (by rw [innerCond_eval hp call ha hb, hcond])
            (innerBody_err hc fuel (by simpa [pyStk] using hout) hlen)
  | cons y stk ih =>
      intro x f env hf hout ha hb hlen
      obtain ⟨f, rfl⟩ : ∃ f', f = f' + 1 := ⟨f - 1, by simp at hf; omega⟩
      cases hcond : (worse x.v sb.v && Tm.lt sb.lo x.lo) with
      | false =>
          have : popWhile worse sb (x :: y :: stk) = .ok (x :: y :: stk) := by simp [popWhile, hcond]
          rw [this]
          exact ⟨env, x, y :: stk, whileLoop_done _ _ _ _ (by rw [innerCond_eval hp call ha hb, hcond]), rfl, hout, ha,
            Frame.refl _ _⟩
      | true =>
          have : popWhile worse sb (x :: y :: stk) = popWhile worse sb (y :: stk) := by
            rw [popWhile]; simp [hcond]
          rw [this]
          have hout2 : env.lookup "out" = some (.list ((pyStk stk ++ [encSeg y]) ++ [encSeg x])) := by
            rw [hout, pyStk_cons, pyStk_cons]
          have hstep := whileLoop_step (fun env => do truthy (← evalE call env (innerCond opW))) (exec call fuel innerBody) f
            env _ (by rw [innerCond_eval hp call ha hb, hcond]) (innerBody_ok hc fuel hout2 hlen)
          rw [hstep]
          have := ih y f (setLoc "a" (encSeg y) (setLoc "out" (.list (pyStk stk ++ [encSeg y])) env))
            (by simp at hf ⊢; omega) (by simp [pyStk_cons]) (by simp) (by simp [hb]) (by simp [hlen])
          revert this
          cases popWhile worse sb (y :: stk) with
          | error e => exact fun h => h
          | ok stk' =>
              rintro ⟨env', top, rest, h1, h2, h3, h4, h5⟩
              refine ⟨env', top, rest, h1, h2, h3, h4, ?_⟩
              exact Frame.trans (Frame.set (Frame.set (Frame.refl _ _) "out" _ (by simp)) "a" _ (by simp)) h5

/-! ### after the inner loop -/

def pushTail (worse : α → α → Bool) (a : Seg α) (rest : List (Seg α)) (b : Seg α) : List (Seg α) :=
  if !intersects a.lo a.hi b.lo b.hi then b :: a :: rest
  else if !worse a.v b.v then ⟨a.hi, b.hi, b.v⟩ :: a :: rest
  else ⟨b.lo, b.hi, b.v⟩ :: (if Tm.lt a.lo b.lo then ⟨a.lo, b.lo, a.v⟩ :: rest else rest)

theorem pushSeg_cons (worse : α → α → Bool) (x : Seg α) (stk : List (Seg α)) (b : Seg α) :
    pushSeg worse (x :: stk) b =
      (match popWhile worse b (x :: stk) with
       | .ok (a :: rest) => .ok (pushTail worse a rest b)
       | .ok [] => .error .index
       | .error e => .error e) := by
  unfold pushSeg
  cases popWhile worse b (x :: stk) with
  | error e => rfl
  | ok stk' =>
      cases stk' with
      | nil => rfl
      | cons a rest =>
          simp only [ok_bind, pushTail]
          cases (!intersects a.lo a.hi b.lo b.hi) <;> cases (!worse a.v b.v) <;> simp

theorem mkSeg_tm (x y : Tm) (v : α) : mkSeg (.tm x) (.tm y) (.val v : DV α) = .ok (.seg x y v) := by
  simp [mkSeg, toTm, toVal]

theorem tailStmt_ok {opW opK : BinOp} {ninit : E} {worse : α → α → Bool} {neutral : α}
    (hp : Par α opW opK ninit worse neutral) {call : Call α} (hc : CallOK call) (fuel : Nat) {env : Env α}
    {top sb : Seg α} {rest : List (Seg α)}
    (hout : env.lookup "out" = some (.list (pyStk (top :: rest)))) (ha : env.lookup "a" = some (encSeg top))
    (hb : env.lookup "b" = some (encSeg sb)) (hlen : env.lookup "len" = none)
    (hint : env.lookup "intersects" = none) :
    ∃ env', exec call fuel (tailStmt opK) env = .ok (env', none) ∧
      env'.lookup "out" = some (.list (pyStk (pushTail worse top rest sb))) ∧ Frame ["out", "a"] env env' := by
  have ga := getLoc_of_lookup ha
  have gb := getLoc_of_lookup hb
  have hcond : evalE call env (.not (.call4 "intersects" (.idx (.loc "a") (.int 0)) (.idx (.loc "a") (.int 1))
      (.idx (.loc "b") (.int 0)) (.idx (.loc "b") (.int 1)))) = .ok (.bool (!intersects top.lo top.hi sb.lo sb.hi)) := by
    simp [evalE, ga, gb, encSeg, resolve_of_lookup hint, hc.ints, truthy]
  unfold tailStmt
  rw [exec_ite hcond rfl]
  cases hi : intersects top.lo top.hi sb.lo sb.hi with
  | false =>
      simp only [Bool.not_false, if_true]
      rw [exec_appendLoc (v := encSeg sb) (by simp [evalE, gb]) hout]
      refine ⟨_, rfl, ?_, Frame.set (Frame.refl _ _) _ _ (by simp)⟩
      simp [pushTail, hi, pyStk_cons]
  | true =>
      simp only [Bool.not_true, Bool.false_eq_true, if_false]
      have hcond2 : evalE call env (.bin opK (.idx (.loc "a") (.int 2)) (.idx (.loc "b") (.int 2)))
          = .ok (.bool (!worse top.v sb.v)) := by
        simp [evalE, ga, gb, encSeg, hp.hK]
      rw [exec_ite hcond2 rfl]
      cases hw : worse top.v sb.v with
      | false =>
          simp only [Bool.not_false, if_true]
          rw [exec_appendLoc (v := .seg top.hi sb.hi sb.v) (by simp [evalE, ga, gb, encSeg, mkSeg_tm]) hout]
          refine ⟨_, rfl, ?_, Frame.set (Frame.refl _ _) _ _ (by simp)⟩
          simp [pushTail, hi, hw, pyStk_cons, encSeg]
      | true =>
          simp only [Bool.not_true, Bool.false_eq_true, if_false]
          have h1 : exec call fuel (.delIdx "out" lenOutM1) env = .ok (setLoc "out" (.list (pyStk rest)) env, none) := by
            rw [pyStk_cons] at hout
            simp only [exec, getLoc_of_lookup hout, eval_lenOutM1 hc hout hlen, ok_bind, delAt_last, pure_eq_ok]
          unfold splitStmt
          rw [exec_seq_ok h1]
          have hcond3 : evalE call (setLoc "out" (.list (pyStk rest)) env)
              (.bin .gt (.idx (.loc "b") (.int 0)) (.idx (.loc "a") (.int 0))) = .ok (.bool (Tm.lt top.lo sb.lo)) := by
            simp [evalE, ga, gb, encSeg, cmpGtTm]
          cases hl : Tm.lt top.lo sb.lo with
          | false =>
              have h2 : exec call fuel (.ite (.bin .gt (.idx (.loc "b") (.int 0)) (.idx (.loc "a") (.int 0)))
                  (.appendLoc "out" (.tup3 (.idx (.loc "a") (.int 0)) (.idx (.loc "b") (.int 0)) (.idx (.loc "a") (.int 2))))
                  .skip) (setLoc "out" (.list (pyStk rest)) env) = .ok (setLoc "out" (.list (pyStk rest)) env, none) := by
                rw [exec_ite hcond3 rfl, hl]; simp [exec]
              rw [exec_seq_ok h2]
              rw [exec_appendLoc (v := .seg sb.lo sb.hi sb.v) (l := pyStk rest)
                (by simp [evalE, gb, encSeg, mkSeg_tm]) (by simp)]
              refine ⟨_, rfl, ?_, Frame.set (Frame.set (Frame.refl _ _) _ _ (by simp)) _ _ (by simp)⟩
              simp [pushTail, hi, hw, hl, pyStk_cons, encSeg]
          | true =>
              have h2 : exec call fuel (.ite (.bin .gt (.idx (.loc "b") (.int 0)) (.idx (.loc "a") (.int 0)))
                  (.appendLoc "out" (.tup3 (.idx (.loc "a") (.int 0)) (.idx (.loc "b") (.int 0)) (.idx (.loc "a") (.int 2))))
                  .skip) (setLoc "out" (.list (pyStk rest)) env)
                  = .ok (setLoc "out" (.list (pyStk rest ++ [.seg top.lo sb.lo top.v])) (setLoc "out" (.list (pyStk rest)) env), none) := by
                rw [exec_ite hcond3 rfl, hl]
                simp only [if_true]
                exact exec_appendLoc (by simp [evalE, ga, gb, encSeg, mkSeg_tm]) (by simp)
              rw [exec_seq_ok h2]
              rw [exec_appendLoc (v := .seg sb.lo sb.hi sb.v) (l := pyStk rest ++ [.seg top.lo sb.lo top.v])
                (by simp [evalE, gb, encSeg, mkSeg_tm]) (by simp)]
              refine ⟨_, rfl, ?_, Frame.set (Frame.set (Frame.set (Frame.refl _ _) _ _ (by simp)) _ _ (by simp)) _ _ (by simp)⟩
              simp [pushTail, hi, hw, hl, pyStk_cons, encSeg]

/-! ### pushing one segment -/

theorem exec_while (call : Call α) (fuel : Nat) (c : E) (body : S) (env : Env α) :
    exec call fuel (.while_ c body) env =
      whileLoop (fun env => do truthy (← evalE call env c)) (exec call fuel body) fuel env := rfl

theorem pushStmt_spec {opW opK : BinOp} {ninit : E} {worse : α → α → Bool} {neutral : α}
    (hp : Par α opW opK ninit worse neutral) {call : Call α} (hc : CallOK call) (fuel : Nat) {env : Env α}
    {stk : List (Seg α)} {sb : Seg α} (hf : stk.length + 1 ≤ fuel)
    (hout : env.lookup "out" = some (.list (pyStk stk))) (hb : env.lookup "b" = some (encSeg sb))
    (hlen : env.lookup "len" = none) (hint : env.lookup "intersects" = none) :
    match pushSeg worse stk sb with
    | .ok stk' => ∃ env', exec call fuel (pushStmt opW opK) env = .ok (env', none) ∧
        env'.lookup "out" = some (.list (pyStk stk')) ∧ Frame ["out", "a"] env env'
    | .error e => exec call fuel (pushStmt opW opK) env = .error e := by
  cases stk with
  | nil =>
      have hcond : evalE call env (.not (.loc "out")) = .ok (.bool true) := by
        simp [evalE, getLoc_of_lookup hout, truthy]
      have hps : pushSeg worse [] sb = .ok [sb] := rfl
      rw [hps]
      simp only
      unfold pushStmt
      rw [exec_ite hcond rfl]
      simp only [if_true]
      rw [exec_appendLoc (v := encSeg sb) (by simp [evalE, getLoc_of_lookup hb]) hout]
      exact ⟨_, rfl, by simp [pyStk_cons], Frame.set (Frame.refl _ _) _ _ (by simp)⟩
  | cons x rest =>
      have hout' := hout
      rw [pyStk_cons] at hout'
      have hcond : evalE call env (.not (.loc "out")) = .ok (.bool false) := by
        simp [evalE, getLoc_of_lookup hout', truthy]
      unfold pushStmt
      rw [exec_ite hcond rfl]
      simp only [Bool.false_eq_true, if_false]
      have h1 : exec call fuel (.setLoc "a" (.idx (.loc "out") lenOutM1)) env = .ok (setLoc "a" (encSeg x) env, none) := by
        apply exec_setLoc
        simp only [evalE, getLoc_of_lookup hout', eval_lenOutM1 hc hout' hlen, ok_bind, evalIdx_last]
      rw [exec_seq_ok h1, pushSeg_cons]
      have hl := innerLoop hp hc fuel sb rest x fuel (setLoc "a" (encSeg x) env) (by simp at hf ⊢; omega)
        (by simp [hout]) (by simp) (by simp [hb]) (by simp [hlen])
      revert hl
      cases popWhile worse sb (x :: rest) with
      | error e =>
          intro hl
          simp only
          exact exec_seq_err (by rw [exec_while]; exact hl)
      | ok stk' =>
          rintro ⟨env1, top, rest', h1, rfl, h3, h4, h5⟩
          simp only
          rw [exec_seq_ok (by rw [exec_while]; exact h1)]
          have hF : Frame ["out", "a"] env env1 := Frame.trans (Frame.set (Frame.refl _ _) _ _ (by simp)) h5
          obtain ⟨env2, e1, e2, e3⟩ := tailStmt_ok hp hc fuel h3 h4 (by rw [hF "b" (by simp)]; exact hb)
            (by rw [hF "len" (by simp)]; exact hlen) (by rw [hF "intersects" (by simp)]; exact hint)
          exact ⟨env2, e1, e2, Frame.trans hF e3⟩

/-! ### one iteration of the outer loop -/

/-- the argument `begin`: a time stamp or - `since_timed_operation` calls `historically_timed_operation(out2, 0, begin)` -
    the integer literal `0` -/
def BegOK (x : DV α) (a : Rat) : Prop := x = .tm (.fin a) ∨ (x = .int 0 ∧ a = 0)

theorem BegOK.tm (a : Rat) : BegOK (.tm (.fin a) : DV α) a := .inl rfl
theorem BegOK.int0 : BegOK (.int 0 : DV α) 0 := .inr ⟨rfl, rfl⟩

/-- the locals the loops do not touch -/
structure Inv (env : Env α) (s : ASig α) (a b : Rat) : Prop where
  hin : env.lookup "input_list" = some (encSig s)
  hbeg : ∃ xb, env.lookup "begin" = some xb ∧ BegOK xb a
  hend : env.lookup "end" = some (.tm (.fin b))
  hlen : env.lookup "len" = none
  hint : env.lookup "intersects" = none
  hans : env.lookup "ans" = some (.list [])

theorem Inv.frame {env env' : Env α} {s : ASig α} {a b : Rat} (h : Inv env s a b)
    (hF : Frame ["out", "a", "b", "i"] env env') : Inv env' s a b where
  hin := by rw [hF _ (by simp)]; exact h.hin
  hbeg := by
    obtain ⟨xb, h1, h2⟩ := h.hbeg
    exact ⟨xb, by rw [hF _ (by simp)]; exact h1, h2⟩
  hend := by rw [hF _ (by simp)]; exact h.hend
  hlen := by rw [hF _ (by simp)]; exact h.hlen
  hint := by rw [hF _ (by simp)]; exact h.hint
  hans := by rw [hF _ (by simp)]; exact h.hans

theorem Inv.frame_dom {env env' : Env α} {s : ASig α} {a b : Rat} (h : Inv env s a b)
    (hF : Frame ["domain_end"] env env') : Inv env' s a b where
  hin := by rw [hF _ (by simp)]; exact h.hin
  hbeg := by
    obtain ⟨xb, h1, h2⟩ := h.hbeg
    exact ⟨xb, by rw [hF _ (by simp)]; exact h1, h2⟩
  hend := by rw [hF _ (by simp)]; exact h.hend
  hlen := by rw [hF _ (by simp)]; exact h.hlen
  hint := by rw [hF _ (by simp)]; exact h.hint
  hans := by rw [hF _ (by simp)]; exact h.hans

/-- the segment `b` of iteration `i = j + 1`, where `p = input_list[j]` -/
def segAt (a b : Rat) (s : ASig α) (j : Nat) (p : Tm × α) : Seg α :=
  ⟨p.1.add a, (match s[j + 1]? with | some q => q.1.add b | none => .inf), p.2⟩

/-- the stack after `if i == 1 and begin > 0: out.append((0, input_list[0][0] + begin, neutral))` -/
def withInit (neutral : α) (a : Rat) (s : ASig α) (j : Nat) (stk : List (Seg α)) : List (Seg α) :=
  match j, s with
  | 0, (t0, _) :: _ => if decide (0 < a) then ⟨Tm.zero, t0.add a, neutral⟩ :: stk else stk
  | _, _ => stk

theorem evalIdx_list_nat' (l : List (DV α)) (k : Nat) :
    evalIdx (.list l) (.int (k : Int)) = (match l[k]? with | some v => .ok v | none => .error .index) := by
  rcases Nat.lt_or_ge k l.length with h | h
  · rw [evalIdx_list_nat l k l[k] (by simp [h])]; simp [h]
  · have h1 : l[k]? = none := List.getElem?_eq_none h
    have h2 : ¬ k < l.length := by omega
    simp [evalIdx, pyIndex, h2]

theorem evalIdx_list_succ (l : List (DV α)) (k : Nat) :
    evalIdx (.list l) (.int ((k : Int) + 1)) = (match l[k + 1]? with | some v => .ok v | none => .error .index) := by
  have : ((k : Int) + 1) = ((k + 1 : Nat) : Int) := by simp
  rw [this, evalIdx_list_nat']

theorem addTm (t : Tm) (a : Rat) : evalBin .add (.tm t : DV α) (.tm (.fin a)) = .ok (.tm (t.add a)) := by
  simp [evalBin, isCmp, arith, isTimeLike, toTm]

theorem initStmt_spec {opW opK : BinOp} {ninit : E} {worse : α → α → Bool} {neutral : α}
    (hp : Par α opW opK ninit worse neutral) (call : Call α) (fuel : Nat) {env : Env α} {s : ASig α} {a b : Rat}
    {j : Nat} {p : Tm × α} {stk : List (Seg α)} (hj : s[j]? = some p) (hI : Inv env s a b)
    (hi : env.lookup "i" = some (.int ((j : Int) + 1))) (hout : env.lookup "out" = some (.list (pyStk stk))) :
    ∃ env', exec call fuel (initStmt ninit) env = .ok (env', none) ∧
      env'.lookup "out" = some (.list (pyStk (withInit neutral a s j stk))) ∧ Frame ["out"] env env' := by
  have gi := getLoc_of_lookup hi
  obtain ⟨xb, hbeg, hxb⟩ := hI.hbeg
  have gbeg := getLoc_of_lookup hbeg
  have gin := getLoc_of_lookup hI.hin
  have hgt : evalBin .gt xb (.int 0 : DV α) = .ok (.bool (decide (0 < a))) := by
    rcases hxb with rfl | ⟨rfl, rfl⟩
    · simp [evalBin, isCmp, cmpDV, isTimeLike, toTm, cmpTm, Tm.lt]
    · simp [evalBin, isCmp, cmpDV, cmpInt]
  have hadd : ∀ t : Tm, evalBin .add (.tm t : DV α) xb = .ok (.tm (t.add a)) := by
    intro t
    rcases hxb with rfl | ⟨rfl, rfl⟩
    · exact addTm t a
    · simp [evalBin, isCmp, arith, isTimeLike, toTm]
  have heqi : ∀ n m : Int, evalBin .eq (.int n : DV α) (.int m) = .ok (.bool (decide (n = m))) := by
    intro n m; simp [evalBin, isCmp, cmpDV, cmpInt]
  cases j with
  | succ j =>
      have hne : ¬ ((j : Int) + 1 + 1 = 1) := by omega
      have hcond : evalE call env (.and_ (.bin .eq (.loc "i") (.int 1)) (.bin .gt (.loc "begin") (.int 0)))
          = .ok (.bool false) := by
        simp [evalE, gi, evalBin, isCmp, cmpDV, cmpInt, hne, truthy]
      unfold initStmt
      rw [exec_ite hcond rfl]
      exact ⟨env, by simp [exec], by simpa [withInit] using hout, Frame.refl _ _⟩
  | zero =>
      obtain ⟨⟨t0, v0⟩, rest, rfl⟩ : ∃ q rest, s = q :: rest := by
        cases s with
        | nil => simp at hj
        | cons q rest => exact ⟨q, rest, rfl⟩
      have hcond : evalE call env (.and_ (.bin .eq (.loc "i") (.int 1)) (.bin .gt (.loc "begin") (.int 0)))
          = .ok (.bool (decide (0 < a))) := by
        simp [evalE, gi, gbeg, heqi, hgt, truthy]
      unfold initStmt
      rw [exec_ite hcond rfl]
      by_cases ha : 0 < a
      · obtain ⟨d, hd1, hd2⟩ := hp.hN call env
        simp only [ha, decide_true, if_true]
        rw [exec_appendLoc (v := .seg Tm.zero (t0.add a) neutral)
          (by simp [evalE, gin, gbeg, encSig, encSmp, evalIdx, pyIndex, hadd, hd1, mkSeg, toTm, hd2, Tm.zero]) hout]
        exact ⟨_, rfl, by simp [withInit, ha, pyStk_cons, encSeg], Frame.set (Frame.refl _ _) _ _ (by simp)⟩
      · simp only [ha, decide_false, Bool.false_eq_true, if_false]
        exact ⟨env, by simp [exec], by simpa [withInit, ha] using hout, Frame.refl _ _⟩

theorem bStmt_ok {call : Call α} (hc : CallOK call) (fuel : Nat) {env : Env α} {s : ASig α} {a b : Rat}
    {j : Nat} {p : Tm × α} (hj : s[j]? = some p) (hI : Inv env s a b)
    (hi : env.lookup "i" = some (.int ((j : Int) + 1))) :
    exec call fuel bStmt env = .ok (setLoc "b" (encSeg (segAt a b s j p)) env, none) := by
  have gi := getLoc_of_lookup hi
  obtain ⟨xb, hbeg, hxb⟩ := hI.hbeg
  have gbeg := getLoc_of_lookup hbeg
  have gend := getLoc_of_lookup hI.hend
  have gin := getLoc_of_lookup hI.hin
  have rl := resolve_of_lookup hI.hlen
  rcases hxb with rfl | ⟨rfl, rfl⟩
  all_goals (
      have hjl : j < s.length := by
        rcases Nat.lt_or_ge j s.length with h' | h'
        · exact h'
        · rw [List.getElem?_eq_none h'] at hj; cases hj
      cases hq : s[j + 1]? with
      | none =>
          have hge : ¬ ((j : Int) + 1 < (s.length : Int)) := by
            have := List.getElem?_eq_none_iff.mp hq; omega
          have hcond : evalE call env (.bin .lt (.loc "i") (.call1 "len" (.loc "input_list"))) = .ok (.bool false) := by
            simp [evalE, gi, gin, rl, encSig, hc.len, evalBin, isCmp, cmpDV, cmpInt, hge]
          unfold bStmt
          rw [exec_ite hcond rfl]
          simp only [Bool.false_eq_true, if_false]
          apply exec_setLoc
          simp [evalE, gi, gin, gbeg, evalBin, isCmp, arith, encSig, evalIdx_list_nat', hj, hq, encSmp, mkSeg, toTm, toVal,
            isTimeLike, segAt, encSeg]
      | some q =>
          have hlt : ((j : Int) + 1 < (s.length : Int)) := by
            have : j + 1 < s.length := by
              rcases Nat.lt_or_ge (j + 1) s.length with h' | h'
              · exact h'
              · rw [List.getElem?_eq_none h'] at hq; cases hq
            omega
          have hcond : evalE call env (.bin .lt (.loc "i") (.call1 "len" (.loc "input_list"))) = .ok (.bool true) := by
            simp [evalE, gi, gin, rl, encSig, hc.len, evalBin, isCmp, cmpDV, cmpInt, hlt]
          unfold bStmt
          rw [exec_ite hcond rfl]
          simp only [if_true]
          apply exec_setLoc
          simp [evalE, gi, gin, gbeg, gend, evalBin, isCmp, arith, encSig, evalIdx_list_nat', evalIdx_list_succ, hj, hq, encSmp,
            mkSeg, toTm, toVal, isTimeLike, segAt, encSeg])

theorem outerBody_spec {opW opK : BinOp} {ninit : E} {worse : α → α → Bool} {neutral : α}
    (hp : Par α opW opK ninit worse neutral) {call : Call α} (hc : CallOK call) (fuel : Nat) {env : Env α}
    {s : ASig α} {a b : Rat} {j : Nat} {p : Tm × α} {stk : List (Seg α)} (hj : s[j]? = some p) (hI : Inv env s a b)
    (hi : env.lookup "i" = some (.int ((j : Int) + 1))) (hout : env.lookup "out" = some (.list (pyStk stk)))
    (hf : (withInit neutral a s j stk).length + 1 ≤ fuel) :
    match pushSeg worse (withInit neutral a s j stk) (segAt a b s j p) with
    | .ok stk' => ∃ env', exec call fuel (outerBody opW opK ninit) env = .ok (env', none) ∧ Inv env' s a b ∧
        env'.lookup "i" = some (.int (((j + 1 : Nat) : Int) + 1)) ∧ env'.lookup "out" = some (.list (pyStk stk'))
    | .error e => exec call fuel (outerBody opW opK ninit) env = .error e := by
  obtain ⟨env1, h1, hout1, hF1⟩ := initStmt_spec hp call fuel hj hI hi hout
  have hF1' : Frame ["out", "a", "b", "i"] env env1 := hF1.mono (by simp)
  have hI1 : Inv env1 s a b := hI.frame hF1'
  have hi1 : env1.lookup "i" = some (.int ((j : Int) + 1)) := by rw [hF1 _ (by simp)]; exact hi
  have h2 := bStmt_ok hc fuel hj hI1 hi1
  have hF2 : Frame ["out", "a", "b", "i"] env (setLoc "b" (encSeg (segAt a b s j p)) env1) :=
    Frame.set hF1' _ _ (by simp)
  have hI2 := hI.frame hF2
  have h3 := pushStmt_spec (opW := opW) hp hc fuel (env := setLoc "b" (encSeg (segAt a b s j p)) env1)
    (sb := segAt a b s j p) hf (by simp [hout1]) (by simp) hI2.hlen hI2.hint
  unfold outerBody
  rw [exec_seq_ok h1, exec_seq_ok h2]
  revert h3
  cases pushSeg worse (withInit neutral a s j stk) (segAt a b s j p) with
  | error e => exact fun h3 => exec_seq_err h3
  | ok stk' =>
      rintro ⟨env3, h3, hout3, hF3⟩
      simp only
      rw [exec_seq_ok h3]
      have hF3' : Frame ["out", "a", "b", "i"] env env3 := Frame.trans hF2 (hF3.mono (by simp))
      have hi3 : env3.lookup "i" = some (.int ((j : Int) + 1)) := by rw [hF3 _ (by simp)]; simp [hi1]
      have h4 : exec call fuel incStmt env3 = .ok (setLoc "i" (.int (((j + 1 : Nat) : Int) + 1)) env3, none) := by
        apply exec_setLoc
        simp [evalE, getLoc_of_lookup hi3, evalBin, isCmp, arith]
      refine ⟨_, h4, hI.frame (Frame.set hF3' _ _ (by simp)), by simp, by simp [hout3]⟩

theorem popWhile_length (worse : α → α → Bool) (b : Seg α) : ∀ (stk stk' : List (Seg α)),
    popWhile worse b stk = .ok stk' → stk'.length ≤ stk.length
  | [], stk', h => by simp [popWhile] at h
  | x :: stk, stk', h => by
      rw [popWhile] at h
      split at h
      · have := popWhile_length worse b stk stk' h; simp; omega
      · cases h; simp

theorem pushSeg_length (worse : α → α → Bool) (b : Seg α) (stk stk' : List (Seg α))
    (h : pushSeg worse stk b = .ok stk') : stk'.length ≤ stk.length + 1 := by
  cases stk with
  | nil => cases h; simp
  | cons x stk =>
      rw [pushSeg_cons] at h
      cases hpw : popWhile worse b (x :: stk) with
      | error e => rw [hpw] at h; cases h
      | ok s2 =>
          rw [hpw] at h
          have hl := popWhile_length worse b _ _ hpw
          cases s2 with
          | nil => cases h
          | cons top rest =>
              simp only at h
              cases h
              simp only [List.length_cons] at hl ⊢
              unfold pushTail
              split
              · simp; omega
              · split
                · simp; omega
                · split <;> (simp; omega)

/-! ### the outer loop -/

theorem fwdSegs_get (a b : Rat) : ∀ (s : ASig α) (j : Nat) (p : Tm × α), s[j]? = some p →
    (fwdSegs a b s)[j]? = some (segAt a b s j p)
  | [], j, p, h => by simp at h
  | [(t, v)], j, p, h => by
      cases j with
      | zero => simp at h; subst h; simp [fwdSegs, segAt]
      | succ j => simp at h
  | (t, v) :: (t', v') :: rest, 0, p, h => by simp at h; subst h; simp [fwdSegs, segAt]
  | (t, v) :: (t', v') :: rest, j + 1, p, h => by
      have h' : ((t', v') :: rest)[j]? = some p := by simpa using h
      have := fwdSegs_get a b ((t', v') :: rest) j p h'
      simpa [fwdSegs, segAt] using this

theorem drop_of_get {β : Type} (l : List β) (j : Nat) (x : β) (h : l[j]? = some x) :
    l.drop j = x :: l.drop (j + 1) := by
  obtain ⟨hj, rfl⟩ := List.getElem?_eq_some_iff.mp h
  exact List.drop_eq_getElem_cons hj

theorem fwdSegs_length (a b : Rat) : ∀ (s : ASig α), (fwdSegs a b s).length = s.length
  | [] => rfl
  | [(t, v)] => rfl
  | (t, v) :: (t', v') :: rest => by
      have := fwdSegs_length a b ((t', v') :: rest)
      simp [fwdSegs, this]

theorem withInit_none (neutral : α) (a : Rat) (s : ASig α) (j : Nat) (stk : List (Seg α)) (h : s[j]? = none) :
    withInit neutral a s j stk = stk := by
  cases j with
  | zero =>
      cases s with
      | nil => rfl
      | cons q rest => simp at h
  | succ j => rfl

theorem outerCond_eval {call : Call α} (hc : CallOK call) {env : Env α} {s : ASig α} {a b : Rat} {j : Nat}
    (hI : Inv env s a b) (hi : env.lookup "i" = some (.int ((j : Int) + 1))) :
    (do truthy (← evalE call env outerCond)) = .ok (decide (j + 1 ≤ s.length)) := by
  have e : ((j : Int) + 1 ≤ (s.length : Int)) ↔ (j + 1 ≤ s.length) := by omega
  simp [outerCond, evalE, getLoc_of_lookup hi, getLoc_of_lookup hI.hin, resolve_of_lookup hI.hlen, encSig, hc.len, evalBin,
    isCmp, cmpDV, cmpInt, truthy, e]

theorem outerLoop {opW opK : BinOp} {ninit : E} {worse : α → α → Bool} {neutral : α}
    (hp : Par α opW opK ninit worse neutral) {call : Call α} (hc : CallOK call) (fuel : Nat)
    {s : ASig α} {a b : Rat} (hfuel : s.length + 1 ≤ fuel) :
    ∀ (m j : Nat) (stk : List (Seg α)) (env : Env α) (f : Nat), j + m = s.length → m + 1 ≤ f →
      (withInit neutral a s j stk).length ≤ j + 1 → Inv env s a b →
      env.lookup "i" = some (.int ((j : Int) + 1)) → env.lookup "out" = some (.list (pyStk stk)) →
      match ((fwdSegs a b s).drop j).foldlM (pushSeg worse) (withInit neutral a s j stk) with
      | .ok stk' => ∃ env',
          whileLoop (fun env => do truthy (← evalE call env outerCond)) (exec call fuel (outerBody opW opK ninit)) f env
            = .ok (env', none) ∧ Inv env' s a b ∧ env'.lookup "out" = some (.list (pyStk stk'))
      | .error e =>
          whileLoop (fun env => do truthy (← evalE call env outerCond)) (exec call fuel (outerBody opW opK ninit)) f env
            = .error e := by
  intro m
  induction m with
  | zero =>
      intro j stk env f hjm hf hlen hI hi hout
      obtain ⟨f, rfl⟩ : ∃ f', f = f' + 1 := ⟨f - 1, by omega⟩
      have hnone : s[j]? = none := List.getElem?_eq_none (by omega)
      have hd : (fwdSegs a b s).drop j = [] := List.drop_eq_nil_of_le (by rw [fwdSegs_length]; omega)
      rw [hd, withInit_none _ _ _ _ _ hnone]
      have hcond := outerCond_eval hc hI hi
      have hdec : decide (j + 1 ≤ s.length) = false := by simp; omega
      rw [hdec] at hcond
      exact ⟨env, whileLoop_done _ _ _ _ hcond, hI, hout⟩
  | succ m ih =>
      intro j stk env f hjm hf hlen hI hi hout
      obtain ⟨f, rfl⟩ : ∃ f', f = f' + 1 := ⟨f - 1, by omega⟩
      have hjl : j < s.length := by omega
      have hj : s[j]? = some s[j] := by simp [hjl]
      have hcond := outerCond_eval hc hI hi
      have hdec : decide (j + 1 ≤ s.length) = true := by simp; omega
      rw [hdec] at hcond
      rw [drop_of_get _ _ _ (fwdSegs_get a b s j _ hj), List.foldlM_cons]
      have hb := outerBody_spec (opW := opW) (opK := opK) hp hc fuel hj hI hi hout (by omega)
      revert hb
      cases hps : pushSeg worse (withInit neutral a s j stk) (segAt a b s j s[j]) with
      | error e =>
          intro hb
          exact whileLoop_raise _ _ _ _ _ hcond hb
      | ok stk' =>
          rintro ⟨env1, hb, hI1, hi1, hout1⟩
          rw [whileLoop_step _ _ _ _ _ hcond hb]
          have hl := pushSeg_length worse _ _ _ hps
          exact ih (j + 1) stk' env1 f (by omega) (by omega) (by show stk'.length ≤ _; omega) hI1
            hi1 hout1

/-! ### the output loop -/

theorem evalE_or {call : Call α} {env : Env α} {a b : E} {x : DV α} {t : Bool}
    (h1 : evalE call env a = .ok x) (h2 : truthy x = .ok t) :
    evalE call env (.or_ a b) = if t then .ok x else evalE call env b := by
  rw [evalE, h1]
  simp [h2]

def encPrev : Option α → DV α
  | none => .nan
  | some x => .val x

def keepB (prev : Option α) (v : α) (last : Bool) : Bool :=
  (match prev with | none => true | some x => vne v x) || last

theorem ansBody_step {call : Call α} (hc : CallOK call) (fuel : Nat) {env : Env α} {g : Seg α} {k n : Nat}
    {L : List (DV α)} {prev : Option α} {acc : ASig α}
    (hb : env.lookup "b" = some (encSeg g)) (hi : env.lookup "i" = some (.int (k : Int)))
    (hout : env.lookup "out" = some (.list L)) (hL : L.length = n) (hlen : env.lookup "len" = none)
    (hprev : env.lookup "prev" = some (encPrev prev)) (hans : env.lookup "ans" = some (encSig acc)) :
    ∃ env', exec call fuel ansBody env = .ok (env', none) ∧ env'.lookup "out" = some (.list L) ∧
      env'.lookup "len" = none ∧ env'.lookup "prev" = some (.val g.v) ∧
      env'.lookup "ans" = some (encSig (if keepB prev g.v (decide (k + 1 = n)) then acc ++ [(g.lo, g.v)] else acc)) := by
  have gb := getLoc_of_lookup hb
  have gi := getLoc_of_lookup hi
  have gp := getLoc_of_lookup hprev
  have e : ((k : Int) = (L.length : Int) - 1) ↔ (k + 1 = n) := by omega
  have hlast : evalE call env (.bin .eq (.loc "i") lenOutM1) = .ok (.bool (decide (k + 1 = n))) := by
    simp [evalE, gi, eval_lenOutM1 hc hout hlen, evalBin, isCmp, cmpDV, cmpInt, e]
  have hcond : evalE call env (.or_ (.bin .ne (.idx (.loc "b") (.int 2)) (.loc "prev")) (.bin .eq (.loc "i") lenOutM1))
      = .ok (.bool (keepB prev g.v (decide (k + 1 = n)))) := by
    have hor : ∀ (x : DV α) (t : Bool), evalE call env (.bin .ne (.idx (.loc "b") (.int 2)) (.loc "prev")) = .ok x →
        truthy x = .ok t →
        evalE call env (.or_ (.bin .ne (.idx (.loc "b") (.int 2)) (.loc "prev")) (.bin .eq (.loc "i") lenOutM1))
          = if t then .ok x else evalE call env (.bin .eq (.loc "i") lenOutM1) := fun x t h1 h2 => evalE_or h1 h2
    cases prev with
    | none =>
        rw [hor (.bool true) true (by simp [evalE, gb, gp, encSeg, encPrev, evalBin, isCmp, cmpDV]) rfl]
        simp [keepB]
    | some x =>
        rw [hor (.bool (vne g.v x)) (vne g.v x)
          (by simp [evalE, gb, gp, encSeg, encPrev, evalBin, isCmp, cmpDV, isTimeLike, isValLike, toVal, cmpVal]) rfl, hlast]
        cases hv : vne g.v x <;> simp [keepB, hv]
  have hset : ∀ env1 : Env α, env1.lookup "b" = some (encSeg g) →
      exec call fuel (.setLoc "prev" (.idx (.loc "b") (.int 2))) env1 = .ok (setLoc "prev" (.val g.v) env1, none) := by
    intro env1 h1
    apply exec_setLoc
    simp [evalE, getLoc_of_lookup h1, encSeg]
  unfold ansBody
  cases hk : keepB prev g.v (decide (k + 1 = n)) with
  | false =>
      have h1 : exec call fuel (.ite (.or_ (.bin .ne (.idx (.loc "b") (.int 2)) (.loc "prev")) (.bin .eq (.loc "i") lenOutM1))
          (.appendLoc "ans" (.list2 (.idx (.loc "b") (.int 0)) (.idx (.loc "b") (.int 2)))) .skip) env = .ok (env, none) := by
        rw [exec_ite hcond rfl, hk]; simp [exec]
      rw [exec_seq_ok h1, hset env hb]
      exact ⟨_, rfl, by simp [hout], by simp [hlen], by simp, by simp [hans]⟩
  | true =>
      have h1 : exec call fuel (.ite (.or_ (.bin .ne (.idx (.loc "b") (.int 2)) (.loc "prev")) (.bin .eq (.loc "i") lenOutM1))
          (.appendLoc "ans" (.list2 (.idx (.loc "b") (.int 0)) (.idx (.loc "b") (.int 2)))) .skip) env
          = .ok (setLoc "ans" (.list (acc.map encSmp ++ [.smp g.lo (.val g.v)])) env, none) := by
        rw [exec_ite hcond rfl, hk]
        simp only [if_true]
        exact exec_appendLoc (by simp [evalE, gb, encSeg, mkList2, toPayload]) hans
      rw [exec_seq_ok h1, hset _ (by simp [hb])]
      exact ⟨_, rfl, by simp [hout], by simp [hlen], by simp, by simp [encSig, encSmp]⟩

theorem ansLoop {call : Call α} (hc : CallOK call) (fuel : Nat) (n : Nat) (L : List (DV α)) (hL : L.length = n) :
    ∀ (segs : List (Seg α)) (k : Nat) (prev : Option α) (env : Env α) (acc : ASig α), k + segs.length = n →
      env.lookup "out" = some (.list L) → env.lookup "len" = none → env.lookup "prev" = some (encPrev prev) →
      env.lookup "ans" = some (encSig acc) →
      ∃ env', forLoop (fun p env => setLoc "b" p.1 (setLoc "i" (.int p.2) env)) (exec call fuel ansBody)
          ((segs.map encSeg).zipIdx k) env = .ok (env', none) ∧
        env'.lookup "ans" = some (encSig (acc ++ dedupGo prev (segs.map (fun g => (g.lo, g.v))))) := by
  intro segs
  induction segs with
  | nil =>
      intro k prev env acc hk hout hlen hprev hans
      exact ⟨env, rfl, by simpa [dedupGo] using hans⟩
  | cons g rest ih =>
      intro k prev env acc hk hout hlen hprev hans
      rw [List.map_cons, List.zipIdx_cons, forLoop_cons]
      obtain ⟨env1, h1, hout1, hlen1, hprev1, hans1⟩ :=
        ansBody_step hc fuel (env := setLoc "b" (encSeg g) (setLoc "i" (.int (k : Int)) env)) (g := g) (k := k) (n := n)
          (prev := prev) (acc := acc) (by simp) (by simp) (by simp [hout]) hL (by simp [hlen]) (by simp [hprev])
          (by simp [hans])
      simp only [h1, ok_bind]
      obtain ⟨env2, h2, hans2⟩ := ih (k + 1) (some g.v) env1 _ (by simp at hk; omega) hout1 hlen1 hprev1 hans1
      refine ⟨env2, h2, ?_⟩
      rw [hans2]
      congr 2
      cases rest with
      | nil =>
          have : k + 1 = n := by simpa using hk
          simp [keepB, this, dedupGo]
      | cons h t =>
          have : ¬ (k + 1 = n) := by simp at hk; omega
          cases prev with
          | none => simp [keepB, this, dedupGo]
          | some x => cases hv : vne g.v x <;> simp [keepB, this, dedupGo, hv]

/-! ### the whole function -/

theorem evalE_idx {call : Call α} {env : Env α} {e i : E} {x k : DV α}
    (h1 : evalE call env e = .ok x) (h2 : evalE call env i = .ok k) :
    evalE call env (.idx e i) = evalIdx x k := by
  rw [evalE, h1, h2]; rfl

theorem domStmt_spec {call : Call α} (hc : CallOK call) (fuel : Nat) {env : Env α} {s : ASig α}
    (hin : env.lookup "input_list" = some (encSig s)) (hlen : env.lookup "len" = none) :
    ∃ env', exec call fuel domStmt env = .ok (env', none) ∧ Frame ["domain_end"] env env' := by
  have rl := resolve_of_lookup hlen
  rcases List.eq_nil_or_concat s with rfl | ⟨l, q, hs⟩
  · have gin := getLoc_of_lookup hin
    have hcond : evalE call env (.loc "input_list") = .ok (.list []) := by simp [evalE, gin, encSig]
    unfold domStmt
    rw [exec_ite hcond rfl]
    exact ⟨env, by simp [exec], Frame.refl _ _⟩
  · rw [List.concat_eq_append] at hs
    subst hs
    have gin := getLoc_of_lookup hin
    have henc : encSig (l ++ [q]) = .list (l.map encSmp ++ [encSmp q]) := by simp [encSig]
    rw [henc] at gin
    have hcond : evalE call env (.loc "input_list") = .ok (.list (l.map encSmp ++ [encSmp q])) := by simp [evalE, gin]
    unfold domStmt
    rw [exec_ite hcond (b := true) (by simp [truthy])]
    simp only [if_true]
    have hv : evalE call env (.idx (.idx (.loc "input_list") (.bin .sub (.call1 "len" (.loc "input_list")) (.int 1))) (.int 0))
        = .ok (.tm q.1) := by
      have h1 : evalE call env (.bin .sub (.call1 "len" (.loc "input_list")) (.int 1))
          = .ok (.int (((l.map encSmp ++ [encSmp q]).length : Nat) - 1 : Int)) := by
        simp [evalE, gin, rl, hc.len, evalBin, isCmp, arith]
      have h2 := (evalE_idx hcond h1).trans (evalIdx_last _ _)
      exact (evalE_idx h2 (show evalE call env (.int 0) = .ok (.int 0) from rfl)).trans (by simp [encSmp])
    rw [exec_setLoc hv]
    exact ⟨_, rfl, Frame.set (Frame.refl _ _) _ _ (by simp)⟩

theorem fwdTimed_eq (worse : α → α → Bool) (neutral : α) (s : ASig α) (a b : Rat) :
    fwdTimed worse neutral s a b =
      (do let stk ← (fwdSegs a b s).foldlM (pushSeg worse) (withInit neutral a s 0 [])
          pure (dedup (stk.reverse.map (fun g => (g.lo, g.v))))) := by
  unfold fwdTimed
  cases s with
  | nil => rfl
  | cons q rest => rfl

theorem fwd_exec {opW opK : BinOp} {ninit : E} {worse : α → α → Bool} {neutral : α}
    (hp : Par α opW opK ninit worse neutral) {call : Call α} (hc : CallOK call) (fuel : Nat)
    (s : ASig α) (a b : Rat) (xb : DV α) (hxb : BegOK xb a) (hfuel : s.length + 1 ≤ fuel) :
    match fwdTimed worse neutral s a b with
    | .ok o => ∃ env', exec call fuel (fwdBody opW opK ninit)
        [("sample", encSig s), ("begin", xb), ("end", .tm (.fin b))] = .ok (env', some (encSig o))
    | .error e => exec call fuel (fwdBody opW opK ninit)
        [("sample", encSig s), ("begin", xb), ("end", .tm (.fin b))] = .error e := by
  obtain ⟨d, hd, -⟩ := hp.hN call
    (setLoc "prev" (.list []) (setLoc "ans" (.list []) (setLoc "input_list" (encSig s) (setLoc "out" (.list [])
      [("sample", encSig s), ("begin", xb), ("end", .tm (.fin b))]))))
  obtain ⟨d', hd', -⟩ := hp.hN call
    (setLoc "residual_start" d (setLoc "prev" (.list []) (setLoc "ans" (.list []) (setLoc "input_list" (encSig s)
      (setLoc "out" (.list []) [("sample", encSig s), ("begin", xb), ("end", .tm (.fin b))])))))
  unfold fwdBody
  rw [exec_seq_ok (exec_setLoc (v := .list []) (by simp [evalE])),
    exec_seq_ok (exec_setLoc (v := encSig s) (by simp [evalE, getLoc, List.lookup])),
    exec_seq_ok (exec_setLoc (v := .list []) (by simp [evalE])),
    exec_seq_ok (exec_setLoc (v := .list []) (by simp [evalE])),
    exec_seq_ok (exec_setLoc hd), exec_seq_ok (exec_setLoc hd'),
    exec_seq_ok (exec_setLoc (v := .int 1) (by simp [evalE])),
    exec_seq_ok (exec_setLoc (v := .uinf false) (by simp [evalE]))]
  generalize henv : (setLoc "domain_end" (DV.uinf false : DV α) (setLoc "i" (.int 1) (setLoc "max" d'
    (setLoc "residual_start" d (setLoc "prev" (.list []) (setLoc "ans" (.list []) (setLoc "input_list" (encSig s)
      (setLoc "out" (.list []) [("sample", encSig s), ("begin", xb), ("end", .tm (.fin b))])))))))) = env
  have hI : Inv env s a b := by
    subst henv
    constructor <;> simp [List.lookup, hxb]
  have hi : env.lookup "i" = some (.int (((0 : Nat) : Int) + 1)) := by subst henv; simp
  have hout : env.lookup "out" = some (.list (pyStk ([] : List (Seg α)))) := by subst henv; simp
  clear henv
  obtain ⟨env1, h1, hF1⟩ := domStmt_spec hc fuel hI.hin hI.hlen
  rw [exec_seq_ok h1]
  have hI1 : Inv env1 s a b := hI.frame_dom hF1
  have hi1 : env1.lookup "i" = some (.int (((0 : Nat) : Int) + 1)) := by rw [hF1 _ (by simp)]; exact hi
  have hout1 : env1.lookup "out" = some (.list (pyStk ([] : List (Seg α)))) := by rw [hF1 _ (by simp)]; exact hout
  have hw : (withInit neutral a s 0 ([] : List (Seg α))).length ≤ 0 + 1 := by
    cases s with
    | nil => simp [withInit]
    | cons q rest => simp only [withInit]; split <;> simp
  have hloop := outerLoop (opW := opW) (opK := opK) hp hc fuel hfuel s.length 0 [] env1 fuel (by simp) hfuel hw hI1 hi1 hout1
  rw [fwdTimed_eq]
  rw [List.drop_zero] at hloop
  revert hloop
  cases (fwdSegs a b s).foldlM (pushSeg worse) (withInit neutral a s 0 []) with
  | error e =>
      intro hloop
      simp only [error_bind]
      exact exec_seq_err (by rw [exec_while]; exact hloop)
  | ok stk =>
      rintro ⟨env2, h2, hI2, hout2⟩
      simp only [ok_bind, pure_eq_ok]
      rw [exec_seq_ok (by rw [exec_while]; exact h2)]
      unfold endStmt
      rw [exec_seq_ok (exec_setLoc (v := .nan) (by simp [evalE]))]
      obtain ⟨env3, h3, hans3⟩ := ansLoop hc fuel (pyStk stk).length (pyStk stk) rfl stk.reverse 0 none
        (setLoc "prev" .nan env2) [] (by simp [pyStk]) (by simp [hout2]) (by simp [hI2.hlen]) (by simp [encPrev])
        (by simp [hI2.hans, encSig])
      have hfor : exec call fuel (.forEnum "i" "b" (.loc "out") false ansBody) (setLoc "prev" .nan env2) = .ok (env3, none) := by
        have hout' : getLoc "out" (setLoc "prev" .nan env2) = .ok (.list (pyStk stk)) := by
          apply getLoc_of_lookup; simp [hout2]
        simp only [exec, evalE, hout', ok_bind]
        exact h3
      rw [exec_seq_ok hfor]
      refine ⟨env3, ?_⟩
      simp [exec, evalE, getLoc_of_lookup hans3, dedup]

theorem callOK_callAt (fuel k : Nat) : CallOK (callAt Gen.Dense.fns fuel (k + 1) : Call α) where
  len := fun l => by rw [callAt_builtin _ _ _ "len" _ rfl]; rfl
  ints := gen_intersects fuel k

/-- the bound on the fuel: the outer loop runs `n` times, the inner loop at most the height of the stack (at most `n`) -/
def G (n : Nat) : Nat := n + 1

theorem runFn_fwd {opW opK : BinOp} {ninit : E} {worse : α → α → Bool} {neutral : α}
    (hp : Par α opW opK ninit worse neutral) (fuel k : Nat) (f : Fn) (hparams : f.params = ["sample", "begin", "end"])
    (hbody : f.body = fwdBody opW opK ninit) (s : ASig α) (a b : Rat) (xb : DV α) (hxb : BegOK xb a)
    (hfuel : G s.length ≤ fuel) :
    runFn (callAt Gen.Dense.fns fuel (k + 1)) fuel f [encSig s, xb, .tm (.fin b)]
      = (fwdTimed worse neutral s a b).map encSig := by
  have h := fwd_exec (opW := opW) (opK := opK) hp (callOK_callAt (α := α) fuel k) fuel s a b xb hxb hfuel
  unfold runFn
  rw [hparams, hbody]
  revert h
  cases fwdTimed worse neutral s a b with
  | error e => intro h; simp [List.zip, h]
  | ok o => rintro ⟨env', h⟩; simp [List.zip, h]

end Fwd

open Fwd

theorem gen_once_timed (fuel k : Nat) (s : ASig α) (a b : Rat) (hfuel : Fwd.G s.length ≤ fuel) :
    callAt Gen.Dense.fns fuel (k + 2) "once_timed_operation" [encSig s, .tm (.fin a), .tm (.fin b)]
      = (onceTimed s a b).map encSig := by
  rw [callAt_fn _ _ _ _ Gen.Dense.fn_once_timed_operation _ rfl]
  exact runFn_fwd par_once fuel k _ rfl once_body_eq s a b _ (BegOK.tm a) hfuel

theorem gen_hist_timed (fuel k : Nat) (s : ASig α) (a b : Rat) (hfuel : Fwd.G s.length ≤ fuel) :
    callAt Gen.Dense.fns fuel (k + 2) "historically_timed_operation" [encSig s, .tm (.fin a), .tm (.fin b)]
      = (histTimed s a b).map encSig := by
  rw [callAt_fn _ _ _ _ Gen.Dense.fn_historically_timed_operation _ rfl]
  exact runFn_fwd par_hist fuel k _ rfl hist_body_eq s a b _ (BegOK.tm a) hfuel

/-- the same with the integer literal `0` as `begin` (the call `historically_timed_operation(out2, 0, begin)` of
    `since_timed_operation`) -/
theorem gen_hist_timed_int0 (fuel k : Nat) (s : ASig α) (b : Rat) (hfuel : Fwd.G s.length ≤ fuel) :
    callAt Gen.Dense.fns fuel (k + 2) "historically_timed_operation" [encSig s, .int 0, .tm (.fin b)]
      = (histTimed s 0 b).map encSig := by
  rw [callAt_fn _ _ _ _ Gen.Dense.fn_historically_timed_operation _ rfl]
  exact runFn_fwd par_hist fuel k _ rfl hist_body_eq s 0 b _ BegOK.int0 hfuel

theorem gen_once_timed_int0 (fuel k : Nat) (s : ASig α) (b : Rat) (hfuel : Fwd.G s.length ≤ fuel) :
    callAt Gen.Dense.fns fuel (k + 2) "once_timed_operation" [encSig s, .int 0, .tm (.fin b)]
      = (onceTimed s 0 b).map encSig := by
  rw [callAt_fn _ _ _ _ Gen.Dense.fn_once_timed_operation _ rfl]
  exact runFn_fwd par_once fuel k _ rfl once_body_eq s 0 b _ BegOK.int0 hfuel

end Rtamt.Py.Dn
