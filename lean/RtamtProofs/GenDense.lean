/-
  The dense-time offline visitor translated from the source (`Rtamt/Py/GeneratedDense.lean`, run by `evalAlgG` of
  `Rtamt/Py/RunDn.lean` under the semantics of `Rtamt/Py/Dn.lean`) computes what the hand-written mirror `evalAlg`
  (`Rtamt/Dense/Alg.lean`) computes - values and exceptions - for every supported formula, every signal environment and
  every large enough fuel.

  (a) `gen_since_timed`, `gen_until_timed`: the two module-level functions that call the others;
  (b) `genD_eval`: the whole visitor, by induction on the formula - every formula, including the predicate node as the
      interface-aware robustness visitors evaluate it (`.bin (.predSat _)`: `visitPredicate_outRob`, `GenDenseIA`);
  (c) `genD_supported`: no `unsupported` construct occurs in the code `genD_eval` runs.

  The parts are proved in `GenDenseInter` (`intersection`, the methods, `and_operation`, `subtraction_operation`),
  `GenDenseFwd` (`once_timed_operation`, `historically_timed_operation`), `GenDenseBack` (`always_timed_operation`,
  `eventually_timed_operation`), `GenDenseScan` (the unbounded temporal operators), `GenDenseUn` (the visit methods) and `GenDenseIA` (the interface-aware
  `visitPredicate`).
-/
import RtamtProofs.GenDenseInter
import RtamtProofs.GenDenseFwd
import RtamtProofs.GenDenseBack
import RtamtProofs.GenDenseScan
import RtamtProofs.GenDenseUn
import RtamtProofs.GenDenseIA

set_option linter.unusedSectionVars false
set_option linter.unusedVariables false
set_option linter.unusedSimpArgs false

namespace Rtamt.Py.Dn
open Rtamt Val Rtamt.Dense Rtamt.Dense.Alg

variable {α : Type} [Val α]

namespace GenD

@[simp] theorem exMap_ok {ε σ ρ : Type} (a : σ) (f : σ → ρ) : Except.map f (Except.ok a : Except ε σ) = .ok (f a) := rfl
@[simp] theorem exMap_error {ε σ ρ : Type} (e : ε) (f : σ → ρ) : Except.map f (Except.error e : Except ε σ) = .error e := rfl

/-- the length of a result of the mirror (0 for an exception) -/
def outLen (x : Except PyErr (ASig α)) : Nat :=
  match x with
  | .ok o => o.length
  | .error _ => 0

@[simp] theorem outLen_ok (o : ASig α) : outLen (.ok o) = o.length := rfl

end GenD

open GenD

/-! ### (a) `since_timed_operation` / `until_timed_operation`

  The fuel has to cover the loops of the callees, which run over the intermediate lists `out1`, `out2`, `out3`: the bound is
  stated through the mirror's intermediate results (`outLen`: the length of the list, 0 when the mirror raises).
  `historically_timed_operation(out2, 0, begin)` / `always_timed_operation(out2, 0, begin)` receive the INTEGER literal
  `0` (`DV.int 0`) as `begin`: `gen_hist_timed_int0` / `gen_alw_timed_int0`. -/

/-- fuel for `since_timed_operation(l, r, a, b)` -/
def Gst (l r : ASig α) (a b : Rat) : Nat :=
  l.length + r.length + outLen (onceTimed r a b) + outLen (sinceOp l r) +
    outLen (do let o ← sinceOp l r; histTimed o 0 a) + 4

/-- fuel for `until_timed_operation(l, r, a, b)` -/
def Gut (l r : ASig α) (a b : Rat) : Nat :=
  l.length + r.length + outLen (evTimed r a b) + outLen (untilOp l r) +
    outLen (do let o ← untilOp l r; alwTimed o 0 a) + 4

theorem gen_since_timed (fuel k : Nat) (l r : ASig α) (a b : Rat) (h : Gst l r a b ≤ fuel) :
    callAt Gen.Dense.fns fuel (k + 4) "since_timed_operation" [encSig l, encSig r, .tm (.fin a), .tm (.fin b)]
      = (sinceTimed l r a b).map encSig := by
  rw [callAt_fn _ _ _ _ Gen.Dense.fn_since_timed_operation _ rfl]
  have hgt : evalBin .gt (.tm (.fin a) : DV α) (.int 0) = .ok (.bool (decide (0 < a))) := by
    simp [evalBin, isCmp, cmpDV, isTimeLike, toTm, cmpTm, Tm.lt]
  unfold Gst at h
  have c1 : callAt Gen.Dense.fns fuel (k + 3) "once_timed_operation" [encSig r, .tm (.fin a), .tm (.fin b)] = _ :=
    gen_once_timed fuel (k + 1) r a b (by first | (unfold Fwd.G; omega) | omega)
  have c2 := gen_since_operation' fuel k (gen_intersection fuel k) l r (by omega)
  unfold sinceTimed
  cases h1 : onceTimed r a b with
  | error e =>
      rw [h1] at c1
      by_cases ha : 0 < a <;>
        simp [runFn, Gen.Dense.fn_since_timed_operation, exec, evalE, hgt, c1, ha, truthy]
  | ok o1 =>
      rw [h1] at c1
      cases h2 : sinceOp l r with
      | error e =>
          rw [h2] at c2
          by_cases ha : 0 < a <;>
            simp [runFn, Gen.Dense.fn_since_timed_operation, exec, evalE, hgt, c1, c2, ha, truthy]
      | ok o2 =>
          rw [h2] at c2
          simp only [h1, h2, outLen_ok, ok_bind] at h
          by_cases ha : 0 < a
          · have c3 : callAt Gen.Dense.fns fuel (k + 3) "historically_timed_operation" [encSig o2, .int 0, .tm (.fin a)] = _ :=
              gen_hist_timed_int0 fuel (k + 1) o2 a (by first | (unfold Fwd.G; omega) | omega)
            cases h3 : histTimed o2 0 a with
            | error e =>
                rw [h3] at c3
                simp [runFn, Gen.Dense.fn_since_timed_operation, exec, evalE, hgt, c1, c2, c3, ha, truthy, h3]
            | ok o3 =>
                rw [h3] at c3
                simp only [h3, outLen_ok] at h
                have c4 := gen_and_operation fuel k o1 o3 (by omega)
                cases h4 : andOp o1 o3 <;> rw [h4] at c4 <;>
                simp [runFn, Gen.Dense.fn_since_timed_operation, exec, evalE, hgt, c1, c2, c3, c4, ha, truthy, h3, h4]
          · have c4 := gen_and_operation fuel k o1 o2 (by omega)
            cases h4 : andOp o1 o2 <;> rw [h4] at c4 <;>
            simp [runFn, Gen.Dense.fn_since_timed_operation, exec, evalE, hgt, c1, c2, c4, ha, truthy, h4]

theorem gen_until_timed (fuel k : Nat) (l r : ASig α) (a b : Rat) (h : Gut l r a b ≤ fuel) :
    callAt Gen.Dense.fns fuel (k + 4) "until_timed_operation" [encSig l, encSig r, .tm (.fin a), .tm (.fin b)]
      = (untilTimed l r a b).map encSig := by
  rw [callAt_fn _ _ _ _ Gen.Dense.fn_until_timed_operation _ rfl]
  have hgt : evalBin .gt (.tm (.fin a) : DV α) (.int 0) = .ok (.bool (decide (0 < a))) := by
    simp [evalBin, isCmp, cmpDV, isTimeLike, toTm, cmpTm, Tm.lt]
  unfold Gut at h
  have c1 : callAt Gen.Dense.fns fuel (k + 3) "eventually_timed_operation" [encSig r, .tm (.fin a), .tm (.fin b)] = _ :=
    gen_ev_timed fuel (k + 1) r a b (by first | (unfold Fwd.G; omega) | omega)
  have c2 := gen_until_operation' fuel k (gen_intersection fuel k) l r (by omega)
  unfold untilTimed
  cases h1 : evTimed r a b with
  | error e =>
      rw [h1] at c1
      by_cases ha : 0 < a <;>
        simp [runFn, Gen.Dense.fn_until_timed_operation, exec, evalE, hgt, c1, ha, truthy]
  | ok o1 =>
      rw [h1] at c1
      cases h2 : untilOp l r with
      | error e =>
          rw [h2] at c2
          by_cases ha : 0 < a <;>
            simp [runFn, Gen.Dense.fn_until_timed_operation, exec, evalE, hgt, c1, c2, ha, truthy]
      | ok o2 =>
          rw [h2] at c2
          simp only [h1, h2, outLen_ok, ok_bind] at h
          by_cases ha : 0 < a
          · have c3 : callAt Gen.Dense.fns fuel (k + 3) "always_timed_operation" [encSig o2, .int 0, .tm (.fin a)] = _ :=
              gen_alw_timed_int0 fuel (k + 1) o2 a (by first | (unfold Fwd.G; omega) | omega)
            cases h3 : alwTimed o2 0 a with
            | error e =>
                rw [h3] at c3
                simp [runFn, Gen.Dense.fn_until_timed_operation, exec, evalE, hgt, c1, c2, c3, ha, truthy, h3]
            | ok o3 =>
                rw [h3] at c3
                simp only [h3, outLen_ok] at h
                have c4 := gen_and_operation fuel k o1 o3 (by omega)
                cases h4 : andOp o1 o3 <;> rw [h4] at c4 <;>
                simp [runFn, Gen.Dense.fn_until_timed_operation, exec, evalE, hgt, c1, c2, c3, c4, ha, truthy, h3, h4]
          · have c4 := gen_and_operation fuel k o1 o2 (by omega)
            cases h4 : andOp o1 o2 <;> rw [h4] at c4 <;>
            simp [runFn, Gen.Dense.fn_until_timed_operation, exec, evalE, hgt, c1, c2, c4, ha, truthy, h4]

/-! ### the lengths of the mirror's results: a closed form for the fuel of `since_timed_operation` / `until_timed_operation` -/

namespace GenD

theorem appendD_length {β : Type} (ne : β → β → Bool) (out : ASig β) (item : Tm × β) :
    (appendD ne out item).length ≤ out.length + 1 := by
  unfold appendD
  split
  · simp
  · split <;> simp

theorem interLoop_length {β : Type} (f : α → α → β) (ne : β → β → Bool) :
    ∀ (n : Nat) (l1 l2 : ASig α) (out o : ASig β), l1.length + l2.length ≤ n →
      interLoop f ne l1 l2 out = .ok o → o.length ≤ out.length + (l1.length + l2.length) := by
  intro n
  induction n with
  | zero =>
      intro l1 l2 out o hn h
      rw [interLoop_short f ne l1 l2 out (by omega)] at h
      cases h; omega
  | succ n ih =>
      intro l1 l2 out o hn h
      match l1, l2, h with
      | (p1, v1) :: (c1, w1) :: r1, (p2, v2) :: (c2, w2) :: r2, h =>
          rw [interLoop_dec] at h
          cases hd : interDec p1 c1 p2 c2 with
          | none => rw [hd] at h; cases h
          | some d =>
              obtain ⟨a, e⟩ := d
              rw [hd] at h
              simp only [decK] at h
              have hout : (nextOut f ne p1 p2 v1 v2 out e).length ≤ out.length + 1 := by
                cases e with
                | none => simp [nextOut]
                | some s => exact appendD_length _ _ _
              cases a with
              | true =>
                  have := ih _ _ _ _ (by simp at hn ⊢; omega) h
                  simp at this ⊢; omega
              | false =>
                  have := ih _ _ _ _ (by simp at hn ⊢; omega) h
                  simp at this ⊢; omega
      | [], l2, h => rw [interLoop_short f ne _ _ out (by simp)] at h; cases h; omega
      | [x], l2, h => rw [interLoop_short f ne _ _ out (by simp)] at h; cases h; omega
      | l1, [], h => rw [interLoop_short f ne _ _ out (by simp)] at h; cases h; omega
      | l1, [x], h => rw [interLoop_short f ne _ _ out (by simp)] at h; cases h; omega

theorem inter_length {β : Type} (f : α → α → β) (ne : β → β → Bool) (s1 s2 : ASig α) (o : ASig β)
    (h : inter f ne s1 s2 = .ok o) : o.length ≤ s1.length + s2.length + 2 := by
  unfold inter at h
  split at h
  · cases h; simp
  · have := interLoop_length f ne _ _ _ _ _ (Nat.le_refl _) h
    have h1 := extendInf_length s1
    have h2 := extendInf_length s2
    simp at this; omega

theorem dedupGo_length : ∀ (s : ASig α) (prev : Option α), (dedupGo prev s).length ≤ s.length
  | [], _ => by simp [dedupGo]
  | [p], _ => by simp [dedupGo]
  | p :: q :: rest, prev => by
      have := dedupGo_length (q :: rest) (some p.2)
      cases prev with
      | none => simp only [dedupGo, List.length_append, List.length_cons] at this ⊢; simp; omega
      | some x =>
          simp only [dedupGo, List.length_append, List.length_cons] at this ⊢
          by_cases hv : vne p.2 x = true <;> simp [hv] <;> omega

theorem dedup_length (s : ASig α) : (dedup s).length ≤ s.length := dedupGo_length s none

theorem sinceGo_length : ∀ (io : List (Tm × (α × α))) (acc : α), (sinceOp.go acc io).length = io.length
  | [], _ => rfl
  | (t, p) :: rest, acc => by simp [sinceOp.go, sinceGo_length rest]

theorem sinceOp_length (l r o : ASig α) (h : sinceOp l r = .ok o) : o.length ≤ l.length + r.length + 2 := by
  unfold sinceOp at h
  cases hi : inter (fun a b => (a, b)) pairNe l r with
  | error e => rw [hi] at h; cases h
  | ok io =>
      rw [hi] at h
      cases h
      have h1 := inter_length _ _ l r io hi
      have h2 := dedup_length (sinceOp.go Val.ninf io)
      rw [sinceGo_length] at h2
      omega

theorem bfold_length {γ : Type} (g : α → γ → α) (n : Nat) : ∀ (xs : List (Tm × γ)) (st : α × Option α × ASig α × Nat),
    (xs.foldl (GenScan.bstep g n) st).2.2.1.length ≤ st.2.2.1.length + xs.length
  | [], st => by simp
  | p :: xs, (acc, nx, out, i) => by
      rw [List.foldl_cons, GenScan.bstep_eq]
      have hlen : (if GenScan.eqNextB nx (g acc p.2) && decide (i + 2 < n) then out.tail else out).length ≤ out.length := by
        split <;> simp
      generalize (if GenScan.eqNextB nx (g acc p.2) && decide (i + 2 < n) then out.tail else out) = o' at hlen ⊢
      have := bfold_length g n xs (g acc p.2, some (g acc p.2), (p.1, g acc p.2) :: o', i - 1)
      simp only [List.length_cons] at this ⊢
      omega

theorem backScanG_length {γ : Type} (g : α → γ → α) (init : α) (nx0 : Option α) (s : List (Tm × γ)) :
    (backScanG g init nx0 s).length ≤ s.length := by
  rw [GenScan.backScanG_eq]
  have := bfold_length g s.length s.reverse (init, nx0, [], s.length - 1)
  simpa using this

theorem untilOp_length (l r o : ASig α) (h : untilOp l r = .ok o) : o.length ≤ l.length + r.length + 2 := by
  unfold untilOp at h
  cases hi : inter (fun a b => (a, b)) pairNe l r with
  | error e => rw [hi] at h; cases h
  | ok io =>
      rw [hi] at h
      cases h
      have h1 := inter_length _ _ l r io hi
      have h2 := backScanG_length sinceVal Val.ninf (some Val.ninf) io
      omega

theorem foldlM_pushSeg_length (worse : α → α → Bool) : ∀ (segs stk stk' : List (Seg α)),
    segs.foldlM (pushSeg worse) stk = .ok stk' → stk'.length ≤ stk.length + segs.length
  | [], stk, stk', h => by cases h; simp
  | g :: segs, stk, stk', h => by
      rw [List.foldlM_cons] at h
      cases hp : pushSeg worse stk g with
      | error e => rw [hp] at h; cases h
      | ok s1 =>
          rw [hp] at h
          have h1 := Fwd.pushSeg_length worse g stk s1 hp
          have h2 := foldlM_pushSeg_length worse segs s1 stk' h
          simp; omega

theorem fwdTimed_length (worse : α → α → Bool) (neutral : α) (s o : ASig α) (a b : Rat)
    (h : fwdTimed worse neutral s a b = .ok o) : o.length ≤ s.length + 1 := by
  rw [Fwd.fwdTimed_eq] at h
  cases hf : (fwdSegs a b s).foldlM (pushSeg worse) (Fwd.withInit neutral a s 0 []) with
  | error e => rw [hf] at h; cases h
  | ok stk =>
      rw [hf] at h
      cases h
      have h1 := foldlM_pushSeg_length worse _ _ _ hf
      rw [Fwd.fwdSegs_length] at h1
      have h2 : (Fwd.withInit neutral a s 0 ([] : List (Seg α))).length ≤ 1 := by
        cases s with
        | nil => simp [Fwd.withInit]
        | cons q rest => simp only [Fwd.withInit]; split <;> simp
      have h3 := dedup_length (stk.reverse.map (fun g => (g.lo, g.v)))
      rw [List.length_map, List.length_reverse] at h3
      omega

theorem backSegs_length (a b : Rat) : ∀ (s : ASig α), (backSegs a b s).length = s.length
  | [] => rfl
  | [(t, v)] => rfl
  | (t, v) :: (t', v') :: rest => by
      have := backSegs_length a b ((t', v') :: rest)
      simp [backSegs, this]

theorem foldlM_pushSegB_length (w : α → α → Bool) : ∀ (segs out out' : List (Seg α)),
    segs.foldlM (pushSegB w) out = .ok out' → out'.length ≤ out.length + segs.length
  | [], out, out', h => by cases h; simp
  | g :: segs, out, out', h => by
      rw [List.foldlM_cons] at h
      cases hp : pushSegB w out g with
      | error e => rw [hp] at h; cases h
      | ok s1 =>
          rw [hp] at h
          have h1 := GenBack.pushSegB_length w g out s1 hp
          have h2 := foldlM_pushSegB_length w segs s1 out' h
          simp; omega

theorem backTimed_length (w : α → α → Bool) (s o : ASig α) (a b : Rat)
    (h : backTimed w s a b = .ok o) : o.length ≤ s.length := by
  unfold backTimed at h
  cases hf : (backSegs a b s).reverse.foldlM (pushSegB w) [] with
  | error e => rw [hf] at h; cases h
  | ok out =>
      rw [hf] at h
      cases h
      have h1 := foldlM_pushSegB_length w _ _ _ hf
      simp [backSegs_length] at h1
      exact Nat.le_trans (List.length_filterMap_le _ _) h1

end GenD

/-- the fuel `since_timed_operation` needs, in terms of the lengths of its arguments -/
theorem Gst_le (l r : ASig α) (a b : Rat) : Gst l r a b ≤ 3 * l.length + 4 * r.length + 10 := by
  unfold Gst
  have h1 : outLen (onceTimed r a b) ≤ r.length + 1 := by
    cases h : onceTimed r a b with
    | error e => simp [outLen]
    | ok o => exact fwdTimed_length _ _ _ _ _ _ h
  cases h2 : sinceOp l r with
  | error e => simp [outLen] at h1 ⊢; omega
  | ok o2 =>
      have h2' := sinceOp_length l r o2 h2
      have h3 : outLen (histTimed o2 0 a) ≤ o2.length + 1 := by
        cases h : histTimed o2 0 a with
        | error e => simp [outLen]
        | ok o => exact fwdTimed_length _ _ _ _ _ _ h
      simp only [ok_bind, outLen_ok]
      omega

theorem Gut_le (l r : ASig α) (a b : Rat) : Gut l r a b ≤ 3 * l.length + 4 * r.length + 10 := by
  unfold Gut
  have h1 : outLen (evTimed r a b) ≤ r.length := by
    cases h : evTimed r a b with
    | error e => simp [outLen]
    | ok o => exact backTimed_length _ _ _ _ _ h
  cases h2 : untilOp l r with
  | error e => simp [outLen] at h1 ⊢; omega
  | ok o2 =>
      have h2' := untilOp_length l r o2 h2
      have h3 : outLen (alwTimed o2 0 a) ≤ o2.length := by
        cases h : alwTimed o2 0 a with
        | error e => simp [outLen]
        | ok o => exact backTimed_length _ _ _ _ _ h
      simp only [ok_bind, outLen_ok]
      omega

/-- `gen_since_timed` with the fuel bound in terms of the lengths of the arguments -/
theorem gen_since_timed_len (fuel k : Nat) (l r : ASig α) (a b : Rat) (h : 3 * l.length + 4 * r.length + 10 ≤ fuel) :
    callAt Gen.Dense.fns fuel (k + 4) "since_timed_operation" [encSig l, encSig r, .tm (.fin a), .tm (.fin b)]
      = (sinceTimed l r a b).map encSig :=
  gen_since_timed fuel k l r a b (Nat.le_trans (Gst_le l r a b) h)

/-- `gen_until_timed` with the fuel bound in terms of the lengths of the arguments -/
theorem gen_until_timed_len (fuel k : Nat) (l r : ASig α) (a b : Rat) (h : 3 * l.length + 4 * r.length + 10 ≤ fuel) :
    callAt Gen.Dense.fns fuel (k + 4) "until_timed_operation" [encSig l, encSig r, .tm (.fin a), .tm (.fin b)]
      = (untilTimed l r a b).map encSig :=
  gen_until_timed fuel k l r a b (Nat.le_trans (Gut_le l r a b) h)

/-! ### (b) the whole visitor -/

@[simp] theorem lookupD_Variable : lookupD .Variable = some Gen.Dense.visitVariable := rfl
@[simp] theorem lookupD_Constant : lookupD .Constant = some Gen.Dense.visitConstant := rfl
@[simp] theorem lookupD_Predicate : lookupD .Predicate = some Gen.Dense.visitPredicate := rfl
@[simp] theorem lookupD_Abs : lookupD .Abs = some Gen.Dense.visitAbs := rfl
@[simp] theorem lookupD_Sqrt : lookupD .Sqrt = some Gen.Dense.visitSqrt := rfl
@[simp] theorem lookupD_Exp : lookupD .Exp = some Gen.Dense.visitExp := rfl
@[simp] theorem lookupD_Ln : lookupD .Ln = some Gen.Dense.visitLn := rfl
@[simp] theorem lookupD_Negate : lookupD .Negate = some Gen.Dense.visitNegate := rfl
@[simp] theorem lookupD_Neg : lookupD .Neg = some Gen.Dense.visitNot := rfl
@[simp] theorem lookupD_Addition : lookupD .Addition = some Gen.Dense.visitAddition := rfl
@[simp] theorem lookupD_Subtraction : lookupD .Subtraction = some Gen.Dense.visitSubtraction := rfl
@[simp] theorem lookupD_Multiplication : lookupD .Multiplication = some Gen.Dense.visitMultiplication := rfl
@[simp] theorem lookupD_Division : lookupD .Division = some Gen.Dense.visitDivision := rfl
@[simp] theorem lookupD_Pow : lookupD .Pow = some Gen.Dense.visitPow := rfl
@[simp] theorem lookupD_Log : lookupD .Log = some Gen.Dense.visitLog := rfl
@[simp] theorem lookupD_Conjunction : lookupD .Conjunction = some Gen.Dense.visitAnd := rfl
@[simp] theorem lookupD_Disjunction : lookupD .Disjunction = some Gen.Dense.visitOr := rfl
@[simp] theorem lookupD_Implies : lookupD .Implies = some Gen.Dense.visitImplies := rfl
@[simp] theorem lookupD_Iff : lookupD .Iff = some Gen.Dense.visitIff := rfl
@[simp] theorem lookupD_Xor : lookupD .Xor = some Gen.Dense.visitXor := rfl
@[simp] theorem lookupD_Rise : lookupD .Rise = some Gen.Dense.visitRise := rfl
@[simp] theorem lookupD_Fall : lookupD .Fall = some Gen.Dense.visitFall := rfl
@[simp] theorem lookupD_Previous : lookupD .Previous = some Gen.Dense.visitPrevious := rfl
@[simp] theorem lookupD_StrongPrevious : lookupD .StrongPrevious = some Gen.Dense.visitStrongPrevious := rfl
@[simp] theorem lookupD_Next : lookupD .Next = some Gen.Dense.visitNext := rfl
@[simp] theorem lookupD_StrongNext : lookupD .StrongNext = some Gen.Dense.visitStrongNext := rfl
@[simp] theorem lookupD_Once : lookupD .Once = some Gen.Dense.visitOnce := rfl
@[simp] theorem lookupD_Historically : lookupD .Historically = some Gen.Dense.visitHistorically := rfl
@[simp] theorem lookupD_Eventually : lookupD .Eventually = some Gen.Dense.visitEventually := rfl
@[simp] theorem lookupD_Always : lookupD .Always = some Gen.Dense.visitAlways := rfl
@[simp] theorem lookupD_Since : lookupD .Since = some Gen.Dense.visitSince := rfl
@[simp] theorem lookupD_Until : lookupD .Until = some Gen.Dense.visitUntil := rfl
@[simp] theorem lookupD_TimedOnce : lookupD .TimedOnce = some Gen.Dense.visitTimedOnce := rfl
@[simp] theorem lookupD_TimedHistorically : lookupD .TimedHistorically = some Gen.Dense.visitTimedHistorically := rfl
@[simp] theorem lookupD_TimedEventually : lookupD .TimedEventually = some Gen.Dense.visitTimedEventually := rfl
@[simp] theorem lookupD_TimedAlways : lookupD .TimedAlways = some Gen.Dense.visitTimedAlways := rfl
@[simp] theorem lookupD_TimedSince : lookupD .TimedSince = some Gen.Dense.visitTimedSince := rfl
@[simp] theorem lookupD_TimedUntil : lookupD .TimedUntil = some Gen.Dense.visitTimedUntil := rfl
@[simp] theorem lookupD_TimedPrecedes : lookupD .TimedPrecedes = some Gen.Dense.visitTimedPrecedes := rfl

end Rtamt.Py.Dn

namespace Rtamt

/-- The formulas on which the translated dense-time offline visitor is related to the mirror: nothing is excluded any more
    (the predicate holds of every formula, `F.denseSupported_all`; it is kept because `genD_eval` is stated with it).
    The predicate node as the interface-aware robustness visitors evaluate it (`.bin (.predSat c)`) is run through the
    translated `visitPredicate_outRob` (`gen_visitPredicate_outRob_insensitive`).  On `.bin .predZero` both sides return
    `.error .other` once the children are evaluated, on the kinds whose `visitX` raises (`rise`, `fall`, `previous`, `next`,
    …, `precedes`) both return `.error .rtamt`. -/
def F.denseSupported {α : Type} : F α → Bool
  | .var _ => true
  | .const _ => true
  | .un _ φ => φ.denseSupported
  | .bin _ φ ψ => φ.denseSupported && ψ.denseSupported
  | .tmp1 _ φ => φ.denseSupported
  | .tmp2 _ φ ψ => φ.denseSupported && ψ.denseSupported
  | .tb1 _ _ _ φ => φ.denseSupported
  | .tb2 _ _ _ φ ψ => φ.denseSupported && ψ.denseSupported

theorem F.denseSupported_all {α : Type} (φ : F α) : φ.denseSupported = true := by
  induction φ <;> simp_all [F.denseSupported]

end Rtamt

namespace Rtamt.Py.Dn
open Rtamt Val Rtamt.Dense Rtamt.Dense.Alg GenD

variable {α : Type} [Val α]

namespace GenD

/-- a node with one child: the children are evaluated first, on both sides -/
theorem lift1 (G : Nat → Except PyErr (ASig α)) (A : Except PyErr (ASig α))
    (g : Nat → ASig α → Except PyErr (ASig α)) (f : ASig α → Except PyErr (ASig α))
    (ih : ∃ N, ∀ fuel, N ≤ fuel → G fuel = A)
    (hnode : ∀ s, A = .ok s → ∃ N, ∀ fuel, N ≤ fuel → g fuel s = f s) :
    ∃ N, ∀ fuel, N ≤ fuel → (G fuel >>= g fuel) = (A >>= f) := by
  obtain ⟨N, hN⟩ := ih
  cases hA : A with
  | error e => exact ⟨N, fun fuel hf => by rw [hN fuel hf, hA]; rfl⟩
  | ok s =>
      obtain ⟨M, hM⟩ := hnode s hA
      exact ⟨N + M, fun fuel hf => by rw [hN fuel (by omega), hA]; exact hM fuel (by omega)⟩

/-- a node with two children -/
theorem lift2 (G1 G2 : Nat → Except PyErr (ASig α)) (A1 A2 : Except PyErr (ASig α))
    (g : Nat → ASig α → ASig α → Except PyErr (ASig α)) (f : ASig α → ASig α → Except PyErr (ASig α))
    (ih1 : ∃ N, ∀ fuel, N ≤ fuel → G1 fuel = A1) (ih2 : ∃ N, ∀ fuel, N ≤ fuel → G2 fuel = A2)
    (hnode : ∀ l r, A1 = .ok l → A2 = .ok r → ∃ N, ∀ fuel, N ≤ fuel → g fuel l r = f l r) :
    ∃ N, ∀ fuel, N ≤ fuel → (G1 fuel >>= fun l => G2 fuel >>= fun r => g fuel l r) = (A1 >>= fun l => A2 >>= fun r => f l r) := by
  obtain ⟨N1, hN1⟩ := ih1
  obtain ⟨N2, hN2⟩ := ih2
  cases hA1 : A1 with
  | error e => exact ⟨N1, fun fuel hf => by rw [hN1 fuel hf, hA1]; rfl⟩
  | ok l =>
      cases hA2 : A2 with
      | error e => exact ⟨N1 + N2, fun fuel hf => by rw [hN1 fuel (by omega), hN2 fuel (by omega), hA1, hA2]; rfl⟩
      | ok r =>
          obtain ⟨M, hM⟩ := hnode l r hA1 hA2
          exact ⟨N1 + N2 + M, fun fuel hf => by
            rw [hN1 fuel (by omega), hN2 fuel (by omega), hA1, hA2]; exact hM fuel (by omega)⟩

/-! the nodes -/

theorem node_un (fuel : Nat) (op : Un) (s : ASig α) :
    (match lookupD op.kind with
     | some m => callD fuel m [s] none []
     | none => pure s) = mapUn op s := by
  cases op <;> simp only [Un.kind, lookupD_Abs, lookupD_Sqrt, lookupD_Exp, lookupD_Ln, lookupD_Negate, lookupD_Neg]
  · exact gen_visitAbs fuel s
  · exact gen_visitSqrt fuel s
  · exact gen_visitExp fuel s
  · exact gen_visitLn fuel s
  · exact gen_visitNegate fuel s
  · exact gen_visitNot fuel s

theorem node_bin (fuel : Nat) (op : Bin) (l r : ASig α) (h : l.length + r.length + 4 ≤ fuel) :
    (match op with
     | .predSat c =>
         match Gen.Dense.iaMethods.lookup "visitPredicate_outRob" with
         | some m => callD fuel m [l, r] none [("$operator", .cmp c), ("$out_vars", .list [])]
         | none => .error .type
     | .predZero => .error .other
     | _ =>
       match lookupD op.kind with
       | some m => callD fuel m [l, r] none (match op with | .pred c => [("$operator", .cmp c)] | _ => [])
       | none => pure r) =
    (match op with
     | .pred c => predicate c l r
     | .predSat c => predicateIA c (fun b => if b then Val.pinf else Val.ninf) l r
     | .predZero => .error .other
     | _ => inter (binMethod op) vne l r) := by
  have hI4 : InterSpec α fuel (depth - 2) := gen_intersection fuel 4
  have hI3 : InterSpec α fuel (depth - 3) := gen_intersection fuel 3
  cases op with
  | predSat c =>
      simp only [show Gen.Dense.iaMethods.lookup "visitPredicate_outRob" = some Gen.Dense.visitPredicate_outRob from rfl]
      exact gen_visitPredicate_outRob_insensitive fuel c l r h
  | predZero => rfl
  | pred c => simp only [Bin.kind, lookupD_Predicate]; exact gen_visitPredicate_inter fuel hI3 c l r h
  | add => simp only [Bin.kind, lookupD_Addition]; exact gen_visitAddition fuel hI4 l r h
  | sub => simp only [Bin.kind, lookupD_Subtraction]; exact gen_visitSubtraction_inter fuel hI3 l r h
  | mul => simp only [Bin.kind, lookupD_Multiplication]; exact gen_visitMultiplication fuel hI4 l r h
  | div => simp only [Bin.kind, lookupD_Division]; exact gen_visitDivision fuel hI4 l r h
  | pow => simp only [Bin.kind, lookupD_Pow]; exact gen_visitPow fuel hI4 l r h
  | log => simp only [Bin.kind, lookupD_Log]; exact gen_visitLog fuel hI4 l r h
  | and =>
      simp only [Bin.kind, lookupD_Conjunction]
      exact gen_visitAnd_of fuel l r (gen_and_operation fuel 3 l r h)
  | or => simp only [Bin.kind, lookupD_Disjunction]; exact gen_visitOr fuel hI4 l r h
  | implies => simp only [Bin.kind, lookupD_Implies]; exact gen_visitImplies fuel hI4 l r h
  | iff => simp only [Bin.kind, lookupD_Iff]; exact gen_visitIff fuel hI4 l r h
  | xor => simp only [Bin.kind, lookupD_Xor]; exact gen_visitXor fuel hI4 l r h

theorem node_tmp1 (fuel : Nat) (op : T1) (s : ASig α) :
    (match lookupD op.kind with
     | some m => callD fuel m [s] none []
     | none => pure s) =
    (match op with
     | .once => pure (fwdScan pmax Val.ninf s)
     | .hist => pure (fwdScan pmin Val.pinf s)
     | .ev => pure (backScan pmax Val.ninf s)
     | .alw => pure (backScan pmin Val.pinf s)
     | _ => .error .rtamt) := by
  cases op <;> simp only [T1.kind, lookupD_Rise, lookupD_Fall, lookupD_Previous, lookupD_StrongPrevious, lookupD_Next,
    lookupD_StrongNext, lookupD_Once, lookupD_Historically, lookupD_Eventually, lookupD_Always]
  · exact gen_visitRise fuel _ _ _
  · exact gen_visitFall fuel _ _ _
  · exact gen_visitPrevious fuel _ _ _
  · exact gen_visitStrongPrevious fuel _ _ _
  · exact gen_visitNext fuel _ _ _
  · exact gen_visitStrongNext fuel _ _ _
  · exact gen_visitOnce fuel s
  · exact gen_visitHistorically fuel s
  · exact gen_visitEventually fuel s
  · exact gen_visitAlways fuel s

theorem node_tmp2 (fuel : Nat) (op : T2) (l r : ASig α) (h : l.length + r.length + 4 ≤ fuel) :
    (match lookupD op.kind with
     | some m => callD fuel m [l, r] none []
     | none => pure r) =
    (match op with
     | .since => sinceOp l r
     | .until => untilOp l r) := by
  cases op <;> simp only [T2.kind, lookupD_Since, lookupD_Until]
  · exact gen_visitSince_of fuel l r (gen_since_operation' fuel 3 (gen_intersection fuel 3) l r h)
  · exact gen_visitUntil_of fuel l r (gen_until_operation' fuel 3 (gen_intersection fuel 3) l r h)

theorem node_tb1 (fuel : Nat) (op : TB1) (a b : Rat) (s : ASig α) (h : s.length + 1 ≤ fuel) :
    (match lookupD op.kind with
     | some m => callD fuel m [s] (some (a, b)) []
     | none => pure s) =
    (match op with
     | .once => onceTimed s a b
     | .hist => histTimed s a b
     | .ev => evTimed s a b
     | .alw => alwTimed s a b) := by
  cases op <;> simp only [TB1.kind, lookupD_TimedOnce, lookupD_TimedHistorically, lookupD_TimedEventually, lookupD_TimedAlways]
  · exact gen_visitTimedOnce_of fuel s a b (gen_once_timed fuel 4 s a b h)
  · exact gen_visitTimedHistorically_of fuel s a b (gen_hist_timed fuel 4 s a b h)
  · exact gen_visitTimedEventually_of fuel s a b (gen_ev_timed fuel 4 s a b h)
  · exact gen_visitTimedAlways_of fuel s a b (gen_alw_timed fuel 4 s a b h)

theorem node_tb2 (fuel : Nat) (op : TB2) (a b : Rat) (l r : ASig α) (h : 3 * l.length + 4 * r.length + 10 ≤ fuel) :
    (match lookupD op.kind with
     | some m => callD fuel m [l, r] (some (a, b)) []
     | none => pure r) =
    (match op with
     | .since => sinceTimed l r a b
     | .until => untilTimed l r a b
     | .precedes => .error .rtamt) := by
  cases op <;> simp only [TB2.kind, lookupD_TimedSince, lookupD_TimedUntil, lookupD_TimedPrecedes]
  · exact gen_visitTimedSince_of fuel l r a b (gen_since_timed_len fuel 2 l r a b h)
  · exact gen_visitTimedUntil_of fuel l r a b (gen_until_timed_len fuel 2 l r a b h)
  · exact gen_visitTimedPrecedes fuel _ _ _

end GenD

/-- The translated dense-time offline visitor computes what the mirror `evalAlg` computes (values and exceptions), for every
    supported formula and every environment, as soon as the fuel is large enough. -/
theorem genD_eval (cfg : DCfg) (w : DEnv α) (φ : F α) (hφ : φ.denseSupported) :
    ∃ N, ∀ fuel, N ≤ fuel → evalAlgG fuel cfg w φ = evalAlg cfg w φ := by
  induction φ with
  | var x =>
      refine ⟨0, fun fuel _ => ?_⟩
      simp only [evalAlgG, evalAlg, lookupD_Variable]
      cases w.lookup x with
      | none => rfl
      | some s => exact gen_visitVariable fuel (ofDSig s)
  | const c =>
      refine ⟨0, fun fuel _ => ?_⟩
      simp only [evalAlgG, evalAlg, lookupD_Constant]
      exact gen_visitConstant fuel c
  | un op φ ih =>
      simp only [F.denseSupported] at hφ
      simp only [evalAlgG, evalAlg]
      exact lift1 _ _ _ _ (ih hφ) (fun s _ => ⟨0, fun fuel _ => node_un fuel op s⟩)
  | bin op φ ψ ih1 ih2 =>
      simp only [F.denseSupported, Bool.and_eq_true] at hφ
      obtain ⟨h1, h2⟩ := hφ
      simp only [evalAlgG, evalAlg]
      exact lift2 _ _ _ _ _ _ (ih1 h1) (ih2 h2)
        (fun l r _ _ => ⟨l.length + r.length + 4, fun fuel hf => node_bin fuel op l r hf⟩)
  | tmp1 op φ ih =>
      simp only [F.denseSupported] at hφ
      simp only [evalAlgG, evalAlg]
      exact lift1 _ _ _ _ (ih hφ) (fun s _ => ⟨0, fun fuel _ => node_tmp1 fuel op s⟩)
  | tmp2 op φ ψ ih1 ih2 =>
      simp only [F.denseSupported, Bool.and_eq_true] at hφ
      simp only [evalAlgG, evalAlg]
      exact lift2 _ _ _ _ _ _ (ih1 hφ.1) (ih2 hφ.2)
        (fun l r _ _ => ⟨l.length + r.length + 4, fun fuel hf => node_tmp2 fuel op l r hf⟩)
  | tb1 op a b φ ih =>
      simp only [F.denseSupported] at hφ
      simp only [evalAlgG, evalAlg]
      exact lift1 _ _ _ _ (ih hφ) (fun s _ => ⟨s.length + 1, fun fuel hf => node_tb1 fuel op _ _ s hf⟩)
  | tb2 op a b φ ψ ih1 ih2 =>
      simp only [F.denseSupported, Bool.and_eq_true] at hφ
      simp only [evalAlgG, evalAlg]
      exact lift2 _ _ _ _ _ _ (ih1 hφ.1) (ih2 hφ.2)
        (fun l r _ _ => ⟨_, fun fuel hf => node_tb2 fuel op _ _ l r hf⟩)

/-- the same without the (now trivial) hypothesis -/
theorem genD_eval_all (cfg : DCfg) (w : DEnv α) (φ : F α) :
    ∃ N, ∀ fuel, N ≤ fuel → evalAlgG fuel cfg w φ = evalAlg cfg w φ :=
  genD_eval cfg w φ φ.denseSupported_all

/-- non-vacuity: a bounded `until` over a variable and a predicate is supported -/
example (c : α) : (F.tb2 .until 1 2 (.var "x") (.bin (.pred .le) (.var "y") (.const c))).denseSupported = true := rfl

/-- one fuel for a list of formulas -/
theorem genD_eval_list (cfg : DCfg) (w : DEnv α) (φs : List (F α)) (h : ∀ φ ∈ φs, φ.denseSupported) :
    ∃ N, ∀ fuel, N ≤ fuel → ∀ φ ∈ φs, evalAlgG fuel cfg w φ = evalAlg cfg w φ := by
  induction φs with
  | nil => exact ⟨0, fun _ _ φ hφ => by cases hφ⟩
  | cons ψ φs ih =>
      obtain ⟨N1, h1⟩ := genD_eval cfg w ψ (h ψ (by simp))
      obtain ⟨N2, h2⟩ := ih (fun φ hφ => h φ (by simp [hφ]))
      refine ⟨N1 + N2, fun fuel hf φ hφ => ?_⟩
      rcases List.mem_cons.mp hφ with rfl | hφ
      · exact h1 fuel (by omega)
      · exact h2 fuel (by omega) φ hφ

end Rtamt.Py.Dn

/-! ### (c) no `unsupported` construct in the code `genD_eval` runs -/

namespace Rtamt.Py.Dn

/-- no `E.unsupported` in the expression -/
def E.supported : E → Bool
  | .unsupported _ => false
  | .neg e | .not e | .sliceFrom e _ | .call1 _ e => e.supported
  | .bin _ a b | .and_ a b | .or_ a b | .idx a b | .list2 a b | .call2 _ a b => a.supported && b.supported
  | .tup3 a b c | .call3 _ a b c => a.supported && b.supported && c.supported
  | .tup4 a b c d | .call4 _ a b c d => a.supported && b.supported && c.supported && d.supported
  | .loc _ | .int _ | .inf | .nan | .noneLit | .emptyList | .boolLit _ | .cmpc _ | .fnRef _ => true

/-- no `S.unsupported` / `E.unsupported` in the statement -/
def S.supported : S → Bool
  | .unsupported _ => false
  | .skip | .raise _ => true
  | .seq a b => a.supported && b.supported
  | .setLoc _ e | .unpack _ e | .appendLoc _ e | .insert0 _ e | .delIdx _ e | .ret e => e.supported
  | .ite c t e => c.supported && t.supported && e.supported
  | .while_ c b => c.supported && b.supported
  | .forIn _ it b | .forEnum _ _ it _ b => it.supported && b.supported

/-- the names in call position and the function references of an expression -/
def E.names : E → List String
  | .fnRef g => [g]
  | .neg e | .not e | .sliceFrom e _ => e.names
  | .call1 f e => f :: e.names
  | .bin _ a b | .and_ a b | .or_ a b | .idx a b | .list2 a b => a.names ++ b.names
  | .call2 f a b => f :: (a.names ++ b.names)
  | .tup3 a b c => a.names ++ b.names ++ c.names
  | .call3 f a b c => f :: (a.names ++ b.names ++ c.names)
  | .tup4 a b c d => a.names ++ b.names ++ c.names ++ d.names
  | .call4 f a b c d => f :: (a.names ++ b.names ++ c.names ++ d.names)
  | .loc _ | .int _ | .inf | .nan | .noneLit | .emptyList | .boolLit _ | .cmpc _ | .unsupported _ => []

def S.names : S → List String
  | .skip | .raise _ | .unsupported _ => []
  | .seq a b => a.names ++ b.names
  | .setLoc _ e | .unpack _ e | .appendLoc _ e | .insert0 _ e | .delIdx _ e | .ret e => e.names
  | .ite c t e => c.names ++ t.names ++ e.names
  | .while_ c b => c.names ++ b.names
  | .forIn _ it b | .forEnum _ _ it _ b => it.names ++ b.names

/-- the two functions of intersection.py nothing calls (`interval_union` is called by `union` only) -/
def deadFns : List String := ["interval_union", "union"]

/-- What `genD_eval` relies on:
    * every function of the table except the dead `interval_union` / `union` is free of `unsupported`, and none of them
      (nor any visit method) calls or references one of those two;
    * every visit method is free of `unsupported`, except `visitVariable`, whose `if node.field:` branch
      (`operator.attrgetter`) is the only unsupported part: the condition, the `else` branch and the rest are supported
      (`evalAlgG` passes `$field = None`, so the branch is never taken);
    * the interface-aware `visitPredicate`s (`Gen.Dense.iaMethods`; `evalAlgG` runs `visitPredicate_outRob` on
      `.bin (.predSat _)`) are free of `unsupported` and call none of the dead functions. -/
def genDSupportedCheck : Bool :=
  (Gen.Dense.fns.all fun p =>
    deadFns.contains p.1 || (p.2.body.supported && p.2.body.names.all fun n => !deadFns.contains n)) &&
  (Gen.Dense.methods.all fun p =>
    (p.1 == "visitVariable" || p.2.body.supported) && p.2.body.names.all fun n => !deadFns.contains n) &&
  (Gen.Dense.iaMethods.all fun p => p.2.body.supported && p.2.body.names.all fun n => !deadFns.contains n) &&
  (match Gen.Dense.visitVariable.body with
   | .seq a (.seq (.ite c _ e) r) => a.supported && c.supported && e.supported && r.supported
   | _ => false)

theorem genD_supported : genDSupportedCheck = true := by decide

end Rtamt.Py.Dn
