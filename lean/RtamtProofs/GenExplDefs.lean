/-
  Encodings shared by the theorems about the translated explanation functions
  (`Rtamt/Py/GeneratedExpl.lean`, regenerated on every run from `rtamt/explanation/*/discrete_time/explanations.py`).
-/
import Rtamt.Py.RunExpl
import RtamtProofs.GenOps

namespace Rtamt.Py
open Rtamt Val

variable {α : Type} [Val α]

/-- The interval lists of the mirror (`Nat`) as Python lists of `[b, e]` (`int`). -/
def castI (I : Ivs) : IvsZ := I.map (fun p => ((p.1 : Int), (p.2 : Int)))
def encI (I : Ivs) : V α := encZ (castI I)

/-- `op_signal[i]`. -/
def atL (s : List α) (i : Nat) : α := s.getD i Val.zero

/-- All intervals end inside a signal of length `n` (so that `op_signal[i]` is defined for every index of the interval). -/
def InRange (n : Nat) (I : Ivs) : Prop := ∀ p ∈ I, p.2 < n

/-- `[min(begin + a, len - 1), min(end + b, len - 1)]` for every interval. -/
def fwdI (n a b : Nat) (I : Ivs) : Ivs := I.map (fun (x, y) => (min (x + a) (n - 1), min (y + b) (n - 1)))
/-- `[max(begin - b, 0), max(end - a, 0)]` for every interval. -/
def bwdI (a b : Nat) (I : Ivs) : Ivs := I.map (fun (x, y) => (x - b, y - a))

end Rtamt.Py
