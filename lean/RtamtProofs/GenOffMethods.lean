/-
  One equation per `visitX` of the translated offline visitor (`Rtamt/Py/GeneratedOff.lean`): the method, run under
  the semantics of `Rtamt/Py/Sem.lean` on the results of the children, computes the corresponding clause of the
  mirror `evalOff` (`Rtamt/Discrete/Offline.lean`) — values and exceptions.
-/
import RtamtProofs.GenOffLemmas

namespace Rtamt.Py
open Rtamt Val

variable {α : Type} [Val α]

/-! ### leaves -/

theorem visitVariable_eq (l : List α) :
    callOn Gen.Off.visitVariable [] none [("$var", .list l), ("$field", .none)] = .ok l := by
  rw [callOn_eq _ _ _ _ _ rfl rfl rfl]
  simp only [Gen.Off.visitVariable]
  off_step []

theorem visitConstant_eq (c : α) (n : Nat) :
    callOn Gen.Off.visitConstant [] none [("$val", .num c), ("$length", .int n)] = .ok (List.replicate n c) := by
  rw [callOn_eq _ _ _ _ _ rfl rfl rfl]
  simp only [Gen.Off.visitConstant]
  off_step []

/-! ### point-wise unary -/

/-- `for i in sample: out_sample = op(i); sample_return.append(out_sample)`. -/
theorem unLoop_eq (name : String) (op : UnOp) (f : α → α) (hop : ∀ x : α, evalUn op (.num x) = .ok (.num (f x)))
    (s : List α) :
    callOn { name := name, kids := ["sample"], interval := false,
             body := (.seq (.setLoc "sample_return" .emptyList) (.forIn "i" (.loc "sample")
               (.seq (.setLoc "out_sample" (.un op (.loc "i"))) (.appendLoc "sample_return" (.loc "out_sample"))))),
             ret := (some (.loc "sample_return")) } [s] none [] = .ok (s.map f) := by
  rw [callOn_eq _ _ _ _ _ rfl rfl rfl]
  off_step []
  refine (simE_bind_eq
    (R := fun env (t : List α × Unit) => getKey "sample_return" env.loc = .ok (lv t.1))
    (fun t => .ok t.1)
    (sim_forIn _ (fun t x => .ok (t.1 ++ [f x], ())) ([], ()) s (v := .list s) ?_ rfl ?_ ?_) ?_).trans ?_
  · off_step []
  · off_step [lv_nil]
  · intro y _ e acc h
    off_core [h, hop]
  · intro e acc h
    off_step [h]
  · rw [foldlM_scanG (fun _ x => f x) (fun _ _ => ()) (fun acc => .ok acc), scanG_map]; simp

/-- `[-i for i in sample]`. -/
theorem unComp_eq (name : String) (s : List α) :
    callOn { name := name, kids := ["sample"], interval := false,
             body := (.setLoc "sample_return" (.compList (.un .neg (.loc "i")) "i" (.loc "sample"))),
             ret := (some (.loc "sample_return")) } [s] none [] = .ok (s.map Val.neg) := by
  rw [callOn_eq _ _ _ _ _ rfl rfl rfl]
  simp only [exec_setLoc]
  rw [evalE_compList (v := .list s) s Val.neg (by off_step []) rfl (fun y => by off_step [])]
  off_step []

theorem visitUn_eq (op : Un) (s : List α) :
    ∃ m, lookupM op.kind = some m ∧ callOn m [s] none [] = .ok (s.map op.app) := by
  cases op
  · exact ⟨_, rfl, unLoop_eq "visitAbs" .abs Val.abs (fun _ => rfl) s⟩
  · exact ⟨_, rfl, unLoop_eq "visitSqrt" .sqrt Val.sqrt (fun _ => rfl) s⟩
  · exact ⟨_, rfl, unLoop_eq "visitExp" .exp Val.exp (fun _ => rfl) s⟩
  · exact ⟨_, rfl, unLoop_eq "visitLn" .ln Val.ln (fun _ => rfl) s⟩
  · exact ⟨_, rfl, unComp_eq "visitNegate" s⟩
  · exact ⟨_, rfl, unComp_eq "visitNot" s⟩


/-! ### point-wise binary -/

omit [Val α] in
theorem scanG_zipWith (f : α → α → α) (l r : List α) (p : Unit) :
    scanG (fun _ (x : α × α) => f x.1 x.2) (fun _ _ => ()) p (l.zip r) = List.zipWith f l r := by
  rw [scanG_map (fun (x : α × α) => f x.1 x.2)]
  simp [List.zip_eq_zipWith, List.map_zipWith]

omit [Val α] in
/-- The mirror's `loop2` as the index loop it abbreviates. -/
theorem loop2_eq_fold (f : α → α → α) (l r : List α) :
    ((List.range' 0 l.length).foldlM (fun (t : List α × Unit) k =>
        idx l k >>= fun a => idx r k >>= fun b => (Except.ok (t.1 ++ [f a b], ()) : Except PyErr _)) ([], ())
      >>= fun t => .ok t.1) = loop2 f l r := by
  rw [foldlM_idx2 (fun t a b => .ok (t.1 ++ [f a b], ()))]
  rw [bind_assoc]
  have := foldlM_scanG (fun _ (x : α × α) => f x.1 x.2) (fun _ _ => ())
    (fun acc => (if l.length ≤ r.length then Except.ok (acc, ()) else .error .index : Except PyErr (List α × Unit))
      >>= fun t => Except.ok t.1) (l.zip r) [] ()
  rw [this, scanG_zipWith]
  unfold loop2
  split <;> simp [ok_bind, error_bind]

set_option hygiene false in
/-- `for i in range(len(L)): out_sample = L[i] op R[i]; sample_return.append(out_sample)` -/
macro "bin_loop" m:term "," f:term "," kl:term "," kr:term : tactic =>
  `(tactic| (
    rw [callOn_eq _ _ _ _ _ rfl rfl rfl, ← loop2_eq_fold]
    simp only [$m:term]
    off_step []
    refine simE_bind_eq (R := fun env (t : List α × Unit) => getKey "sample_return" env.loc = .ok (lv t.1) ∧
        getKey $kl env.loc = .ok (.list l) ∧ getKey $kr env.loc = .ok (.list r))
      (fun t => .ok t.1)
      (sim_for (fun _ => _) (fun t k => idx l k >>= fun a => idx r k >>= fun b => .ok (t.1 ++ [$f a b], ()))
        ([], ()) 0 l.length l.length ?_ ?_ ?_ ?_ ?_) ?_
    · off_step []
    · off_step []
    · omega
    · off_step [lv_nil]
    · intro k _ _ e acc h
      cases hl : idx l k <;> cases hr : idx r k <;> off_step [h.1, h.2.1, h.2.2, hl, hr]
    · intro e acc h
      off_step [h.1]))


theorem visitPredicate_eq (c : Cmp) (l r : List α) :
    callOn Gen.Off.visitPredicate [l, r] none [("$operator", .cmp c)] = loop2 c.app l r := by
  rw [callOn_eq _ _ _ _ _ rfl rfl rfl, ← loop2_eq_fold]
  simp only [Gen.Off.visitPredicate]
  off_step []
  refine simE_bind_eq (R := fun env (t : List α × Unit) => getKey "sample_return" env.loc = .ok (lv t.1) ∧
      getKey "sample_left" env.loc = .ok (.list l) ∧ getKey "sample_right" env.loc = .ok (.list r) ∧
      getKey "$operator" env.loc = .ok (.cmp c))
    (fun t => .ok t.1)
    (sim_for (fun _ => _) (fun t k => idx l k >>= fun a => idx r k >>= fun b => .ok (t.1 ++ [c.app a b], ()))
      ([], ()) 0 l.length l.length ?_ ?_ ?_ ?_ ?_) ?_
  · off_step []
  · off_step []
  · omega
  · off_step [lv_nil]
  · intro k _ _ e acc h
    rcases Nat.lt_or_ge k l.length with hkl | hkl <;> rcases Nat.lt_or_ge k r.length with hkr | hkr <;>
      cases c <;>
      first
      | off_step [h.1, h.2.1, h.2.2.1, h.2.2.2, idx_lt _ _ hkl, idx_lt _ _ hkr, Cmp.app]
      | off_step [h.1, h.2.1, h.2.2.1, h.2.2.2, idx_lt _ _ hkl, idx_ge _ _ hkr, Cmp.app]
      | off_step [h.1, h.2.1, h.2.2.1, h.2.2.2, idx_ge _ _ hkl, idx_lt _ _ hkr, Cmp.app]
      | off_step [h.1, h.2.1, h.2.2.1, h.2.2.2, idx_ge _ _ hkl, idx_ge _ _ hkr, Cmp.app]
  · intro e acc h
    off_step [h.1]

theorem visitAddition_eq (l r : List α) :
    callOn Gen.Off.visitAddition [l, r] none [] = loop2 Val.add l r := by
  bin_loop Gen.Off.visitAddition, Val.add, "sample_left", "sample_right"

theorem visitSubtraction_eq (l r : List α) :
    callOn Gen.Off.visitSubtraction [l, r] none [] = loop2 Val.sub l r := by
  bin_loop Gen.Off.visitSubtraction, Val.sub, "sample_left", "sample_right"

theorem visitMultiplication_eq (l r : List α) :
    callOn Gen.Off.visitMultiplication [l, r] none [] = loop2 Val.mul l r := by
  bin_loop Gen.Off.visitMultiplication, Val.mul, "sample_left", "sample_right"

theorem visitDivision_eq (l r : List α) :
    callOn Gen.Off.visitDivision [l, r] none [] = loop2 Val.div l r := by
  bin_loop Gen.Off.visitDivision, Val.div, "sample_left", "sample_right"

theorem visitPow_eq (l r : List α) :
    callOn Gen.Off.visitPow [l, r] none [] = loop2 Val.pow l r := by
  bin_loop Gen.Off.visitPow, Val.pow, "sample_1", "sample_2"

theorem visitLog_eq (l r : List α) :
    callOn Gen.Off.visitLog [l, r] none [] = loop2 Val.log l r := by
  bin_loop Gen.Off.visitLog, Val.log, "sample_1", "sample_2"

/-- `[body for x, y in zip(sample_left, sample_right)]`. -/
theorem zipComp_eq (name : String) (body : E) (x y : String) (f : α → α → α)
    (hbody : ∀ (env : Env α) p q,
      evalE { env with loc := setKey y (.num q) (setKey x (.num p) env.loc) } body = .ok (.num (f p q)))
    (l r : List α) :
    callOn { name := name, kids := ["sample_left", "sample_right"], interval := false,
             body := (.setLoc "sample_return" (.compZip body x y (.loc "sample_left") (.loc "sample_right"))),
             ret := (some (.loc "sample_return")) } [l, r] none [] = .ok (List.zipWith f l r) := by
  rw [callOn_eq _ _ _ _ _ rfl rfl rfl]
  simp only [exec_setLoc]
  rw [evalE_compZip (va := .list l) (vb := .list r) l r f (by off_step []) rfl (by off_step []) rfl
    (fun p q => hbody _ p q)]
  off_step []

theorem visitAnd_eq (l r : List α) : callOn Gen.Off.visitAnd [l, r] none [] = .ok (List.zipWith pmin l r) :=
  zipComp_eq _ _ _ _ _ (fun env p q => by off_step []) l r

theorem visitOr_eq (l r : List α) : callOn Gen.Off.visitOr [l, r] none [] = .ok (List.zipWith pmax l r) :=
  zipComp_eq _ _ _ _ _ (fun env p q => by off_step []) l r

theorem visitImplies_eq (l r : List α) :
    callOn Gen.Off.visitImplies [l, r] none [] = .ok (List.zipWith (fun p q => pmax (Val.neg p) q) l r) :=
  zipComp_eq _ _ _ _ _ (fun env p q => by off_step []) l r

theorem visitIff_eq (l r : List α) :
    callOn Gen.Off.visitIff [l, r] none [] = .ok (List.zipWith (fun p q => Val.neg (Val.abs (Val.sub p q))) l r) :=
  zipComp_eq _ _ _ _ _ (fun env p q => by off_step []) l r

theorem visitXor_eq (l r : List α) :
    callOn Gen.Off.visitXor [l, r] none [] = .ok (List.zipWith (fun p q => Val.abs (Val.sub p q)) l r) :=
  zipComp_eq _ _ _ _ _ (fun env p q => by off_step []) l r


/-! ### unbounded temporal operators and events -/

/-- `prev_out = init; for i in sample: out_sample = op(i, prev_out); prev_out = out_sample; append`. -/
theorem scanLoop_eq (name : String) (op : BinOp) (ie : E) (f : α → α → α) (init : α)
    (hop : ∀ x y : α, evalBin op (.num x) (.num y) = .ok (.num (f x y)))
    (hinit : ∀ env : Env α, evalE env ie = .ok (.num init)) (s : List α) :
    callOn { name := name, kids := ["sample"], interval := false,
             body := (.seq (.setLoc "sample_return" .emptyList) (.seq (.setLoc "prev_out" ie)
               (.forIn "i" (.loc "sample") (.seq (.setLoc "out_sample" (.bin op (.loc "i") (.loc "prev_out")))
                 (.seq (.setLoc "prev_out" (.loc "out_sample")) (.appendLoc "sample_return" (.loc "out_sample"))))))),
             ret := (some (.loc "sample_return")) } [s] none [] = .ok (scanFwd f init s) := by
  rw [callOn_eq _ _ _ _ _ rfl rfl rfl]
  off_core [hinit]
  refine (simE_bind_eq
    (R := fun env (t : List α × α) => getKey "sample_return" env.loc = .ok (lv t.1) ∧
      getKey "prev_out" env.loc = .ok (.num t.2))
    (fun t => .ok t.1)
    (sim_forIn _ (fun t x => .ok (t.1 ++ [f x t.2], f x t.2)) ([], init) s (v := .list s) ?_ rfl ?_ ?_) ?_).trans ?_
  · off_core []
  · off_core [lv_nil]
  · intro y _ e acc h
    off_core [h.1, h.2, hop]
  · intro e acc h
    off_core [h.1]
  · rw [foldlM_scanG (fun p x => f x p) (fun p x => f x p) (fun acc => .ok acc), scanG_scanFwd]; simp

/-- The same over `reversed(sample)`, followed by `sample_return.reverse()`. -/
theorem scanLoopRev_eq (name : String) (op : BinOp) (ie : E) (f : α → α → α) (init : α)
    (hop : ∀ x y : α, evalBin op (.num x) (.num y) = .ok (.num (f x y)))
    (hinit : ∀ env : Env α, evalE env ie = .ok (.num init)) (s : List α) :
    callOn { name := name, kids := ["sample"], interval := false,
             body := (.seq (.setLoc "sample_return" .emptyList) (.seq (.setLoc "prev_out" ie)
               (.seq (.forIn "i" (.reversed (.loc "sample"))
                 (.seq (.setLoc "out_sample" (.bin op (.loc "i") (.loc "prev_out")))
                   (.seq (.setLoc "prev_out" (.loc "out_sample")) (.appendLoc "sample_return" (.loc "out_sample")))))
                 (.reverseLoc "sample_return")))),
             ret := (some (.loc "sample_return")) } [s] none [] = .ok (scanFwd f init s.reverse).reverse := by
  rw [callOn_eq _ _ _ _ _ rfl rfl rfl]
  off_core [hinit]
  refine (simE_bind_eq
    (R := fun env (t : List α × α) => getKey "sample_return" env.loc = .ok (lv t.1) ∧
      getKey "prev_out" env.loc = .ok (.num t.2))
    (fun t => .ok t.1.reverse)
    (sim_forIn _ (fun t x => .ok (t.1 ++ [f x t.2], f x t.2)) ([], init) s.reverse (v := .list s.reverse) ?_ rfl ?_ ?_) ?_).trans ?_
  · off_core []
  · off_core [lv_nil]
  · intro y _ e acc h
    off_core [h.1, h.2, hop]
  · intro e acc h
    off_core [h.1]
  · rw [foldlM_scanG (fun p x => f x p) (fun p x => f x p) (fun acc => .ok acc.reverse), scanG_scanFwd]; simp

/-- `prev = init; for i in sample: out_sample = prev; prev = i; append`. -/
theorem shiftLoop_eq (name : String) (ie : E) (init : α)
    (hinit : ∀ env : Env α, evalE env ie = .ok (.num init)) (s : List α) :
    callOn { name := name, kids := ["sample"], interval := false,
             body := (.seq (.setLoc "sample_return" .emptyList) (.seq (.setLoc "prev" ie)
               (.forIn "i" (.loc "sample") (.seq (.setLoc "out_sample" (.loc "prev"))
                 (.seq (.setLoc "prev" (.loc "i")) (.appendLoc "sample_return" (.loc "out_sample"))))))),
             ret := (some (.loc "sample_return")) } [s] none [] = .ok (shiftFwd init s) := by
  rw [callOn_eq _ _ _ _ _ rfl rfl rfl]
  off_core [hinit]
  refine (simE_bind_eq
    (R := fun env (t : List α × α) => getKey "sample_return" env.loc = .ok (lv t.1) ∧
      getKey "prev" env.loc = .ok (.num t.2))
    (fun t => .ok t.1)
    (sim_forIn _ (fun t x => .ok (t.1 ++ [t.2], x)) ([], init) s (v := .list s) ?_ rfl ?_ ?_) ?_).trans ?_
  · off_core []
  · off_core [lv_nil]
  · intro y _ e acc h
    off_core [h.1, h.2]
  · intro e acc h
    off_core [h.1]
  · rw [foldlM_scanG (fun p _ => p) (fun _ x => x) (fun acc => .ok acc), scanG_shiftFwd]; simp

theorem visitOnce_eq (s : List α) : callOn Gen.Off.visitOnce [s] none [] = .ok (scanFwd pmax ninf s) :=
  scanLoop_eq _ .max .ninf pmax ninf (fun _ _ => rfl) (fun _ => rfl) s

theorem visitHistorically_eq (s : List α) : callOn Gen.Off.visitHistorically [s] none [] = .ok (scanFwd pmin pinf s) :=
  scanLoop_eq _ .min .pinf pmin pinf (fun _ _ => rfl) (fun _ => rfl) s

theorem visitEventually_eq (s : List α) :
    callOn Gen.Off.visitEventually [s] none [] = .ok (scanFwd pmax ninf s.reverse).reverse :=
  scanLoopRev_eq _ .max .ninf pmax ninf (fun _ _ => rfl) (fun _ => rfl) s

theorem visitAlways_eq (s : List α) :
    callOn Gen.Off.visitAlways [s] none [] = .ok (scanFwd pmin pinf s.reverse).reverse :=
  scanLoopRev_eq _ .min .pinf pmin pinf (fun _ _ => rfl) (fun _ => rfl) s

theorem visitPrevious_eq (s : List α) : callOn Gen.Off.visitPrevious [s] none [] = .ok (shiftFwd pinf s) :=
  shiftLoop_eq _ .pinf pinf (fun _ => rfl) s

theorem visitStrongPrevious_eq (s : List α) : callOn Gen.Off.visitStrongPrevious [s] none [] = .ok (shiftFwd ninf s) :=
  shiftLoop_eq _ .ninf ninf (fun _ => rfl) s

theorem visitNext_eq (s : List α) : callOn Gen.Off.visitNext [s] none [] = .ok (s.drop 1 ++ [pinf]) := by
  rw [callOn_eq _ _ _ _ _ rfl rfl rfl]
  simp only [Gen.Off.visitNext]
  off_step [pySlice_tail]

theorem visitStrongNext_eq (s : List α) : callOn Gen.Off.visitStrongNext [s] none [] = .ok (s.drop 1 ++ [ninf]) := by
  rw [callOn_eq _ _ _ _ _ rfl rfl rfl]
  simp only [Gen.Off.visitStrongNext]
  off_step [pySlice_tail]

theorem visitRise_eq (s : List α) :
    callOn Gen.Off.visitRise [s] none [] = .ok (List.zipWith (fun p x => pmin (Val.neg p) x) (ninf :: s.dropLast) s) := by
  rw [callOn_eq _ _ _ _ _ rfl rfl rfl]
  simp only [Gen.Off.visitRise]
  off_step [pySlice_dropLast]
  rw [evalE_compZip (va := .list (ninf :: s.dropLast)) (vb := .list s) _ _
    (fun p x => pmin (Val.neg p) x) (by off_step []) rfl (by off_step []) rfl (fun p q => by off_step [])]
  off_step []

theorem visitFall_eq (s : List α) :
    callOn Gen.Off.visitFall [s] none [] = .ok (List.zipWith (fun p x => pmin p (Val.neg x)) (pinf :: s.dropLast) s) := by
  rw [callOn_eq _ _ _ _ _ rfl rfl rfl]
  simp only [Gen.Off.visitFall]
  off_step [pySlice_dropLast]
  rw [evalE_compZip (va := .list (pinf :: s.dropLast)) (vb := .list s) _ _
    (fun p x => pmin p (Val.neg x)) (by off_step []) rfl (by off_step []) rfl (fun p q => by off_step [])]
  off_step []


omit [Val α] in
theorem foldlM_idx2_bind {τ ρ : Type} (h : τ → α → α → Except PyErr τ) (l r : List α) (t0 : τ)
    (k : τ → Except PyErr ρ) :
    ((List.range' 0 l.length).foldlM (fun t k => idx l k >>= fun a => idx r k >>= fun b => h t a b) t0 >>= k)
      = if l.length ≤ r.length then ((l.zip r).foldlM (fun t p => h t p.1 p.2) t0 >>= k)
        else ((l.zip r).foldlM (fun t p => h t p.1 p.2) t0 >>= fun _ => .error .index) := by
  rw [foldlM_idx2, bind_assoc]
  split <;> simp [ok_bind, error_bind]

theorem visitSince_eq (l r : List α) :
    callOn Gen.Off.visitSince [l, r] none [] =
      if l.length ≤ r.length then .ok (scan2 ninf (l.zip r)) else .error .index := by
  rw [callOn_eq _ _ _ _ _ rfl rfl rfl]
  simp only [Gen.Off.visitSince]
  off_step []
  refine (simE_bind_eq (R := fun env (t : List α × α) => getKey "sample_return" env.loc = .ok (lv t.1) ∧
      getKey "prev_out" env.loc = .ok (.num t.2) ∧
      getKey "sample_left" env.loc = .ok (.list l) ∧ getKey "sample_right" env.loc = .ok (.list r))
    (fun t => .ok t.1)
    (sim_for (fun _ => _) (fun t k => idx l k >>= fun a => idx r k >>= fun b =>
        .ok (t.1 ++ [sinceStep t.2 (a, b)], sinceStep t.2 (a, b)))
      ([], ninf) 0 l.length l.length ?_ ?_ ?_ ?_ ?_) ?_).trans ?_
  · off_step []
  · off_step []
  · omega
  · off_step [lv_nil]
  · intro k _ _ e acc h
    rcases Nat.lt_or_ge k l.length with hkl | hkl <;> rcases Nat.lt_or_ge k r.length with hkr | hkr <;>
      first
      | off_step [h.1, h.2.1, h.2.2.1, h.2.2.2, idx_lt _ _ hkl, idx_lt _ _ hkr, sinceStep]
      | off_step [h.1, h.2.1, h.2.2.1, h.2.2.2, idx_lt _ _ hkl, idx_ge _ _ hkr, sinceStep]
      | off_step [h.1, h.2.1, h.2.2.1, h.2.2.2, idx_ge _ _ hkl, idx_lt _ _ hkr, sinceStep]
      | off_step [h.1, h.2.1, h.2.2.1, h.2.2.2, idx_ge _ _ hkl, idx_ge _ _ hkr, sinceStep]
  · intro e acc h
    off_step [h.1]
  · rw [foldlM_idx2_bind (fun t a b => .ok (t.1 ++ [sinceStep t.2 (a, b)], sinceStep t.2 (a, b)))]
    rw [foldlM_scanG (fun p x => sinceStep p x) (fun p x => sinceStep p x) (fun acc => .ok acc),
      foldlM_scanG (fun p x => sinceStep p x) (fun p x => sinceStep p x) (fun _ => .error .index), scanG_scan2]
    simp

theorem visitUntil_eq (l r : List α) :
    callOn Gen.Off.visitUntil [l, r] none [] =
      if l.length ≤ r.length then .ok (scan2 ninf (l.zip r).reverse).reverse else .error .index := by
  rw [callOn_eq _ _ _ _ _ rfl rfl rfl]
  simp only [Gen.Off.visitUntil]
  off_step []
  refine (simE_bind_eq (R := fun env (t : List α × α) => getKey "sample_return" env.loc = .ok (lv t.1) ∧
      getKey "next_out" env.loc = .ok (.num t.2) ∧
      getKey "sample_left" env.loc = .ok (.list l) ∧ getKey "sample_right" env.loc = .ok (.list r))
    (fun t => .ok t.1.reverse)
    (sim_forDown _ (fun t k => idx l k >>= fun a => idx r k >>= fun b =>
        .ok (t.1 ++ [sinceStep t.2 (a, b)], sinceStep t.2 (a, b)))
      ([], ninf) l.length ?_ ?_ ?_ ?_) ?_).trans ?_
  · off_step []
  · off_step []
  · off_step [lv_nil]
  · intro k _ e acc h
    rcases Nat.lt_or_ge k l.length with hkl | hkl <;> rcases Nat.lt_or_ge k r.length with hkr | hkr <;>
      first
      | off_step [h.1, h.2.1, h.2.2.1, h.2.2.2, idx_lt _ _ hkl, idx_lt _ _ hkr, sinceStep]
      | off_step [h.1, h.2.1, h.2.2.1, h.2.2.2, idx_lt _ _ hkl, idx_ge _ _ hkr, sinceStep]
      | off_step [h.1, h.2.1, h.2.2.1, h.2.2.2, idx_ge _ _ hkl, idx_lt _ _ hkr, sinceStep]
      | off_step [h.1, h.2.1, h.2.2.1, h.2.2.2, idx_ge _ _ hkl, idx_ge _ _ hkr, sinceStep]
  · intro e acc h
    off_step [h.1]
  · rw [foldlM_idx2_rev (fun t a b => .ok (t.1 ++ [sinceStep t.2 (a, b)], sinceStep t.2 (a, b)))]
    split
    · rw [foldlM_scanG (fun p x => sinceStep p x) (fun p x => sinceStep p x) (fun acc => .ok acc.reverse), scanG_scan2]
      simp
    · rfl


/-! ### bounded once / historically -/

/-- `sample = [pad for j in range(end)] + sample;`
    `sample_return = [agg(sample[j-end:j-begin+1]) for j in range(end, len(sample))]` -/
theorem timedPast_eq (name : String) (isMax : Bool) (padE : E) (agg : List α → Except PyErr α) (pad : α)
    (hagg : ∀ l : List α, aggV isMax (.list l) = (agg l).map .num)
    (hpad : ∀ env : Env α, evalE env padE = .ok (.num pad))
    (a b : Nat) (hab : a ≤ b) (s : List α) :
    callOn { name := name, kids := ["sample"], interval := true,
             body := (.seq (.setLoc "sample" (.bin .add (.compRange padE "j" (.int 0) (.loc "end")) (.loc "sample")))
               (.setLoc "sample_return" (.compRange (.agg isMax (.slice (.loc "sample") (.bin .sub (.loc "j") (.loc "end"))
                 (.bin .add (.bin .sub (.loc "j") (.loc "begin")) (.int 1)))) "j" (.loc "end") (.len (.loc "sample"))))),
             ret := (some (.loc "sample_return")) } [s] (some (a, b)) [] = timedPast agg pad a b s := by
  rw [callOn_eq _ _ _ _ _ rfl rfl rfl]
  simp only [exec_seq, exec_setLoc, evalE_bin]
  rw [evalE_compRange_const (b : Int) pad (by off_step []) (by off_step []) (fun k => hpad _)]
  off_step []
  rw [evalE_compRange b ((b + s.length : Nat) : Int)
    (fun j => agg (slice (List.replicate b pad ++ s) (j - b) (j - a + 1)))
    (by off_step []) (by off_step []) ?_]
  · have h1 : ((b + s.length : Nat) - (b : Int)).toNat = s.length := by omega
    have h2 : (List.replicate b pad ++ s).length - b = s.length := by simp
    rw [h1]; unfold timedPast; simp only [h2]
    cases List.mapM (fun j => agg (slice (List.replicate b pad ++ s) (j - b) (j - a + 1))) (List.range' b s.length) <;> rfl
  · intro k hk1 hk2
    off_core [evalBin_sub_int, evalBin_add_int, hagg]
    rw [pySlice_nat _ _ _ (by omega) (by omega)]
    have h1 : ((k : Int) - b).toNat = k - b := by omega
    have h2 : ((k : Int) - a + 1).toNat = k - a + 1 := by omega
    rw [h1, h2]

theorem visitTimedOnce_eq (a b : Nat) (hab : a ≤ b) (s : List α) :
    callOn Gen.Off.visitTimedOnce [s] (some (a, b)) [] = timedPast pymax ninf a b s :=
  timedPast_eq _ true .ninf pymax ninf (fun _ => rfl) (fun _ => rfl) a b hab s

theorem visitTimedHistorically_eq (a b : Nat) (hab : a ≤ b) (s : List α) :
    callOn Gen.Off.visitTimedHistorically [s] (some (a, b)) [] = timedPast pymin pinf a b s :=
  timedPast_eq _ false .pinf pymin pinf (fun _ => rfl) (fun _ => rfl) a b hab s


/-! ### bounded always / eventually -/

def futRest (isMax : Bool) (padE : E) : S :=
  (.seq (.setLoc "diff" (.bin .sub (.loc "end") (.loc "begin"))) (.seq (.setLoc "sample_return" (.compRange (.agg isMax (.slice (.loc "sample") (.loc "j") (.bin .add (.bin .add (.loc "j") (.loc "diff")) (.int 1)))) "j" (.loc "begin") (.bin .add (.loc "end") (.int 1)))) (.seq (.setLoc "tmp" (.compRange (.agg isMax (.slice (.loc "sample") (.loc "j") (.bin .add (.bin .add (.loc "j") (.loc "diff")) (.int 1)))) "j" (.bin .add (.loc "end") (.int 1)) (.len (.loc "sample")))) (.seq (.setLoc "sample_return" (.bin .add (.loc "sample_return") (.loc "tmp"))) (.seq (.setLoc "tmp" (.compRange padE "j" (.int 0) (.bin .sub (.len (.loc "sample")) (.len (.loc "sample_return"))))) (.setLoc "sample_return" (.bin .add (.loc "sample_return") (.loc "tmp"))))))))

theorem futRest_eq (isMax : Bool) (padE : E) (agg : List α → Except PyErr α) (pad : α)
    (hagg : ∀ l : List α, aggV isMax (.list l) = (agg l).map .num)
    (hpad : ∀ env : Env α, evalE env padE = .ok (.num pad))
    (a b : Nat) (hab : a ≤ b) (s : List α) (len0 : Nat) (env : Env α)
    (h1 : getKey "sample" env.loc = .ok (.list s)) (h2 : getKey "begin" env.loc = .ok (.int a))
    (h3 : getKey "end" env.loc = .ok (.int b)) (h4 : getKey "sample_len" env.loc = .ok (.int len0)) :
    (exec (futRest isMax padE) env >>= fun env' =>
        getKey "sample_return" env'.loc >>= fun x => getKey "sample_len" env'.loc >>= fun n =>
          sliceV x (.int 0) n >>= retList)
      = (do
          let r1 ← (List.range' a (b + 1 - a)).mapM (fun j => agg (slice s j (j + (b - a) + 1)))
          let r2 ← (List.range' (b + 1) (s.length - (b + 1))).mapM (fun j => agg (slice s j (j + (b - a) + 1)))
          pure (((r1 ++ r2) ++ List.replicate (s.length - (r1 ++ r2).length) pad).take len0)) := by
  simp only [futRest, exec_seq, exec_setLoc]
  off_step [h1, h2, h3, h4]
  rw [evalE_compRange a ((b : Int) + 1) (fun j => agg (slice s j (j + (b - a) + 1)))
    (by off_step [h2]) (by off_step [h3]) ?_]
  · have hc : ((b : Int) + 1 - a).toNat = b + 1 - a := by omega
    rw [hc]
    cases (List.range' a (b + 1 - a)).mapM (fun j => agg (slice s j (j + (b - a) + 1))) with
    | error e => rfl
    | ok r1 =>
      off_step [h1, h2, h3, h4]
      rw [evalE_compRange (b + 1) (s.length : Int) (fun j => agg (slice s j (j + (b - a) + 1)))
        (by off_step [h3]) (by off_step [h1]) ?_]
      · have hc2 : ((s.length : Int) - ((b + 1 : Nat) : Int)).toNat = s.length - (b + 1) := by omega
        rw [hc2]
        cases (List.range' (b + 1) (s.length - (b + 1))).mapM (fun j => agg (slice s j (j + (b - a) + 1))) with
        | error e => rfl
        | ok r2 =>
          off_step [h1, h2, h3, h4]
          rw [evalE_compRange_const ((s.length : Int) - ((r1 ++ r2).length : Nat)) pad (by off_step [])
            (by off_step [h1]) (fun k => hpad _)]
          off_step [pySlice_take]
          have hc3 : ((s.length : Int) - ((r1.length : Int) + (r2.length : Int))).toNat
              = s.length - (r1.length + r2.length) := by omega
          rw [hc3]
      · intro k hk1 hk2
        off_core [h1, evalBin_add_int, hagg]
        rw [pySlice_nat _ _ _ (by omega) (by omega)]
        have e1 : ((k : Int)).toNat = k := by omega
        have e2 : ((k : Int) + ((b : Int) - a) + 1).toNat = k + (b - a) + 1 := by omega
        rw [e1, e2]
  · intro k hk1 hk2
    off_core [h1, evalBin_add_int, hagg]
    rw [pySlice_nat _ _ _ (by omega) (by omega)]
    have e1 : ((k : Int)).toNat = k := by omega
    have e2 : ((k : Int) + ((b : Int) - a) + 1).toNat = k + (b - a) + 1 := by omega
    rw [e1, e2]

theorem timedFuture_eq (name : String) (isMax : Bool) (padE : E) (agg : List α → Except PyErr α) (pad : α)
    (hagg : ∀ l : List α, aggV isMax (.list l) = (agg l).map .num)
    (hpad : ∀ env : Env α, evalE env padE = .ok (.num pad))
    (a b : Nat) (hab : a ≤ b) (s : List α) :
    callOn { name := name, kids := ["sample"], interval := true,
             body := (.seq (.setLoc "sample_len" (.len (.loc "sample")))
               (.seq (.ite (.bin .le (.loc "sample_len") (.loc "end"))
                  (.setLoc "sample" (.bin .add (.loc "sample") (.rep padE (.bin .add (.bin .sub (.loc "end") (.loc "sample_len")) (.int 1)))))
                  .skip)
                (futRest isMax padE))),
             ret := (some (.slice (.loc "sample_return") (.int 0) (.loc "sample_len"))) } [s] (some (a, b)) []
      = timedFuture agg pad a b s := by
  rw [callOn_eq _ _ _ _ _ rfl rfl rfl]
  by_cases hle : s.length ≤ b
  · off_step [hle, hpad]
    refine (futRest_eq isMax padE agg pad hagg hpad a b hab
      (s ++ List.replicate ((b : Int) - s.length + 1).toNat pad) s.length _ ?_ ?_ ?_ ?_).trans ?_
    · off_step []
    · off_step []
    · off_step []
    · off_step []
    have hc : ((b : Int) - s.length + 1).toNat = b - s.length + 1 := by omega
    simp only [timedFuture, hle, if_true, hc]
  · off_step [hle, hpad]
    refine (futRest_eq isMax padE agg pad hagg hpad a b hab s s.length _ ?_ ?_ ?_ ?_).trans ?_
    · off_step []
    · off_step []
    · off_step []
    · off_step []
    simp only [timedFuture, hle, if_false]

theorem visitTimedEventually_eq (a b : Nat) (hab : a ≤ b) (s : List α) :
    callOn Gen.Off.visitTimedEventually [s] (some (a, b)) [] = timedFuture pymax ninf a b s :=
  timedFuture_eq _ true .ninf pymax ninf (fun _ => rfl) (fun _ => rfl) a b hab s

theorem visitTimedAlways_eq (a b : Nat) (hab : a ≤ b) (s : List α) :
    callOn Gen.Off.visitTimedAlways [s] (some (a, b)) [] = timedFuture pymin pinf a b s :=
  timedFuture_eq _ false .pinf pymin pinf (fun _ => rfl) (fun _ => rfl) a b hab s


/-! ### bounded since / until -/

/-- `for k in range(j+1, end+1): c_left = min(c_left, buffer_left[k])` and the statements around it. -/
def tsJBody : S :=
  (.seq (.setLoc "c_left" .pinf) (.seq (.setLoc "c_right" (.idx (.loc "buffer_right") (.loc "j"))) (.seq (.for_ "k" (.bin .add (.loc "j") (.int 1)) (.bin .add (.loc "end") (.int 1)) (.setLoc "c_left" (.bin .min (.loc "c_left") (.idx (.loc "buffer_left") (.loc "k"))))) (.setLoc "out_sample" (.bin .max (.loc "out_sample") (.bin .min (.loc "c_left") (.loc "c_right")))))))

/-- The body of the main loop of `visitTimedSince` / `visitTimedUntil`. -/
def tsBody : S :=
  (.seq (.appendLoc "buffer_left" (.idx (.loc "sample_left") (.loc "i"))) (.seq (.appendLoc "buffer_right" (.idx (.loc "sample_right") (.loc "i"))) (.seq (.setLoc "out_sample" .ninf) (.seq (.for_ "j" (.int 0) (.bin .add (.bin .sub (.loc "end") (.loc "begin")) (.int 1)) tsJBody) (.appendLoc "sample_return" (.loc "out_sample"))))))

/-- The locals of the two methods that the inner loops only read. -/
def FrameTS (l r : List α) (a b : Nat) (bl br acc : List α) (env : Env α) : Prop :=
  getKey "sample_left" env.loc = .ok (.list l) ∧ getKey "sample_right" env.loc = .ok (.list r) ∧
  getKey "begin" env.loc = .ok (.int a) ∧ getKey "end" env.loc = .ok (.int b) ∧
  getKey "buffer_left" env.loc = .ok (.deque (b + 1) bl) ∧ getKey "buffer_right" env.loc = .ok (.deque (b + 1) br) ∧
  getKey "sample_return" env.loc = .ok (lv acc)

/-- The double loop over the two buffers is `sinceWin`. -/
theorem tsWin_sim (l r : List α) (a b : Nat) (hab : a ≤ b) (bl br acc : List α) (env : Env α)
    (hF : FrameTS l r a b bl br acc env) (hout : getKey "out_sample" env.loc = .ok (.num ninf)) :
    simE (fun env' o => FrameTS l r a b bl br acc env' ∧ getKey "out_sample" env'.loc = .ok (.num o))
      (exec (.for_ "j" (.int 0) (.bin .add (.bin .sub (.loc "end") (.loc "begin")) (.int 1)) tsJBody) env)
      (sinceWin a b bl br) := by
  obtain ⟨f1, f2, f3, f4, f5, f6, f7⟩ := hF
  unfold sinceWin
  rw [List.range_eq_range']
  have hsim := sim_for
    (R := fun _ env' o => FrameTS l r a b bl br acc env' ∧ getKey "out_sample" env'.loc = .ok (.num o))
    (g := fun out j => do
      let cr ← idx br j
      let cl ← (List.range' (j + 1) (b - j)).foldlM (fun c k => do let x ← idx bl k; pure (pmin c x)) pinf
      pure (pmax out (pmin cl cr)))
    (t := ninf) (a := 0) (n := b - a + 1) (hb := (b : Int) - a + 1) (i := "j") (lo := .int 0)
    (hi := (.bin .add (.bin .sub (.loc "end") (.loc "begin")) (.int 1))) (body := tsJBody) (env := env)
    (by off_step []) (by off_step [f3, f4]) (by omega) ⟨⟨f1, f2, f3, f4, f5, f6, f7⟩, hout⟩ ?_
  · exact hsim
  · intro j _ hj s out ⟨⟨g1, g2, g3, g4, g5, g6, g7⟩, gout⟩
    simp only [tsJBody]
    cases hcr : idx br j with
    | error e => off_step [g6, hcr]
    | ok cr =>
      off_step [g6, hcr]
      refine simE_bind (sim_for
        (R := fun _ env' c => FrameTS l r a b bl br acc env' ∧ getKey "out_sample" env'.loc = .ok (.num out) ∧
          getKey "c_right" env'.loc = .ok (.num cr) ∧ getKey "c_left" env'.loc = .ok (.num c))
        (g := fun c k => do let x ← idx bl k; pure (pmin c x))
        (t := pinf) (a := j + 1) (n := b - j) (hb := (b : Int) + 1) ?_ ?_ ?_ ?_ ?_) ?_
      · off_step []
      · off_step [g4]
      · omega
      · off_step [FrameTS, g1, g2, g3, g4, g5, g6, g7, gout]
      · intro k _ _ s1 c ⟨⟨k1, k2, k3, k4, k5, k6, k7⟩, kout, kcr, kc⟩
        cases hx : idx bl k with
        | error e => off_step [k5, kc, hx]
        | ok x => off_step [FrameTS, k1, k2, k3, k4, k5, k6, k7, kout, kcr, kc, hx]
      · intro s1 c ⟨⟨k1, k2, k3, k4, k5, k6, k7⟩, kout, kcr, kc⟩
        off_step [FrameTS, k1, k2, k3, k4, k5, k6, k7, kout, kcr, kc]

/-- The mirror of one iteration of the main loop. -/
def tsStep (a b : Nat) (t : List α × List α × List α) (x y : α) : Except PyErr (List α × List α × List α) :=
  sinceWin a b (dqPush t.2.1 x) (dqPush t.2.2 y) >>= fun o => .ok (t.1 ++ [o], dqPush t.2.1 x, dqPush t.2.2 y)

def RelTS (l r : List α) (a b : Nat) (env : Env α) (t : List α × List α × List α) : Prop :=
  FrameTS l r a b t.2.1 t.2.2 t.1 env ∧ t.2.1.length = b + 1 ∧ t.2.2.length = b + 1

theorem tsBody_sim (l r : List α) (a b : Nat) (hab : a ≤ b) (k : Nat) (s : Env α)
    (t : List α × List α × List α) (h : RelTS l r a b s t) :
    simE (RelTS l r a b) (exec tsBody { s with loc := setKey "i" (.int (k : Nat)) s.loc })
      (idx l k >>= fun x => idx r k >>= fun y => tsStep a b t x y) := by
  obtain ⟨acc, bl, br⟩ := t
  obtain ⟨⟨f1, f2, f3, f4, f5, f6, f7⟩, hbl, hbr⟩ := h
  simp only at f1 f2 f3 f4 f5 f6 f7 hbl hbr
  simp only [tsBody]
  cases hx : idx l k with
  | error e => off_step [f1, hx]
  | ok x =>
    cases hy : idx r k with
    | error e => off_step [f1, f2, f5, hx, hy]
    | ok y =>
      off_step [f1, f2, f5, f6, hx, hy, dqAppend_full _ _ _ hbl, dqAppend_full _ _ _ hbr, tsStep]
      refine simE_bind (tsWin_sim l r a b hab (dqPush bl x) (dqPush br y) acc _ ?_ ?_) ?_
      · off_step [FrameTS, f1, f2, f3, f4, f5, f6, f7]
      · off_step []
      · intro s1 o ⟨⟨g1, g2, g3, g4, g5, g6, g7⟩, gout⟩
        off_step [RelTS, FrameTS, g1, g2, g3, g4, g5, g6, g7, gout, dqPush_length, hbl, hbr]

/-- `for i in range(end+1): buffer_left.append(inf); buffer_right.append(-inf)`. -/
theorem tsFill_sim (l r : List α) (a b : Nat) (env : Env α)
    (hF : FrameTS l r a b [] [] [] env) :
    simE (fun env' (_ : Unit) => RelTS l r a b env' ([], List.replicate (b + 1) pinf, List.replicate (b + 1) ninf))
      (exec (.for_ "i" (.int 0) (.bin .add (.loc "end") (.int 1)) (.seq (.setLoc "s_left" .pinf) (.seq (.setLoc "s_right" .ninf) (.seq (.appendLoc "buffer_left" (.loc "s_left")) (.appendLoc "buffer_right" (.loc "s_right")))))) env)
      (.ok ()) := by
  obtain ⟨f1, f2, f3, f4, f5, f6, f7⟩ := hF
  have hsim := sim_for
    (R := fun k env' (_ : Unit) => FrameTS l r a b (List.replicate k pinf) (List.replicate k ninf) [] env')
    (g := fun _ _ => .ok ()) (t := ()) (a := 0) (n := b + 1) (hb := (b : Int) + 1) (i := "i") (lo := .int 0)
    (hi := (.bin .add (.loc "end") (.int 1)))
    (body := (.seq (.setLoc "s_left" .pinf) (.seq (.setLoc "s_right" .ninf) (.seq (.appendLoc "buffer_left" (.loc "s_left")) (.appendLoc "buffer_right" (.loc "s_right"))))))
    (env := env)
    (by off_step []) (by off_step [f4]) (by omega) (by simpa [FrameTS] using ⟨f1, f2, f3, f4, f5, f6, f7⟩) ?_
  · have hfold : (List.range' 0 (b + 1)).foldlM (fun (_ : Unit) (_ : Nat) => (Except.ok () : Except PyErr Unit)) () = .ok () := by
      generalize List.range' 0 (b + 1) = xs
      induction xs with
      | nil => rfl
      | cons x xs ih => simpa [List.foldlM_cons, ok_bind] using ih
    rw [hfold] at hsim
    refine simE_mono hsim (fun e _ he => ?_)
    simp only [Nat.zero_add] at he
    exact ⟨he, by simp, by simp⟩
  · intro k _ hk s _ ⟨g1, g2, g3, g4, g5, g6, g7⟩
    have hk' : k < b + 1 := by omega
    off_step [FrameTS, g1, g2, g3, g4, g5, g6, g7, dqAppend_replicate _ _ _ hk']

/-- The mirror's `sinceLoop` as a fold. -/
theorem sinceLoop_eq_fold {ρ : Type} (a b : Nat) (z : List (α × α)) (acc bl br : List α)
    (k : List α → Except PyErr ρ) :
    (z.foldlM (fun t p => tsStep a b t p.1 p.2) (acc, bl, br) >>= fun t => k t.1)
      = (sinceLoop a b bl br z >>= fun os => k (acc ++ os)) := by
  induction z generalizing acc bl br with
  | nil => simp [sinceLoop, pure, Except.pure, ok_bind]
  | cons p ps ih =>
    obtain ⟨x, y⟩ := p
    simp only [List.foldlM_cons, sinceLoop, tsStep, bind_assoc]
    cases sinceWin a b (dqPush bl x) (dqPush br y) with
    | error e => rfl
    | ok o =>
      simp only [ok_bind]
      have := ih (acc ++ [o]) (dqPush bl x) (dqPush br y)
      simp only [tsStep] at this
      rw [this]
      cases sinceLoop a b (dqPush bl x) (dqPush br y) ps <;> simp [ok_bind, error_bind, pure, Except.pure]

theorem foldlM_ok {σ β : Type} (f : σ → β → Except PyErr σ) (xs : List β)
    (h : ∀ x ∈ xs, ∀ t, ∃ t', f t x = .ok t') : ∀ t, ∃ t', xs.foldlM f t = .ok t' := by
  induction xs with
  | nil => intro t; exact ⟨t, rfl⟩
  | cons x xs ih =>
    intro t
    obtain ⟨t1, h1⟩ := h x (by simp) t
    obtain ⟨t2, h2⟩ := ih (fun y hy => h y (by simp [hy])) t1
    exact ⟨t2, by simp [List.foldlM_cons, h1, ok_bind, h2]⟩

/-- On full buffers the window computation does not raise. -/
theorem sinceWin_ok (a b : Nat) (bl br : List α) (hbl : bl.length = b + 1) (hbr : br.length = b + 1) :
    ∃ o, sinceWin a b bl br = .ok o := by
  unfold sinceWin
  apply foldlM_ok
  intro j hj out
  have hj' : j < b - a + 1 := by simpa using hj
  rw [idx_lt br j (by omega)]
  obtain ⟨cl, hcl⟩ := foldlM_ok (fun c k => do let x ← idx bl k; pure (pmin c x)) (List.range' (j + 1) (b - j))
    (fun k hk c => by
      have := List.mem_range'_1.mp hk
      rw [idx_lt bl k (by omega)]
      exact ⟨_, rfl⟩) pinf
  exact ⟨_, by simp only [ok_bind, hcl]; rfl⟩

theorem sinceLoop_ok (a b : Nat) (z : List (α × α)) (bl br : List α)
    (hbl : bl.length = b + 1) (hbr : br.length = b + 1) : ∃ os, sinceLoop a b bl br z = .ok os := by
  induction z generalizing bl br with
  | nil => exact ⟨[], rfl⟩
  | cons p ps ih =>
    obtain ⟨x, y⟩ := p
    obtain ⟨o, ho⟩ := sinceWin_ok a b (dqPush bl x) (dqPush br y) (by simp [dqPush_length, hbl])
      (by simp [dqPush_length, hbr])
    obtain ⟨os, hos⟩ := ih (dqPush bl x) (dqPush br y) (by simp [dqPush_length, hbl]) (by simp [dqPush_length, hbr])
    exact ⟨o :: os, by simp [sinceLoop, ho, hos, ok_bind, pure, Except.pure]⟩

def tsFill : S :=
  (.for_ "i" (.int 0) (.bin .add (.loc "end") (.int 1)) (.seq (.setLoc "s_left" .pinf) (.seq (.setLoc "s_right" .ninf) (.seq (.appendLoc "buffer_left" (.loc "s_left")) (.appendLoc "buffer_right" (.loc "s_right"))))))

theorem timedSince_eq (name : String) (a b : Nat) (hab : a ≤ b) (l r : List α) :
    callOn { name := name, kids := ["sample_left", "sample_right"], interval := true,
             body := (.seq (.setLoc "sample_return" .emptyList) (.seq (.setLoc "buffer_left" (.newDeque (.bin .add (.loc "end") (.int 1)))) (.seq (.setLoc "buffer_right" (.newDeque (.bin .add (.loc "end") (.int 1)))) (.seq tsFill (.for_ "i" (.int 0) (.len (.loc "sample_left")) tsBody))))),
             ret := (some (.loc "sample_return")) } [l, r] (some (a, b)) []
      = if l.length ≤ r.length then
          sinceLoop a b (List.replicate (b + 1) pinf) (List.replicate (b + 1) ninf) (l.zip r)
        else .error .index := by
  rw [callOn_eq _ _ _ _ _ rfl rfl rfl]
  off_step []
  generalize hM : (if l.length ≤ r.length then _ else _ : Except PyErr (List α)) = M
  refine (simE_bind_eq (fun _ => M) (tsFill_sim l r a b _ ?_) ?_).trans rfl
  · off_step [FrameTS, lv_nil]
  · intro env1 _ h1
    have ⟨⟨f1, f2, f3, f4, f5, f6, f7⟩, _, _⟩ := h1
    refine (simE_bind_eq (R := RelTS l r a b) (fun t => .ok t.1)
      (sim_for (fun _ => _) (fun t k => idx l k >>= fun x => idx r k >>= fun y => tsStep a b t x y)
        ([], List.replicate (b + 1) pinf, List.replicate (b + 1) ninf) 0 l.length l.length ?_ ?_ ?_ h1 ?_) ?_).trans ?_
    · off_step []
    · off_step [f1]
    · omega
    · intro k _ _ s t h
      exact tsBody_sim l r a b hab k s t h
    · intro e t h
      off_step [h.1.2.2.2.2.2.2]
    · rw [foldlM_idx2_bind (tsStep a b)]
      rw [sinceLoop_eq_fold a b _ _ _ _ (fun acc => .ok acc), sinceLoop_eq_fold a b _ _ _ _ (fun _ => .error .index)]
      obtain ⟨os, hos⟩ := sinceLoop_ok a b (l.zip r) (List.replicate (b + 1) (pinf : α)) (List.replicate (b + 1) ninf)
        (by simp) (by simp)
      rw [← hM, hos]
      simp [ok_bind]

theorem timedUntil_eq (name : String) (a b : Nat) (hab : a ≤ b) (l r : List α) :
    callOn { name := name, kids := ["sample_left", "sample_right"], interval := true,
             body := (.seq (.setLoc "sample_return" .emptyList) (.seq (.setLoc "buffer_left" (.newDeque (.bin .add (.loc "end") (.int 1)))) (.seq (.setLoc "buffer_right" (.newDeque (.bin .add (.loc "end") (.int 1)))) (.seq tsFill (.seq (.forDown "i" (.bin .sub (.len (.loc "sample_left")) (.int 1)) (.un .neg (.int 1)) tsBody) (.reverseLoc "sample_return")))))),
             ret := (some (.loc "sample_return")) } [l, r] (some (a, b)) []
      = if l.length ≤ r.length then
          (sinceLoop a b (List.replicate (b + 1) pinf) (List.replicate (b + 1) ninf) (l.zip r).reverse >>= fun o =>
            pure o.reverse)
        else .error .index := by
  rw [callOn_eq _ _ _ _ _ rfl rfl rfl]
  off_step []
  generalize hM : (if l.length ≤ r.length then _ else _ : Except PyErr (List α)) = M
  refine (simE_bind_eq (fun _ => M) (tsFill_sim l r a b _ ?_) ?_).trans rfl
  · off_step [FrameTS, lv_nil]
  · intro env1 _ h1
    have ⟨⟨f1, f2, f3, f4, f5, f6, f7⟩, _, _⟩ := h1
    refine (simE_bind_eq (R := RelTS l r a b) (fun t => .ok t.1.reverse)
      (sim_forDown _ (fun t k => idx l k >>= fun x => idx r k >>= fun y => tsStep a b t x y)
        ([], List.replicate (b + 1) pinf, List.replicate (b + 1) ninf) l.length ?_ ?_ h1 ?_) ?_).trans ?_
    · off_step [f1]
    · off_step []
    · intro k _ s t h
      exact tsBody_sim l r a b hab k s t h
    · intro e t h
      off_step [h.1.2.2.2.2.2.2]
    · rw [foldlM_idx2_rev (tsStep a b), ← hM]
      split
      · rw [sinceLoop_eq_fold a b _ _ _ _ (fun acc => .ok acc.reverse)]
        simp
      · rfl

theorem visitTimedSince_eq (a b : Nat) (hab : a ≤ b) (l r : List α) :
    callOn Gen.Off.visitTimedSince [l, r] (some (a, b)) []
      = if l.length ≤ r.length then
          sinceLoop a b (List.replicate (b + 1) pinf) (List.replicate (b + 1) ninf) (l.zip r)
        else .error .index :=
  timedSince_eq _ a b hab l r

theorem visitTimedUntil_eq (a b : Nat) (hab : a ≤ b) (l r : List α) :
    callOn Gen.Off.visitTimedUntil [l, r] (some (a, b)) []
      = if l.length ≤ r.length then
          (sinceLoop a b (List.replicate (b + 1) pinf) (List.replicate (b + 1) ninf) (l.zip r).reverse >>= fun o =>
            pure o.reverse)
        else .error .index :=
  timedUntil_eq _ a b hab l r


end Rtamt.Py
