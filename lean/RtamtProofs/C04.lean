/-
  C04 — Dense-time offline robustness equals the dense-time STL semantics.

  The executable M-spec `rhoD` (Rtamt/Dense/Ref.lean, what the driver runs and what the real
  dense-time offline monitor is compared with on every run) is shown here to *be* the
  supremum / infimum semantics over closed windows: for step-function inputs every clause of
  the dense-time robustness definition holds with `IsLUB` / `IsGLB` over the (infinite) set of
  time points of the window — finitary interpretation: last value held, windows clipped to the
  domain `[dom, ∞)`, closed intervals, non-strict until/since with the left operand required on
  the closed interval up to the witness.
-/
import RtamtProofs.Dense.Step

namespace Rtamt.Dense
open Rtamt Val

variable {α : Type} [Val α] [LawfulVal α]

/-- Values of `g` on the closed window `[lo, hi]`. -/
def valuesOn (g : Rat → Option α) (lo hi : Rat) : Set α := {y | ∃ t, lo ≤ t ∧ t ≤ hi ∧ g t = some y}
/-- Values of `g` on `[lo, ∞)`. -/
def valuesFrom (g : Rat → Option α) (lo : Rat) : Set α := {y | ∃ t, lo ≤ t ∧ g t = some y}


/-! ### helper lemmas -/

omit [Val α] [LawfulVal α] in
theorem valuesOn_eq_winSet (g : Rat → Option α) (lo hi : Rat) :
    valuesOn g lo hi = winSet g lo (some hi) := rfl

omit [Val α] [LawfulVal α] in
theorem valuesFrom_eq_winSet (g : Rat → Option α) (lo : Rat) :
    valuesFrom g lo = winSet g lo none := (winSet_none_eq g lo).symm

/-- the inner function of `until` at a witness `s ≥ t`, declaratively -/
theorem untilInner_some_iff {g1 : Rat → Option α} (g2 : Rat → Option α) {B1 : List Rat} {d1 : Rat}
    (h1 : StepOn g1 B1 d1 none) {t s : Rat} (hd : d1 ≤ t) (hts : t ≤ s) (y : α) :
    untilInner g1 g2 B1 t s = some y ↔
      ∃ l r, g2 s = some r ∧ IsGLB (valuesOn g1 t s) l ∧ y = min l r := by
  obtain ⟨v, hv, hglb⟩ := foldWin_min_spec (h1.restrict hd (some s)) (hts : leHi t (some s))
  constructor
  · intro h
    cases hr : g2 s with
    | none => simp [untilInner, hr] at h
    | some r =>
      simp only [untilInner, hr, hv] at h
      refine ⟨v, r, rfl, hglb, ?_⟩
      have h' : some (pmin v r) = some y := h
      rw [← pmin_eq]; exact (Option.some.inj h').symm
  · rintro ⟨l, r, hr, hl, rfl⟩
    have e : v = l := IsGLB.unique hglb hl
    subst e
    simp only [untilInner, hr, hv]
    show some (pmin v r) = _
    rw [pmin_eq]

/-- the inner function of `since` at a witness `s ≤ t`, declaratively -/
theorem sinceInner_some_iff {g1 : Rat → Option α} (g2 : Rat → Option α) {B1 : List Rat} {d1 : Rat}
    (h1 : StepOn g1 B1 d1 none) {t s : Rat} (hd : d1 ≤ s) (hst : s ≤ t) (y : α) :
    sinceInner g1 g2 B1 t s = some y ↔
      ∃ l r, g2 s = some r ∧ IsGLB (valuesOn g1 s t) l ∧ y = min l r := by
  obtain ⟨v, hv, hglb⟩ := foldWin_min_spec (h1.restrict hd (some t)) (hst : leHi s (some t))
  constructor
  · intro h
    cases hr : g2 s with
    | none => simp [sinceInner, hr] at h
    | some r =>
      simp only [sinceInner, hr, hv] at h
      refine ⟨v, r, rfl, hglb, ?_⟩
      have h' : some (pmin v r) = some y := h
      rw [← pmin_eq]; exact (Option.some.inj h').symm
  · rintro ⟨l, r, hr, hl, rfl⟩
    have e : v = l := IsGLB.unique hglb hl
    subst e
    simp only [sinceInner, hr, hv]
    show some (pmin v r) = _
    rw [pmin_eq]

variable (cfg : DCfg) (hs : 0 ≤ cfg.scale) (w : DEnv α)

omit [LawfulVal α] in
/-- Point-wise operators. -/
theorem C04_pointwise (op : Un) (op2 : Bin) (φ ψ : F α) (t : Rat) :
    rhoD cfg w (.un op φ) t = (rhoD cfg w φ t).map op.app ∧
    rhoD cfg w (.bin op2 φ ψ) t =
      (match rhoD cfg w φ t, rhoD cfg w ψ t with | some l, some r => some (op2.app l r) | _, _ => none) := by
  refine ⟨by simp only [rhoD], ?_⟩
  simp only [rhoD]
  cases rhoD cfg w φ t <;> cases rhoD cfg w ψ t <;> rfl

include hs in
/-- `once[a,b] φ` at `t`: `-inf` while the window `[t-b, t-a]` lies entirely before the domain,
    otherwise the supremum of `φ` over `[max(t-b, dom), t-a]`; dually `historically[a,b]`. -/
theorem C04_once_bounded (a b : Nat) (hab : a ≤ b) (φ : F α) (hsup : supported φ = true)
    (hw : w.WF φ.vars) (t : Rat) (ht : dom w φ ≤ t) :
    (t - a * cfg.scale < dom w φ → rhoD cfg w (.tb1 .once a b φ) t = some ninf ∧
        rhoD cfg w (.tb1 .hist a b φ) t = some pinf) ∧
    (dom w φ ≤ t - a * cfg.scale →
      (∃ v, rhoD cfg w (.tb1 .once a b φ) t = some v ∧
        IsLUB (valuesOn (rhoD cfg w φ) (max (t - b * cfg.scale) (dom w φ)) (t - a * cfg.scale)) v) ∧
      (∃ v, rhoD cfg w (.tb1 .hist a b φ) t = some v ∧
        IsGLB (valuesOn (rhoD cfg w φ) (max (t - b * cfg.scale) (dom w φ)) (t - a * cfg.scale)) v)) := by
  have hg := rhoD_stepOn cfg hs w φ hsup hw
  obtain ⟨ha', hab'⟩ := scale_bounds cfg hs hab
  have hnt : ¬ t < dom w φ := not_lt.2 ht
  refine ⟨fun h => ?_, fun h => ?_⟩
  · simp only [rhoD, if_neg hnt, if_pos h]
    exact ⟨trivial, trivial⟩
  · have hn : ¬ t - a * cfg.scale < dom w φ := not_lt.2 h
    simp only [rhoD, if_neg hnt, if_neg hn]
    have hS := hg.restrict (le_max_right (t - b * cfg.scale) (dom w φ)) (some (t - a * cfg.scale))
    have hne : max (t - b * cfg.scale) (dom w φ) ≤ t - a * cfg.scale := max_le (by linarith) h
    exact ⟨foldWin_max_spec hS hne, foldWin_min_spec hS hne⟩

include hs in
/-- `eventually[a,b] φ` / `always[a,b] φ` at `t`: supremum / infimum over `[t+a, t+b]`. -/
theorem C04_eventually_bounded (a b : Nat) (hab : a ≤ b) (φ : F α) (hsup : supported φ = true)
    (hw : w.WF φ.vars) (t : Rat) (ht : dom w φ ≤ t) :
    (∃ v, rhoD cfg w (.tb1 .ev a b φ) t = some v ∧
        IsLUB (valuesOn (rhoD cfg w φ) (t + a * cfg.scale) (t + b * cfg.scale)) v) ∧
    (∃ v, rhoD cfg w (.tb1 .alw a b φ) t = some v ∧
        IsGLB (valuesOn (rhoD cfg w φ) (t + a * cfg.scale) (t + b * cfg.scale)) v) := by
  have hg := rhoD_stepOn cfg hs w φ hsup hw
  obtain ⟨ha', hab'⟩ := scale_bounds cfg hs hab
  have hnt : ¬ t < dom w φ := not_lt.2 ht
  simp only [rhoD, if_neg hnt]
  have hS := hg.restrict (by linarith : dom w φ ≤ t + a * cfg.scale) (some (t + b * cfg.scale))
  have hne : t + a * cfg.scale ≤ t + b * cfg.scale := by linarith
  exact ⟨foldWin_max_spec hS hne, foldWin_min_spec hS hne⟩

include hs in
/-- Unbounded `once` / `historically` (window `[dom, t]`) and `eventually` / `always` (`[t, ∞)`). -/
theorem C04_unbounded (φ : F α) (hsup : supported φ = true) (hw : w.WF φ.vars) (t : Rat)
    (ht : dom w φ ≤ t) :
    (∃ v, rhoD cfg w (.tmp1 .once φ) t = some v ∧ IsLUB (valuesOn (rhoD cfg w φ) (dom w φ) t) v) ∧
    (∃ v, rhoD cfg w (.tmp1 .hist φ) t = some v ∧ IsGLB (valuesOn (rhoD cfg w φ) (dom w φ) t) v) ∧
    (∃ v, rhoD cfg w (.tmp1 .ev φ) t = some v ∧ IsLUB (valuesFrom (rhoD cfg w φ) t) v) ∧
    (∃ v, rhoD cfg w (.tmp1 .alw φ) t = some v ∧ IsGLB (valuesFrom (rhoD cfg w φ) t) v) := by
  have hg := rhoD_stepOn cfg hs w φ hsup hw
  have hnt : ¬ t < dom w φ := not_lt.2 ht
  simp only [rhoD, if_neg hnt, valuesFrom_eq_winSet]
  have hS := hg.restrict le_rfl (some t)
  exact ⟨foldWin_max_spec hS ht, foldWin_min_spec hS ht,
    foldWin_max_spec (hg.mono_lo ht) trivial, foldWin_min_spec (hg.mono_lo ht) trivial⟩

include hs in
/-- `φ until ψ` at `t`: supremum over witnesses `t' ≥ t` of `min(ψ(t'), inf_{[t,t']} φ)`;
    `φ since ψ`: supremum over `t' ∈ [dom, t]` of `min(ψ(t'), inf_{[t',t]} φ)`. -/
theorem C04_until_since (φ ψ : F α) (hsφ : supported φ = true) (hsψ : supported ψ = true)
    (hw : w.WF (φ.vars ++ ψ.vars)) (t : Rat) (ht : max (dom w φ) (dom w ψ) ≤ t) :
    (∃ v, rhoD cfg w (.tmp2 .until φ ψ) t = some v ∧
      IsLUB {y | ∃ t' l r, t ≤ t' ∧ rhoD cfg w ψ t' = some r ∧
                  IsGLB (valuesOn (rhoD cfg w φ) t t') l ∧ y = min l r} v) ∧
    (∃ v, rhoD cfg w (.tmp2 .since φ ψ) t = some v ∧
      IsLUB {y | ∃ t' l r, max (dom w φ) (dom w ψ) ≤ t' ∧ t' ≤ t ∧ rhoD cfg w ψ t' = some r ∧
                  IsGLB (valuesOn (rhoD cfg w φ) t' t) l ∧ y = min l r} v) := by
  have hwφ : w.WF φ.vars := fun x hx => hw x (List.mem_append_left _ hx)
  have hwψ : w.WF ψ.vars := fun x hx => hw x (List.mem_append_right _ hx)
  have h1 := rhoD_stepOn cfg hs w φ hsφ hwφ
  have h2 := rhoD_stepOn cfg hs w ψ hsψ hwψ
  have hnt : ¬ t < max (dom w φ) (dom w ψ) := not_lt.2 ht
  have hdφ : dom w φ ≤ t := le_trans (le_max_left _ _) ht
  constructor
  · have e : rhoD cfg w (.tmp2 .until φ ψ) t = foldWin pmax ninf
        (untilInner (rhoD cfg w φ) (rhoD cfg w ψ) (bps cfg w φ) t)
        (bps cfg w φ ++ bps cfg w ψ) t none := by
      simp only [rhoD, if_neg hnt]; rfl
    rw [e]
    obtain ⟨v, hv, hl⟩ := foldWin_max_spec (untilInner_stepOn h1 h2 ht) trivial
    refine ⟨v, hv, ?_⟩
    convert hl using 1
    ext y
    constructor
    · rintro ⟨t', l, r, k1, k2, k3, k4⟩
      exact ⟨t', k1, trivial, (untilInner_some_iff _ h1 hdφ k1 y).2 ⟨l, r, k2, k3, k4⟩⟩
    · rintro ⟨t', k1, _, k3⟩
      obtain ⟨l, r, k2, k3, k4⟩ := (untilInner_some_iff _ h1 hdφ k1 y).1 k3
      exact ⟨t', l, r, k1, k2, k3, k4⟩
  · have e : rhoD cfg w (.tmp2 .since φ ψ) t = foldWin pmax ninf
        (sinceInner (rhoD cfg w φ) (rhoD cfg w ψ) (bps cfg w φ) t)
        (bps cfg w φ ++ bps cfg w ψ) (max (dom w φ) (dom w ψ)) (some t) := by
      simp only [rhoD, if_neg hnt]; rfl
    rw [e]
    obtain ⟨v, hv, hl⟩ := foldWin_max_spec (sinceInner_stepOn h1 h2 t) ht
    refine ⟨v, hv, ?_⟩
    convert hl using 1
    ext y
    constructor
    · rintro ⟨t', l, r, k0, k1, k2, k3, k4⟩
      exact ⟨t', k0, k1, (sinceInner_some_iff _ h1 (le_trans (le_max_left _ _) k0) k1 y).2
        ⟨l, r, k2, k3, k4⟩⟩
    · rintro ⟨t', k0, k1, k3⟩
      have k1' : t' ≤ t := k1
      obtain ⟨l, r, k2, k3, k4⟩ :=
        (sinceInner_some_iff _ h1 (le_trans (le_max_left _ _) k0) k1' y).1 k3
      exact ⟨t', l, r, k0, k1', k2, k3, k4⟩

include hs in
/-- Bounded `until[a,b]` / `since[a,b]`: the witness ranges over `[t+a, t+b]`, resp.
    `[max(t-b, dom), t-a]` (`-inf` while that window lies before the domain). -/
theorem C04_until_since_bounded (a b : Nat) (hab : a ≤ b) (φ ψ : F α) (hsφ : supported φ = true)
    (hsψ : supported ψ = true) (hw : w.WF (φ.vars ++ ψ.vars)) (t : Rat)
    (ht : max (dom w φ) (dom w ψ) ≤ t) :
    (∃ v, rhoD cfg w (.tb2 .until a b φ ψ) t = some v ∧
      IsLUB {y | ∃ t' l r, t + a * cfg.scale ≤ t' ∧ t' ≤ t + b * cfg.scale ∧ rhoD cfg w ψ t' = some r ∧
                  IsGLB (valuesOn (rhoD cfg w φ) t t') l ∧ y = min l r} v) ∧
    (t - a * cfg.scale < max (dom w φ) (dom w ψ) → rhoD cfg w (.tb2 .since a b φ ψ) t = some ninf) ∧
    (max (dom w φ) (dom w ψ) ≤ t - a * cfg.scale →
      ∃ v, rhoD cfg w (.tb2 .since a b φ ψ) t = some v ∧
        IsLUB {y | ∃ t' l r, max (t - b * cfg.scale) (max (dom w φ) (dom w ψ)) ≤ t' ∧ t' ≤ t - a * cfg.scale ∧
                    rhoD cfg w ψ t' = some r ∧ IsGLB (valuesOn (rhoD cfg w φ) t' t) l ∧ y = min l r} v) := by
  have hwφ : w.WF φ.vars := fun x hx => hw x (List.mem_append_left _ hx)
  have hwψ : w.WF ψ.vars := fun x hx => hw x (List.mem_append_right _ hx)
  have h1 := rhoD_stepOn cfg hs w φ hsφ hwφ
  have h2 := rhoD_stepOn cfg hs w ψ hsψ hwψ
  obtain ⟨ha', hab'⟩ := scale_bounds cfg hs hab
  have hnt : ¬ t < max (dom w φ) (dom w ψ) := not_lt.2 ht
  have hdφ : dom w φ ≤ t := le_trans (le_max_left _ _) ht
  refine ⟨?_, fun h => ?_, fun h => ?_⟩
  · have e : rhoD cfg w (.tb2 .until a b φ ψ) t = foldWin pmax ninf
        (untilInner (rhoD cfg w φ) (rhoD cfg w ψ) (bps cfg w φ) t)
        (bps cfg w φ ++ bps cfg w ψ) (t + a * cfg.scale) (some (t + b * cfg.scale)) := by
      simp only [rhoD, if_neg hnt]; rfl
    rw [e]
    obtain ⟨v, hv, hl⟩ := foldWin_max_spec
      ((untilInner_stepOn h1 h2 ht).restrict (by linarith : t ≤ t + a * cfg.scale)
        (some (t + b * cfg.scale))) (by linarith : t + a * cfg.scale ≤ t + b * cfg.scale)
    refine ⟨v, hv, ?_⟩
    convert hl using 1
    ext y
    constructor
    · rintro ⟨t', l, r, k0, k1, k2, k3, k4⟩
      exact ⟨t', k0, k1, (untilInner_some_iff _ h1 hdφ (by linarith) y).2 ⟨l, r, k2, k3, k4⟩⟩
    · rintro ⟨t', k0, k1, k3⟩
      have k1' : t' ≤ t + b * cfg.scale := k1
      obtain ⟨l, r, k2, k3, k4⟩ := (untilInner_some_iff _ h1 hdφ (by linarith) y).1 k3
      exact ⟨t', l, r, k0, k1', k2, k3, k4⟩
  · simp only [rhoD, if_neg hnt, if_pos h]
  · have hn : ¬ t - a * cfg.scale < max (dom w φ) (dom w ψ) := not_lt.2 h
    have e : rhoD cfg w (.tb2 .since a b φ ψ) t = foldWin pmax ninf
        (sinceInner (rhoD cfg w φ) (rhoD cfg w ψ) (bps cfg w φ) t)
        (bps cfg w φ ++ bps cfg w ψ) (max (t - b * cfg.scale) (max (dom w φ) (dom w ψ)))
        (some (t - a * cfg.scale)) := by
      simp only [rhoD, if_neg hnt, if_neg hn]; rfl
    rw [e]
    have hS : StepOn (sinceInner (rhoD cfg w φ) (rhoD cfg w ψ) (bps cfg w φ) t)
        (bps cfg w φ ++ bps cfg w ψ) (max (t - b * cfg.scale) (max (dom w φ) (dom w ψ)))
        (some (t - a * cfg.scale)) :=
      (sinceInner_stepOn h1 h2 t).mono (le_max_right _ _)
        (fun s (hs' : s ≤ t - a * cfg.scale) => (by linarith : s ≤ t)) (fun _ h => h)
    obtain ⟨v, hv, hl⟩ := foldWin_max_spec hS
      (max_le (by linarith) h : max (t - b * cfg.scale) (max (dom w φ) (dom w ψ)) ≤ t - a * cfg.scale)
    refine ⟨v, hv, ?_⟩
    convert hl using 1
    ext y
    constructor
    · rintro ⟨t', l, r, k0, k1, k2, k3, k4⟩
      exact ⟨t', k0, k1, (sinceInner_some_iff _ h1
        (le_trans (le_max_left _ _) (le_trans (le_max_right _ _) k0)) (by linarith) y).2
        ⟨l, r, k2, k3, k4⟩⟩
    · rintro ⟨t', k0, k1, k3⟩
      have k1' : t' ≤ t - a * cfg.scale := k1
      obtain ⟨l, r, k2, k3, k4⟩ := (sinceInner_some_iff _ h1
        (le_trans (le_max_left _ _) (le_trans (le_max_right _ _) k0)) (by linarith) y).1 k3
      exact ⟨t', l, r, k0, k1', k2, k3, k4⟩

include hs in
/-- The robustness signal is defined exactly from the start of the common input domain on
    (and the evaluator's sample list starts there). -/
theorem C04_domain (φ : F α) (hsup : supported φ = true) (hw : w.WF φ.vars) (t : Rat) (ht : dom w φ ≤ t) :
    (rhoD cfg w φ t).isSome = true ∧ evalAt cfg w φ t = rhoD cfg w φ t := by
  exact ⟨(rhoD_stepOn cfg hs w φ hsup hw).1 t ht trivial,
    evalAt_eq_rhoD_partial cfg hs w φ hsup hw t ht⟩

end Rtamt.Dense
