/-
  C04 — Dense-time offline robustness equals the dense-time STL semantics.

  The executable M-spec `rhoD` (Rtamt/Dense/Ref.lean, what the driver runs and what the real
  dense-time offline monitor is compared with on every run) is shown here to *be* the
  supremum / infimum semantics over closed windows: for step-function inputs every clause of
  the dense-time robustness definition holds with `IsLUB` / `IsGLB` over the (infinite) set of
  time points of the window — finitary interpretation: last value held, windows clipped to the
  domain `[dom, ∞)`, closed intervals, non-strict until/since with the left operand required on
  the closed interval up to the witness.
-/
import RtamtProofs.Dense.Step

namespace Rtamt.Dense
open Rtamt Val

variable {α : Type} [Val α] [LawfulVal α]

/-- Values of `g` on the closed window `[lo, hi]`. -/
def valuesOn (g : Rat → Option α) (lo hi : Rat) : Set α := {y | ∃ t, lo ≤ t ∧ t ≤ hi ∧ g t = some y}
/-- Values of `g` on `[lo, ∞)`. -/
def valuesFrom (g : Rat → Option α) (lo : Rat) : Set α := {y | ∃ t, lo ≤ t ∧ g t = some y}

variable (cfg : DCfg) (hs : 0 ≤ cfg.scale) (w : DEnv α)

/-- Point-wise operators. -/
theorem C04_pointwise (op : Un) (op2 : Bin) (φ ψ : F α) (t : Rat) :
    rhoD cfg w (.un op φ) t = (rhoD cfg w φ t).map op.app ∧
    rhoD cfg w (.bin op2 φ ψ) t =
      (match rhoD cfg w φ t, rhoD cfg w ψ t with | some l, some r => some (op2.app l r) | _, _ => none) := by
  sorry

/-- `once[a,b] φ` at `t`: `-inf` while the window `[t-b, t-a]` lies entirely before the domain,
    otherwise the supremum of `φ` over `[max(t-b, dom), t-a]`; dually `historically[a,b]`. -/
theorem C04_once_bounded (a b : Nat) (hab : a ≤ b) (φ : F α) (hsup : supported φ = true)
    (hw : w.WF φ.vars) (t : Rat) (ht : dom w φ ≤ t) :
    (t - a * cfg.scale < dom w φ → rhoD cfg w (.tb1 .once a b φ) t = some ninf ∧
        rhoD cfg w (.tb1 .hist a b φ) t = some pinf) ∧
    (dom w φ ≤ t - a * cfg.scale →
      (∃ v, rhoD cfg w (.tb1 .once a b φ) t = some v ∧
        IsLUB (valuesOn (rhoD cfg w φ) (max (t - b * cfg.scale) (dom w φ)) (t - a * cfg.scale)) v) ∧
      (∃ v, rhoD cfg w (.tb1 .hist a b φ) t = some v ∧
        IsGLB (valuesOn (rhoD cfg w φ) (max (t - b * cfg.scale) (dom w φ)) (t - a * cfg.scale)) v)) := by
  sorry

/-- `eventually[a,b] φ` / `always[a,b] φ` at `t`: supremum / infimum over `[t+a, t+b]`. -/
theorem C04_eventually_bounded (a b : Nat) (hab : a ≤ b) (φ : F α) (hsup : supported φ = true)
    (hw : w.WF φ.vars) (t : Rat) (ht : dom w φ ≤ t) :
    (∃ v, rhoD cfg w (.tb1 .ev a b φ) t = some v ∧
        IsLUB (valuesOn (rhoD cfg w φ) (t + a * cfg.scale) (t + b * cfg.scale)) v) ∧
    (∃ v, rhoD cfg w (.tb1 .alw a b φ) t = some v ∧
        IsGLB (valuesOn (rhoD cfg w φ) (t + a * cfg.scale) (t + b * cfg.scale)) v) := by
  sorry

/-- Unbounded `once` / `historically` (window `[dom, t]`) and `eventually` / `always` (`[t, ∞)`). -/
theorem C04_unbounded (φ : F α) (hsup : supported φ = true) (hw : w.WF φ.vars) (t : Rat)
    (ht : dom w φ ≤ t) :
    (∃ v, rhoD cfg w (.tmp1 .once φ) t = some v ∧ IsLUB (valuesOn (rhoD cfg w φ) (dom w φ) t) v) ∧
    (∃ v, rhoD cfg w (.tmp1 .hist φ) t = some v ∧ IsGLB (valuesOn (rhoD cfg w φ) (dom w φ) t) v) ∧
    (∃ v, rhoD cfg w (.tmp1 .ev φ) t = some v ∧ IsLUB (valuesFrom (rhoD cfg w φ) t) v) ∧
    (∃ v, rhoD cfg w (.tmp1 .alw φ) t = some v ∧ IsGLB (valuesFrom (rhoD cfg w φ) t) v) := by
  sorry

/-- `φ until ψ` at `t`: supremum over witnesses `t' ≥ t` of `min(ψ(t'), inf_{[t,t']} φ)`;
    `φ since ψ`: supremum over `t' ∈ [dom, t]` of `min(ψ(t'), inf_{[t',t]} φ)`. -/
theorem C04_until_since (φ ψ : F α) (hsφ : supported φ = true) (hsψ : supported ψ = true)
    (hw : w.WF (φ.vars ++ ψ.vars)) (t : Rat) (ht : max (dom w φ) (dom w ψ) ≤ t) :
    (∃ v, rhoD cfg w (.tmp2 .until φ ψ) t = some v ∧
      IsLUB {y | ∃ t' l r, t ≤ t' ∧ rhoD cfg w ψ t' = some r ∧
                  IsGLB (valuesOn (rhoD cfg w φ) t t') l ∧ y = min l r} v) ∧
    (∃ v, rhoD cfg w (.tmp2 .since φ ψ) t = some v ∧
      IsLUB {y | ∃ t' l r, max (dom w φ) (dom w ψ) ≤ t' ∧ t' ≤ t ∧ rhoD cfg w ψ t' = some r ∧
                  IsGLB (valuesOn (rhoD cfg w φ) t' t) l ∧ y = min l r} v) := by
  sorry

/-- Bounded `until[a,b]` / `since[a,b]`: the witness ranges over `[t+a, t+b]`, resp.
    `[max(t-b, dom), t-a]` (`-inf` while that window lies before the domain). -/
theorem C04_until_since_bounded (a b : Nat) (hab : a ≤ b) (φ ψ : F α) (hsφ : supported φ = true)
    (hsψ : supported ψ = true) (hw : w.WF (φ.vars ++ ψ.vars)) (t : Rat)
    (ht : max (dom w φ) (dom w ψ) ≤ t) :
    (∃ v, rhoD cfg w (.tb2 .until a b φ ψ) t = some v ∧
      IsLUB {y | ∃ t' l r, t + a * cfg.scale ≤ t' ∧ t' ≤ t + b * cfg.scale ∧ rhoD cfg w ψ t' = some r ∧
                  IsGLB (valuesOn (rhoD cfg w φ) t t') l ∧ y = min l r} v) ∧
    (t - a * cfg.scale < max (dom w φ) (dom w ψ) → rhoD cfg w (.tb2 .since a b φ ψ) t = some ninf) ∧
    (max (dom w φ) (dom w ψ) ≤ t - a * cfg.scale →
      ∃ v, rhoD cfg w (.tb2 .since a b φ ψ) t = some v ∧
        IsLUB {y | ∃ t' l r, max (t - b * cfg.scale) (max (dom w φ) (dom w ψ)) ≤ t' ∧ t' ≤ t - a * cfg.scale ∧
                    rhoD cfg w ψ t' = some r ∧ IsGLB (valuesOn (rhoD cfg w φ) t' t) l ∧ y = min l r} v) := by
  sorry

/-- The robustness signal is defined exactly from the start of the common input domain on
    (and the evaluator's sample list starts there). -/
theorem C04_domain (φ : F α) (hsup : supported φ = true) (hw : w.WF φ.vars) (t : Rat) (ht : dom w φ ≤ t) :
    (rhoD cfg w φ t).isSome = true ∧ evalAt cfg w φ t = rhoD cfg w φ t := by
  sorry

end Rtamt.Dense
