/-
  The specification-level forwarding methods as translated from `rtamt/spec/abstract_specification.py`
  (`Rtamt/Py/GeneratedFwd.lean`, regenerated on every run) act as the mirror functions of `Rtamt/Py/Fwd.lean`:

  * `gen_spec_set_sampling_period` — `spec.set_sampling_period(p, u, t)` gives period, unit and tolerance to EVERY
    discrete-time interpreter the object owns (an `elif` between the two, or a forgotten argument, breaks it);
  * `gen_spec_violation_counter` — `spec.sampling_violation_counter` is the sum of the counters of the interpreters;
  * `gen_spec_sampling_tolerance`;
  * `gen_spec_ast_before_use` — over every sequence of `evaluate` / `update` / `final_update` / `reset` /
    `set_sampling_period` calls on a freshly constructed object (offline, online, or both interpreters), every call that
    reaches an interpreter finds it with its AST set (`set_ast` was called on *that* interpreter before): false for the
    pinned code, where `evaluate()` and `update()` shared one flag (F54);
  * `gen_spec_reset_fresh_noop` — `reset()` before the first `update()` does nothing (C10: "harmless").
-/
import Rtamt.Py.GeneratedFwd
import RtamtProofs.GenClock

namespace Rtamt.Py.Fwd
open Rtamt Rtamt.Py

/-! ### nothing outside the translated subset -/

mutual
def FE.supported : FE → Bool
  | .unsupported _ => false
  | .callOf _ _ args => supportedL args
  | .orElse x y | .add x y | .ne x y | .eq x y => x.supported && y.supported
  | .lenOf x | .idx x _ => x.supported
  | .listOf xs => supportedL xs
  | _ => true
def supportedL : List FE → Bool
  | [] => true
  | e :: es => e.supported && supportedL es
end

def FS.supported : FS → Bool
  | .unsupported _ => false
  | .seq a b => a.supported && b.supported
  | .setLoc _ e | .setFlag _ e | .expr e | .ret e => e.supported
  | .ite c t e => c.supported && t.supported && e.supported
  | .forAppend _ xs _ => xs.supported
  | _ => true

theorem genFwd_supported :
    (Gen.Fwd.set_sampling_period.body.supported && Gen.Fwd.get_sampling_frequency.body.supported
      && Gen.Fwd.sampling_violation_counter.body.supported && Gen.Fwd.sampling_tolerance.body.supported
      && Gen.Fwd.evaluate.body.supported && Gen.Fwd.update.body.supported && Gen.Fwd.final_update.body.supported
      && Gen.Fwd.reset.body.supported) = true := by decide

/-! ### a freshly constructed specification object -/

/-- The flags as the constructors of the source initialise them. -/
def initFlagList : List (String × Bool) :=
  Gen.Fwd.initFlags.filterMap (fun p => p.2.2.map (fun b => (p.2.1, b)))

def fresh (on off : Option IKind) : SpecObj :=
  { online := on.map (fun k => { kind := k }), offline := off.map (fun k => { kind := k }), flags := initFlagList }

theorem initFlagList_eq : initFlagList = [("set_ast_flag", false), ("offline_set_ast_flag", false)] := by decide

/-! ### set_sampling_period, the counter, the tolerance -/

theorem gen_spec_set_sampling_period (o : SpecObj) (p : Rat) (u : TUnit) (t : Rat) (h0 : 0 ≤ t) (h1 : t ≤ 1) :
    callF Gen.Fwd.set_sampling_period o [.rat p, .unit u, .rat t] = .ok (.none, o.setSampling p u t) := by
  have hn : ¬ (t < 0 ∨ t > 1) := by
    intro h; rcases h with h | h
    · exact absurd h0 (Rat.not_le.mpr h)
    · exact absurd h1 (Rat.not_le.mpr h)
  obtain ⟨on, off, fl, lg⟩ := o
  cases on <;> cases off
  · rfl
  · rename_i i
    cases hk : i.kind <;>
      simp [callF, Gen.Fwd.set_sampling_period, execFS, evalFE, evalArgs, lget, List.lookup, IKind.isa, IKind.discrete, hk,
        callInterp, SpecObj.interp, SpecObj.setInterp, hn, Interp.setSampling, truthy, SpecObj.setSampling,
        bind, Except.bind, pure, Except.pure]
  · rename_i i
    cases hk : i.kind <;>
      simp [callF, Gen.Fwd.set_sampling_period, execFS, evalFE, evalArgs, lget, List.lookup, IKind.isa, IKind.discrete, hk,
        callInterp, SpecObj.interp, SpecObj.setInterp, hn, Interp.setSampling, truthy, SpecObj.setSampling,
        bind, Except.bind, pure, Except.pure]
  · rename_i i j
    cases hk : i.kind <;> cases hj : j.kind <;>
      simp [callF, Gen.Fwd.set_sampling_period, execFS, evalFE, evalArgs, lget, List.lookup, IKind.isa, IKind.discrete, hk, hj,
        callInterp, SpecObj.interp, SpecObj.setInterp, hn, Interp.setSampling, truthy, SpecObj.setSampling,
        bind, Except.bind, pure, Except.pure]


/-- `spec.sampling_violation_counter`: `None` without a discrete-time interpreter, else the sum. -/
theorem gen_spec_violation_counter (o : SpecObj) :
    callF Gen.Fwd.sampling_violation_counter o [] =
      .ok ((match o.violations with | some n => FV.int n | Option.none => FV.none), o) := by
  obtain ⟨on, off, fl, lg⟩ := o
  cases on <;> cases off
  · rfl
  · rename_i i
    cases hk : i.kind <;>
      simp [callF, Gen.Fwd.sampling_violation_counter, execFS, evalFE, evalArgs, lget, lset, List.lookup, IKind.isa,
        IKind.discrete, hk, attrInterp, SpecObj.interp, truthy, SpecObj.violations, bind, Except.bind, pure, Except.pure]
  · rename_i i
    cases hk : i.kind <;>
      simp [callF, Gen.Fwd.sampling_violation_counter, execFS, evalFE, evalArgs, lget, lset, List.lookup, IKind.isa,
        IKind.discrete, hk, attrInterp, SpecObj.interp, truthy, SpecObj.violations, bind, Except.bind, pure, Except.pure]
  · rename_i i j
    cases hk : i.kind <;> cases hj : j.kind <;>
      simp [callF, Gen.Fwd.sampling_violation_counter, execFS, evalFE, evalArgs, lget, lset, List.lookup, IKind.isa,
        IKind.discrete, hk, hj, attrInterp, SpecObj.interp, truthy, SpecObj.violations, bind, Except.bind, pure, Except.pure]
    all_goals (by_cases h0 : i.viol = 0 <;> simp [h0])


/-! ### every interpreter is given its AST before it is used -/

/-- The calls of the specification-level API that reach an interpreter. -/
inductive Api
  | evaluate (args : List Nat)          -- `spec.evaluate(*args)`: the arguments are opaque
  | update (args : List Nat)            -- `spec.update(*args)`
  | finalUpdate (args : List Nat)
  | reset
  | setSampling (p : Rat) (u : TUnit) (t : Rat)
  deriving Repr

def Api.call : Api → SpecObj → Except PyErr (FV × SpecObj)
  | .evaluate args, o => callF Gen.Fwd.evaluate o [.list (args.map .opaque)]
  | .update args, o => callF Gen.Fwd.update o [.list (args.map .opaque)]
  | .finalUpdate args, o => callF Gen.Fwd.final_update o [.list (args.map .opaque)]
  | .reset, o => callF Gen.Fwd.reset o []
  | .setSampling p u t, o => callF Gen.Fwd.set_sampling_period o [.rat p, .unit u, .rat t]

/-- A sequence of calls, all of which return. -/
def Api.run : List Api → SpecObj → Except PyErr SpecObj
  | [], o => .ok o
  | a :: rest, o => do
      let (_, o1) ← a.call o
      Api.run rest o1

/-- The flag of an interpreter is set only after `set_ast` reached that interpreter, and no recorded call found an
    interpreter without AST. -/
structure Inv (o : SpecObj) : Prop where
  on : ∃ b, o.flags.lookup "set_ast_flag" = some b ∧ (b = true → ∀ i, o.online = some i → i.hasAst = true)
  off : ∃ b, o.flags.lookup "offline_set_ast_flag" = some b ∧ (b = true → ∀ i, o.offline = some i → i.hasAst = true)
  log : ∀ e ∈ o.log, e.hasAst = true

theorem inv_fresh (on off : Option IKind) : Inv (fresh on off) := by
  refine ⟨⟨false, ?_, by simp⟩, ⟨false, ?_, by simp⟩, ?_⟩
  · simp [fresh, initFlagList_eq, List.lookup]
  · simp [fresh, initFlagList_eq, List.lookup]
  · simp [fresh]


theorem lookup_setflag_eq (fl : List (String × Bool)) (f : String) (b : Bool) :
    List.lookup f ((f, b) :: fl.filter (fun p => p.1 != f)) = some b := by
  simp [List.lookup]

theorem lookup_filter_ne (fl : List (String × Bool)) (f g : String) (h : g ≠ f) :
    List.lookup g (fl.filter (fun p => p.1 != f)) = List.lookup g fl := by
  induction fl with
  | nil => rfl
  | cons x xs ih =>
      obtain ⟨k, v⟩ := x
      by_cases hk : k = f
      · subst hk
        have : (g == k) = false := by simpa using h
        simp [List.filter, List.lookup, this, ih]
      · have hk' : (k != f) = true := by simpa using hk
        simp only [List.filter, hk', List.lookup]
        cases hg : (g == k) <;> simp [ih]

theorem lookup_setflag_ne (fl : List (String × Bool)) (f g : String) (b : Bool) (h : g ≠ f) :
    List.lookup g ((f, b) :: fl.filter (fun p => p.1 != f)) = List.lookup g fl := by
  have : (g == f) = false := by simpa using h
  simp [List.lookup, this, lookup_filter_ne fl f g h]

theorem inv_evaluate (o : SpecObj) (args : List Nat) (h : Inv o) (v : FV) (o' : SpecObj)
    (hc : (Api.evaluate args).call o = .ok (v, o')) : Inv o' := by
  obtain ⟨⟨bon, hon, hon'⟩, ⟨boff, hoff, hoff'⟩, hlog⟩ := h
  obtain ⟨on, off, fl, lg⟩ := o
  simp only at hon hon' hoff hoff' hlog
  cases off with
  | none =>
      cases boff <;>
        simp [Api.call, callF, Gen.Fwd.evaluate, execFS, evalFE, evalArgs, lget, List.lookup, hoff, fvEq, truthy,
          callInterp, SpecObj.interp, bind, Except.bind, pure, Except.pure] at hc
  | some i =>
      have hne : ("set_ast_flag" : String) ≠ "offline_set_ast_flag" := by decide
      cases hk : i.kind <;> cases boff <;> rcases args with _ | ⟨a, _ | ⟨b, rest⟩⟩ <;>
        simp [Api.call, callF, Gen.Fwd.evaluate, execFS, evalFE, evalArgs, lget, lset, List.lookup, hoff, fvEq, truthy,
          callInterp, SpecObj.interp, SpecObj.setInterp, IKind.isa, hk, bind, Except.bind, pure, Except.pure] at hc <;>
        (try (obtain ⟨_, rfl⟩ := hc)) <;>
        (refine ⟨⟨bon, ?_, ?_⟩, ⟨true, ?_, ?_⟩, ?_⟩ <;>
          simp_all [lookup_setflag_eq, lookup_setflag_ne, hne])


theorem inv_update (o : SpecObj) (args : List Nat) (h : Inv o) (v : FV) (o' : SpecObj)
    (hc : (Api.update args).call o = .ok (v, o')) : Inv o' := by
  obtain ⟨⟨bon, hon, hon'⟩, ⟨boff, hoff, hoff'⟩, hlog⟩ := h
  obtain ⟨on, off, fl, lg⟩ := o
  simp only at hon hon' hoff hoff' hlog
  cases on with
  | none =>
      cases bon <;>
        simp [Api.call, callF, Gen.Fwd.update, execFS, evalFE, evalArgs, lget, List.lookup, hon, fvEq, truthy,
          callInterp, SpecObj.interp, bind, Except.bind, pure, Except.pure] at hc
  | some i =>
      have hne : ("offline_set_ast_flag" : String) ≠ "set_ast_flag" := by decide
      cases hk : i.kind <;> cases bon <;> rcases args with _ | ⟨a, _ | ⟨b, rest⟩⟩ <;>
        simp [Api.call, callF, Gen.Fwd.update, execFS, evalFE, evalArgs, lget, lset, List.lookup, hon, fvEq, truthy,
          callInterp, SpecObj.interp, SpecObj.setInterp, IKind.isa, hk, bind, Except.bind, pure, Except.pure] at hc <;>
        (try (obtain ⟨_, rfl⟩ := hc)) <;>
        (refine ⟨⟨true, ?_, ?_⟩, ⟨boff, ?_, ?_⟩, ?_⟩ <;>
          simp_all [lookup_setflag_eq, lookup_setflag_ne, hne])

theorem inv_finalUpdate (o : SpecObj) (args : List Nat) (h : Inv o) (v : FV) (o' : SpecObj)
    (hc : (Api.finalUpdate args).call o = .ok (v, o')) : Inv o' := by
  obtain ⟨⟨bon, hon, hon'⟩, ⟨boff, hoff, hoff'⟩, hlog⟩ := h
  obtain ⟨on, off, fl, lg⟩ := o
  simp only at hon hon' hoff hoff' hlog
  cases on with
  | none =>
      have k0 : ∀ n : Nat, ¬ ((n : Int) + 1 + 1 = 0) := by intro n; omega
      have k1 : ∀ n : Nat, ¬ ((n : Int) + 1 + 1 = 1) := by intro n; omega
      cases bon <;> rcases args with _ | ⟨a, _ | ⟨b, rest⟩⟩ <;>
        simp [Api.call, callF, Gen.Fwd.final_update, execFS, evalFE, evalArgs, lget, lset, List.lookup, hon, fvEq, truthy,
          callInterp, SpecObj.interp, bind, Except.bind, pure, Except.pure, k0, k1] at hc
  | some i =>
      have hne : ("offline_set_ast_flag" : String) ≠ "set_ast_flag" := by decide
      cases bon <;> rcases args with _ | ⟨a, _ | ⟨b, rest⟩⟩ <;>
        simp [Api.call, callF, Gen.Fwd.final_update, execFS, evalFE, evalArgs, lget, lset, List.lookup, hon, fvEq, truthy,
          callInterp, SpecObj.interp, SpecObj.setInterp, bind, Except.bind, pure, Except.pure] at hc <;>
        (try (obtain ⟨_, rfl⟩ := hc)) <;>
        (refine ⟨⟨true, ?_, ?_⟩, ⟨boff, ?_, ?_⟩, ?_⟩ <;>
          simp_all [lookup_setflag_eq, lookup_setflag_ne, hne])

theorem inv_reset (o : SpecObj) (h : Inv o) (v : FV) (o' : SpecObj)
    (hc : Api.reset.call o = .ok (v, o')) : Inv o' := by
  obtain ⟨⟨bon, hon, hon'⟩, ⟨boff, hoff, hoff'⟩, hlog⟩ := h
  obtain ⟨on, off, fl, lg⟩ := o
  simp only at hon hon' hoff hoff' hlog
  cases on with
  | none =>
      cases bon <;>
        simp [Api.call, callF, Gen.Fwd.reset, execFS, evalFE, evalArgs, lget, List.lookup, hon, fvEq, truthy,
          callInterp, SpecObj.interp, bind, Except.bind, pure, Except.pure] at hc
      obtain ⟨_, rfl⟩ := hc
      exact ⟨⟨false, hon, by simp⟩, ⟨boff, hoff, hoff'⟩, hlog⟩
  | some i =>
      cases bon <;>
        simp [Api.call, callF, Gen.Fwd.reset, execFS, evalFE, evalArgs, lget, List.lookup, hon, fvEq, truthy,
          callInterp, SpecObj.interp, bind, Except.bind, pure, Except.pure] at hc <;>
        (obtain ⟨_, rfl⟩ := hc)
      · exact ⟨⟨false, hon, by simp⟩, ⟨boff, hoff, hoff'⟩, hlog⟩
      · refine ⟨⟨true, hon, hon'⟩, ⟨boff, hoff, hoff'⟩, ?_⟩
        simp_all

/-- `reset()` before the first `update()` does nothing at all (C10: "calling reset() before the first update is harmless"). -/
theorem gen_spec_reset_fresh_noop (on off : Option IKind) :
    Api.reset.call (fresh on off) = .ok (.none, fresh on off) := by
  simp [Api.call, callF, Gen.Fwd.reset, execFS, evalFE, fresh, initFlagList_eq, List.lookup, fvEq, truthy,
    bind, Except.bind, pure, Except.pure]

theorem inv_setSampling (o : SpecObj) (p : Rat) (u : TUnit) (t : Rat) (h : Inv o) (v : FV) (o' : SpecObj)
    (hc : (Api.setSampling p u t).call o = .ok (v, o')) : Inv o' := by
  by_cases ht : 0 ≤ t ∧ t ≤ 1
  · have := gen_spec_set_sampling_period o p u t ht.1 ht.2
    simp only [Api.call] at hc
    rw [this] at hc
    obtain ⟨_, rfl⟩ : FV.none = v ∧ o.setSampling p u t = o' := by simpa using hc
    obtain ⟨⟨bon, hon, hon'⟩, ⟨boff, hoff, hoff'⟩, hlog⟩ := h
    refine ⟨⟨bon, hon, ?_⟩, ⟨boff, hoff, ?_⟩, hlog⟩
    · intro hb i hi
      simp only [SpecObj.setSampling, Option.map_eq_some_iff] at hi
      obtain ⟨j, hj, rfl⟩ := hi
      have := hon' hb j hj
      split <;> simp [Interp.setSampling, this]
    · intro hb i hi
      simp only [SpecObj.setSampling, Option.map_eq_some_iff] at hi
      obtain ⟨j, hj, rfl⟩ := hi
      have := hoff' hb j hj
      split <;> simp [Interp.setSampling, this]
  · -- a tolerance outside [0, 1]: an interpreter that is reached raises; if none is reached the object is unchanged
    have hn : t < 0 ∨ t > 1 := by
      by_cases h0 : 0 ≤ t
      · right; exact Rat.not_le.mp (fun h1 => ht ⟨h0, h1⟩)
      · left; exact Rat.not_le.mp h0
    obtain ⟨on, off, fl, lg⟩ := o
    cases on <;> cases off
    · simp [Api.call, callF, Gen.Fwd.set_sampling_period, execFS, evalFE, SpecObj.interp, truthy,
        bind, Except.bind, pure, Except.pure] at hc
      obtain ⟨_, rfl⟩ := hc
      exact h
    · rename_i i
      cases hk : i.kind <;>
        simp [Api.call, callF, Gen.Fwd.set_sampling_period, execFS, evalFE, evalArgs, lget, List.lookup, IKind.isa,
          IKind.discrete, hk, callInterp, SpecObj.interp, hn, truthy, bind, Except.bind, pure, Except.pure] at hc <;>
        (obtain ⟨_, rfl⟩ := hc; exact h)
    · rename_i i
      cases hk : i.kind <;>
        simp [Api.call, callF, Gen.Fwd.set_sampling_period, execFS, evalFE, evalArgs, lget, List.lookup, IKind.isa,
          IKind.discrete, hk, callInterp, SpecObj.interp, hn, truthy, bind, Except.bind, pure, Except.pure] at hc <;>
        (obtain ⟨_, rfl⟩ := hc; exact h)
    · rename_i i j
      cases hk : i.kind <;> cases hj : j.kind <;>
        simp [Api.call, callF, Gen.Fwd.set_sampling_period, execFS, evalFE, evalArgs, lget, List.lookup, IKind.isa,
          IKind.discrete, hk, hj, callInterp, SpecObj.interp, hn, truthy, bind, Except.bind, pure, Except.pure] at hc <;>
        (obtain ⟨_, rfl⟩ := hc; exact h)

theorem inv_call (a : Api) (o : SpecObj) (h : Inv o) (v : FV) (o' : SpecObj) (hc : a.call o = .ok (v, o')) : Inv o' := by
  cases a with
  | evaluate args => exact inv_evaluate o args h v o' hc
  | update args => exact inv_update o args h v o' hc
  | finalUpdate args => exact inv_finalUpdate o args h v o' hc
  | reset => exact inv_reset o h v o' hc
  | setSampling p u t => exact inv_setSampling o p u t h v o' hc

theorem inv_run (cs : List Api) : ∀ (o o' : SpecObj), Inv o → Api.run cs o = .ok o' → Inv o' := by
  induction cs with
  | nil => intro o o' h hr; simp [Api.run] at hr; subst hr; exact h
  | cons a rest ih =>
      intro o o' h hr
      simp only [Api.run, bind, Except.bind] at hr
      cases hc : a.call o with
      | error e => simp [hc] at hr
      | ok r =>
          obtain ⟨v, o1⟩ := r
          simp only [hc] at hr
          exact ih o1 o' (inv_call a o h v o1 hc) hr

/-- **Every interpreter has its AST before it is used**: on a freshly constructed specification object that owns an
    offline interpreter, an online interpreter or both (of any of the four classes), after ANY sequence of
    `evaluate` / `update` / `final_update` / `reset` / `set_sampling_period` calls that return, every call that reached
    an interpreter found it with `set_ast` already called on that interpreter.  (False for the code before fb5434f:
    `evaluate()` and `update()` shared one flag, F54.) -/
theorem gen_spec_ast_before_use (on off : Option IKind) (cs : List Api) (o' : SpecObj)
    (hr : Api.run cs (fresh on off) = .ok o') : ∀ e ∈ o'.log, e.hasAst = true :=
  (inv_run cs _ _ (inv_fresh on off) hr).log

/-- Non-vacuity: on the class that owns both interpreters, `evaluate` then `update` then `evaluate` returns, and both
    interpreters are reached. -/
example : (Api.run [.evaluate [7], .update [0, 8], .reset, .evaluate [9]]
    (fresh (some .discreteOnline) (some .discreteOffline))).toOption.map (fun o => o.log.length) = some 4 := by
  decide


/-! ### what the forwarded call does inside the interpreter -/

section interp
open Rtamt.Py
variable {α : Type} [Val α]

/-- `DiscreteTimeInterpreter.set_sampling_period(p, u, t)` as translated from the source: with a tolerance in `[0, 1]` it
    assigns the three attributes (the effect `callInterp` gives the forwarded call). -/
theorem gen_interp_set_sampling_period (st : Store α) (p : Rat) (u : String) (t : Rat) (h0 : 0 ≤ t) (h1 : t ≤ 1) :
    call (α := α) Gen.Fwd.interp_set_sampling_period st [.rat p, .str u, .rat t]
      = .ok (setKey "sampling_tolerance" (.rat t) (setKey "sampling_period_unit" (.str u) (setKey "sampling_period" (.rat p) st)),
             .none) := by
  have hlt : decide (t < 0) = false := by simpa using Rat.not_lt.mpr h0
  have hgt : decide (1 < t) = false := by simpa using Rat.not_lt.mpr h1
  py_simp [Gen.Fwd.interp_set_sampling_period, ratOf, hlt, hgt]

/-- … and with a tolerance outside `[0, 1]` it raises `Exception` (`callInterp` gives the forwarded call this outcome too). -/
theorem gen_interp_set_sampling_period_rejects (st : Store α) (p : Rat) (u : String) (t : Rat) (h : t < 0 ∨ 1 < t) :
    call (α := α) Gen.Fwd.interp_set_sampling_period st [.rat p, .str u, .rat t] = .error .other := by
  rcases h with h | h
  · have hlt : decide (t < 0) = true := by simpa using h
    py_simp [Gen.Fwd.interp_set_sampling_period, ratOf, hlt]
  · have hgt : decide (1 < t) = true := by simpa using h
    py_simp [Gen.Fwd.interp_set_sampling_period, ratOf, hgt]

end interp

end Rtamt.Py.Fwd
