/-
  The translated unbounded temporal operators of the dense-time offline monitor (`visitOnce`, `visitHistorically`,
  `visitEventually`, `visitAlways`, `since_operation`, `until_operation` of `Rtamt/Py/GeneratedDense.lean`), run under the
  semantics of `Rtamt/Py/Dn.lean`, compute what the mirror `Rtamt/Dense/Alg.lean` computes (`fwdScan`, `backScan`,
  `sinceOp`, `untilOp`).
-/
import RtamtProofs.GenDenseBase

namespace Rtamt.Py.Dn
open Rtamt Val Rtamt.Dense Rtamt.Dense.Alg

set_option linter.unusedSectionVars false
set_option linter.unusedSimpArgs false
set_option linter.unusedVariables false

variable {α : Type} [Val α]

/- helper lemmas live in the namespace `Rtamt.Py.Dn.GenScan` (several `GenDense*.lean` files define helpers of the same name) -/
namespace GenScan

/-! ### the mirror: one step of `dedupGo` -/

/-- `out_value != prev`, where `prev` is `nan` at the start -/
def keepB (prev : Option α) (o : α) : Bool :=
  match prev with
  | none => true
  | some x => vne o x

theorem dedupGo_cons (prev : Option α) (p : Tm × α) (l : ASig α) :
    dedupGo prev (p :: l) = (if keepB prev p.2 || l.isEmpty then [p] else []) ++ dedupGo (some p.2) l := by
  cases l with
  | nil => cases prev <;> simp [dedupGo, keepB]
  | cons q r => cases prev <;> simp [dedupGo, keepB]

@[simp] theorem except_map_ok {ε σ ρ : Type} (a : σ) (f : σ → ρ) : Except.map f (Except.ok a : Except ε σ) = .ok (f a) := rfl
@[simp] theorem except_map_error {ε σ ρ : Type} (e : ε) (f : σ → ρ) : Except.map f (Except.error e : Except ε σ) = .error e := rfl

@[simp] theorem resolve_nil (f : String) : resolve ([] : Env α) f = f := rfl

@[simp] theorem resolve_cons (f k' : String) (v : DV α) (env : Env α) :
    resolve ((k', v) :: env) f = if f = k' then (match v with | .fn g => g | _ => f) else resolve env f := by
  unfold resolve
  by_cases h : f = k'
  · subst h; cases v <;> simp [List.lookup_cons]
  · have : (f == k') = false := by rw [beq_eq_false_iff_ne]; exact h
    simp [List.lookup_cons, this, h]

theorem cmpDV_ne_val (a b : α) : cmpDV .ne (.val a) (.val b) = .ok (vne a b) := by
  simp [cmpDV, isTimeLike, isValLike, toVal, cmpVal]
theorem cmpDV_ne_nan (a : α) : cmpDV .ne (.val a) (.nan) = .ok true := by
  simp [cmpDV, isCmp]
theorem cmpDV_int_eq (a b : Int) : cmpDV .eq (.int a : DV α) (.int b) = .ok (decide (a = b)) := rfl
theorem cmpDV_int_lt (a b : Int) : cmpDV .lt (.int a : DV α) (.int b) = .ok (decide (a < b)) := rfl

/-! ### `visitOnce` / `visitHistorically` -/

/-- the body of the loop of `visitOnce` (`f = "max"`) and `visitHistorically` (`f = "min"`) -/
def fwdBody (f : String) : S :=
  (.seq (.setLoc "out_time" (.idx (.loc "in_sample") (.int 0))) (.seq (.setLoc "out_value" (.call2 f (.idx (.loc "in_sample") (.int 1)) (.loc "self.prev"))) (.seq (.setLoc "self.prev" (.loc "out_value")) (.seq (.ite (.or_ (.bin .ne (.loc "out_value") (.loc "prev")) (.bin .eq (.loc "i") (.bin .sub (.call1 "len" (.loc "sample")) (.int 1)))) (.appendLoc "sample_return" (.list2 (.loc "out_time") (.loc "out_value"))) .skip) (.setLoc "prev" (.loc "out_value"))))))

/-- what the loop of `visitOnce` maintains: `n` is the length of the whole input, `acc` the running maximum
    (`self.prev`), `prev` the previous output value (`nan` at the start), `out` the output built so far -/
structure FwdInv (f : String) (n : Nat) (env : Env α) (acc : α) (prev : Option α) (out : ASig α) : Prop where
  hsample : ∃ L, getLoc "sample" env = .ok (.list L) ∧ L.length = n
  hsp : ∃ sp, getLoc "self.prev" env = .ok sp ∧ toVal sp = .ok acc
  hpv : ∃ pv, getLoc "prev" env = .ok pv ∧ ∀ o : α, cmpDV .ne (.val o) pv = .ok (keepB prev o)
  hout : getLoc "sample_return" env = .ok (encSig out)
  hrlen : resolve env "len" = "len"
  hrf : resolve env f = f

theorem fwdBody_step (call : Call α) (fuel : Nat) (f : String) (comb : α → α → α) (hf : f = "max" ∨ f = "min")
    (hlen : ∀ l : List (DV α), call "len" [.list l] = .ok (.int l.length))
    (hcomb : ∀ (a : α) (y : DV α) (b : α), toVal y = .ok b → call f [.val a, y] = .ok (.val (comb a b)))
    (n k : Nat) (last : Bool) (hlast : last = decide ((k : Int) = (n : Int) - 1))
    (env : Env α) (acc : α) (prev : Option α) (out : ASig α) (t : Tm) (v : α)
    (inv : FwdInv f n env acc prev out) :
    ∃ env', exec call fuel (fwdBody f) (setLoc "in_sample" (.smp t (.val v)) (setLoc "i" (.int k) env)) = .ok (env', none) ∧
      FwdInv f n env' (comb v acc) (some (comb v acc))
        (out ++ if keepB prev (comb v acc) || last then [(t, comb v acc)] else []) := by
  obtain ⟨⟨L, hL, hLn⟩, ⟨sp, hsp, hspv⟩, ⟨pv, hpv, hpvc⟩, hout, hrlen, hrf⟩ := inv
  have hk := hpvc (comb v acc)
  generalize keepB prev (comb v acc) = b1 at hk ⊢
  have hc := hcomb v sp acc hspv
  rcases hf with rfl | rfl <;> cases b1 <;> cases last <;>
    simp [fwdBody, exec, evalE, evalIdx, pyIndex, hL, hsp, hpv, hout, hrlen, hrf, hc, hlen, hk, evalBin, isCmp,
      truthy, cmpDV_int_eq, arith, mkList2, toPayload, hLn, ← hlast, encSig] <;>
    exact ⟨⟨L, by simp [hL], hLn⟩, ⟨.val (comb v acc), by simp, by simp [toVal]⟩,
      ⟨.val (comb v acc), by simp, fun o => by simp [cmpDV_ne_val, keepB]⟩,
      by simp [hout, encSig, encSmp], by simp [hrlen], by simp [hrf]⟩

theorem fwdGo_isEmpty (comb : α → α → α) (acc : α) (s : ASig α) : (fwdScan.go comb acc s).isEmpty = s.isEmpty := by
  cases s with
  | nil => rfl
  | cons p r => obtain ⟨t, v⟩ := p; rfl

theorem isEmpty_eq_last {β : Type} (rest : List β) (k n : Nat) (h : k + (rest.length + 1) = n) :
    rest.isEmpty = decide ((k : Int) = (n : Int) - 1) := by
  cases rest with
  | nil => simp at h; simp; omega
  | cons p r => simp at h; simp; omega

theorem fwdLoop (call : Call α) (fuel : Nat) (f : String) (comb : α → α → α) (hf : f = "max" ∨ f = "min")
    (hlen : ∀ l : List (DV α), call "len" [.list l] = .ok (.int l.length))
    (hcomb : ∀ (a : α) (y : DV α) (b : α), toVal y = .ok b → call f [.val a, y] = .ok (.val (comb a b)))
    (n : Nat) : ∀ (rest : ASig α) (k : Nat) (env : Env α) (acc : α) (prev : Option α) (out : ASig α),
    k + rest.length = n → FwdInv f n env acc prev out →
    ∃ env', forLoop (fun p env => setLoc "in_sample" p.1 (setLoc "i" (.int p.2) env)) (exec call fuel (fwdBody f))
        ((rest.map encSmp).zipIdx k) env = .ok (env', none) ∧
      getLoc "sample_return" env' = .ok (encSig (out ++ dedupGo prev (fwdScan.go comb acc rest))) := by
  intro rest
  induction rest with
  | nil =>
      intro k env acc prev out _ inv
      exact ⟨env, rfl, by simpa [fwdScan.go, dedupGo] using inv.hout⟩
  | cons p rest ih =>
      intro k env acc prev out hk inv
      obtain ⟨t, v⟩ := p
      obtain ⟨env1, h1, inv1⟩ := fwdBody_step call fuel f comb hf hlen hcomb n k rest.isEmpty
        (isEmpty_eq_last rest k n (by simpa using hk)) env acc prev out t v inv
      obtain ⟨env2, h2, hout2⟩ := ih (k + 1) env1 (comb v acc) (some (comb v acc)) _
        (by simp at hk; omega) inv1
      refine ⟨env2, ?_, ?_⟩
      · rw [List.map_cons, List.zipIdx_cons, forLoop_cons]
        simp only [encSmp] at h1 ⊢
        rw [h1]
        simpa using h2
      · rw [hout2]
        simp [fwdScan.go, dedupGo_cons, fwdGo_isEmpty]

/-- the body of `visitOnce` / `visitHistorically`; `ie` is the initial value of `self.prev` -/
def fwdMethodBody (f : String) (ie : E) : S :=
  (.seq (.setLoc "sample_return" .emptyList) (.seq (.setLoc "self.prev" ie) (.seq (.setLoc "prev" .nan) (.seq (.forEnum "i" "in_sample" (.loc "sample") false (fwdBody f)) (.ret (.loc "sample_return"))))))

theorem fwdMethod_exec (call : Call α) (fuel : Nat) (f : String) (comb : α → α → α) (hf : f = "max" ∨ f = "min")
    (hlen : ∀ l : List (DV α), call "len" [.list l] = .ok (.int l.length))
    (hcomb : ∀ (a : α) (y : DV α) (b : α), toVal y = .ok b → call f [.val a, y] = .ok (.val (comb a b)))
    (ie : E) (iv : DV α) (init : α) (hie : ∀ env, evalE call env ie = .ok iv) (hiv : toVal iv = .ok init) (s : ASig α) :
    ∃ env', exec call fuel (fwdMethodBody f ie) [("sample", encSig s)] = .ok (env', some (encSig (fwdScan comb init s))) := by
  obtain ⟨env', h1, h2⟩ := fwdLoop call fuel f comb hf hlen hcomb s.length s 0
    (setLoc "prev" .nan (setLoc "self.prev" iv (setLoc "sample_return" (.list []) [("sample", encSig s)])))
    init none [] (by simp)
    ⟨⟨s.map encSmp, by simp [encSig], by simp⟩, ⟨iv, by simp, hiv⟩, ⟨.nan, by simp, fun o => by simp [cmpDV_ne_nan, keepB]⟩,
      by simp [encSig], by simp, by rcases hf with rfl | rfl <;> simp⟩
  refine ⟨env', ?_⟩
  simp only [encSig] at h1
  simp [fwdMethodBody, exec, evalE, hie, encSig, h1]
  rw [h2]
  simp [fwdScan, dedup, encSig]

theorem callAt_len (fuel k : Nat) (l : List (DV α)) :
    callAt Gen.Dense.fns fuel k "len" [.list l] = .ok (.int l.length) := by
  rw [callAt_builtin _ _ _ _ _ rfl]; rfl

theorem callAt_max (fuel k : Nat) (a : α) (y : DV α) (b : α) (h : toVal y = .ok b) :
    callAt Gen.Dense.fns fuel k "max" [.val a, y] = .ok (.val (pmax a b)) := by
  rw [callAt_builtin _ _ _ _ _ rfl]
  show (do let x ← toVal (DV.val a); let y' ← toVal y; pure (DV.val (pmax x y')) : Except PyErr (DV α)) = _
  rw [h]; rfl

theorem callAt_min (fuel k : Nat) (a : α) (y : DV α) (b : α) (h : toVal y = .ok b) :
    callAt Gen.Dense.fns fuel k "min" [.val a, y] = .ok (.val (pmin a b)) := by
  rw [callAt_builtin _ _ _ _ _ rfl]
  show (do let x ← toVal (DV.val a); let y' ← toVal y; pure (DV.val (pmin x y')) : Except PyErr (DV α)) = _
  rw [h]; rfl

theorem visitOnce_body : Gen.Dense.visitOnce.body = fwdMethodBody "max" (.neg .inf) := rfl
theorem visitHistorically_body : Gen.Dense.visitHistorically.body = fwdMethodBody "min" .inf := rfl

/-- `visitOnce`, translated from the source, computes the mirror's `fwdScan pmax -inf`. -/
theorem _root_.Rtamt.Py.Dn.gen_visitOnce (fuel : Nat) (s : ASig α) :
    callD fuel Gen.Dense.visitOnce [s] none [] = .ok (fwdScan pmax Val.ninf s) := by
  obtain ⟨env', h⟩ := fwdMethod_exec (callAt Gen.Dense.fns fuel depth) fuel "max" pmax (.inl rfl)
    (callAt_len fuel depth) (callAt_max fuel depth) (.neg .inf) (.uinf true) Val.ninf
    (fun env => by simp [evalE, evalNeg]) rfl s
  unfold callD
  rw [visitOnce_body]
  simp [Gen.Dense.visitOnce, h]

/-- `visitHistorically`, translated from the source, computes the mirror's `fwdScan pmin inf`. -/
theorem _root_.Rtamt.Py.Dn.gen_visitHistorically (fuel : Nat) (s : ASig α) :
    callD fuel Gen.Dense.visitHistorically [s] none [] = .ok (fwdScan pmin Val.pinf s) := by
  obtain ⟨env', h⟩ := fwdMethod_exec (callAt Gen.Dense.fns fuel depth) fuel "min" pmin (.inr rfl)
    (callAt_len fuel depth) (callAt_min fuel depth) .inf (.uinf false) Val.pinf
    (fun env => by simp [evalE]) rfl s
  unfold callD
  rw [visitHistorically_body]
  simp [Gen.Dense.visitHistorically, h]

/-! ### `visitEventually` / `visitAlways` -/

/-- `out_value == next`, where `next` is `nan` at the start -/
def eqNextB (nx : Option α) (o : α) : Bool :=
  match nx with
  | none => false
  | some x => !vne o x

/-- the step function of `backScanG` -/
def bstep {γ : Type} (g : α → γ → α) (n : Nat) (st : α × Option α × ASig α × Nat) (p : Tm × γ) :
    α × Option α × ASig α × Nat :=
  let (acc, nx, out, i) := st
  let ov := g acc p.2
  let eqNext := match nx with
    | none => false
    | some x => !vne ov x
  let out' := if eqNext && decide (i + 2 < n) then out.tail else out
  (ov, some ov, (p.1, ov) :: out', i - 1)

theorem backScanG_eq {γ : Type} (g : α → γ → α) (init : α) (nx0 : Option α) (s : List (Tm × γ)) :
    backScanG g init nx0 s = (s.reverse.foldl (bstep g s.length) (init, nx0, [], s.length - 1)).2.2.1 := rfl

theorem bstep_eq {γ : Type} (g : α → γ → α) (n : Nat) (acc : α) (nx : Option α) (out : ASig α) (i : Nat) (p : Tm × γ) :
    bstep g n (acc, nx, out, i) p =
      (g acc p.2, some (g acc p.2),
        (p.1, g acc p.2) :: (if eqNextB nx (g acc p.2) && decide (i + 2 < n) then out.tail else out), i - 1) := by
  cases nx <;> rfl

/-- the items of `reversed(list(enumerate(l)))`, for the reversed list `r` and the index `i` of its head -/
def revItems {β : Type} (enc : β → DV α) : List β → Nat → List (DV α × Nat)
  | [], _ => []
  | p :: r, i => (enc p, i) :: revItems enc r (i - 1)

theorem zipIdx_reverse_aux {β : Type} (enc : β → DV α) (l : List β) :
    ((l.reverse).map enc).zipIdx.reverse = revItems enc l (l.length - 1) := by
  induction l with
  | nil => rfl
  | cons a l ih =>
      rw [List.reverse_cons, List.map_append, List.zipIdx_append, List.reverse_append, ih]
      simp [revItems]

theorem zipIdx_reverse {β : Type} (enc : β → DV α) (l : List β) :
    (l.map enc).zipIdx.reverse = revItems enc l.reverse (l.length - 1) := by
  have := zipIdx_reverse_aux enc l.reverse
  simpa using this

theorem cmpDV_eq_val (a b : α) : cmpDV .eq (.val a) (.val b) = .ok (!vne a b) := by
  simp [cmpDV, isTimeLike, isValLike, toVal, cmpVal, numEq, vne]
theorem cmpDV_eq_nan (a : α) : cmpDV .eq (.val a) (.nan) = .ok false := by
  simp [cmpDV, isCmp]

/-- the body of the loop of `visitEventually` (`f = "max"`) and `visitAlways` (`f = "min"`) -/
def bwdBody (f : String) : S :=
  (.seq (.setLoc "out_time" (.idx (.loc "in_sample") (.int 0))) (.seq (.setLoc "out_value" (.call2 f (.idx (.loc "in_sample") (.int 1)) (.loc "self.next"))) (.seq (.setLoc "self.next" (.loc "out_value")) (.seq (.ite (.and_ (.bin .eq (.loc "out_value") (.loc "next")) (.bin .lt (.loc "i") (.bin .sub (.call1 "len" (.loc "sample")) (.int 2)))) (.delIdx "sample_return" (.int 0)) .skip) (.seq (.insert0 "sample_return" (.list2 (.loc "out_time") (.loc "out_value"))) (.setLoc "next" (.loc "out_value")))))))

/-- what the loop of `visitEventually` maintains: `n` is the length of the whole input, `acc` the running maximum
    (`self.next`), `nx` the value of the sample after this one (`nan` at the start), `out` the output built so far,
    `i` the index of the next item -/
structure BwdInv (f : String) (n : Nat) (env : Env α) (acc : α) (nx : Option α) (out : ASig α) (i : Nat) : Prop where
  hsample : ∃ L, getLoc "sample" env = .ok (.list L) ∧ L.length = n
  hsn : ∃ sn, getLoc "self.next" env = .ok sn ∧ toVal sn = .ok acc
  hnx : ∃ nv, getLoc "next" env = .ok nv ∧ ∀ o : α, cmpDV .eq (.val o) nv = .ok (eqNextB nx o)
  hout : getLoc "sample_return" env = .ok (encSig out)
  hne : i + 2 < n → out ≠ []
  hrlen : resolve env "len" = "len"
  hrf : resolve env f = f

theorem bwdBody_step (call : Call α) (fuel : Nat) (f : String) (comb : α → α → α) (hf : f = "max" ∨ f = "min")
    (hlen : ∀ l : List (DV α), call "len" [.list l] = .ok (.int l.length))
    (hcomb : ∀ (a : α) (y : DV α) (b : α), toVal y = .ok b → call f [.val a, y] = .ok (.val (comb a b)))
    (n i : Nat) (env : Env α) (acc : α) (nx : Option α) (out : ASig α) (t : Tm) (v : α)
    (inv : BwdInv f n env acc nx out i) :
    ∃ env', exec call fuel (bwdBody f) (setLoc "in_sample" (.smp t (.val v)) (setLoc "i" (.int i) env)) = .ok (env', none) ∧
      BwdInv f n env' (comb v acc) (some (comb v acc))
        ((t, comb v acc) :: (if eqNextB nx (comb v acc) && decide (i + 2 < n) then out.tail else out)) (i - 1) := by
  obtain ⟨⟨L, hL, hLn⟩, ⟨sn, hsn, hsnv⟩, ⟨nv, hnv, hnvc⟩, hout, hne, hrlen, hrf⟩ := inv
  have hk := hnvc (comb v acc)
  generalize eqNextB nx (comb v acc) = b1 at hk ⊢
  have hc := hcomb v sn acc hsnv
  have hb2 : decide ((i : Int) < (n : Int) - 2) = decide (i + 2 < n) := decide_eq_decide.mpr (by omega)
  have hne' : decide (i + 2 < n) = true → out ≠ [] := fun h => hne (by simpa using h)
  generalize decide (i + 2 < n) = b2 at hb2 hne' ⊢
  have hf1 : f ≠ "in_sample" := by rcases hf with rfl | rfl <;> decide
  have hf2 : f ≠ "i" := by rcases hf with rfl | rfl <;> decide
  have hf3 : f ≠ "out_time" := by rcases hf with rfl | rfl <;> decide
  have hf4 : f ≠ "out_value" := by rcases hf with rfl | rfl <;> decide
  have hf5 : f ≠ "self.next" := by rcases hf with rfl | rfl <;> decide
  have hf6 : f ≠ "sample_return" := by rcases hf with rfl | rfl <;> decide
  have hf7 : f ≠ "next" := by rcases hf with rfl | rfl <;> decide
  simp [bwdBody, exec, evalE, evalIdx, pyIndex, hL, hsn, hnv, hout, hrlen, hrf, hc, hlen, hk, evalBin, isCmp,
        truthy, cmpDV_int_lt, arith, mkList2, toPayload, hLn, hb2, encSig, delAt, hf1, hf2, hf3, hf4, hf5, hf6, hf7]
  cases b1 <;> cases b2 <;> cases out <;>
    first
    | exact absurd rfl (hne' rfl)
    | (simp [hout, encSig]
       exact ⟨⟨L, by simp [hL], hLn⟩, ⟨.val (comb v acc), by simp, by simp [toVal]⟩,
        ⟨.val (comb v acc), by simp, fun o => by simp [cmpDV_eq_val, eqNextB]⟩,
        by simp [hout, encSig, encSmp], by simp, by simp [hrlen], by simp [hrf, hf1, hf2, hf3, hf4, hf5, hf6, hf7]⟩)

theorem bwdLoop (call : Call α) (fuel : Nat) (f : String) (comb : α → α → α) (hf : f = "max" ∨ f = "min")
    (hlen : ∀ l : List (DV α), call "len" [.list l] = .ok (.int l.length))
    (hcomb : ∀ (a : α) (y : DV α) (b : α), toVal y = .ok b → call f [.val a, y] = .ok (.val (comb a b)))
    (n : Nat) : ∀ (r : ASig α) (i : Nat) (env : Env α) (acc : α) (nx : Option α) (out : ASig α),
    BwdInv f n env acc nx out i →
    ∃ env', forLoop (fun p env => setLoc "in_sample" p.1 (setLoc "i" (.int p.2) env)) (exec call fuel (bwdBody f))
        (revItems encSmp r i) env = .ok (env', none) ∧
      getLoc "sample_return" env' =
        .ok (encSig (r.foldl (bstep (fun acc v => comb v acc) n) (acc, nx, out, i)).2.2.1) := by
  intro r
  induction r with
  | nil =>
      intro i env acc nx out inv
      exact ⟨env, rfl, by simpa using inv.hout⟩
  | cons p r ih =>
      intro i env acc nx out inv
      obtain ⟨t, v⟩ := p
      obtain ⟨env1, h1, inv1⟩ := bwdBody_step call fuel f comb hf hlen hcomb n i env acc nx out t v inv
      obtain ⟨env2, h2, hout2⟩ := ih (i - 1) env1 (comb v acc) (some (comb v acc)) _ inv1
      refine ⟨env2, ?_, ?_⟩
      · rw [revItems, forLoop_cons]
        simp only [encSmp] at h1 ⊢
        rw [h1]
        simpa using h2
      · rw [hout2, List.foldl_cons, bstep_eq]

/-- the body of `visitEventually` / `visitAlways`; `ie` is the initial value of `self.next` -/
def bwdMethodBody (f : String) (ie : E) : S :=
  (.seq (.setLoc "sample_return" .emptyList) (.seq (.setLoc "self.next" ie) (.seq (.setLoc "next" .nan) (.seq (.forEnum "i" "in_sample" (.loc "sample") true (bwdBody f)) (.ret (.loc "sample_return"))))))

theorem bwdMethod_exec (call : Call α) (fuel : Nat) (f : String) (comb : α → α → α) (hf : f = "max" ∨ f = "min")
    (hlen : ∀ l : List (DV α), call "len" [.list l] = .ok (.int l.length))
    (hcomb : ∀ (a : α) (y : DV α) (b : α), toVal y = .ok b → call f [.val a, y] = .ok (.val (comb a b)))
    (ie : E) (iv : DV α) (init : α) (hie : ∀ env, evalE call env ie = .ok iv) (hiv : toVal iv = .ok init) (s : ASig α) :
    ∃ env', exec call fuel (bwdMethodBody f ie) [("sample", encSig s)] = .ok (env', some (encSig (backScan comb init s))) := by
  obtain ⟨env', h1, h2⟩ := bwdLoop call fuel f comb hf hlen hcomb s.length s.reverse (s.length - 1)
    (setLoc "next" .nan (setLoc "self.next" iv (setLoc "sample_return" (.list []) [("sample", encSig s)])))
    init none []
    ⟨⟨s.map encSmp, by simp [encSig], by simp⟩, ⟨iv, by simp, hiv⟩, ⟨.nan, by simp, fun o => by simp [cmpDV_eq_nan, eqNextB]⟩,
      by simp [encSig], by omega, by simp, by rcases hf with rfl | rfl <;> simp⟩
  refine ⟨env', ?_⟩
  rw [← zipIdx_reverse] at h1
  simp only [encSig] at h1
  simp [bwdMethodBody, exec, evalE, hie, encSig, h1]
  rw [h2]
  simp [backScan, backScanG_eq, encSig]

theorem visitEventually_body : Gen.Dense.visitEventually.body = bwdMethodBody "max" (.neg .inf) := rfl
theorem visitAlways_body : Gen.Dense.visitAlways.body = bwdMethodBody "min" .inf := rfl

/-- `visitEventually`, translated from the source, computes the mirror's `backScan pmax -inf`. -/
theorem _root_.Rtamt.Py.Dn.gen_visitEventually (fuel : Nat) (s : ASig α) :
    callD fuel Gen.Dense.visitEventually [s] none [] = .ok (backScan pmax Val.ninf s) := by
  obtain ⟨env', h⟩ := bwdMethod_exec (callAt Gen.Dense.fns fuel depth) fuel "max" pmax (.inl rfl)
    (callAt_len fuel depth) (callAt_max fuel depth) (.neg .inf) (.uinf true) Val.ninf
    (fun env => by simp [evalE, evalNeg]) rfl s
  unfold callD
  rw [visitEventually_body]
  simp [Gen.Dense.visitEventually, h]

/-- `visitAlways`, translated from the source, computes the mirror's `backScan pmin inf`. -/
theorem _root_.Rtamt.Py.Dn.gen_visitAlways (fuel : Nat) (s : ASig α) :
    callD fuel Gen.Dense.visitAlways [s] none [] = .ok (backScan pmin Val.pinf s) := by
  obtain ⟨env', h⟩ := bwdMethod_exec (callAt Gen.Dense.fns fuel depth) fuel "min" pmin (.inr rfl)
    (callAt_len fuel depth) (callAt_min fuel depth) .inf (.uinf false) Val.pinf
    (fun env => by simp [evalE]) rfl s
  unfold callD
  rw [visitAlways_body]
  simp [Gen.Dense.visitAlways, h]

/-! ### `since_operation` -/

/-- a sample of the list `intersection(l, r, split)` returns -/
def encSmpPair (p : Tm × (α × α)) : DV α := .smp p.1 (encPair p.2)

theorem encSigP_pair (o : List (Tm × (α × α))) : encSigP encPair o = (.list (o.map encSmpPair) : DV α) := rfl

theorem toPayload_encPair (p : α × α) : toPayload (encPair p) = .ok (encPair p) := rfl

theorem cmpDV_ne_encPair (p q : α × α) : cmpDV .ne (encPair p) (encPair q) = .ok (pairNe p q) := rfl

theorem cmpDV_ne_val_of (o acc : α) (pv : DV α) (h : pv = .val acc ∨ (pv = .uinf true ∧ acc = Val.ninf)) :
    cmpDV .ne (.val o) pv = .ok (vne o acc) := by
  rcases h with rfl | ⟨rfl, rfl⟩ <;> simp [cmpDV, isTimeLike, isValLike, toVal, cmpVal]

theorem cmpDV_eq_val_of (o acc : α) (pv : DV α) (h : pv = .val acc ∨ (pv = .uinf true ∧ acc = Val.ninf)) :
    cmpDV .eq (.val o) pv = .ok (!vne o acc) := by
  rcases h with rfl | ⟨rfl, rfl⟩ <;> simp [cmpDV, isTimeLike, isValLike, toVal, cmpVal, numEq, vne]

/-- the body of the loop of `since_operation` -/
def sinceBody : S :=
  (.seq (.setLoc "t" (.idx (.loc "sample") (.int 0))) (.seq (.setLoc "o1_val" (.idx (.idx (.loc "sample") (.int 1)) (.int 0))) (.seq (.setLoc "o2_val" (.idx (.idx (.loc "sample") (.int 1)) (.int 1))) (.seq (.setLoc "result" (.call2 "max" (.call2 "min" (.loc "o1_val") (.loc "o2_val")) (.call2 "min" (.loc "o1_val") (.loc "prev")))) (.seq (.ite (.or_ (.bin .eq (.loc "i") (.int 0)) (.or_ (.bin .ne (.loc "result") (.loc "prev")) (.bin .eq (.loc "i") (.bin .sub (.call1 "len" (.loc "iout")) (.int 1))))) (.appendLoc "sample_return" (.list2 (.loc "t") (.loc "result"))) .skip) (.setLoc "prev" (.loc "result")))))))

/-- what the loop of `since_operation` maintains: `n` is the length of `iout`, `acc` the previous result (`prev`,
    `-inf` at the start), `out` the output built so far -/
structure SinceInv (n : Nat) (env : Env α) (acc : α) (out : ASig α) : Prop where
  hiout : ∃ L, getLoc "iout" env = .ok (.list L) ∧ L.length = n
  hpv : ∃ pv, getLoc "prev" env = .ok pv ∧ toVal pv = .ok acc ∧ ∀ o : α, cmpDV .ne (.val o) pv = .ok (vne o acc)
  hout : getLoc "sample_return" env = .ok (encSig out)
  hrlen : resolve env "len" = "len"
  hrmax : resolve env "max" = "max"
  hrmin : resolve env "min" = "min"

theorem sinceBody_step (call : Call α) (fuel : Nat)
    (hlen : ∀ l : List (DV α), call "len" [.list l] = .ok (.int l.length))
    (hmax : ∀ (a : α) (y : DV α) (b : α), toVal y = .ok b → call "max" [.val a, y] = .ok (.val (pmax a b)))
    (hmin : ∀ (a : α) (y : DV α) (b : α), toVal y = .ok b → call "min" [.val a, y] = .ok (.val (pmin a b)))
    (n k : Nat) (last : Bool) (hlast : last = decide ((k : Int) = (n : Int) - 1))
    (env : Env α) (acc : α) (out : ASig α) (t : Tm) (a b : α)
    (inv : SinceInv n env acc out) :
    ∃ env', exec call fuel sinceBody (setLoc "sample" (.smp t (.pair (.val a) (.val b))) (setLoc "i" (.int k) env))
        = .ok (env', none) ∧
      SinceInv n env' (sinceVal acc (a, b))
        (out ++ if decide (k = 0) || vne (sinceVal acc (a, b)) acc || last then [(t, sinceVal acc (a, b))] else []) := by
  obtain ⟨⟨L, hL, hLn⟩, ⟨pv, hpv, hpvv, hpvc⟩, hout, hrlen, hrmax, hrmin⟩ := inv
  have hk := hpvc (sinceVal acc (a, b))
  have h1 := hmin a (.val b) b rfl
  have h2 := hmin a pv acc hpvv
  have h3 := hmax (pmin a b) (.val (pmin a acc)) (pmin a acc) rfl
  have hsv : pmax (pmin a b) (pmin a acc) = sinceVal acc (a, b) := rfl
  rw [hsv] at h3
  generalize sinceVal acc (a, b) = o at hk h3 ⊢
  generalize vne o acc = b1 at hk ⊢
  have hb0 : decide ((k : Int) = 0) = decide (k = 0) := by simp
  generalize hb0' : decide (k = 0) = b0 at hb0 ⊢
  simp [sinceBody, exec, evalE, evalIdx, pyIndex, hL, hpv, hout, hrlen, hrmax, hrmin, h1, h2, h3, hlen, hk, evalBin, isCmp,
    truthy, cmpDV_int_eq, arith, mkList2, toPayload, hLn, ← hlast, encSig, hb0, hb0']
  cases b0 <;> cases b1 <;> cases last <;> simp <;>
    exact ⟨⟨L, by simp [hL], hLn⟩,
      ⟨.val o, by simp, by simp [toVal], fun o' => cmpDV_ne_val_of o' o _ (.inl rfl)⟩,
      by simp [hout, encSig, encSmp], by simp [hrlen], by simp [hrmax], by simp [hrmin]⟩

theorem sinceGo_isEmpty (acc : α) (s : List (Tm × (α × α))) : (sinceOp.go acc s).isEmpty = s.isEmpty := by
  cases s with
  | nil => rfl
  | cons p r => obtain ⟨t, v⟩ := p; rfl

theorem sinceLoop (call : Call α) (fuel : Nat)
    (hlen : ∀ l : List (DV α), call "len" [.list l] = .ok (.int l.length))
    (hmax : ∀ (a : α) (y : DV α) (b : α), toVal y = .ok b → call "max" [.val a, y] = .ok (.val (pmax a b)))
    (hmin : ∀ (a : α) (y : DV α) (b : α), toVal y = .ok b → call "min" [.val a, y] = .ok (.val (pmin a b)))
    (n : Nat) : ∀ (rest : List (Tm × (α × α))) (k : Nat) (env : Env α) (acc : α) (out : ASig α),
    k + rest.length = n → SinceInv n env acc out →
    ∃ env', forLoop (fun p env => setLoc "sample" p.1 (setLoc "i" (.int p.2) env)) (exec call fuel sinceBody)
        ((rest.map encSmpPair).zipIdx k) env = .ok (env', none) ∧
      getLoc "sample_return" env' =
        .ok (encSig (out ++ dedupGo (if k = 0 then none else some acc) (sinceOp.go acc rest))) := by
  intro rest
  induction rest with
  | nil =>
      intro k env acc out _ inv
      exact ⟨env, rfl, by simpa [sinceOp.go, dedupGo] using inv.hout⟩
  | cons p rest ih =>
      intro k env acc out hk inv
      obtain ⟨t, a, b⟩ := p
      obtain ⟨env1, h1, inv1⟩ := sinceBody_step call fuel hlen hmax hmin n k rest.isEmpty
        (isEmpty_eq_last rest k n (by simpa using hk)) env acc out t a b inv
      obtain ⟨env2, h2, hout2⟩ := ih (k + 1) env1 (sinceVal acc (a, b)) _ (by simp at hk; omega) inv1
      refine ⟨env2, ?_, ?_⟩
      · rw [List.map_cons, List.zipIdx_cons, forLoop_cons]
        simp only [encSmpPair, encPair] at h1 ⊢
        rw [h1]
        simpa using h2
      · rw [hout2]
        by_cases hk0 : k = 0 <;> simp [sinceOp.go, dedupGo_cons, sinceGo_isEmpty, keepB, hk0]

/-- `since_operation` after the call of `intersection` -/
def sinceTail : S :=
  (.seq (.setLoc "sample_return" .emptyList) (.seq (.setLoc "prev" (.neg .inf)) (.seq (.forEnum "i" "sample" (.loc "iout") false sinceBody) (.ret (.loc "sample_return")))))

theorem sinceTail_exec (call : Call α) (fuel : Nat)
    (hlen : ∀ l : List (DV α), call "len" [.list l] = .ok (.int l.length))
    (hmax : ∀ (a : α) (y : DV α) (b : α), toVal y = .ok b → call "max" [.val a, y] = .ok (.val (pmax a b)))
    (hmin : ∀ (a : α) (y : DV α) (b : α), toVal y = .ok b → call "min" [.val a, y] = .ok (.val (pmin a b)))
    (env : Env α) (o : List (Tm × (α × α))) (hiout : getLoc "iout" env = .ok (encSigP encPair o))
    (hrlen : resolve env "len" = "len") (hrmax : resolve env "max" = "max") (hrmin : resolve env "min" = "min") :
    ∃ env', exec call fuel sinceTail env = .ok (env', some (encSig (dedup (sinceOp.go Val.ninf o)))) := by
  obtain ⟨env', h1, h2⟩ := sinceLoop call fuel hlen hmax hmin o.length o 0
    (setLoc "prev" (.uinf true) (setLoc "sample_return" (.list []) env)) Val.ninf [] (by simp)
    ⟨⟨o.map encSmpPair, by simp [hiout, encSigP_pair], by simp⟩,
      ⟨.uinf true, by simp, rfl, fun o' => cmpDV_ne_val_of o' _ _ (.inr ⟨rfl, rfl⟩)⟩,
      by simp [encSig], by simp [hrlen], by simp [hrmax], by simp [hrmin]⟩
  refine ⟨env', ?_⟩
  simp [sinceTail, exec, evalE, evalNeg, hiout, encSigP_pair, h1]
  rw [h2]
  simp [dedup]

theorem fn_since_operation_eq : Gen.Dense.fn_since_operation =
    { name := "since_operation", params := ["sample_left", "sample_right"],
      body := .seq (.unpack ["iout", "last", "a", "b"] (.call3 "intersection" (.loc "sample_left") (.loc "sample_right") (.fnRef "split"))) sinceTail } := rfl

/-- `since_operation`, translated from the source, computes the mirror's `sinceOp` - given the contract of the translated
    `intersection` and of `split`. -/
theorem _root_.Rtamt.Py.Dn.gen_since_operation (fuel k : Nat) (hI : InterSpec α fuel k)
    (hsplit : ∀ a b : α, callAt Gen.Dense.fns fuel (k + 1) "split" [.val a, .val b] = .ok (encPair (a, b)))
    (l r : ASig α) (h : l.length + r.length + 4 ≤ fuel) :
    callAt Gen.Dense.fns fuel (k + 3) "since_operation" [encSig l, encSig r] = (sinceOp l r).map encSig := by
  have hint := hI (α × α) encPair (fun a b => (a, b)) pairNe "split" hsplit toPayload_encPair cmpDV_ne_encPair l r h
  rw [callAt_fn _ _ _ _ Gen.Dense.fn_since_operation _ rfl, fn_since_operation_eq]
  unfold sinceOp
  cases hio : inter (fun a b => (a, b)) pairNe l r with
  | error e =>
      rw [hio] at hint
      simp [runFn, exec, evalE, hint]
  | ok o =>
      rw [hio] at hint
      obtain ⟨x, y, z, hint⟩ := hint
      obtain ⟨env', h2⟩ := sinceTail_exec (callAt Gen.Dense.fns fuel (k + 2)) fuel (callAt_len fuel (k + 2))
        (callAt_max fuel (k + 2)) (callAt_min fuel (k + 2))
        (setLoc "b" z (setLoc "a" y (setLoc "last" x (setLoc "iout" (encSigP encPair o)
          [("sample_left", encSig l), ("sample_right", encSig r)])))) o (by simp) (by simp) (by simp) (by simp)
      simp [runFn, exec, evalE, hint, h2]

/-! ### `until_operation` -/

/-- the body of the loop of `until_operation` -/
def untilBody : S :=
  (.seq (.setLoc "t" (.idx (.loc "sample") (.int 0))) (.seq (.setLoc "o1_val" (.idx (.idx (.loc "sample") (.int 1)) (.int 0))) (.seq (.setLoc "o2_val" (.idx (.idx (.loc "sample") (.int 1)) (.int 1))) (.seq (.setLoc "result" (.call2 "max" (.call2 "min" (.loc "o1_val") (.loc "o2_val")) (.call2 "min" (.loc "o1_val") (.loc "next")))) (.seq (.ite (.and_ (.bin .eq (.loc "result") (.loc "next")) (.bin .lt (.loc "i") (.bin .sub (.call1 "len" (.loc "iout")) (.int 2)))) (.delIdx "sample_return" (.int 0)) .skip) (.seq (.insert0 "sample_return" (.list2 (.loc "t") (.loc "result"))) (.setLoc "next" (.loc "result"))))))))

/-- what the loop of `until_operation` maintains: `n` is the length of `iout`, `acc` the result at the sample after this
    one (`next`, `-inf` at the start), `out` the output built so far, `i` the index of the next item -/
structure UntilInv (n : Nat) (env : Env α) (acc : α) (out : ASig α) (i : Nat) : Prop where
  hiout : ∃ L, getLoc "iout" env = .ok (.list L) ∧ L.length = n
  hnv : ∃ nv, getLoc "next" env = .ok nv ∧ toVal nv = .ok acc ∧ ∀ o : α, cmpDV .eq (.val o) nv = .ok (!vne o acc)
  hout : getLoc "sample_return" env = .ok (encSig out)
  hne : i + 2 < n → out ≠ []
  hrlen : resolve env "len" = "len"
  hrmax : resolve env "max" = "max"
  hrmin : resolve env "min" = "min"

theorem untilBody_step (call : Call α) (fuel : Nat)
    (hlen : ∀ l : List (DV α), call "len" [.list l] = .ok (.int l.length))
    (hmax : ∀ (a : α) (y : DV α) (b : α), toVal y = .ok b → call "max" [.val a, y] = .ok (.val (pmax a b)))
    (hmin : ∀ (a : α) (y : DV α) (b : α), toVal y = .ok b → call "min" [.val a, y] = .ok (.val (pmin a b)))
    (n i : Nat) (env : Env α) (acc : α) (out : ASig α) (t : Tm) (a b : α)
    (inv : UntilInv n env acc out i) :
    ∃ env', exec call fuel untilBody (setLoc "sample" (.smp t (.pair (.val a) (.val b))) (setLoc "i" (.int i) env))
        = .ok (env', none) ∧
      UntilInv n env' (sinceVal acc (a, b))
        ((t, sinceVal acc (a, b)) ::
          (if !vne (sinceVal acc (a, b)) acc && decide (i + 2 < n) then out.tail else out)) (i - 1) := by
  obtain ⟨⟨L, hL, hLn⟩, ⟨nv, hnv, hnvv, hnvc⟩, hout, hne, hrlen, hrmax, hrmin⟩ := inv
  have hk := hnvc (sinceVal acc (a, b))
  have h1 := hmin a (.val b) b rfl
  have h2 := hmin a nv acc hnvv
  have h3 := hmax (pmin a b) (.val (pmin a acc)) (pmin a acc) rfl
  have hsv : pmax (pmin a b) (pmin a acc) = sinceVal acc (a, b) := rfl
  rw [hsv] at h3
  generalize sinceVal acc (a, b) = o at hk h3 ⊢
  generalize (!vne o acc) = b1 at hk ⊢
  have hb2 : decide ((i : Int) < (n : Int) - 2) = decide (i + 2 < n) := decide_eq_decide.mpr (by omega)
  have hne' : decide (i + 2 < n) = true → out ≠ [] := fun h => hne (by simpa using h)
  generalize decide (i + 2 < n) = b2 at hb2 hne' ⊢
  simp [untilBody, exec, evalE, evalIdx, pyIndex, hL, hnv, hout, hrlen, hrmax, hrmin, h1, h2, h3, hlen, hk, evalBin, isCmp,
    truthy, cmpDV_int_lt, arith, mkList2, toPayload, hLn, hb2, encSig, delAt]
  cases b1 <;> cases b2 <;> cases out <;>
    first
    | exact absurd rfl (hne' rfl)
    | (simp [hout, encSig]
       exact ⟨⟨L, by simp [hL], hLn⟩,
        ⟨.val o, by simp, by simp [toVal], fun o' => cmpDV_eq_val_of o' o _ (.inl rfl)⟩,
        by simp [hout, encSig, encSmp], by simp, by simp [hrlen], by simp [hrmax], by simp [hrmin]⟩)

theorem untilLoop (call : Call α) (fuel : Nat)
    (hlen : ∀ l : List (DV α), call "len" [.list l] = .ok (.int l.length))
    (hmax : ∀ (a : α) (y : DV α) (b : α), toVal y = .ok b → call "max" [.val a, y] = .ok (.val (pmax a b)))
    (hmin : ∀ (a : α) (y : DV α) (b : α), toVal y = .ok b → call "min" [.val a, y] = .ok (.val (pmin a b)))
    (n : Nat) : ∀ (r : List (Tm × (α × α))) (i : Nat) (env : Env α) (acc : α) (out : ASig α),
    UntilInv n env acc out i →
    ∃ env', forLoop (fun p env => setLoc "sample" p.1 (setLoc "i" (.int p.2) env)) (exec call fuel untilBody)
        (revItems encSmpPair r i) env = .ok (env', none) ∧
      getLoc "sample_return" env' = .ok (encSig (r.foldl (bstep sinceVal n) (acc, some acc, out, i)).2.2.1) := by
  intro r
  induction r with
  | nil =>
      intro i env acc out inv
      exact ⟨env, rfl, by simpa using inv.hout⟩
  | cons p r ih =>
      intro i env acc out inv
      obtain ⟨t, a, b⟩ := p
      obtain ⟨env1, h1, inv1⟩ := untilBody_step call fuel hlen hmax hmin n i env acc out t a b inv
      obtain ⟨env2, h2, hout2⟩ := ih (i - 1) env1 (sinceVal acc (a, b)) _ inv1
      refine ⟨env2, ?_, ?_⟩
      · rw [revItems, forLoop_cons]
        simp only [encSmpPair, encPair] at h1 ⊢
        rw [h1]
        simpa using h2
      · rw [hout2, List.foldl_cons, bstep_eq]
        simp [eqNextB]

/-- `until_operation` after the call of `intersection` -/
def untilTail : S :=
  (.seq (.setLoc "sample_return" .emptyList) (.seq (.setLoc "next" (.neg .inf)) (.seq (.forEnum "i" "sample" (.loc "iout") true untilBody) (.ret (.loc "sample_return")))))

theorem untilTail_exec (call : Call α) (fuel : Nat)
    (hlen : ∀ l : List (DV α), call "len" [.list l] = .ok (.int l.length))
    (hmax : ∀ (a : α) (y : DV α) (b : α), toVal y = .ok b → call "max" [.val a, y] = .ok (.val (pmax a b)))
    (hmin : ∀ (a : α) (y : DV α) (b : α), toVal y = .ok b → call "min" [.val a, y] = .ok (.val (pmin a b)))
    (env : Env α) (o : List (Tm × (α × α))) (hiout : getLoc "iout" env = .ok (encSigP encPair o))
    (hrlen : resolve env "len" = "len") (hrmax : resolve env "max" = "max") (hrmin : resolve env "min" = "min") :
    ∃ env', exec call fuel untilTail env = .ok (env', some (encSig (backScanG sinceVal Val.ninf (some Val.ninf) o))) := by
  obtain ⟨env', h1, h2⟩ := untilLoop call fuel hlen hmax hmin o.length o.reverse (o.length - 1)
    (setLoc "next" (.uinf true) (setLoc "sample_return" (.list []) env)) Val.ninf []
    ⟨⟨o.map encSmpPair, by simp [hiout, encSigP_pair], by simp⟩,
      ⟨.uinf true, by simp, rfl, fun o' => cmpDV_eq_val_of o' _ _ (.inr ⟨rfl, rfl⟩)⟩,
      by simp [encSig], by omega, by simp [hrlen], by simp [hrmax], by simp [hrmin]⟩
  refine ⟨env', ?_⟩
  rw [← zipIdx_reverse] at h1
  simp [untilTail, exec, evalE, evalNeg, hiout, encSigP_pair, h1]
  rw [h2]
  simp [backScanG_eq]

theorem fn_until_operation_eq : Gen.Dense.fn_until_operation =
    { name := "until_operation", params := ["sample_left", "sample_right"],
      body := .seq (.unpack ["iout", "last", "a", "b"] (.call3 "intersection" (.loc "sample_left") (.loc "sample_right") (.fnRef "split"))) untilTail } := rfl

/-- `until_operation`, translated from the source, computes the mirror's `untilOp` - given the contract of the translated
    `intersection` and of `split`. -/
theorem _root_.Rtamt.Py.Dn.gen_until_operation (fuel k : Nat) (hI : InterSpec α fuel k)
    (hsplit : ∀ a b : α, callAt Gen.Dense.fns fuel (k + 1) "split" [.val a, .val b] = .ok (encPair (a, b)))
    (l r : ASig α) (h : l.length + r.length + 4 ≤ fuel) :
    callAt Gen.Dense.fns fuel (k + 3) "until_operation" [encSig l, encSig r] = (untilOp l r).map encSig := by
  have hint := hI (α × α) encPair (fun a b => (a, b)) pairNe "split" hsplit toPayload_encPair cmpDV_ne_encPair l r h
  rw [callAt_fn _ _ _ _ Gen.Dense.fn_until_operation _ rfl, fn_until_operation_eq]
  unfold untilOp
  cases hio : inter (fun a b => (a, b)) pairNe l r with
  | error e =>
      rw [hio] at hint
      simp [runFn, exec, evalE, hint]
  | ok o =>
      rw [hio] at hint
      obtain ⟨x, y, z, hint⟩ := hint
      obtain ⟨env', h2⟩ := untilTail_exec (callAt Gen.Dense.fns fuel (k + 2)) fuel (callAt_len fuel (k + 2))
        (callAt_max fuel (k + 2)) (callAt_min fuel (k + 2))
        (setLoc "b" z (setLoc "a" y (setLoc "last" x (setLoc "iout" (encSigP encPair o)
          [("sample_left", encSig l), ("sample_right", encSig r)])))) o (by simp) (by simp) (by simp) (by simp)
      simp [runFn, exec, evalE, hint, h2]

/-- `split` (the hypothesis `hsplit` of `gen_since_operation` / `gen_until_operation`) holds at every depth. -/
theorem gen_split (fuel k : Nat) (a b : α) :
    callAt Gen.Dense.fns fuel (k + 1) "split" [.val a, .val b] = .ok (encPair (a, b)) := by
  rw [callAt_fn _ _ _ _ Gen.Dense.fn_split _ rfl]
  simp [runFn, Gen.Dense.fn_split, exec, evalE, mkList2, encPair]

/-- `gen_since_operation` with the fact about `split` discharged. -/
theorem _root_.Rtamt.Py.Dn.gen_since_operation' (fuel k : Nat) (hI : InterSpec α fuel k) (l r : ASig α) (h : l.length + r.length + 4 ≤ fuel) :
    callAt Gen.Dense.fns fuel (k + 3) "since_operation" [encSig l, encSig r] = (sinceOp l r).map encSig :=
  gen_since_operation fuel k hI (gen_split fuel k) l r h

/-- `gen_until_operation` with the fact about `split` discharged. -/
theorem _root_.Rtamt.Py.Dn.gen_until_operation' (fuel k : Nat) (hI : InterSpec α fuel k) (l r : ASig α) (h : l.length + r.length + 4 ≤ fuel) :
    callAt Gen.Dense.fns fuel (k + 3) "until_operation" [encSig l, encSig r] = (untilOp l r).map encSig :=
  gen_until_operation fuel k hI (gen_split fuel k) l r h

/-- `visitSince` through `callD` (`depth = 6 = 3 + 3`). -/
theorem gen_visitSince (fuel : Nat) (hI : InterSpec α fuel 3) (l r : ASig α) (h : l.length + r.length + 4 ≤ fuel) :
    callD fuel Gen.Dense.visitSince [l, r] none [] = sinceOp l r := by
  have h1 := gen_since_operation' fuel 3 hI l r h
  unfold callD
  cases hs : sinceOp l r with
  | error e => rw [hs] at h1; simp [Gen.Dense.visitSince, exec, evalE, depth, h1]
  | ok o => rw [hs] at h1; simp [Gen.Dense.visitSince, exec, evalE, depth, h1]

/-- `visitUntil` through `callD`. -/
theorem gen_visitUntil (fuel : Nat) (hI : InterSpec α fuel 3) (l r : ASig α) (h : l.length + r.length + 4 ≤ fuel) :
    callD fuel Gen.Dense.visitUntil [l, r] none [] = untilOp l r := by
  have h1 := gen_until_operation' fuel 3 hI l r h
  unfold callD
  cases hs : untilOp l r with
  | error e => rw [hs] at h1; simp [Gen.Dense.visitUntil, exec, evalE, depth, h1]
  | ok o => rw [hs] at h1; simp [Gen.Dense.visitUntil, exec, evalE, depth, h1]

end GenScan

end Rtamt.Py.Dn
