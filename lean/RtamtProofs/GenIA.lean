/-
  The interface-aware predicate override of the discrete-time offline visitors
  (`rtamt/semantics/iastl/discrete_time/offline/ast_visitor.py`: four classes, one per IA semantics), as
  translated from the source, computes point-wise what the formula transformation `iaT` (`Rtamt/Discrete/IA.lean`)
  puts in place of an insensitive predicate — `Bin.predSat c` (±inf by satisfaction) for the robustness
  semantics, `Bin.predZero` for the vacuity semantics — and the ordinary predicate otherwise.
-/
import Rtamt.Py.GeneratedIAOff
import Rtamt.Discrete.IA
import Rtamt.Discrete.Offline
import RtamtProofs.GenOffMethods

namespace Rtamt.Py
open Rtamt Val

variable {α : Type} [Val α]

/-- The class used for a semantics (`StlDiscreteTimeOfflineSpecification(semantics=…)`). -/
def iaOffClass : Sem → Option OffMethod
  | .standard => none
  | .outRob => some Gen.IAOff.IAStlOutputRobustnessDiscreteTimeOfflineAstVisitor
  | .inRob => some Gen.IAOff.IAStlInputRobustnessDiscreteTimeOfflineAstVisitor
  | .inVac => some Gen.IAOff.IAStlInputVacuityDiscreteTimeOfflineAstVisitor
  | .outVac => some Gen.IAOff.IAStlOutputVacuityDiscreteTimeOfflineAstVisitor

/-- What the override has to compute for a predicate with comparison `c`: `insens` says that the predicate has no variable of the
    class the semantics looks at (`not node.out_vars` / `not node.in_vars`). -/
def iaOp (sem : Sem) (c : Cmp) (insens : Bool) : Bin :=
  if insens then (match sem with | .outRob | .inRob => .predSat c | _ => .predZero) else .pred c

/-- The node attributes the translated method reads: the comparison, whether `out_vars` / `in_vars` are non-empty, and `0.0`. -/
def iaExtra (c : Cmp) (outNonempty inNonempty : Bool) : Store α :=
  [("$operator", .cmp c), ("$out_vars", .bool outNonempty), ("$in_vars", .bool inNonempty), ("$zero", .num Val.zero)]

/-- Whether the semantics regards the predicate as insensitive, given which variable classes occur in it. -/
def insensOf (sem : Sem) (outNonempty inNonempty : Bool) : Bool :=
  match sem with
  | .standard => false
  | .outRob | .outVac => !outNonempty
  | .inRob | .inVac => !inNonempty

namespace IAOff

/-! ### the shape of the four translated methods -/

def iaChain : S :=
  (.ite (.bin .eq (.loc "$operator") (.cmpc .eq)) (.seq (.setLoc "sat_val" (.bin .eq (.idx (.loc "left") (.loc "i")) (.idx (.loc "right") (.loc "i")))) (.setLoc "val" (.un .neg (.un .abs (.bin .sub (.idx (.loc "left") (.loc "i")) (.idx (.loc "right") (.loc "i"))))))) (.ite (.bin .eq (.loc "$operator") (.cmpc .ne)) (.seq (.setLoc "sat_val" (.bin .ne (.idx (.loc "left") (.loc "i")) (.idx (.loc "right") (.loc "i")))) (.setLoc "val" (.un .neg (.un .neg (.un .abs (.bin .sub (.idx (.loc "left") (.loc "i")) (.idx (.loc "right") (.loc "i")))))))) (.ite (.bin .eq (.loc "$operator") (.cmpc .ge)) (.seq (.setLoc "sat_val" (.bin .ge (.idx (.loc "left") (.loc "i")) (.idx (.loc "right") (.loc "i")))) (.setLoc "val" (.bin .sub (.idx (.loc "left") (.loc "i")) (.idx (.loc "right") (.loc "i"))))) (.ite (.bin .eq (.loc "$operator") (.cmpc .gt)) (.seq (.setLoc "sat_val" (.bin .gt (.idx (.loc "left") (.loc "i")) (.idx (.loc "right") (.loc "i")))) (.setLoc "val" (.bin .sub (.idx (.loc "left") (.loc "i")) (.idx (.loc "right") (.loc "i"))))) (.ite (.bin .eq (.loc "$operator") (.cmpc .le)) (.seq (.setLoc "sat_val" (.bin .le (.idx (.loc "left") (.loc "i")) (.idx (.loc "right") (.loc "i")))) (.setLoc "val" (.bin .sub (.idx (.loc "right") (.loc "i")) (.idx (.loc "left") (.loc "i"))))) (.ite (.bin .eq (.loc "$operator") (.cmpc .lt)) (.seq (.setLoc "sat_val" (.bin .lt (.idx (.loc "left") (.loc "i")) (.idx (.loc "right") (.loc "i")))) (.setLoc "val" (.bin .sub (.idx (.loc "right") (.loc "i")) (.idx (.loc "left") (.loc "i"))))) (.raise .other)))))))

def iaLoopBody : S :=
  .seq iaChain (.seq (.appendLoc "sat_out" (.loc "sat_val")) (.appendLoc "val_out" (.loc "val")))

def iaRobBody : S :=
  (.seq (.setLoc "val" (.ifExp (.bin .eq (.loc "sample") (.bin .eq (.int 0) (.int 0))) .pinf .ninf)) (.appendLoc "out" (.loc "val")))

def iaVacBody : S := (.appendLoc "out" (.loc "$zero"))

def iaTail (v : String) (second : S) : S :=
  .seq (.setLoc "out" .emptyList) (.ite (.un .not (.un .truthy (.loc v)))
    (.forEnum "i" "sample" (.loc "sat_out") second) (.setLoc "out" (.loc "val_out")))

def iaBody (v : String) (second : S) : S :=
  .seq (.setLoc "sat_out" .emptyList) (.seq (.setLoc "val_out" .emptyList)
    (.seq (.for_ "i" (.int 0) (.len (.loc "left")) iaLoopBody) (iaTail v second)))

def iaMethod (v : String) (second : S) : OffMethod :=
  { name := "visitPredicate", kids := ["left", "right"], interval := false, body := iaBody v second,
    ret := some (.loc "out") }

theorem outRob_shape : Gen.IAOff.IAStlOutputRobustnessDiscreteTimeOfflineAstVisitor = iaMethod "$out_vars" iaRobBody := rfl
theorem inRob_shape : Gen.IAOff.IAStlInputRobustnessDiscreteTimeOfflineAstVisitor = iaMethod "$in_vars" iaRobBody := rfl
theorem inVac_shape : Gen.IAOff.IAStlInputVacuityDiscreteTimeOfflineAstVisitor = iaMethod "$in_vars" iaVacBody := rfl
theorem outVac_shape : Gen.IAOff.IAStlOutputVacuityDiscreteTimeOfflineAstVisitor = iaMethod "$out_vars" iaVacBody := rfl
/-! ### values -/

/-- The list of Booleans built by `x = []; x.append(..)`. -/
def bv (bs : List Bool) : V α :=
  match bs with
  | [] => .dlist []
  | _ :: _ => .blist bs

omit [Val α] in
theorem appendV_bv (bs : List Bool) (b : Bool) : appendV (bv bs : V α) (.bool b) = .ok (bv (bs ++ [b])) := by
  cases bs <;> rfl

theorem evalBin_eq_num (x y : α) : evalBin .eq (.num x) (.num y) = .ok (.bool (numEq x y)) := rfl
theorem evalBin_ne_num (x y : α) : evalBin .ne (.num x) (.num y) = .ok (.bool (!numEq x y)) := rfl
theorem evalBin_lt_num (x y : α) : evalBin .lt (.num x) (.num y) = .ok (.bool (Val.lt x y)) := rfl
theorem evalBin_gt_num (x y : α) : evalBin .gt (.num x) (.num y) = .ok (.bool (Val.lt y x)) := rfl
theorem evalBin_le_num (x y : α) : evalBin .le (.num x) (.num y) = .ok (.bool (!Val.lt y x)) := rfl
theorem evalBin_ge_num (x y : α) : evalBin .ge (.num x) (.num y) = .ok (.bool (!Val.lt x y)) := rfl
theorem evalBin_eq_bool (x y : Bool) : evalBin (α := α) .eq (.bool x) (.bool y) = .ok (.bool (x == y)) := rfl
theorem evalBin_eq_int (x y : Int) : evalBin (α := α) .eq (.int x) (.int y) = .ok (.bool (decide (x = y))) := by
  unfold evalBin; rw [coerce_int_int]
theorem evalUn_not_bool (b : Bool) : evalUn (α := α) .not (.bool b) = .ok (.bool (!b)) := rfl
theorem evalUn_truthy_bool (b : Bool) : evalUn (α := α) .truthy (.bool b) = .ok (.bool b) := rfl

theorem evalE_ifExp (env : Env α) (c a b : E) :
    evalE env (.ifExp c a b) = (evalE env c >>= fun v =>
      match v with
      | .bool true => evalE env a
      | .bool false => evalE env b
      | _ => .error .type) := by
  simp only [evalE]; rfl

theorem exec_forEnum_bv {i x : String} {it : E} {body : S} {env : Env α} (bs : List Bool)
    (hit : evalE env it = .ok (bv bs)) :
    exec (.forEnum i x it body) env =
      bs.zipIdx.foldlM (fun env p =>
        exec body { env with loc := setKey x (.bool p.1) (setKey i (.int (p.2 : Nat)) env.loc) }) env := by
  cases bs with
  | nil => simp [exec, hit, bv, ok_bind, asList, pure, Except.pure]
  | cons b bs => simp [exec, hit, bv, ok_bind]

/-- What the translated first loop stores in `val_out` for one pair of samples. -/
def iaVal (c : Cmp) (a b : α) : α :=
  match c with
  | .ne => Val.neg (Val.neg (Val.abs (Val.sub a b)))
  | c => c.app a b
/-- The `if`/`elif` chain of the first loop on two samples. -/
theorem iaChain_ok (c : Cmp) (env : Env α) (a b : α)
    (hop : getKey "$operator" env.loc = .ok (.cmp c))
    (hl : evalE env (.idx (.loc "left") (.loc "i")) = .ok (.num a))
    (hr : evalE env (.idx (.loc "right") (.loc "i")) = .ok (.num b)) :
    exec iaChain env = .ok { env with
      loc := setKey "val" (.num (iaVal c a b)) (setKey "sat_val" (.bool (c.holds a b)) env.loc) } := by
  have hr1 : ∀ v : V α, evalE { env with loc := setKey "sat_val" v env.loc } (.idx (.loc "left") (.loc "i"))
      = .ok (.num a) := by
    intro v; rw [← hl]; simp [evalE_idx, evalE_loc, getKey_setKey_ne]
  have hr2 : ∀ v : V α, evalE { env with loc := setKey "sat_val" v env.loc } (.idx (.loc "right") (.loc "i"))
      = .ok (.num b) := by
    intro v; rw [← hr]; simp [evalE_idx, evalE_loc, getKey_setKey_ne]
  cases c <;>
    simp [iaChain, exec_ite, exec_seq, exec_setLoc, exec_raise, evalE_bin, evalE_un, evalE_loc, evalE_cmpc, hop, hl, hr,
      hr1, hr2, ok_bind, evalBin_eq_cmp, evalBin_eq_num, evalBin_ne_num, evalBin_lt_num, evalBin_gt_num, evalBin_le_num,
      evalBin_ge_num, evalBin_sub_num, evalUn_neg_num, evalUn_abs_num, iaVal, Cmp.app, Cmp.holds, numEq]

theorem iaChain_err (c : Cmp) (env : Env α) (a : α) (e : PyErr)
    (hop : getKey "$operator" env.loc = .ok (.cmp c))
    (hl : evalE env (.idx (.loc "left") (.loc "i")) = .ok (.num a))
    (hr : evalE env (.idx (.loc "right") (.loc "i")) = .error e) :
    exec iaChain env = .error e := by
  cases c <;>
    simp [iaChain, exec_ite, exec_seq, exec_setLoc, exec_raise, evalE_bin, evalE_loc, evalE_cmpc, hop, hl, hr,
      ok_bind, error_bind, evalBin_eq_cmp]
/-! ### the first loop -/

/-- Invariant of the first loop: `t` are the pairs of samples seen so far. -/
def IAInv (c : Cmp) (o i : Bool) (l r : List α) (env : Env α) (t : List (α × α)) : Prop :=
  getKey "sat_out" env.loc = .ok (bv (t.map fun p => c.holds p.1 p.2)) ∧
  getKey "val_out" env.loc = .ok (lv (t.map fun p => iaVal c p.1 p.2)) ∧
  getKey "left" env.loc = .ok (.list l) ∧ getKey "right" env.loc = .ok (.list r) ∧
  getKey "$operator" env.loc = .ok (.cmp c) ∧ getKey "$out_vars" env.loc = .ok (.bool o) ∧
  getKey "$in_vars" env.loc = .ok (.bool i) ∧ getKey "$zero" env.loc = .ok (.num Val.zero)

theorem iaStep (c : Cmp) (o i : Bool) (l r : List α) (k : Nat) (hk : k < l.length) (s : Env α) (t : List (α × α))
    (h : IAInv c o i l r s t) :
    simE (IAInv c o i l r) (exec iaLoopBody { s with loc := setKey "i" (.int (k : Nat)) s.loc })
      (idx l k >>= fun a => idx r k >>= fun b => .ok (t ++ [(a, b)])) := by
  obtain ⟨h1, h2, h3, h4, h5, h6, h7, h8⟩ := h
  have hop : getKey "$operator" ({ s with loc := setKey "i" (.int (k : Nat)) s.loc } : Env α).loc = .ok (.cmp c) := by
    simp [getKey_setKey_ne, h5]
  have hl : evalE { s with loc := setKey "i" (.int (k : Nat)) s.loc } (.idx (.loc "left") (.loc "i"))
      = .ok (.num l[k]) := by
    simp [evalE_idx, evalE_loc, getKey_setKey_ne, getKey_setKey_same, h3, ok_bind, evalIdx_list, idx_lt _ _ hk, Except.map]
  rw [idx_lt _ _ hk, ok_bind, iaLoopBody, exec_seq]
  rcases Nat.lt_or_ge k r.length with hkr | hkr
  · have hr : evalE { s with loc := setKey "i" (.int (k : Nat)) s.loc } (.idx (.loc "right") (.loc "i"))
        = .ok (.num r[k]) := by
      simp [evalE_idx, evalE_loc, getKey_setKey_ne, getKey_setKey_same, h4, ok_bind, evalIdx_list, idx_lt _ _ hkr,
        Except.map]
    rw [iaChain_ok c _ _ _ hop hl hr, idx_lt _ _ hkr]
    simp [IAInv, exec_seq, exec_appendLoc, evalE_loc, ok_bind, getKey_setKey_ne, getKey_setKey_same, h1, h2, h3, h4, h5,
      h6, h7, h8, appendV_bv, appendV_lv]
  · have hr : evalE { s with loc := setKey "i" (.int (k : Nat)) s.loc } (.idx (.loc "right") (.loc "i"))
        = .error .index := by
      simp [evalE_idx, evalE_loc, getKey_setKey_ne, getKey_setKey_same, h4, ok_bind, evalIdx_list, idx_ge _ _ hkr,
        Except.map]
    rw [iaChain_err c _ _ _ hop hl hr, idx_ge _ _ hkr]
    simp [error_bind]

omit [Val α] in
theorem foldlM_snoc {β : Type} (xs acc : List β) :
    xs.foldlM (fun t p => (Except.ok (t ++ [p]) : Except PyErr (List β))) acc = .ok (acc ++ xs) := by
  induction xs generalizing acc with
  | nil => simp [pure, Except.pure]
  | cons x xs ih => simp [List.foldlM_cons, ok_bind, ih]

omit [Val α] in
/-- `loop2` as the index loop that collects the pairs, followed by a map. -/
theorem loop2_eq_pairs (f : α → α → α) (l r : List α) :
    ((List.range' 0 l.length).foldlM (fun (t : List (α × α)) k =>
        idx l k >>= fun a => idx r k >>= fun b => (Except.ok (t ++ [(a, b)]) : Except PyErr _)) []
      >>= fun t => .ok (t.map fun p => f p.1 p.2)) = loop2 f l r := by
  rw [foldlM_idx2 (fun t a b => .ok (t ++ [(a, b)]))]
  rw [foldlM_snoc]
  unfold loop2
  split <;> simp [ok_bind, error_bind, map_zip_eq_zipWith]
/-! ### the second loop -/

omit [Val α] in
/-- A fold that keeps an invariant indexed by the list produced so far. -/
theorem foldlM_inv {β : Type} (f : Env α → β → Except PyErr (Env α)) (P : List α → Env α → Prop) (g : β → α)
    (hstep : ∀ env acc b, P acc env → ∃ env', f env b = .ok env' ∧ P (acc ++ [g b]) env') :
    ∀ (ps : List β) env acc, P acc env → ∃ env', ps.foldlM f env = .ok env' ∧ P (acc ++ ps.map g) env' := by
  intro ps
  induction ps with
  | nil => intro env acc h; exact ⟨env, rfl, by simpa using h⟩
  | cons b ps ih =>
    intro env acc h
    obtain ⟨env1, h1, hP1⟩ := hstep env acc b h
    obtain ⟨env2, h2, hP2⟩ := ih env1 _ hP1
    exact ⟨env2, by simp [List.foldlM_cons, h1, ok_bind, h2], by simpa using hP2⟩

/-- What the second loop appends for one verdict. -/
def iaG (rob : Bool) (b : Bool) : α := if rob then (if b then Val.pinf else Val.ninf) else Val.zero

/-- What the translated method computes for one pair of samples. -/
def iaPy (rob : Bool) (c : Cmp) (insens : Bool) (a b : α) : α :=
  if insens then iaG rob (c.holds a b) else iaVal c a b

theorem iaRob_step (env : Env α) (acc : List α) (b : Bool) (k : Nat)
    (h : getKey "out" env.loc = .ok (lv acc)) :
    ∃ env', exec iaRobBody { env with loc := setKey "sample" (.bool b) (setKey "i" (.int (k : Nat)) env.loc) } = .ok env' ∧
      getKey "out" env'.loc = .ok (lv (acc ++ [iaG true b])) := by
  cases b <;>
    simp [iaRobBody, exec_seq, exec_setLoc, exec_appendLoc, evalE_ifExp, evalE_bin, evalE_loc, evalE_int, evalE_pinf,
      evalE_ninf, evalBin_eq_int, evalBin_eq_bool, ok_bind, getKey_setKey_ne, getKey_setKey_same, h, appendV_lv, iaG]

theorem iaVac_step (env : Env α) (acc : List α) (b : Bool) (k : Nat)
    (h : getKey "out" env.loc = .ok (lv acc) ∧ getKey "$zero" env.loc = .ok (.num Val.zero)) :
    ∃ env', exec iaVacBody { env with loc := setKey "sample" (.bool b) (setKey "i" (.int (k : Nat)) env.loc) } = .ok env' ∧
      (getKey "out" env'.loc = .ok (lv (acc ++ [iaG false b])) ∧ getKey "$zero" env'.loc = .ok (.num Val.zero)) := by
  simp [iaVacBody, exec_appendLoc, evalE_loc, ok_bind, getKey_setKey_ne, getKey_setKey_same, h.1, h.2, appendV_lv, iaG]

omit [Val α] in
theorem map_fst_zipIdx {β γ : Type} (g : β → γ) (bs : List β) : bs.zipIdx.map (fun p => g p.1) = bs.map g := by
  have : (fun p : β × Nat => g p.1) = g ∘ Prod.fst := rfl
  rw [this, ← List.map_map, List.zipIdx_map_fst]

/-- The part after the first loop. -/
theorem iaTail_eq (v : String) (rob : Bool) (second : S) (hsec : second = if rob then iaRobBody else iaVacBody)
    (c : Cmp) (o i bo : Bool) (hv : v = "$out_vars" ∧ bo = o ∨ v = "$in_vars" ∧ bo = i)
    (l r : List α) (s : Env α) (t : List (α × α)) (h : IAInv c o i l r s t) :
    (exec (iaTail v second) s >>= fun env => evalE env (.loc "out") >>= retList)
      = .ok (t.map fun p => iaPy rob c (!bo) p.1 p.2) := by
  obtain ⟨h1, h2, h3, h4, h5, h6, h7, h8⟩ := h
  have hvo : v ≠ "out" := by rcases hv with ⟨rfl, _⟩ | ⟨rfl, _⟩ <;> decide
  have hvv : getKey v s.loc = .ok (.bool bo) := by
    rcases hv with ⟨rfl, rfl⟩ | ⟨rfl, rfl⟩ <;> assumption
  rw [iaTail, exec_seq, exec_setLoc, evalE_emptyList, ok_bind, ok_bind, exec_ite]
  have hc : evalE { s with loc := setKey "out" (.dlist []) s.loc } (.un .not (.un .truthy (.loc v)))
      = .ok (.bool (!bo)) := by
    simp [evalE_un, evalE_loc, getKey_setKey_ne _ _ _ _ hvo, hvv, ok_bind, evalUn_truthy_bool, evalUn_not_bool]
  rw [hc, ok_bind]
  cases bo with
  | true =>
    simp [exec_setLoc, evalE_loc, getKey_setKey_ne, getKey_setKey_same, h2, ok_bind, iaPy]
  | false =>
    have hit : evalE { s with loc := setKey "out" (.dlist []) s.loc } (.loc "sat_out")
        = .ok (bv (t.map fun p => c.holds p.1 p.2)) := by
      simp [evalE_loc, getKey_setKey_ne, h1]
    simp only [Bool.not_false]
    rw [exec_forEnum_bv _ hit]
    cases rob with
    | true =>
      subst hsec
      obtain ⟨env', he, hP⟩ := foldlM_inv
        (fun env (p : Bool × Nat) => exec iaRobBody
          { env with loc := setKey "sample" (.bool p.1) (setKey "i" (.int (p.2 : Nat)) env.loc) })
        (fun acc env => getKey "out" env.loc = .ok (lv acc)) (fun p => iaG true p.1)
        (fun env acc p hP => iaRob_step env acc p.1 p.2 hP)
        (t.map fun p => c.holds p.1 p.2).zipIdx { s with loc := setKey "out" (.dlist []) s.loc } []
        (by simp [getKey_setKey_same, lv_nil])
      simp only [if_true]
      rw [he, ok_bind, evalE_loc, hP, ok_bind, retList_lv, map_fst_zipIdx (iaG true)]
      simp [iaPy, List.map_map, Function.comp_def]
    | false =>
      subst hsec
      obtain ⟨env', he, hP⟩ := foldlM_inv
        (fun env (p : Bool × Nat) => exec iaVacBody
          { env with loc := setKey "sample" (.bool p.1) (setKey "i" (.int (p.2 : Nat)) env.loc) })
        (fun acc env => getKey "out" env.loc = .ok (lv acc) ∧ getKey "$zero" env.loc = .ok (.num Val.zero))
        (fun p => iaG false p.1)
        (fun env acc p hP => iaVac_step env acc p.1 p.2 hP)
        (t.map fun p => c.holds p.1 p.2).zipIdx { s with loc := setKey "out" (.dlist []) s.loc } []
        (by simp [getKey_setKey_same, getKey_setKey_ne, lv_nil, h8])
      simp only [Bool.false_eq_true, if_false]
      rw [he, ok_bind, evalE_loc, hP.1, ok_bind, retList_lv, map_fst_zipIdx (iaG false)]
      simp [iaPy, List.map_map, Function.comp_def]
/-! ### the methods -/

theorem callOff_ia (v : String) (second : S) (l r : List α) (extra : Store α) :
    callOff (iaMethod v second) [l, r] none extra =
      (exec (iaBody v second) { self := [], loc := [("left", .list l), ("right", .list r)] ++ extra } >>= fun env =>
        evalE env (.loc "out") >>= retList) := by
  unfold callOff
  simp only [iaMethod, List.length_cons, List.length_nil, ne_eq, not_true_eq_false, if_false, Option.isSome_none]
  rfl

/-- The translated method, whatever the values are (no law of `Val` is used): the index loop with the point-wise function
    `iaPy`, which for `!=` on a sensitive predicate is `- -abs(l[i] - r[i])`. -/
theorem iaMethod_eq (v : String) (rob : Bool) (second : S) (hsec : second = if rob then iaRobBody else iaVacBody)
    (c : Cmp) (o i bo : Bool) (hv : v = "$out_vars" ∧ bo = o ∨ v = "$in_vars" ∧ bo = i) (l r : List α) :
    callOff (iaMethod v second) [l, r] none (iaExtra c o i) = loop2 (iaPy rob c (!bo)) l r := by
  rw [callOff_ia, ← loop2_eq_pairs, iaBody]
  simp only [exec_seq, exec_setLoc, evalE_emptyList, ok_bind, bind_assoc]
  refine simE_bind_eq (R := IAInv c o i l r) (fun t => .ok (t.map fun p => iaPy rob c (!bo) p.1 p.2))
    (sim_for (fun _ => IAInv c o i l r)
      (fun t k => idx l k >>= fun a => idx r k >>= fun b => .ok (t ++ [(a, b)])) [] 0 l.length l.length ?_ ?_ ?_ ?_ ?_) ?_
  · exact evalE_int _ _
  · simp [evalE_len, evalE_loc, getKey_setKey_ne, getKey_cons_same, ok_bind, lenV_list]
  · omega
  · simp [IAInv, iaExtra, getKey_setKey_ne, getKey_setKey_same, getKey_cons_same, getKey_cons_ne, bv, lv_nil]
  · intro k _ hk s t h
    exact iaStep c o i l r k (by omega) s t h
  · intro s t h
    exact iaTail_eq v rob second hsec c o i bo hv l r s t h

end IAOff

open IAOff

/-! ### the result -/

/-- The robustness semantics (±inf by satisfaction), as opposed to the vacuity semantics (`0.0`). -/
def iaRob : Sem → Bool
  | .outRob | .inRob => true
  | _ => false

/-- The translated `visitPredicate` of the class of semantics `sem`, for arbitrary values (no law of `Val` is used): the index loop
    of the offline visitor (`loop2`, IndexError when the right operand is shorter) with the point-wise function `iaPy`. -/
theorem genIA_offline_raw (sem : Sem) (m : OffMethod) (hm : iaOffClass sem = some m) (c : Cmp) (o i : Bool) (l r : List α) :
    callOff m [l, r] none (iaExtra c o i) = loop2 (iaPy (iaRob sem) c (insensOf sem o i)) l r := by
  cases sem
  · cases hm
  · obtain rfl := Option.some.inj hm
    exact iaMethod_eq "$out_vars" true iaRobBody rfl c o i o (Or.inl ⟨rfl, rfl⟩) l r
  · obtain rfl := Option.some.inj hm
    exact iaMethod_eq "$in_vars" true iaRobBody rfl c o i i (Or.inr ⟨rfl, rfl⟩) l r
  · obtain rfl := Option.some.inj hm
    exact iaMethod_eq "$in_vars" false iaVacBody rfl c o i i (Or.inr ⟨rfl, rfl⟩) l r
  · obtain rfl := Option.some.inj hm
    exact iaMethod_eq "$out_vars" false iaVacBody rfl c o i o (Or.inl ⟨rfl, rfl⟩) l r

/-- `iaPy` is `Bin.app (iaOp …)` except for `!=` on a sensitive predicate, where the source has `- -abs(l - r)` and the
    mirror (as the standard visitor) `abs(l - r)`. -/
theorem iaPy_eq_app (sem : Sem) (hs : sem ≠ .standard) (c : Cmp) (ins : Bool) (a b : α)
    (h : c = .ne → ins = false → Val.neg (Val.neg (Val.abs (Val.sub a b))) = Val.abs (Val.sub a b)) :
    iaPy (iaRob sem) c ins a b = (iaOp sem c ins).app a b := by
  cases ins
  · cases c <;> simp [iaPy, iaOp, iaVal, Bin.app, Cmp.app]
    exact h rfl rfl
  · cases sem <;> simp [iaPy, iaOp, iaG, iaRob, Bin.app] at hs ⊢

omit [Val α] in
theorem loop2_congr (f g : α → α → α) (l r : List α) (h : ∀ p ∈ l.zip r, f p.1 p.2 = g p.1 p.2) :
    loop2 f l r = loop2 g l r := by
  unfold loop2
  rw [← map_zip_eq_zipWith f, ← map_zip_eq_zipWith g, List.map_congr_left h]

/- The statement as first posed,

     theorem genIA_offline (sem : Sem) (m : OffMethod) (hm : iaOffClass sem = some m) (c : Cmp) (o i : Bool) (l r : List α) :
         callOff m [l, r] none (iaExtra c o i) = loop2 (iaOp sem c (insensOf sem o i)).app l r

   is not provable for an arbitrary `[Val α]` (an operations-only class): for `!=` the source computes
   `val = - -abs(left[i] - right[i])` (twice negated), the mirror `Cmp.app .ne` — like the standard offline visitor —
   `abs(l - r)`, and `Val` has no law `neg (neg x) = x`; `genIA_offline_not_lawfree` below is a counterexample.  The two agree
   as soon as negation is an involution on the values that occur (IEEE doubles: exact, sign bit flipped twice; `LawfulVal.neg_neg`).
   The hypothesis is needed only for `c = .ne` on a sensitive predicate. -/

/-- The translated `visitPredicate` of the class of semantics `sem` is the index loop of the offline visitor (`loop2`, IndexError when
    the right operand is shorter) with `Bin.app (iaOp …)` — for `!=` on a sensitive predicate provided `- -x = x` on the values
    `x = abs(l[i] - r[i])` that occur. -/
theorem genIA_offline_partial (sem : Sem) (m : OffMethod) (hm : iaOffClass sem = some m) (c : Cmp) (o i : Bool) (l r : List α)
    (hnn : c = .ne → insensOf sem o i = false → ∀ p ∈ l.zip r,
      Val.neg (Val.neg (Val.abs (Val.sub p.1 p.2))) = Val.abs (Val.sub p.1 p.2)) :
    callOff m [l, r] none (iaExtra c o i) = loop2 (iaOp sem c (insensOf sem o i)).app l r := by
  rw [genIA_offline_raw sem m hm]
  have hs : sem ≠ .standard := by rintro rfl; cases hm
  exact loop2_congr _ _ l r (fun p hp => iaPy_eq_app sem hs c _ p.1 p.2 (fun h1 h2 => hnn h1 h2 p hp))

/-- Every comparison except `!=`: no hypothesis. -/
theorem genIA_offline_of_ne (sem : Sem) (m : OffMethod) (hm : iaOffClass sem = some m) (c : Cmp) (hc : c ≠ .ne) (o i : Bool)
    (l r : List α) :
    callOff m [l, r] none (iaExtra c o i) = loop2 (iaOp sem c (insensOf sem o i)).app l r :=
  genIA_offline_partial sem m hm c o i l r (fun h => absurd h hc)

/-- Insensitive predicates (all six comparisons): no hypothesis. -/
theorem genIA_offline_insens (sem : Sem) (m : OffMethod) (hm : iaOffClass sem = some m) (c : Cmp) (o i : Bool)
    (hi : insensOf sem o i = true) (l r : List α) :
    callOff m [l, r] none (iaExtra c o i) = loop2 (iaOp sem c true).app l r := by
  have := genIA_offline_partial sem m hm c o i l r (fun _ h => by rw [hi] at h; cases h)
  rwa [hi] at this

/-- The statement as first posed, when negation is an involution. -/
theorem genIA_offline_of_neg_neg (hneg : ∀ x : α, Val.neg (Val.neg x) = x)
    (sem : Sem) (m : OffMethod) (hm : iaOffClass sem = some m) (c : Cmp) (o i : Bool) (l r : List α) :
    callOff m [l, r] none (iaExtra c o i) = loop2 (iaOp sem c (insensOf sem o i)).app l r :=
  genIA_offline_partial sem m hm c o i l r (fun _ _ _ _ => hneg _)

/-- A law-free instance of `Val` in which `- -x ≠ x`. -/
@[reducible] def skewVal : Val Int :=
  { lt := fun a b => decide (a < b), neg := fun a => a + 1, abs := fun a => a, add := (· + ·), sub := (· - ·),
    mul := (· * ·), div := (· / ·), pinf := 1, ninf := -1, zero := 0, sqrt := id, exp := id, ln := id,
    pow := fun a _ => a, log := fun a _ => a }

/-- The unrestricted statement fails without laws on `Val`: `left = right = [0]`, `!=`, output robustness, a predicate with an output
    variable — the translated method returns `[- -abs(0 - 0)]`, the mirror `[abs(0 - 0)]`. -/
theorem genIA_offline_not_lawfree :
    ¬ (∀ (α : Type) [Val α] (sem : Sem) (m : OffMethod) (_ : iaOffClass sem = some m) (c : Cmp) (o i : Bool) (l r : List α),
        callOff m [l, r] none (iaExtra c o i) = loop2 (iaOp sem c (insensOf sem o i)).app l r) := by
  intro h
  have h1 := @h Int skewVal .outRob _ rfl .ne true true [0] [0]
  rw [@genIA_offline_raw Int skewVal .outRob _ rfl] at h1
  simp [loop2, iaPy, insensOf, iaOp, iaVal, Bin.app, Cmp.app] at h1
  exact absurd h1 (by decide)

end Rtamt.Py
