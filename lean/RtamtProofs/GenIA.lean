/-
  The interface-aware predicate override of the discrete-time offline visitors
  (`rtamt/semantics/iastl/discrete_time/offline/ast_visitor.py`: four classes, one per IA semantics), as
  translated from the source, computes point-wise what the formula transformation `iaT` (`Rtamt/Discrete/IA.lean`)
  puts in place of an insensitive predicate — `Bin.predSat c` (±inf by satisfaction) for the robustness
  semantics, `Bin.predZero` for the vacuity semantics — and the ordinary predicate otherwise.
-/
import Rtamt.Py.GeneratedIAOff
import Rtamt.Discrete.IA
import Rtamt.Discrete.Offline

namespace Rtamt.Py
open Rtamt Val

variable {α : Type} [Val α]

/-- The class used for a semantics (`StlDiscreteTimeOfflineSpecification(semantics=…)`). -/
def iaOffClass : Sem → Option OffMethod
  | .standard => none
  | .outRob => some Gen.IAOff.IAStlOutputRobustnessDiscreteTimeOfflineAstVisitor
  | .inRob => some Gen.IAOff.IAStlInputRobustnessDiscreteTimeOfflineAstVisitor
  | .inVac => some Gen.IAOff.IAStlInputVacuityDiscreteTimeOfflineAstVisitor
  | .outVac => some Gen.IAOff.IAStlOutputVacuityDiscreteTimeOfflineAstVisitor

/-- What the override has to compute for a predicate with comparison `c`: `insens` says that the predicate has no variable of the
    class the semantics looks at (`not node.out_vars` / `not node.in_vars`). -/
def iaOp (sem : Sem) (c : Cmp) (insens : Bool) : Bin :=
  if insens then (match sem with | .outRob | .inRob => .predSat c | _ => .predZero) else .pred c

/-- The node attributes the translated method reads: the comparison, whether `out_vars` / `in_vars` are non-empty, and `0.0`. -/
def iaExtra (c : Cmp) (outNonempty inNonempty : Bool) : Store α :=
  [("$operator", .cmp c), ("$out_vars", .bool outNonempty), ("$in_vars", .bool inNonempty), ("$zero", .num Val.zero)]

/-- Whether the semantics regards the predicate as insensitive, given which variable classes occur in it. -/
def insensOf (sem : Sem) (outNonempty inNonempty : Bool) : Bool :=
  match sem with
  | .standard => false
  | .outRob | .outVac => !outNonempty
  | .inRob | .inVac => !inNonempty

/-- The translated `visitPredicate` of the class of semantics `sem` is the index loop of the offline visitor (`loop2`, IndexError when
    the right operand is shorter) with `Bin.app (iaOp …)`. -/
theorem genIA_offline (sem : Sem) (m : OffMethod) (hm : iaOffClass sem = some m) (c : Cmp) (o i : Bool) (l r : List α) :
    callOff m [l, r] none (iaExtra c o i) = loop2 (iaOp sem c (insensOf sem o i)).app l r := by
  sorry

end Rtamt.Py
