/-
  C02, obligations about the current source tree: the construction visitor of the
  discrete-time online monitor (table regenerated from /repo on every run) registers an
  operator object for every past node class and raises RTAMTException on every future one.
-/
import RtamtProofs.C02
import RtamtProofs.Lemmas.Instance

namespace Rtamt
open Val

theorem C02_table_supported :
    ∀ k ∈ onlineKinds, k ≠ .Constant →
      (Generated.onlineDiscrete.handles k = true ∧ Generated.onlineDiscrete.raises k = false) := by
  decide

/-- Every node class outside `onlineKinds` (the future operators) is rejected with RTAMTException. -/
theorem C02_table_future_rejected :
    ∀ k ∈ Kind.all, k ∉ onlineKinds → Generated.onlineDiscrete.raises k = true := by
  decide

variable {α : Type} [Val α] [LawfulVal α]

/-- C02 for the online monitor as it is in the working tree. -/
theorem C02_current_tree (σ : String → Nat → α) (n : Nat) (φ : F α)
    (hon : φ.online = true) (hwf : φ.wf = true) :
    runOnline Generated.onlineDiscrete.handles Generated.onlineDiscrete.raises φ (envs σ n)
      = .ok (tab n (rho σ n φ)) := by
  apply C02_run_eq_rho _ _ σ n φ hon hwf
  intro k hk hc
  apply C02_table_supported k _ hc
  have := List.all_eq_true.1 hon k hk
  simpa using this

/-- Non-vacuity: a nested past formula with a duplicated stateful sub-formula meets the hypotheses. -/
example :
    let s : F EReal := .tb1 .once 1 2 (.tmp1 .prev (.bin (.pred .ge) (.var "x") (.const 1)))
    let φ : F EReal := .bin .and s (.tmp2 .since s (.tb2 .since 0 3 (.var "y") s))
    φ.online = true ∧ φ.wf = true := by
  refine ⟨by decide, by decide⟩

end Rtamt
