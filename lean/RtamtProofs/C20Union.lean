/-
  C20, exact interval lists.  The code applies `interval_union` (sort, merge overlapping or adjacent intervals) to the
  lists it computes for the operand of a bounded operator; the mirror `explain` the C20 theorems are stated on leaves it
  out.  `explainU u` (`Rtamt/Discrete/ExplainU.lean`) has the union as a parameter: `explainU id = explain`, and
  `explainU unionIvs` is what the code computes (`RtamtProofs/GenExpl.lean`).  Here: both report the same positions of
  every variable, provided the interval list they start from is `Good` (in range, first interval begins first, last
  interval ends last - `[(0, 0)]`, where `explain()` starts, is).
-/
import RtamtProofs.C20
import Rtamt.Discrete.ExplainU

namespace Rtamt
open Val


/-! ### `interval_union` -/

theorem covered_single (p : Nat × Nat) (t : Nat) : covered [p] t ↔ p.1 ≤ t ∧ t ≤ p.2 := by
  simp [covered]

theorem unionStep_nil (p : Nat × Nat) : unionStep [] p = [p] := rfl

theorem unionStep_snoc (D : Ivs) (q p : Nat × Nat) :
    unionStep (D ++ [q]) p =
      if p.1 ≤ q.2 + 1 then D ++ [(q.1, max q.2 p.2)] else D ++ [q] ++ [p] := by
  unfold unionStep
  rw [List.getLast?_concat, List.dropLast_concat]

/-- Coverage of the fold, when the begins of the remaining intervals are increasing and not smaller than
    the begin of the last interval written. -/
theorem unionFold_covered (t : Nat) :
    ∀ (l out : Ivs), l.Pairwise (fun p q => p.1 ≤ q.1) →
      (∀ q, out.getLast? = some q → ∀ p ∈ l, q.1 ≤ p.1) →
      (covered (l.foldl unionStep out) t ↔ covered out t ∨ covered l t)
  | [], out, _, _ => by simp [covered_nil]
  | p :: l, out, hs, hlast => by
    rw [List.pairwise_cons] at hs
    rw [List.foldl_cons, covered_cons]
    rcases List.eq_nil_or_concat out with rfl | ⟨D, q, rfl⟩
    · rw [unionStep_nil, unionFold_covered t l [p] hs.2 (by
        intro q hq r hr
        simp at hq; subst hq; exact hs.1 r hr)]
      simp [covered_nil, covered_single]
    · rw [List.concat_eq_append] at hlast ⊢
      have hqp := hlast q List.getLast?_concat p (by simp)
      rw [unionStep_snoc]
      split_ifs with hm
      · rw [unionFold_covered t l _ hs.2 (by
          intro q' hq' r hr
          rw [List.getLast?_concat] at hq'
          cases hq'
          exact hlast q List.getLast?_concat r (by simp [hr]))]
        simp only [covered_append, covered_single]
        constructor
        · rintro ((h | h) | h)
          · exact Or.inl (Or.inl h)
          · by_cases h' : t ≤ q.2
            · exact Or.inl (Or.inr ⟨h.1, h'⟩)
            · exact Or.inr (Or.inl ⟨by omega, by omega⟩)
          · exact Or.inr (Or.inr h)
        · rintro ((h | h) | h | h)
          · exact Or.inl (Or.inl h)
          · exact Or.inl (Or.inr ⟨h.1, by omega⟩)
          · exact Or.inl (Or.inr ⟨by omega, by omega⟩)
          · exact Or.inr h
      · rw [unionFold_covered t l _ hs.2 (by
          intro q' hq' r hr
          rw [List.getLast?_concat] at hq'
          cases hq'
          exact hs.1 r hr)]
        simp only [covered_append, covered_single]
        tauto

theorem sortIvsN_perm (I : Ivs) : (sortIvsN I).Perm I := List.mergeSort_perm _ _

theorem sortIvsN_sorted (I : Ivs) : (sortIvsN I).Pairwise (fun p q => p.1 ≤ q.1) := by
  have h := List.pairwise_mergeSort
    (le := fun (p q : Nat × Nat) => decide (p.1 < q.1) || (decide (p.1 = q.1) && decide (p.2 ≤ q.2)))
    (by intro a b c h1 h2
        simp only [Bool.or_eq_true, Bool.and_eq_true, decide_eq_true_eq] at h1 h2 ⊢
        omega)
    (by intro a b
        simp only [Bool.or_eq_true, Bool.and_eq_true, decide_eq_true_eq]
        omega) I
  refine List.Pairwise.imp ?_ h
  intro a b hab
  simp only [Bool.or_eq_true, Bool.and_eq_true, decide_eq_true_eq] at hab
  omega

theorem covered_perm {I J : Ivs} (h : I.Perm J) (t : Nat) : covered I t ↔ covered J t := by
  unfold covered
  constructor
  · rintro ⟨p, hp, h'⟩; exact ⟨p, h.mem_iff.1 hp, h'⟩
  · rintro ⟨p, hp, h'⟩; exact ⟨p, h.mem_iff.2 hp, h'⟩

/-- Well-formed intervals in range, increasing, with a gap between two consecutive ones. -/
def SepIvs (n : Nat) (I : Ivs) : Prop :=
  (∀ p ∈ I, p.1 ≤ p.2 ∧ p.2 < n) ∧ I.Pairwise (fun p q => p.2 + 1 < q.1)

theorem sep_good (n : Nat) (I : Ivs) (h : SepIvs n I) : Good n I := by
  obtain ⟨h1, h2⟩ := h
  refine ⟨h1, ?_, ?_⟩
  · rintro L p R rfl t ⟨r, hr, hr1, hr2⟩ hlt
    rw [List.pairwise_append] at h2
    rcases List.mem_append.1 hr with hr | hr
    · exact ⟨r, hr, hr1, hr2⟩
    · exfalso
      rcases List.mem_cons.1 hr with rfl | hr
      · omega
      · have := (List.pairwise_cons.1 h2.2.1).1 r hr
        have := h1 p (by simp)
        omega
  · rintro L p R rfl t ⟨r, hr, hr1, hr2⟩ hlt
    rw [List.pairwise_append] at h2
    rcases List.mem_append.1 hr with hr | hr
    · exfalso
      have := h2.2.2 r hr p (by simp)
      have := h1 p (by simp)
      omega
    · rcases List.mem_cons.1 hr with rfl | hr
      · omega
      · exact ⟨r, hr, hr1, hr2⟩

theorem unionFold_sep (n : Nat) :
    ∀ (l out : Ivs), l.Pairwise (fun p q => p.1 ≤ q.1) → (∀ p ∈ l, p.1 ≤ p.2 ∧ p.2 < n) →
      (∀ q, out.getLast? = some q → ∀ p ∈ l, q.1 ≤ p.1) → SepIvs n out →
      SepIvs n (l.foldl unionStep out)
  | [], out, _, _, _, ho => ho
  | p :: l, out, hs, hw, hlast, ho => by
    rw [List.pairwise_cons] at hs
    rw [List.foldl_cons]
    have hwp := hw p (by simp)
    have hw' : ∀ r ∈ l, r.1 ≤ r.2 ∧ r.2 < n := fun r hr => hw r (by simp [hr])
    rcases List.eq_nil_or_concat out with rfl | ⟨D, q, rfl⟩
    · rw [unionStep_nil]
      refine unionFold_sep n l [p] hs.2 hw' ?_ ⟨?_, List.pairwise_singleton _ _⟩
      · intro q hq r hr
        simp at hq; subst hq; exact hs.1 r hr
      · intro r hr; rw [List.mem_singleton] at hr; subst hr; exact hwp
    · rw [List.concat_eq_append] at hlast ho ⊢
      have hqp := hlast q List.getLast?_concat p (by simp)
      obtain ⟨ho1, ho2⟩ := ho
      have hwq := ho1 q (by simp)
      rw [List.pairwise_append] at ho2
      rw [unionStep_snoc]
      split_ifs with hm
      · refine unionFold_sep n l _ hs.2 hw' ?_ ⟨?_, ?_⟩
        · intro q' hq' r hr
          rw [List.getLast?_concat] at hq'
          cases hq'
          exact hlast q List.getLast?_concat r (by simp [hr])
        · intro r hr
          rcases List.mem_append.1 hr with hr | hr
          · exact ho1 r (by simp [hr])
          · rw [List.mem_singleton] at hr; subst hr
            simp only; omega
        · rw [List.pairwise_append]
          refine ⟨ho2.1, List.pairwise_singleton _ _, ?_⟩
          intro d hd r hr
          rw [List.mem_singleton] at hr; subst hr
          exact ho2.2.2 d hd q (by simp)
      · refine unionFold_sep n l _ hs.2 hw' ?_ ⟨?_, ?_⟩
        · intro q' hq' r hr
          rw [List.getLast?_concat] at hq'
          cases hq'
          exact hs.1 r hr
        · intro r hr
          rcases List.mem_append.1 hr with hr | hr
          · exact ho1 r hr
          · rw [List.mem_singleton] at hr; subst hr; exact hwp
        · rw [List.pairwise_append]
          refine ⟨List.pairwise_append.2 ho2, List.pairwise_singleton _ _, ?_⟩
          intro d hd r hr
          rw [List.mem_singleton] at hr; subst hr
          rcases List.mem_append.1 hd with hd | hd
          · have := ho2.2.2 d hd q (by simp)
            omega
          · rw [List.mem_singleton] at hd; subst hd
            omega

/-! ### two `Good` lists with the same coverage -/

/-- Both lists are `Good` and cover the same positions. -/
def EqvIvs (n : Nat) (I J : Ivs) : Prop := Good n I ∧ Good n J ∧ ∀ t, covered I t ↔ covered J t

theorem eqv_refl (n : Nat) (I : Ivs) (h : Good n I) : EqvIvs n I I := ⟨h, h, fun _ => Iff.rfl⟩

theorem eqv_runsAll (n : Nat) (S : Nat → Bool) (I J : Ivs) (h : EqvIvs n I J) :
    EqvIvs n (runsAll S I) (runsAll S J) := by
  refine ⟨good_runsAll n S I h.1, good_runsAll n S J h.2.1, fun t => ?_⟩
  rw [runsAll_covered, runsAll_covered, h.2.2 t]

theorem explNext_covered_iff (n : Nat) (I : Ivs) (hI : Good n I) (t : Nat) :
    covered (explNext n I) t ↔ 1 ≤ t ∧ t < n ∧ covered I (t - 1) := by
  rw [explNext_eq, covered_flatMap]
  constructor
  · rintro ⟨p, hp, h⟩
    rw [nextBlock_covered n p (hI.1 p hp)] at h
    exact ⟨h.1, h.2.1, p, hp, h.2.2⟩
  · rintro ⟨h1, h2, p, hp, h⟩
    exact ⟨p, hp, (nextBlock_covered n p (hI.1 p hp) t).2 ⟨h1, h2, h⟩⟩

theorem explPrev_covered_iff (n : Nat) (I : Ivs) (hI : Good n I) (t : Nat) :
    covered (explPrev I) t ↔ covered I (t + 1) := by
  rw [explPrev_eq, covered_flatMap]
  constructor
  · rintro ⟨p, hp, h⟩
    rw [prevBlock_covered p (hI.1 p hp).1] at h
    exact ⟨p, hp, h⟩
  · rintro ⟨p, hp, h⟩
    exact ⟨p, hp, (prevBlock_covered p (hI.1 p hp).1 t).2 h⟩

theorem eqv_explNext (n : Nat) (I J : Ivs) (h : EqvIvs n I J) : EqvIvs n (explNext n I) (explNext n J) := by
  refine ⟨good_explNext n I h.1, good_explNext n J h.2.1, fun t => ?_⟩
  rw [explNext_covered_iff n I h.1, explNext_covered_iff n J h.2.1, h.2.2]

theorem eqv_explPrev (n : Nat) (I J : Ivs) (h : EqvIvs n I J) : EqvIvs n (explPrev I) (explPrev J) := by
  refine ⟨good_explPrev n I h.1, good_explPrev n J h.2.1, fun t => ?_⟩
  rw [explPrev_covered_iff n I h.1, explPrev_covered_iff n J h.2.1, h.2.2]

theorem fwd_covered_iff (n a b : Nat) (hab : a ≤ b) (I : Ivs) (hI : Good n I) (w : Nat) :
    covered (fwdIvs n a b I) w ↔
      ∃ t, covered I t ∧ min (t + a) (n - 1) ≤ w ∧ w ≤ min (t + b) (n - 1) := by
  constructor
  · rintro ⟨r, hr, h1, h2⟩
    obtain ⟨p, hp, rfl⟩ := List.mem_map.1 hr
    have := hI.1 p hp
    simp only at h1 h2
    exact ⟨max p.1 (w - b), ⟨p, hp, by omega, by omega⟩, by omega, by omega⟩
  · rintro ⟨t, ⟨p, hp, h1, h2⟩, h3, h4⟩
    refine ⟨(min (p.1 + a) (n - 1), min (p.2 + b) (n - 1)), List.mem_map.2 ⟨p, hp, rfl⟩, ?_, ?_⟩
    · simp only; omega
    · simp only; omega

theorem bwd_covered_iff (n a b : Nat) (hab : a ≤ b) (I : Ivs) (hI : Good n I) (w : Nat) :
    covered (bwdIvs a b I) w ↔ ∃ t, covered I t ∧ t - b ≤ w ∧ w ≤ t - a := by
  constructor
  · rintro ⟨r, hr, h1, h2⟩
    obtain ⟨p, hp, rfl⟩ := List.mem_map.1 hr
    have := hI.1 p hp
    simp only at h1 h2
    by_cases h0 : w = 0
    · exact ⟨p.1, ⟨p, hp, by omega, by omega⟩, by omega, by omega⟩
    · exact ⟨max p.1 (w + a), ⟨p, hp, by omega, by omega⟩, by omega, by omega⟩
  · rintro ⟨t, ⟨p, hp, h1, h2⟩, h3, h4⟩
    refine ⟨(p.1 - b, p.2 - a), List.mem_map.2 ⟨p, hp, rfl⟩, ?_, ?_⟩
    · simp only; omega
    · simp only; omega

theorem eqv_fwd (n a b : Nat) (hab : a ≤ b) (I J : Ivs) (h : EqvIvs n I J) :
    EqvIvs n (fwdIvs n a b I) (fwdIvs n a b J) := by
  refine ⟨good_fwd n a b hab I h.1, good_fwd n a b hab J h.2.1, fun t => ?_⟩
  rw [fwd_covered_iff n a b hab I h.1, fwd_covered_iff n a b hab J h.2.1]
  simp only [h.2.2]

theorem eqv_bwd (n a b : Nat) (hab : a ≤ b) (I J : Ivs) (h : EqvIvs n I J) :
    EqvIvs n (bwdIvs a b I) (bwdIvs a b J) := by
  refine ⟨good_bwd n a b hab I h.1, good_bwd n a b hab J h.2.1, fun t => ?_⟩
  rw [bwd_covered_iff n a b hab I h.1, bwd_covered_iff n a b hab J h.2.1]
  simp only [h.2.2]

/-- The first begin of a `Good` list is its least covered position. -/
theorem firstBegin_covered (n : Nat) (I : Ivs) (hI : Good n I) (b : Nat) (h : firstBegin I = some b) :
    covered I b ∧ b < n := by
  cases I with
  | nil => cases h
  | cons p R =>
    simp only [firstBegin, List.head?_cons, Option.map_some, Option.some.injEq] at h
    subst h
    have := hI.1 p (by simp)
    exact ⟨⟨p, by simp, le_rfl, this.1⟩, by omega⟩

theorem lastEnd_covered (n : Nat) (I : Ivs) (hI : Good n I) (e : Nat) (h : lastEnd I = some e) :
    covered I e ∧ e < n := by
  rcases List.eq_nil_or_concat I with rfl | ⟨D, q, rfl⟩
  · cases h
  · rw [List.concat_eq_append] at h hI ⊢
    simp only [lastEnd, List.getLast?_concat, Option.map_some, Option.some.injEq] at h
    subst h
    have := hI.1 q (by simp)
    exact ⟨⟨q, by simp, this.1, le_rfl⟩, this.2⟩

theorem firstBegin_le (n : Nat) (I J : Ivs) (h : EqvIvs n I J) (b : Nat) (hb : firstBegin I = some b) :
    ∃ b', firstBegin J = some b' ∧ b' ≤ b := by
  have hc := (firstBegin_covered n I h.1 b hb).1
  obtain ⟨b', h1, h2, _⟩ := good_first n J h.2.1 b ((h.2.2 b).1 hc)
  exact ⟨b', h1, h2⟩

theorem lastEnd_le (n : Nat) (I J : Ivs) (h : EqvIvs n I J) (e : Nat) (he : lastEnd I = some e) :
    ∃ e', lastEnd J = some e' ∧ e ≤ e' := by
  have hc := (lastEnd_covered n I h.1 e he).1
  obtain ⟨e', h1, h2, _⟩ := good_last n J h.2.1 e ((h.2.2 e).1 hc)
  exact ⟨e', h1, h2⟩

theorem eqv_symm {n : Nat} {I J : Ivs} (h : EqvIvs n I J) : EqvIvs n J I :=
  ⟨h.2.1, h.1, fun t => (h.2.2 t).symm⟩

theorem eqv_firstBegin (n : Nat) (I J : Ivs) (h : EqvIvs n I J) : firstBegin I = firstBegin J := by
  cases hI : firstBegin I with
  | none =>
    cases hJ : firstBegin J with
    | none => rfl
    | some b' =>
      obtain ⟨b, hb, _⟩ := firstBegin_le n J I (eqv_symm h) b' hJ
      rw [hI] at hb; cases hb
  | some b =>
    obtain ⟨b', hb', h1⟩ := firstBegin_le n I J h b hI
    obtain ⟨b'', hb'', h2⟩ := firstBegin_le n J I (eqv_symm h) b' hb'
    rw [hI] at hb''
    cases hb''
    rw [hb']
    congr 1
    omega

theorem eqv_lastEnd (n : Nat) (I J : Ivs) (h : EqvIvs n I J) : lastEnd I = lastEnd J := by
  cases hI : lastEnd I with
  | none =>
    cases hJ : lastEnd J with
    | none => rfl
    | some b' =>
      obtain ⟨b, hb, _⟩ := lastEnd_le n J I (eqv_symm h) b' hJ
      rw [hI] at hb; cases hb
  | some b =>
    obtain ⟨b', hb', h1⟩ := lastEnd_le n I J h b hI
    obtain ⟨b'', hb'', h2⟩ := lastEnd_le n J I (eqv_symm h) b' hb'
    rw [hI] at hb''
    cases hb''
    rw [hb']
    congr 1
    omega

theorem eqv_first (n : Nat) (I J : Ivs) (h : EqvIvs n I J) (f : Nat → Ivs)
    (hf : ∀ b, b < n → Good n (f b)) :
    EqvIvs n (match firstBegin I with | some b => f b | none => [])
      (match firstBegin J with | some b => f b | none => []) := by
  rw [← eqv_firstBegin n I J h]
  cases hb : firstBegin I with
  | none => exact eqv_refl n [] (good_nil n)
  | some b => exact eqv_refl n _ (hf b (firstBegin_covered n I h.1 b hb).2)

theorem eqv_last (n : Nat) (I J : Ivs) (h : EqvIvs n I J) (f : Nat → Ivs)
    (hf : ∀ e, e < n → Good n (f e)) :
    EqvIvs n (match lastEnd I with | some e => f e | none => [])
      (match lastEnd J with | some e => f e | none => []) := by
  rw [← eqv_lastEnd n I J h]
  cases he : lastEnd I with
  | none => exact eqv_refl n [] (good_nil n)
  | some e => exact eqv_refl n _ (hf e (lastEnd_covered n I h.1 e he).2)

variable {α : Type} [Val α] [LawfulVal α]

omit [LawfulVal α] in
/-- Without the union the exact variant is the mirror. -/
theorem explainU_id (σ : String → Nat → α) (n : Nat) (φ : F α) (I : Ivs) (flag : Bool) :
    explainU id σ n φ I flag = explain σ n φ I flag := by
  induction φ generalizing I flag with
  | var x => rfl
  | const c => rfl
  | un op φ ih => cases op <;> exact ih _ _
  | bin op φ ψ ih1 ih2 => cases op <;> cases flag <;> simp only [explainU, explain, ih1, ih2]
  | tmp1 op φ ih => cases op <;> cases flag <;> exact ih _ _
  | tmp2 op φ ψ ih1 ih2 => rfl
  | tb1 op a b φ ih => cases op <;> cases flag <;> exact ih _ _
  | tb2 op a b φ ψ ih1 ih2 => rfl

/-- `interval_union` covers the same positions. -/
theorem unionIvs_covered (I : Ivs) (t : Nat) : covered (unionIvs I) t ↔ covered I t := by
  unfold unionIvs
  rw [unionFold_covered t _ [] (sortIvsN_sorted I) (by intro q hq; simp at hq)]
  rw [covered_perm (sortIvsN_perm I)]
  simp [covered_nil]

/-- `interval_union` of a list in range with well-formed intervals is `Good`. -/
theorem unionIvs_good (n : Nat) (I : Ivs) (h : ∀ p ∈ I, p.1 ≤ p.2 ∧ p.2 < n) : Good n (unionIvs I) := by
  apply sep_good
  unfold unionIvs
  refine unionFold_sep n _ [] (sortIvsN_sorted I) ?_ (by intro q hq; simp at hq)
    ⟨by simp, List.Pairwise.nil⟩
  intro p hp
  exact h p ((sortIvsN_perm I).mem_iff.1 hp)

/-- Two runs that agree up to the representation of the interval lists. -/
def SameReports : Except Unit (List (String × Ivs)) → Except Unit (List (String × Ivs)) → Prop
  | .ok ex, .ok ex' => ∀ x t, reported ex x t = reported ex' x t
  | .error _, .error _ => True
  | _, _ => False

theorem eqv_union (n : Nat) (I J : Ivs) (h : EqvIvs n I J) : EqvIvs n (unionIvs I) J :=
  ⟨unionIvs_good n I h.1.1, h.2.1, fun t => (unionIvs_covered I t).trans (h.2.2 t)⟩

omit [LawfulVal α] in
theorem sameReports_both {x x' y y' : Except Unit (List (String × Ivs))}
    (hx : SameReports x x') (hy : SameReports y y') :
    SameReports (do let a ← x; let b ← y; pure (a ++ b)) (do let a ← x'; let b ← y'; pure (a ++ b)) := by
  cases x with
  | error e => cases x' with
    | error e' => trivial
    | ok a' => exact hx.elim
  | ok a => cases x' with
    | error e' => exact hx.elim
    | ok a' =>
      cases y with
      | error e => cases y' with
        | error e' => trivial
        | ok b' => exact hy.elim
      | ok b => cases y' with
        | error e' => exact hy.elim
        | ok b' =>
          intro z t
          show reported (a ++ b) z t = reported (a' ++ b') z t
          rw [reported_append, reported_append, hx z t, hy z t]

omit [Val α] [LawfulVal α] in
theorem reported_single_eq (x : String) (I J : Ivs) (h : ∀ t, covered I t ↔ covered J t) (z : String) (t : Nat) :
    reported [(x, I)] z t = reported [(x, J)] z t := by
  have key : ∀ K : Ivs, (K.any (fun (b, e) => decide (b ≤ t) && decide (t ≤ e)) = true) ↔ covered K t := by
    intro K
    simp [covered]
  have : I.any (fun (b, e) => decide (b ≤ t) && decide (t ≤ e)) = J.any (fun (b, e) => decide (b ≤ t) && decide (t ≤ e)) := by
    rw [Bool.eq_iff_iff, key, key, h t]
  unfold reported
  simp only [List.any_cons, List.any_nil, Bool.or_false, this]

omit [LawfulVal α] in
theorem explainU_same_eqv (σ : String → Nat → α) (n : Nat) :
    ∀ (φ : F α), φ.wf = true → ∀ (I J : Ivs) (flag : Bool), EqvIvs n I J →
      SameReports (explainU unionIvs σ n φ I flag) (explain σ n φ J flag)
  | .var x, _, I, J, flag, h => fun z t => reported_single_eq x I J h.2.2 z t
  | .const _, _, _, _, _, _ => fun _ _ => rfl
  | .un op φ, hwf, I, J, flag, h => by
    have ih := explainU_same_eqv σ n φ hwf
    cases op <;> exact ih _ _ _ h
  | .bin op φ ψ, hwf, I, J, flag, h => by
    simp only [F.wf, Bool.and_eq_true] at hwf
    have ih1 := explainU_same_eqv σ n φ hwf.1
    have ih2 := explainU_same_eqv σ n ψ hwf.2
    cases op <;> cases flag <;>
      first
      | exact sameReports_both (ih1 _ _ _ h) (ih2 _ _ _ h)
      | exact sameReports_both (ih1 _ _ _ (eqv_runsAll n _ I J h)) (ih2 _ _ _ (eqv_runsAll n _ I J h))
  | .tmp1 op φ, hwf, I, J, flag, h => by
    have ih := explainU_same_eqv σ n φ hwf
    cases op <;> cases flag <;>
      first
      | exact ih _ _ _ h
      | exact ih _ _ _ (eqv_explPrev n I J h)
      | exact ih _ _ _ (eqv_explNext n I J h)
      | exact ih _ _ _ (eqv_first n I J h (fun b => [(b, n - 1)])
          (fun b hb => good_singleton n b (n - 1) (by omega) (by omega)))
      | exact ih _ _ _ (eqv_first n I J h (fun b => runs _ b (n - 1))
          (fun b hb => good_runs n _ b (n - 1) (by omega)))
      | exact ih _ _ _ (eqv_last n I J h (fun e => [(0, e)])
          (fun e he => good_singleton n 0 e (by omega) he))
      | exact ih _ _ _ (eqv_last n I J h (fun e => runs _ 0 e)
          (fun e he => good_runs n _ 0 e he))
  | .tmp2 _ _ _, _, _, _, _, _ => trivial
  | .tb1 op a b φ, hwf, I, J, flag, h => by
    simp only [F.wf, Bool.and_eq_true, decide_eq_true_eq] at hwf
    have ih := explainU_same_eqv σ n φ hwf.2
    have hf := eqv_fwd n a b hwf.1 I J h
    have hb := eqv_bwd n a b hwf.1 I J h
    cases op <;> cases flag <;>
      first
      | exact ih _ _ _ (eqv_union n _ _ hf)
      | exact ih _ _ _ (eqv_union n _ _ hb)
      | exact ih _ _ _ (eqv_union n _ _ (eqv_runsAll n _ _ _ hf))
      | exact ih _ _ _ (eqv_union n _ _ (eqv_runsAll n _ _ _ hb))
  | .tb2 _ _ _ _ _, _, _, _, _, _ => trivial

-- (the statement keeps the section's `[LawfulVal α]`, which the proof does not need)
set_option linter.unusedSectionVars false in
/-- The explainer with `interval_union` and the explainer without report the same positions, when started from two
    `Good` lists that cover the same positions. -/
theorem explainU_same_reports (σ : String → Nat → α) (n : Nat) (φ : F α) (hwf : φ.wf = true)
    (I J : Ivs) (flag : Bool) (hI : Good n I) (hJ : Good n J) (hcov : ∀ t, covered I t ↔ covered J t) :
    SameReports (explainU unionIvs σ n φ I flag) (explain σ n φ J flag) :=
  explainU_same_eqv σ n φ hwf I J flag ⟨hI, hJ, hcov⟩

/-- At the level of `explain()`. -/
theorem explainSpecU_same_reports (σ : String → Nat → α) (n : Nat) (hn : 0 < n) (φ : F α) (hwf : φ.wf = true) :
    SameReports (explainSpecU σ n φ) (explainSpec σ n φ) := by
  unfold explainSpecU explainSpec
  split_ifs with h
  · exact explainU_same_reports σ n φ hwf [(0, 0)] [(0, 0)] false (good_singleton n 0 0 le_rfl hn)
      (good_singleton n 0 0 le_rfl hn) (fun _ => Iff.rfl)
  · exact fun _ _ => rfl

/-- C20 (partial, fragment `explFrag`) for the exact lists: the positions reported with `interval_union` applied are a
    sufficient cause of the violation. -/
theorem C20_sufficient_exact_partial (hz : Val.neg (Val.zero : α) = Val.zero)
    (σ σ' : String → Nat → α) (n : Nat) (hn : 0 < n) (φ : F α) (hwf : φ.wf = true)
    (hfrag : φ.explFrag = true) (ex : List (String × Ivs))
    (hex : explainSpecU σ n φ = .ok ex) (hviol : isUnsat (rho σ n φ 0) = true)
    (hagree : ∀ x t, reported ex x t = true → t < n → σ' x t = σ x t) :
    isUnsat (rho σ' n φ 0) = true := by
  obtain ⟨ex', hex'⟩ := C20_defined_on_fragment σ n φ hfrag [(0, 0)] false
  have hspec : explainSpec σ n φ = .ok ex' := by
    unfold explainSpec
    rw [if_pos hviol]
    exact hex'
  have hsame := explainSpecU_same_reports σ n hn φ hwf
  rw [hex, hspec] at hsame
  exact C20_sufficient_partial hz σ σ' n hn φ hfrag ex' hspec hviol
    (fun x t hr => hagree x t (by rw [hsame x t]; exact hr))

end Rtamt
