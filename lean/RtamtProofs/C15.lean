/-
  C15 — Syntactic variants and documented sugar denote the same monitor.

  About the model of the front end (`Rtamt/Front/*.lean`): aliases lex to the same token,
  the two interval separators are interchangeable, redundant parentheses disappear, and the
  parser returns the AST of every fully parenthesised rendering (round trip).  `unless` is
  desugared by the parser visitor into `always[0,b] phi or phi until[a,b] psi` by construction
  (the core syntax has no `unless`).  The minimal-parenthesis renderings (i.e. the precedence
  table against ANTLR) are validated by the correspondence stream of the C15 check: partial.
-/
import Rtamt.Front.Check
import Mathlib.Data.List.Basic

namespace Rtamt.Front
open Rtamt

/-- Every alias of the property text lexes to the token of its long form. -/
theorem C15_aliases :
    keyword "G" = keyword "always" ∧ keyword "F" = keyword "eventually" ∧ keyword "U" = keyword "until" ∧
    keyword "W" = keyword "unless" ∧ keyword "S" = keyword "since" ∧ keyword "O" = keyword "once" ∧
    keyword "H" = keyword "historically" ∧ keyword "X" = keyword "next" ∧ keyword "Y" = keyword "prev" ∧
    keyword "sX" = keyword "s_next" ∧ keyword "sY" = keyword "s_prev" ∧
    matchSymbol "!".toList = some (1, Tok.not) ∧ keyword "not" = some Tok.not ∧
    matchSymbol "&".toList = some (1, Tok.and) ∧ keyword "and" = some Tok.and ∧
    matchSymbol "|".toList = some (1, Tok.or) ∧ keyword "or" = some Tok.or ∧
    matchSymbol "->".toList = some (2, Tok.implies) ∧ keyword "implies" = some Tok.implies ∧
    matchSymbol "<->".toList = some (3, Tok.iff) ∧ keyword "iff" = some Tok.iff := by
  refine ⟨?_, ?_, ?_, ?_, ?_, ?_, ?_, ?_, ?_, ?_, ?_, ?_, ?_, ?_, ?_, ?_, ?_, ?_, ?_, ?_, ?_⟩ <;> rfl

/-- The common token stream of the two texts of `C15_alias_text`. -/
def aliasTextToks : List Tok :=
  [.ident "out", .equal, .always, .lbrack, .intLit "1", .colon, .intLit "2", .rbrack, .lparen,
   .ident "a", .and, .not, .ident "b", .rparen, .until_, .ident "c"]

theorem lex_alias_short : lex "out = G[1:2] (a & !b) U c" = .ok aliasTextToks := by rfl

theorem lex_alias_long : lex "out = always[1:2] (a and not b) until c" = .ok aliasTextToks := by rfl

/-- A whole text with an alias lexes like the text with the long form (instance). -/
theorem C15_alias_text :
    lex "out = G[1:2] (a & !b) U c" = lex "out = always[1:2] (a and not b) until c" :=
  lex_alias_short.trans lex_alias_long.symm

/-- An interval with either separator, given the results of its two bounds. -/
theorem parseInterval_ok (tb te rest : List Tok) (b e : IvTime) (sep : Tok)
    (hsep : sep = .colon ∨ sep = .comma)
    (hb : parseIvTime (tb ++ sep :: (te ++ .rbrack :: rest)) = .ok (b, sep :: (te ++ .rbrack :: rest)))
    (he : parseIvTime (te ++ .rbrack :: rest) = .ok (e, .rbrack :: rest)) :
    parseInterval (.lbrack :: (tb ++ sep :: (te ++ .rbrack :: rest))) = .ok ({ b := b, e := e }, rest) := by
  rcases hsep with rfl | rfl <;>
    simp [parseInterval, hb, he, bind, Except.bind, pure, Except.pure]

/-- The interval separators ':' and ',' are interchangeable. -/
theorem C15_separator (tb te rest : List Tok) (b e : IvTime)
    (hb : ∀ r, parseIvTime (tb ++ r) = .ok (b, r)) (he : ∀ r, parseIvTime (te ++ r) = .ok (e, r)) :
    parseInterval (.lbrack :: tb ++ .colon :: te ++ .rbrack :: rest) =
      parseInterval (.lbrack :: tb ++ .comma :: te ++ .rbrack :: rest) := by
  have h1 := parseInterval_ok tb te rest b e .colon (Or.inl rfl) (hb _) (he _)
  have h2 := parseInterval_ok tb te rest b e .comma (Or.inr rfl) (hb _) (he _)
  simp only [List.cons_append, List.append_assoc] at h1 h2 ⊢
  rw [h1, h2]

/-- Redundant parentheses: a parenthesised expression parses to the tree of its content. -/
theorem C15_parens (fuel : Nat) (ts rest : List Tok) (e : PE)
    (h : parseExpr fuel 0 ts = .ok (e, .rparen :: rest)) :
    parsePrimary (fuel + 1) (.lparen :: ts) = .ok (e, rest) := by
  simp [parsePrimary, h, bind, Except.bind, pure, Except.pure]

/-! ### round trip on fully parenthesised renderings -/

def tokOfPre : PreOp → Tok
  | .negate => .minus | .not => .not | .always => .always | .eventually => .eventually
  | .historically => .historically | .once => .once | .prev => .previous | .next => .next
  | .sprev => .strongPrevious | .snext => .strongNext

def tokOfFn1 : Fn1 → Tok
  | .abs => .abs | .sqrt => .sqrt | .exp => .exp | .ln => .ln | .rise => .rise | .fall => .fall

def tokOfBin : BinOp → Tok
  | .mul => .times | .div => .divide | .add => .plus | .sub => .minus
  | .cmp .le => .le | .cmp .ge => .ge | .cmp .lt => .lt | .cmp .gt => .gt | .cmp .eq => .eqeq | .cmp .ne => .neq
  | .until_ => .until_ | .unless => .unless | .since => .since
  | .and => .and | .or => .or | .implies => .implies | .iff => .iff | .xor => .xor

def tokOfUnit : TUnit → Tok
  | .s => .sec | .ms => .msec | .us => .usec | .ns => .nsec

def timeToks : IvTime → List Tok
  | .lit s none => [.intLit s]
  | .lit s (some u) => [.intLit s, tokOfUnit u]
  | .const n none => [.ident n]
  | .const n (some u) => [.ident n, tokOfUnit u]

def ivToks : Option PIv → List Tok
  | none => []
  | some i => .lbrack :: timeToks i.b ++ .comma :: timeToks i.e ++ [.rbrack]

/-- Fully parenthesised rendering (literals are rendered as integer-literal tokens). -/
def renderFull : PE → List Tok
  | .id s => [.ident s]
  | .lit s => [.intLit s]
  | .pre op iv e => tokOfPre op :: ivToks iv ++ .lparen :: renderFull e ++ [.rparen]
  | .fn1 f e => tokOfFn1 f :: .lparen :: renderFull e ++ [.rparen]
  | .fn2 .pow a b => .pow :: .lparen :: renderFull a ++ .comma :: renderFull b ++ [.rparen]
  | .fn2 .log a b => .log :: .lparen :: renderFull a ++ .comma :: renderFull b ++ [.rparen]
  | .bin op iv l r => .lparen :: renderFull l ++ .rparen :: tokOfBin op :: ivToks iv ++ .lparen :: renderFull r ++ [.rparen]

/-- Intervals occur only where the grammar allows them. -/
def PE.ivOk : PE → Bool
  | .id _ => true
  | .lit _ => true
  | .pre op iv e => (iv.isNone || takesInterval op) && e.ivOk
  | .fn1 _ e => e.ivOk
  | .fn2 _ a b => a.ivOk && b.ivOk
  | .bin op iv l r => (iv.isNone || binTakesInterval op) && l.ivOk && r.ivOk

def PE.size : PE → Nat
  | .id _ => 1
  | .lit _ => 1
  | .pre _ _ e => e.size + 1
  | .fn1 _ e => e.size + 1
  | .fn2 _ a b => a.size + b.size + 1
  | .bin _ _ l r => l.size + r.size + 1

/-- What may follow a complete expression. -/
def Closing (rest : List Tok) : Prop :=
  rest = [] ∨ ∃ t r, rest = t :: r ∧ (t = .rparen ∨ t = .semicolon ∨ t = .comma)

theorem closing_rparen (r : List Tok) : Closing (.rparen :: r) := Or.inr ⟨_, _, rfl, Or.inl rfl⟩
theorem closing_comma (r : List Tok) : Closing (.comma :: r) := Or.inr ⟨_, _, rfl, Or.inr (Or.inr rfl)⟩

theorem parseLoop_stop (f p : Nat) (lhs : PE) (rest : List Tok) (h : Closing rest) :
    parseLoop f p lhs rest = .ok (lhs, rest) := by
  cases f with
  | zero => simp [parseLoop]
  | succ f =>
    rcases h with rfl | ⟨t, r, rfl, rfl | rfl | rfl⟩ <;> simp [parseLoop, binOfTok]

theorem parseExpr_of (f p : Nat) (ts r : List Tok) (lhs : PE) (res : PE × List Tok)
    (h1 : parsePrimary f ts = .ok (lhs, r)) (h2 : parseLoop f p lhs r = .ok res) :
    parseExpr (f + 1) p ts = .ok res := by
  simp [parseExpr, h1, h2, bind, Except.bind]

/-- A parenthesised expression followed by a closing token, at any level. -/
theorem parseExpr_paren (f p : Nat) (ts rest : List Tok) (e : PE) (hc : Closing rest)
    (h : parseExpr f 0 ts = .ok (e, .rparen :: rest)) :
    parseExpr (f + 2) p (.lparen :: ts) = .ok (e, rest) :=
  parseExpr_of (f + 1) p _ rest e _ (C15_parens f ts rest e h) (parseLoop_stop _ _ _ _ hc)

theorem parseIvTime_timeToks (t : IvTime) (x : Tok) (r : List Tok) (hx : unitOfTok x = none) :
    parseIvTime (timeToks t ++ x :: r) = .ok (t, x :: r) := by
  rcases t with ⟨s, _ | u⟩ | ⟨s, _ | u⟩
  · simp [timeToks, parseIvTime, hx]
  · cases u <;> simp [timeToks, parseIvTime, tokOfUnit, unitOfTok]
  · simp [timeToks, parseIvTime, hx]
  · cases u <;> simp [timeToks, parseIvTime, tokOfUnit, unitOfTok]

theorem optInterval_ivToks (allowed : Bool) (iv : Option PIv) (r : List Tok)
    (h : (iv.isNone || allowed) = true) :
    optInterval allowed (ivToks iv ++ .lparen :: r) = .ok (iv, .lparen :: r) := by
  cases iv with
  | none => simp [ivToks, optInterval]
  | some i =>
    have ha : allowed = true := by simpa using h
    subst ha
    have := parseInterval_ok (timeToks i.b) (timeToks i.e) (.lparen :: r) i.b i.e .comma (Or.inr rfl)
      (parseIvTime_timeToks _ _ _ rfl) (parseIvTime_timeToks _ _ _ rfl)
    simp only [ivToks, List.cons_append, List.append_assoc, List.nil_append, optInterval]
    simp [this, Except.map]

theorem parsePrimary_pre (f : Nat) (op : PreOp) (iv : Option PIv) (toks r1 r2 : List Tok) (e : PE)
    (h1 : optInterval (takesInterval op) toks = .ok (iv, r1))
    (h2 : parseExpr f (if op = .negate then 21 else 18) r1 = .ok (e, r2)) :
    parsePrimary (f + 1) (tokOfPre op :: toks) = .ok (.pre op iv e, r2) := by
  cases op <;> simp [takesInterval] at h1 h2 <;>
    simp [parsePrimary, tokOfPre, fn1OfTok, preOfTok, takesInterval, h1, h2, bind, Except.bind, pure, Except.pure]

theorem parsePrimary_fn1 (f : Nat) (fn : Fn1) (ts rest : List Tok) (e : PE)
    (h : parseExpr f 0 ts = .ok (e, .rparen :: rest)) :
    parsePrimary (f + 1) (tokOfFn1 fn :: .lparen :: ts) = .ok (.fn1 fn e, rest) := by
  cases fn <;>
    simp [parsePrimary, tokOfFn1, fn1OfTok, h, bind, Except.bind, pure, Except.pure]

theorem parsePrimary_pow (f : Nat) (ts r2 rest : List Tok) (a b : PE)
    (h1 : parseExpr f 0 ts = .ok (a, .comma :: r2))
    (h2 : parseExpr f 0 r2 = .ok (b, .rparen :: rest)) :
    parsePrimary (f + 1) (.pow :: .lparen :: ts) = .ok (.fn2 .pow a b, rest) := by
  simp [parsePrimary, h1, h2, bind, Except.bind, pure, Except.pure]

theorem parsePrimary_log (f : Nat) (ts r2 rest : List Tok) (a b : PE)
    (h1 : parseExpr f 0 ts = .ok (a, .comma :: r2))
    (h2 : parseExpr f 0 r2 = .ok (b, .rparen :: rest)) :
    parsePrimary (f + 1) (.log :: .lparen :: ts) = .ok (.fn2 .log a b, rest) := by
  simp [parsePrimary, h1, h2, bind, Except.bind, pure, Except.pure]

theorem parseLoop_bin (f p : Nat) (op : BinOp) (iv : Option PIv) (lhs rhs : PE) (toks r1 r2 : List Tok)
    (res : PE × List Tok) (hp : p ≤ binLevel op)
    (h1 : optInterval (binTakesInterval op) toks = .ok (iv, r1))
    (h2 : parseExpr f (binLevel op + 1) r1 = .ok (rhs, r2))
    (h3 : parseLoop f p (.bin op iv lhs rhs) r2 = .ok res) :
    parseLoop (f + 1) p lhs (tokOfBin op :: toks) = .ok res := by
  have hb : binOfTok (tokOfBin op) = some op := by
    rcases op with _ | _ | _ | _ | c | _ | _ | _ | _ | _ | _ | _ | _ <;> first | rfl | (cases c <;> rfl)
  simp [parseLoop, hb, hp, h1, h2, h3, bind, Except.bind]

theorem roundtrip_aux (e : PE) : ∀ (rest : List Tok) (fuel : Nat), e.ivOk = true → Closing rest →
    4 * e.size + 4 ≤ fuel → parseExpr fuel 0 (renderFull e ++ rest) = .ok (e, rest) := by
  induction e with
  | id s =>
    intro rest fuel _ hc hf
    obtain ⟨f, rfl⟩ : ∃ f, fuel = f + 2 := ⟨fuel - 2, by simp [PE.size] at hf; omega⟩
    exact parseExpr_of (f + 1) 0 _ rest (.id s) _ (by simp [renderFull, parsePrimary]) (parseLoop_stop _ _ _ _ hc)
  | lit s =>
    intro rest fuel _ hc hf
    obtain ⟨f, rfl⟩ : ∃ f, fuel = f + 2 := ⟨fuel - 2, by simp [PE.size] at hf; omega⟩
    exact parseExpr_of (f + 1) 0 _ rest (.lit s) _ (by simp [renderFull, parsePrimary]) (parseLoop_stop _ _ _ _ hc)
  | pre op iv e ih =>
    intro rest fuel hiv hc hf
    simp only [PE.ivOk, Bool.and_eq_true] at hiv
    simp only [PE.size] at hf
    obtain ⟨f, rfl⟩ : ∃ f, fuel = f + 4 := ⟨fuel - 4, by omega⟩
    have he := ih (.rparen :: rest) f hiv.2 (closing_rparen _) (by omega)
    have h2 := parseExpr_paren f (if op = .negate then 21 else 18) _ rest e hc he
    have h1 := optInterval_ivToks (takesInterval op) iv (renderFull e ++ .rparen :: rest) hiv.1
    have hp := parsePrimary_pre (f + 2) op iv _ _ _ e h1 h2
    have := parseExpr_of (f + 3) 0 _ rest _ _ hp (parseLoop_stop _ _ _ _ hc)
    simpa [renderFull] using this
  | fn1 fn e ih =>
    intro rest fuel hiv hc hf
    simp only [PE.ivOk] at hiv
    simp only [PE.size] at hf
    obtain ⟨f, rfl⟩ : ∃ f, fuel = f + 2 := ⟨fuel - 2, by omega⟩
    have he := ih (.rparen :: rest) f hiv (closing_rparen _) (by omega)
    have hp := parsePrimary_fn1 f fn _ rest e he
    have := parseExpr_of (f + 1) 0 _ rest _ _ hp (parseLoop_stop _ _ _ _ hc)
    simpa [renderFull] using this
  | fn2 fn a b iha ihb =>
    intro rest fuel hiv hc hf
    simp only [PE.ivOk, Bool.and_eq_true] at hiv
    simp only [PE.size] at hf
    obtain ⟨f, rfl⟩ : ∃ f, fuel = f + 2 := ⟨fuel - 2, by omega⟩
    have hb := ihb (.rparen :: rest) f hiv.2 (closing_rparen _) (by omega)
    have ha := iha (.comma :: (renderFull b ++ .rparen :: rest)) f hiv.1 (closing_comma _) (by omega)
    cases fn with
    | pow =>
      have hp := parsePrimary_pow f _ _ rest a b ha hb
      have := parseExpr_of (f + 1) 0 _ rest _ _ hp (parseLoop_stop _ _ _ _ hc)
      simpa [renderFull] using this
    | log =>
      have hp := parsePrimary_log f _ _ rest a b ha hb
      have := parseExpr_of (f + 1) 0 _ rest _ _ hp (parseLoop_stop _ _ _ _ hc)
      simpa [renderFull] using this
  | bin op iv l r ihl ihr =>
    intro rest fuel hiv hc hf
    simp only [PE.ivOk, Bool.and_eq_true] at hiv
    simp only [PE.size] at hf
    obtain ⟨f, rfl⟩ : ∃ f, fuel = f + 4 := ⟨fuel - 4, by omega⟩
    have hr := ihr (.rparen :: rest) f hiv.2 (closing_rparen _) (by omega)
    have h2 := parseExpr_paren f (binLevel op + 1) _ rest r hc hr
    have h1 := optInterval_ivToks (binTakesInterval op) iv (renderFull r ++ .rparen :: rest) hiv.1.1
    have hloop := parseLoop_bin (f + 2) 0 op iv l r _ _ _ _ (Nat.zero_le _) h1 h2
      (parseLoop_stop _ _ _ _ hc)
    have hl := ihl (.rparen :: tokOfBin op :: (ivToks iv ++ .lparen :: (renderFull r ++ .rparen :: rest)))
      (f + 2) hiv.1.2 (closing_rparen _) (by omega)
    have hp := C15_parens (f + 2) _ _ l hl
    have := parseExpr_of (f + 3) 0 _ _ _ _ hp hloop
    simpa [renderFull] using this

/-- Round trip: the parser returns the tree of every fully parenthesised rendering, when what
    follows is a closing token (`)`, `;`, `,` or the end). -/
theorem C15_roundtrip_full (e : PE) (hiv : e.ivOk = true) (rest : List Tok)
    (hrest : rest = [] ∨ ∃ t r, rest = t :: r ∧ (t = .rparen ∨ t = .semicolon ∨ t = .comma))
    (fuel : Nat) (hf : 4 * e.size + 4 ≤ fuel) :
    parseExpr fuel 0 (renderFull e ++ rest) = .ok (e, rest) :=
  roundtrip_aux e rest fuel hiv hrest hf

end Rtamt.Front
