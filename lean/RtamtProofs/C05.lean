/-
  C05 — Dense-time online output does not depend on how the input is chunked (partial);
  C16 (dense part) — settled dense-time results are stable under extension of the signals.

  What is proved about the dense M-spec `rhoD`:
    * `C16_dense_settled`: the value at `t` of a formula without unbounded future operators
      depends on the input signals up to `t + hor φ · scale` only;
    * `C05_causal` (the case of past formulas, horizon 0): the value at `t` depends on the
      signals up to `t` only — this is what makes "the online output agrees with the offline
      robustness at every time it covers" well defined for a partial input and independent of
      how the remaining input is cut;
    * `C05_chunking_irrelevant`: hence any two chunked presentations of the same signals that
      both cover `t` determine the same value at `t`.
  The online algorithms themselves (interval stacks with remainders) are not mirrored; they
  are tied to `rhoD` by the correspondence stream `on-c` over all chunkings.
-/
import RtamtProofs.Dense.Step
import Rtamt.Discrete.Pastify

namespace Rtamt.Dense
open Rtamt Val

variable {α : Type} [Val α] [LawfulVal α]

/-- Two environments agree on the variables `xs` up to time `T`: same domain start and same
    value at every `s ≤ T`. -/
def AgreeUpTo (w w' : DEnv α) (xs : List String) (T : Rat) : Prop :=
  ∀ x ∈ xs, (w.sig x).times.head? = (w'.sig x).times.head? ∧
            ∀ s, s ≤ T → (w.sig x).valAt s = (w'.sig x).valAt s

/-- No future operator at all. -/
def pastOnly : F α → Bool
  | .var _ => true
  | .const _ => true
  | .un _ φ => pastOnly φ
  | .bin _ φ ψ => pastOnly φ && pastOnly ψ
  | .tmp1 op φ => (match op with | .once | .hist => true | _ => false) && pastOnly φ
  | .tmp2 op φ ψ => (match op with | .since => true | _ => false) && pastOnly φ && pastOnly ψ
  | .tb1 op _ _ φ => (match op with | .once | .hist => true | _ => false) && pastOnly φ
  | .tb2 op _ _ φ ψ => (match op with | .since => true | _ => false) && pastOnly φ && pastOnly ψ

/-! ### helpers -/

omit [Val α] [LawfulVal α] in
theorem AgreeUpTo.mono {w w' : DEnv α} {xs ys : List String} {T T' : Rat}
    (h : AgreeUpTo w w' xs T) (hxs : ∀ x ∈ ys, x ∈ xs) (hT : T' ≤ T) : AgreeUpTo w w' ys T' :=
  fun x hx => ⟨(h x (hxs x hx)).1, fun s hs => (h x (hxs x hx)).2 s (le_trans hs hT)⟩

omit [Val α] [LawfulVal α] in
theorem AgreeUpTo.symm {w w' : DEnv α} {xs : List String} {T : Rat}
    (h : AgreeUpTo w w' xs T) : AgreeUpTo w' w xs T :=
  fun x hx => ⟨(h x hx).1.symm, fun s hs => ((h x hx).2 s hs).symm⟩

omit [Val α] [LawfulVal α] in
/-- The domain start only depends on the first time stamps. -/
theorem dom_congr {w w' : DEnv α} {φ : F α} {T : Rat} (h : AgreeUpTo w w' φ.vars T) :
    dom w φ = dom w' φ := by
  unfold dom
  congr 1
  apply List.map_congr_left
  intro x hx
  rw [(h x hx).1]

omit [Val α] [LawfulVal α] in
theorem read_le (cfg : DCfg) (hs : 0 ≤ cfg.scale) {a c b : Nat} (hab : a + c ≤ b) {s t : Rat}
    (hst : s ≤ t + (c : Rat) * cfg.scale) :
    s + (a : Rat) * cfg.scale ≤ t + (b : Rat) * cfg.scale := by
  have h1 : ((a + c : Nat) : Rat) ≤ (b : Rat) := Nat.cast_le.2 hab
  have h2 := mul_le_mul_of_nonneg_right h1 hs
  push_cast at h2
  linarith

omit [Val α] [LawfulVal α] in
theorem read_le0 (cfg : DCfg) (hs : 0 ≤ cfg.scale) {a b : Nat} (hab : a ≤ b) {s t : Rat}
    (hst : s ≤ t) : s + (a : Rat) * cfg.scale ≤ t + (b : Rat) * cfg.scale := by
  have h2 := mul_le_mul_of_nonneg_right (Nat.cast_le (α := Rat).2 hab) hs
  linarith

/-- Two step functions that agree point-wise on a closed window have the same fold there,
    whatever their candidate lists are. -/
theorem foldWin_agree {f : α → α → α} {init : α} (hf : WinOp f init) {g g' : Rat → Option α}
    {B B' : List Rat} {d lo hi : Rat} (hg : StepOn g B d none) (hg' : StepOn g' B' d none)
    (hlo : d ≤ lo) (hle : lo ≤ hi) (he : ∀ s, lo ≤ s → s ≤ hi → g s = g' s) :
    foldWin f init g B lo (some hi) = foldWin f init g' B' lo (some hi) :=
  hf.some (hg.restrict hlo _) hle (hg'.restrict hlo _) hle
    (winSet_congr (fun s h1 h2 => he s h1 h2))

theorem sinceInner_agree {g1 g1' g2 g2' : Rat → Option α} {B1 B1' : List Rat} {d1 t s : Rat}
    (h1 : StepOn g1 B1 d1 none) (h1' : StepOn g1' B1' d1 none) (hs : d1 ≤ s) (hst : s ≤ t)
    (e2 : g2 s = g2' s) (e1 : ∀ x, s ≤ x → x ≤ t → g1 x = g1' x) :
    sinceInner g1 g2 B1 t s = sinceInner g1' g2' B1' t s := by
  simp only [sinceInner, e2, foldWin_agree winOp_min h1 h1' hs hst e1]

theorem untilInner_agree {g1 g1' g2 g2' : Rat → Option α} {B1 B1' : List Rat} {d1 t s : Rat}
    (h1 : StepOn g1 B1 d1 none) (h1' : StepOn g1' B1' d1 none) (ht : d1 ≤ t) (hts : t ≤ s)
    (e2 : g2 s = g2' s) (e1 : ∀ x, t ≤ x → x ≤ s → g1 x = g1' x) :
    untilInner g1 g2 B1 t s = untilInner g1' g2' B1' t s := by
  simp only [untilInner, e2, foldWin_agree winOp_min h1 h1' ht hts e1]

theorem since_agree {g1 g1' g2 g2' : Rat → Option α} {B1 B1' B2 B2' : List Rat}
    {d1 d2 t lo hi : Rat}
    (h1 : StepOn g1 B1 d1 none) (h1' : StepOn g1' B1' d1 none)
    (h2 : StepOn g2 B2 d2 none) (h2' : StepOn g2' B2' d2 none)
    (hlo : max d1 d2 ≤ lo) (hle : lo ≤ hi) (hhi : hi ≤ t)
    (e1 : ∀ x, lo ≤ x → x ≤ t → g1 x = g1' x) (e2 : ∀ x, lo ≤ x → x ≤ hi → g2 x = g2' x) :
    foldWin pmax ninf (sinceInner g1 g2 B1 t) (B1 ++ B2) lo (some hi)
      = foldWin pmax ninf (sinceInner g1' g2' B1' t) (B1' ++ B2') lo (some hi) := by
  have k : StepOn (sinceInner g1 g2 B1 t) (B1 ++ B2) lo (some hi) :=
    (sinceInner_stepOn h1 h2 t).mono hlo (fun s (hs : s ≤ hi) => (le_trans hs hhi : s ≤ t))
      (fun _ h => h)
  have k' : StepOn (sinceInner g1' g2' B1' t) (B1' ++ B2') lo (some hi) :=
    (sinceInner_stepOn h1' h2' t).mono hlo (fun s (hs : s ≤ hi) => (le_trans hs hhi : s ≤ t))
      (fun _ h => h)
  apply foldWin_max_eq_some k hle k' hle
  apply winSet_congr
  intro s hs1 hs2
  have hs2' : s ≤ hi := hs2
  exact sinceInner_agree h1 h1' (le_trans (le_max_left _ _) (le_trans hlo hs1))
    (le_trans hs2' hhi) (e2 s hs1 hs2') (fun x hx1 hx2 => e1 x (le_trans hs1 hx1) hx2)

theorem until_agree {g1 g1' g2 g2' : Rat → Option α} {B1 B1' B2 B2' : List Rat}
    {d1 d2 t lo hi : Rat}
    (h1 : StepOn g1 B1 d1 none) (h1' : StepOn g1' B1' d1 none)
    (h2 : StepOn g2 B2 d2 none) (h2' : StepOn g2' B2' d2 none)
    (ht : max d1 d2 ≤ t) (hlo : t ≤ lo) (hle : lo ≤ hi)
    (e1 : ∀ x, t ≤ x → x ≤ hi → g1 x = g1' x) (e2 : ∀ x, lo ≤ x → x ≤ hi → g2 x = g2' x) :
    foldWin pmax ninf (untilInner g1 g2 B1 t) (B1 ++ B2) lo (some hi)
      = foldWin pmax ninf (untilInner g1' g2' B1' t) (B1' ++ B2') lo (some hi) := by
  have k : StepOn (untilInner g1 g2 B1 t) (B1 ++ B2) lo (some hi) :=
    (untilInner_stepOn h1 h2 ht).restrict hlo _
  have k' : StepOn (untilInner g1' g2' B1' t) (B1' ++ B2') lo (some hi) :=
    (untilInner_stepOn h1' h2' ht).restrict hlo _
  apply foldWin_max_eq_some k hle k' hle
  apply winSet_congr
  intro s hs1 hs2
  have hs2' : s ≤ hi := hs2
  exact untilInner_agree h1 h1' (le_trans (le_max_left _ _) ht) (le_trans hlo hs1)
    (e2 s hs1 hs2') (fun x hx1 hx2 => e1 x hx1 (le_trans hx2 hs2'))

theorem settled_aux (cfg : DCfg) (hs : 0 ≤ cfg.scale) (w w' : DEnv α) (φ : F α) :
    supported φ = true → φ.bounded = true → w.WF φ.vars → w'.WF φ.vars →
    ∀ t : Rat, AgreeUpTo w w' φ.vars (t + (hor φ : Rat) * cfg.scale) →
      rhoD cfg w φ t = rhoD cfg w' φ t := by
  induction φ with
  | var x =>
    intro _ _ _ _ t h
    have := (h x (by simp [F.vars])).2 t (by simp [hor])
    simpa [rhoD] using this
  | const c => intros; rfl
  | un op φ ih =>
    intro hsup hb hw hw' t h
    have := ih hsup hb hw hw' t h
    simp only [rhoD, this]
  | bin op φ ψ ihφ ihψ =>
    intro hsup hb hw hw' t h
    simp only [supported, Bool.and_eq_true] at hsup
    simp only [F.bounded, Bool.and_eq_true] at hb
    have hwφ : w.WF φ.vars := fun x hx => hw x (List.mem_append_left _ hx)
    have hwψ : w.WF ψ.vars := fun x hx => hw x (List.mem_append_right _ hx)
    have hwφ' : w'.WF φ.vars := fun x hx => hw' x (List.mem_append_left _ hx)
    have hwψ' : w'.WF ψ.vars := fun x hx => hw' x (List.mem_append_right _ hx)
    have e1 := ihφ hsup.1 hb.1 hwφ hwφ' t
      (h.mono (fun x hx => List.mem_append_left _ hx)
        (read_le0 cfg hs (le_max_left (hor φ) (hor ψ)) le_rfl))
    have e2 := ihψ hsup.2 hb.2 hwψ hwψ' t
      (h.mono (fun x hx => List.mem_append_right _ hx)
        (read_le0 cfg hs (le_max_right (hor φ) (hor ψ)) le_rfl))
    simp only [rhoD, e1, e2]
  | tmp1 op φ ih =>
    intro hsup hb hw hw' t h
    have hd : dom w φ = dom w' φ := dom_congr (φ := φ) h
    cases op <;> first
      | (exfalso; simp [supported] at hsup; done)
      | (exfalso; simp [F.bounded] at hb; done)
      | skip
    all_goals
      simp only [supported, Bool.true_and] at hsup
      simp only [F.bounded, Bool.true_and] at hb
      have e : ∀ s, s ≤ t → rhoD cfg w φ s = rhoD cfg w' φ s := fun s hst =>
        ih hsup hb hw hw' s (h.mono (fun _ hx => hx) (read_le0 cfg hs le_rfl hst))
      have hg := rhoD_stepOn cfg hs w φ hsup hw
      have hg' := rhoD_stepOn cfg hs w' φ hsup hw'
      rw [← hd] at hg'
      simp only [rhoD]
      rw [← hd]
      by_cases hlt : t < dom w φ
      · simp only [if_pos hlt]
      · simp only [if_neg hlt]
        first
          | exact foldWin_agree winOp_max hg hg' le_rfl (not_lt.1 hlt) (fun s _ h2 => e s h2)
          | exact foldWin_agree winOp_min hg hg' le_rfl (not_lt.1 hlt) (fun s _ h2 => e s h2)
  | tmp2 op φ ψ ihφ ihψ =>
    intro hsup hb hw hw' t h
    cases op
    case «until» => exfalso; simp [F.bounded] at hb
    case since =>
    simp only [supported, Bool.and_eq_true] at hsup
    simp only [F.bounded, Bool.true_and, Bool.and_eq_true] at hb
    have hwφ : w.WF φ.vars := fun x hx => hw x (List.mem_append_left _ hx)
    have hwψ : w.WF ψ.vars := fun x hx => hw x (List.mem_append_right _ hx)
    have hwφ' : w'.WF φ.vars := fun x hx => hw' x (List.mem_append_left _ hx)
    have hwψ' : w'.WF ψ.vars := fun x hx => hw' x (List.mem_append_right _ hx)
    have hφ := h.mono (ys := φ.vars) (fun x hx => List.mem_append_left _ hx) le_rfl
    have hψ := h.mono (ys := ψ.vars) (fun x hx => List.mem_append_right _ hx) le_rfl
    have hdφ : dom w φ = dom w' φ := dom_congr hφ
    have hdψ : dom w ψ = dom w' ψ := dom_congr hψ
    have eφ : ∀ s, s ≤ t → rhoD cfg w φ s = rhoD cfg w' φ s := fun s hst =>
      ihφ hsup.1 hb.1 hwφ hwφ' s (h.mono (fun x hx => List.mem_append_left _ hx)
        (read_le0 cfg hs (le_max_left (hor φ) (hor ψ)) hst))
    have eψ : ∀ s, s ≤ t → rhoD cfg w ψ s = rhoD cfg w' ψ s := fun s hst =>
      ihψ hsup.2 hb.2 hwψ hwψ' s (h.mono (fun x hx => List.mem_append_right _ hx)
        (read_le0 cfg hs (le_max_right (hor φ) (hor ψ)) hst))
    have g1 := rhoD_stepOn cfg hs w φ hsup.1 hwφ
    have g1' := rhoD_stepOn cfg hs w' φ hsup.1 hwφ'
    have g2 := rhoD_stepOn cfg hs w ψ hsup.2 hwψ
    have g2' := rhoD_stepOn cfg hs w' ψ hsup.2 hwψ'
    rw [← hdφ] at g1'
    rw [← hdψ] at g2'
    simp only [rhoD]
    rw [← hdφ, ← hdψ]
    by_cases hlt : t < max (dom w φ) (dom w ψ)
    · simp only [if_pos hlt]
    · simp only [if_neg hlt]
      exact since_agree g1 g1' g2 g2' le_rfl (not_lt.1 hlt) le_rfl
        (fun x _ hx => eφ x hx) (fun x _ hx => eψ x hx)
  | tb1 op a b φ ih =>
    intro hsup hb hw hw' t h
    have hd : dom w φ = dom w' φ := dom_congr (φ := φ) h
    simp only [supported, Bool.and_eq_true, decide_eq_true_eq] at hsup
    have hb' : φ.bounded = true := hb
    obtain ⟨ha', hab'⟩ := scale_bounds cfg hs hsup.1
    have hg := rhoD_stepOn cfg hs w φ hsup.2 hw
    have hg' := rhoD_stepOn cfg hs w' φ hsup.2 hw'
    rw [← hd] at hg'
    cases op
    case once =>
      have e : ∀ s, s ≤ t → rhoD cfg w φ s = rhoD cfg w' φ s := fun s hst =>
        ih hsup.2 hb' hw hw' s (h.mono (fun _ hx => hx) (read_le0 cfg hs le_rfl hst))
      simp only [rhoD]
      rw [← hd]
      by_cases hlt : t < dom w φ
      · simp only [if_pos hlt]
      · simp only [if_neg hlt]
        by_cases hlt2 : t - (a : Rat) * cfg.scale < dom w φ
        · simp only [if_pos hlt2]
        · simp only [if_neg hlt2]
          exact foldWin_agree winOp_max hg hg' (le_max_right _ _)
            (max_le (by linarith) (not_lt.1 hlt2)) (fun s _ h2 => e s (by linarith))
    case hist =>
      have e : ∀ s, s ≤ t → rhoD cfg w φ s = rhoD cfg w' φ s := fun s hst =>
        ih hsup.2 hb' hw hw' s (h.mono (fun _ hx => hx) (read_le0 cfg hs le_rfl hst))
      simp only [rhoD]
      rw [← hd]
      by_cases hlt : t < dom w φ
      · simp only [if_pos hlt]
      · simp only [if_neg hlt]
        by_cases hlt2 : t - (a : Rat) * cfg.scale < dom w φ
        · simp only [if_pos hlt2]
        · simp only [if_neg hlt2]
          exact foldWin_agree winOp_min hg hg' (le_max_right _ _)
            (max_le (by linarith) (not_lt.1 hlt2)) (fun s _ h2 => e s (by linarith))
    case ev =>
      have e : ∀ s, s ≤ t + (b : Rat) * cfg.scale → rhoD cfg w φ s = rhoD cfg w' φ s :=
        fun s hst =>
          ih hsup.2 hb' hw hw' s (h.mono (fun _ hx => hx) (read_le cfg hs le_rfl hst))
      simp only [rhoD]
      rw [← hd]
      by_cases hlt : t < dom w φ
      · simp only [if_pos hlt]
      · simp only [if_neg hlt]
        exact foldWin_agree winOp_max hg hg' (by linarith [not_lt.1 hlt]) (by linarith)
          (fun s _ h2 => e s h2)
    case alw =>
      have e : ∀ s, s ≤ t + (b : Rat) * cfg.scale → rhoD cfg w φ s = rhoD cfg w' φ s :=
        fun s hst =>
          ih hsup.2 hb' hw hw' s (h.mono (fun _ hx => hx) (read_le cfg hs le_rfl hst))
      simp only [rhoD]
      rw [← hd]
      by_cases hlt : t < dom w φ
      · simp only [if_pos hlt]
      · simp only [if_neg hlt]
        exact foldWin_agree winOp_min hg hg' (by linarith [not_lt.1 hlt]) (by linarith)
          (fun s _ h2 => e s h2)
  | tb2 op a b φ ψ ihφ ihψ =>
    intro hsup hb hw hw' t h
    have hb' : φ.bounded = true ∧ ψ.bounded = true := by
      simpa only [F.bounded, Bool.and_eq_true] using hb
    have hwφ : w.WF φ.vars := fun x hx => hw x (List.mem_append_left _ hx)
    have hwψ : w.WF ψ.vars := fun x hx => hw x (List.mem_append_right _ hx)
    have hwφ' : w'.WF φ.vars := fun x hx => hw' x (List.mem_append_left _ hx)
    have hwψ' : w'.WF ψ.vars := fun x hx => hw' x (List.mem_append_right _ hx)
    have hφ := h.mono (ys := φ.vars) (fun x hx => List.mem_append_left _ hx) le_rfl
    have hψ := h.mono (ys := ψ.vars) (fun x hx => List.mem_append_right _ hx) le_rfl
    have hdφ : dom w φ = dom w' φ := dom_congr hφ
    have hdψ : dom w ψ = dom w' ψ := dom_congr hψ
    cases op <;> simp only [supported, Bool.and_eq_true, decide_eq_true_eq, Bool.false_and,
      Bool.true_and] at hsup
    case precedes => exact absurd hsup (by simp)
    case since =>
      obtain ⟨ha', hab'⟩ := scale_bounds cfg hs hsup.1.1
      have eφ : ∀ s, s ≤ t → rhoD cfg w φ s = rhoD cfg w' φ s := fun s hst =>
        ihφ hsup.1.2 hb'.1 hwφ hwφ' s (h.mono (fun x hx => List.mem_append_left _ hx)
          (read_le0 cfg hs (le_max_left (hor φ) (hor ψ)) hst))
      have eψ : ∀ s, s ≤ t → rhoD cfg w ψ s = rhoD cfg w' ψ s := fun s hst =>
        ihψ hsup.2 hb'.2 hwψ hwψ' s (h.mono (fun x hx => List.mem_append_right _ hx)
          (read_le0 cfg hs (le_max_right (hor φ) (hor ψ)) hst))
      have g1 := rhoD_stepOn cfg hs w φ hsup.1.2 hwφ
      have g1' := rhoD_stepOn cfg hs w' φ hsup.1.2 hwφ'
      have g2 := rhoD_stepOn cfg hs w ψ hsup.2 hwψ
      have g2' := rhoD_stepOn cfg hs w' ψ hsup.2 hwψ'
      rw [← hdφ] at g1'
      rw [← hdψ] at g2'
      simp only [rhoD]
      rw [← hdφ, ← hdψ]
      by_cases hlt : t < max (dom w φ) (dom w ψ)
      · simp only [if_pos hlt]
      · simp only [if_neg hlt]
        by_cases hlt2 : t - (a : Rat) * cfg.scale < max (dom w φ) (dom w ψ)
        · simp only [if_pos hlt2]
        · simp only [if_neg hlt2]
          exact since_agree g1 g1' g2 g2' (le_max_right _ _)
            (max_le (by linarith) (not_lt.1 hlt2)) (by linarith)
            (fun x _ hx => eφ x hx) (fun x _ hx => eψ x (by linarith))
    case «until» =>
      obtain ⟨ha', hab'⟩ := scale_bounds cfg hs hsup.1.1
      have eφ : ∀ s, s ≤ t + (b : Rat) * cfg.scale → rhoD cfg w φ s = rhoD cfg w' φ s :=
        fun s hst =>
          ihφ hsup.1.2 hb'.1 hwφ hwφ' s (h.mono (fun x hx => List.mem_append_left _ hx)
            (read_le cfg hs (Nat.add_le_add_right (le_max_left (hor φ) (hor ψ)) b) hst))
      have eψ : ∀ s, s ≤ t + (b : Rat) * cfg.scale → rhoD cfg w ψ s = rhoD cfg w' ψ s :=
        fun s hst =>
          ihψ hsup.2 hb'.2 hwψ hwψ' s (h.mono (fun x hx => List.mem_append_right _ hx)
            (read_le cfg hs (Nat.add_le_add_right (le_max_right (hor φ) (hor ψ)) b) hst))
      have g1 := rhoD_stepOn cfg hs w φ hsup.1.2 hwφ
      have g1' := rhoD_stepOn cfg hs w' φ hsup.1.2 hwφ'
      have g2 := rhoD_stepOn cfg hs w ψ hsup.2 hwψ
      have g2' := rhoD_stepOn cfg hs w' ψ hsup.2 hwψ'
      rw [← hdφ] at g1'
      rw [← hdψ] at g2'
      simp only [rhoD]
      rw [← hdφ, ← hdψ]
      by_cases hlt : t < max (dom w φ) (dom w ψ)
      · simp only [if_pos hlt]
      · simp only [if_neg hlt]
        exact until_agree g1 g1' g2 g2' (not_lt.1 hlt) (by linarith) (by linarith)
          (fun x _ hx => eφ x hx) (fun x _ hx => eψ x hx)

omit [Val α] [LawfulVal α] in
/-- A past formula has no unbounded future operator and horizon 0. -/
theorem pastOnly_bounded_hor (φ : F α) (hp : pastOnly φ = true) :
    φ.bounded = true ∧ hor φ = 0 := by
  induction φ with
  | var x => exact ⟨rfl, rfl⟩
  | const c => exact ⟨rfl, rfl⟩
  | un op φ ih => exact ih hp
  | bin op φ ψ ihφ ihψ =>
    simp only [pastOnly, Bool.and_eq_true] at hp
    obtain ⟨a1, a2⟩ := ihφ hp.1
    obtain ⟨b1, b2⟩ := ihψ hp.2
    simp [F.bounded, hor, a1, a2, b1, b2]
  | tmp1 op φ ih =>
    cases op <;> simp only [pastOnly, Bool.false_and, Bool.true_and] at hp
    case once => obtain ⟨a1, a2⟩ := ih hp; simp [F.bounded, hor, a1, a2]
    case hist => obtain ⟨a1, a2⟩ := ih hp; simp [F.bounded, hor, a1, a2]
    all_goals exact absurd hp (by simp)
  | tmp2 op φ ψ ihφ ihψ =>
    cases op <;> simp only [pastOnly, Bool.false_and, Bool.true_and, Bool.and_eq_true] at hp
    · obtain ⟨a1, a2⟩ := ihφ hp.1
      obtain ⟨b1, b2⟩ := ihψ hp.2
      simp [F.bounded, hor, a1, a2, b1, b2]
    · exact absurd hp (by simp)
  | tb1 op a b φ ih =>
    cases op <;> simp only [pastOnly, Bool.false_and, Bool.true_and] at hp
    case once => obtain ⟨a1, a2⟩ := ih hp; simp [F.bounded, hor, a1, a2]
    case hist => obtain ⟨a1, a2⟩ := ih hp; simp [F.bounded, hor, a1, a2]
    all_goals exact absurd hp (by simp)
  | tb2 op a b φ ψ ihφ ihψ =>
    cases op <;> simp only [pastOnly, Bool.false_and, Bool.true_and, Bool.and_eq_true] at hp
    · obtain ⟨a1, a2⟩ := ihφ hp.1
      obtain ⟨b1, b2⟩ := ihψ hp.2
      simp [F.bounded, hor, a1, a2, b1, b2]
    · exact absurd hp (by simp)
    · exact absurd hp (by simp)

/-- C16 (dense): for a supported formula without unbounded future operators, the value at `t`
    depends only on the signals up to `t + hor φ · scale`. -/
theorem C16_dense_settled (cfg : DCfg) (hs : 0 ≤ cfg.scale) (w w' : DEnv α) (φ : F α)
    (hsup : supported φ = true) (hb : φ.bounded = true) (hw : w.WF φ.vars) (hw' : w'.WF φ.vars)
    (t : Rat) (h : AgreeUpTo w w' φ.vars (t + (hor φ : Rat) * cfg.scale)) :
    rhoD cfg w φ t = rhoD cfg w' φ t :=
  settled_aux cfg hs w w' φ hsup hb hw hw' t h

/-- C05 causality: a past formula at `t` depends on the signals up to `t` only. -/
theorem C05_causal (cfg : DCfg) (hs : 0 ≤ cfg.scale) (w w' : DEnv α) (φ : F α)
    (hsup : supported φ = true) (hp : pastOnly φ = true) (hw : w.WF φ.vars) (hw' : w'.WF φ.vars)
    (t : Rat) (h : AgreeUpTo w w' φ.vars t) :
    rhoD cfg w φ t = rhoD cfg w' φ t := by
  obtain ⟨hb, h0⟩ := pastOnly_bounded_hor φ hp
  apply C16_dense_settled cfg hs w w' φ hsup hb hw hw' t
  rw [h0]
  simpa using h

/-- Consequence for chunked input: if `w1` and `w2` are what has been fed after two different
    chunkings of the same signals `w` (each a prefix of `w` that covers `t`), the value the
    semantics assigns at `t` is the same — that of `w` itself. -/
theorem C05_chunking_irrelevant (cfg : DCfg) (hs : 0 ≤ cfg.scale) (w w1 w2 : DEnv α) (φ : F α)
    (hsup : supported φ = true) (hp : pastOnly φ = true)
    (hw : w.WF φ.vars) (hw1 : w1.WF φ.vars) (hw2 : w2.WF φ.vars)
    (t : Rat) (h1 : AgreeUpTo w1 w φ.vars t) (h2 : AgreeUpTo w2 w φ.vars t) :
    rhoD cfg w1 φ t = rhoD cfg w2 φ t :=
  (C05_causal cfg hs w1 w φ hsup hp hw1 hw t h1).trans
    (C05_causal cfg hs w2 w φ hsup hp hw2 hw t h2).symm

end Rtamt.Dense
