/-
  C19 — Dense-time and discrete-time interpretations agree on sampled step signals.

  "For specifications built from arithmetic, comparisons, Boolean operators, once and
   historically (bounded or not) and bounded eventually and always, with bounds that are
   multiples of the sampling period, and for step signals that change only at multiples of
   that period, the dense-time robustness at each sampling instant t equals the
   discrete-time robustness at sample t, for every t whose future windows end inside the
   trace (t + horizon < trace length)."
-/
import RtamtProofs.Dense.Step
import RtamtProofs.C16

namespace Rtamt
open Val Dense

variable {α : Type} [Val α] [LawfulVal α]

/-- The fragment of C19. -/
def F.gridFrag : F α → Bool
  | .var _ => true
  | .const _ => true
  | .un _ φ => φ.gridFrag
  | .bin _ φ ψ => φ.gridFrag && ψ.gridFrag
  | .tmp1 op φ => (match op with | .once | .hist => true | _ => false) && φ.gridFrag
  | .tmp2 _ _ _ => false
  | .tb1 _ a b φ => decide (a ≤ b) && φ.gridFrag
  | .tb2 _ _ _ _ _ => false

/-- The discrete trace `σ` (n samples) as dense step signals with period `P`: variable `x` has the
    sample list `[(0, σ x 0), (P, σ x 1), …, ((n-1)P, σ x (n-1))]`. -/
def gridEnv (P : Rat) (σ : String → Nat → α) (n : Nat) (xs : List String) : DEnv α :=
  xs.map (fun x => (x, (List.range n).map (fun (k : Nat) => ((k : Rat) * P, σ x k))))


/-! ### grid arithmetic -/

/-- `c` is an integer multiple of the period. -/
def IsGrid (P c : Rat) : Prop := ∃ m : Int, c = (m : Rat) * P

theorem grid_lt_int {P : Rat} (hP : 0 < P) {a b : Int} : (a : Rat) * P < (b : Rat) * P ↔ a < b := by
  constructor
  · intro h
    have := lt_of_mul_lt_mul_right h (le_of_lt hP)
    exact_mod_cast this
  · intro h
    exact mul_lt_mul_of_pos_right (by exact_mod_cast h) hP

theorem grid_le_int {P : Rat} (hP : 0 < P) {a b : Int} : (a : Rat) * P ≤ (b : Rat) * P ↔ a ≤ b := by
  rw [← not_lt, ← not_lt, grid_lt_int hP]

theorem grid_lt {P : Rat} (hP : 0 < P) {a b : Nat} : (a : Rat) * P < (b : Rat) * P ↔ a < b := by
  have := grid_lt_int hP (a := (a : Int)) (b := (b : Int))
  simpa using this

theorem grid_le {P : Rat} (hP : 0 < P) {a b : Nat} : (a : Rat) * P ≤ (b : Rat) * P ↔ a ≤ b := by
  rw [← not_lt, ← not_lt, grid_lt hP]

theorem IsGrid.zero (P : Rat) : IsGrid P 0 := ⟨0, by simp⟩

theorem IsGrid.nat (P : Rat) (j : Nat) : IsGrid P ((j : Rat) * P) := ⟨j, by simp⟩

theorem IsGrid.add_nat {P c : Rat} (h : IsGrid P c) (a : Nat) : IsGrid P (c + (a : Rat) * P) := by
  obtain ⟨m, rfl⟩ := h
  exact ⟨m + a, by push_cast; rw [add_mul]⟩

theorem IsGrid.sub_nat {P c : Rat} (h : IsGrid P c) (a : Nat) : IsGrid P (c - (a : Rat) * P) := by
  obtain ⟨m, rfl⟩ := h
  exact ⟨m - a, by push_cast; rw [sub_mul]⟩

theorem grid_sub (P : Rat) {a k : Nat} (h : a ≤ k) :
    (k : Rat) * P - (a : Rat) * P = ((k - a : Nat) : Rat) * P := by
  rw [Nat.cast_sub h, sub_mul]

theorem grid_add (P : Rat) (a k : Nat) :
    (k : Rat) * P + (a : Rat) * P = ((k + a : Nat) : Rat) * P := by
  rw [Nat.cast_add, add_mul]

theorem grid_max_sub {P : Rat} (hP : 0 < P) (b k : Nat) :
    max ((k : Rat) * P - (b : Rat) * P) 0 = ((k - b : Nat) : Rat) * P := by
  by_cases h : b ≤ k
  · rw [grid_sub P h]
    exact max_eq_left (mul_nonneg (Nat.cast_nonneg _) (le_of_lt hP))
  · have hk : k - b = 0 := by omega
    have hle : (k : Rat) * P ≤ (b : Rat) * P := (grid_le hP).2 (by omega)
    rw [hk, Nat.cast_zero, zero_mul]
    exact max_eq_right (by linarith)

/-! ### the grid environment -/

/-- sample list of one variable -/
def gridSig (P : Rat) (σ : String → Nat → α) (n : Nat) (x : String) : DSig α :=
  (List.range n).map (fun (k : Nat) => ((k : Rat) * P, σ x k))

omit [Val α] [LawfulVal α] in
theorem gridEnv_sig_mem (P : Rat) (σ : String → Nat → α) (n : Nat) (xs : List String) (x : String)
    (hx : x ∈ xs) : (gridEnv P σ n xs).sig x = gridSig P σ n x := by
  unfold DEnv.sig gridEnv
  induction xs with
  | nil => cases hx
  | cons y ys ih =>
    simp only [List.map_cons, List.lookup_cons]
    by_cases h : x = y
    · subst h; simp [gridSig]
    · have hb : (x == y) = false := by simpa using h
      rw [hb]
      have hx' : x ∈ ys := by
        rcases List.mem_cons.1 hx with h' | h'
        · exact absurd h' h
        · exact h'
      exact ih hx'

omit [Val α] [LawfulVal α] in
theorem gridEnv_sig_not_mem (P : Rat) (σ : String → Nat → α) (n : Nat) (xs : List String) (x : String)
    (hx : x ∉ xs) : (gridEnv P σ n xs).sig x = [] := by
  unfold DEnv.sig gridEnv
  induction xs with
  | nil => rfl
  | cons y ys ih =>
    simp only [List.map_cons, List.lookup_cons]
    have h : ¬ x = y := fun h => hx (h ▸ List.mem_cons_self ..)
    have hb : (x == y) = false := by simpa using h
    rw [hb]
    exact ih (fun h' => hx (List.mem_cons_of_mem _ h'))

omit [Val α] [LawfulVal α] in
theorem gridSig_times (P : Rat) (σ : String → Nat → α) (n : Nat) (x : String) :
    (gridSig P σ n x).times = (List.range n).map (fun (k : Nat) => (k : Rat) * P) := by
  simp [gridSig, DSig.times, List.map_map, Function.comp_def]

omit [Val α] [LawfulVal α] in
theorem gridEnv_head (P : Rat) (σ : String → Nat → α) (n : Nat) (xs : List String) (x : String) :
    (((gridEnv P σ n xs).sig x).times.head?).getD 0 = 0 := by
  by_cases hx : x ∈ xs
  · rw [gridEnv_sig_mem P σ n xs x hx, gridSig_times]
    cases n with
    | zero => simp
    | succ m => simp [List.range_succ_eq_map]
  · rw [gridEnv_sig_not_mem P σ n xs x hx]; rfl

omit [Val α] [LawfulVal α] in
/-- The domain of every formula over the grid environment starts at `0`. -/
theorem dom_grid (P : Rat) (σ : String → Nat → α) (n : Nat) (xs : List String) (φ : F α) :
    dom (gridEnv P σ n xs) φ = 0 := by
  unfold dom
  generalize φ.vars = l
  induction l with
  | nil => rfl
  | cons x l ih =>
    simp only [List.map_cons, List.foldl_cons, gridEnv_head, max_self] at ih ⊢
    exact ih

omit [Val α] [LawfulVal α] in
theorem gridEnv_WF (P : Rat) (hP : 0 < P) (σ : String → Nat → α) (n : Nat) (hn : 0 < n)
    (xs : List String) (ys : List String) (hys : ∀ x ∈ ys, x ∈ xs) :
    (gridEnv P σ n xs).WF ys := by
  intro x hx
  rw [gridEnv_sig_mem P σ n xs x (hys x hx)]
  refine ⟨?_, ?_⟩
  · intro h
    have := congrArg List.length h
    simp [gridSig] at this
    omega
  · rw [gridSig_times, List.pairwise_map]
    exact (List.pairwise_lt_range (n := n)).imp (fun h => (grid_lt hP).2 h)

omit [Val α] [LawfulVal α] in
theorem valAt_range' (P : Rat) (hP : 0 < P) (f : Nat → α) (len m k : Nat) (h1 : m ≤ k)
    (h2 : k < m + len) :
    DSig.valAt ((List.range' m len).map (fun (j : Nat) => ((j : Rat) * P, f j))) ((k : Rat) * P)
      = some (f k) := by
  induction len generalizing m with
  | zero => omega
  | succ len ih =>
    simp only [List.range'_succ, List.map_cons]
    rw [valAt_cons, if_neg (not_lt.2 ((grid_le hP).2 h1))]
    by_cases hmk : m = k
    · subst hmk
      cases len with
      | zero => rfl
      | succ len' =>
        simp only [List.range'_succ, List.map_cons]
        rw [valAt_cons, if_pos ((grid_lt hP).2 (Nat.lt_succ_self m))]
        rfl
    · rw [ih (m + 1) (by omega) (by omega)]
      rfl

omit [LawfulVal α] [Val α] in
/-- The sampled step signal has the value of sample `k` at time `k·P`. -/
theorem valAt_gridSig (P : Rat) (hP : 0 < P) (σ : String → Nat → α) (n : Nat) (x : String) (k : Nat)
    (hk : k < n) : (gridSig P σ n x).valAt ((k : Rat) * P) = some (σ x k) := by
  unfold gridSig
  rw [List.range_eq_range']
  exact valAt_range' P hP (σ x) n 0 k (Nat.zero_le _) (by omega)

/-! ### all candidate break-points are grid points -/

omit [Val α] [LawfulVal α] in
theorem grid_map_add {P : Rat} {B : List Rat} (hB : ∀ c ∈ B, IsGrid P c) (a : Nat) :
    ∀ c ∈ B.map (· + (a : Rat) * P), IsGrid P c := by
  intro c hc
  obtain ⟨c', hc', rfl⟩ := List.mem_map.1 hc
  exact (hB c' hc').add_nat a

omit [Val α] [LawfulVal α] in
theorem grid_map_sub {P : Rat} {B : List Rat} (hB : ∀ c ∈ B, IsGrid P c) (a : Nat) :
    ∀ c ∈ B.map (· - (a : Rat) * P), IsGrid P c := by
  intro c hc
  obtain ⟨c', hc', rfl⟩ := List.mem_map.1 hc
  exact (hB c' hc').sub_nat a

omit [Val α] [LawfulVal α] in
theorem grid_append {P : Rat} {B B' : List Rat} (hB : ∀ c ∈ B, IsGrid P c)
    (hB' : ∀ c ∈ B', IsGrid P c) : ∀ c ∈ B ++ B', IsGrid P c := by
  intro c hc
  rcases List.mem_append.1 hc with h | h
  · exact hB c h
  · exact hB' c h

omit [Val α] [LawfulVal α] in
theorem grid_cons {P d : Rat} {B : List Rat} (hd : IsGrid P d) (hB : ∀ c ∈ B, IsGrid P c) :
    ∀ c ∈ d :: B, IsGrid P c := by
  intro c hc
  rcases List.mem_cons.1 hc with h | h
  · exact h ▸ hd
  · exact hB c h

omit [Val α] [LawfulVal α] in
/-- Every candidate break-point of every formula over the grid environment is a multiple of `P`. -/
theorem bps_grid (P : Rat) (σ : String → Nat → α) (n : Nat) (xs : List String) (φ : F α) :
    ∀ c ∈ bps { scale := P } (gridEnv P σ n xs) φ, IsGrid P c := by
  induction φ with
  | var x =>
    intro c hc
    simp only [bps] at hc
    by_cases hx : x ∈ xs
    · rw [gridEnv_sig_mem P σ n xs x hx, gridSig_times] at hc
      obtain ⟨j, _, rfl⟩ := List.mem_map.1 hc
      exact IsGrid.nat P j
    · rw [gridEnv_sig_not_mem P σ n xs x hx] at hc
      cases hc
  | const c => intro c hc; cases hc
  | un op φ ih => exact ih
  | bin op φ ψ ihφ ihψ => exact grid_append ihφ ihψ
  | tmp1 op φ ih => exact ih
  | tmp2 op φ ψ ihφ ihψ => exact grid_append ihφ ihψ
  | tb1 op a b φ ih =>
    have hB : ∀ c ∈ dom (gridEnv P σ n xs) φ :: bps { scale := P } (gridEnv P σ n xs) φ,
        IsGrid P c := grid_cons (by rw [dom_grid]; exact IsGrid.zero P) ih
    cases op <;> simp only [bps]
    · exact grid_append (grid_append (grid_map_add hB a) (grid_map_add hB b)) hB
    · exact grid_append (grid_append (grid_map_add hB a) (grid_map_add hB b)) hB
    · exact grid_append (grid_append (grid_map_sub hB a) (grid_map_sub hB b)) hB
    · exact grid_append (grid_append (grid_map_sub hB a) (grid_map_sub hB b)) hB
  | tb2 op a b φ ψ ihφ ihψ =>
    have hB : ∀ c ∈ max (dom (gridEnv P σ n xs) φ) (dom (gridEnv P σ n xs) ψ) ::
        (bps { scale := P } (gridEnv P σ n xs) φ ++ bps { scale := P } (gridEnv P σ n xs) ψ),
        IsGrid P c :=
      grid_cons (by rw [dom_grid, dom_grid, max_self]; exact IsGrid.zero P) (grid_append ihφ ihψ)
    cases op <;> simp only [bps]
    · exact grid_append (grid_append hB (grid_map_add hB a)) (grid_map_add hB b)
    · exact grid_append (grid_append hB (grid_map_sub hB a)) (grid_map_sub hB b)
    · exact grid_append (grid_append hB (grid_map_add hB a)) (grid_map_add hB b)

/-! ### window over a grid = discrete window -/

omit [LawfulVal α] in
theorem maxOver_empty (lo hi : Nat) (f : Nat → α) (h : hi ≤ lo) : maxOver lo hi f = ninf := by
  unfold maxOver
  rw [Nat.sub_eq_zero_of_le h]
  rfl

omit [LawfulVal α] in
theorem minOver_empty (lo hi : Nat) (f : Nat → α) (h : hi ≤ lo) : minOver lo hi f = pinf := by
  unfold minOver
  rw [Nat.sub_eq_zero_of_le h]
  rfl

omit [Val α] [LawfulVal α] in
/-- the points `foldWin` reads on a grid window are grid points of the window -/
theorem winPts_grid {P : Rat} (hP : 0 < P) {B : List Rat} (hB : ∀ c ∈ B, IsGrid P c) {lo hi : Nat}
    {τ : Rat} (hτ : τ ∈ winPts B ((lo : Rat) * P) (some ((hi : Rat) * P))) (hle : lo ≤ hi) :
    ∃ j : Nat, lo ≤ j ∧ j ≤ hi ∧ τ = (j : Rat) * P := by
  rcases mem_winPts.1 hτ with rfl | ⟨hb, h1, h2⟩
  · exact ⟨lo, le_rfl, hle, rfl⟩
  · obtain ⟨m, rfl⟩ := hB τ hb
    have h1' : ((lo : Int) : Rat) * P < (m : Rat) * P := by simpa using h1
    have h2' : (m : Rat) * P ≤ ((hi : Int) : Rat) * P := by simpa [leHi] using h2
    rw [grid_lt_int hP] at h1'
    rw [grid_le_int hP] at h2'
    obtain ⟨j, rfl⟩ := Int.eq_ofNat_of_zero_le (by omega : 0 ≤ m)
    exact ⟨j, by omega, by omega, by simp⟩

/-- The supremum of a step function with grid break-points over the real window `[lo·P, hi·P]`
    is the discrete maximum over the samples `lo … hi`. -/
theorem foldWin_max_grid {P : Rat} (hP : 0 < P) (g : Rat → Option α) (B : List Rat) (f : Nat → α)
    (lo hi : Nat) (hle : lo ≤ hi)
    (hg : StepOn g B ((lo : Rat) * P) (some ((hi : Rat) * P))) (hB : ∀ c ∈ B, IsGrid P c)
    (hval : ∀ j, lo ≤ j → j ≤ hi → g ((j : Rat) * P) = some (f j)) :
    foldWin pmax ninf g B ((lo : Rat) * P) (some ((hi : Rat) * P))
      = some (maxOver lo (hi + 1) f) := by
  have hne : leHi ((lo : Rat) * P) (some ((hi : Rat) * P)) := (grid_le hP).2 hle
  obtain ⟨v, hv, hlub⟩ := foldWin_max_spec hg hne
  rw [hv]
  congr 1
  apply le_antisymm
  · apply hlub.2
    intro y hy
    have hr := winSet_subset_read hg hy
    rw [List.mem_filterMap] at hr
    obtain ⟨τ, hτ, hy'⟩ := hr
    obtain ⟨j, hj1, hj2, rfl⟩ := winPts_grid hP hB hτ hle
    rw [hval j hj1 hj2] at hy'
    cases hy'
    exact (maxOver_le_iff lo (hi + 1) f _).1 le_rfl j hj1 (by omega)
  · rw [maxOver_le_iff]
    intro j h1 h2
    apply hlub.1
    exact ⟨(j : Rat) * P, (grid_le hP).2 h1, (grid_le hP).2 (by omega), hval j h1 (by omega)⟩

/-- The infimum of a step function with grid break-points over the real window `[lo·P, hi·P]`
    is the discrete minimum over the samples `lo … hi`. -/
theorem foldWin_min_grid {P : Rat} (hP : 0 < P) (g : Rat → Option α) (B : List Rat) (f : Nat → α)
    (lo hi : Nat) (hle : lo ≤ hi)
    (hg : StepOn g B ((lo : Rat) * P) (some ((hi : Rat) * P))) (hB : ∀ c ∈ B, IsGrid P c)
    (hval : ∀ j, lo ≤ j → j ≤ hi → g ((j : Rat) * P) = some (f j)) :
    foldWin pmin pinf g B ((lo : Rat) * P) (some ((hi : Rat) * P))
      = some (minOver lo (hi + 1) f) := by
  have hne : leHi ((lo : Rat) * P) (some ((hi : Rat) * P)) := (grid_le hP).2 hle
  obtain ⟨v, hv, hglb⟩ := foldWin_min_spec hg hne
  rw [hv]
  congr 1
  apply le_antisymm
  · rw [le_minOver_iff]
    intro j h1 h2
    apply hglb.1
    exact ⟨(j : Rat) * P, (grid_le hP).2 h1, (grid_le hP).2 (by omega), hval j h1 (by omega)⟩
  · apply hglb.2
    intro y hy
    have hr := winSet_subset_read hg hy
    rw [List.mem_filterMap] at hr
    obtain ⟨τ, hτ, hy'⟩ := hr
    obtain ⟨j, hj1, hj2, rfl⟩ := winPts_grid hP hB hτ hle
    rw [hval j hj1 hj2] at hy'
    cases hy'
    exact (le_minOver_iff lo (hi + 1) f _).1 le_rfl j hj1 (by omega)

omit [Val α] [LawfulVal α] in
theorem supported_of_gridFrag (φ : F α) (h : φ.gridFrag = true) : supported φ = true := by
  induction φ with
  | var x => rfl
  | const c => rfl
  | un op φ ih => exact ih h
  | bin op φ ψ ihφ ihψ =>
    simp only [F.gridFrag, Bool.and_eq_true] at h
    simp only [supported, Bool.and_eq_true]
    exact ⟨ihφ h.1, ihψ h.2⟩
  | tmp1 op φ ih =>
    cases op <;> simp only [F.gridFrag, Bool.false_and, Bool.true_and] at h
    · exact absurd h (by simp)
    · exact absurd h (by simp)
    · exact absurd h (by simp)
    · exact absurd h (by simp)
    · exact absurd h (by simp)
    · exact absurd h (by simp)
    · simp only [supported, Bool.true_and]; exact ih h
    · simp only [supported, Bool.true_and]; exact ih h
    · exact absurd h (by simp)
    · exact absurd h (by simp)
  | tmp2 op φ ψ _ _ => simp [F.gridFrag] at h
  | tb1 op a b φ ih =>
    simp only [F.gridFrag, Bool.and_eq_true] at h
    simp only [supported, Bool.and_eq_true]
    exact ⟨h.1, ih h.2⟩
  | tb2 op a b φ ψ _ _ => simp [F.gridFrag] at h

/-- the operand of a temporal node over the grid environment is a step function on `[0, ∞)` -/
theorem grid_stepOn (P : Rat) (hP : 0 < P) (σ : String → Nat → α) (n : Nat) (hn : 0 < n)
    (xs : List String) (φ : F α) (hfrag : φ.gridFrag = true) (hxs : ∀ x ∈ φ.vars, x ∈ xs) :
    StepOn (rhoD { scale := P } (gridEnv P σ n xs) φ) (bps { scale := P } (gridEnv P σ n xs) φ)
      0 none := by
  have h := rhoD_stepOn { scale := P } (le_of_lt hP) (gridEnv P σ n xs) φ
    (supported_of_gridFrag φ hfrag) (gridEnv_WF P hP σ n hn xs φ.vars hxs)
  rwa [dom_grid] at h

set_option linter.unusedVariables false in  -- `hnd` (Nodup) is not needed by the proof
/-- C19: at every sampling instant `k·P` whose future windows end inside the trace, the dense-time
    robustness of the sampled step signal equals the discrete-time robustness at sample `k`. -/
theorem C19_sampled (P : Rat) (hP : 0 < P) (σ : String → Nat → α) (n : Nat) (φ : F α)
    (hfrag : φ.gridFrag = true) (xs : List String) (hxs : ∀ x ∈ φ.vars, x ∈ xs) (hnd : xs.Nodup)
    (k : Nat) (hk : k + hor φ < n) :
    rhoD { scale := P } (gridEnv P σ n xs) φ ((k : Rat) * P) = some (rho σ n φ k) := by
  have hn : 0 < n := by omega
  induction φ generalizing k with
  | var x =>
    simp only [rhoD, rho]
    rw [gridEnv_sig_mem P σ n xs x (hxs x (by simp [F.vars]))]
    exact valAt_gridSig P hP σ n x k (by omega)
  | const c => rfl
  | un op φ ih =>
    simp only [hor] at hk
    simp only [rhoD, rho, ih hfrag hxs k hk, Option.map_some]
  | bin op φ ψ ihφ ihψ =>
    simp only [hor] at hk
    simp only [F.gridFrag, Bool.and_eq_true] at hfrag
    have h1 := ihφ hfrag.1 (fun x hx => hxs x (List.mem_append_left _ hx)) k (by omega)
    have h2 := ihψ hfrag.2 (fun x hx => hxs x (List.mem_append_right _ hx)) k (by omega)
    simp only [rhoD, rho, h1, h2]
    rfl
  | tmp1 op φ ih =>
    have hxs' : ∀ x ∈ φ.vars, x ∈ xs := hxs
    have hB := bps_grid P σ n xs φ
    have h0 : ((0 : Nat) : Rat) * P = 0 := by simp
    have hkP : ¬ ((k : Rat) * P < 0) := not_lt.2 (mul_nonneg (Nat.cast_nonneg k) (le_of_lt hP))
    cases op <;> simp only [F.gridFrag, Bool.false_and, Bool.true_and] at hfrag
    · exact absurd hfrag (by simp)
    · exact absurd hfrag (by simp)
    · exact absurd hfrag (by simp)
    · exact absurd hfrag (by simp)
    · exact absurd hfrag (by simp)
    · exact absurd hfrag (by simp)
    · simp only [hor] at hk
      have hstep := grid_stepOn P hP σ n hn xs φ hfrag hxs'
      have hval : ∀ j, 0 ≤ j → j ≤ k →
          rhoD { scale := P } (gridEnv P σ n xs) φ ((j : Rat) * P) = some (rho σ n φ j) :=
        fun j _ hj => ih hfrag hxs' j (by omega)
      have hw := foldWin_max_grid hP _ _ (rho σ n φ) 0 k (Nat.zero_le _)
        (hstep.restrict (by rw [h0]) (some ((k : Rat) * P))) hB hval
      rw [h0] at hw
      simp only [rhoD, rho, dom_grid, if_neg hkP]
      exact hw
    · simp only [hor] at hk
      have hstep := grid_stepOn P hP σ n hn xs φ hfrag hxs'
      have hval : ∀ j, 0 ≤ j → j ≤ k →
          rhoD { scale := P } (gridEnv P σ n xs) φ ((j : Rat) * P) = some (rho σ n φ j) :=
        fun j _ hj => ih hfrag hxs' j (by omega)
      have hw := foldWin_min_grid hP _ _ (rho σ n φ) 0 k (Nat.zero_le _)
        (hstep.restrict (by rw [h0]) (some ((k : Rat) * P))) hB hval
      rw [h0] at hw
      simp only [rhoD, rho, dom_grid, if_neg hkP]
      exact hw
    · exact absurd hfrag (by simp)
    · exact absurd hfrag (by simp)
  | tmp2 op φ ψ _ _ => simp [F.gridFrag] at hfrag
  | tb1 op a b φ ih =>
    have hxs' : ∀ x ∈ φ.vars, x ∈ xs := hxs
    have hB := bps_grid P σ n xs φ
    have hkP : ¬ ((k : Rat) * P < 0) := not_lt.2 (mul_nonneg (Nat.cast_nonneg k) (le_of_lt hP))
    simp only [F.gridFrag, Bool.and_eq_true, decide_eq_true_eq] at hfrag
    obtain ⟨hab, hfrag⟩ := hfrag
    have hstep := grid_stepOn P hP σ n hn xs φ hfrag hxs'
    have hnn : ∀ j : Nat, (0 : Rat) ≤ (j : Rat) * P :=
      fun j => mul_nonneg (Nat.cast_nonneg j) (le_of_lt hP)
    cases op
    · -- once[a,b]
      simp only [hor] at hk
      simp only [rhoD, rho, dom_grid, if_neg hkP]
      by_cases hka : a ≤ k
      · have hlt : ¬ ((k : Rat) * P - (a : Rat) * P < 0) := by
          rw [grid_sub P hka]; exact not_lt.2 (hnn _)
        rw [if_neg hlt, grid_max_sub hP, grid_sub P hka]
        have hw := foldWin_max_grid hP _ _ (rho σ n φ) (k - b) (k - a) (by omega)
          (hstep.restrict (hnn _) (some (((k - a : Nat) : Rat) * P))) hB
          (fun j _ hj => ih hfrag hxs' j (by omega))
        rw [hw, show k + 1 - a = k - a + 1 by omega]
      · have hlt : (k : Rat) * P - (a : Rat) * P < 0 := by
          have := (grid_lt hP).2 (not_le.1 hka)
          linarith
        rw [if_pos hlt, maxOver_empty _ _ _ (by omega)]
    · -- hist[a,b]
      simp only [hor] at hk
      simp only [rhoD, rho, dom_grid, if_neg hkP]
      by_cases hka : a ≤ k
      · have hlt : ¬ ((k : Rat) * P - (a : Rat) * P < 0) := by
          rw [grid_sub P hka]; exact not_lt.2 (hnn _)
        rw [if_neg hlt, grid_max_sub hP, grid_sub P hka]
        have hw := foldWin_min_grid hP _ _ (rho σ n φ) (k - b) (k - a) (by omega)
          (hstep.restrict (hnn _) (some (((k - a : Nat) : Rat) * P))) hB
          (fun j _ hj => ih hfrag hxs' j (by omega))
        rw [hw, show k + 1 - a = k - a + 1 by omega]
      · have hlt : (k : Rat) * P - (a : Rat) * P < 0 := by
          have := (grid_lt hP).2 (not_le.1 hka)
          linarith
        rw [if_pos hlt, minOver_empty _ _ _ (by omega)]
    · -- eventually[a,b]
      simp only [hor] at hk
      simp only [rhoD, rho, dom_grid, if_neg hkP]
      rw [grid_add, grid_add, Nat.min_eq_left (by omega : k + b + 1 ≤ n)]
      exact foldWin_max_grid hP _ _ (rho σ n φ) (k + a) (k + b) (by omega)
        (hstep.restrict (hnn _) (some (((k + b : Nat) : Rat) * P))) hB
        (fun j _ hj => ih hfrag hxs' j (by omega))
    · -- always[a,b]
      simp only [hor] at hk
      simp only [rhoD, rho, dom_grid, if_neg hkP]
      rw [grid_add, grid_add, Nat.min_eq_left (by omega : k + b + 1 ≤ n)]
      exact foldWin_min_grid hP _ _ (rho σ n φ) (k + a) (k + b) (by omega)
        (hstep.restrict (hnn _) (some (((k + b : Nat) : Rat) * P))) hB
        (fun j _ hj => ih hfrag hxs' j (by omega))
  | tb2 op a b φ ψ _ _ => simp [F.gridFrag] at hfrag

set_option linter.unusedVariables false in
set_option linter.unusedSectionVars false in
/-- Non-vacuity / sanity: the grid environment is well formed and its domain starts at 0. -/
theorem gridEnv_wf (P : Rat) (hP : 0 < P) (σ : String → Nat → α) (n : Nat) (hn : 0 < n) (xs : List String)
    (hnd : xs.Nodup) (φ : F α) (hxs : ∀ x ∈ φ.vars, x ∈ xs) :
    (gridEnv P σ n xs).WF φ.vars ∧ dom (gridEnv P σ n xs) φ = 0 :=
  ⟨gridEnv_WF P hP σ n hn xs φ.vars hxs, dom_grid P σ n xs φ⟩

end Rtamt
