/-
  C08 — Temporal bounds denote physical durations whatever the unit notation.

  "Two discrete-time specifications whose bounds denote the same durations - written
   with explicit units (s, ms, us, ns), through the default unit set with spec.unit, or
   with the sampling period given in another unit - produce identical results offline
   and online, before and after pastify(); a bound that is not an integer multiple of the
   sampling period is rejected with an RTAMTException rather than rounded. Dense-time
   results are likewise invariant under a consistent change of unit notation."

  The monitors are functions of the elaborated (core) formula; the theorems show that
  elaboration depends on the durations only.
-/
import Rtamt.Units
import Rtamt.Discrete.Pastify
import RtamtProofs.Lemmas.Lawful
import Mathlib.Tactic.Ring
import Mathlib.Tactic.FieldSimp
import Mathlib.Tactic.NormNum

namespace Rtamt

theorem ratToNat?_eq_some (x : Rat) (k : Nat) : ratToNat? x = some k ↔ x = (k : Rat) := by
  unfold ratToNat?
  constructor
  · intro h
    split at h
    · rename_i hc
      obtain ⟨hd, hn⟩ := hc
      have hk : x.num.toNat = k := by simpa using h
      have hx : x = (x.num : Rat) := by
        conv_lhs => rw [← Rat.num_div_den x]
        simp [hd]
      have h3 : ((x.num.toNat : Int)) = x.num := Int.toNat_of_nonneg hn
      calc x = (x.num : Rat) := hx
        _ = ((x.num.toNat : Int) : Rat) := by rw [h3]
        _ = (k : Rat) := by rw [hk]; simp
    · simp at h
  · intro h
    subst h
    simp

theorem SIv.toSamples_eq (c : UnitCfg) (i : SIv) :
    i.toSamples c =
      match ratToNat? ((i.durNs c.unit).1 / c.periodNs), ratToNat? ((i.durNs c.unit).2 / c.periodNs) with
      | some b, some e => .ok (b, e)
      | _, _ => .error .rtamt := by
  rfl

/-- The elaborated bound is the duration divided by the sampling period (both in ns):
    `lo` samples last exactly the written duration. -/
theorem C08_normalize_factor (c : UnitCfg) (i : SIv) (lo hi : Nat) (hp : c.periodNs ≠ 0)
    (h : i.toSamples c = .ok (lo, hi)) :
    (lo : Rat) * c.periodNs = (i.durNs c.unit).1 ∧ (hi : Rat) * c.periodNs = (i.durNs c.unit).2 := by
  rw [SIv.toSamples_eq] at h
  split at h
  · rename_i b e hb he
    simp only [Except.ok.injEq, Prod.mk.injEq] at h
    obtain ⟨rfl, rfl⟩ := h
    rw [ratToNat?_eq_some] at hb he
    exact ⟨by rw [← hb]; exact div_mul_cancel₀ _ hp, by rw [← he]; exact div_mul_cancel₀ _ hp⟩
  · cases h

/-- A bound that is not a non-negative integer multiple of the sampling period is rejected
    with RTAMTException (never rounded). -/
theorem C08_non_multiple_rejected (c : UnitCfg) (i : SIv)
    (h : (∀ k : Nat, (k : Rat) * c.periodNs ≠ (i.durNs c.unit).1) ∨
         (∀ k : Nat, (k : Rat) * c.periodNs ≠ (i.durNs c.unit).2)) (hp : c.periodNs ≠ 0) :
    i.toSamples c = .error .rtamt := by
  rw [SIv.toSamples_eq]
  split
  · rename_i b e hb he
    rw [ratToNat?_eq_some] at hb he
    exfalso
    rcases h with h | h
    · exact h b (by rw [← hb]; exact div_mul_cancel₀ _ hp)
    · exact h e (by rw [← he]; exact div_mul_cancel₀ _ hp)
  · rfl

/-- Same durations (relative to the sampling period) ⇒ same interval in samples. -/
theorem C08_interval_eq (c c' : UnitCfg) (i i' : SIv)
    (h1 : (i.durNs c.unit).1 / c.periodNs = (i'.durNs c'.unit).1 / c'.periodNs)
    (h2 : (i.durNs c.unit).2 / c.periodNs = (i'.durNs c'.unit).2 / c'.periodNs) :
    i.toSamples c = i'.toSamples c' := by
  rw [SIv.toSamples_eq, SIv.toSamples_eq, h1, h2]

variable {α : Type}

/-- Main theorem: specifications whose bounds denote the same durations elaborate to the same
    core formula (or are both rejected). -/
theorem C08_equal_durations (c c' : UnitCfg) (sf sf' : SF α) (h : SameDur c c' sf sf') :
    sf.elab c = sf'.elab c' := by
  induction h with
  | var x => rfl
  | const k => rfl
  | un op _ ih => simp [SF.elab, ih]
  | bin op _ _ ih1 ih2 => simp [SF.elab, ih1, ih2]
  | tmp1 op _ ih => simp [SF.elab, ih]
  | tmp2 op _ _ ih1 ih2 => simp [SF.elab, ih1, ih2]
  | tb1 op h1 h2 _ ih => simp [SF.elab, ih, C08_interval_eq _ _ _ _ h1 h2]
  | tb2 op h1 h2 _ _ ih1 ih2 => simp [SF.elab, ih1, ih2, C08_interval_eq _ _ _ _ h1 h2]

/-- Consequently every monitor, and the pastifier, gives identical results. -/
theorem C08_results_identical {β : Type} (run : F α → β) (c c' : UnitCfg) (sf sf' : SF α)
    (h : SameDur c c' sf sf') :
    (sf.elab c).map run = (sf'.elab c').map run ∧
    (sf.elab c).map (fun φ => run (pastify φ)) = (sf'.elab c').map (fun φ => run (pastify φ)) := by
  rw [C08_equal_durations c c' sf sf' h]
  exact ⟨rfl, rfl⟩

set_option linter.unusedVariables false in
/-- Spelling variants of one interval: explicit units, unit on one end only, default unit. -/
theorem C08_spellings (x y : Rat) :
    let c : UnitCfg := { unit := .s, period := 1, periodUnit := .s }
    let c' : UnitCfg := { unit := .ms, period := 1000, periodUnit := .ms }
    let c'' : UnitCfg := { unit := .us, period := 1, periodUnit := .s }
    let i0 : SIv := { b := x, e := y, bu := none, eu := none }               -- [x, y]   default s
    let i1 : SIv := { b := x, e := y, bu := some .s, eu := some .s }         -- [x s, y s]
    let i2 : SIv := { b := x * 1000, e := y, bu := some .ms, eu := some .s } -- [1000x ms, y s]
    let i3 : SIv := { b := x, e := y, bu := none, eu := some .s }            -- [x, y s]
    let i4 : SIv := { b := x, e := y, bu := some .s, eu := none }            -- [x s, y]
    let i5 : SIv := { b := x * 1000, e := y * 1000, bu := none, eu := none } -- [1000x, 1000y] default ms
    let i6 : SIv := { b := x * 1000000, e := y * 1000000000, bu := none, eu := some .ns } -- default us
    i0.toSamples c = i1.toSamples c ∧ i0.toSamples c = i2.toSamples c ∧ i0.toSamples c = i3.toSamples c ∧
    i0.toSamples c = i4.toSamples c ∧ i0.toSamples c = i5.toSamples c' ∧ i0.toSamples c = i1.toSamples c' := by
  dsimp only
  refine ⟨?_, ?_, ?_, ?_, ?_, ?_⟩ <;> apply C08_interval_eq <;>
    simp [SIv.durNs, SIv.units, UnitCfg.periodNs, TUnit.nanos] <;> ring

/-- Dense time: the bound in the default unit depends on the duration only, and a consistent
    change of the default unit rescales it. -/
theorem C08_dense (d d' : TUnit) (i i' : SIv) (h : i.durNs d = i'.durNs d') :
    (i.toDefault d).1 * (d.nanos : Rat) = (i'.toDefault d').1 * (d'.nanos : Rat) ∧
    (i.toDefault d).2 * (d.nanos : Rat) = (i'.toDefault d').2 * (d'.nanos : Rat) ∧
    (d = d' → i.toDefault d = i'.toDefault d') := by
  have hd : (d.nanos : Rat) ≠ 0 := by cases d <;> norm_num [TUnit.nanos]
  have hd' : (d'.nanos : Rat) ≠ 0 := by cases d' <;> norm_num [TUnit.nanos]
  have e1 : i.toDefault d = ((i.durNs d).1 / (d.nanos : Rat), (i.durNs d).2 / (d.nanos : Rat)) := rfl
  have e2 : i'.toDefault d' = ((i'.durNs d').1 / (d'.nanos : Rat), (i'.durNs d').2 / (d'.nanos : Rat)) := rfl
  rw [e1, e2, h]
  refine ⟨?_, ?_, ?_⟩
  · simp only
    rw [div_mul_cancel₀ _ hd, div_mul_cancel₀ _ hd']
  · simp only
    rw [div_mul_cancel₀ _ hd, div_mul_cancel₀ _ hd']
  · intro hdd
    subst hdd
    rfl

end Rtamt
