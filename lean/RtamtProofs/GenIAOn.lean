/-
  The interface-aware `PredicateOperation` of the discrete-time online monitor
  (`rtamt/semantics/iastl/discrete_time/online/predicate_operation.py`, a subclass of the standard one; calls of the
  parent's and of inherited methods inlined by the translator), as translated from the source, computes at every
  update what `Bin.app (iaOp sem c insensitive)` computes — `±inf` by satisfaction for the robustness semantics,
  the integer `0` for the vacuity semantics, the ordinary predicate otherwise.
-/
import Rtamt.Py.GeneratedIAOn
import RtamtProofs.GenIA
import RtamtProofs.GenOps

namespace Rtamt.Py
open Rtamt Val

variable {α : Type} [Val α]

/-- The value of `Semantics.X`. -/
def semStr : Sem → String
  | .standard => "standard"
  | .outRob => "output-robustness"
  | .inRob => "input-robustness"
  | .inVac => "input-vacuity"
  | .outVac => "output-vacuity"

/-- The attributes of the object: comparison, semantics, whether `in_vars` / `out_vars` are non-empty. -/
def encIA (c : Cmp) (sem : Sem) (o i : Bool) : Store α :=
  [("comparison_op", .cmp c), ("semantics", .str (semStr sem)), ("in_vars", .bool i), ("out_vars", .bool o)]

/-- What `update` returns: note the integer `0` (not a float) of the vacuity semantics. -/
def iaResult (sem : Sem) (c : Cmp) (insens : Bool) (l r : α) : V α :=
  if insens then
    (match sem with
     | .outRob | .inRob => .num (if c.holds l r then Val.pinf else Val.ninf)
     | _ => .int 0)
  else .num (c.app l r)

theorem gen_IAPred_construct (c : Cmp) (sem : Sem) (o i : Bool) :
    construct (α := α) Gen.IAPredicateOperation [.cmp c, .str (semStr sem), .bool i, .bool o] = .ok (encIA c sem o i) := by
  py_simp [Gen.IAPredicateOperation, encIA]

/-! ### `update`, in three parts (taken out of the generated term, not copied) -/

/-- The parent's `update` (inlined): `out_sample = <robustness of the comparison>`. -/
def iaS1 : S :=
  match Gen.IAPredicateOperation.update.body with
  | .seq a _ => a
  | _ => .skip

/-- The inherited `sat` (inlined): `sat_sample = <truth of the comparison>`. -/
def iaS2 : S :=
  match Gen.IAPredicateOperation.update.body with
  | .seq _ (.seq b _) => b
  | _ => .skip

/-- The test on the semantics. -/
def iaS3 : S :=
  match Gen.IAPredicateOperation.update.body with
  | .seq _ (.seq _ f) => f
  | _ => .skip

theorem ia_body : Gen.IAPredicateOperation.update.body = .seq iaS1 (.seq iaS2 iaS3) := id rfl

def iaLoc0 (l r : α) : Store α := [("sample_left", .num l), ("sample_right", .num r)]

def iaLoc1 (c : Cmp) (l r : α) : Store α :=
  [("sample_left", .num l), ("sample_right", .num r), ("sample_return", .num (c.app l r)), ("out_sample", .num (c.app l r))]

def iaLoc2 (c : Cmp) (l r : α) : Store α :=
  [("sample_left", .num l), ("sample_right", .num r), ("sample_return", .bool (c.holds l r)),
   ("out_sample", .num (c.app l r)), ("sat_sample", .bool (c.holds l r))]

theorem ia_part1 (c : Cmp) (sem : Sem) (o i : Bool) (l r : α) :
    exec iaS1 { self := encIA c sem o i, loc := iaLoc0 l r }
      = .ok { self := encIA c sem o i, loc := iaLoc1 c l r } := by
  cases c <;> py_simp [iaS1, Gen.IAPredicateOperation, encIA, iaLoc0, iaLoc1, Cmp.app]

theorem ia_part2 (c : Cmp) (sem : Sem) (o i : Bool) (l r : α) :
    exec iaS2 { self := encIA c sem o i, loc := iaLoc1 c l r }
      = .ok { self := encIA c sem o i, loc := iaLoc2 c l r } := by
  cases c <;> py_simp [iaS2, Gen.IAPredicateOperation, encIA, iaLoc1, iaLoc2, Cmp.holds, numEq]

theorem ia_part3 (c : Cmp) (sem : Sem) (o i : Bool) (l r : α) :
    (exec iaS3 { self := encIA c sem o i, loc := iaLoc2 c l r } >>= fun env =>
        evalE env (.loc "out_sample") >>= fun v => pure (env.self, v))
      = .ok (encIA c sem o i, iaResult sem c (insensOf sem o i) l r) := by
  unfold iaLoc2 iaResult
  generalize c.holds l r = h
  generalize c.app l r = a
  cases h <;> cases sem <;> cases o <;> cases i <;>
    py_simp [iaS3, Gen.IAPredicateOperation, encIA, iaLoc2, iaResult, insensOf, semStr]

theorem gen_IAPred_update (c : Cmp) (sem : Sem) (o i : Bool) (l r : α) :
    update Gen.IAPredicateOperation (encIA c sem o i) [.num l, .num r]
      = .ok (encIA c sem o i, iaResult sem c (insensOf sem o i) l r) := by
  have h := ia_part3 c sem o i l r
  have h0 : Gen.IAPredicateOperation.update.params.zip [V.num l, V.num r] = iaLoc0 l r := id rfl
  have hr : Gen.IAPredicateOperation.update.ret = some (.loc "out_sample") := id rfl
  have hl : ([V.num l, V.num r].length ≠ Gen.IAPredicateOperation.update.params.length) = False := by
    simp [Gen.IAPredicateOperation]
  unfold update call
  rw [ia_body, h0, hr]
  simp only [hl, if_false, exec_seq, ia_part1, ia_part2, ok_bind]
  simpa [bind, Except.bind, pure, Except.pure] using h

theorem gen_IAPred_reset (c : Cmp) (sem : Sem) (o i : Bool) :
    reset (α := α) Gen.IAPredicateOperation (encIA c sem o i) = .ok (encIA c sem o i) := by
  py_simp [Gen.IAPredicateOperation, encIA]

/-- In terms of the formula transformation: the float read off the result is `Bin.app (iaOp …)` (with `0` for the integer 0). -/
theorem gen_IAPred_value (c : Cmp) (sem : Sem) (o i : Bool) (l r : α) :
    (match iaResult sem c (insensOf sem o i) l r with
     | .num x => x
     | _ => Val.zero) = (iaOp sem c (insensOf sem o i)).app l r := by
  cases sem <;> cases o <;> cases i <;> simp [iaResult, iaOp, insensOf, Bin.app]

end Rtamt.Py
