/-
  The translated `intersection` (`Gen.Dense.fn_intersection`: the 13-case `while` loop with `_append` inlined) computes
  what the mirror `Rtamt.Dense.Alg.inter` computes - values and the `RTAMTException` of the last `else` - for all inputs;
  the methods handed to `intersection`; `and_operation`, `subtraction_operation`, `intersection(·, ·, split)`.
-/
import RtamtProofs.GenDenseBase

namespace Rtamt.Py.Dn
open Rtamt Val Rtamt.Dense Rtamt.Dense.Alg

set_option linter.unusedSectionVars false
set_option linter.unusedVariables false
set_option linter.unusedSimpArgs false

variable {α : Type} [Val α]

/-! ### a structured copy of the generated body (checked by `rfl` against the generated term) -/

def tE (x : String) : E := .idx (.loc x) (.int 0)
def aLt (x y : String) : E := .bin .lt (tE x) (tE y)
def aEq (x y : String) : E := .bin .eq (tE x) (tE y)
def aGt (x y : String) : E := .bin .gt (tE x) (tE y)
def and3 (a b c : E) : E := .and_ a (.and_ b c)

def sAdv1 : S := .seq (.delIdx "in_samples_1" (.int 0)) (.setLoc "prev_in_sample_1" (.loc "current_in_sample_1"))
def sAdv2 : S := .seq (.delIdx "in_samples_2" (.int 0)) (.setLoc "prev_in_sample_2" (.loc "current_in_sample_2"))

def sOutVal : S :=
  .setLoc "out_value" (.call2 "method" (.idx (.loc "prev_in_sample_1") (.int 1)) (.idx (.loc "prev_in_sample_2") (.int 1)))

/-- the inlined `_append(out_samples, [src[0], out_value])` -/
def sAppend (src : String) : S :=
  .seq (.setLoc "_append$item" (.list2 (.idx (.loc src) (.int 0)) (.loc "out_value")))
    (.ite (.not (.loc "out_samples")) (.appendLoc "out_samples" (.loc "_append$item"))
      (.seq (.setLoc "_append$prev_item" (.idx (.loc "out_samples") (.neg (.int 1))))
        (.ite (.bin .ne (.idx (.loc "_append$prev_item") (.int 1)) (.idx (.loc "_append$item") (.int 1)))
          (.appendLoc "out_samples" (.loc "_append$item")) .skip)))

def sEmit (src : String) (adv : S) : S := .seq sOutVal (.seq (sAppend src) adv)

def interChain : S :=
  .ite (aLt "current_in_sample_1" "prev_in_sample_2") sAdv1
  (.ite (and3 (aLt "prev_in_sample_1" "current_in_sample_1") (aEq "current_in_sample_1" "prev_in_sample_2")
          (aLt "prev_in_sample_2" "current_in_sample_2")) sAdv1
  (.ite (and3 (aLt "prev_in_sample_1" "prev_in_sample_2") (aLt "prev_in_sample_2" "current_in_sample_1")
          (aLt "current_in_sample_1" "current_in_sample_2")) (sEmit "prev_in_sample_2" sAdv1)
  (.ite (and3 (aLt "prev_in_sample_1" "prev_in_sample_2") (aLt "prev_in_sample_2" "current_in_sample_1")
          (aEq "current_in_sample_1" "current_in_sample_2")) (sEmit "prev_in_sample_2" sAdv1)
  (.ite (and3 (aLt "prev_in_sample_2" "prev_in_sample_1") (aLt "prev_in_sample_1" "current_in_sample_1")
          (aEq "current_in_sample_1" "current_in_sample_2")) (sEmit "prev_in_sample_1" sAdv1)
  (.ite (and3 (aLt "prev_in_sample_1" "prev_in_sample_2") (aLt "prev_in_sample_2" "current_in_sample_2")
          (aLt "current_in_sample_2" "current_in_sample_1")) (sEmit "prev_in_sample_2" sAdv2)
  (.ite (and3 (aEq "prev_in_sample_1" "prev_in_sample_2") (aLt "prev_in_sample_2" "current_in_sample_2")
          (aLt "current_in_sample_2" "current_in_sample_1")) (sEmit "prev_in_sample_2" sAdv2)
  (.ite (and3 (aEq "prev_in_sample_1" "prev_in_sample_2") (aLt "prev_in_sample_2" "current_in_sample_2")
          (aEq "current_in_sample_2" "current_in_sample_1")) (sEmit "prev_in_sample_2" sAdv1)
  (.ite (and3 (aEq "prev_in_sample_1" "prev_in_sample_2") (aLt "prev_in_sample_2" "current_in_sample_1")
          (aLt "current_in_sample_1" "current_in_sample_2")) (sEmit "prev_in_sample_1" sAdv1)
  (.ite (and3 (aLt "prev_in_sample_2" "prev_in_sample_1") (aLt "prev_in_sample_1" "current_in_sample_1")
          (aLt "current_in_sample_1" "current_in_sample_2")) (sEmit "prev_in_sample_1" sAdv1)
  (.ite (and3 (aLt "prev_in_sample_2" "current_in_sample_2") (aEq "current_in_sample_2" "prev_in_sample_1")
          (aLt "prev_in_sample_1" "current_in_sample_1")) sAdv2
  (.ite (and3 (aLt "prev_in_sample_2" "prev_in_sample_1") (aLt "prev_in_sample_1" "current_in_sample_2")
          (aLt "current_in_sample_2" "current_in_sample_1")) (sEmit "prev_in_sample_1" sAdv2)
  (.ite (aGt "prev_in_sample_1" "current_in_sample_2") sAdv2
  (.raise .rtamt)))))))))))))

def interBody : S :=
  .seq (.setLoc "current_in_sample_1" (.idx (.loc "in_samples_1") (.int 1)))
    (.seq (.setLoc "current_in_sample_2" (.idx (.loc "in_samples_2") (.int 1))) interChain)

def interCond : E := .and_ (.sliceFrom (.loc "in_samples_1") 1) (.sliceFrom (.loc "in_samples_2") 1)

/-- `if x[-1][0] < float('inf'): x.append([float('inf'), x[-1][1]])` -/
def sExt (x : String) : S :=
  .ite (.bin .lt (.idx (.idx (.loc x) (.neg (.int 1))) (.int 0)) .inf)
    (.appendLoc x (.list2 .inf (.idx (.idx (.loc x) (.neg (.int 1))) (.int 1)))) .skip

def sEarly : S :=
  .ite (.or_ (.bin .eq (.call1 "len" (.loc "in_samples_1")) (.int 0)) (.bin .eq (.call1 "len" (.loc "in_samples_2")) (.int 0)))
    (.ret (.tup4 (.loc "out_samples") (.loc "ans") (.loc "in_samples_1") (.loc "in_samples_2"))) .skip

def interTail : S :=
  .seq (.setLoc "last" .emptyList) (.ret (.tup4 (.loc "out_samples") (.loc "last") (.loc "in_samples_1") (.loc "in_samples_2")))

def interRest : S :=
  .seq (sExt "in_samples_1") (.seq (sExt "in_samples_2")
    (.seq (.setLoc "prev_in_sample_1" (.idx (.loc "in_samples_1") (.int 0)))
      (.seq (.setLoc "prev_in_sample_2" (.idx (.loc "in_samples_2") (.int 0)))
        (.seq (.while_ interCond interBody) interTail))))

theorem fn_intersection_body : Gen.Dense.fn_intersection.body =
    .seq (.setLoc "in_samples_1" (.call1 "list" (.loc "in_samples_1")))
      (.seq (.setLoc "in_samples_2" (.call1 "list" (.loc "in_samples_2")))
        (.seq (.setLoc "out_samples" .emptyList) (.seq (.setLoc "ans" .emptyList) (.seq sEarly interRest)))) := rfl

theorem fn_intersection_params : Gen.Dense.fn_intersection.params = ["in_samples_1", "in_samples_2", "method"] := rfl

/-! ### statements -/

section stmts
variable (call : Call α) (fuel : Nat)

theorem exec_seq_ok {a b : S} {env env' : Env α} (h : exec call fuel a env = .ok (env', none)) :
    exec call fuel (.seq a b) env = exec call fuel b env' := by
  simp [exec, h]

theorem exec_seq_err {a b : S} {env : Env α} {e : PyErr} (h : exec call fuel a env = .error e) :
    exec call fuel (.seq a b) env = .error e := by
  simp [exec, h]

theorem exec_setLoc {x : String} {e : E} {env : Env α} {v : DV α} (h : evalE call env e = .ok v) :
    exec call fuel (.setLoc x e) env = .ok (setLoc x v env, none) := by
  simp [exec, h]

theorem exec_ite_bool {c : E} {t e : S} {env : Env α} {b : Bool} (h : evalE call env c = .ok (.bool b)) :
    exec call fuel (.ite c t e) env = if b then exec call fuel t env else exec call fuel e env := by
  cases b <;> simp [exec, h, truthy]

theorem exec_while (c : E) (b : S) (env : Env α) :
    exec call fuel (.while_ c b) env =
      whileLoop (fun env => do truthy (← evalE call env c)) (exec call fuel b) fuel env := by
  rw [exec]

theorem resolve_of_getLoc {env : Env α} {f g : String} (h : getLoc f env = .ok (.fn g)) : resolve env f = g := by
  unfold getLoc at h
  unfold resolve
  cases hl : env.lookup f with
  | none => rw [hl] at h; cases h
  | some v => rw [hl] at h; cases h; rfl

theorem resolve_of_key {env : Env α} {f : String} (h : getLoc f env = .error .key) : resolve env f = f := by
  unfold getLoc at h
  unfold resolve
  cases hl : env.lookup f with
  | none => rfl
  | some v => rw [hl] at h; cases h

theorem evalIdx_last (l : List (DV α)) (x : DV α) : evalIdx (.list (l ++ [x])) (.int (-1)) = .ok x := by
  simp [evalIdx, pyIndex]

theorem evalIdx_smp0 (t : Tm) (p : DV α) : evalIdx (.smp t p) (.int 0) = .ok (.tm t) := by
  simp [evalIdx, pyIndex]

theorem evalIdx_smp1 (t : Tm) (p : DV α) : evalIdx (.smp t p) (.int 1) = .ok p := by
  simp [evalIdx, pyIndex]

theorem evalIdx_cons0 (a : DV α) (l : List (DV α)) : evalIdx (.list (a :: l)) (.int 0) = .ok a := by
  simp [evalIdx, pyIndex]

theorem evalIdx_cons1 (a b : DV α) (l : List (DV α)) : evalIdx (.list (a :: b :: l)) (.int 1) = .ok b := by
  simp [evalIdx, pyIndex]

theorem evalE_tE {env : Env α} {x : String} {t : Tm} {p : DV α} (h : getLoc x env = .ok (.smp t p)) :
    evalE call env (tE x) = .ok (.tm t) := by
  simp [tE, evalE, h, evalIdx, pyIndex]

theorem evalE_aLt {env : Env α} {x y : String} {t u : Tm} {p q : DV α} (hx : getLoc x env = .ok (.smp t p))
    (hy : getLoc y env = .ok (.smp u q)) : evalE call env (aLt x y) = .ok (.bool (Tm.lt t u)) := by
  simp [aLt, evalE, evalE_tE call hx, evalE_tE call hy, evalBin, isCmp, cmpDV, isTimeLike, toTm, cmpTm, Except.map]

theorem evalE_aEq {env : Env α} {x y : String} {t u : Tm} {p q : DV α} (hx : getLoc x env = .ok (.smp t p))
    (hy : getLoc y env = .ok (.smp u q)) : evalE call env (aEq x y) = .ok (.bool (t == u)) := by
  simp [aEq, evalE, evalE_tE call hx, evalE_tE call hy, evalBin, isCmp, cmpDV, isTimeLike, toTm, cmpTm, Except.map]

theorem evalE_aGt {env : Env α} {x y : String} {t u : Tm} {p q : DV α} (hx : getLoc x env = .ok (.smp t p))
    (hy : getLoc y env = .ok (.smp u q)) : evalE call env (aGt x y) = .ok (.bool (Tm.lt u t)) := by
  simp [aGt, evalE, evalE_tE call hx, evalE_tE call hy, evalBin, isCmp, cmpDV, isTimeLike, toTm, cmpTm, Except.map]

theorem evalE_and3 {env : Env α} {a b c : E} {A B C : Bool} (ha : evalE call env a = .ok (.bool A))
    (hb : evalE call env b = .ok (.bool B)) (hc : evalE call env c = .ok (.bool C)) :
    evalE call env (and3 a b c) = .ok (.bool (A && B && C)) := by
  cases A <;> cases B <;> simp [and3, evalE, ha, hb, hc, truthy]

end stmts

/-! ### the decision of one iteration -/

/-- which list advances (`true`: the first), and whether a sample is written - at `prev_in_sample_1[0]` (`some true`)
    or at `prev_in_sample_2[0]` (`some false`); `none`: the `raise` of the last `else` -/
def interDec (p1 c1 p2 c2 : Tm) : Option (Bool × Option Bool) :=
  let lt := Tm.lt
  if lt c1 p2 then some (true, none)
  else if lt p1 c1 && c1 == p2 && lt p2 c2 then some (true, none)
  else if lt p1 p2 && lt p2 c1 && lt c1 c2 then some (true, some false)
  else if lt p1 p2 && lt p2 c1 && c1 == c2 then some (true, some false)
  else if lt p2 p1 && lt p1 c1 && c1 == c2 then some (true, some true)
  else if lt p1 p2 && lt p2 c2 && lt c2 c1 then some (false, some false)
  else if p1 == p2 && lt p2 c2 && lt c2 c1 then some (false, some false)
  else if p1 == p2 && lt p2 c2 && c2 == c1 then some (true, some false)
  else if p1 == p2 && lt p2 c1 && lt c1 c2 then some (true, some true)
  else if lt p2 p1 && lt p1 c1 && lt c1 c2 then some (true, some true)
  else if lt p2 c2 && c2 == p1 && lt p1 c1 then some (false, none)
  else if lt p2 p1 && lt p1 c2 && lt c2 c1 then some (false, some true)
  else if lt c2 p1 then some (false, none)
  else none

section mirror
variable {β : Type}

def nextOut (f : α → α → β) (ne : β → β → Bool) (p1 p2 : Tm) (v1 v2 : α) (out : ASig β) : Option Bool → ASig β
  | none => out
  | some s => appendD ne out (if s then p1 else p2, f v1 v2)

/-- the continuation of the mirror's loop after the decision `d` -/
def decK (f : α → α → β) (ne : β → β → Bool) (p1 c1 p2 c2 : Tm) (v1 w1 v2 w2 : α) (r1 r2 : ASig α)
    (out : ASig β) : Option (Bool × Option Bool) → Except PyErr (ASig β)
  | none => .error .rtamt
  | some (a, e) =>
      interLoop f ne (if a then (c1, w1) :: r1 else (p1, v1) :: (c1, w1) :: r1)
        (if a then (p2, v2) :: (c2, w2) :: r2 else (c2, w2) :: r2) (nextOut f ne p1 p2 v1 v2 out e)

theorem interLoop_dec (f : α → α → β) (ne : β → β → Bool) (p1 c1 p2 c2 : Tm) (v1 w1 v2 w2 : α) (r1 r2 : ASig α)
    (out : ASig β) :
    interLoop f ne ((p1, v1) :: (c1, w1) :: r1) ((p2, v2) :: (c2, w2) :: r2) out =
      decK f ne p1 c1 p2 c2 v1 w1 v2 w2 r1 r2 out (interDec p1 c1 p2 c2) := by
  rw [interLoop]
  unfold interDec
  simp only [apply_ite (decK f ne p1 c1 p2 c2 v1 w1 v2 w2 r1 r2 out)]
  rfl

theorem interLoop_short (f : α → α → β) (ne : β → β → Bool) (l1 l2 : ASig α) (out : ASig β)
    (h : l1.length < 2 ∨ l2.length < 2) : interLoop f ne l1 l2 out = .ok out := by
  unfold interLoop
  split
  · simp only [List.length_cons] at h; omega
  · rfl

end mirror

/-! ### the loop -/

section loop
variable {β : Type} (encP : β → DV α) (m : String)

/-- the locals between two iterations -/
structure Inv (env : Env α) (l1 l2 : ASig α) (out : ASig β) : Prop where
  in1 : getLoc "in_samples_1" env = .ok (encSig l1)
  in2 : getLoc "in_samples_2" env = .ok (encSig l2)
  out : getLoc "out_samples" env = .ok (encSigP encP out)
  p1 : ∀ x r, l1 = x :: r → getLoc "prev_in_sample_1" env = .ok (encSmp x)
  p2 : ∀ x r, l2 = x :: r → getLoc "prev_in_sample_2" env = .ok (encSmp x)
  m : getLoc "method" env = .ok (.fn m)

/-- the locals inside an iteration -/
structure Inv2 (env : Env α) (x1 y1 : Tm × α) (r1 : ASig α) (x2 y2 : Tm × α) (r2 : ASig α) (out : ASig β) : Prop where
  in1 : getLoc "in_samples_1" env = .ok (encSig (x1 :: y1 :: r1))
  in2 : getLoc "in_samples_2" env = .ok (encSig (x2 :: y2 :: r2))
  out : getLoc "out_samples" env = .ok (encSigP encP out)
  p1 : getLoc "prev_in_sample_1" env = .ok (encSmp x1)
  p2 : getLoc "prev_in_sample_2" env = .ok (encSmp x2)
  c1 : getLoc "current_in_sample_1" env = .ok (encSmp y1)
  c2 : getLoc "current_in_sample_2" env = .ok (encSmp y2)
  m : getLoc "method" env = .ok (.fn m)

variable (call : Call α) (fuel : Nat) (f : α → α → β) (ne : β → β → Bool)

theorem adv1_spec {env : Env α} {x1 y1 : Tm × α} {r1 : ASig α} {x2 y2 : Tm × α} {r2 : ASig α} {out : ASig β}
    (h : Inv2 encP m env x1 y1 r1 x2 y2 r2 out) :
    ∃ env', exec call fuel sAdv1 env = .ok (env', none) ∧ Inv encP m env' (y1 :: r1) (x2 :: y2 :: r2) out := by
  refine ⟨setLoc "prev_in_sample_1" (encSmp y1) (setLoc "in_samples_1" (encSig (y1 :: r1)) env), ?_, ?_⟩
  · have hd : exec call fuel (.delIdx "in_samples_1" (.int 0)) env =
        .ok (setLoc "in_samples_1" (encSig (y1 :: r1)) env, none) := by
      simp [exec, evalE, h.in1, encSig, delAt, pyIndex]
    unfold sAdv1
    rw [exec_seq_ok call fuel hd]
    exact exec_setLoc call fuel (by simp [evalE, h.c1])
  · constructor
    · simp
    · simp [h.in2]
    · simp [h.out]
    · intro x r hx; cases hx; simp
    · intro x r hx; cases hx; simp [h.p2]
    · simp [h.m]

theorem adv2_spec {env : Env α} {x1 y1 : Tm × α} {r1 : ASig α} {x2 y2 : Tm × α} {r2 : ASig α} {out : ASig β}
    (h : Inv2 encP m env x1 y1 r1 x2 y2 r2 out) :
    ∃ env', exec call fuel sAdv2 env = .ok (env', none) ∧ Inv encP m env' (x1 :: y1 :: r1) (y2 :: r2) out := by
  refine ⟨setLoc "prev_in_sample_2" (encSmp y2) (setLoc "in_samples_2" (encSig (y2 :: r2)) env), ?_, ?_⟩
  · have hd : exec call fuel (.delIdx "in_samples_2" (.int 0)) env =
        .ok (setLoc "in_samples_2" (encSig (y2 :: r2)) env, none) := by
      simp [exec, evalE, h.in2, encSig, delAt, pyIndex]
    unfold sAdv2
    rw [exec_seq_ok call fuel hd]
    exact exec_setLoc call fuel (by simp [evalE, h.c2])
  · constructor
    · simp [h.in1]
    · simp
    · simp [h.out]
    · intro x r hx; cases hx; simp [h.p1]
    · intro x r hx; cases hx; simp
    · simp [h.m]


section emit
variable (hcall : ∀ a b, call m [.val a, .val b] = .ok (encP (f a b)))
  (hpay : ∀ x, toPayload (encP x) = .ok (encP x))
  (hne : ∀ x y, cmpDV .ne (encP x) (encP y) = .ok (ne x y))
include hcall hpay hne

/-- `out_value = method(prev_in_sample_1[1], prev_in_sample_2[1]); _append(out_samples, [src[0], out_value])` -/
theorem emit_spec {env : Env α} {x1 y1 : Tm × α} {r1 : ASig α} {x2 y2 : Tm × α} {r2 : ASig α} {out : ASig β}
    (h : Inv2 encP m env x1 y1 r1 x2 y2 r2 out) (src : String) (t : Tm) (p : DV α)
    (hsrc : getLoc src env = .ok (.smp t p)) (hs : src ≠ "out_value") :
    ∃ env', (∀ adv, exec call fuel (sEmit src adv) env = exec call fuel adv env') ∧
      Inv2 encP m env' x1 y1 r1 x2 y2 r2 (appendD ne out (t, f x1.2 x2.2)) := by
  have h1 : exec call fuel sOutVal env = .ok (setLoc "out_value" (encP (f x1.2 x2.2)) env, none) := by
    apply exec_setLoc
    simp [evalE, h.p1, h.p2, encSmp, evalIdx, pyIndex, resolve_of_getLoc h.m, hcall]
  have hout := h.out
  rcases List.eq_nil_or_concat out with rfl | ⟨O, q, rfl⟩
  · refine ⟨setLoc "out_samples" (.list [.smp t (encP (f x1.2 x2.2))])
      (setLoc "_append$item" (.smp t (encP (f x1.2 x2.2))) (setLoc "out_value" (encP (f x1.2 x2.2)) env)), ?_, ?_⟩
    · intro adv
      have h3 : exec call fuel (sAppend src) (setLoc "out_value" (encP (f x1.2 x2.2)) env) =
          .ok (setLoc "out_samples" (.list [.smp t (encP (f x1.2 x2.2))])
            (setLoc "_append$item" (.smp t (encP (f x1.2 x2.2))) (setLoc "out_value" (encP (f x1.2 x2.2)) env)), none) := by
        simp [encSigP] at hout
        simp [sAppend, exec, evalE, hs, hsrc, hout, evalIdx, pyIndex, mkList2, hpay, truthy]
      unfold sEmit
      rw [exec_seq_ok call fuel h1, exec_seq_ok call fuel h3]
    · constructor
      · simp [h.in1]
      · simp [h.in2]
      · simp [appendD, encSigP]
      · simp [h.p1]
      · simp [h.p2]
      · simp [h.c1]
      · simp [h.c2]
      · simp [h.m]
  · simp [encSigP] at hout
    by_cases hq : ne q.2 (f x1.2 x2.2) = true
    · refine ⟨setLoc "out_samples" (.list (O.map (fun p => DV.smp p.1 (encP p.2)) ++ [.smp q.1 (encP q.2)] ++
          [.smp t (encP (f x1.2 x2.2))]))
        (setLoc "_append$prev_item" (.smp q.1 (encP q.2))
        (setLoc "_append$item" (.smp t (encP (f x1.2 x2.2))) (setLoc "out_value" (encP (f x1.2 x2.2)) env))), ?_, ?_⟩
      · intro adv
        have h3 : exec call fuel (sAppend src) (setLoc "out_value" (encP (f x1.2 x2.2)) env) =
            .ok (setLoc "out_samples" (.list (O.map (fun p => DV.smp p.1 (encP p.2)) ++ [.smp q.1 (encP q.2)] ++
              [.smp t (encP (f x1.2 x2.2))]))
            (setLoc "_append$prev_item" (.smp q.1 (encP q.2))
            (setLoc "_append$item" (.smp t (encP (f x1.2 x2.2))) (setLoc "out_value" (encP (f x1.2 x2.2)) env))), none) := by
          simp [sAppend, exec, evalE, hs, hsrc, hout, evalIdx_last, evalNeg, evalIdx_smp0, evalIdx_smp1, mkList2, hpay, truthy,
            evalBin, isCmp, hne, hq, Except.map]
        unfold sEmit
        rw [exec_seq_ok call fuel h1, exec_seq_ok call fuel h3]
      · constructor
        · simp [h.in1]
        · simp [h.in2]
        · simp [appendD, encSigP, hq]
        · simp [h.p1]
        · simp [h.p2]
        · simp [h.c1]
        · simp [h.c2]
        · simp [h.m]
    · refine ⟨(setLoc "_append$prev_item" (.smp q.1 (encP q.2))
        (setLoc "_append$item" (.smp t (encP (f x1.2 x2.2))) (setLoc "out_value" (encP (f x1.2 x2.2)) env))), ?_, ?_⟩
      · intro adv
        have h3 : exec call fuel (sAppend src) (setLoc "out_value" (encP (f x1.2 x2.2)) env) =
            .ok ((setLoc "_append$prev_item" (.smp q.1 (encP q.2))
            (setLoc "_append$item" (.smp t (encP (f x1.2 x2.2))) (setLoc "out_value" (encP (f x1.2 x2.2)) env))), none) := by
          simp [sAppend, exec, evalE, hs, hsrc, hout, evalIdx_last, evalNeg, evalIdx_smp0, evalIdx_smp1, mkList2, hpay, truthy,
            evalBin, isCmp, hne, hq, Except.map]
        unfold sEmit
        rw [exec_seq_ok call fuel h1, exec_seq_ok call fuel h3]
      · constructor
        · simp [h.in1]
        · simp [h.in2]
        · simp [appendD, encSigP, hq, hout]
        · simp [h.p1]
        · simp [h.p2]
        · simp [h.c1]
        · simp [h.c2]
        · simp [h.m]

end emit

/-- what the chain of `if … elif …` does after the decision `d` -/
def chainK (env : Env α) : Option (Bool × Option Bool) → Except PyErr (Res α)
  | none => .error .rtamt
  | some (a, none) => exec call fuel (if a then sAdv1 else sAdv2) env
  | some (a, some s) =>
      exec call fuel (sEmit (if s then "prev_in_sample_1" else "prev_in_sample_2") (if a then sAdv1 else sAdv2)) env

theorem chain_spec {env : Env α} (p1 c1 p2 c2 : Tm) {a1 b1 a2 b2 : DV α}
    (hp1 : getLoc "prev_in_sample_1" env = .ok (.smp p1 a1)) (hc1 : getLoc "current_in_sample_1" env = .ok (.smp c1 b1))
    (hp2 : getLoc "prev_in_sample_2" env = .ok (.smp p2 a2)) (hc2 : getLoc "current_in_sample_2" env = .ok (.smp c2 b2)) :
    exec call fuel interChain env = chainK call fuel env (interDec p1 c1 p2 c2) := by
  unfold interChain
  rw [exec_ite_bool call fuel (evalE_aLt call hc1 hp2),
    exec_ite_bool call fuel (evalE_and3 call (evalE_aLt call hp1 hc1) (evalE_aEq call hc1 hp2) (evalE_aLt call hp2 hc2)),
    exec_ite_bool call fuel (evalE_and3 call (evalE_aLt call hp1 hp2) (evalE_aLt call hp2 hc1) (evalE_aLt call hc1 hc2)),
    exec_ite_bool call fuel (evalE_and3 call (evalE_aLt call hp1 hp2) (evalE_aLt call hp2 hc1) (evalE_aEq call hc1 hc2)),
    exec_ite_bool call fuel (evalE_and3 call (evalE_aLt call hp2 hp1) (evalE_aLt call hp1 hc1) (evalE_aEq call hc1 hc2)),
    exec_ite_bool call fuel (evalE_and3 call (evalE_aLt call hp1 hp2) (evalE_aLt call hp2 hc2) (evalE_aLt call hc2 hc1)),
    exec_ite_bool call fuel (evalE_and3 call (evalE_aEq call hp1 hp2) (evalE_aLt call hp2 hc2) (evalE_aLt call hc2 hc1)),
    exec_ite_bool call fuel (evalE_and3 call (evalE_aEq call hp1 hp2) (evalE_aLt call hp2 hc2) (evalE_aEq call hc2 hc1)),
    exec_ite_bool call fuel (evalE_and3 call (evalE_aEq call hp1 hp2) (evalE_aLt call hp2 hc1) (evalE_aLt call hc1 hc2)),
    exec_ite_bool call fuel (evalE_and3 call (evalE_aLt call hp2 hp1) (evalE_aLt call hp1 hc1) (evalE_aLt call hc1 hc2)),
    exec_ite_bool call fuel (evalE_and3 call (evalE_aLt call hp2 hc2) (evalE_aEq call hc2 hp1) (evalE_aLt call hp1 hc1)),
    exec_ite_bool call fuel (evalE_and3 call (evalE_aLt call hp2 hp1) (evalE_aLt call hp1 hc2) (evalE_aLt call hc2 hc1)),
    exec_ite_bool call fuel (evalE_aGt call hp1 hc2)]
  unfold interDec
  simp only [apply_ite (chainK call fuel env)]
  rfl

theorem cond_spec {env : Env α} {l1 l2 : ASig α} {out : ASig β} (h : Inv encP m env l1 l2 out) :
    (do truthy (← evalE call env interCond)) = .ok (decide (2 ≤ l1.length) && decide (2 ≤ l2.length)) := by
  rcases l1 with _ | ⟨x1, _ | ⟨y1, r1⟩⟩ <;> rcases l2 with _ | ⟨x2, _ | ⟨y2, r2⟩⟩ <;>
    simp [interCond, evalE, h.in1, h.in2, encSig, truthy]

section body
variable (hcall : ∀ a b, call m [.val a, .val b] = .ok (encP (f a b)))
  (hpay : ∀ x, toPayload (encP x) = .ok (encP x))
  (hne : ∀ x y, cmpDV .ne (encP x) (encP y) = .ok (ne x y))
include hcall hpay hne

/-- one iteration -/
theorem body_spec {env : Env α} {p1 c1 p2 c2 : Tm} {v1 w1 v2 w2 : α} {r1 r2 : ASig α} {out : ASig β}
    (h : Inv encP m env ((p1, v1) :: (c1, w1) :: r1) ((p2, v2) :: (c2, w2) :: r2) out) :
    match interDec p1 c1 p2 c2 with
    | none => exec call fuel interBody env = .error .rtamt
    | some (a, e) => ∃ env', exec call fuel interBody env = .ok (env', none) ∧
        Inv encP m env' (if a then (c1, w1) :: r1 else (p1, v1) :: (c1, w1) :: r1)
          (if a then (p2, v2) :: (c2, w2) :: r2 else (c2, w2) :: r2) (nextOut f ne p1 p2 v1 v2 out e) := by
  have hb : exec call fuel interBody env = exec call fuel interChain
      (setLoc "current_in_sample_2" (encSmp (c2, w2)) (setLoc "current_in_sample_1" (encSmp (c1, w1)) env)) := by
    unfold interBody
    rw [exec_seq_ok call fuel (exec_setLoc call fuel (v := encSmp (c1, w1))
          (by simp [evalE, h.in1, encSig, evalIdx, pyIndex])),
      exec_seq_ok call fuel (exec_setLoc call fuel (v := encSmp (c2, w2))
          (by simp [evalE, h.in2, encSig, evalIdx, pyIndex]))]
  have h2 : Inv2 encP m (setLoc "current_in_sample_2" (encSmp (c2, w2)) (setLoc "current_in_sample_1" (encSmp (c1, w1)) env))
      (p1, v1) (c1, w1) r1 (p2, v2) (c2, w2) r2 out := by
    constructor
    · simp [h.in1]
    · simp [h.in2]
    · simp [h.out]
    · simp [h.p1 _ _ rfl]
    · simp [h.p2 _ _ rfl]
    · simp
    · simp
    · simp [h.m]
  rw [hb, chain_spec call fuel p1 c1 p2 c2 (a1 := .val v1) (b1 := .val w1) (a2 := .val v2) (b2 := .val w2)
    h2.p1 h2.c1 h2.p2 h2.c2]
  cases hd : interDec p1 c1 p2 c2 with
  | none => rfl
  | some ae =>
      obtain ⟨a, e⟩ := ae
      cases e with
      | none =>
          cases a with
          | true => exact adv1_spec encP m call fuel h2
          | false => exact adv2_spec encP m call fuel h2
      | some s =>
          have hem : ∃ env', (∀ adv, exec call fuel (sEmit (if s then "prev_in_sample_1" else "prev_in_sample_2") adv)
                (setLoc "current_in_sample_2" (encSmp (c2, w2)) (setLoc "current_in_sample_1" (encSmp (c1, w1)) env)) =
                exec call fuel adv env') ∧
              Inv2 encP m env' (p1, v1) (c1, w1) r1 (p2, v2) (c2, w2) r2
                (appendD ne out (if s then p1 else p2, f v1 v2)) := by
            cases s with
            | true => exact emit_spec encP m call fuel f ne hcall hpay hne h2 "prev_in_sample_1" p1 (.val v1) h2.p1 (by decide)
            | false => exact emit_spec encP m call fuel f ne hcall hpay hne h2 "prev_in_sample_2" p2 (.val v2) h2.p2 (by decide)
          obtain ⟨env', hex, h3⟩ := hem
          simp only [chainK, nextOut]
          rw [hex]
          cases a with
          | true => exact adv1_spec encP m call fuel h3
          | false => exact adv2_spec encP m call fuel h3

/-- the `while` loop against `interLoop` -/
theorem loop_spec : ∀ (n : Nat) (l1 l2 : ASig α) (out : ASig β) (env : Env α), l1.length + l2.length < n →
    Inv encP m env l1 l2 out →
    match interLoop f ne l1 l2 out with
    | .ok o => ∃ env' l1' l2', whileLoop (fun env => do truthy (← evalE call env interCond))
          (exec call fuel interBody) n env = .ok (env', none) ∧ Inv encP m env' l1' l2' o
    | .error e => whileLoop (fun env => do truthy (← evalE call env interCond))
          (exec call fuel interBody) n env = .error e := by
  intro n
  induction n with
  | zero => intro l1 l2 out env hn; omega
  | succ n ih =>
      intro l1 l2 out env hn h
      have hc := cond_spec encP m call h
      by_cases hl : l1.length < 2 ∨ l2.length < 2
      · rw [interLoop_short f ne l1 l2 out hl]
        have hf : (decide (2 ≤ l1.length) && decide (2 ≤ l2.length)) = false := by
          rcases hl with hl | hl <;> simp <;> omega
        rw [hf] at hc
        exact ⟨env, l1, l2, whileLoop_done _ _ _ _ hc, h⟩
      · have ht : (decide (2 ≤ l1.length) && decide (2 ≤ l2.length)) = true := by
          simp; omega
        rw [ht] at hc
        obtain ⟨⟨p1, v1⟩, ⟨c1, w1⟩, r1, rfl⟩ : ∃ x y r, l1 = x :: y :: r := by
          rcases l1 with _ | ⟨x, _ | ⟨y, r⟩⟩
          · simp at hl
          · simp at hl
          · exact ⟨x, y, r, rfl⟩
        obtain ⟨⟨p2, v2⟩, ⟨c2, w2⟩, r2, rfl⟩ : ∃ x y r, l2 = x :: y :: r := by
          rcases l2 with _ | ⟨x, _ | ⟨y, r⟩⟩
          · simp at hl
          · simp at hl
          · exact ⟨x, y, r, rfl⟩
        have hb := body_spec encP m call fuel f ne hcall hpay hne h
        rw [interLoop_dec]
        cases hd : interDec p1 c1 p2 c2 with
        | none =>
            rw [hd] at hb
            exact whileLoop_raise _ _ _ _ _ hc hb
        | some ae =>
            obtain ⟨a, e⟩ := ae
            rw [hd] at hb
            obtain ⟨env', hex, hinv⟩ := hb
            rw [whileLoop_step _ _ _ _ _ hc hex]
            refine ih _ _ _ env' ?_ hinv
            simp only [List.length_cons] at hn
            cases a <;> simp <;> omega

end body

end loop

/-! ### the function -/

theorem extendInf_ne_nil (s : ASig α) (hs : s ≠ []) : extendInf s ≠ [] := by
  unfold extendInf
  split
  · split <;> simp [hs]
  · exact hs

theorem extendInf_length (s : ASig α) : (extendInf s).length ≤ s.length + 1 := by
  unfold extendInf
  split
  · split <;> simp
  · simp

section fn
variable (call : Call α) (fuel : Nat)

theorem exec_seq_ret {a b : S} {env env' : Env α} {v : DV α} (h : exec call fuel a env = .ok (env', some v)) :
    exec call fuel (.seq a b) env = .ok (env', some v) := by
  simp [exec, h]

theorem ext_spec (x : String) (env : Env α) (s : ASig α) (hs : s ≠ []) (h : getLoc x env = .ok (encSig s)) :
    ∃ env', exec call fuel (sExt x) env = .ok (env', none) ∧ getLoc x env' = .ok (encSig (extendInf s)) ∧
      ∀ y, y ≠ x → getLoc y env' = getLoc y env := by
  obtain ⟨L, ⟨t, v⟩, rfl⟩ : ∃ L b, s = L ++ [b] := by
    rcases List.eq_nil_or_concat s with h0 | h0
    · exact absurd h0 hs
    · obtain ⟨L, b, hb⟩ := h0
      exact ⟨L, b, by simpa using hb⟩
  have hcond : evalE call env (.bin .lt (.idx (.idx (.loc x) (.neg (.int 1))) (.int 0)) .inf) =
      .ok (.bool (Tm.lt t .inf)) := by
    simp [evalE, h, encSig, encSmp, evalNeg, evalIdx_last, evalIdx_smp0, evalIdx_smp1, evalBin, isCmp, cmpDV, isTimeLike, toTm,
      cmpTm, Except.map]
  unfold sExt
  rw [exec_ite_bool call fuel hcond]
  by_cases hlt : Tm.lt t .inf = true
  · refine ⟨setLoc x (encSig (L ++ [(t, v)] ++ [(.inf, v)])) env, ?_, ?_, ?_⟩
    · simp [hlt, exec, evalE, h, encSig, encSmp, evalNeg, evalIdx_last, evalIdx_smp0, evalIdx_smp1, mkList2, toPayload]
    · simp [extendInf, hlt]
    · intro y hy; exact getLoc_setLoc_ne _ _ _ _ hy
  · refine ⟨env, ?_, ?_, fun _ _ => rfl⟩
    · simp [hlt, exec]
    · simp [extendInf, hlt, h]


section run
variable {β : Type} (encP : β → DV α) (f : α → α → β) (ne : β → β → Bool) (m : String)
  (hcall : ∀ a b, call m [.val a, .val b] = .ok (encP (f a b)))
  (hpay : ∀ x, toPayload (encP x) = .ok (encP x))
  (hne : ∀ x y, cmpDV .ne (encP x) (encP y) = .ok (ne x y))
  (hlist : ∀ l, call "list" [.list l] = .ok (.list l))
  (hlen : ∀ l, call "len" [.list l] = .ok (.int l.length))
include hcall hpay hne hlist hlen

/-- the body of `intersection` from the two `extend to infinity` statements on, both operands non-empty -/
theorem rest_spec (env : Env α) (s1 s2 : ASig α) (h1 : s1 ≠ []) (h2 : s2 ≠ []) (hfuel : s1.length + s2.length + 3 ≤ fuel)
    (hin1 : getLoc "in_samples_1" env = .ok (encSig s1)) (hin2 : getLoc "in_samples_2" env = .ok (encSig s2))
    (hout : getLoc "out_samples" env = .ok (.list [])) (hm : getLoc "method" env = .ok (.fn m)) :
    match interLoop f ne (extendInf s1) (extendInf s2) [] with
    | .ok o => ∃ env' b c d, exec call fuel interRest env = .ok (env', some (.list [encSigP encP o, b, c, d]))
    | .error e => exec call fuel interRest env = .error e := by
  obtain ⟨e5, hx5, hg5, hf5⟩ := ext_spec call fuel "in_samples_1" env s1 h1 hin1
  obtain ⟨e6, hx6, hg6, hf6⟩ := ext_spec call fuel "in_samples_2" e5 s2 h2 (by rw [hf5 _ (by decide)]; exact hin2)
  obtain ⟨x1, t1, hl1⟩ := List.exists_cons_of_ne_nil (extendInf_ne_nil s1 h1)
  obtain ⟨x2, t2, hl2⟩ := List.exists_cons_of_ne_nil (extendInf_ne_nil s2 h2)
  have g1 : getLoc "in_samples_1" e6 = .ok (encSig (x1 :: t1)) := by rw [hf6 _ (by decide), hg5, hl1]
  have g2 : getLoc "in_samples_2" e6 = .ok (encSig (x2 :: t2)) := by rw [hg6, hl2]
  have hp1 : exec call fuel (.setLoc "prev_in_sample_1" (.idx (.loc "in_samples_1") (.int 0))) e6 =
      .ok (setLoc "prev_in_sample_1" (encSmp x1) e6, none) :=
    exec_setLoc call fuel (by simp [evalE, g1, encSig, evalIdx_cons0])
  have hp2 : exec call fuel (.setLoc "prev_in_sample_2" (.idx (.loc "in_samples_2") (.int 0)))
      (setLoc "prev_in_sample_1" (encSmp x1) e6) =
      .ok (setLoc "prev_in_sample_2" (encSmp x2) (setLoc "prev_in_sample_1" (encSmp x1) e6), none) :=
    exec_setLoc call fuel (by simp [evalE, g2, encSig, evalIdx_cons0])
  have hinv : Inv encP m (setLoc "prev_in_sample_2" (encSmp x2) (setLoc "prev_in_sample_1" (encSmp x1) e6))
      (extendInf s1) (extendInf s2) [] := by
    constructor
    · simp [g1, hl1]
    · simp [g2, hl2]
    · simp [encSigP]; rw [hf6 _ (by decide), hf5 _ (by decide)]; exact hout
    · intro x r hx; rw [hl1] at hx; cases hx; simp
    · intro x r hx; rw [hl2] at hx; cases hx; simp
    · simp; rw [hf6 _ (by decide), hf5 _ (by decide)]; exact hm
  have hn : (extendInf s1).length + (extendInf s2).length < fuel := by
    have := extendInf_length s1
    have := extendInf_length s2
    omega
  have hloop := loop_spec encP m call fuel f ne hcall hpay hne fuel _ _ _ _ hn hinv
  unfold interRest
  rw [exec_seq_ok call fuel hx5, exec_seq_ok call fuel hx6, exec_seq_ok call fuel hp1, exec_seq_ok call fuel hp2]
  cases hr : interLoop f ne (extendInf s1) (extendInf s2) [] with
  | error e =>
      rw [hr] at hloop
      exact exec_seq_err call fuel (by rw [exec_while]; exact hloop)
  | ok o =>
      rw [hr] at hloop
      obtain ⟨env', l1', l2', hw, hi⟩ := hloop
      rw [exec_seq_ok call fuel (by rw [exec_while]; exact hw)]
      refine ⟨setLoc "last" (.list []) env', .list [], encSig l1', encSig l2', ?_⟩
      simp [interTail, exec, evalE, hi.out, hi.in1, hi.in2]

theorem run_intersection (s1 s2 : ASig α) (hfuel : s1.length + s2.length + 3 ≤ fuel) :
    match inter f ne s1 s2 with
    | .ok o => ∃ b c d, runFn call fuel Gen.Dense.fn_intersection [encSig s1, encSig s2, .fn m] =
        .ok (.list [encSigP encP o, b, c, d])
    | .error e => runFn call fuel Gen.Dense.fn_intersection [encSig s1, encSig s2, .fn m] = .error e := by
  unfold runFn
  rw [fn_intersection_params, fn_intersection_body]
  simp only [List.length_cons, List.length_nil, List.zip_cons_cons, List.zip_nil_right, ne_eq, not_true_eq_false,
    if_false, ite_false]
  generalize henv0 : ([("in_samples_1", encSig s1), ("in_samples_2", encSig s2), ("method", DV.fn m)] : Env α) = env0
  have k1 : getLoc "in_samples_1" env0 = .ok (encSig s1) := by subst henv0; simp
  have k2 : getLoc "in_samples_2" env0 = .ok (encSig s2) := by subst henv0; simp
  have k3 : getLoc "method" env0 = .ok (.fn m) := by subst henv0; simp
  have r1 : resolve env0 "list" = "list" := resolve_of_key (by subst henv0; simp)
  have r2 : resolve env0 "len" = "len" := resolve_of_key (by subst henv0; simp)
  have e1 : exec call fuel (.setLoc "in_samples_1" (.call1 "list" (.loc "in_samples_1"))) env0 =
      .ok (setLoc "in_samples_1" (encSig s1) env0, none) :=
    exec_setLoc call fuel (by simp [evalE, k1, r1, encSig, hlist])
  have e2 : exec call fuel (.setLoc "in_samples_2" (.call1 "list" (.loc "in_samples_2")))
      (setLoc "in_samples_1" (encSig s1) env0) =
      .ok (setLoc "in_samples_2" (encSig s2) (setLoc "in_samples_1" (encSig s1) env0), none) :=
    exec_setLoc call fuel (by simp [evalE, k2, r1, encSig, hlist])
  have e3 : exec call fuel (.setLoc "out_samples" .emptyList)
      (setLoc "in_samples_2" (encSig s2) (setLoc "in_samples_1" (encSig s1) env0)) =
      .ok (setLoc "out_samples" (.list []) (setLoc "in_samples_2" (encSig s2) (setLoc "in_samples_1" (encSig s1) env0)),
        none) :=
    exec_setLoc call fuel (by simp [evalE])
  have e4 : exec call fuel (.setLoc "ans" .emptyList)
      (setLoc "out_samples" (.list []) (setLoc "in_samples_2" (encSig s2) (setLoc "in_samples_1" (encSig s1) env0))) =
      .ok (setLoc "ans" (.list []) (setLoc "out_samples" (.list [])
        (setLoc "in_samples_2" (encSig s2) (setLoc "in_samples_1" (encSig s1) env0))), none) :=
    exec_setLoc call fuel (by simp [evalE])
  rw [exec_seq_ok call fuel e1, exec_seq_ok call fuel e2, exec_seq_ok call fuel e3, exec_seq_ok call fuel e4]
  generalize henv4 : setLoc "ans" (.list []) (setLoc "out_samples" (.list [])
        (setLoc "in_samples_2" (encSig s2) (setLoc "in_samples_1" (encSig s1) env0))) = env4
  have q1 : getLoc "in_samples_1" env4 = .ok (encSig s1) := by subst henv4; simp
  have q2 : getLoc "in_samples_2" env4 = .ok (encSig s2) := by subst henv4; simp
  have q3 : getLoc "method" env4 = .ok (.fn m) := by subst henv4; simp [k3]
  have q4 : getLoc "out_samples" env4 = .ok (.list []) := by subst henv4; simp
  have q5 : getLoc "ans" env4 = .ok (.list []) := by subst henv4; simp
  have q6 : resolve env4 "len" = "len" := by subst henv4; simp [r2]
  have hc : evalE call env4 (.or_ (.bin .eq (.call1 "len" (.loc "in_samples_1")) (.int 0))
      (.bin .eq (.call1 "len" (.loc "in_samples_2")) (.int 0))) = .ok (.bool (s1.isEmpty || s2.isEmpty)) := by
    have hnz : ∀ n : Nat, ¬ ((n : Int) + 1 = 0) := by intro n; omega
    cases s1 <;> cases s2 <;>
      simp [evalE, q1, q2, q6, encSig, hlen, evalBin, isCmp, cmpDV, cmpInt, truthy, Except.map, hnz]
  unfold inter
  by_cases hemp : (s1.isEmpty || s2.isEmpty) = true
  · have he : exec call fuel sEarly env4 = .ok (env4, some (.list [.list [], .list [], encSig s1, encSig s2])) := by
      unfold sEarly
      rw [exec_ite_bool call fuel hc]
      simp [hemp, exec, evalE, q1, q2, q4, q5]
    rw [exec_seq_ret call fuel he]
    simp only [hemp, if_true]
    exact ⟨.list [], encSig s1, encSig s2, by simp [encSigP]⟩
  · have he : exec call fuel sEarly env4 = .ok (env4, none) := by
      unfold sEarly
      rw [exec_ite_bool call fuel hc]
      simp [hemp, exec]
    rw [exec_seq_ok call fuel he]
    simp only [hemp]
    have h1 : s1 ≠ [] := by intro h; subst h; simp at hemp
    have h2 : s2 ≠ [] := by intro h; subst h; simp at hemp
    have hrest := rest_spec call fuel encP f ne m hcall hpay hne hlist hlen env4 s1 s2 h1 h2 hfuel q1 q2 q4 q3
    cases hr : interLoop f ne (extendInf s1) (extendInf s2) [] with
    | error e =>
        rw [hr] at hrest
        simp [hrest]
    | ok o =>
        rw [hr] at hrest
        obtain ⟨env', b, c, d, hex⟩ := hrest
        exact ⟨b, c, d, by simp [hex]⟩

end run

end fn

/-! ### the methods handed to `intersection` -/

section methods
variable (fuel k : Nat) (a b : α)

theorem gen_disjunction :
    callAt Gen.Dense.fns fuel (k + 1) "disjunction" [.val a, .val b] = .ok (.val (pmax a b) : DV α) := by
  rw [callAt_fn _ _ _ _ Gen.Dense.fn_disjunction _ rfl]
  simp [runFn, Gen.Dense.fn_disjunction, exec, evalE, getLoc, resolve, List.lookup,
    callAt_builtin Gen.Dense.fns fuel k "max" _ rfl, builtin, toVal]

theorem gen_conjunction' :
    callAt Gen.Dense.fns fuel (k + 1) "conjunction" [.val a, .val b] = .ok (.val (pmin a b) : DV α) := by
  rw [callAt_fn _ _ _ _ Gen.Dense.fn_conjunction _ rfl]
  simp [runFn, Gen.Dense.fn_conjunction, exec, evalE, getLoc, resolve, List.lookup,
    callAt_builtin Gen.Dense.fns fuel k "min" _ rfl, builtin, toVal]

theorem gen_implication :
    callAt Gen.Dense.fns fuel (k + 1) "implication" [.val a, .val b] = .ok (.val (pmax (Val.neg a) b) : DV α) := by
  rw [callAt_fn _ _ _ _ Gen.Dense.fn_implication _ rfl]
  simp [runFn, Gen.Dense.fn_implication, exec, evalE, evalNeg, getLoc, resolve, List.lookup,
    callAt_builtin Gen.Dense.fns fuel k "max" _ rfl, builtin, toVal]

theorem gen_xor :
    callAt Gen.Dense.fns fuel (k + 1) "xor" [.val a, .val b] = .ok (.val (Val.abs (Val.sub a b)) : DV α) := by
  rw [callAt_fn _ _ _ _ Gen.Dense.fn_xor _ rfl]
  simp [runFn, Gen.Dense.fn_xor, exec, evalE, evalBin, isCmp, arith, isTimeLike, isValLike, getLoc, resolve, List.lookup,
    callAt_builtin Gen.Dense.fns fuel k "abs" _ rfl, builtin, toVal]

theorem gen_iff :
    callAt Gen.Dense.fns fuel (k + 1) "iff" [.val a, .val b] = .ok (.val (Val.neg (Val.abs (Val.sub a b))) : DV α) := by
  rw [callAt_fn _ _ _ _ Gen.Dense.fn_iff _ rfl]
  simp [runFn, Gen.Dense.fn_iff, exec, evalE, evalNeg, evalBin, isCmp, arith, isTimeLike, isValLike, getLoc, resolve,
    List.lookup, callAt_builtin Gen.Dense.fns fuel k "abs" _ rfl, builtin, toVal]

theorem gen_addition :
    callAt Gen.Dense.fns fuel (k + 1) "addition" [.val a, .val b] = .ok (.val (Val.add a b) : DV α) := by
  rw [callAt_fn _ _ _ _ Gen.Dense.fn_addition _ rfl]
  simp [runFn, Gen.Dense.fn_addition, exec, evalE, evalBin, isCmp, arith, isTimeLike, isValLike, getLoc, List.lookup, toVal]

theorem gen_subtraction :
    callAt Gen.Dense.fns fuel (k + 1) "subtraction" [.val a, .val b] = .ok (.val (Val.sub a b) : DV α) := by
  rw [callAt_fn _ _ _ _ Gen.Dense.fn_subtraction _ rfl]
  simp [runFn, Gen.Dense.fn_subtraction, exec, evalE, evalBin, isCmp, arith, isTimeLike, isValLike, getLoc, List.lookup,
    toVal]

theorem gen_multiplication :
    callAt Gen.Dense.fns fuel (k + 1) "multiplication" [.val a, .val b] = .ok (.val (Val.mul a b) : DV α) := by
  rw [callAt_fn _ _ _ _ Gen.Dense.fn_multiplication _ rfl]
  simp [runFn, Gen.Dense.fn_multiplication, exec, evalE, evalBin, isCmp, arith, isTimeLike, isValLike, getLoc,
    List.lookup, toVal]

theorem gen_division :
    callAt Gen.Dense.fns fuel (k + 1) "division" [.val a, .val b] = .ok (.val (Val.div a b) : DV α) := by
  rw [callAt_fn _ _ _ _ Gen.Dense.fn_division _ rfl]
  simp [runFn, Gen.Dense.fn_division, exec, evalE, evalBin, isCmp, arith, isTimeLike, isValLike, getLoc, resolve,
    List.lookup, callAt_builtin Gen.Dense.fns fuel k "float" _ rfl, builtin, toVal]

theorem gen_power :
    callAt Gen.Dense.fns fuel (k + 1) "power" [.val a, .val b] = .ok (.val (Val.pow a b) : DV α) := by
  rw [callAt_fn _ _ _ _ Gen.Dense.fn_power _ rfl]
  simp [runFn, Gen.Dense.fn_power, exec, evalE, getLoc, resolve, List.lookup,
    callAt_builtin Gen.Dense.fns fuel k "math.pow" _ rfl, builtin, toVal]

theorem gen_log :
    callAt Gen.Dense.fns fuel (k + 1) "log" [.val a, .val b] = .ok (.val (Val.log a b) : DV α) := by
  rw [callAt_fn _ _ _ _ Gen.Dense.fn_log _ rfl]
  simp [runFn, Gen.Dense.fn_log, exec, evalE, getLoc, resolve, List.lookup,
    callAt_builtin Gen.Dense.fns fuel k "math.log" _ rfl, builtin, toVal]

theorem gen_split :
    callAt Gen.Dense.fns fuel (k + 1) "split" [.val a, .val b] = .ok (encPair (a, b) : DV α) := by
  rw [callAt_fn _ _ _ _ Gen.Dense.fn_split _ rfl]
  simp [runFn, Gen.Dense.fn_split, exec, evalE, getLoc, List.lookup, mkList2, encPair]

end methods

/-- the name of the method the visitors hand to `intersection` for a point-wise binary operator -/
def binMethodName : Bin → Option String
  | .add => some "addition"
  | .sub => some "subtraction"
  | .mul => some "multiplication"
  | .div => some "division"
  | .pow => some "power"
  | .log => some "log"
  | .and => some "conjunction"
  | .or => some "disjunction"
  | .implies => some "implication"
  | .iff => some "iff"
  | .xor => some "xor"
  | _ => none

theorem gen_binMethod (fuel k : Nat) (op : Bin) (name : String) (h : binMethodName op = some name) (a b : α) :
    callAt Gen.Dense.fns fuel (k + 1) name [.val a, .val b] = .ok (.val (binMethod op a b) : DV α) := by
  cases op <;> simp [binMethodName] at h <;> subst h
  · exact gen_addition fuel k a b
  · exact gen_subtraction fuel k a b
  · exact gen_multiplication fuel k a b
  · exact gen_division fuel k a b
  · exact gen_power fuel k a b
  · exact gen_log fuel k a b
  · exact gen_conjunction' fuel k a b
  · exact gen_disjunction fuel k a b
  · exact gen_implication fuel k a b
  · exact gen_iff fuel k a b
  · exact gen_xor fuel k a b

/-! ### `intersection` -/

theorem gen_intersection (fuel k : Nat) : InterSpec α fuel k := by
  intro β encP f ne m hcall hpay hne s1 s2 hfuel
  rw [callAt_fn _ _ _ _ Gen.Dense.fn_intersection _ rfl]
  exact run_intersection (callAt Gen.Dense.fns fuel (k + 1)) fuel encP f ne m hcall hpay hne
    (fun l => by rw [callAt_builtin Gen.Dense.fns fuel (k + 1) "list" _ rfl]; simp [builtin])
    (fun l => by rw [callAt_builtin Gen.Dense.fns fuel (k + 1) "len" _ rfl]; simp [builtin])
    s1 s2 (by omega)

theorem toPayload_val (x : α) : toPayload (DV.val x : DV α) = .ok (.val x) := rfl

theorem cmpDV_ne_val (x y : α) : cmpDV .ne (DV.val x : DV α) (.val y) = .ok (vne x y) := by
  simp [cmpDV, isTimeLike, isValLike, toVal, cmpVal]

theorem toPayload_encPair (x : α × α) : toPayload (encPair x : DV α) = .ok (encPair x) := rfl

theorem cmpDV_ne_encPair (x y : α × α) : cmpDV .ne (encPair x : DV α) (encPair y) = .ok (pairNe x y) := by
  simp [cmpDV, encPair, pairNe]

/-- `intersection(l, r, m)` for a method `m` on values (`conjunction`, `subtraction`, …): `_append` compares with `!=`. -/
theorem gen_inter_val (fuel k : Nat) (m : String) (f : α → α → α)
    (hm : ∀ a b, callAt Gen.Dense.fns fuel (k + 1) m [.val a, .val b] = .ok (.val (f a b) : DV α))
    (l r : ASig α) (h : l.length + r.length + 4 ≤ fuel) :
    match inter f vne l r with
    | .ok o => ∃ a b c, callAt Gen.Dense.fns fuel (k + 2) "intersection" [encSig l, encSig r, .fn m]
        = .ok (.list [encSig o, a, b, c])
    | .error e => callAt Gen.Dense.fns fuel (k + 2) "intersection" [encSig l, encSig r, .fn m] = .error e :=
  gen_intersection fuel k α (fun x => DV.val x) f vne m hm toPayload_val cmpDV_ne_val l r h

theorem gen_inter_split (fuel k : Nat) (l r : ASig α) (h : l.length + r.length + 4 ≤ fuel) :
    match inter (fun a b => (a, b)) pairNe l r with
    | .ok o => ∃ a b c, callAt Gen.Dense.fns fuel (k + 2) "intersection" [encSig l, encSig r, .fn "split"]
        = .ok (.list [encSigP encPair o, a, b, c])
    | .error e => callAt Gen.Dense.fns fuel (k + 2) "intersection" [encSig l, encSig r, .fn "split"] = .error e := by
  have h' := gen_intersection fuel k (α × α) encPair (fun a b => (a, b)) pairNe "split" (gen_split fuel k)
    toPayload_encPair cmpDV_ne_encPair l r h
  generalize inter (fun a b => (a, b)) pairNe l r = x at h' ⊢
  cases x <;> exact h'

/-- a function `def g(sample_left, sample_right): sample_return, _, _, _ = intersection(…, m); return sample_return` -/
theorem run_inter_wrapper (fuel k : Nat) (m : String) (f : α → α → α) (g : Fn) (x3 x4 x2 : String)
    (n2 : "sample_return" ≠ x2) (n3 : "sample_return" ≠ x3) (n4 : "sample_return" ≠ x4)
    (hg : g.params = ["sample_left", "sample_right"])
    (hb : g.body = .seq (.unpack ["sample_return", x2, x3, x4]
      (.call3 "intersection" (.loc "sample_left") (.loc "sample_right") (.fnRef m))) (.ret (.loc "sample_return")))
    (hm : ∀ a b, callAt Gen.Dense.fns fuel (k + 1) m [.val a, .val b] = .ok (.val (f a b) : DV α))
    (l r : ASig α) (h : l.length + r.length + 4 ≤ fuel) :
    runFn (callAt Gen.Dense.fns fuel (k + 2)) fuel g [encSig l, encSig r] = (inter f vne l r).map encSig := by
  have hi := gen_inter_val fuel k m f hm l r h
  unfold runFn
  rw [hg, hb]
  cases hr : inter f vne l r with
  | error e =>
      rw [hr] at hi
      simp [exec, evalE, resolve, List.lookup, hi, Except.map]
  | ok o =>
      rw [hr] at hi
      obtain ⟨a, b, c, hi⟩ := hi
      simp [exec, evalE, resolve, List.lookup, hi, Except.map, List.zip, List.foldl, n2, n3, n4]

theorem gen_and_operation (fuel k : Nat) (l r : ASig α) (h : l.length + r.length + 4 ≤ fuel) :
    callAt Gen.Dense.fns fuel (k + 3) "and_operation" [encSig l, encSig r] = (andOp l r).map encSig := by
  rw [callAt_fn _ _ _ _ Gen.Dense.fn_and_operation _ rfl]
  exact run_inter_wrapper fuel k "conjunction" (fun a b => pmin a b) Gen.Dense.fn_and_operation "a" "b" "last"
    (by decide) (by decide) (by decide) rfl rfl
    (gen_conjunction' fuel k) l r h

theorem gen_subtraction_operation (fuel k : Nat) (l r : ASig α) (h : l.length + r.length + 4 ≤ fuel) :
    callAt Gen.Dense.fns fuel (k + 3) "subtraction_operation" [encSig l, encSig r] =
      (inter (fun a b => Val.sub a b) vne l r).map encSig := by
  rw [callAt_fn _ _ _ _ Gen.Dense.fn_subtraction_operation _ rfl]
  exact run_inter_wrapper fuel k "subtraction" (fun a b => Val.sub a b) Gen.Dense.fn_subtraction_operation "left" "right"
    "last" (by decide) (by decide) (by decide) rfl rfl (gen_subtraction fuel k) l r h

/-! ### the same statements without `match` (easier to use from other files) -/

theorem gen_intersection_ok (fuel k : Nat) {β : Type} (encP : β → DV α) (f : α → α → β) (ne : β → β → Bool) (m : String)
    (hm : ∀ a b, callAt Gen.Dense.fns fuel (k + 1) m [.val a, .val b] = .ok (encP (f a b)))
    (hpay : ∀ x, toPayload (encP x) = .ok (encP x)) (hne : ∀ x y, cmpDV .ne (encP x) (encP y) = .ok (ne x y))
    (s1 s2 : ASig α) (h : s1.length + s2.length + 4 ≤ fuel) (o : ASig β) (ho : inter f ne s1 s2 = .ok o) :
    ∃ a b c, callAt Gen.Dense.fns fuel (k + 2) "intersection" [encSig s1, encSig s2, .fn m]
      = .ok (.list [encSigP encP o, a, b, c]) := by
  have h' := gen_intersection fuel k β encP f ne m hm hpay hne s1 s2 h
  rw [ho] at h'
  exact h'

theorem gen_intersection_error (fuel k : Nat) {β : Type} (encP : β → DV α) (f : α → α → β) (ne : β → β → Bool)
    (m : String) (hm : ∀ a b, callAt Gen.Dense.fns fuel (k + 1) m [.val a, .val b] = .ok (encP (f a b)))
    (hpay : ∀ x, toPayload (encP x) = .ok (encP x)) (hne : ∀ x y, cmpDV .ne (encP x) (encP y) = .ok (ne x y))
    (s1 s2 : ASig α) (h : s1.length + s2.length + 4 ≤ fuel) (e : PyErr) (ho : inter f ne s1 s2 = .error e) :
    callAt Gen.Dense.fns fuel (k + 2) "intersection" [encSig s1, encSig s2, .fn m] = .error e := by
  have h' := gen_intersection fuel k β encP f ne m hm hpay hne s1 s2 h
  rw [ho] at h'
  exact h'

theorem gen_inter_split_ok (fuel k : Nat) (l r : ASig α) (h : l.length + r.length + 4 ≤ fuel) (io : List (Tm × (α × α)))
    (ho : inter (fun a b => (a, b)) pairNe l r = .ok io) :
    ∃ a b c, callAt Gen.Dense.fns fuel (k + 2) "intersection" [encSig l, encSig r, .fn "split"]
      = .ok (.list [encSigP encPair io, a, b, c]) :=
  gen_intersection_ok fuel k encPair (fun a b => (a, b)) pairNe "split" (gen_split fuel k)
    toPayload_encPair cmpDV_ne_encPair l r h io ho

theorem gen_inter_split_error (fuel k : Nat) (l r : ASig α) (h : l.length + r.length + 4 ≤ fuel) (e : PyErr)
    (ho : inter (fun a b => (a, b)) pairNe l r = .error e) :
    callAt Gen.Dense.fns fuel (k + 2) "intersection" [encSig l, encSig r, .fn "split"] = .error e :=
  gen_intersection_error fuel k encPair (fun a b => (a, b)) pairNe "split" (gen_split fuel k)
    toPayload_encPair cmpDV_ne_encPair l r h e ho

end Rtamt.Py.Dn
