/-
  The discrete-time offline visitor as translated from the Python source denotes the hand-written
  mirror `evalOff`.

  `Rtamt/Py/GeneratedOff.lean` is produced on every run by `harness/py2lean.py` from
  `rtamt/semantics/stl/discrete_time/offline/ast_visitor.py`; `Rtamt/Py/Sem.lean` gives the Python
  subset its meaning; `Rtamt/Py/RunOff.lean` (`evalOffG`) adds the dispatch of `StlAstVisitor.visit`.
  `genOff_eval` states that this is the function `evalOff h` (with `h` the regenerated table of
  overridden `visitX`) that C01, C11, C12, C16, C17 and C18 are stated on: a change of a visit method
  changes the generated term and this equality has to be re-proved by the build.

  Hypotheses: `φ.wf` (`a ≤ b` in every interval, enforced by the parser), standard semantics (no
  interface-aware predicate forms, which belong to another visitor class), no `precedes` node (it is
  produced by the pastifier only and the offline visitor just raises on it).
-/
import Rtamt.Py.RunOff
import Rtamt.Generated
import RtamtProofs.GenOffMethods

namespace Rtamt.Py
open Rtamt Val

variable {α : Type} [Val α]

/-- Formulas of the standard semantics: no `predSat` / `predZero` node. -/
def plain : F α → Bool
  | .var _ => true
  | .const _ => true
  | .un _ φ => plain φ
  | .bin op φ ψ => (match op with | .predSat _ | .predZero => false | _ => true) && plain φ && plain ψ
  | .tmp1 _ φ => plain φ
  | .tmp2 _ φ ψ => plain φ && plain ψ
  | .tb1 _ _ _ φ => plain φ
  | .tb2 _ _ _ φ ψ => plain φ && plain ψ

/-- No `precedes` node. -/
def noPrec : F α → Bool
  | .var _ => true
  | .const _ => true
  | .un _ φ => noPrec φ
  | .bin _ φ ψ => noPrec φ && noPrec ψ
  | .tmp1 _ φ => noPrec φ
  | .tmp2 _ φ ψ => noPrec φ && noPrec ψ
  | .tb1 _ _ _ φ => noPrec φ
  | .tb2 op _ _ φ ψ => (match op with | .precedes => false | _ => true) && noPrec φ && noPrec ψ

/-- The methods found in the source are exactly the node classes for which the regenerated table says
    that the visitor overrides `visitX` (with a computing body or with a body that only raises). -/
theorem genOff_table (k : Kind) :
    (lookupM k).isSome = (Generated.offlineDiscrete.handles k || Generated.offlineDiscrete.raises k) := by
  cases k <;> rfl

/-- Every translated method lies inside the translated subset, except the attribute access of object-typed
    variables in `visitVariable` (the branch `if node.field:`, not modelled). -/
theorem genOff_names : Gen.Off.methods.map (·.1) =
    ["visitPredicate", "visitVariable", "visitAbs", "visitSqrt", "visitExp", "visitPow", "visitLog", "visitLn",
     "visitNegate", "visitAddition", "visitSubtraction", "visitMultiplication", "visitDivision", "visitNot",
     "visitAnd", "visitOr", "visitImplies", "visitIff", "visitXor", "visitEventually", "visitAlways", "visitUntil",
     "visitOnce", "visitHistorically", "visitSince", "visitRise", "visitFall", "visitConstant", "visitPrevious",
     "visitStrongPrevious", "visitNext", "visitStrongNext", "visitTimedPrecedes", "visitTimedOnce",
     "visitTimedHistorically", "visitTimedSince", "visitTimedAlways", "visitTimedEventually", "visitTimedUntil"] := by
  rfl

theorem handles_un (op : Un) : Generated.offlineDiscrete.handles op.kind = true := by cases op <;> rfl
theorem handles_bin (op : Bin) : Generated.offlineDiscrete.handles op.kind = true := by cases op <;> rfl
theorem handles_t1 (op : T1) : Generated.offlineDiscrete.handles op.kind = true := by cases op <;> rfl
theorem handles_t2 (op : T2) : Generated.offlineDiscrete.handles op.kind = true := by cases op <;> rfl
theorem handles_tb1 (op : TB1) : Generated.offlineDiscrete.handles op.kind = true := by cases op <;> rfl

/-- The translated offline visitor computes what the mirror computes — values and exceptions. -/
theorem genOff_eval (w : Rtamt.Env α) (n : Nat) (φ : F α)
    (hwf : φ.wf = true) (hpl : plain φ = true) (hnp : noPrec φ = true) :
    evalOffG w n φ = evalOff Generated.offlineDiscrete.handles w n φ := by
  induction φ with
  | var x =>
    have h : lookupM .Variable = some Gen.Off.visitVariable := rfl
    have h' : Generated.offlineDiscrete.handles .Variable = true := rfl
    simp only [evalOffG, evalOff, h, h', if_true]
    cases w.get x with
    | error e => rfl
    | ok l => exact visitVariable_eq l
  | const c =>
    have h : lookupM .Constant = some Gen.Off.visitConstant := rfl
    have h' : Generated.offlineDiscrete.handles .Constant = true := rfl
    simp only [evalOffG, evalOff, h, h', if_true]
    exact visitConstant_eq c n
  | un op φ ih =>
    simp only [F.wf, plain, noPrec] at hwf hpl hnp
    simp only [evalOffG, evalOff, ih hwf hpl hnp, handles_un, if_true]
    cases evalOff Generated.offlineDiscrete.handles w n φ with
    | error e => rfl
    | ok s =>
      obtain ⟨m, hm, hcall⟩ := visitUn_eq op s
      simp only [ok_bind, hm, hcall]; rfl
  | bin op φ ψ ihφ ihψ =>
    simp only [F.wf, plain, noPrec, Bool.and_eq_true] at hwf hpl hnp
    simp only [evalOffG, evalOff, ihφ hwf.1 hpl.1.2 hnp.1, ihψ hwf.2 hpl.2 hnp.2, handles_bin, if_true]
    cases evalOff Generated.offlineDiscrete.handles w n φ with
    | error e => rfl
    | ok l =>
      cases evalOff Generated.offlineDiscrete.handles w n ψ with
      | error e => rfl
      | ok r =>
        simp only [ok_bind]
        cases op with
        | add => exact visitAddition_eq l r
        | sub => exact visitSubtraction_eq l r
        | mul => exact visitMultiplication_eq l r
        | div => exact visitDivision_eq l r
        | pow => exact visitPow_eq l r
        | log => exact visitLog_eq l r
        | pred c => exact visitPredicate_eq c l r
        | and => exact visitAnd_eq l r
        | or => exact visitOr_eq l r
        | implies => exact visitImplies_eq l r
        | iff => exact visitIff_eq l r
        | xor => exact visitXor_eq l r
        | predSat c => simp at hpl
        | predZero => simp at hpl
  | tmp1 op φ ih =>
    simp only [F.wf, plain, noPrec] at hwf hpl hnp
    simp only [evalOffG, evalOff, ih hwf hpl hnp, handles_t1, if_true]
    cases evalOff Generated.offlineDiscrete.handles w n φ with
    | error e => rfl
    | ok s =>
      simp only [ok_bind]
      cases op with
      | rise => exact visitRise_eq s
      | fall => exact visitFall_eq s
      | prev => exact visitPrevious_eq s
      | sprev => exact visitStrongPrevious_eq s
      | next => exact visitNext_eq s
      | snext => exact visitStrongNext_eq s
      | once => exact visitOnce_eq s
      | hist => exact visitHistorically_eq s
      | ev => exact visitEventually_eq s
      | alw => exact visitAlways_eq s
  | tmp2 op φ ψ ihφ ihψ =>
    simp only [F.wf, plain, noPrec, Bool.and_eq_true] at hwf hpl hnp
    simp only [evalOffG, evalOff, ihφ hwf.1 hpl.1 hnp.1, ihψ hwf.2 hpl.2 hnp.2, handles_t2, if_true]
    cases evalOff Generated.offlineDiscrete.handles w n φ with
    | error e => rfl
    | ok l =>
      cases evalOff Generated.offlineDiscrete.handles w n ψ with
      | error e => rfl
      | ok r =>
        simp only [ok_bind]
        cases op
        · exact (visitSince_eq l r).trans (by split <;> rfl)
        · exact (visitUntil_eq l r).trans (by split <;> rfl)
  | tb1 op a b φ ih =>
    simp only [F.wf, plain, noPrec, Bool.and_eq_true, decide_eq_true_eq] at hwf hpl hnp
    simp only [evalOffG, evalOff, ih hwf.2 hpl hnp, handles_tb1, if_true, hwf.1]
    cases evalOff Generated.offlineDiscrete.handles w n φ with
    | error e => rfl
    | ok s =>
      simp only [ok_bind]
      cases op with
      | once => exact visitTimedOnce_eq a b hwf.1 s
      | hist => exact visitTimedHistorically_eq a b hwf.1 s
      | ev => exact visitTimedEventually_eq a b hwf.1 s
      | alw => exact visitTimedAlways_eq a b hwf.1 s
  | tb2 op a b φ ψ ihφ ihψ =>
    simp only [F.wf, plain, noPrec, Bool.and_eq_true, decide_eq_true_eq] at hwf hpl hnp
    simp only [evalOffG, evalOff, ihφ hwf.1.2 hpl.1 hnp.1.2, ihψ hwf.2 hpl.2 hnp.2]
    cases evalOff Generated.offlineDiscrete.handles w n φ with
    | error e => rfl
    | ok l =>
      cases evalOff Generated.offlineDiscrete.handles w n ψ with
      | error e => rfl
      | ok r =>
        simp only [ok_bind]
        cases op
        · refine (visitTimedSince_eq a b hwf.1.1 l r).trans ?_
          simp [Generated.offlineDiscrete.handles, TB2.kind, hwf.1.1]
        · refine (visitTimedUntil_eq a b hwf.1.1 l r).trans ?_
          simp [Generated.offlineDiscrete.handles, TB2.kind, hwf.1.1]
        · simp at hnp

/-- Nothing in the translated visit methods is outside the translated subset, except the attribute access of
    object-typed variables in `visitVariable` (`operator.attrgetter(node.field)(v)`, only reached for variables of a
    user-defined type, which the correspondence streams with `Msg`-typed variables exercise). -/
theorem genOff_supported :
    (Gen.Off.methods.filter (fun p => !(p.2.body.supported && (match p.2.ret with | some e => e.supported | none => true)))).map (·.1)
      = ["visitVariable"] := by
  decide

end Rtamt.Py
