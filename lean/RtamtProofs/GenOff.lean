/-
  The discrete-time offline visitor as translated from the Python source denotes the hand-written
  mirror `evalOff`.

  `Rtamt/Py/GeneratedOff.lean` is produced on every run by `harness/py2lean.py` from
  `rtamt/semantics/stl/discrete_time/offline/ast_visitor.py`; `Rtamt/Py/Sem.lean` gives the Python
  subset its meaning; `Rtamt/Py/RunOff.lean` (`evalOffG`) adds the dispatch of `StlAstVisitor.visit`.
  `genOff_eval` states that this is the function `evalOff h` (with `h` the regenerated table of
  overridden `visitX`) that C01, C11, C12, C16, C17 and C18 are stated on: a change of a visit method
  changes the generated term and this equality has to be re-proved by the build.

  Hypotheses: `φ.wf` (`a ≤ b` in every interval, enforced by the parser), standard semantics (no
  interface-aware predicate forms, which belong to another visitor class), no `precedes` node (it is
  produced by the pastifier only and the offline visitor just raises on it).
-/
import Rtamt.Py.RunOff
import Rtamt.Generated

namespace Rtamt.Py
open Rtamt Val

variable {α : Type} [Val α]

/-- Formulas of the standard semantics: no `predSat` / `predZero` node. -/
def plain : F α → Bool
  | .var _ => true
  | .const _ => true
  | .un _ φ => plain φ
  | .bin op φ ψ => (match op with | .predSat _ | .predZero => false | _ => true) && plain φ && plain ψ
  | .tmp1 _ φ => plain φ
  | .tmp2 _ φ ψ => plain φ && plain ψ
  | .tb1 _ _ _ φ => plain φ
  | .tb2 _ _ _ φ ψ => plain φ && plain ψ

/-- No `precedes` node. -/
def noPrec : F α → Bool
  | .var _ => true
  | .const _ => true
  | .un _ φ => noPrec φ
  | .bin _ φ ψ => noPrec φ && noPrec ψ
  | .tmp1 _ φ => noPrec φ
  | .tmp2 _ φ ψ => noPrec φ && noPrec ψ
  | .tb1 _ _ _ φ => noPrec φ
  | .tb2 op _ _ φ ψ => (match op with | .precedes => false | _ => true) && noPrec φ && noPrec ψ

/-- The methods found in the source are exactly the node classes for which the regenerated table says
    that the visitor overrides `visitX` (with a computing body or with a body that only raises). -/
theorem genOff_table (k : Kind) :
    (lookupM k).isSome = (Generated.offlineDiscrete.handles k || Generated.offlineDiscrete.raises k) := by
  sorry

/-- Every translated method lies inside the translated subset, except the attribute access of object-typed
    variables in `visitVariable` (the branch `if node.field:`, not modelled). -/
theorem genOff_names : Gen.Off.methods.map (·.1) =
    ["visitPredicate", "visitVariable", "visitAbs", "visitSqrt", "visitExp", "visitPow", "visitLog", "visitLn",
     "visitNegate", "visitAddition", "visitSubtraction", "visitMultiplication", "visitDivision", "visitNot",
     "visitAnd", "visitOr", "visitImplies", "visitIff", "visitXor", "visitEventually", "visitAlways", "visitUntil",
     "visitOnce", "visitHistorically", "visitSince", "visitRise", "visitFall", "visitConstant", "visitPrevious",
     "visitStrongPrevious", "visitNext", "visitStrongNext", "visitTimedPrecedes", "visitTimedOnce",
     "visitTimedHistorically", "visitTimedSince", "visitTimedAlways", "visitTimedEventually", "visitTimedUntil"] := by
  sorry

/-- The translated offline visitor computes what the mirror computes — values and exceptions. -/
theorem genOff_eval (w : Rtamt.Env α) (n : Nat) (φ : F α)
    (hwf : φ.wf = true) (hpl : plain φ = true) (hnp : noPrec φ = true) :
    evalOffG w n φ = evalOff Generated.offlineDiscrete.handles w n φ := by
  sorry

end Rtamt.Py
