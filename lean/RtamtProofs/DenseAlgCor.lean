/-
  Corollaries of M-alg = M-spec for dense time (`evalAlg_denotes_partial`): statements that were proved about the
  semantics `rhoD` hold for the lists the mirror of the dense offline visitor (`Dense.Alg.evalAlg`) returns.

  * C16 (dense): a value that is settled (`t + hor φ` inside the part on which two sets of signals agree) is the same in the
    result computed from either set — extending the signals does not change it;
  * C18 (dense): the duality / expansion laws hold between the lists computed for the two sides.
-/
import RtamtProofs.C05
import RtamtProofs.C18Dense
import RtamtProofs.Dense.AlgMain

namespace Rtamt.Dense.Alg
open Rtamt Val Dense

variable {α : Type} [Val α] [LawfulVal α]

namespace CorAux

omit [Val α] [LawfulVal α] in
theorem wf_left {w : DEnv α} {xs ys : List String} (h : w.WF (xs ++ ys)) : w.WF xs :=
  fun x hx => h x (List.mem_append_left _ hx)

omit [Val α] [LawfulVal α] in
theorem wf_right {w : DEnv α} {xs ys : List String} (h : w.WF (xs ++ ys)) : w.WF ys :=
  fun x hx => h x (List.mem_append_right _ hx)

omit [Val α] [LawfulVal α] in
theorem wf_append {w : DEnv α} {xs ys : List String} (h1 : w.WF xs) (h2 : w.WF ys) : w.WF (xs ++ ys) :=
  fun x hx => (List.mem_append.1 hx).elim (h1 x) (h2 x)

omit [Val α] [LawfulVal α] in
theorem s0_left {w : DEnv α} {xs ys : List String} (h : StartsAt0 w (xs ++ ys)) : StartsAt0 w xs :=
  fun x hx => h x (List.mem_append_left _ hx)

omit [Val α] [LawfulVal α] in
theorem s0_right {w : DEnv α} {xs ys : List String} (h : StartsAt0 w (xs ++ ys)) : StartsAt0 w ys :=
  fun x hx => h x (List.mem_append_right _ hx)

omit [Val α] [LawfulVal α] in
theorem s0_append {w : DEnv α} {xs ys : List String} (h1 : StartsAt0 w xs) (h2 : StartsAt0 w ys) :
    StartsAt0 w (xs ++ ys) :=
  fun x hx => (List.mem_append.1 hx).elim (h1 x) (h2 x)

end CorAux

/-- C16 on the algorithm: settled values do not depend on what the signals do later. -/
theorem C16_alg_settled (cfg : DCfg) (hs : 0 ≤ cfg.scale) (w w' : DEnv α) (φ : F α)
    (hsup : supported φ = true) (hia : noIA φ = true) (hb : φ.bounded = true)
    (hw : w.WF φ.vars) (hw' : w'.WF φ.vars) (h0 : StartsAt0 w φ.vars) (h0' : StartsAt0 w' φ.vars)
    (hsub : ∀ a b : α, Val.neg (Val.sub a b) = Val.sub b a)
    (t : Rat) (ht : 0 ≤ t) (h : AgreeUpTo w w' φ.vars (t + (hor φ : Rat) * cfg.scale))
    {s s' : ASig α} (he : evalAlg cfg w φ = .ok s) (he' : evalAlg cfg w' φ = .ok s') :
    valAtA s t = valAtA s' t := by
  rw [(evalAlg_denotes_partial cfg hs w φ hsup hia hw h0 hsub he).2 t ht,
    (evalAlg_denotes_partial cfg hs w' φ hsup hia hw' h0' hsub he').2 t ht]
  exact C16_dense_settled cfg hs w w' φ hsup hb hw hw' t h

/-- Two formulas that denote the same dense robustness signal are evaluated to lists that denote the same step function. -/
theorem equivD_alg (φ ψ : F α) (heq : EquivD φ ψ) (cfg : DCfg) (hs : 0 ≤ cfg.scale) (w : DEnv α)
    (hsφ : supported φ = true) (hsψ : supported ψ = true) (hiφ : noIA φ = true) (hiψ : noIA ψ = true)
    (hw : w.WF (φ.vars ++ ψ.vars)) (h0 : StartsAt0 w (φ.vars ++ ψ.vars))
    (hsub : ∀ a b : α, Val.neg (Val.sub a b) = Val.sub b a)
    {s s' : ASig α} (he : evalAlg cfg w φ = .ok s) (he' : evalAlg cfg w ψ = .ok s') (t : Rat) (ht : 0 ≤ t) :
    valAtA s t = valAtA s' t := by
  rw [(evalAlg_denotes_partial cfg hs w φ hsφ hiφ (CorAux.wf_left hw) (CorAux.s0_left h0) hsub he).2 t ht,
    (evalAlg_denotes_partial cfg hs w ψ hsψ hiψ (CorAux.wf_right hw) (CorAux.s0_right h0) hsub he').2 t ht]
  exact heq cfg w t hs hw

/-- C18 on the algorithm, bounded duality: the list computed for `not once[a,b] p` and the one computed for
    `historically[a,b] not p` are the same step function. -/
theorem C18_alg_not_once_bounded (a b : Nat) (hab : a ≤ b) (p : F α) (cfg : DCfg) (hs : 0 ≤ cfg.scale) (w : DEnv α)
    (hsp : supported p = true) (hip : noIA p = true) (hw : w.WF p.vars) (h0 : StartsAt0 w p.vars)
    (hsub : ∀ a b : α, Val.neg (Val.sub a b) = Val.sub b a)
    {s s' : ASig α} (he : evalAlg cfg w (.un .not (.tb1 .once a b p)) = .ok s)
    (he' : evalAlg cfg w (.tb1 .hist a b (.un .not p)) = .ok s') (t : Rat) (ht : 0 ≤ t) :
    valAtA s t = valAtA s' t := by
  have hsup : decide (a ≤ b) = true := decide_eq_true hab
  exact equivD_alg _ _ (C18D_not_once_bounded a b p) cfg hs w
    (by simp [supported, hsup, hsp]) (by simp [supported, hsup, hsp])
    (by simpa [noIA] using hip) (by simpa [noIA] using hip)
    (by simpa [F.vars] using CorAux.wf_append hw hw) (by simpa [F.vars] using CorAux.s0_append h0 h0)
    hsub he he' t ht

/-- … and for `not eventually[a,b] p` / `always[a,b] not p`. -/
theorem C18_alg_not_ev_bounded (a b : Nat) (hab : a ≤ b) (p : F α) (cfg : DCfg) (hs : 0 ≤ cfg.scale) (w : DEnv α)
    (hsp : supported p = true) (hip : noIA p = true) (hw : w.WF p.vars) (h0 : StartsAt0 w p.vars)
    (hsub : ∀ a b : α, Val.neg (Val.sub a b) = Val.sub b a)
    {s s' : ASig α} (he : evalAlg cfg w (.un .not (.tb1 .ev a b p)) = .ok s)
    (he' : evalAlg cfg w (.tb1 .alw a b (.un .not p)) = .ok s') (t : Rat) (ht : 0 ≤ t) :
    valAtA s t = valAtA s' t := by
  have hsup : decide (a ≤ b) = true := decide_eq_true hab
  exact equivD_alg _ _ (C18D_not_ev_bounded a b p) cfg hs w
    (by simp [supported, hsup, hsp]) (by simp [supported, hsup, hsp])
    (by simpa [noIA] using hip) (by simpa [noIA] using hip)
    (by simpa [F.vars] using CorAux.wf_append hw hw) (by simpa [F.vars] using CorAux.s0_append h0 h0)
    hsub he he' t ht

end Rtamt.Dense.Alg
