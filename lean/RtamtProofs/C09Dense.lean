/-
  C09 / C12, dense time, online — modular specifications are equivalent to their inlined form; the value of a named
  sub-formula is the list the stand-alone monitor of that sub-formula returns.

  `Rtamt/Dense/ProgramOn.lean` mirrors the interpreter as the code organises it: one operation object per node *name*
  (`online_operator_dict`), every assertion visited at every `update()`, the operands visited *before* the per-update
  memo (`self.updated`) is looked at, one flag `constants_sent` for the whole monitor.  `Rtamt/Dense/AlgOn.lean` is the
  stand-alone monitor of one assertion: a *tree* of operation states, every occurrence of a sub-formula with a state of
  its own, every constant leaf with a flag of its own.  This file proves that the first returns, for every assertion
  and every operator sub-formula, what the second returns — for every list of assertions (sharing and repeating
  sub-formulas at will), every sequence of batches, in both directions (values and exceptions).

  Proof architecture (that of `RtamtProofs/C09.lean`; helpers in `Rtamt.Dense.C09Dense`):
  * `stepOn_node1/2`: the tree step of an operator node is the step(s) of the operand tree(s) followed by
    `nodeStepOn` on the node's own part of the state (`rootSt`; `build1/2` put a node state on operand trees).
  * `treeOf R sent φ`: the tree read off an assignment `R` of node states to formulas, all constant leaves flagged `sent`.
  * one update (`section Round`): `Inv` — every key is *pending* (not in the memo, state `R0 ψ`) or *done* (the memo
    holds the stand-alone list, the dictionary the root state of the stepped stand-alone tree, all operator
    sub-formulas done).  `visitOK_all`: if the trees of the operator sub-formulas of `φ` step, `visitOnM φ` returns
    the stand-alone list and preserves `Inv`; when everything below `φ` is done it changes nothing (this is what makes
    "operands first, memo second" harmless).  `visitConv_all`: conversely, if `visitOnM φ` raises nothing, those
    trees step.
  * `treeStep_all`: the trees read off the dictionary after the round are the stepped trees, with all constant flags
    set — so the argument iterates (`runSpecs_ok`, `runSpecs_conv`); `initStore_ok` / `initOn_of_store`: construction.
  * `runOn_sub`: the run of a tree contains the runs of the trees of its sub-formulas.
-/
import RtamtProofs.C09
import Rtamt.Dense.ProgramOn

namespace Rtamt.Dense
open Rtamt Val Rtamt.Dense.Alg Rtamt.Dense.AlgOn Rtamt.Dense.ProgramOn
open Rtamt.C09 (lookup_cons_eq lookup_cons_ne opSubs_size opSubs_trans)

variable {α : Type} [Val α] [DecidableEq α]

namespace C09Dense

/-! ### the dictionary -/

omit [Val α] in
theorem lookup_filter_ne (k k' : F α) (st : StoreOn α) (h : k ≠ k') :
    List.lookup k (st.filter (fun p => p.1 ≠ k')) = st.lookup k := by
  induction st with
  | nil => rfl
  | cons p st ih =>
    obtain ⟨a, b⟩ := p
    by_cases ha : a = k'
    · subst ha
      rw [List.filter_cons_of_neg (by simp), ih, lookup_cons_ne _ _ _ _ h]
    · rw [List.filter_cons_of_pos (by simpa using ha)]
      by_cases hk : k = a
      · subst hk; rw [lookup_cons_eq, lookup_cons_eq]
      · rw [lookup_cons_ne _ _ _ _ hk, lookup_cons_ne _ _ _ _ hk, ih]

omit [Val α] in
theorem lookup_set_eq (k : F α) (s : NSt α) (st : StoreOn α) :
    List.lookup k (st.set k s) = some s := lookup_cons_eq _ _ _

omit [Val α] in
theorem lookup_set_ne (k k' : F α) (s : NSt α) (st : StoreOn α) (h : k ≠ k') :
    List.lookup k (st.set k' s) = st.lookup k := by
  unfold StoreOn.set
  rw [lookup_cons_ne _ _ _ _ h, lookup_filter_ne _ _ _ h]

omit [Val α] in
theorem get_ok_of_lookup {st : StoreOn α} {k : F α} {s : NSt α} (h : st.lookup k = some s) :
    st.get k = .ok s := by
  simp [StoreOn.get, h]

/-! ### a tree of operation states, read off an assignment of node states to formulas -/

/-- The node's own part of a state tree. -/
def rootSt : OnSt α → NSt α
  | .leaf => .unit
  | .cst _ => .unit
  | .un _ => .unit
  | .scan p _ => .scan p
  | .bin st _ _ => .bin st
  | .since st _ _ => .since st
  | .timed st _ => .timed st
  | .sinceT o s h a _ _ => .sinceT o s h a

def build1 : NSt α → OnSt α → OnSt α
  | .unit, c => .un c
  | .scan p, c => .scan p c
  | .timed st, c => .timed st c
  | _, _ => .leaf

def build2 : NSt α → OnSt α → OnSt α → OnSt α
  | .bin st, l, r => .bin st l r
  | .since st, l, r => .since st l r
  | .sinceT o s h a, l, r => .sinceT o s h a l r
  | _, _, _ => .leaf

/-- `χ` is an operator node with the one operand `φ`. -/
inductive Node1 : F α → F α → Prop
  | un (op : Un) (φ : F α) : Node1 (.un op φ) φ
  | tmp1 (op : T1) (φ : F α) : Node1 (.tmp1 op φ) φ
  | tb1 (op : TB1) (a b : Nat) (φ : F α) : Node1 (.tb1 op a b φ) φ

/-- `χ` is an operator node with the two operands `φ`, `ψ`. -/
inductive Node2 : F α → F α → F α → Prop
  | bin (op : Bin) (φ ψ : F α) : Node2 (.bin op φ ψ) φ ψ
  | tmp2 (op : T2) (φ ψ : F α) : Node2 (.tmp2 op φ ψ) φ ψ
  | tb2 (op : TB2) (a b : Nat) (φ ψ : F α) : Node2 (.tb2 op a b φ ψ) φ ψ

theorem bind_eq_ok {ε β γ : Type} {x : Except ε β} {f : β → Except ε γ} {c : γ} :
    (x >>= f) = .ok c ↔ ∃ b, x = .ok b ∧ f b = .ok c := by
  cases x <;> simp [bind, Except.bind]

theorem pure_eq_ok {ε β : Type} {a b : β} : (pure a : Except ε β) = .ok b ↔ a = b := by
  simp [pure, Except.pure]

omit [DecidableEq α] in
/-- The tree step of a one-operand node: the step of the operand tree, then `nodeStepOn` on the node's own state. -/
theorem stepOn_node1 (cfg : DCfg) (inp : String → ASig α) {χ φ : F α} (hn : Node1 χ φ)
    (s : NSt α) (c t : OnSt α) (w : ASig α) :
    stepOn cfg inp χ (build1 s c) = .ok (t, w) ↔
      ∃ c' v s', stepOn cfg inp φ c = .ok (c', v) ∧ nodeStepOn cfg χ s [v] = .ok (s', w) ∧
        t = build1 s' c' ∧ rootSt t = s' := by
  cases hn with
  | un op φ =>
    cases s with
    | unit =>
      show stepOn cfg inp (.un op φ) (.un c) = _ ↔ _
      simp only [stepOn, nodeStepOn, bind_eq_ok, pure_eq_ok, Prod.exists, Prod.mk.injEq]
      constructor
      · rintro ⟨a, b, h1, o, h2, rfl, rfl⟩
        exact ⟨a, b, .unit, h1, ⟨o, h2, rfl, rfl⟩, rfl, rfl⟩
      · rintro ⟨c', v, s', h1, ⟨o, h2, rfl, rfl⟩, rfl, _⟩
        exact ⟨c', v, h1, o, h2, rfl, rfl⟩
    | _ => simp [build1, stepOn, nodeStepOn]
  | tmp1 op φ =>
    cases s with
    | scan p =>
      show stepOn cfg inp (.tmp1 op φ) (.scan p c) = _ ↔ _
      simp only [stepOn, nodeStepOn, bind_eq_ok, pure_eq_ok, Prod.exists, Prod.mk.injEq, Except.ok.injEq]
      constructor
      · rintro ⟨a, b, h1, rfl, rfl⟩
        exact ⟨a, b, _, h1, ⟨rfl, rfl⟩, rfl, rfl⟩
      · rintro ⟨c', v, s', h1, ⟨rfl, rfl⟩, rfl, _⟩
        exact ⟨c', v, h1, rfl, rfl⟩
    | _ => simp [build1, stepOn, nodeStepOn]
  | tb1 op a b φ =>
    cases s with
    | timed st =>
      show stepOn cfg inp (.tb1 op a b φ) (.timed st c) = _ ↔ _
      simp only [stepOn, nodeStepOn, bind_eq_ok, Prod.exists]
      cases op <;> simp only [bind_eq_ok, pure_eq_ok, Prod.exists, Prod.mk.injEq]
      all_goals
        constructor
        · rintro ⟨a, b, h1, st', o, h2, rfl, rfl⟩
          exact ⟨a, b, _, h1, ⟨st', o, h2, rfl, rfl⟩, rfl, rfl⟩
        · rintro ⟨c', v, s', h1, ⟨st', o, h2, rfl, rfl⟩, rfl, _⟩
          exact ⟨c', v, h1, st', o, h2, rfl, rfl⟩
    | _ => simp [build1, stepOn, nodeStepOn]

omit [DecidableEq α] in
/-- The tree step of a two-operand node. -/
theorem stepOn_node2 (cfg : DCfg) (inp : String → ASig α) {χ φ ψ : F α} (hn : Node2 χ φ ψ)
    (s : NSt α) (l r t : OnSt α) (w : ASig α) :
    stepOn cfg inp χ (build2 s l r) = .ok (t, w) ↔
      ∃ l' v1 r' v2 s', stepOn cfg inp φ l = .ok (l', v1) ∧ stepOn cfg inp ψ r = .ok (r', v2) ∧
        nodeStepOn cfg χ s [v1, v2] = .ok (s', w) ∧ t = build2 s' l' r' ∧ rootSt t = s' := by
  cases hn with
  | bin op φ ψ =>
    cases s with
    | bin st =>
      show stepOn cfg inp (.bin op φ ψ) (.bin st l r) = _ ↔ _
      simp only [stepOn, nodeStepOn, bind_eq_ok, Prod.exists]
      cases op <;> simp only [bind_eq_ok, pure_eq_ok, Prod.exists, Prod.mk.injEq]
      case predZero => simp
      all_goals
        constructor
        · rintro ⟨a, b, h1, a', b', h2, st', o, h3, rfl, rfl⟩
          exact ⟨a, b, a', b', _, h1, h2, ⟨st', o, h3, rfl, rfl⟩, rfl, rfl⟩
        · rintro ⟨l', v1, r', v2, s', h1, h2, ⟨st', o, h3, rfl, rfl⟩, rfl, _⟩
          exact ⟨l', v1, h1, r', v2, h2, st', o, h3, rfl, rfl⟩
    | _ => simp [build2, stepOn, nodeStepOn]
  | tmp2 op φ ψ =>
    cases s with
    | since st =>
      show stepOn cfg inp (.tmp2 op φ ψ) (.since st l r) = _ ↔ _
      simp only [stepOn, nodeStepOn, bind_eq_ok, pure_eq_ok, Prod.exists, Prod.mk.injEq, Except.ok.injEq]
      constructor
      · rintro ⟨a, b, h1, a', b', h2, rfl, rfl⟩
        exact ⟨a, b, a', b', _, h1, h2, ⟨rfl, rfl⟩, rfl, rfl⟩
      · rintro ⟨l', v1, r', v2, s', h1, h2, ⟨rfl, rfl⟩, rfl, _⟩
        exact ⟨l', v1, h1, r', v2, h2, rfl, rfl⟩
    | _ => simp [build2, stepOn, nodeStepOn]
  | tb2 op a b φ ψ =>
    cases s with
    | sinceT o s h an =>
      show stepOn cfg inp (.tb2 op a b φ ψ) (.sinceT o s h an l r) = _ ↔ _
      simp only [stepOn, nodeStepOn, bind_eq_ok, pure_eq_ok, Prod.exists, Prod.mk.injEq]
      constructor
      · rintro ⟨a1, b1, h1, a2, b2, h2, a3, b3, h3, a4, b4, h4, a5, b5, h5, rfl, rfl⟩
        exact ⟨a1, b1, a2, b2, _, h1, h2, ⟨a3, b3, h3, a4, b4, h4, a5, b5, h5, rfl, rfl⟩, rfl, rfl⟩
      · rintro ⟨l', v1, r', v2, s', h1, h2, ⟨a3, b3, h3, a4, b4, h4, a5, b5, h5, rfl, rfl⟩, rfl, _⟩
        exact ⟨l', v1, h1, r', v2, h2, a3, b3, h3, a4, b4, h4, a5, b5, h5, rfl, rfl⟩
    | _ => simp [build2, stepOn, nodeStepOn]

omit [DecidableEq α] in
/-- `nodeStepOn` returns a state of the class it was given. -/
theorem nodeStepOn_root1 (cfg : DCfg) {χ φ : F α} (hn : Node1 χ φ) {s s' : NSt α} {v w : ASig α}
    (h : nodeStepOn cfg χ s [v] = .ok (s', w)) (c' : OnSt α) : rootSt (build1 s' c') = s' := by
  cases hn with
  | un op φ =>
    cases s with
    | unit =>
      simp only [nodeStepOn, bind_eq_ok, pure_eq_ok, Prod.mk.injEq] at h
      obtain ⟨o, _, rfl, _⟩ := h
      rfl
    | _ => simp [nodeStepOn] at h
  | tmp1 op φ =>
    cases s with
    | scan p =>
      simp only [nodeStepOn, Except.ok.injEq, Prod.mk.injEq] at h
      obtain ⟨rfl, _⟩ := h
      rfl
    | _ => simp [nodeStepOn] at h
  | tb1 op a b φ =>
    cases s with
    | timed st =>
      simp only [nodeStepOn] at h
      cases op <;> simp only [bind_eq_ok, pure_eq_ok, Prod.exists, Prod.mk.injEq] at h <;>
        obtain ⟨_, _, _, rfl, _⟩ := h <;> rfl
    | _ => simp [nodeStepOn] at h

omit [DecidableEq α] in
theorem nodeStepOn_root2 (cfg : DCfg) {χ φ ψ : F α} (hn : Node2 χ φ ψ) {s s' : NSt α} {v1 v2 w : ASig α}
    (h : nodeStepOn cfg χ s [v1, v2] = .ok (s', w)) (l' r' : OnSt α) : rootSt (build2 s' l' r') = s' := by
  cases hn with
  | bin op φ ψ =>
    cases s with
    | bin st =>
      simp only [nodeStepOn] at h
      cases op <;> simp only [bind_eq_ok, pure_eq_ok, Prod.exists, Prod.mk.injEq, reduceCtorEq] at h
      all_goals
        obtain ⟨_, _, _, rfl, _⟩ := h
        rfl
    | _ => simp [nodeStepOn] at h
  | tmp2 op φ ψ =>
    cases s with
    | since st =>
      simp only [nodeStepOn, Except.ok.injEq, Prod.mk.injEq] at h
      obtain ⟨rfl, _⟩ := h
      rfl
    | _ => simp [nodeStepOn] at h
  | tb2 op a b φ ψ =>
    cases s with
    | sinceT o s h' an =>
      simp only [nodeStepOn, bind_eq_ok, pure_eq_ok, Prod.exists, Prod.mk.injEq] at h
      obtain ⟨_, _, _, _, _, _, _, _, _, rfl, _⟩ := h
      rfl
    | _ => simp [nodeStepOn] at h

/-- The state tree of `φ` whose node states are read off `R` and whose constant leaves all carry the flag `sent`. -/
def treeOf (R : F α → NSt α) (sent : Bool) : F α → OnSt α
  | .var _ => .leaf
  | .const _ => .cst sent
  | .un op φ => build1 (R (.un op φ)) (treeOf R sent φ)
  | .bin op φ ψ => build2 (R (.bin op φ ψ)) (treeOf R sent φ) (treeOf R sent ψ)
  | .tmp1 op φ => build1 (R (.tmp1 op φ)) (treeOf R sent φ)
  | .tmp2 op φ ψ => build2 (R (.tmp2 op φ ψ)) (treeOf R sent φ) (treeOf R sent ψ)
  | .tb1 op a b φ => build1 (R (.tb1 op a b φ)) (treeOf R sent φ)
  | .tb2 op a b φ ψ => build2 (R (.tb2 op a b φ ψ)) (treeOf R sent φ) (treeOf R sent ψ)

section NodeFacts
omit [Val α] [DecidableEq α]

theorem Node1.subs {χ φ : F α} (hn : Node1 χ φ) : χ.opSubs = χ :: φ.opSubs := by cases hn <;> rfl
theorem Node1.size {χ φ : F α} (hn : Node1 χ φ) : φ.size < χ.size := by cases hn <;> simp [F.size]
theorem Node1.tree {χ φ : F α} (hn : Node1 χ φ) (R : F α → NSt α) (sent : Bool) :
    treeOf R sent χ = build1 (R χ) (treeOf R sent φ) := by cases hn <;> rfl

theorem Node2.subs {χ φ ψ : F α} (hn : Node2 χ φ ψ) : χ.opSubs = χ :: (φ.opSubs ++ ψ.opSubs) := by
  cases hn <;> rfl
theorem Node2.size {χ φ ψ : F α} (hn : Node2 χ φ ψ) : φ.size + ψ.size < χ.size := by
  cases hn <;> simp [F.size]
theorem Node2.tree {χ φ ψ : F α} (hn : Node2 χ φ ψ) (R : F α → NSt α) (sent : Bool) :
    treeOf R sent χ = build2 (R χ) (treeOf R sent φ) (treeOf R sent ψ) := by cases hn <;> rfl

end NodeFacts

theorem Node1.visit {χ φ : F α} (hn : Node1 χ φ) (cfg : DCfg) (inp : String → ASig α) (sent : Bool)
    (sm : StoreOn α × MemoOn α) :
    visitOnM cfg inp sent χ sm = (do
      let (s, sm1) ← visitOnM cfg inp sent φ sm
      finishOn cfg χ [s] sm1) := by cases hn <;> rfl

theorem Node2.visit {χ φ ψ : F α} (hn : Node2 χ φ ψ) (cfg : DCfg) (inp : String → ASig α) (sent : Bool)
    (sm : StoreOn α × MemoOn α) :
    visitOnM cfg inp sent χ sm = (do
      let (s1, sm1) ← visitOnM cfg inp sent φ sm
      let (s2, sm2) ← visitOnM cfg inp sent ψ sm1
      finishOn cfg χ [s1, s2] sm2) := by cases hn <;> rfl

theorem finishOn_hit (cfg : DCfg) (k : F α) (args : List (ASig α)) (sm : StoreOn α × MemoOn α) (v : ASig α)
    (h : sm.2.lookup k = some v) : finishOn cfg k args sm = .ok (v, sm) := by
  simp only [finishOn, h]

theorem finishOn_miss (cfg : DCfg) (k : F α) (args : List (ASig α)) (sm : StoreOn α × MemoOn α)
    (s s' : NSt α) (o : ASig α)
    (h : sm.2.lookup k = none) (hs : sm.1.lookup k = some s) (hn : nodeStepOn cfg k s args = .ok (s', o)) :
    finishOn cfg k args sm = .ok (o, (sm.1.set k s', (k, o) :: sm.2)) := by
  simp only [finishOn, h, get_ok_of_lookup hs, hn, bind, Except.bind, pure, Except.pure]

/-! ### one round -/

section Round
variable (cfg : DCfg) (inp : String → ASig α) (sent : Bool) (U : F α → Prop) (R0 : F α → NSt α)

def Steps (φ : F α) (t : OnSt α) (w : ASig α) : Prop :=
  stepOn cfg inp φ (treeOf R0 sent φ) = .ok (t, w)

def Inv (sm : StoreOn α × MemoOn α) : Prop :=
  ∀ ψ, U ψ →
    (sm.2.lookup ψ = none → sm.1.lookup ψ = some (R0 ψ)) ∧
    (∀ w, sm.2.lookup ψ = some w →
      (∃ t, Steps cfg inp sent R0 ψ t w ∧ sm.1.lookup ψ = some (rootSt t)) ∧
      ∀ ψ' ∈ ψ.opSubs, sm.2.lookup ψ' ≠ none)

def VisitOK (φ : F α) : Prop :=
  ∀ sm, Inv cfg inp sent U R0 sm → (∀ ψ ∈ φ.opSubs, U ψ) →
    (∀ ψ ∈ φ.opSubs, ∃ t w, Steps cfg inp sent R0 ψ t w) →
    ∃ t w sm', Steps cfg inp sent R0 φ t w ∧ visitOnM cfg inp sent φ sm = .ok (w, sm') ∧
      Inv cfg inp sent U R0 sm' ∧
      (∀ ψ, sm.2.lookup ψ ≠ none → sm'.2.lookup ψ ≠ none) ∧
      (∀ ψ, sm'.2.lookup ψ ≠ none → sm.2.lookup ψ ≠ none ∨ ψ ∈ φ.opSubs) ∧
      (∀ ψ ∈ φ.opSubs, sm'.2.lookup ψ ≠ none) ∧
      ((∀ ψ ∈ φ.opSubs, sm.2.lookup ψ ≠ none) → sm' = sm)

theorem visitOK_node1 {χ φ : F α} (hn : Node1 χ φ)
    (ih : VisitOK cfg inp sent U R0 φ) : VisitOK cfg inp sent U R0 χ := by
  intro sm hinv hU Hstep
  have hsubs := hn.subs
  have hsz := hn.size
  have hχm : χ ∈ χ.opSubs := by rw [hsubs]; exact List.mem_cons_self
  have hχ : U χ := hU χ hχm
  obtain ⟨t1, v, ⟨st1, mm1⟩, hs1, hv1, hinv1, hmono1, honly1, hdone1, hsame1⟩ :=
    ih sm hinv (fun ψ hψ => hU ψ (by rw [hsubs]; exact List.mem_cons_of_mem _ hψ))
      (fun ψ hψ => Hstep ψ (by rw [hsubs]; exact List.mem_cons_of_mem _ hψ))
  cases hl : sm.2.lookup χ with
  | some w0 =>
    obtain ⟨⟨t, ht, _⟩, hdone⟩ := (hinv χ hχ).2 w0 hl
    have hsm : ((st1, mm1) : StoreOn α × MemoOn α) = sm :=
      hsame1 (fun ψ hψ => hdone ψ (by rw [hsubs]; exact List.mem_cons_of_mem _ hψ))
    rw [hsm] at hv1
    refine ⟨t, w0, sm, ht, ?_, hinv, fun _ h => h, fun _ h => Or.inl h, hdone, fun _ => rfl⟩
    rw [hn.visit, hv1]
    exact finishOn_hit cfg χ [v] sm w0 hl
  | none =>
    have hl1 : mm1.lookup χ = none := by
      cases hc : mm1.lookup χ with
      | none => rfl
      | some x =>
        rcases honly1 χ (by simp [hc]) with h | h
        · exact absurd hl h
        · have := opSubs_size h; omega
    have hst1 : st1.lookup χ = some (R0 χ) := (hinv1 χ hχ).1 hl1
    obtain ⟨t, w, htw⟩ := Hstep χ hχm
    have htw' := htw
    unfold Steps at htw' hs1
    rw [hn.tree] at htw'
    obtain ⟨c', v', s', hc, hnode, ht, hroot⟩ := (stepOn_node1 cfg inp hn _ _ _ _).1 htw'
    rw [hs1] at hc
    simp only [Except.ok.injEq, Prod.mk.injEq] at hc
    obtain ⟨rfl, rfl⟩ := hc
    have hv2 : visitOnM cfg inp sent χ sm = .ok (w, (st1.set χ s', (χ, w) :: mm1)) := by
      rw [hn.visit, hv1]
      exact finishOn_miss cfg χ [v] (st1, mm1) (R0 χ) s' w hl1 hst1 hnode
    refine ⟨t, w, (st1.set χ s', (χ, w) :: mm1), htw, hv2, ?_, ?_, ?_, ?_, ?_⟩
    · intro ψ hψ
      by_cases hψχ : ψ = χ
      · subst hψχ
        refine ⟨fun h => ?_, fun w' hw => ?_⟩
        · simp at h
        · simp only [lookup_cons_eq, Option.some.injEq] at hw
          subst hw
          refine ⟨⟨_, htw, ?_⟩, ?_⟩
          · show (st1.set ψ s').lookup ψ = _
            rw [lookup_set_eq, hroot]
          · intro ψ' hψ'
            rw [hsubs] at hψ'
            show List.lookup ψ' ((ψ, w) :: mm1) ≠ none
            by_cases h' : ψ' = ψ
            · subst h'; simp
            · rw [lookup_cons_ne _ _ _ _ h']
              rcases List.mem_cons.1 hψ' with h | h
              · exact absurd h h'
              · exact hdone1 ψ' h
      · have hm : List.lookup ψ ((χ, w) :: mm1) = mm1.lookup ψ := lookup_cons_ne _ _ _ _ hψχ
        have hs : (st1.set χ s').lookup ψ = st1.lookup ψ := lookup_set_ne _ _ _ _ hψχ
        refine ⟨fun h => ?_, fun w' hw => ?_⟩
        · show (st1.set χ s').lookup ψ = _
          rw [hs]; exact (hinv1 ψ hψ).1 (by rw [← hm]; exact h)
        · obtain ⟨⟨t', ht', hl'⟩, hd'⟩ := (hinv1 ψ hψ).2 w' (by rw [← hm]; exact hw)
          refine ⟨⟨t', ht', by show (st1.set χ s').lookup ψ = _; rw [hs]; exact hl'⟩, ?_⟩
          intro ψ' hψ'
          show List.lookup ψ' ((χ, w) :: mm1) ≠ none
          by_cases h' : ψ' = χ
          · subst h'; simp
          · rw [lookup_cons_ne _ _ _ _ h']; exact hd' ψ' hψ'
    · intro ψ h
      show List.lookup ψ ((χ, w) :: mm1) ≠ none
      by_cases h' : ψ = χ
      · subst h'; simp
      · rw [lookup_cons_ne _ _ _ _ h']; exact hmono1 ψ h
    · intro ψ h
      by_cases h' : ψ = χ
      · subst h'; right; rw [hsubs]; exact List.mem_cons_self
      · have h2 : List.lookup ψ ((χ, w) :: mm1) ≠ none := h
        rw [lookup_cons_ne _ _ _ _ h'] at h2
        rcases honly1 ψ h2 with h3 | h3
        · exact Or.inl h3
        · right; rw [hsubs]; exact List.mem_cons_of_mem _ h3
    · intro ψ hψ
      rw [hsubs] at hψ
      show List.lookup ψ ((χ, w) :: mm1) ≠ none
      by_cases h' : ψ = χ
      · subst h'; simp
      · rw [lookup_cons_ne _ _ _ _ h']
        rcases List.mem_cons.1 hψ with h | h
        · exact absurd h h'
        · exact hdone1 ψ h
    · intro hall
      exact absurd hl (hall χ (by rw [hsubs]; exact List.mem_cons_self))

theorem visitOK_node2 {χ φ1 φ2 : F α} (hn : Node2 χ φ1 φ2)
    (ih1 : VisitOK cfg inp sent U R0 φ1) (ih2 : VisitOK cfg inp sent U R0 φ2) :
    VisitOK cfg inp sent U R0 χ := by
  intro sm hinv hU Hstep
  have hsubs := hn.subs
  have hsz := hn.size
  have hχm : χ ∈ χ.opSubs := by rw [hsubs]; exact List.mem_cons_self
  have hχ : U χ := hU χ hχm
  obtain ⟨t1, v1, sm1, hs1, hv1, hinv1, hmono1, honly1, hdone1, hsame1⟩ :=
    ih1 sm hinv (fun ψ hψ => hU ψ (by
      rw [hsubs]; exact List.mem_cons_of_mem _ (List.mem_append_left _ hψ)))
      (fun ψ hψ => Hstep ψ (by
        rw [hsubs]; exact List.mem_cons_of_mem _ (List.mem_append_left _ hψ)))
  obtain ⟨t2, v2, ⟨st2, mm2⟩, hs2, hv2, hinv2, hmono2, honly2, hdone2, hsame2⟩ :=
    ih2 sm1 hinv1 (fun ψ hψ => hU ψ (by
      rw [hsubs]; exact List.mem_cons_of_mem _ (List.mem_append_right _ hψ)))
      (fun ψ hψ => Hstep ψ (by
        rw [hsubs]; exact List.mem_cons_of_mem _ (List.mem_append_right _ hψ)))
  cases hl : sm.2.lookup χ with
  | some w0 =>
    obtain ⟨⟨t, ht, _⟩, hdone⟩ := (hinv χ hχ).2 w0 hl
    have hsm1 : sm1 = sm :=
      hsame1 (fun ψ hψ => hdone ψ (by
        rw [hsubs]; exact List.mem_cons_of_mem _ (List.mem_append_left _ hψ)))
    subst hsm1
    have hsm2 : ((st2, mm2) : StoreOn α × MemoOn α) = sm1 :=
      hsame2 (fun ψ hψ => hdone ψ (by
        rw [hsubs]; exact List.mem_cons_of_mem _ (List.mem_append_right _ hψ)))
    rw [hsm2] at hv2
    refine ⟨t, w0, sm1, ht, ?_, hinv, fun _ h => h, fun _ h => Or.inl h, hdone, fun _ => rfl⟩
    rw [hn.visit, hv1]
    simp only [bind, Except.bind, hv2]
    exact finishOn_hit cfg χ [v1, v2] sm1 w0 hl
  | none =>
    have hl2 : mm2.lookup χ = none := by
      cases hc : mm2.lookup χ with
      | none => rfl
      | some x =>
        rcases honly2 χ (by simp [hc]) with h | h
        · rcases honly1 χ h with h | h
          · exact absurd hl h
          · have := opSubs_size h; omega
        · have := opSubs_size h; omega
    have hst2 : st2.lookup χ = some (R0 χ) := (hinv2 χ hχ).1 hl2
    obtain ⟨t, w, htw⟩ := Hstep χ hχm
    have htw' := htw
    unfold Steps at htw' hs1 hs2
    rw [hn.tree] at htw'
    obtain ⟨l', v1', r', v2', s', hc1, hc2, hnode, ht, hroot⟩ := (stepOn_node2 cfg inp hn _ _ _ _ _).1 htw'
    rw [hs1] at hc1
    rw [hs2] at hc2
    simp only [Except.ok.injEq, Prod.mk.injEq] at hc1 hc2
    obtain ⟨rfl, rfl⟩ := hc1
    obtain ⟨rfl, rfl⟩ := hc2
    have hv3 : visitOnM cfg inp sent χ sm = .ok (w, (st2.set χ s', (χ, w) :: mm2)) := by
      rw [hn.visit, hv1]
      simp only [bind, Except.bind, hv2]
      exact finishOn_miss cfg χ [v1, v2] (st2, mm2) (R0 χ) s' w hl2 hst2 hnode
    have hdone12 : ∀ ψ ∈ φ1.opSubs ++ φ2.opSubs, mm2.lookup ψ ≠ none := by
      intro ψ hψ
      rcases List.mem_append.1 hψ with h | h
      · exact hmono2 ψ (hdone1 ψ h)
      · exact hdone2 ψ h
    refine ⟨t, w, (st2.set χ s', (χ, w) :: mm2), htw, hv3, ?_, ?_, ?_, ?_, ?_⟩
    · intro ψ hψ
      by_cases hψχ : ψ = χ
      · subst hψχ
        refine ⟨fun h => ?_, fun w' hw => ?_⟩
        · simp at h
        · simp only [lookup_cons_eq, Option.some.injEq] at hw
          subst hw
          refine ⟨⟨_, htw, ?_⟩, ?_⟩
          · show (st2.set ψ s').lookup ψ = _
            rw [lookup_set_eq, hroot]
          · intro ψ' hψ'
            rw [hsubs] at hψ'
            show List.lookup ψ' ((ψ, w) :: mm2) ≠ none
            by_cases h' : ψ' = ψ
            · subst h'; simp
            · rw [lookup_cons_ne _ _ _ _ h']
              rcases List.mem_cons.1 hψ' with h | h
              · exact absurd h h'
              · exact hdone12 ψ' h
      · have hm : List.lookup ψ ((χ, w) :: mm2) = mm2.lookup ψ := lookup_cons_ne _ _ _ _ hψχ
        have hs : (st2.set χ s').lookup ψ = st2.lookup ψ := lookup_set_ne _ _ _ _ hψχ
        refine ⟨fun h => ?_, fun w' hw => ?_⟩
        · show (st2.set χ s').lookup ψ = _
          rw [hs]; exact (hinv2 ψ hψ).1 (by rw [← hm]; exact h)
        · obtain ⟨⟨t', ht', hl'⟩, hd'⟩ := (hinv2 ψ hψ).2 w' (by rw [← hm]; exact hw)
          refine ⟨⟨t', ht', by show (st2.set χ s').lookup ψ = _; rw [hs]; exact hl'⟩, ?_⟩
          intro ψ' hψ'
          show List.lookup ψ' ((χ, w) :: mm2) ≠ none
          by_cases h' : ψ' = χ
          · subst h'; simp
          · rw [lookup_cons_ne _ _ _ _ h']; exact hd' ψ' hψ'
    · intro ψ h
      show List.lookup ψ ((χ, w) :: mm2) ≠ none
      by_cases h' : ψ = χ
      · subst h'; simp
      · rw [lookup_cons_ne _ _ _ _ h']; exact hmono2 ψ (hmono1 ψ h)
    · intro ψ h
      by_cases h' : ψ = χ
      · subst h'; right; rw [hsubs]; exact List.mem_cons_self
      · have h2 : List.lookup ψ ((χ, w) :: mm2) ≠ none := h
        rw [lookup_cons_ne _ _ _ _ h'] at h2
        rcases honly2 ψ h2 with h3 | h3
        · rcases honly1 ψ h3 with h4 | h4
          · exact Or.inl h4
          · right; rw [hsubs]; exact List.mem_cons_of_mem _ (List.mem_append_left _ h4)
        · right; rw [hsubs]; exact List.mem_cons_of_mem _ (List.mem_append_right _ h3)
    · intro ψ hψ
      rw [hsubs] at hψ
      show List.lookup ψ ((χ, w) :: mm2) ≠ none
      by_cases h' : ψ = χ
      · subst h'; simp
      · rw [lookup_cons_ne _ _ _ _ h']
        rcases List.mem_cons.1 hψ with h | h
        · exact absurd h h'
        · exact hdone12 ψ h
    · intro hall
      exact absurd hl (hall χ (by rw [hsubs]; exact List.mem_cons_self))

theorem visitOK_all (φ : F α) : VisitOK cfg inp sent U R0 φ := by
  induction φ with
  | var x =>
    intro sm hinv _ _
    exact ⟨.leaf, inp x, sm, rfl, rfl, hinv, fun _ h => h, fun _ h => Or.inl h,
      fun ψ hψ => by simp [F.opSubs] at hψ, fun _ => rfl⟩
  | const c =>
    intro sm hinv _ _
    exact ⟨.cst true, _, sm, rfl, rfl, hinv, fun _ h => h, fun _ h => Or.inl h,
      fun ψ hψ => by simp [F.opSubs] at hψ, fun _ => rfl⟩
  | un op φ ih => exact visitOK_node1 cfg inp sent U R0 (.un op φ) ih
  | tmp1 op φ ih => exact visitOK_node1 cfg inp sent U R0 (.tmp1 op φ) ih
  | tb1 op a b φ ih => exact visitOK_node1 cfg inp sent U R0 (.tb1 op a b φ) ih
  | bin op φ ψ ih1 ih2 => exact visitOK_node2 cfg inp sent U R0 (.bin op φ ψ) ih1 ih2
  | tmp2 op φ ψ ih1 ih2 => exact visitOK_node2 cfg inp sent U R0 (.tmp2 op φ ψ) ih1 ih2
  | tb2 op a b φ ψ ih1 ih2 => exact visitOK_node2 cfg inp sent U R0 (.tb2 op a b φ ψ) ih1 ih2

/-- Value and next tree of the stand-alone step of `φ` from the tree read off `R0`. -/
def stepVal (φ : F α) : ASig α :=
  match stepOn cfg inp φ (treeOf R0 sent φ) with
  | .ok p => p.2
  | .error _ => []

def stepTr (φ : F α) : OnSt α :=
  match stepOn cfg inp φ (treeOf R0 sent φ) with
  | .ok p => p.1
  | .error _ => .leaf

omit [DecidableEq α] in
theorem Steps.val {φ : F α} {t : OnSt α} {w : ASig α} (h : Steps cfg inp sent R0 φ t w) :
    stepVal cfg inp sent R0 φ = w := by
  unfold Steps at h; simp [stepVal, h]

omit [DecidableEq α] in
theorem Steps.tr {φ : F α} {t : OnSt α} {w : ASig α} (h : Steps cfg inp sent R0 φ t w) :
    stepTr cfg inp sent R0 φ = t := by
  unfold Steps at h; simp [stepTr, h]

theorem visitSpecs_ok (specs : List (F α)) :
    ∀ sm, Inv cfg inp sent U R0 sm → (∀ φ ∈ specs, ∀ ψ ∈ φ.opSubs, U ψ) →
      (∀ φ ∈ specs, ∀ ψ ∈ φ.opSubs, ∃ t w, Steps cfg inp sent R0 ψ t w) →
      ∃ sm', visitSpecsOn cfg inp sent specs sm = .ok (specs.map (stepVal cfg inp sent R0), sm') ∧
        Inv cfg inp sent U R0 sm' ∧
        (∀ ψ, sm.2.lookup ψ ≠ none → sm'.2.lookup ψ ≠ none) ∧
        (∀ φ ∈ specs, ∀ ψ ∈ φ.opSubs, sm'.2.lookup ψ ≠ none) := by
  induction specs with
  | nil =>
    intro sm hinv _ _
    exact ⟨sm, rfl, hinv, fun _ h => h, fun φ hφ => by simp at hφ⟩
  | cons φ rest ih =>
    intro sm hinv hU Hstep
    obtain ⟨t, w, sm1, hs, hv, hinv1, hmono1, _, hdone1, _⟩ :=
      visitOK_all cfg inp sent U R0 φ sm hinv (hU φ List.mem_cons_self) (Hstep φ List.mem_cons_self)
    obtain ⟨sm2, hv2, hinv2, hmono2, hdone2⟩ :=
      ih sm1 hinv1 (fun φ' hφ' => hU φ' (List.mem_cons_of_mem _ hφ'))
        (fun φ' hφ' => Hstep φ' (List.mem_cons_of_mem _ hφ'))
    refine ⟨sm2, ?_, hinv2, fun ψ h => hmono2 ψ (hmono1 ψ h), ?_⟩
    · simp only [visitSpecsOn, hv, hv2, bind, Except.bind, pure, Except.pure, List.map_cons, hs.val]
    · intro φ' hφ' ψ hψ
      rcases List.mem_cons.1 hφ' with rfl | h
      · exact hmono2 ψ (hdone1 ψ hψ)
      · exact hdone2 φ' h ψ hψ

/-! #### conversely: a visit that raises nothing witnesses that the trees step -/

def VisitConv (φ : F α) : Prop :=
  ∀ sm, Inv cfg inp sent U R0 sm → (∀ ψ ∈ φ.opSubs, U ψ) →
    ∀ w sm', visitOnM cfg inp sent φ sm = .ok (w, sm') →
      ∀ ψ ∈ φ.opSubs, ∃ t w, Steps cfg inp sent R0 ψ t w

theorem finishOn_inv (k : F α) (args : List (ASig α)) (sm sm' : StoreOn α × MemoOn α) (w : ASig α)
    (h : finishOn cfg k args sm = .ok (w, sm')) :
    (sm.2.lookup k = some w) ∨
      (sm.2.lookup k = none ∧ ∃ s s', sm.1.lookup k = some s ∧ nodeStepOn cfg k s args = .ok (s', w)) := by
  unfold finishOn at h
  cases hl : sm.2.lookup k with
  | some w0 =>
    simp only [hl, Except.ok.injEq, Prod.mk.injEq] at h
    exact Or.inl (by rw [h.1])
  | none =>
    right
    simp only [hl, bind_eq_ok, pure_eq_ok, Prod.exists, Prod.mk.injEq] at h
    obtain ⟨s, hg, s', o, hn, rfl, _⟩ := h
    refine ⟨rfl, s, s', ?_, hn⟩
    unfold StoreOn.get at hg
    cases hs : sm.1.lookup k with
    | none => simp [hs] at hg
    | some s0 =>
      simp only [hs, Except.ok.injEq] at hg
      rw [hg]

theorem visitConv_node1 {χ φ : F α} (hn : Node1 χ φ)
    (ih : VisitConv cfg inp sent U R0 φ) : VisitConv cfg inp sent U R0 χ := by
  intro sm hinv hU w sm' hv ψ hψ
  have hsubs := hn.subs
  have hχ : U χ := hU χ (by rw [hsubs]; exact List.mem_cons_self)
  have hUφ : ∀ ψ ∈ φ.opSubs, U ψ := fun ψ hψ => hU ψ (by rw [hsubs]; exact List.mem_cons_of_mem _ hψ)
  rw [hn.visit] at hv
  obtain ⟨⟨v, sm1⟩, hv1, hfin⟩ := bind_eq_ok.1 hv
  have Hφ := ih sm hinv hUφ v sm1 hv1
  rw [hsubs] at hψ
  rcases List.mem_cons.1 hψ with rfl | hψ
  · obtain ⟨t1, v', sm1', hs1, hv1', hinv1, _⟩ := visitOK_all cfg inp sent U R0 φ sm hinv hUφ Hφ
    rw [hv1] at hv1'
    simp only [Except.ok.injEq, Prod.mk.injEq] at hv1'
    obtain ⟨rfl, rfl⟩ := hv1'
    rcases finishOn_inv cfg ψ [v] sm1 sm' w hfin with hl | ⟨hl, s, s', hs, hnode⟩
    · obtain ⟨⟨t, ht, _⟩, _⟩ := (hinv1 ψ hχ).2 w hl
      exact ⟨t, w, ht⟩
    · have hst : sm1.1.lookup ψ = some (R0 ψ) := (hinv1 ψ hχ).1 hl
      rw [hst] at hs
      simp only [Option.some.injEq] at hs
      subst hs
      refine ⟨build1 s' t1, w, ?_⟩
      unfold Steps
      rw [hn.tree]
      exact (stepOn_node1 cfg inp hn _ _ _ _).2
        ⟨t1, v, s', hs1, hnode, rfl, nodeStepOn_root1 cfg hn hnode t1⟩
  · exact Hφ ψ hψ

theorem visitConv_node2 {χ φ1 φ2 : F α} (hn : Node2 χ φ1 φ2)
    (ih1 : VisitConv cfg inp sent U R0 φ1) (ih2 : VisitConv cfg inp sent U R0 φ2) :
    VisitConv cfg inp sent U R0 χ := by
  intro sm hinv hU w sm' hv ψ hψ
  have hsubs := hn.subs
  have hχ : U χ := hU χ (by rw [hsubs]; exact List.mem_cons_self)
  have hU1 : ∀ ψ ∈ φ1.opSubs, U ψ := fun ψ hψ => hU ψ (by
    rw [hsubs]; exact List.mem_cons_of_mem _ (List.mem_append_left _ hψ))
  have hU2 : ∀ ψ ∈ φ2.opSubs, U ψ := fun ψ hψ => hU ψ (by
    rw [hsubs]; exact List.mem_cons_of_mem _ (List.mem_append_right _ hψ))
  rw [hn.visit] at hv
  obtain ⟨⟨v1, sm1⟩, hv1, hv⟩ := bind_eq_ok.1 hv
  obtain ⟨⟨v2, sm2⟩, hv2, hfin⟩ := bind_eq_ok.1 hv
  have H1 := ih1 sm hinv hU1 v1 sm1 hv1
  obtain ⟨t1, v1', sm1', hs1, hv1', hinv1, _⟩ := visitOK_all cfg inp sent U R0 φ1 sm hinv hU1 H1
  rw [hv1] at hv1'
  simp only [Except.ok.injEq, Prod.mk.injEq] at hv1'
  obtain ⟨rfl, rfl⟩ := hv1'
  have H2 := ih2 sm1 hinv1 hU2 v2 sm2 hv2
  rw [hsubs] at hψ
  rcases List.mem_cons.1 hψ with rfl | hψ
  · obtain ⟨t2, v2', sm2', hs2, hv2', hinv2, _⟩ := visitOK_all cfg inp sent U R0 φ2 sm1 hinv1 hU2 H2
    rw [hv2] at hv2'
    simp only [Except.ok.injEq, Prod.mk.injEq] at hv2'
    obtain ⟨rfl, rfl⟩ := hv2'
    rcases finishOn_inv cfg ψ [v1, v2] sm2 sm' w hfin with hl | ⟨hl, s, s', hs, hnode⟩
    · obtain ⟨⟨t, ht, _⟩, _⟩ := (hinv2 ψ hχ).2 w hl
      exact ⟨t, w, ht⟩
    · have hst : sm2.1.lookup ψ = some (R0 ψ) := (hinv2 ψ hχ).1 hl
      rw [hst] at hs
      simp only [Option.some.injEq] at hs
      subst hs
      refine ⟨build2 s' t1 t2, w, ?_⟩
      unfold Steps
      rw [hn.tree]
      exact (stepOn_node2 cfg inp hn _ _ _ _ _).2
        ⟨t1, v1, t2, v2, s', hs1, hs2, hnode, rfl, nodeStepOn_root2 cfg hn hnode t1 t2⟩
  · rcases List.mem_append.1 hψ with hψ | hψ
    · exact H1 ψ hψ
    · exact H2 ψ hψ

theorem visitConv_all (φ : F α) : VisitConv cfg inp sent U R0 φ := by
  induction φ with
  | var x => intro sm _ _ w sm' _ ψ hψ; simp [F.opSubs] at hψ
  | const c => intro sm _ _ w sm' _ ψ hψ; simp [F.opSubs] at hψ
  | un op φ ih => exact visitConv_node1 cfg inp sent U R0 (.un op φ) ih
  | tmp1 op φ ih => exact visitConv_node1 cfg inp sent U R0 (.tmp1 op φ) ih
  | tb1 op a b φ ih => exact visitConv_node1 cfg inp sent U R0 (.tb1 op a b φ) ih
  | bin op φ ψ ih1 ih2 => exact visitConv_node2 cfg inp sent U R0 (.bin op φ ψ) ih1 ih2
  | tmp2 op φ ψ ih1 ih2 => exact visitConv_node2 cfg inp sent U R0 (.tmp2 op φ ψ) ih1 ih2
  | tb2 op a b φ ψ ih1 ih2 => exact visitConv_node2 cfg inp sent U R0 (.tb2 op a b φ ψ) ih1 ih2

theorem visitSpecs_conv (specs : List (F α)) :
    ∀ sm, Inv cfg inp sent U R0 sm → (∀ φ ∈ specs, ∀ ψ ∈ φ.opSubs, U ψ) →
      ∀ vs sm', visitSpecsOn cfg inp sent specs sm = .ok (vs, sm') →
        ∀ φ ∈ specs, ∀ ψ ∈ φ.opSubs, ∃ t w, Steps cfg inp sent R0 ψ t w := by
  induction specs with
  | nil => intro sm _ _ vs sm' _ φ hφ; simp at hφ
  | cons φ rest ih =>
    intro sm hinv hU vs sm' hv φ' hφ'
    simp only [visitSpecsOn] at hv
    obtain ⟨⟨v, sm1⟩, hv1, hv⟩ := bind_eq_ok.1 hv
    obtain ⟨⟨vs', sm2⟩, hv2, _⟩ := bind_eq_ok.1 hv
    have Hφ := visitConv_all cfg inp sent U R0 φ sm hinv (hU φ List.mem_cons_self) v sm1 hv1
    rcases List.mem_cons.1 hφ' with rfl | h
    · exact Hφ
    · obtain ⟨t1, v', sm1', _, hv1', hinv1, _⟩ :=
        visitOK_all cfg inp sent U R0 φ sm hinv (hU φ List.mem_cons_self) Hφ
      rw [hv1] at hv1'
      simp only [Except.ok.injEq, Prod.mk.injEq] at hv1'
      obtain ⟨rfl, rfl⟩ := hv1'
      exact ih sm1 hinv1 (fun φ'' hφ'' => hU φ'' (List.mem_cons_of_mem _ hφ'')) vs' sm2 hv2 φ' h

end Round

/-- Operator sub-formulas of the assertions: the keys of the dictionary. -/
def InSpecs (specs : List (F α)) (ψ : F α) : Prop := ∃ φ ∈ specs, ψ ∈ φ.opSubs

theorem round_ok (cfg : DCfg) (inp : String → ASig α) (sent : Bool) (R0 : F α → NSt α) (specs : List (F α))
    (st0 : StoreOn α)
    (h0 : ∀ ψ, InSpecs specs ψ → st0.lookup ψ = some (R0 ψ))
    (Hstep : ∀ ψ, InSpecs specs ψ → ∃ t w, Steps cfg inp sent R0 ψ t w) :
    ∃ st' mm', visitSpecsOn cfg inp sent specs (st0, []) =
        .ok (specs.map (stepVal cfg inp sent R0), (st', mm')) ∧
      ∀ ψ, InSpecs specs ψ → mm'.lookup ψ = some (stepVal cfg inp sent R0 ψ) ∧
        st'.lookup ψ = some (rootSt (stepTr cfg inp sent R0 ψ)) := by
  have hinv : Inv cfg inp sent (InSpecs specs) R0 (st0, []) := by
    intro ψ hψ
    refine ⟨fun _ => h0 ψ hψ, fun w hw => ?_⟩
    simp at hw
  obtain ⟨⟨st', mm'⟩, hv, hinv', _, hdone⟩ :=
    visitSpecs_ok cfg inp sent (InSpecs specs) R0 specs (st0, []) hinv
      (fun φ hφ ψ hψ => ⟨φ, hφ, hψ⟩) (fun φ hφ ψ hψ => Hstep ψ ⟨φ, hφ, hψ⟩)
  refine ⟨st', mm', hv, ?_⟩
  intro ψ hψ
  obtain ⟨φ, hφ, hψφ⟩ := hψ
  cases hl : mm'.lookup ψ with
  | none => exact absurd hl (hdone φ hφ ψ hψφ)
  | some w =>
    obtain ⟨⟨t, ht, hst⟩, _⟩ := (hinv' ψ ⟨φ, hφ, hψφ⟩).2 w hl
    rw [ht.val, ht.tr]
    exact ⟨rfl, hst⟩

/-! ### the trees read off the dictionary after a round are the stepped trees -/

omit [DecidableEq α] in
theorem treeStep_all (cfg : DCfg) (inp : String → ASig α) (sent : Bool) (U : F α → Prop) (R0 R1 : F α → NSt α)
    (Hstep : ∀ ψ, U ψ → ∃ t w, Steps cfg inp sent R0 ψ t w)
    (hR1 : ∀ ψ, U ψ → R1 ψ = rootSt (stepTr cfg inp sent R0 ψ)) (φ : F α) (hφ : ∀ ψ ∈ φ.opSubs, U ψ) :
    ∃ w, stepOn cfg inp φ (treeOf R0 sent φ) = .ok (treeOf R1 true φ, w) := by
  have node1 : ∀ {χ φ : F α}, Node1 χ φ → U χ →
      (∃ v, stepOn cfg inp φ (treeOf R0 sent φ) = .ok (treeOf R1 true φ, v)) →
      ∃ w, stepOn cfg inp χ (treeOf R0 sent χ) = .ok (treeOf R1 true χ, w) := by
    intro χ φ hn hχ ⟨v, hv⟩
    obtain ⟨t, w, htw⟩ := Hstep χ hχ
    have htr := htw.tr
    have htw' := htw
    unfold Steps at htw'
    rw [hn.tree] at htw'
    obtain ⟨c', v', s', hc, _, ht, hroot⟩ := (stepOn_node1 cfg inp hn _ _ _ _).1 htw'
    rw [hv] at hc
    simp only [Except.ok.injEq, Prod.mk.injEq] at hc
    obtain ⟨rfl, rfl⟩ := hc
    refine ⟨w, ?_⟩
    rw [hn.tree R1, hR1 χ hχ, htr, hroot, ← ht]
    exact htw
  have node2 : ∀ {χ φ ψ : F α}, Node2 χ φ ψ → U χ →
      (∃ v, stepOn cfg inp φ (treeOf R0 sent φ) = .ok (treeOf R1 true φ, v)) →
      (∃ v, stepOn cfg inp ψ (treeOf R0 sent ψ) = .ok (treeOf R1 true ψ, v)) →
      ∃ w, stepOn cfg inp χ (treeOf R0 sent χ) = .ok (treeOf R1 true χ, w) := by
    intro χ φ ψ hn hχ ⟨v1, hv1⟩ ⟨v2, hv2⟩
    obtain ⟨t, w, htw⟩ := Hstep χ hχ
    have htr := htw.tr
    have htw' := htw
    unfold Steps at htw'
    rw [hn.tree] at htw'
    obtain ⟨l', v1', r', v2', s', hc1, hc2, _, ht, hroot⟩ := (stepOn_node2 cfg inp hn _ _ _ _ _).1 htw'
    rw [hv1] at hc1
    rw [hv2] at hc2
    simp only [Except.ok.injEq, Prod.mk.injEq] at hc1 hc2
    obtain ⟨rfl, rfl⟩ := hc1
    obtain ⟨rfl, rfl⟩ := hc2
    refine ⟨w, ?_⟩
    rw [hn.tree R1, hR1 χ hχ, htr, hroot, ← ht]
    exact htw
  induction φ with
  | var x => exact ⟨inp x, rfl⟩
  | const c => exact ⟨_, rfl⟩
  | un op φ ih =>
    exact node1 (.un op φ) (hφ _ (by simp [F.opSubs])) (ih (fun ψ h => hφ ψ (by simp [F.opSubs, h])))
  | tmp1 op φ ih =>
    exact node1 (.tmp1 op φ) (hφ _ (by simp [F.opSubs])) (ih (fun ψ h => hφ ψ (by simp [F.opSubs, h])))
  | tb1 op a b φ ih =>
    exact node1 (.tb1 op a b φ) (hφ _ (by simp [F.opSubs])) (ih (fun ψ h => hφ ψ (by simp [F.opSubs, h])))
  | bin op φ ψ ih1 ih2 =>
    exact node2 (.bin op φ ψ) (hφ _ (by simp [F.opSubs])) (ih1 (fun ψ h => hφ ψ (by simp [F.opSubs, h])))
      (ih2 (fun ψ h => hφ ψ (by simp [F.opSubs, h])))
  | tmp2 op φ ψ ih1 ih2 =>
    exact node2 (.tmp2 op φ ψ) (hφ _ (by simp [F.opSubs])) (ih1 (fun ψ h => hφ ψ (by simp [F.opSubs, h])))
      (ih2 (fun ψ h => hφ ψ (by simp [F.opSubs, h])))
  | tb2 op a b φ ψ ih1 ih2 =>
    exact node2 (.tb2 op a b φ ψ) (hφ _ (by simp [F.opSubs])) (ih1 (fun ψ h => hφ ψ (by simp [F.opSubs, h])))
      (ih2 (fun ψ h => hφ ψ (by simp [F.opSubs, h])))

/-! ### all rounds -/

omit [DecidableEq α] in
theorem go_cons_iff (cfg : DCfg) (φ : F α) (t : OnSt α) (b : String → ASig α) (bs : List (String → ASig α))
    (os : List (ASig α)) :
    runOn.go cfg φ t (b :: bs) = .ok os ↔
      ∃ t1 w os', stepOn cfg b φ t = .ok (t1, w) ∧ runOn.go cfg φ t1 bs = .ok os' ∧ os = w :: os' := by
  simp only [runOn.go, bind_eq_ok, pure_eq_ok, Prod.exists]
  constructor
  · rintro ⟨t1, w, h1, os', h2, rfl⟩; exact ⟨t1, w, os', h1, h2, rfl⟩
  · rintro ⟨t1, w, os', h1, h2, rfl⟩; exact ⟨t1, w, h1, os', h2, rfl⟩

omit [DecidableEq α] in
theorem go_length (cfg : DCfg) (φ : F α) : ∀ (bs : List (String → ASig α)) (t : OnSt α) (os : List (ASig α)),
    runOn.go cfg φ t bs = .ok os → os.length = bs.length := by
  intro bs
  induction bs with
  | nil =>
    intro t os h
    simp only [runOn.go, pure_eq_ok] at h
    subst h; rfl
  | cons b bs ih =>
    intro t os h
    obtain ⟨t1, w, os', _, hr, rfl⟩ := (go_cons_iff cfg φ t b bs os).1 h
    simp [ih t1 os' hr]

theorem runSpecs_ok (cfg : DCfg) (specs : List (F α)) :
    ∀ (bs : List (String → ASig α)) (st0 : StoreOn α) (sent : Bool) (R0 : F α → NSt α)
      (O : F α → List (ASig α)),
      (∀ ψ, InSpecs specs ψ → st0.lookup ψ = some (R0 ψ)) →
      (∀ φ, (φ ∈ specs ∨ InSpecs specs φ) → runOn.go cfg φ (treeOf R0 sent φ) bs = .ok (O φ)) →
      ∃ rounds, runSpecsOn cfg specs st0 sent bs = .ok rounds ∧ rounds.length = bs.length ∧
        ∀ j (hj : j < rounds.length),
          (rounds[j]).1 = specs.map (fun φ => (O φ).getD j []) ∧
          ∀ ψ, InSpecs specs ψ → (rounds[j]).2.lookup ψ = some ((O ψ).getD j []) := by
  intro bs
  induction bs with
  | nil =>
    intro st0 sent R0 O _ _
    exact ⟨[], rfl, rfl, fun j hj => absurd hj (by simp)⟩
  | cons e es ih =>
    intro st0 sent R0 O h0 hrun
    have hstep : ∀ φ, (φ ∈ specs ∨ InSpecs specs φ) →
        ∃ t1 w os', Steps cfg e sent R0 φ t1 w ∧ runOn.go cfg φ t1 es = .ok os' ∧ O φ = w :: os' := by
      intro φ hφ
      exact (go_cons_iff cfg φ _ e es _).1 (hrun φ hφ)
    have Hstep : ∀ ψ, InSpecs specs ψ → ∃ t w, Steps cfg e sent R0 ψ t w := by
      intro ψ hψ
      obtain ⟨t1, w, _, h, _⟩ := hstep ψ (Or.inr hψ)
      exact ⟨t1, w, h⟩
    obtain ⟨st', mm', hv, hpost⟩ := round_ok cfg e sent R0 specs st0 h0 Hstep
    let R1 : F α → NSt α := fun ψ => (st'.lookup ψ).getD .unit
    have hR1 : ∀ ψ, InSpecs specs ψ → R1 ψ = rootSt (stepTr cfg e sent R0 ψ) := by
      intro ψ hψ
      show (st'.lookup ψ).getD .unit = _
      rw [(hpost ψ hψ).2]; rfl
    have hsubs : ∀ φ, (φ ∈ specs ∨ InSpecs specs φ) → ∀ ψ ∈ φ.opSubs, InSpecs specs ψ := by
      intro φ hφ ψ hψ
      rcases hφ with h | ⟨φ', h1, h2⟩
      · exact ⟨φ, h, hψ⟩
      · exact ⟨φ', h1, opSubs_trans h2 hψ⟩
    obtain ⟨rounds, hr, hlen, hrounds⟩ := ih st' true R1 (fun φ => (O φ).tail)
      (fun ψ hψ => by
        show st'.lookup ψ = some ((st'.lookup ψ).getD .unit)
        rw [(hpost ψ hψ).2]; rfl)
      (fun φ hφ => by
        obtain ⟨t1, w, os', h1, h2, h3⟩ := hstep φ hφ
        obtain ⟨w', hw'⟩ := treeStep_all cfg e sent (InSpecs specs) R0 R1 Hstep hR1 φ (hsubs φ hφ)
        unfold Steps at h1
        rw [h1] at hw'
        simp only [Except.ok.injEq, Prod.mk.injEq] at hw'
        rw [← hw'.1, h3]
        exact h2)
    refine ⟨(specs.map (stepVal cfg e sent R0), mm') :: rounds, ?_, by simp [hlen], ?_⟩
    · simp only [runSpecsOn, updateSpecsOn, hv, hr, bind, Except.bind, pure, Except.pure]
    · intro j hj
      have hval : ∀ φ, (φ ∈ specs ∨ InSpecs specs φ) →
          stepVal cfg e sent R0 φ = (O φ).getD 0 [] := by
        intro φ hφ
        obtain ⟨t1, w, os', h1, h2, h3⟩ := hstep φ hφ
        rw [h1.val, h3]; rfl
      cases j with
      | zero =>
        refine ⟨?_, ?_⟩
        · show specs.map (stepVal cfg e sent R0) = _
          exact List.map_congr_left (fun φ hφ => hval φ (Or.inl hφ))
        · intro ψ hψ
          show mm'.lookup ψ = _
          rw [(hpost ψ hψ).1, hval ψ (Or.inr hψ)]
      | succ j =>
        have hj' : j < rounds.length := by simpa using hj
        obtain ⟨h1, h2⟩ := hrounds j hj'
        refine ⟨?_, ?_⟩
        · show (rounds[j]).1 = _
          rw [h1]
          apply List.map_congr_left
          intro φ _
          cases O φ <;> simp
        · intro ψ hψ
          show (rounds[j]).2.lookup ψ = _
          rw [h2 ψ hψ]
          cases O ψ <;> simp

/-! ### construction -/

/-- The state the construction visitor registers for a node (a default where it raises). -/
def initR (ψ : F α) : NSt α :=
  match initNodeOn ψ with
  | .ok s => s
  | .error _ => .unit

omit [DecidableEq α] in
theorem initOn_node1 {χ φ : F α} (hn : Node1 χ φ) (t : OnSt α) :
    initOn χ = .ok t ↔ ∃ c s0, initOn φ = .ok c ∧ initNodeOn χ = .ok s0 ∧ t = build1 s0 c := by
  cases hn with
  | un op φ =>
    simp only [initOn, initNodeOn, bind_eq_ok, pure_eq_ok, Except.ok.injEq]
    constructor
    · rintro ⟨c, h, rfl⟩; exact ⟨c, _, h, rfl, rfl⟩
    · rintro ⟨c, s0, h, rfl, rfl⟩; exact ⟨c, h, rfl⟩
  | tmp1 op φ =>
    cases op <;> simp only [initOn, initNodeOn, bind_eq_ok, pure_eq_ok, Except.ok.injEq, reduceCtorEq,
      false_and, and_false, exists_false]
    all_goals
      constructor
      · rintro ⟨c, h, rfl⟩; exact ⟨c, _, h, rfl, rfl⟩
      · rintro ⟨c, s0, h, rfl, rfl⟩; exact ⟨c, h, rfl⟩
  | tb1 op a b φ =>
    cases op <;> simp only [initOn, initNodeOn, bind_eq_ok, pure_eq_ok, Except.ok.injEq, reduceCtorEq,
      false_and, and_false, exists_false]
    all_goals
      constructor
      · rintro ⟨c, h, rfl⟩; exact ⟨c, _, h, rfl, rfl⟩
      · rintro ⟨c, s0, h, rfl, rfl⟩; exact ⟨c, h, rfl⟩

omit [DecidableEq α] in
theorem initOn_node2 {χ φ ψ : F α} (hn : Node2 χ φ ψ) (t : OnSt α) :
    initOn χ = .ok t ↔
      ∃ l r s0, initOn φ = .ok l ∧ initOn ψ = .ok r ∧ initNodeOn χ = .ok s0 ∧ t = build2 s0 l r := by
  cases hn with
  | bin op φ ψ =>
    cases op <;> simp only [initOn, initNodeOn, bind_eq_ok, pure_eq_ok, Except.ok.injEq, reduceCtorEq,
      false_and, and_false, exists_false]
    all_goals
      constructor
      · rintro ⟨l, h1, r, h2, rfl⟩; exact ⟨l, r, _, h1, h2, rfl, rfl⟩
      · rintro ⟨l, r, s0, h1, h2, rfl, rfl⟩; exact ⟨l, h1, r, h2, rfl⟩
  | tmp2 op φ ψ =>
    cases op <;> simp only [initOn, initNodeOn, bind_eq_ok, pure_eq_ok, Except.ok.injEq, reduceCtorEq,
      false_and, and_false, exists_false]
    all_goals
      constructor
      · rintro ⟨l, h1, r, h2, rfl⟩; exact ⟨l, r, _, h1, h2, rfl, rfl⟩
      · rintro ⟨l, r, s0, h1, h2, rfl, rfl⟩; exact ⟨l, h1, r, h2, rfl⟩
  | tb2 op a b φ ψ =>
    cases op <;> simp only [initOn, initNodeOn, bind_eq_ok, pure_eq_ok, Except.ok.injEq, reduceCtorEq,
      false_and, and_false, exists_false]
    all_goals
      constructor
      · rintro ⟨l, h1, r, h2, rfl⟩; exact ⟨l, r, _, h1, h2, rfl, rfl⟩
      · rintro ⟨l, r, s0, h1, h2, rfl, rfl⟩; exact ⟨l, h1, r, h2, rfl⟩

theorem Node1.initStore {χ φ : F α} (hn : Node1 χ φ) (st : StoreOn α) :
    initStoreOnF χ st = (do
      let st1 ← initStoreOnF φ st
      let s0 ← initNodeOn χ
      pure (st1.set χ s0)) := by cases hn <;> rfl

theorem Node2.initStore {χ φ ψ : F α} (hn : Node2 χ φ ψ) (st : StoreOn α) :
    initStoreOnF χ st = (do
      let st1 ← initStoreOnF φ st
      let st2 ← initStoreOnF ψ st1
      let s0 ← initNodeOn χ
      pure (st2.set χ s0)) := by cases hn <;> rfl

def InitOK (φ : F α) : Prop :=
  ∀ t, initOn φ = .ok t →
    t = treeOf initR false φ ∧ ∀ st : StoreOn α, ∃ st', initStoreOnF φ st = .ok st' ∧
      (∀ ψ ∈ φ.opSubs, st'.lookup ψ = some (initR ψ)) ∧
      (∀ ψ, ψ ∉ φ.opSubs → st'.lookup ψ = st.lookup ψ)

theorem initOK_node1 {χ φ : F α} (hn : Node1 χ φ) (ih : InitOK φ) : InitOK χ := by
  intro t ht
  have hsubs := hn.subs
  obtain ⟨c, s0, hc, hs0, rfl⟩ := (initOn_node1 hn t).1 ht
  have hR : initR χ = s0 := by simp [initR, hs0]
  obtain ⟨hc', hst⟩ := ih c hc
  refine ⟨by rw [hn.tree, hR, hc'], ?_⟩
  intro st
  obtain ⟨st1, h1, h2, h3⟩ := hst st
  refine ⟨st1.set χ s0, ?_, ?_, ?_⟩
  · rw [hn.initStore]
    simp only [h1, hs0, bind, Except.bind, pure, Except.pure]
  · intro ψ hψ
    rw [hsubs] at hψ
    by_cases hk : ψ = χ
    · subst hk; rw [lookup_set_eq, hR]
    · rw [lookup_set_ne _ _ _ _ hk]
      rcases List.mem_cons.1 hψ with h' | h'
      · exact absurd h' hk
      · exact h2 ψ h'
  · intro ψ hψ
    rw [hsubs] at hψ
    have hk : ψ ≠ χ := fun h' => hψ (h' ▸ List.mem_cons_self)
    rw [lookup_set_ne _ _ _ _ hk]
    exact h3 ψ (fun h' => hψ (List.mem_cons_of_mem _ h'))

theorem initOK_node2 {χ φ1 φ2 : F α} (hn : Node2 χ φ1 φ2) (ih1 : InitOK φ1) (ih2 : InitOK φ2) :
    InitOK χ := by
  intro t ht
  have hsubs := hn.subs
  obtain ⟨c1, c2, s0, hc1, hc2, hs0, rfl⟩ := (initOn_node2 hn t).1 ht
  have hR : initR χ = s0 := by simp [initR, hs0]
  obtain ⟨hc1', hst1⟩ := ih1 c1 hc1
  obtain ⟨hc2', hst2⟩ := ih2 c2 hc2
  refine ⟨by rw [hn.tree, hR, hc1', hc2'], ?_⟩
  intro st
  obtain ⟨st1, h1, h2, h3⟩ := hst1 st
  obtain ⟨st2, h1', h2', h3'⟩ := hst2 st1
  refine ⟨st2.set χ s0, ?_, ?_, ?_⟩
  · rw [hn.initStore]
    simp only [h1, h1', hs0, bind, Except.bind, pure, Except.pure]
  · intro ψ hψ
    rw [hsubs] at hψ
    by_cases hk : ψ = χ
    · subst hk; rw [lookup_set_eq, hR]
    · rw [lookup_set_ne _ _ _ _ hk]
      rcases List.mem_cons.1 hψ with h' | h'
      · exact absurd h' hk
      · by_cases hin : ψ ∈ φ2.opSubs
        · exact h2' ψ hin
        · rw [h3' ψ hin]
          rcases List.mem_append.1 h' with h'' | h''
          · exact h2 ψ h''
          · exact absurd h'' hin
  · intro ψ hψ
    rw [hsubs] at hψ
    have hk : ψ ≠ χ := fun h' => hψ (h' ▸ List.mem_cons_self)
    rw [lookup_set_ne _ _ _ _ hk]
    rw [h3' ψ (fun h' => hψ (List.mem_cons_of_mem _ (List.mem_append_right _ h')))]
    exact h3 ψ (fun h' => hψ (List.mem_cons_of_mem _ (List.mem_append_left _ h')))

theorem initOK_all (φ : F α) : InitOK φ := by
  induction φ with
  | var x =>
    intro t ht
    simp only [initOn, Except.ok.injEq] at ht
    refine ⟨ht.symm, fun st => ⟨st, rfl, ?_, fun _ _ => rfl⟩⟩
    intro ψ hψ; simp [F.opSubs] at hψ
  | const c =>
    intro t ht
    simp only [initOn, Except.ok.injEq] at ht
    refine ⟨ht.symm, fun st => ⟨st, rfl, ?_, fun _ _ => rfl⟩⟩
    intro ψ hψ; simp [F.opSubs] at hψ
  | un op φ ih => exact initOK_node1 (.un op φ) ih
  | tmp1 op φ ih => exact initOK_node1 (.tmp1 op φ) ih
  | tb1 op a b φ ih => exact initOK_node1 (.tb1 op a b φ) ih
  | bin op φ ψ ih1 ih2 => exact initOK_node2 (.bin op φ ψ) ih1 ih2
  | tmp2 op φ ψ ih1 ih2 => exact initOK_node2 (.tmp2 op φ ψ) ih1 ih2
  | tb2 op a b φ ψ ih1 ih2 => exact initOK_node2 (.tb2 op a b φ ψ) ih1 ih2

theorem initStore_ok (specs : List (F α)) :
    ∀ st : StoreOn α, (∀ φ ∈ specs, ∃ t, initOn φ = .ok t) →
      ∃ st', initStoreOn specs st = .ok st' ∧
        (∀ ψ, InSpecs specs ψ → st'.lookup ψ = some (initR ψ)) ∧
        (∀ ψ, ¬ InSpecs specs ψ → st'.lookup ψ = st.lookup ψ) := by
  induction specs with
  | nil =>
    intro st _
    refine ⟨st, rfl, ?_, fun _ _ => rfl⟩
    rintro ψ ⟨φ, hφ, _⟩
    simp at hφ
  | cons φ rest ih =>
    intro st hinit
    obtain ⟨t, ht⟩ := hinit φ List.mem_cons_self
    obtain ⟨_, hst⟩ := initOK_all φ t ht
    obtain ⟨st1, h1, h2, h3⟩ := hst st
    obtain ⟨st', h1', h2', h3'⟩ := ih st1 (fun φ' hφ' => hinit φ' (List.mem_cons_of_mem _ hφ'))
    refine ⟨st', ?_, ?_, ?_⟩
    · simp only [initStoreOn, h1, h1', bind, Except.bind]
    · rintro ψ ⟨φ', hφ', hψ⟩
      by_cases hin : InSpecs rest ψ
      · exact h2' ψ hin
      · rw [h3' ψ hin]
        rcases List.mem_cons.1 hφ' with rfl | h'
        · exact h2 ψ hψ
        · exact absurd ⟨φ', h', hψ⟩ hin
    · intro ψ hψ
      rw [h3' ψ (fun ⟨φ', h', h''⟩ => hψ ⟨φ', List.mem_cons_of_mem _ h', h''⟩)]
      exact h3 ψ (fun h' => hψ ⟨φ, List.mem_cons_self, h'⟩)

omit [DecidableEq α] in
theorem runOn_iff (cfg : DCfg) (φ : F α) (bs : List (String → ASig α)) (os : List (ASig α)) :
    runOn cfg φ bs = .ok os ↔ ∃ t0, initOn φ = .ok t0 ∧ runOn.go cfg φ t0 bs = .ok os := by
  simp only [runOn, bind_eq_ok]

/-! ### conversely: a run of the interpreter that raises nothing witnesses the runs of the trees -/

omit [DecidableEq α] in
theorem steps_of_subs (cfg : DCfg) (inp : String → ASig α) (sent : Bool) (R0 : F α → NSt α) (φ : F α)
    (h : ∀ ψ ∈ φ.opSubs, ∃ t w, Steps cfg inp sent R0 ψ t w) : ∃ t w, Steps cfg inp sent R0 φ t w := by
  cases φ with
  | var x => exact ⟨_, _, rfl⟩
  | const c => exact ⟨_, _, rfl⟩
  | un op φ => exact h _ (by simp [F.opSubs])
  | bin op φ ψ => exact h _ (by simp [F.opSubs])
  | tmp1 op φ => exact h _ (by simp [F.opSubs])
  | tmp2 op φ ψ => exact h _ (by simp [F.opSubs])
  | tb1 op a b φ => exact h _ (by simp [F.opSubs])
  | tb2 op a b φ ψ => exact h _ (by simp [F.opSubs])

theorem runSpecs_conv (cfg : DCfg) (specs : List (F α)) :
    ∀ (bs : List (String → ASig α)) (st0 : StoreOn α) (sent : Bool) (R0 : F α → NSt α)
      (rounds : List (List (ASig α) × MemoOn α)),
      (∀ ψ, InSpecs specs ψ → st0.lookup ψ = some (R0 ψ)) →
      runSpecsOn cfg specs st0 sent bs = .ok rounds →
      ∀ φ, (φ ∈ specs ∨ InSpecs specs φ) → ∃ os, runOn.go cfg φ (treeOf R0 sent φ) bs = .ok os := by
  intro bs
  induction bs with
  | nil => intro st0 sent R0 rounds _ _ φ _; exact ⟨[], rfl⟩
  | cons e es ih =>
    intro st0 sent R0 rounds h0 hrun φ hφ
    simp only [runSpecsOn] at hrun
    obtain ⟨⟨vs, mm, st'⟩, hupd, hrun⟩ := bind_eq_ok.1 hrun
    obtain ⟨rounds', hrest, _⟩ := bind_eq_ok.1 hrun
    simp only [updateSpecsOn] at hupd
    obtain ⟨⟨vs', st'', mm''⟩, hvis, hpure⟩ := bind_eq_ok.1 hupd
    simp only [pure_eq_ok, Prod.mk.injEq] at hpure
    obtain ⟨rfl, rfl, rfl⟩ := hpure
    have hinv : Inv cfg e sent (InSpecs specs) R0 (st0, []) := by
      intro ψ hψ
      refine ⟨fun _ => h0 ψ hψ, fun w hw => ?_⟩
      simp at hw
    have HstepS := visitSpecs_conv cfg e sent (InSpecs specs) R0 specs (st0, []) hinv
      (fun φ hφ ψ hψ => ⟨φ, hφ, hψ⟩) _ _ hvis
    have Hstep : ∀ ψ, InSpecs specs ψ → ∃ t w, Steps cfg e sent R0 ψ t w :=
      fun ψ ⟨φ, hφ, hψ⟩ => HstepS φ hφ ψ hψ
    have Hall : ∀ φ, (φ ∈ specs ∨ InSpecs specs φ) → ∃ t w, Steps cfg e sent R0 φ t w := by
      rintro φ (h | h)
      · exact steps_of_subs cfg e sent R0 φ (HstepS φ h)
      · exact Hstep φ h
    obtain ⟨st1, mm1, hv, hpost⟩ := round_ok cfg e sent R0 specs st0 h0 Hstep
    rw [hvis] at hv
    simp only [Except.ok.injEq, Prod.mk.injEq] at hv
    obtain ⟨_, rfl, rfl⟩ := hv
    let R1 : F α → NSt α := fun ψ => (st''.lookup ψ).getD .unit
    have hR1 : ∀ ψ, InSpecs specs ψ → R1 ψ = rootSt (stepTr cfg e sent R0 ψ) := by
      intro ψ hψ
      show (st''.lookup ψ).getD .unit = _
      rw [(hpost ψ hψ).2]; rfl
    have hsubs : ∀ ψ ∈ φ.opSubs, InSpecs specs ψ := by
      intro ψ hψ
      rcases hφ with h | ⟨φ', h1, h2⟩
      · exact ⟨φ, h, hψ⟩
      · exact ⟨φ', h1, opSubs_trans h2 hψ⟩
    obtain ⟨os', hos'⟩ := ih st'' true R1 rounds'
      (fun ψ hψ => by
        show st''.lookup ψ = some ((st''.lookup ψ).getD .unit)
        rw [(hpost ψ hψ).2]; rfl) hrest φ hφ
    obtain ⟨w, hw⟩ := treeStep_all cfg e sent (InSpecs specs) R0 R1 Hstep hR1 φ hsubs
    exact ⟨w :: os', (go_cons_iff cfg φ _ e es _).2 ⟨_, w, os', hw, hos', rfl⟩⟩

theorem initOn_of_storeF (φ : F α) : ∀ st st' : StoreOn α, initStoreOnF φ st = .ok st' → ∃ t, initOn φ = .ok t := by
  induction φ with
  | var x => intro _ _ _; exact ⟨_, rfl⟩
  | const c => intro _ _ _; exact ⟨_, rfl⟩
  | un op φ ih =>
    intro st st' h
    rw [Node1.initStore (.un op φ)] at h
    obtain ⟨st1, h1, h⟩ := bind_eq_ok.1 h
    obtain ⟨s0, h2, _⟩ := bind_eq_ok.1 h
    obtain ⟨c, hc⟩ := ih st st1 h1
    exact ⟨_, (initOn_node1 (.un op φ) _).2 ⟨c, s0, hc, h2, rfl⟩⟩
  | tmp1 op φ ih =>
    intro st st' h
    rw [Node1.initStore (.tmp1 op φ)] at h
    obtain ⟨st1, h1, h⟩ := bind_eq_ok.1 h
    obtain ⟨s0, h2, _⟩ := bind_eq_ok.1 h
    obtain ⟨c, hc⟩ := ih st st1 h1
    exact ⟨_, (initOn_node1 (.tmp1 op φ) _).2 ⟨c, s0, hc, h2, rfl⟩⟩
  | tb1 op a b φ ih =>
    intro st st' h
    rw [Node1.initStore (.tb1 op a b φ)] at h
    obtain ⟨st1, h1, h⟩ := bind_eq_ok.1 h
    obtain ⟨s0, h2, _⟩ := bind_eq_ok.1 h
    obtain ⟨c, hc⟩ := ih st st1 h1
    exact ⟨_, (initOn_node1 (.tb1 op a b φ) _).2 ⟨c, s0, hc, h2, rfl⟩⟩
  | bin op φ ψ ih1 ih2 =>
    intro st st' h
    rw [Node2.initStore (.bin op φ ψ)] at h
    obtain ⟨st1, h1, h⟩ := bind_eq_ok.1 h
    obtain ⟨st2, h1', h⟩ := bind_eq_ok.1 h
    obtain ⟨s0, h2, _⟩ := bind_eq_ok.1 h
    obtain ⟨l, hl⟩ := ih1 st st1 h1
    obtain ⟨r, hr⟩ := ih2 st1 st2 h1'
    exact ⟨_, (initOn_node2 (.bin op φ ψ) _).2 ⟨l, r, s0, hl, hr, h2, rfl⟩⟩
  | tmp2 op φ ψ ih1 ih2 =>
    intro st st' h
    rw [Node2.initStore (.tmp2 op φ ψ)] at h
    obtain ⟨st1, h1, h⟩ := bind_eq_ok.1 h
    obtain ⟨st2, h1', h⟩ := bind_eq_ok.1 h
    obtain ⟨s0, h2, _⟩ := bind_eq_ok.1 h
    obtain ⟨l, hl⟩ := ih1 st st1 h1
    obtain ⟨r, hr⟩ := ih2 st1 st2 h1'
    exact ⟨_, (initOn_node2 (.tmp2 op φ ψ) _).2 ⟨l, r, s0, hl, hr, h2, rfl⟩⟩
  | tb2 op a b φ ψ ih1 ih2 =>
    intro st st' h
    rw [Node2.initStore (.tb2 op a b φ ψ)] at h
    obtain ⟨st1, h1, h⟩ := bind_eq_ok.1 h
    obtain ⟨st2, h1', h⟩ := bind_eq_ok.1 h
    obtain ⟨s0, h2, _⟩ := bind_eq_ok.1 h
    obtain ⟨l, hl⟩ := ih1 st st1 h1
    obtain ⟨r, hr⟩ := ih2 st1 st2 h1'
    exact ⟨_, (initOn_node2 (.tb2 op a b φ ψ) _).2 ⟨l, r, s0, hl, hr, h2, rfl⟩⟩

theorem initOn_of_store (specs : List (F α)) : ∀ st st' : StoreOn α, initStoreOn specs st = .ok st' →
    ∀ φ ∈ specs, ∃ t, initOn φ = .ok t := by
  induction specs with
  | nil => intro _ _ _ φ hφ; simp at hφ
  | cons φ rest ih =>
    intro st st' h φ' hφ'
    simp only [initStoreOn] at h
    obtain ⟨st1, h1, h2⟩ := bind_eq_ok.1 h
    rcases List.mem_cons.1 hφ' with rfl | hφ'
    · exact initOn_of_storeF _ st st1 h1
    · exact ih st1 st' h2 φ' hφ'

/-! ### the run of an assertion contains the runs of its sub-formulas -/

omit [DecidableEq α] in
theorem go_sub1 (cfg : DCfg) {χ φ : F α} (hn : Node1 χ φ) :
    ∀ (bs : List (String → ASig α)) (s : NSt α) (c : OnSt α) (os : List (ASig α)),
      runOn.go cfg χ (build1 s c) bs = .ok os → ∃ os', runOn.go cfg φ c bs = .ok os' := by
  intro bs
  induction bs with
  | nil => intro s c os _; exact ⟨[], rfl⟩
  | cons b bs ih =>
    intro s c os h
    obtain ⟨t1, w, os1, h1, h2, rfl⟩ := (go_cons_iff cfg χ _ b bs os).1 h
    obtain ⟨c', v, s', hc, _, rfl, _⟩ := (stepOn_node1 cfg b hn _ _ _ _).1 h1
    obtain ⟨os', h3⟩ := ih s' c' os1 h2
    exact ⟨v :: os', (go_cons_iff cfg φ _ b bs _).2 ⟨c', v, os', hc, h3, rfl⟩⟩

omit [DecidableEq α] in
theorem go_sub2 (cfg : DCfg) {χ φ ψ : F α} (hn : Node2 χ φ ψ) :
    ∀ (bs : List (String → ASig α)) (s : NSt α) (l r : OnSt α) (os : List (ASig α)),
      runOn.go cfg χ (build2 s l r) bs = .ok os →
        (∃ os', runOn.go cfg φ l bs = .ok os') ∧ (∃ os', runOn.go cfg ψ r bs = .ok os') := by
  intro bs
  induction bs with
  | nil => intro s l r os _; exact ⟨⟨[], rfl⟩, ⟨[], rfl⟩⟩
  | cons b bs ih =>
    intro s l r os h
    obtain ⟨t1, w, os1, h1, h2, rfl⟩ := (go_cons_iff cfg χ _ b bs os).1 h
    obtain ⟨l', v1, r', v2, s', hc1, hc2, _, rfl, _⟩ := (stepOn_node2 cfg b hn _ _ _ _ _).1 h1
    obtain ⟨⟨os1', h3⟩, ⟨os2', h4⟩⟩ := ih s' l' r' os1 h2
    exact ⟨⟨v1 :: os1', (go_cons_iff cfg φ _ b bs _).2 ⟨l', v1, os1', hc1, h3, rfl⟩⟩,
      ⟨v2 :: os2', (go_cons_iff cfg ψ _ b bs _).2 ⟨r', v2, os2', hc2, h4, rfl⟩⟩⟩

omit [DecidableEq α] in
/-- If the stand-alone run of `φ` raises nothing, neither does the stand-alone run of any operator sub-formula. -/
theorem runOn_sub (cfg : DCfg) (bs : List (String → ASig α)) (φ : F α) :
    (∃ os, runOn cfg φ bs = .ok os) → ∀ ψ ∈ φ.opSubs, ∃ os', runOn cfg ψ bs = .ok os' := by
  have node1 : ∀ {χ φ : F α}, Node1 χ φ →
      ((∃ os, runOn cfg φ bs = .ok os) → ∀ ψ ∈ φ.opSubs, ∃ os', runOn cfg ψ bs = .ok os') →
      (∃ os, runOn cfg χ bs = .ok os) → ∀ ψ ∈ χ.opSubs, ∃ os', runOn cfg ψ bs = .ok os' := by
    intro χ φ hn ih ⟨os, h⟩ ψ hψ
    rw [hn.subs] at hψ
    rcases List.mem_cons.1 hψ with rfl | hψ
    · exact ⟨os, h⟩
    · obtain ⟨t0, hi, hg⟩ := (runOn_iff cfg χ bs os).1 h
      obtain ⟨c, s0, hc, _, rfl⟩ := (initOn_node1 hn t0).1 hi
      obtain ⟨os', h'⟩ := go_sub1 cfg hn bs s0 c os hg
      exact ih ⟨os', (runOn_iff cfg φ bs os').2 ⟨c, hc, h'⟩⟩ ψ hψ
  have node2 : ∀ {χ φ1 φ2 : F α}, Node2 χ φ1 φ2 →
      ((∃ os, runOn cfg φ1 bs = .ok os) → ∀ ψ ∈ φ1.opSubs, ∃ os', runOn cfg ψ bs = .ok os') →
      ((∃ os, runOn cfg φ2 bs = .ok os) → ∀ ψ ∈ φ2.opSubs, ∃ os', runOn cfg ψ bs = .ok os') →
      (∃ os, runOn cfg χ bs = .ok os) → ∀ ψ ∈ χ.opSubs, ∃ os', runOn cfg ψ bs = .ok os' := by
    intro χ φ1 φ2 hn ih1 ih2 ⟨os, h⟩ ψ hψ
    rw [hn.subs] at hψ
    rcases List.mem_cons.1 hψ with rfl | hψ
    · exact ⟨os, h⟩
    · obtain ⟨t0, hi, hg⟩ := (runOn_iff cfg χ bs os).1 h
      obtain ⟨l, r, s0, hl, hr, _, rfl⟩ := (initOn_node2 hn t0).1 hi
      obtain ⟨⟨os1, h1⟩, ⟨os2, h2⟩⟩ := go_sub2 cfg hn bs s0 l r os hg
      rcases List.mem_append.1 hψ with hψ | hψ
      · exact ih1 ⟨os1, (runOn_iff cfg φ1 bs os1).2 ⟨l, hl, h1⟩⟩ ψ hψ
      · exact ih2 ⟨os2, (runOn_iff cfg φ2 bs os2).2 ⟨r, hr, h2⟩⟩ ψ hψ
  induction φ with
  | var x => intro _ ψ hψ; simp [F.opSubs] at hψ
  | const c => intro _ ψ hψ; simp [F.opSubs] at hψ
  | un op φ ih => exact node1 (.un op φ) ih
  | tmp1 op φ ih => exact node1 (.tmp1 op φ) ih
  | tb1 op a b φ ih => exact node1 (.tb1 op a b φ) ih
  | bin op φ ψ ih1 ih2 => exact node2 (.bin op φ ψ) ih1 ih2
  | tmp2 op φ ψ ih1 ih2 => exact node2 (.tmp2 op φ ψ) ih1 ih2
  | tb2 op a b φ ψ ih1 ih2 => exact node2 (.tb2 op a b φ ψ) ih1 ih2

omit [DecidableEq α] in
theorem runOn_length {cfg : DCfg} {φ : F α} {bs : List (String → ASig α)} {os : List (ASig α)}
    (h : runOn cfg φ bs = .ok os) : os.length = bs.length := by
  obtain ⟨t0, _, hg⟩ := (runOn_iff cfg φ bs os).1 h
  exact go_length cfg φ bs t0 os hg

/-- The lists the stand-alone run of `φ` returns (`[]` if it raises). -/
def outsOf (cfg : DCfg) (bs : List (String → ASig α)) (φ : F α) : List (ASig α) :=
  match runOn cfg φ bs with
  | .ok os => os
  | .error _ => []

omit [DecidableEq α] in
theorem outsOf_eq {cfg : DCfg} {bs : List (String → ASig α)} {φ : F α} {os : List (ASig α)}
    (h : runOn cfg φ bs = .ok os) : outsOf cfg bs φ = os := by
  simp [outsOf, h]

end C09Dense

open C09Dense

/-- Refinement (dense time, online): if the stand-alone state tree of every assertion and of every operator
    sub-formula `ψ` of the assertions returns the lists `O ψ` on the batches `bs`, then the dictionary-and-memo
    interpreter returns, at update `j`, the `j`-th stand-alone list of every assertion — whatever the sharing between
    and inside the assertions — and its memo holds the `j`-th stand-alone list of every operator sub-formula (C12). -/
theorem C09_dense_program_refines_trees_O (cfg : DCfg) (specs : List (F α)) (bs : List (String → ASig α))
    (O : F α → List (ASig α))
    (hO : ∀ φ ∈ specs, ∀ ψ ∈ φ.opSubs, runOn cfg ψ bs = .ok (O ψ))
    (hleaf : ∀ φ ∈ specs, runOn cfg φ bs = .ok (O φ)) :
    ∃ rounds, runProgramOn cfg specs bs = .ok rounds ∧ rounds.length = bs.length ∧
      ∀ j (hj : j < rounds.length),
        (rounds[j]).1 = specs.map (fun φ => (O φ).getD j []) ∧
        ∀ φ ∈ specs, ∀ ψ ∈ φ.opSubs, (rounds[j]).2.lookup ψ = some ((O ψ).getD j []) := by
  have hall : ∀ φ, (φ ∈ specs ∨ InSpecs specs φ) → runOn cfg φ bs = .ok (O φ) := by
    rintro φ (hφ | ⟨φ', h1, h2⟩)
    · exact hleaf φ hφ
    · exact hO φ' h1 φ h2
  obtain ⟨st0, hst0, hlook, _⟩ := initStore_ok specs [] (fun φ hφ => by
    obtain ⟨t0, hi, _⟩ := (runOn_iff cfg φ bs _).1 (hleaf φ hφ)
    exact ⟨t0, hi⟩)
  obtain ⟨rounds, hr, hlen, hrounds⟩ := runSpecs_ok cfg specs bs st0 false initR O hlook (fun φ hφ => by
    obtain ⟨t0, hi, hrun⟩ := (runOn_iff cfg φ bs _).1 (hall φ hφ)
    obtain ⟨ht0, _⟩ := initOK_all φ t0 hi
    exact ht0 ▸ hrun)
  refine ⟨rounds, ?_, hlen, ?_⟩
  · simp only [runProgramOn, hst0, hr, bind, Except.bind]
  · intro j hj
    obtain ⟨h1, h2⟩ := hrounds j hj
    exact ⟨h1, fun φ hφ ψ hψ => h2 ψ ⟨φ, hφ, hψ⟩⟩

/-- **C09 / C12, dense time, online.**  For every list of assertions `specs` (sharing and repeating sub-formulas at
    will) and every sequence of batches: if the stand-alone state tree of every assertion `φ` raises nothing and returns
    the lists `outs φ`, then the dictionary-and-memo interpreter raises nothing, makes one round per batch, returns in
    round `j` the `j`-th stand-alone list of every assertion, and its memo of round `j` holds, for every operator
    sub-formula `ψ` of every assertion, the `j`-th list of the stand-alone run of `ψ` (which raises nothing either). -/
theorem C09_dense_program_refines_trees (cfg : DCfg) (specs : List (F α)) (bs : List (String → ASig α))
    (outs : F α → List (ASig α))
    (h : ∀ φ ∈ specs, runOn cfg φ bs = .ok (outs φ)) :
    ∃ rounds, runProgramOn cfg specs bs = .ok rounds ∧ rounds.length = bs.length ∧
      ∀ j (hj : j < rounds.length),
        (rounds[j]).1 = specs.map (fun φ => (outs φ).getD j []) ∧
        ∀ φ ∈ specs, ∀ ψ ∈ φ.opSubs, ∃ o, runOn cfg ψ bs = .ok o ∧ o.length = bs.length ∧
          (rounds[j]).2.lookup ψ = some (o.getD j []) := by
  have hsub : ∀ φ ∈ specs, ∀ ψ ∈ φ.opSubs, runOn cfg ψ bs = .ok (outsOf cfg bs ψ) := by
    intro φ hφ ψ hψ
    obtain ⟨os, hos⟩ := runOn_sub cfg bs φ ⟨_, h φ hφ⟩ ψ hψ
    rw [outsOf_eq hos]; exact hos
  obtain ⟨rounds, hr, hlen, hrounds⟩ := C09_dense_program_refines_trees_O cfg specs bs (outsOf cfg bs) hsub
    (fun φ hφ => by rw [outsOf_eq (h φ hφ)]; exact h φ hφ)
  refine ⟨rounds, hr, hlen, fun j hj => ?_⟩
  obtain ⟨h1, h2⟩ := hrounds j hj
  refine ⟨?_, fun φ hφ ψ hψ => ⟨_, hsub φ hφ ψ hψ, runOn_length (hsub φ hφ ψ hψ), h2 φ hφ ψ hψ⟩⟩
  rw [h1]
  exact List.map_congr_left (fun φ hφ => by rw [outsOf_eq (h φ hφ)])

/-- **The converse.**  If the dictionary-and-memo interpreter raises nothing on `specs` and `bs`, then the stand-alone
    state tree of every assertion (and of every operator sub-formula) raises nothing either, and the rounds are the
    ones `C09_dense_program_refines_trees` describes.  Together: the interpreter raises an exception if and only if
    the tree of some assertion does. -/
theorem C09_dense_trees_of_program (cfg : DCfg) (specs : List (F α)) (bs : List (String → ASig α))
    (rounds : List (List (ASig α) × MemoOn α)) (h : runProgramOn cfg specs bs = .ok rounds) :
    ∃ outs : F α → List (ASig α), (∀ φ ∈ specs, runOn cfg φ bs = .ok (outs φ)) ∧ rounds.length = bs.length ∧
      ∀ j (hj : j < rounds.length),
        (rounds[j]).1 = specs.map (fun φ => (outs φ).getD j []) ∧
        ∀ φ ∈ specs, ∀ ψ ∈ φ.opSubs, ∃ o, runOn cfg ψ bs = .ok o ∧ o.length = bs.length ∧
          (rounds[j]).2.lookup ψ = some (o.getD j []) := by
  have h' := h
  simp only [runProgramOn] at h'
  obtain ⟨st0, hst0, hrun⟩ := bind_eq_ok.1 h'
  have hinit := initOn_of_store specs [] st0 hst0
  obtain ⟨st0', hst0', hlook, _⟩ := initStore_ok specs [] hinit
  rw [hst0] at hst0'
  simp only [Except.ok.injEq] at hst0'
  subst hst0'
  have hruns : ∀ φ ∈ specs, runOn cfg φ bs = .ok (outsOf cfg bs φ) := by
    intro φ hφ
    obtain ⟨os, hos⟩ := runSpecs_conv cfg specs bs st0 false initR rounds hlook hrun φ (Or.inl hφ)
    obtain ⟨t0, ht0⟩ := hinit φ hφ
    obtain ⟨ht0', _⟩ := initOK_all φ t0 ht0
    have : runOn cfg φ bs = .ok os := (runOn_iff cfg φ bs os).2 ⟨t0, ht0, ht0' ▸ hos⟩
    rw [outsOf_eq this]; exact this
  obtain ⟨rounds', hr', hlen, hrounds⟩ := C09_dense_program_refines_trees cfg specs bs (outsOf cfg bs) hruns
  rw [h] at hr'
  simp only [Except.ok.injEq] at hr'
  subst hr'
  exact ⟨outsOf cfg bs, hruns, hlen, hrounds⟩

/-- The interpreter raises nothing exactly when the stand-alone tree of no assertion does. -/
theorem C09_dense_ok_iff (cfg : DCfg) (specs : List (F α)) (bs : List (String → ASig α)) :
    (∃ rounds, runProgramOn cfg specs bs = .ok rounds) ↔ ∀ φ ∈ specs, ∃ os, runOn cfg φ bs = .ok os := by
  constructor
  · rintro ⟨rounds, h⟩ φ hφ
    obtain ⟨outs, ho, _⟩ := C09_dense_trees_of_program cfg specs bs rounds h
    exact ⟨outs φ, ho φ hφ⟩
  · intro h
    have h' : ∀ φ ∈ specs, runOn cfg φ bs = .ok (outsOf cfg bs φ) := by
      intro φ hφ
      obtain ⟨os, hos⟩ := h φ hφ
      rw [outsOf_eq hos]; exact hos
    obtain ⟨rounds, hr, _⟩ := C09_dense_program_refines_trees cfg specs bs (outsOf cfg bs) h'
    exact ⟨rounds, hr⟩

/-- **C09, what `update()` returns.**  `update()` returns the list of the last assertion.  With the assertions
    `pre ++ [φ]` (the earlier assertions `pre` are typically sub-specifications `φ` refers to, i.e. sub-formulas of the
    inlined `φ`, but need not be), the list returned by the `j`-th `update()` is the `j`-th list of the stand-alone
    monitor of the inlined assertion `φ`. -/
theorem C09_dense_modular_eq_inlined (cfg : DCfg) (pre : List (F α)) (φ : F α) (bs : List (String → ASig α))
    (os : List (ASig α))
    (hpre : ∀ ψ ∈ pre, ∃ o, runOn cfg ψ bs = .ok o) (hφ : runOn cfg φ bs = .ok os) :
    ∃ rounds, runProgramOn cfg (pre ++ [φ]) bs = .ok rounds ∧
      rounds.map (fun r => r.1.getLast?) = os.map some := by
  have h : ∀ ψ ∈ pre ++ [φ], runOn cfg ψ bs = .ok (outsOf cfg bs ψ) := by
    intro ψ hψ
    rcases List.mem_append.1 hψ with hψ | hψ
    · obtain ⟨o, ho⟩ := hpre ψ hψ
      rw [outsOf_eq ho]; exact ho
    · rw [List.mem_singleton.1 hψ, outsOf_eq hφ]; exact hφ
  obtain ⟨rounds, hr, hlen, hrounds⟩ := C09_dense_program_refines_trees cfg (pre ++ [φ]) bs (outsOf cfg bs) h
  refine ⟨rounds, hr, ?_⟩
  have hos : os.length = bs.length := runOn_length hφ
  apply List.ext_getElem
  · simp [hlen, hos]
  · intro j h1 h2
    have hj : j < rounds.length := by simpa using h1
    have hj' : j < os.length := by simpa using h2
    obtain ⟨hv, _⟩ := hrounds j hj
    simp only [List.getElem_map]
    rw [hv, List.map_append, List.map_cons, List.map_nil, List.getLast?_append_cons, List.getLast?_singleton,
      outsOf_eq hφ, List.getD_eq_getElem?_getD, List.getElem?_eq_getElem hj']
    rfl

/-! ### non-vacuity -/

namespace C09Dense.Witness

/-- Three values `-inf < 0 < +inf` (the value type of the non-vacuity example of C06). -/
local instance : Val (Fin 3) where
  lt a b := decide (a < b)
  neg a := Fin.rev a
  abs a := if a < 1 then Fin.rev a else a
  add a _ := a
  sub a b := if a < b then 0 else if b < a then 2 else 1
  mul a _ := a
  div a _ := a
  pinf := 2
  ninf := 0
  zero := 1
  sqrt a := a
  exp a := a
  ln a := a
  pow a _ := a
  log a _ := a

/-- `once x`: a stateful sub-formula. -/
def ox : F (Fin 3) := .tmp1 .once (.var "x")
/-- `(once x) and -(once x)`: `once x` occurs twice. -/
def both : F (Fin 3) := .bin .and ox (.un .negate ox)
/-- Two assertions; the second contains the first (twice). -/
def specs : List (F (Fin 3)) := [ox, both]
/-- Two updates. -/
def bs : List (String → ASig (Fin 3)) :=
  [fun _ => [(Tm.fin 0, 0), (Tm.fin 1, 1)], fun _ => [(Tm.fin 1, 1), (Tm.fin 2, 2), (Tm.fin 3, 0)]]

def outs (φ : F (Fin 3)) : List (ASig (Fin 3)) :=
  if φ = ox then [[(Tm.fin 0, 0), (Tm.fin 1, 1)], [(Tm.fin 1, 1), (Tm.fin 2, 2), (Tm.fin 3, 2)]]
  else [[(Tm.fin 0, 0), (Tm.fin 1, 1)], [(Tm.fin 2, 0), (Tm.fin 3, 0)]]

theorem run_ox : runOn {} ox bs = .ok (outs ox) := by with_unfolding_all rfl

unseal onLoop in
theorem run_both : runOn {} both bs = .ok (outs both) := by with_unfolding_all rfl

/-- The hypothesis of `C09_dense_program_refines_trees` holds (checked by kernel evaluation) … -/
theorem hyp : ∀ φ ∈ specs, runOn {} φ bs = .ok (outs φ) := by
  intro φ hφ
  simp only [specs, List.mem_cons, List.not_mem_nil, or_false] at hφ
  rcases hφ with rfl | rfl
  · exact run_ox
  · exact run_both

/-- … so its conclusion holds of this specification … -/
example : ∃ rounds, runProgramOn {} specs bs = .ok rounds ∧ rounds.length = bs.length ∧
    ∀ j (hj : j < rounds.length),
      (rounds[j]).1 = specs.map (fun φ => (outs φ).getD j []) ∧
      ∀ φ ∈ specs, ∀ ψ ∈ φ.opSubs, ∃ o, runOn {} ψ bs = .ok o ∧ o.length = bs.length ∧
        (rounds[j]).2.lookup ψ = some (o.getD j []) :=
  C09_dense_program_refines_trees {} specs bs outs hyp

/- … and, evaluated directly, the interpreter returns these lists (the second round of `both`, `[(2, 0), (3, 0)]`, is
   computed from the one state of `once x` updated once). -/
unseal onLoop in
example : (runProgramOn {} specs bs).map (List.map Prod.fst) =
    .ok [[[(Tm.fin 0, 0), (Tm.fin 1, 1)], [(Tm.fin 0, 0), (Tm.fin 1, 1)]],
         [[(Tm.fin 1, 1), (Tm.fin 2, 2), (Tm.fin 3, 2)], [(Tm.fin 2, 0), (Tm.fin 3, 0)]]] := by
  with_unfolding_all rfl

/-- `update()` returns the list of the last assertion: that of the stand-alone monitor of `both`. -/
example : ∃ rounds, runProgramOn {} ([ox] ++ [both]) bs = .ok rounds ∧
    rounds.map (fun r => r.1.getLast?) = (outs both).map some :=
  C09_dense_modular_eq_inlined {} [ox] both bs (outs both) (fun ψ hψ => by
    rw [List.mem_singleton.1 hψ]; exact ⟨_, run_ox⟩) run_both

end C09Dense.Witness

end Rtamt.Dense
