/-
  C04 stated on the run of the TRANSLATED code: source of `intersection.py` / `ast_visitor.py` (dense-time offline)
  -> (harness/py2lean.py) `Gen.Dense.*` -> `evalAlgG` (Rtamt/Py/RunDn.lean, semantics Rtamt/Py/Dn.lean)
  = `evalAlg` (`genD_eval`, RtamtProofs/GenDense.lean) = `rhoD` (`C04_alg_eq_rhoD_partial`, RtamtProofs/Dense/AlgMain.lean).

  C06 (interface-aware robustness semantics) the same way: `visitPredicate` of the interface-aware visitors
  -> `Gen.Dense.visitPredicate_outRob` (`gen_visitPredicate_outRob_insensitive`, RtamtProofs/GenDenseIA.lean) inside `genD_eval`,
  composed with `C06_alg_dense_offline_partial` (RtamtProofs/Dense/AlgIA.lean).
-/
import RtamtProofs.GenDense
import RtamtProofs.Dense.AlgMain
import RtamtProofs.Dense.AlgIA

namespace Rtamt.Py.Dn
open Rtamt Val Rtamt.Dense Rtamt.Dense.Alg

variable {α : Type} [Val α] [LawfulVal α]

theorem noIA_denseSupported (φ : F α) (h : noIA φ = true) : φ.denseSupported = true := by
  induction φ with
  | var _ => rfl
  | const _ => rfl
  | un _ φ ih => simpa [F.denseSupported, noIA] using ih (by simpa [noIA] using h)
  | bin op φ ψ ih1 ih2 =>
      simp only [noIA, Bool.and_eq_true] at h
      obtain ⟨⟨h0, h1⟩, h2⟩ := h
      simp only [F.denseSupported, Bool.and_eq_true]
      exact ⟨ih1 h1, ih2 h2⟩
  | tmp1 _ φ ih => simpa [F.denseSupported, noIA] using ih (by simpa [noIA] using h)
  | tmp2 _ φ ψ ih1 ih2 =>
      simp only [noIA, Bool.and_eq_true] at h
      simp only [F.denseSupported, Bool.and_eq_true]
      exact ⟨ih1 h.1, ih2 h.2⟩
  | tb1 _ _ _ φ ih => simpa [F.denseSupported, noIA] using ih (by simpa [noIA] using h)
  | tb2 _ _ _ φ ψ ih1 ih2 =>
      simp only [noIA, Bool.and_eq_true] at h
      simp only [F.denseSupported, Bool.and_eq_true]
      exact ⟨ih1 h.1, ih2 h.2⟩

/-- **C04 on the translated source** (fragment as in `C04_alg_eq_rhoD_partial`: supported operators, no interface-aware
    forms, no `sqrt` / `ln`, well-formed signals that start at time 0): with enough fuel for its `while` loops the dense-time
    offline visitor, as translated from the Python source on this run and run under the semantics of `Dn.lean`, returns a
    sample list with strictly increasing time stamps that starts at the beginning of the common input domain and equals the
    dense-time robustness at every time of the domain. -/
theorem C04_translated_eq_rhoD_partial (cfg : DCfg) (hs : 0 ≤ cfg.scale) (w : DEnv α) (φ : F α)
    (hsup : supported φ = true) (hia : noIA φ = true) (hnp : noPartialOps φ = true)
    (hw : w.WF φ.vars) (h0 : StartsAt0 w φ.vars)
    (hsub : ∀ a b : α, Val.neg (Val.sub a b) = Val.sub b a) :
    ∃ N s, (∀ fuel, N ≤ fuel → evalAlgG fuel cfg w φ = .ok s) ∧ Sorted s ∧
      (times s).head? = some (Tm.fin (dom w φ)) ∧ ∀ t, dom w φ ≤ t → valAtA s t = rhoD cfg w φ t := by
  obtain ⟨s, he, h1, h2, h3⟩ := C04_alg_eq_rhoD_partial cfg hs w φ hsup hia hnp hw h0 hsub
  obtain ⟨N, hN⟩ := genD_eval cfg w φ (noIA_denseSupported φ hia)
  exact ⟨N, s, fun fuel hf => by rw [hN fuel hf, he], h1, h2, h3⟩

/-- **C06 on the translated source**, dense offline, robustness semantics (hypotheses as in `C06_alg_dense_offline_partial`):
    with enough fuel the translated visitor - the insensitive predicates (`iaT`: `.predSat`) run through the translated
    `visitPredicate` of the interface-aware robustness visitor - returns on the transformed formula exactly what the mirror
    returns, lists and exceptions, and every list it returns is the dense semantics of that formula. -/
theorem C06_translated_dense_offline_partial (cfg : DCfg) (hs : 0 ≤ cfg.scale) (w : DEnv α) (sem : Sem)
    (inputs : List String) (φ : F α) (hsem : sem = .outRob ∨ sem = .inRob ∨ sem = .standard)
    (hsup : supported (iaT sem inputs φ) = true) (hv : noVac φ = true)
    (hw : w.WF (iaT sem inputs φ).vars) (h0 : StartsAt0 w (iaT sem inputs φ).vars)
    (hsub : ∀ a b : α, Val.neg (Val.sub a b) = Val.sub b a)
    (hcmp : ∀ (c : Cmp) (a b : α), satOfDiff c (Val.sub a b) = c.holds a b) :
    ∃ N, ∀ fuel, N ≤ fuel →
      evalAlgG fuel cfg w (iaT sem inputs φ) = evalAlg cfg w (iaT sem inputs φ) ∧
      ∀ s : ASig α, evalAlgG fuel cfg w (iaT sem inputs φ) = .ok s → Denotes s 0 (rhoD cfg w (iaT sem inputs φ)) := by
  obtain ⟨N, hN⟩ := genD_eval cfg w (iaT sem inputs φ) (F.denseSupported_all _)
  refine ⟨N, fun fuel hf => ⟨hN fuel hf, fun s he => ?_⟩⟩
  rw [hN fuel hf] at he
  exact C06_alg_dense_offline_partial cfg hs w sem inputs φ hsem hsup hv hw h0 hsub hcmp he

end Rtamt.Py.Dn
