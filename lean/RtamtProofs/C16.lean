/-
  C16 — Settled offline results are stable under trace extension (discrete time).

  "If a trace w2 extends a trace w1, offline evaluation of a specification without
   unbounded future operators and with horizon h on w2 agrees with its evaluation on
   w1 at every time t such that t+h lies inside w1 (t+h < |w1|). Hence a value inside
   the settled region never depends on data later than t+h, and a pure-past value at t
   never depends on anything after t."
-/
import RtamtProofs.C01
import Rtamt.Discrete.Pastify

namespace Rtamt
open Val

variable {α : Type} [Val α]

/-! ### window congruence (no order laws needed) -/

private theorem maxOver_congr16 (lo hi : Nat) (f g : Nat → α)
    (e : ∀ t, lo ≤ t → t < hi → f t = g t) : maxOver lo hi f = maxOver lo hi g := by
  unfold maxOver
  congr 1
  apply List.map_congr_left
  intro t ht
  rw [List.mem_range'_1] at ht
  exact e t ht.1 (by omega)

private theorem minOver_congr16 (lo hi : Nat) (f g : Nat → α)
    (e : ∀ t, lo ≤ t → t < hi → f t = g t) : minOver lo hi f = minOver lo hi g := by
  unfold minOver
  congr 1
  apply List.map_congr_left
  intro t ht
  rw [List.mem_range'_1] at ht
  exact e t ht.1 (by omega)

/-- M-spec level: the value at `t` is determined by the samples `0 … t + hor φ`, whatever
    the lengths `n1`, `n2` of the two traces (both longer than `t + hor φ`) and whatever the
    two traces hold beyond `t + hor φ`. -/
theorem C16_settled (φ : F α) (hb : φ.bounded = true) (σ σ' : String → Nat → α)
    (n1 n2 t : Nat) (h1 : t + hor φ < n1) (h2 : t + hor φ < n2)
    (hσ : ∀ x s, s ≤ t + hor φ → σ x s = σ' x s) :
    rho σ n1 φ t = rho σ' n2 φ t := by
  induction φ generalizing t with
  | var x => simp only [rho]; exact hσ x t (by omega)
  | const c => rfl
  | un op φ ih =>
    simp only [F.bounded] at hb
    simp only [hor] at h1 h2 hσ
    simp only [rho]
    rw [ih hb t h1 h2 hσ]
  | bin op φ ψ ih1 ih2 =>
    simp only [F.bounded, Bool.and_eq_true] at hb
    simp only [hor] at h1 h2 hσ
    simp only [rho]
    rw [ih1 hb.1 t (by omega) (by omega) (fun x s hs => hσ x s (by omega)),
      ih2 hb.2 t (by omega) (by omega) (fun x s hs => hσ x s (by omega))]
  | tmp1 op φ ih =>
    cases op with
    | rise =>
      simp only [F.bounded, Bool.true_and] at hb
      simp only [hor] at h1 h2 hσ
      have key : ∀ s, s ≤ t → rho σ n1 φ s = rho σ' n2 φ s := fun s hs =>
        ih hb s (by omega) (by omega) (fun x u hu => hσ x u (by omega))
      simp only [rho, key 0 (Nat.zero_le _), key (t - 1) (Nat.sub_le _ _), key t le_rfl]
    | fall =>
      simp only [F.bounded, Bool.true_and] at hb
      simp only [hor] at h1 h2 hσ
      have key : ∀ s, s ≤ t → rho σ n1 φ s = rho σ' n2 φ s := fun s hs =>
        ih hb s (by omega) (by omega) (fun x u hu => hσ x u (by omega))
      simp only [rho, key 0 (Nat.zero_le _), key (t - 1) (Nat.sub_le _ _), key t le_rfl]
    | prev =>
      simp only [F.bounded, Bool.true_and] at hb
      simp only [hor] at h1 h2 hσ
      have key : ∀ s, s ≤ t → rho σ n1 φ s = rho σ' n2 φ s := fun s hs =>
        ih hb s (by omega) (by omega) (fun x u hu => hσ x u (by omega))
      simp only [rho, key (t - 1) (Nat.sub_le _ _)]
    | sprev =>
      simp only [F.bounded, Bool.true_and] at hb
      simp only [hor] at h1 h2 hσ
      have key : ∀ s, s ≤ t → rho σ n1 φ s = rho σ' n2 φ s := fun s hs =>
        ih hb s (by omega) (by omega) (fun x u hu => hσ x u (by omega))
      simp only [rho, key (t - 1) (Nat.sub_le _ _)]
    | next =>
      simp only [F.bounded, Bool.true_and] at hb
      simp only [hor] at h1 h2 hσ
      have key : rho σ n1 φ (t + 1) = rho σ' n2 φ (t + 1) :=
        ih hb (t + 1) (by omega) (by omega) (fun x u hu => hσ x u (by omega))
      simp only [rho]
      rw [if_pos (by omega), if_pos (by omega), key]
    | snext =>
      simp only [F.bounded, Bool.true_and] at hb
      simp only [hor] at h1 h2 hσ
      have key : rho σ n1 φ (t + 1) = rho σ' n2 φ (t + 1) :=
        ih hb (t + 1) (by omega) (by omega) (fun x u hu => hσ x u (by omega))
      simp only [rho]
      rw [if_pos (by omega), if_pos (by omega), key]
    | once =>
      simp only [F.bounded, Bool.true_and] at hb
      simp only [hor] at h1 h2 hσ
      have key : ∀ s, s ≤ t → rho σ n1 φ s = rho σ' n2 φ s := fun s hs =>
        ih hb s (by omega) (by omega) (fun x u hu => hσ x u (by omega))
      simp only [rho]
      exact maxOver_congr16 _ _ _ _ (fun s _ h2 => key s (by omega))
    | hist =>
      simp only [F.bounded, Bool.true_and] at hb
      simp only [hor] at h1 h2 hσ
      have key : ∀ s, s ≤ t → rho σ n1 φ s = rho σ' n2 φ s := fun s hs =>
        ih hb s (by omega) (by omega) (fun x u hu => hσ x u (by omega))
      simp only [rho]
      exact minOver_congr16 _ _ _ _ (fun s _ h2 => key s (by omega))
    | ev => simp [F.bounded] at hb
    | alw => simp [F.bounded] at hb
  | tmp2 op φ ψ ih1 ih2 =>
    cases op with
    | since =>
      simp only [F.bounded, Bool.true_and, Bool.and_eq_true] at hb
      simp only [hor] at h1 h2 hσ
      have key1 : ∀ s, s ≤ t → rho σ n1 φ s = rho σ' n2 φ s := fun s hs =>
        ih1 hb.1 s (by omega) (by omega) (fun x u hu => hσ x u (by omega))
      have key2 : ∀ s, s ≤ t → rho σ n1 ψ s = rho σ' n2 ψ s := fun s hs =>
        ih2 hb.2 s (by omega) (by omega) (fun x u hu => hσ x u (by omega))
      simp only [rho]
      apply maxOver_congr16
      intro s _ h2
      rw [key2 s (by omega), minOver_congr16 _ _ _ _ (fun u _ h4 => key1 u (by omega))]
    | «until» => simp [F.bounded] at hb
  | tb1 op a b φ ih =>
    simp only [F.bounded] at hb
    cases op with
    | once =>
      simp only [hor] at h1 h2 hσ
      have key : ∀ s, s ≤ t → rho σ n1 φ s = rho σ' n2 φ s := fun s hs =>
        ih hb s (by omega) (by omega) (fun x u hu => hσ x u (by omega))
      simp only [rho]
      exact maxOver_congr16 _ _ _ _ (fun s _ h2 => key s (by omega))
    | hist =>
      simp only [hor] at h1 h2 hσ
      have key : ∀ s, s ≤ t → rho σ n1 φ s = rho σ' n2 φ s := fun s hs =>
        ih hb s (by omega) (by omega) (fun x u hu => hσ x u (by omega))
      simp only [rho]
      exact minOver_congr16 _ _ _ _ (fun s _ h2 => key s (by omega))
    | ev =>
      simp only [hor] at h1 h2 hσ
      have key : ∀ s, s ≤ t + b → rho σ n1 φ s = rho σ' n2 φ s := fun s hs =>
        ih hb s (by omega) (by omega) (fun x u hu => hσ x u (by omega))
      have e1 : min (t + b + 1) n1 = t + b + 1 := by omega
      have e2 : min (t + b + 1) n2 = t + b + 1 := by omega
      simp only [rho, e1, e2]
      exact maxOver_congr16 _ _ _ _ (fun s _ h2 => key s (by omega))
    | alw =>
      simp only [hor] at h1 h2 hσ
      have key : ∀ s, s ≤ t + b → rho σ n1 φ s = rho σ' n2 φ s := fun s hs =>
        ih hb s (by omega) (by omega) (fun x u hu => hσ x u (by omega))
      have e1 : min (t + b + 1) n1 = t + b + 1 := by omega
      have e2 : min (t + b + 1) n2 = t + b + 1 := by omega
      simp only [rho, e1, e2]
      exact minOver_congr16 _ _ _ _ (fun s _ h2 => key s (by omega))
  | tb2 op a b φ ψ ih1 ih2 =>
    simp only [F.bounded, Bool.and_eq_true] at hb
    cases op with
    | since =>
      simp only [hor] at h1 h2 hσ
      have key1 : ∀ s, s ≤ t → rho σ n1 φ s = rho σ' n2 φ s := fun s hs =>
        ih1 hb.1 s (by omega) (by omega) (fun x u hu => hσ x u (by omega))
      have key2 : ∀ s, s ≤ t → rho σ n1 ψ s = rho σ' n2 ψ s := fun s hs =>
        ih2 hb.2 s (by omega) (by omega) (fun x u hu => hσ x u (by omega))
      simp only [rho]
      apply maxOver_congr16
      intro s _ h2
      rw [key2 s (by omega), minOver_congr16 _ _ _ _ (fun u _ h4 => key1 u (by omega))]
    | «until» =>
      simp only [hor] at h1 h2 hσ
      have key1 : ∀ s, s ≤ t + b → rho σ n1 φ s = rho σ' n2 φ s := fun s hs =>
        ih1 hb.1 s (by omega) (by omega) (fun x u hu => hσ x u (by omega))
      have key2 : ∀ s, s ≤ t + b → rho σ n1 ψ s = rho σ' n2 ψ s := fun s hs =>
        ih2 hb.2 s (by omega) (by omega) (fun x u hu => hσ x u (by omega))
      have e1 : min (t + b + 1) n1 = t + b + 1 := by omega
      have e2 : min (t + b + 1) n2 = t + b + 1 := by omega
      simp only [rho, e1, e2]
      apply maxOver_congr16
      intro s _ h2
      rw [key2 s (by omega), minOver_congr16 _ _ _ _ (fun u _ h4 => key1 u (by omega))]
    | precedes =>
      simp only [hor] at h1 h2 hσ
      have key1 : ∀ s, s ≤ t → rho σ n1 φ s = rho σ' n2 φ s := fun s hs =>
        ih1 hb.1 s (by omega) (by omega) (fun x u hu => hσ x u (by omega))
      have key2 : ∀ s, s ≤ t → rho σ n1 ψ s = rho σ' n2 ψ s := fun s hs =>
        ih2 hb.2 s (by omega) (by omega) (fun x u hu => hσ x u (by omega))
      simp only [rho]
      apply maxOver_congr16
      intro s _ h2
      rw [key2 s (by omega), minOver_congr16 _ _ _ _ (fun u _ h4 => key1 u (by omega))]

set_option linter.unusedSectionVars false in
set_option linter.unnecessarySeqFocus false in
/-- A future-free formula has horizon 0: its value at `t` never depends on anything after `t`. -/
theorem C16_futureFree_hor (φ : F α) (hf : φ.futureFree = true) : hor φ = 0 ∧ φ.bounded = true := by
  induction φ with
  | var x => simp [hor, F.bounded]
  | const c => simp [hor, F.bounded]
  | un op φ ih =>
    simp only [F.futureFree] at hf
    simpa [hor, F.bounded] using ih hf
  | bin op φ ψ ih1 ih2 =>
    simp only [F.futureFree, Bool.and_eq_true] at hf
    simp [hor, F.bounded, ih1 hf.1, ih2 hf.2]
  | tmp1 op φ ih =>
    cases op <;> simp [F.futureFree] at hf <;> simp [hor, F.bounded, ih hf]
  | tmp2 op φ ψ ih1 ih2 =>
    cases op <;> simp [F.futureFree] at hf <;> simp [hor, F.bounded, ih1 hf.1, ih2 hf.2]
  | tb1 op a b φ ih =>
    cases op <;> simp [F.futureFree] at hf <;> simp [hor, F.bounded, ih hf]
  | tb2 op a b φ ψ ih1 ih2 =>
    cases op <;> simp [F.futureFree] at hf <;> simp [hor, F.bounded, ih1 hf.1, ih2 hf.2]

variable [LawfulVal α]

/-- Transfer to the offline evaluator (through C01): evaluating on `w1` (length `n1`) and on an
    extension `w2` (length `n2 ≥ n1`) gives the same value at every settled `t`. -/
theorem C16_offline_extension (h : Kind → Bool) (φ : F α) (hb : φ.bounded = true) (hwf : φ.wf = true)
    (hh : ∀ k ∈ φ.kinds, h k = true) (hp : φ.noPrecedes)
    (σ : String → Nat → α) (n1 n2 : Nat) (hn : n1 ≤ n2)
    (w1 w2 : Env α) (hw1 : w1.Agrees σ n1 φ.vars) (hw2 : w2.Agrees σ n2 φ.vars)
    (t : Nat) (ht : t + hor φ < n1) :
    ∃ o1 o2, evalOff h w1 n1 φ = .ok o1 ∧ evalOff h w2 n2 φ = .ok o2 ∧ o1[t]? = o2[t]? ∧
      o1[t]? = some (rho σ n1 φ t) := by
  refine ⟨_, _, C01_offline_eq_rho h w1 σ n1 (by omega) φ hwf hh hp hw1,
    C01_offline_eq_rho h w2 σ n2 (by omega) φ hwf hh hp hw2, ?_, ?_⟩
  · rw [tab_getElem?, tab_getElem?, if_pos (by omega), if_pos (by omega),
      C16_settled φ hb σ σ n1 n2 t ht (by omega) (fun _ _ _ => rfl)]
  · rw [tab_getElem?, if_pos (by omega)]

end Rtamt
