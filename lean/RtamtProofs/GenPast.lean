/-
  The pastifier as translated from the Python source denotes the mirror `past` / `pastify`
  (`Rtamt/Discrete/Pastify.lean`), the functions C03, C16 and C17 are stated on.
-/
import Rtamt.Py.RunPast
import Rtamt.Generated

namespace Rtamt.Py
open Rtamt Val

variable {α : Type}

/-- Standard semantics: no interface-aware predicate forms (they are not produced by the parser). -/
def plainP : F α → Bool
  | .var _ => true
  | .const _ => true
  | .un _ φ => plainP φ
  | .bin op φ ψ => (match op with | .predSat _ | .predZero => false | _ => true) && plainP φ && plainP ψ
  | .tmp1 _ φ => plainP φ
  | .tmp2 _ φ ψ => plainP φ && plainP ψ
  | .tb1 _ _ _ φ => plainP φ
  | .tb2 _ _ _ φ ψ => plainP φ && plainP ψ

/-- The methods found in `StlPastifier` are the node classes the regenerated table marks as overridden. -/
theorem genPast_table (k : Kind) :
    (lookupP k).isSome = (Generated.pastifier.handles k || Generated.pastifier.raises k) := by
  sorry

/-- The translated pastifier visitor, started with a remaining horizon `R` (possibly negative: it then behaves as with 0),
    builds the formula `past R φ` — for every formula without unbounded future operator. -/
theorem genPast_visit (φ : F α) (hb : φ.bounded = true) (hpl : plainP φ = true) (R : Int) :
    pastG φ R = .ok (past R.toNat φ) := by
  sorry

/-- Formulas with an unbounded future operator are rejected with RTAMTException (by the horizon visitor). -/
theorem genPast_pastify (φ : F α) (hpl : plainP φ = true) :
    pastifyG φ = if φ.bounded then .ok (pastify φ) else .error .rtamt := by
  sorry

end Rtamt.Py
