/-
  The pastifier as translated from the Python source denotes the mirror `past` / `pastify`
  (`Rtamt/Discrete/Pastify.lean`), the functions C03, C16 and C17 are stated on.
-/
import Rtamt.Py.RunPast
import Rtamt.Generated
import RtamtProofs.GenPastLemmas

namespace Rtamt.Py
open Rtamt Val

variable {α : Type}

/-- Standard semantics: no interface-aware predicate forms (they are not produced by the parser). -/
def plainP : F α → Bool
  | .var _ => true
  | .const _ => true
  | .un _ φ => plainP φ
  | .bin op φ ψ => (match op with | .predSat _ | .predZero => false | _ => true) && plainP φ && plainP ψ
  | .tmp1 _ φ => plainP φ
  | .tmp2 _ φ ψ => plainP φ && plainP ψ
  | .tb1 _ _ _ φ => plainP φ
  | .tb2 _ _ _ φ ψ => plainP φ && plainP ψ

/-- The methods found in `StlPastifier` are the node classes the regenerated table marks as overridden. -/
theorem genPast_table (k : Kind) :
    (lookupP k).isSome = (Generated.pastifier.handles k || Generated.pastifier.raises k) := by
  cases k <;> rfl

/-- The translated pastifier visitor, started with a remaining horizon `R` (possibly negative: it then behaves as with 0),
    builds the formula `past R φ` — for every formula without unbounded future operator. -/
theorem genPast_visit (φ : F α) (hb : φ.bounded = true) (hpl : plainP φ = true) (R : Int) :
    pastG φ R = .ok (past R.toNat φ) := by
  induction φ generalizing R with
  | var x => exact call_variable _ x R
  | const c => exact call_constant _ c R
  | un op φ ih =>
    have ih := ih hb hpl
    have h0 : pastG φ (hor φ : Int) = .ok (past (hor φ) φ) := by simpa using ih (hor φ : Int)
    cases op
    · exact call_delay1 _ Gen.Past.visitAbs "Abs" _ _ R (hor φ) rfl rfl h0 rfl
    · exact call_delay1 _ Gen.Past.visitSqrt "Sqrt" _ _ R (hor φ) rfl rfl h0 rfl
    · exact call_delay1 _ Gen.Past.visitExp "Exp" _ _ R (hor φ) rfl rfl h0 rfl
    · exact call_delay1 _ Gen.Past.visitLn "Ln" _ _ R (hor φ) rfl rfl h0 rfl
    · exact call_delay1 _ Gen.Past.visitNegate "Negate" _ _ R (hor φ) rfl rfl h0 rfl
    · exact call_delay1 _ Gen.Past.visitNot "Neg" _ _ R (hor φ) rfl rfl h0 rfl
  | bin op φ ψ ih1 ih2 =>
    simp only [F.bounded, plainP, Bool.and_eq_true] at hb hpl
    have ih1 := ih1 hb.1 hpl.1.2
    have ih2 := ih2 hb.2 hpl.2
    have h1 : pastG φ ((max (hor φ) (hor ψ) : Nat) : Int) = .ok (past (max (hor φ) (hor ψ)) φ) := by
      simpa using ih1 ((max (hor φ) (hor ψ) : Nat) : Int)
    have h2 : pastG ψ ((max (hor φ) (hor ψ) : Nat) : Int) = .ok (past (max (hor φ) (hor ψ)) ψ) := by
      simpa using ih2 ((max (hor φ) (hor ψ) : Nat) : Int)
    cases op
    · exact call_delay2 _ Gen.Past.visitAddition "Addition" _ _ _ R (max (hor φ) (hor ψ)) rfl rfl h1 h2 rfl
    · exact call_delay2 _ Gen.Past.visitSubtraction "Subtraction" _ _ _ R (max (hor φ) (hor ψ)) rfl rfl h1 h2 rfl
    · exact call_delay2 _ Gen.Past.visitMultiplication "Multiplication" _ _ _ R (max (hor φ) (hor ψ)) rfl rfl h1 h2 rfl
    · exact call_delay2 _ Gen.Past.visitDivision "Division" _ _ _ R (max (hor φ) (hor ψ)) rfl rfl h1 h2 rfl
    · exact call_delay2 _ Gen.Past.visitPow "Pow" _ _ _ R (max (hor φ) (hor ψ)) rfl rfl h1 h2 rfl
    · exact call_delay2 _ Gen.Past.visitLog "Log" _ _ _ R (max (hor φ) (hor ψ)) rfl rfl h1 h2 rfl
    · exact call_predicate _ _ _ _ R (max (hor φ) (hor ψ)) h1 h2
    · exact call_delay2 _ Gen.Past.visitAnd "Conjunction" _ _ _ R (max (hor φ) (hor ψ)) rfl rfl h1 h2 rfl
    · exact call_delay2 _ Gen.Past.visitOr "Disjunction" _ _ _ R (max (hor φ) (hor ψ)) rfl rfl h1 h2 rfl
    · exact call_delay2 _ Gen.Past.visitImplies "Implies" _ _ _ R (max (hor φ) (hor ψ)) rfl rfl h1 h2 rfl
    · exact call_delay2 _ Gen.Past.visitIff "Iff" _ _ _ R (max (hor φ) (hor ψ)) rfl rfl h1 h2 rfl
    · exact call_delay2 _ Gen.Past.visitXor "Xor" _ _ _ R (max (hor φ) (hor ψ)) rfl rfl h1 h2 rfl
    · exact absurd hpl.1.1 (by simp)
    · exact absurd hpl.1.1 (by simp)
  | tmp1 op φ ih =>
    simp only [F.bounded, plainP, Bool.and_eq_true] at hb hpl
    have ih := ih hb.2 hpl
    have h0 : pastG φ (hor φ : Int) = .ok (past (hor φ) φ) := by simpa using ih (hor φ : Int)
    have hn : pastG φ (R - 1) = .ok (past (R.toNat - 1) φ) := by
      have := ih (R - 1)
      rwa [show (R - 1).toNat = R.toNat - 1 by omega] at this
    cases op
    · exact call_delay1 _ Gen.Past.visitRise "Rise" _ _ R (hor φ) rfl rfl h0 rfl
    · exact call_delay1 _ Gen.Past.visitFall "Fall" _ _ R (hor φ) rfl rfl h0 rfl
    · exact call_delay1 _ Gen.Past.visitPrevious "Previous" _ _ R (hor φ) rfl rfl h0 rfl
    · exact call_delay1 _ Gen.Past.visitStrongPrevious "StrongPrevious" _ _ R (hor φ) rfl rfl h0 rfl
    · exact call_next _ Gen.Past.visitNext _ R (hor φ + 1) rfl rfl hn
    · exact call_next _ Gen.Past.visitStrongNext _ R (hor φ + 1) rfl rfl hn
    · exact call_delay1 _ Gen.Past.visitOnce "Once" _ _ R (hor φ) rfl rfl h0 rfl
    · exact call_delay1 _ Gen.Past.visitHistorically "Historically" _ _ R (hor φ) rfl rfl h0 rfl
    · exact absurd hb.1 (by simp)
    · exact absurd hb.1 (by simp)
  | tmp2 op φ ψ ih1 ih2 =>
    simp only [F.bounded, plainP, Bool.and_eq_true] at hb hpl
    have ih1 := ih1 hb.1.2 hpl.1
    have ih2 := ih2 hb.2 hpl.2
    have h1 : pastG φ ((max (hor φ) (hor ψ) : Nat) : Int) = .ok (past (max (hor φ) (hor ψ)) φ) := by
      simpa using ih1 ((max (hor φ) (hor ψ) : Nat) : Int)
    have h2 : pastG ψ ((max (hor φ) (hor ψ) : Nat) : Int) = .ok (past (max (hor φ) (hor ψ)) ψ) := by
      simpa using ih2 ((max (hor φ) (hor ψ) : Nat) : Int)
    cases op
    · exact call_since _ _ _ R (max (hor φ) (hor ψ)) h1 h2
    · exact absurd hb.1.1 (by simp)
  | tb1 op a b φ ih =>
    simp only [F.bounded, plainP] at hb hpl
    have ih := ih hb hpl
    have h0 : pastG φ (hor φ : Int) = .ok (past (hor φ) φ) := by simpa using ih (hor φ : Int)
    have hn : pastG φ (R - (b : Int)) = .ok (past (R.toNat - b) φ) := by
      have := ih (R - (b : Int))
      rwa [show (R - (b : Int)).toNat = R.toNat - b by omega] at this
    cases op
    · exact call_timedOnce _ _ a b R (hor φ) h0
    · exact call_timedHistorically _ _ a b R (hor φ) h0
    · exact call_timedFuture _ Gen.Past.visitTimedEventually "TimedOnce" _ _ a b R (hor φ + b) rfl rfl hn rfl
    · exact call_timedFuture _ Gen.Past.visitTimedAlways "TimedHistorically" _ _ a b R (hor φ + b) rfl rfl hn rfl
  | tb2 op a b φ ψ ih1 ih2 =>
    simp only [F.bounded, plainP, Bool.and_eq_true] at hb hpl
    have ih1 := ih1 hb.1 hpl.1
    have ih2 := ih2 hb.2 hpl.2
    have h1 : pastG φ ((max (hor φ) (hor ψ) : Nat) : Int) = .ok (past (max (hor φ) (hor ψ)) φ) := by
      simpa using ih1 ((max (hor φ) (hor ψ) : Nat) : Int)
    have h2 : pastG ψ ((max (hor φ) (hor ψ) : Nat) : Int) = .ok (past (max (hor φ) (hor ψ)) ψ) := by
      simpa using ih2 ((max (hor φ) (hor ψ) : Nat) : Int)
    have hn1 : pastG φ (R - (b : Int)) = .ok (past (R.toNat - b) φ) := by
      have := ih1 (R - (b : Int))
      rwa [show (R - (b : Int)).toNat = R.toNat - b by omega] at this
    have hn2 : pastG ψ (R - (b : Int)) = .ok (past (R.toNat - b) ψ) := by
      have := ih2 (R - (b : Int))
      rwa [show (R - (b : Int)).toNat = R.toNat - b by omega] at this
    cases op
    · exact call_timedSince _ _ _ a b R (max (hor φ) (hor ψ)) h1 h2
    · exact call_timedUntil _ _ _ a b R (max (hor φ) (hor ψ) + b) hn1 hn2
    · exact call_timedPrecedes _ _ _ a b R (max (hor φ) (hor ψ)) h1 h2

/-- Formulas with an unbounded future operator are rejected with RTAMTException (by the horizon visitor). -/
theorem genPast_pastify (φ : F α) (hpl : plainP φ = true) :
    pastifyG φ = if φ.bounded then .ok (pastify φ) else .error .rtamt := by
  unfold pastifyG
  rw [hor?_eq]
  cases hb : φ.bounded
  · rfl
  · simpa [pastify] using genPast_visit φ hb hpl (hor φ : Int)

end Rtamt.Py
