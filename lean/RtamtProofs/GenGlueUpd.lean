/-
  `AbstractDiscreteTimeOnlineInterpreter.update(timestamp, dataset)` / `.reset()` / `.set_variable_to_ast_from_dataset`
  (`rtamt/semantics/abstract_discrete_time_online_interpreter.py`) as WHOLE methods, as translated from the Python source,
  denote the mirror `Prog.update` / `Prog.run` / `Prog.reset` of `Rtamt/Discrete/ProgramUpd.lean`, i.e. `updateSpecs` /
  `runSpecs` (`Program.lean`), `resetSpecs` (`ProgramReset.lean`) and `Clock.tick` / `Clock.reset` (`Sampling.lean`).

  `Rtamt/Py/GeneratedGlueUpd.lean` is produced on every run by `harness/py2lean.py` (`generate_glue_update`); `Rtamt/Py/GlueUpd.lean`
  gives the terms their meaning; `Rtamt/Py/RunGlueUpd.lean` binds the two visitor calls to the *translated* visitors of
  `GeneratedGlue.lean` (`RtamtProofs/GenGlue.lean`: `genGlue_round`, `genGlue_resetSpecs`); the statements of the sampling
  bookkeeping are, term for term, the fragments of `GeneratedClock.lean` (`RtamtProofs/GenClock.lean`: `gen_clock_tick`,
  `gen_clock_reset`), see `interp_update_shape` / `interp_reset_shape` / `genGlueUpd_clock`.

    genGlue_update          one update(ts, dataset)   = Prog.update: the rows that name a free variable written to the valuation
                                                        (later rows win, all other variables keep their PREVIOUS value),
                                                        `updateSpecs` on it, the value of the LAST assertion (IndexError if
                                                        there is none — in both), then `Clock.tick`; same exception otherwise
    Prog.update_of_ne       with `specs ≠ []`: no IndexError, the value returned is `lastVal` of `updateSpecs`
    genGlue_update_prog_run a sequence of updates     = Prog.run
    genGlue_update_run      … stated on `runSpecs` (values and memos) and the fold of `Clock.tick` / `applyRows`
    genGlue_update_program  a fresh monitor (`initStore`, `noVarKeys_init`) = runProgram; the counter is `onlineCounter`
    genGlue_reset_whole     reset()                   = Prog.reset: `resetSpecs`, `Clock.reset`, every free variable back to
                                                        `float()`; `genGlue_reset_whole_init`
    genGlue_set_vars        set_variable_to_ast_from_dataset(dataset) = applyRows
    genGlueUpd_supported / genGlueUpd_opaque / genGlueUpd_clock   what is outside the translated subset / kept as a named step

  Hypotheses: `StAgree` (the two states correspond; the dictionaries agree on every key, `StoreEq`, as in `GenGlue.lean`);
  `NoVarKeys` (no operator object registered under a variable name — the guard of the one statement of
  `set_variable_to_ast_from_dataset` that is not translated; kept by every update, `updateSpecs_props`); `specs ≠ []` only
  where the statement speaks of the LAST assertion.  `Example` shows what happens without each of them.
-/
import Rtamt.Py.RunGlueUpd
import Rtamt.Discrete.ProgramUpd
import RtamtProofs.GenGlue
import RtamtProofs.GenClock

namespace Rtamt.Py.GUpd
open Rtamt Val Rtamt.Py

variable {α : Type} [Val α] [DecidableEq α]

/-! ### locals -/

omit [Val α] [DecidableEq α] in
theorem uGet_uSet_same (x : String) (v : UV α) (l : List (String × UV α)) : uGet x (uSet x v l) = .ok v := by
  simp [uGet, uSet]

omit [Val α] [DecidableEq α] in
theorem uGet_uSet_ne (x y : String) (v : UV α) (l : List (String × UV α)) (h : x ≠ y) :
    uGet x (uSet y v l) = uGet x l := by
  have hb : (x == y) = false := by simpa using h
  have : List.lookup x (l.filter (fun p => p.1 != y)) = List.lookup x l := by
    induction l with
    | nil => rfl
    | cons p l ih =>
      obtain ⟨a, b⟩ := p
      by_cases ha : a = y
      · subst ha
        rw [List.filter_cons_of_neg (by simp), ih, List.lookup_cons, hb]
      · rw [List.filter_cons_of_pos (by simpa using ha), List.lookup_cons, List.lookup_cons, ih]
  simp only [uGet, uSet, List.lookup_cons, hb, this]

theorem x_ok_bind {ε σ ρ : Type} (a : σ) (f : σ → Except ε ρ) : (Except.ok a >>= f) = f a := id rfl
theorem x_err_bind {ε σ ρ : Type} (e : ε) (f : σ → Except ε ρ) : (Except.error e >>= f) = .error e := id rfl

theorem x_seq (a b : US) (env : UEnv α) (st : USt α) :
    execUS (.seq a b) env st = (execUS a env st >>= fun p => execUS b p.1 p.2) := id rfl
theorem x_opaque (w : String) (env : UEnv α) (st : USt α) : execUS (.opaque w) env st = .ok (env, st) := id rfl

/-! ### the shape of the translated methods -/

/-- The body of `for data in dataset:` in `set_variable_to_ast_from_dataset`, as translated. -/
def dataBody : US :=
  (.seq (.setLoc "var_name" (.dataIdx 0)) (.seq (.setLoc "var_value" (.dataIdx 1))
    (.ite (.inFreeVars (.dataIdx 0))
      (.seq (.setVar (.loc "var_name") (.loc "var_value"))
        (.ite (.inOps (.loc "var_name")) (.unsupported "self.online_operator_dict[var_name].sample = var_value") .skip))
      .skip)))

/-- The statements of `update` between `set_variable_to_ast_from_dataset(dataset)` and the bookkeeping, as translated. -/
def midBody : US :=
  (.seq (.setLoc "rob" .visitAst) (.seq (.setLoc "rob" (.lastOf "rob"))
    (.seq (.opaque "self.ast.results = self.updateVisitor.results")
      (.seq (.opaque "out = self.ast.var_object_dict[self.ast.out_var]")
        (.ite .outVarField (.unsupported "setattr(out, self.ast.out_var_field, rob)") .skip)))))

/-- `update`: the check, the data set, the assertions, the bookkeeping — the bookkeeping being, term for term, the fragment
    `Gen.Clock.online_tick` that `gen_clock_tick` is about. -/
theorem interp_update_shape :
    Gen.GlueUpd.interp_update =
      { params := ["timestamp", "dataset"],
        body := .seq (.opaque "self.exist_ast()") (.seq (.forData "dataset" dataBody)
          (.seq (.setLoc "rob" .visitAst) (.seq (.setLoc "rob" (.lastOf "rob"))
            (.seq (.opaque "self.ast.results = self.updateVisitor.results")
              (.seq (.opaque "out = self.ast.var_object_dict[self.ast.out_var]")
                (.seq (.ite .outVarField (.unsupported "setattr(out, self.ast.out_var_field, rob)") .skip)
                  (.clock Gen.Clock.online_tick.body))))))),
        ret := some (.loc "rob") } := rfl

/-- `reset`: the reset visitor (`AbstractOnlineInterpreter.reset`, inlined), the bookkeeping (`Gen.Clock.online_reset`), the
    free variables. -/
theorem interp_reset_shape :
    Gen.GlueUpd.interp_reset =
      { params := [],
        body := .seq .resetAst (.seq (.clock Gen.Clock.online_reset.body)
          (.forFree "var_name" (.setVar (.loc "var_name") (.createVar (.loc "var_name"))))),
        ret := none } := rfl

theorem interp_set_vars_shape :
    Gen.GlueUpd.interp_set_variable_to_ast_from_dataset =
      { params := ["dataset"], body := .forData "dataset" dataBody, ret := none } := rfl

/-! ### `set_variable_to_ast_from_dataset` -/

/-- No operator object is registered under the name of a variable (variables and constants have none: `initStore`; an
    update only re-binds operator nodes, `updateSpecs_noVarKeys`). -/
def NoVarKeys (ops : Rtamt.Store α) : Prop := ∀ x, ops.lookup (.var x) = none

omit [Val α] in
theorem NoVarKeys.of_eq {a b : Rtamt.Store α} (h : StoreEq a b) (hb : NoVarKeys b) : NoVarKeys a :=
  fun x => (h (.var x)).trans (hb x)

/-- One iteration of `for data in dataset:`. -/
def dataStep (p : UEnv α × USt α) (r : String × α) : Except PyErr (UEnv α × USt α) :=
  execUS dataBody { p.1 with data := some r } p.2

theorem dataStep_eq (env : UEnv α) (st : USt α) (x : String) (v : α) (hnv : st.g.ops.lookup (.var x) = none) :
    dataStep (env, st) (x, v) =
      .ok ({ env with data := some (x, v),
                      loc := uSet "var_value" (.num v) (uSet "var_name" (.str x) env.loc) },
           { st with vod := if env.free.contains x then vodSet st.vod x v else st.vod }) := by
  unfold dataStep dataBody
  have h1 : uGet "var_name" (uSet "var_value" (UV.num v) (uSet "var_name" (UV.str x) env.loc)) = .ok (UV.str x) := by
    rw [uGet_uSet_ne _ _ _ _ (by decide), uGet_uSet_same]
  simp only [execUS, evalUE, bind, Except.bind, pure, Except.pure]
  cases hf : env.free.contains x with
  | false => rfl
  | true =>
    simp only [h1, uGet_uSet_same, hnv, Option.isSome_none]
    rfl

omit [Val α] [DecidableEq α] in
theorem applyRows_cons (free : List String) (vod : String → α) (x : String) (v : α) (rest : List (String × α)) :
    applyRows free vod ((x, v) :: rest) = applyRows free (if free.contains x then vodSet vod x v else vod) rest := rfl

theorem forData_loop (ds : List (String × α)) : ∀ (env : UEnv α) (st : USt α), NoVarKeys st.g.ops →
    ∃ env', ds.foldlM dataStep (env, st) = .ok (env', { st with vod := applyRows env.free st.vod ds }) ∧
      env'.free = env.free ∧ env'.vast = env.vast ∧ env'.cloc = env.cloc ∧
      (∀ y, y ≠ "var_name" → y ≠ "var_value" → uGet y env'.loc = uGet y env.loc) := by
  induction ds with
  | nil => intro env st _; exact ⟨env, rfl, rfl, rfl, rfl, fun _ _ _ => rfl⟩
  | cons d ds ih =>
    intro env st hnv
    obtain ⟨x, v⟩ := d
    rw [List.foldlM_cons, dataStep_eq env st x v (hnv x), applyRows_cons]
    obtain ⟨env', h1, h2, h3, h4, h5⟩ := ih
      { env with data := some (x, v), loc := uSet "var_value" (.num v) (uSet "var_name" (.str x) env.loc) }
      { st with vod := if env.free.contains x then vodSet st.vod x v else st.vod } hnv
    refine ⟨env', h1, h2, h3, h4, fun y hy1 hy2 => ?_⟩
    rw [h5 y hy1 hy2]
    show uGet y (uSet "var_value" (.num v) (uSet "var_name" (.str x) env.loc)) = _
    rw [uGet_uSet_ne _ _ _ _ hy2, uGet_uSet_ne _ _ _ _ hy1]

theorem x_forData (it : String) (env : UEnv α) (st : USt α) (d : List (String × α))
    (h : env.datasets.lookup it = some d) :
    execUS (.forData it dataBody) env st = d.foldlM dataStep (env, st) := by
  simp only [execUS, h]
  rfl

/-! ### the bookkeeping -/

omit [DecidableEq α] in
/-- The fragment of `update`, run on the attributes `clockStore c k` with the locals of the call. -/
theorem clock_tick_exec (c : SamplingCfg) (k : Clock) (ts : Rat) :
    ∃ loc', exec (α := α) Gen.Clock.online_tick.body
        ⟨clockStore c k, [("timestamp", V.rat ts), ("$unit", V.str (unitStr c.unit))]⟩
      = .ok ⟨clockStore c (k.tick c ts), loc'⟩ := by
  have h := gen_clock_tick (α := α) c k ts
  change (exec Gen.Clock.online_tick.body ⟨clockStore c k, [("timestamp", V.rat ts), ("$unit", V.str (unitStr c.unit))]⟩
    >>= fun env => pure (env.self, V.none)) = _ at h
  cases he : exec (α := α) Gen.Clock.online_tick.body
      ⟨clockStore c k, [("timestamp", V.rat ts), ("$unit", V.str (unitStr c.unit))]⟩ with
  | error e => rw [he] at h; cases h
  | ok env =>
    rw [he] at h
    obtain ⟨s, l⟩ := env
    have : s = clockStore c (k.tick c ts) := by
      have h' := Except.ok.inj h
      exact congrArg Prod.fst h'
    exact ⟨l, by rw [this]⟩

omit [DecidableEq α] in
/-- The fragment of `reset`. -/
theorem clock_reset_exec (c : SamplingCfg) (k : Clock) (loc : Rtamt.Py.Store α) :
    ∃ loc', exec (α := α) Gen.Clock.online_reset.body ⟨clockStore c k, loc⟩ = .ok ⟨clockStore c k.reset, loc'⟩ := by
  refine ⟨loc, ?_⟩
  py_simp [Gen.Clock.online_reset, clockStore, Clock.reset]

/-! ### `update` -/

/-- The translated `update(timestamp, dataset)` in closed form: the data set is written to `var_object_dict`, `visitAst` of
    the (translated) update visitor runs on it, `rob[len(rob) - 1]` is returned (`IndexError` without assertions), the
    bookkeeping ticks. -/
theorem updateGU_eq (c : SamplingCfg) (free : List String) (specs : List (F α)) (ts : Rat) (d : List (String × α))
    (st : USt α) (k : Clock) (hclk : st.clk = clockStore c k) (hnv : NoVarKeys st.g.ops) :
    updateGU (unitStr c.unit) free specs ts d st =
      match updateSpecsG (applyRows free st.vod d) specs st.g with
      | .error e => .error e
      | .ok (l, g2) =>
        match l[l.length - 1]? with
        | none => .error .index
        | some none => .error .type
        | some (some rob) =>
            .ok (rob, { g := g2, vod := applyRows free st.vod d, clk := clockStore c (k.tick c ts) }) := by
  unfold updateGU callU
  rw [interp_update_shape]
  simp only [bindArgs, envOf, x_ok_bind, x_seq, x_opaque]
  rw [x_forData "dataset" _ _ d rfl]
  obtain ⟨env', h1, h2, h3, h4, h5⟩ := forData_loop d
    ({ vast := some (fun vars g => updateSpecsG vars specs g), rast := some (resetSpecsG specs), free := free,
       unit := unitStr c.unit, datasets := [] ++ [("dataset", d)],
       cloc := ([] ++ [("timestamp", V.rat ts)]) ++ [("$unit", V.str (unitStr c.unit))] } : UEnv α) st hnv
  rw [h1]
  simp only [x_ok_bind]
  simp only [execUS, evalUE, h3, bind, Except.bind, pure, Except.pure]
  cases hu : updateSpecsG (applyRows free st.vod d) specs st.g with
  | error e => rfl
  | ok q =>
    obtain ⟨l, g2⟩ := q
    simp only [uGet_uSet_same]
    cases hl : l[l.length - 1]? with
    | none => rfl
    | some ov =>
      obtain ⟨loc', hx⟩ := clock_tick_exec (α := α) c k ts
      have hc : env'.cloc = [("timestamp", V.rat ts), ("$unit", V.str (unitStr c.unit))] := h4
      simp only [hc, hclk, hx, uGet_uSet_same]
      cases ov with
      | none => rfl
      | some rob => rfl

/-! ### an update re-binds operator nodes only -/

/-- The keys that are variable names are bound after the visit as before. -/
def VarFrameR (sm : Rtamt.Store α × Memo α) (r : Except PyErr (α × (Rtamt.Store α × Memo α))) : Prop :=
  ∀ v sm', r = .ok (v, sm') → ∀ x, sm'.1.lookup (.var x) = sm.1.lookup (.var x)

omit [Val α] in
theorem VarFrameR.of_rel {sm : Rtamt.Store α × Memo α} {a b : Except PyErr (α × (Rtamt.Store α × Memo α))}
    (h : MirrorRel a b) (ha : VarFrameR sm a) : VarFrameR sm b := by
  intro v sm' hb x
  subst hb
  cases a with
  | error e => exact h.elim
  | ok p =>
    obtain ⟨v0, o, m⟩ := p
    obtain ⟨o', m'⟩ := sm'
    obtain ⟨-, h2, -⟩ := h
    rw [← h2 (.var x)]
    exact ha v0 (o, m) rfl x

theorem frame_mirror1 (env : String → α) (χ φ : F α) (sm : Rtamt.Store α × Memo α) (hk : ∀ x, χ ≠ .var x)
    (ih : VarFrameR sm (visitM env φ sm)) : VarFrameR sm (mirror1 env χ φ sm) := by
  intro v sm' h x
  unfold mirror1 at h
  split at h
  · cases h; rfl
  · split at h
    · cases h
    · rename_i v1 st1 mm1 hv
      split at h
      · cases h
      · split at h
        · cases h
        · cases h
          show List.lookup (F.var x) (st1.set χ _) = _
          rw [C09.lookup_set_ne _ _ _ _ (fun e => hk x e.symm)]
          exact ih _ _ hv x

theorem frame_mirror2 (env : String → α) (χ φ ψ : F α) (sm : Rtamt.Store α × Memo α) (hk : ∀ x, χ ≠ .var x)
    (ih1 : VarFrameR sm (visitM env φ sm)) (ih2 : ∀ sm1, VarFrameR sm1 (visitM env ψ sm1)) :
    VarFrameR sm (mirror2 env χ φ ψ sm) := by
  intro v sm' h x
  unfold mirror2 at h
  split at h
  · cases h; rfl
  · split at h
    · cases h
    · rename_i v1 sm1 hv1
      split at h
      · cases h
      · rename_i v2 st2 mm2 hv2
        split at h
        · cases h
        · split at h
          · cases h
          · cases h
            show List.lookup (F.var x) (st2.set χ _) = _
            rw [C09.lookup_set_ne _ _ _ _ (fun e => hk x e.symm)]
            exact (ih2 sm1 _ _ hv2 x).trans (ih1 _ _ hv1 x)

theorem visitM_varFrame (env : String → α) (φ : F α) : ∀ sm, VarFrameR sm (visitM env φ sm) := by
  induction φ with
  | var y => intro sm v sm' h x; rw [visitM] at h; cases h; rfl
  | const c => intro sm v sm' h x; rw [visitM] at h; cases h; rfl
  | un op φ ih => exact fun sm => (frame_mirror1 env _ φ sm (fun _ => by simp) (ih sm)).of_rel (mirror1_un env op φ sm)
  | tmp1 op φ ih => exact fun sm => (frame_mirror1 env _ φ sm (fun _ => by simp) (ih sm)).of_rel (mirror1_tmp1 env op φ sm)
  | tb1 op a b φ ih =>
    exact fun sm => (frame_mirror1 env _ φ sm (fun _ => by simp) (ih sm)).of_rel (mirror1_tb1 env op a b φ sm)
  | bin op φ ψ ih1 ih2 =>
    exact fun sm => (frame_mirror2 env _ φ ψ sm (fun _ => by simp) (ih1 sm) ih2).of_rel (mirror2_bin env op φ ψ sm)
  | tmp2 op φ ψ ih1 ih2 =>
    exact fun sm => (frame_mirror2 env _ φ ψ sm (fun _ => by simp) (ih1 sm) ih2).of_rel (mirror2_tmp2 env op φ ψ sm)
  | tb2 op a b φ ψ ih1 ih2 =>
    exact fun sm => (frame_mirror2 env _ φ ψ sm (fun _ => by simp) (ih1 sm) ih2).of_rel (mirror2_tb2 env op a b φ ψ sm)

/-- `visitAst`: one value per assertion; variable names are bound as before. -/
theorem visitSpecs_props (env : String → α) (specs : List (F α)) :
    ∀ (sm : Rtamt.Store α × Memo α) vs sm', visitSpecs env specs sm = .ok (vs, sm') →
      vs.length = specs.length ∧ ∀ x, sm'.1.lookup (.var x) = sm.1.lookup (.var x) := by
  induction specs with
  | nil => intro sm vs sm' h; rw [visitSpecs] at h; cases h; exact ⟨rfl, fun _ => rfl⟩
  | cons φ rest ih =>
    intro sm vs sm' h
    rw [visitSpecs] at h
    cases h1 : visitM env φ sm with
    | error e => rw [h1] at h; cases h
    | ok p =>
      obtain ⟨v, sm1⟩ := p
      rw [h1] at h
      cases h2 : visitSpecs env rest sm1 with
      | error e => simp only [h2, bind, Except.bind] at h; cases h
      | ok q =>
        obtain ⟨vs2, sm2⟩ := q
        simp only [h2, bind, Except.bind, pure, Except.pure] at h
        cases h
        obtain ⟨k1, k2⟩ := ih sm1 vs2 _ h2
        exact ⟨by simp [k1], fun x => (k2 x).trans (visitM_varFrame env φ sm v sm1 h1 x)⟩

theorem updateSpecs_props (env : String → α) (specs : List (F α)) (ops ops' : Rtamt.Store α) (vs : List α) (memo : Memo α)
    (h : updateSpecs env specs ops = .ok (vs, memo, ops')) :
    vs.length = specs.length ∧ (NoVarKeys ops → NoVarKeys ops') := by
  unfold updateSpecs at h
  cases h1 : visitSpecs env specs (ops, []) with
  | error e => simp only [h1, bind, Except.bind] at h; cases h
  | ok q =>
    obtain ⟨vs2, o2, m2⟩ := q
    simp only [h1, bind, Except.bind, pure, Except.pure] at h
    cases h
    obtain ⟨k1, k2⟩ := visitSpecs_props env specs _ _ _ h1
    exact ⟨k1, fun hnv x => (k2 x).trans (hnv x)⟩

/-! ### one `update(timestamp, dataset)` -/

/-- The state of the translated interpreter and the monitor of the mirror agree: the operator dictionaries bind the same
    state to every key, `var_object_dict` is the valuation, the attributes of the bookkeeping are those of the clock. -/
def StAgree (c : SamplingCfg) (st : USt α) (p : Prog α) : Prop :=
  StoreEq st.g.ops p.ops ∧ st.vod = p.vod ∧ st.clk = clockStore c p.clock

/-- Outcome of one `update`: the value returned, the memo of the round, the states; or the same exception. -/
def UpdAgree (c : SamplingCfg) : Except PyErr (α × USt α) → Except PyErr (α × Memo α × Prog α) → Prop
  | .ok (rob, st'), .ok (rob', memo, p') => rob = rob' ∧ st'.g.updated = memo ∧ StAgree c st' p'
  | .error e, .error e' => e = e'
  | _, _ => False

omit [Val α] [DecidableEq α] in
theorem last_map_some (vs : List α) : (vs.map some)[(vs.map some).length - 1]? = (vs[vs.length - 1]?).map some := by
  rw [List.length_map, List.getElem?_map]

/-- One translated `update(timestamp, dataset)` is `Prog.update` of the mirror: the rows of the data set that name a free
    variable are written to the valuation (later rows win, every other variable keeps its previous value), `updateSpecs` runs
    on that valuation, the value of the last assertion is returned (`IndexError` if there is none), then `Clock.tick`.
    The same exception otherwise. -/
theorem genGlue_update (c : SamplingCfg) (free : List String) (specs : List (F α)) (ts : Rat) (d : List (String × α))
    (st : USt α) (p : Prog α) (h : StAgree c st p) (hnv : NoVarKeys p.ops) :
    UpdAgree c (updateGU (unitStr c.unit) free specs ts d st) (p.update c free specs ts d) := by
  obtain ⟨heq, hvod, hclk⟩ := h
  rw [updateGU_eq c free specs ts d st p.clock hclk (NoVarKeys.of_eq heq hnv)]
  have hr := genGlue_round (applyRows free st.vod d) specs st.g p.ops heq
  unfold Prog.update
  rw [← hvod]
  cases hg : updateSpecsG (applyRows free st.vod d) specs st.g with
  | error e =>
    rw [hg] at hr
    cases hm : updateSpecs (applyRows free st.vod d) specs p.ops with
    | error e' => rw [hm] at hr; exact hr
    | ok q => rw [hm] at hr; exact hr.elim
  | ok q =>
    obtain ⟨l, g2⟩ := q
    rw [hg] at hr
    cases hm : updateSpecs (applyRows free st.vod d) specs p.ops with
    | error e' => rw [hm] at hr; exact hr.elim
    | ok q' =>
      obtain ⟨vs, memo, ops'⟩ := q'
      rw [hm] at hr
      obtain ⟨rfl, h2, h3⟩ := hr
      simp only [last_map_some]
      cases hl : vs[vs.length - 1]? with
      | none => exact (rfl : PyErr.index = PyErr.index)
      | some rob =>
        show rob = rob ∧ g2.updated = memo ∧ StAgree c _ _
        exact ⟨rfl, h3, h2, rfl, rfl⟩

/-- With at least one assertion there is no `IndexError`: `update` returns the value of the LAST assertion. -/
theorem Prog.update_of_ne (c : SamplingCfg) (free : List String) (specs : List (F α)) (hs : specs ≠ []) (p : Prog α)
    (ts : Rat) (d : List (String × α)) :
    p.update c free specs ts d =
      (updateSpecs (applyRows free p.vod d) specs p.ops).map
        (fun r => (lastVal r.1, r.2.1, { ops := r.2.2, vod := applyRows free p.vod d, clock := p.clock.tick c ts })) := by
  unfold Prog.update
  cases hm : updateSpecs (applyRows free p.vod d) specs p.ops with
  | error e => rfl
  | ok q =>
    obtain ⟨vs, memo, ops'⟩ := q
    have hlen := (updateSpecs_props _ specs _ _ _ _ hm).1
    have hpos : vs.length - 1 < vs.length := by
      have : specs.length ≠ 0 := fun h => hs (List.length_eq_zero_iff.1 h)
      omega
    simp only [Except.map, lastVal, List.getElem?_eq_getElem hpos, Option.getD_some]

/-- What a successful `update` did. -/
theorem Prog.update_ok {c : SamplingCfg} {free : List String} {specs : List (F α)} {p p' : Prog α}
    {ts : Rat} {d : List (String × α)} {rob : α} {memo : Memo α} (h : p.update c free specs ts d = .ok (rob, memo, p')) :
    ∃ vs ops', updateSpecs (applyRows free p.vod d) specs p.ops = .ok (vs, memo, ops') ∧ vs[vs.length - 1]? = some rob ∧
      p' = { ops := ops', vod := applyRows free p.vod d, clock := p.clock.tick c ts } := by
  unfold Prog.update at h
  cases hm : updateSpecs (applyRows free p.vod d) specs p.ops with
  | error e => rw [hm] at h; cases h
  | ok q =>
    obtain ⟨vs, memo', ops'⟩ := q
    rw [hm] at h
    simp only [] at h
    cases hl : vs[vs.length - 1]? with
    | none => rw [hl] at h; cases h
    | some r =>
      rw [hl] at h
      cases h
      exact ⟨vs, ops', rfl, hl, rfl⟩

/-- … and it keeps the dictionary free of variable names. -/
theorem Prog.update_noVarKeys (c : SamplingCfg) (free : List String) (specs : List (F α)) (p p' : Prog α)
    (ts : Rat) (d : List (String × α)) (rob : α) (memo : Memo α) (h : p.update c free specs ts d = .ok (rob, memo, p'))
    (hnv : NoVarKeys p.ops) : NoVarKeys p'.ops := by
  obtain ⟨vs, ops', hm, -, rfl⟩ := Prog.update_ok h
  exact (updateSpecs_props _ specs _ _ _ _ hm).2 hnv

/-! ### a sequence of updates -/

def RunAgree (c : SamplingCfg) : Except PyErr (List (α × Memo α) × USt α) → Except PyErr (List (α × Memo α) × Prog α) → Prop
  | .ok (o, st'), .ok (o', p') => o = o' ∧ StAgree c st' p'
  | .error e, .error e' => e = e'
  | _, _ => False

/-- A sequence of translated `update(timestamp, dataset)` calls is `Prog.run` of the mirror: per call the value of the last
    assertion and the memo of the round; the states at the end agree. -/
theorem genGlue_update_prog_run (c : SamplingCfg) (free : List String) (specs : List (F α))
    (ds : List (Rat × List (String × α))) (st : USt α) (p : Prog α) (h : StAgree c st p) (hnv : NoVarKeys p.ops) :
    RunAgree c (runGU (unitStr c.unit) free specs st ds) (Prog.run c free specs p ds) := by
  induction ds generalizing st p with
  | nil => exact ⟨rfl, h⟩
  | cons td ds ih =>
    obtain ⟨ts, d⟩ := td
    have hu := genGlue_update c free specs ts d st p h hnv
    simp only [runGU, Prog.run, bind, Except.bind, pure, Except.pure]
    cases hg : updateGU (unitStr c.unit) free specs ts d st with
    | error e =>
      rw [hg] at hu
      cases hm : p.update c free specs ts d with
      | error e' => rw [hm] at hu; exact hu
      | ok q => rw [hm] at hu; exact hu.elim
    | ok q =>
      obtain ⟨rob, st'⟩ := q
      rw [hg] at hu
      cases hm : p.update c free specs ts d with
      | error e' => rw [hm] at hu; exact hu.elim
      | ok q' =>
        obtain ⟨rob', memo, p'⟩ := q'
        rw [hm] at hu
        obtain ⟨rfl, h2, h3⟩ := hu
        have ih' := ih st' p' h3 (Prog.update_noVarKeys c free specs p p' ts d _ _ hm hnv)
        simp only []
        cases hg2 : runGU (unitStr c.unit) free specs st' ds with
        | error e =>
          rw [hg2] at ih'
          cases hm2 : Prog.run c free specs p' ds with
          | error e' => rw [hm2] at ih'; exact ih'
          | ok q2 => rw [hm2] at ih'; exact ih'.elim
        | ok q2 =>
          obtain ⟨o, st''⟩ := q2
          rw [hg2] at ih'
          cases hm2 : Prog.run c free specs p' ds with
          | error e' => rw [hm2] at ih'; exact ih'.elim
          | ok q3 =>
            obtain ⟨o', p''⟩ := q3
            rw [hm2] at ih'
            obtain ⟨rfl, k2⟩ := ih'
            exact ⟨by rw [h2], k2⟩

/-- `Prog.run` in terms of `runSpecs`: the valuations are the data sets written one over the other; per update the value of
    the last assertion and the memo. -/
theorem Prog.run_outputs (c : SamplingCfg) (free : List String) (specs : List (F α)) (hs : specs ≠ [])
    (ds : List (Rat × List (String × α))) (p : Prog α) :
    (Prog.run c free specs p ds).map Prod.fst =
      (runSpecs specs p.ops (valuations free p.vod (ds.map Prod.snd))).map
        (fun rs => rs.map (fun r => (lastVal r.1, r.2))) := by
  induction ds generalizing p with
  | nil => rfl
  | cons td ds ih =>
    obtain ⟨ts, d⟩ := td
    simp only [Prog.run, List.map_cons, valuations, runSpecs, Prog.update_of_ne c free specs hs]
    cases hm : updateSpecs (applyRows free p.vod d) specs p.ops with
    | error e => rfl
    | ok q =>
      obtain ⟨vs, memo, ops'⟩ := q
      have ih' := ih { ops := ops', vod := applyRows free p.vod d, clock := p.clock.tick c ts }
      simp only [bind, Except.bind, pure, Except.pure, Except.map] at ih' ⊢
      cases hr : Prog.run c free specs { ops := ops', vod := applyRows free p.vod d, clock := p.clock.tick c ts } ds with
      | error e =>
        rw [hr] at ih'
        cases hr2 : runSpecs specs ops' (valuations free (applyRows free p.vod d) (ds.map Prod.snd)) with
        | error e' => rw [hr2] at ih'; simp only [] at ih' ⊢; rw [Except.error.inj ih']
        | ok q2 => rw [hr2] at ih'; cases ih'
      | ok q1 =>
        obtain ⟨o, p''⟩ := q1
        rw [hr] at ih'
        cases hr2 : runSpecs specs ops' (valuations free (applyRows free p.vod d) (ds.map Prod.snd)) with
        | error e' => rw [hr2] at ih'; cases ih'
        | ok q2 =>
          rw [hr2] at ih'
          simp only [] at ih' ⊢
          rw [Except.ok.inj ih']
          rfl

/-- The clock after a run is the fold of `Clock.tick` over the time stamps, the valuation the fold of the data sets. -/
theorem Prog.run_final (c : SamplingCfg) (free : List String) (specs : List (F α))
    (ds : List (Rat × List (String × α))) (p p' : Prog α) (out : List (α × Memo α))
    (h : Prog.run c free specs p ds = .ok (out, p')) :
    p'.clock = (ds.map Prod.fst).foldl (Clock.tick c) p.clock ∧
      p'.vod = (ds.map Prod.snd).foldl (applyRows free) p.vod ∧ out.length = ds.length := by
  induction ds generalizing p out with
  | nil => rw [Prog.run] at h; cases h; exact ⟨rfl, rfl, rfl⟩
  | cons td ds ih =>
    obtain ⟨ts, d⟩ := td
    rw [Prog.run] at h
    cases hm : p.update c free specs ts d with
    | error e => simp only [hm, bind, Except.bind] at h; cases h
    | ok q =>
      obtain ⟨rob, memo, p1⟩ := q
      simp only [hm, bind, Except.bind] at h
      cases hr : Prog.run c free specs p1 ds with
      | error e => simp only [hr] at h; cases h
      | ok q2 =>
        obtain ⟨o, p2⟩ := q2
        simp only [hr, pure, Except.pure] at h
        cases h
        obtain ⟨k1, k2, k3⟩ := ih p1 o hr
        obtain ⟨vs, ops', -, -, rfl⟩ := Prog.update_ok hm
        exact ⟨k1, k2, by simp [k3]⟩

/-- A sequence of translated updates, stated on `runSpecs` and `Clock.tick`: with at least one assertion the values returned
    and the memos are those of `runSpecs` on the valuations `valuations free vod datasets`, the same exception otherwise; after
    a run without exception the bookkeeping is the fold of `Clock.tick` over the time stamps and `var_object_dict` the data
    sets written one over the other. -/
theorem genGlue_update_run (c : SamplingCfg) (free : List String) (specs : List (F α)) (hs : specs ≠ [])
    (ds : List (Rat × List (String × α))) (st : USt α) (p : Prog α) (h : StAgree c st p) (hnv : NoVarKeys p.ops) :
    (runGU (unitStr c.unit) free specs st ds).map Prod.fst =
        (runSpecs specs p.ops (valuations free p.vod (ds.map Prod.snd))).map
          (fun rs => rs.map (fun r => (lastVal r.1, r.2))) ∧
      ∀ out st', runGU (unitStr c.unit) free specs st ds = .ok (out, st') →
        st'.clk = clockStore c ((ds.map Prod.fst).foldl (Clock.tick c) p.clock) ∧
        st'.vod = (ds.map Prod.snd).foldl (applyRows free) p.vod := by
  have hr := genGlue_update_prog_run c free specs ds st p h hnv
  rw [← Prog.run_outputs c free specs hs ds p]
  cases hg : runGU (unitStr c.unit) free specs st ds with
  | error e =>
    rw [hg] at hr
    cases hm : Prog.run c free specs p ds with
    | error e' => rw [hm] at hr; exact ⟨by rw [hr]; rfl, fun _ _ h => by cases h⟩
    | ok q => rw [hm] at hr; exact hr.elim
  | ok q =>
    obtain ⟨o, st1⟩ := q
    rw [hg] at hr
    cases hm : Prog.run c free specs p ds with
    | error e' => rw [hm] at hr; exact hr.elim
    | ok q' =>
      obtain ⟨o', p'⟩ := q'
      rw [hm] at hr
      obtain ⟨rfl, -, k2, k3⟩ := hr
      obtain ⟨f1, f2, -⟩ := Prog.run_final c free specs ds p p' o hm
      refine ⟨rfl, fun out st' he => ?_⟩
      cases he
      exact ⟨by rw [k3, f1], by rw [k2, f2]⟩

/-! ### `reset()` -/

/-- One iteration of `for var_name in self.ast.free_vars:`. -/
def freeStep (p : UEnv α × USt α) (y : String) : Except PyErr (UEnv α × USt α) :=
  execUS (.setVar (.loc "var_name") (.createVar (.loc "var_name"))) { p.1 with loc := uSet "var_name" (.str y) p.1.loc } p.2

theorem freeStep_eq (env : UEnv α) (st : USt α) (y : String) :
    freeStep (env, st) y =
      .ok ({ env with loc := uSet "var_name" (.str y) env.loc }, { st with vod := vodSet st.vod y Val.zero }) := by
  unfold freeStep
  simp only [execUS, evalUE, uGet_uSet_same, bind, Except.bind, pure, Except.pure]

theorem forFree_loop (fs : List String) : ∀ (env : UEnv α) (st : USt α),
    ∃ env', fs.foldlM freeStep (env, st) =
      .ok (env', { st with vod := fs.foldl (fun vod y => vodSet vod y Val.zero) st.vod }) := by
  induction fs with
  | nil => intro env st; exact ⟨env, rfl⟩
  | cons y fs ih =>
    intro env st
    rw [List.foldlM_cons, freeStep_eq]
    exact ih _ _

omit [DecidableEq α] in
theorem foldl_vodSet (fs : List String) (vod : String → α) :
    fs.foldl (fun vod y => vodSet vod y Val.zero) vod = resetVars fs vod := by
  induction fs generalizing vod with
  | nil => rfl
  | cons x fs ih =>
    rw [List.foldl_cons, ih]
    funext y
    unfold resetVars vodSet
    by_cases h1 : y ∈ fs <;> by_cases h2 : y = x <;> simp [h1, h2]

theorem x_forFree (env : UEnv α) (st : USt α) :
    execUS (.forFree "var_name" (.setVar (.loc "var_name") (.createVar (.loc "var_name")))) env st
      = env.free.foldlM freeStep (env, st) := id rfl

theorem x_resetAst (env : UEnv α) (st : USt α) :
    execUS .resetAst env st =
      match env.rast with
      | some f => (f st.g >>= fun g' => pure (env, { st with g := g' }))
      | none => .error .other := id rfl

theorem x_clock (s : S) (env : UEnv α) (st : USt α) :
    execUS (.clock s) env st =
      (exec s ⟨st.clk, env.cloc⟩ >>= fun e' => pure ({ env with cloc := e'.loc }, { st with clk := e'.self })) := id rfl

/-- The translated `reset()` in closed form: the (translated) reset visitor, the bookkeeping back to its initial values,
    every free variable back to `float()`. -/
theorem resetGU_eq (c : SamplingCfg) (unit : String) (free : List String) (specs : List (F α)) (st : USt α) (k : Clock)
    (hclk : st.clk = clockStore c k) :
    resetGU unit free specs st =
      (resetSpecsG specs st.g).map (fun g' => { g := g', vod := resetVars free st.vod, clk := clockStore c k.reset }) := by
  unfold resetGU callU
  rw [interp_reset_shape]
  simp only [bindArgs, envOf, x_ok_bind, x_seq, x_resetAst]
  cases hr : resetSpecsG specs st.g with
  | error e => rfl
  | ok g' =>
    obtain ⟨loc', hx⟩ := clock_reset_exec (α := α) c k ([] ++ [("$unit", V.str unit)])
    simp only [x_ok_bind, pure, Except.pure, x_clock, hclk, hx, x_forFree]
    rw [(forFree_loop free _ _).choose_spec]
    simp only [x_ok_bind, foldl_vodSet, Except.map]

/-- Outcome of `reset()`. -/
def ResetAgreeW (c : SamplingCfg) : Except PyErr (USt α) → Except PyErr (Prog α) → Prop
  | .ok st', .ok p' => StAgree c st' p'
  | .error e, .error e' => e = e'
  | _, _ => False

/-- The translated `reset()` is `Prog.reset` of the mirror: `resetSpecs` on the operator dictionary, `Clock.reset`, every
    free variable back to its initial value (all other entries of `var_object_dict` stay); the same exception otherwise
    (`KeyError` of the reset visitor: nothing else is reset then). -/
theorem genGlue_reset_whole (c : SamplingCfg) (unit : String) (free : List String) (specs : List (F α)) (st : USt α)
    (p : Prog α) (h : StAgree c st p) :
    ResetAgreeW c (resetGU unit free specs st) (p.reset free specs) := by
  obtain ⟨heq, hvod, hclk⟩ := h
  rw [resetGU_eq c unit free specs st p.clock hclk]
  have hr := genGlue_resetSpecs specs st.g p.ops heq
  unfold Prog.reset
  cases hg : resetSpecsG specs st.g with
  | error e =>
    rw [hg] at hr
    cases hm : resetSpecs specs p.ops with
    | error e' => rw [hm] at hr; exact hr
    | ok o => rw [hm] at hr; exact hr.elim
  | ok g' =>
    rw [hg] at hr
    cases hm : resetSpecs specs p.ops with
    | error e' => rw [hm] at hr; exact hr.elim
    | ok o =>
      rw [hm] at hr
      exact ⟨hr, by rw [← hvod], rfl⟩

/-- After `reset()` the bookkeeping is that of a fresh monitor and every free variable reads `0.0`. -/
theorem genGlue_reset_whole_init (c : SamplingCfg) (unit : String) (free : List String) (specs : List (F α)) (st st' : USt α)
    (k : Clock) (hclk : st.clk = clockStore c k) (h : resetGU unit free specs st = .ok st') :
    st'.clk = clockStore c {} ∧ (∀ x ∈ free, st'.vod x = Val.zero) ∧ (∀ x, x ∉ free → st'.vod x = st.vod x) := by
  rw [resetGU_eq c unit free specs st k hclk] at h
  cases hr : resetSpecsG specs st.g with
  | error e => rw [hr] at h; cases h
  | ok g' =>
    rw [hr] at h
    cases h
    refine ⟨rfl, fun x hx => ?_, fun x hx => ?_⟩
    · show resetVars free st.vod x = _
      simp [resetVars, hx]
    · show resetVars free st.vod x = _
      simp [resetVars, hx]

/-! ### `set_variable_to_ast_from_dataset` on its own -/

theorem genGlue_set_vars (unit : String) (free : List String) (specs : List (F α)) (d : List (String × α)) (st : USt α)
    (hnv : NoVarKeys st.g.ops) :
    setVarsGU unit free specs d st = .ok { st with vod := applyRows free st.vod d } := by
  unfold setVarsGU callU
  rw [interp_set_vars_shape]
  simp only [bindArgs, envOf, x_ok_bind]
  rw [x_forData "dataset" _ _ d rfl]
  obtain ⟨env', h1, -⟩ := forData_loop d
    ({ vast := some (fun vars g => updateSpecsG vars specs g), rast := some (resetSpecsG specs), free := free,
       unit := unit, datasets := [] ++ [("dataset", d)], cloc := [] ++ [("$unit", V.str unit)] } : UEnv α) st hnv
  rw [h1]
  rfl

/-! ### a fresh monitor -/

theorem init_node1 (h r : Kind → Bool) (kd : Kind) (χ φ : F α) (s0 : St α) (hk : ∀ x, χ ≠ .var x)
    (ih : ∀ st st', initStoreF h r φ st = .ok st' → ∀ x, st'.lookup (F.var x) = st.lookup (F.var x))
    (st st' : Rtamt.Store α)
    (e : (do if r kd then throw PyErr.rtamt
             let st1 ← initStoreF h r φ st
             if h kd then pure (st1.set χ s0) else pure st1) = Except.ok st') :
    ∀ x, st'.lookup (F.var x) = st.lookup (F.var x) := by
  intro x
  by_cases hr : r kd = true <;> by_cases hh : h kd = true <;>
    simp only [hr, hh, bind, Except.bind, pure, Except.pure, if_true, if_false, Bool.false_eq_true] at e
  all_goals first | cases e | skip
  all_goals
    cases h1 : initStoreF h r φ st with
    | error err => rw [h1] at e; cases e
    | ok st1 =>
      rw [h1] at e
      cases e
      first
        | exact ih _ _ h1 x
        | (rw [C09.lookup_set_ne _ _ _ _ (fun e => hk x e.symm)]; exact ih _ _ h1 x)

theorem init_node2 (h r : Kind → Bool) (kd : Kind) (χ φ ψ : F α) (s0 : St α) (hk : ∀ x, χ ≠ .var x)
    (ih1 : ∀ st st', initStoreF h r φ st = .ok st' → ∀ x, st'.lookup (F.var x) = st.lookup (F.var x))
    (ih2 : ∀ st st', initStoreF h r ψ st = .ok st' → ∀ x, st'.lookup (F.var x) = st.lookup (F.var x))
    (st st' : Rtamt.Store α)
    (e : (do if r kd then throw PyErr.rtamt
             let st1 ← initStoreF h r φ st
             let st2 ← initStoreF h r ψ st1
             if h kd then pure (st2.set χ s0) else pure st2) = Except.ok st') :
    ∀ x, st'.lookup (F.var x) = st.lookup (F.var x) := by
  intro x
  by_cases hr : r kd = true <;> by_cases hh : h kd = true <;>
    simp only [hr, hh, bind, Except.bind, pure, Except.pure, if_true, if_false, Bool.false_eq_true] at e
  all_goals first | cases e | skip
  all_goals
    cases h1 : initStoreF h r φ st with
    | error err => rw [h1] at e; cases e
    | ok st1 =>
      rw [h1] at e
      cases h2 : initStoreF h r ψ st1 with
      | error err => simp only [h2] at e; cases e
      | ok st2 =>
        simp only [h2] at e
        cases e
        first
          | exact (ih2 _ _ h2 x).trans (ih1 _ _ h1 x)
          | (rw [C09.lookup_set_ne _ _ _ _ (fun e => hk x e.symm)]; exact (ih2 _ _ h2 x).trans (ih1 _ _ h1 x))

/-- `set_ast` registers operator objects under operator nodes only. -/
theorem initStoreF_var (h r : Kind → Bool) (φ : F α) :
    ∀ st st' : Rtamt.Store α, initStoreF h r φ st = .ok st' → ∀ x, st'.lookup (F.var x) = st.lookup (F.var x) := by
  induction φ with
  | var y => intro st st' e x; rw [initStoreF] at e; split at e <;> cases e; rfl
  | const c => intro st st' e x; rw [initStoreF] at e; cases e; rfl
  | un op φ ih => intro st st' e; rw [initStoreF] at e; exact init_node1 h r _ _ φ _ (fun _ => by simp) ih st st' e
  | tmp1 op φ ih => intro st st' e; rw [initStoreF] at e; exact init_node1 h r _ _ φ _ (fun _ => by simp) ih st st' e
  | tb1 op a b φ ih => intro st st' e; rw [initStoreF] at e; exact init_node1 h r _ _ φ _ (fun _ => by simp) ih st st' e
  | bin op φ ψ ih1 ih2 =>
    intro st st' e; rw [initStoreF] at e; exact init_node2 h r _ _ φ ψ _ (fun _ => by simp) ih1 ih2 st st' e
  | tmp2 op φ ψ ih1 ih2 =>
    intro st st' e; rw [initStoreF] at e; exact init_node2 h r _ _ φ ψ _ (fun _ => by simp) ih1 ih2 st st' e
  | tb2 op a b φ ψ ih1 ih2 =>
    intro st st' e; rw [initStoreF] at e; exact init_node2 h r _ _ φ ψ _ (fun _ => by simp) ih1 ih2 st st' e

/-- The dictionary `set_ast` builds has no variable name among its keys. -/
theorem noVarKeys_init (h r : Kind → Bool) (specs : List (F α)) : ∀ st st' : Rtamt.Store α,
    initStore h r specs st = .ok st' → NoVarKeys st → NoVarKeys st' := by
  induction specs with
  | nil => intro st st' e hnv; rw [initStore] at e; cases e; exact hnv
  | cons φ rest ih =>
    intro st st' e hnv
    rw [initStore] at e
    cases h1 : initStoreF h r φ st with
    | error err => simp only [h1, bind, Except.bind] at e; cases e
    | ok st1 =>
      simp only [h1, bind, Except.bind] at e
      exact ih st1 st' e (fun x => (initStoreF_var h r φ st st1 h1 x).trans (hnv x))

/-- A fresh monitor (the dictionary of `set_ast`, the bookkeeping at its initial values, whatever memo and `results` the
    visitor holds) fed a sequence of `update(timestamp, dataset)` calls through the translated methods: `runProgram` of the
    mirror on the valuations, per call the value of the last assertion and the memo; afterwards the violation counter is
    `onlineCounter` of the time stamps. -/
theorem genGlue_update_program (c : SamplingCfg) (free : List String) (specs : List (F α)) (hs : specs ≠ [])
    (h r : Kind → Bool) (ds : List (Rat × List (String × α))) (o : Rtamt.Store α) (updated results : Memo α)
    (vod : String → α) (hi : initStore h r specs [] = .ok o) :
    (runGU (unitStr c.unit) free specs
        { g := { ops := o, updated := updated, results := results }, vod := vod, clk := clockStore c {} } ds).map Prod.fst =
      (runProgram h r specs (valuations free vod (ds.map Prod.snd))).map
        (fun rs => rs.map (fun r => (lastVal r.1, r.2))) ∧
    ∀ out st', runGU (unitStr c.unit) free specs
        { g := { ops := o, updated := updated, results := results }, vod := vod, clk := clockStore c {} } ds = .ok (out, st') →
      ∃ k : Clock, st'.clk = clockStore c k ∧ k.viol = onlineCounter c (ds.map Prod.fst) := by
  have hnv : NoVarKeys o := noVarKeys_init h r specs [] o hi (fun _ => rfl)
  obtain ⟨h1, h2⟩ := genGlue_update_run c free specs hs ds
    { g := { ops := o, updated := updated, results := results }, vod := vod, clk := clockStore c {} }
    { ops := o, vod := vod, clock := {} } ⟨StoreEq.refl _, rfl, rfl⟩ hnv
  refine ⟨?_, fun out st' he => ⟨_, (h2 out st' he).1, rfl⟩⟩
  rw [h1]
  unfold runProgram
  rw [hi]
  rfl

/-! ### what is translated -/

/-- Nothing in the translated methods is outside the translated subset, except
    * `self.online_operator_dict[var_name].sample = var_value` under `if var_name in self.online_operator_dict:` in
      `set_variable_to_ast_from_dataset` (no operator object is registered under a variable name, `NoVarKeys`),
    * `setattr(out, self.ast.out_var_field, rob)` under `if self.ast.out_var_field:` (empty for a float-typed output). -/
theorem genGlueUpd_supported :
    Gen.GlueUpd.methods.map (fun p => (p.1, p.2.unsup)) =
      [("interp_update",
         ["self.online_operator_dict[var_name].sample = var_value", "setattr(out, self.ast.out_var_field, rob)"]),
       ("interp_reset", []),
       ("interp_set_variable_to_ast_from_dataset", ["self.online_operator_dict[var_name].sample = var_value"])] := by
  decide

/-- The statements kept as named steps without effect on the model's state (all others are translated or `unsupported`):
    the check that a specification has been parsed, the alias `ast.results` of the visitor's `results`, the read of the
    output variable's object. -/
theorem genGlueUpd_opaque :
    Gen.GlueUpd.methods.map (fun p => (p.1, p.2.body.opaques)) =
      [("interp_update",
         ["self.exist_ast()", "self.ast.results = self.updateVisitor.results",
          "out = self.ast.var_object_dict[self.ast.out_var]"]),
       ("interp_reset", []), ("interp_set_variable_to_ast_from_dataset", [])] := by
  decide

/-- The fragments of the sampling bookkeeping are, term for term, the fragments `RtamtProofs/GenClock.lean` is about, and lie
    inside the subset of `Sem.lean`; the two visitors are instances of the classes `GeneratedGlue.lean` translates. -/
theorem genGlueUpd_clock :
    Gen.GlueUpd.interp_update.body.clocks = [Gen.Clock.online_tick.body] ∧
    Gen.GlueUpd.interp_reset.body.clocks = [Gen.Clock.online_reset.body] ∧
    Gen.GlueUpd.interp_set_variable_to_ast_from_dataset.body.clocks = [] ∧
    (Gen.GlueUpd.methods.all fun p => p.2.body.clocks.all S.supported) = true ∧
    Gen.GlueUpd.visitors =
      [("updateVisitor", "DiscreteTimeOnlineUpdateVisitor"), ("resetVisitor", "AbstractOnlineResetVisitor")] :=
  ⟨rfl, rfl, rfl, by decide, by decide⟩

/-! ### sanity: concrete runs, and the hypotheses are needed -/

namespace Example

/-- Three values `-inf < 0 < +inf`. -/
local instance : Val (Fin 3) where
  lt a b := decide (a < b)
  neg a := Fin.rev a
  abs a := if a < 1 then Fin.rev a else a
  add a _ := a
  sub a b := if a < b then 0 else if b < a then 2 else 1
  mul a _ := a
  div a _ := a
  pinf := 2
  ninf := 0
  zero := 1
  sqrt a := a
  exp a := a
  ln a := a
  pow a _ := a
  log a _ := a

local instance exceptDecEq {ε β : Type} [DecidableEq ε] [DecidableEq β] : DecidableEq (Except ε β)
  | .ok a, .ok b => if h : a = b then isTrue (by rw [h]) else isFalse (fun h' => h (Except.ok.inj h'))
  | .error a, .error b => if h : a = b then isTrue (by rw [h]) else isFalse (fun h' => h (Except.error.inj h'))
  | .ok _, .error _ => isFalse (fun h => by cases h)
  | .error _, .ok _ => isFalse (fun h => by cases h)

/-- Sampling period 1 s, tolerance 10 %, time stamps in seconds. -/
def cfg : SamplingCfg := { period := 1, periodUnit := .s, tol := 1 / 10, unit := .s }

/-- A monitor before its first update: the dictionary `o`, every variable at `float()`. -/
def fresh (o : Rtamt.Store (Fin 3)) : USt (Fin 3) :=
  { g := { ops := o, updated := [], results := [] }, vod := fun _ => Val.zero, clk := clockStore cfg {} }

def freshP (o : Rtamt.Store (Fin 3)) : Prog (Fin 3) := { ops := o, vod := fun _ => Val.zero, clock := {} }

/-- What is observable of a run: the values returned, `var_object_dict["x"]` and the violation counter at the end. -/
def obsG (r : Except PyErr (List (Fin 3 × Memo (Fin 3)) × USt (Fin 3))) : Except PyErr (List (Fin 3) × Fin 3 × Option Int) :=
  r.map fun q => (q.1.map Prod.fst, q.2.vod "x",
    match getKey "sampling_violation_counter" q.2.clk with | .ok (V.int n) => some n | _ => none)

def obsP (r : Except PyErr (List (Fin 3 × Memo (Fin 3)) × Prog (Fin 3))) : Except PyErr (List (Fin 3) × Fin 3 × Option Int) :=
  r.map fun q => (q.1.map Prod.fst, q.2.vod "x", some (q.2.clock.viol : Int))

/-- Without assertions `rob[len(rob) - 1]` raises `IndexError` — in the translated `update` and in `Prog.update` alike;
    hence `specs ≠ []` in `Prog.update_of_ne` / `genGlue_update_run`. -/
example : (updateGU "s" ["x"] ([] : List (F (Fin 3))) 0 [("x", 2)] (fresh [])).map Prod.fst = .error .index := by
  decide
example : ((freshP []).update cfg ["x"] ([] : List (F (Fin 3))) 0 [("x", 2)]).map Prod.fst = .error .index := by
  decide

/-- An operator object registered under the name of a free variable (`NoVarKeys` fails): the translated `update` reaches
    `self.online_operator_dict[var_name].sample = var_value`, which is outside the translated subset, while `Prog.update`
    returns the value of `x`. -/
example : (updateGU "s" ["x"] [F.var "x"] 0 [("x", (2 : Fin 3))] (fresh [(.var "x", .unit)])).map Prod.fst = .error .other := by
  decide
example : ((freshP [(.var "x", .unit)]).update cfg ["x"] [F.var "x"] 0 [("x", (2 : Fin 3))]).map Prod.fst = .ok 2 := by
  decide

/-- Assertions that share `once(x)`, the last one `-x`; `y` is not a free variable; the second update leaves `x` out (it keeps
    the value `2`: `-x` is `0` again, not `-float()`), the third comes 3 s after the second (one sampling violation), the fourth has two rows for `x` (the later wins). -/
def exSpecs : List (F (Fin 3)) :=
  [.tmp1 .once (.var "x"), .un .negate (.tmp1 .once (.var "x")), .un .negate (.var "x")]

def exData : List (Rat × List (String × Fin 3)) :=
  [(0, [("x", 2), ("y", 0)]), (1, []), (4, [("x", 1)]), (5, [("x", 0), ("x", 1)])]

example :
    (do let o ← initStore (fun _ => true) (fun _ => false) exSpecs []
        obsG (runGU "s" ["x"] exSpecs (fresh o) exData)) = .ok ([0, 0, 1, 1], 1, some 1) := by
  decide +kernel

example :
    (do let o ← initStore (fun _ => true) (fun _ => false) exSpecs []
        obsG (runGU "s" ["x"] exSpecs (fresh o) exData)) =
    (do let o ← initStore (fun _ => true) (fun _ => false) exSpecs []
        obsP (Prog.run cfg ["x"] exSpecs (freshP o) exData)) := by
  decide +kernel

/-- `reset()` after that run: the counter is `0` again and `x` reads `float()`. -/
example :
    (do let o ← initStore (fun _ => true) (fun _ => false) exSpecs []
        let (_, st) ← runGU "s" ["x"] exSpecs (fresh o) exData
        let st' ← resetGU "s" ["x"] exSpecs st
        obsG (.ok ([], st'))) = .ok ([], 1, some 0) := by
  decide +kernel

end Example

end Rtamt.Py.GUpd

#print axioms Rtamt.Py.GUpd.genGlue_update
#print axioms Rtamt.Py.GUpd.genGlue_update_prog_run
#print axioms Rtamt.Py.GUpd.genGlue_update_run
#print axioms Rtamt.Py.GUpd.genGlue_update_program
#print axioms Rtamt.Py.GUpd.genGlue_reset_whole
#print axioms Rtamt.Py.GUpd.genGlue_reset_whole_init
#print axioms Rtamt.Py.GUpd.genGlue_set_vars
#print axioms Rtamt.Py.GUpd.genGlueUpd_supported
#print axioms Rtamt.Py.GUpd.genGlueUpd_opaque
#print axioms Rtamt.Py.GUpd.genGlueUpd_clock
