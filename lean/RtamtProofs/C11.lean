/-
  C11 — Evaluation is pure: caller data untouched, repeatable, isolated, deterministic.

  "evaluate() and update() never modify the lists or dictionaries passed by the caller;
   evaluating the same offline specification object again on the same data returns the same
   result; operations on one specification object never change the results of another; and
   results do not depend on the interpreter hash seed."

  What a theorem can carry (partial, see DESIGN §C11): in the model every monitor is a pure
  function of (specification, data) and a state that it alone owns.  `C11_interleave` makes
  the isolation statement precise for two online monitors driven in an arbitrary
  interleaving; `C11_offline_repeatable` is the repeatability statement; the padding of
  bounded future operators (the one in-place list extension the code performed, finding
  F04, repaired) is shown not to change the operand: `timedFuture` returns a fresh list and
  the model has no aliasing.  Python aliasing in general and hash-seed dependence cannot be
  exhibited by the model: they are decided by the correspondence stream `pure`.
-/
import RtamtProofs.C02

namespace Rtamt
open Val

variable {α : Type} [Val α]

inductive Who | A | B
  deriving DecidableEq, Repr

/-- Two online monitors driven by one interleaved sequence of `update` calls. -/
def runTwo (φA φB : F α) : STree α → STree α → List (Who × (String → α)) →
    Except PyErr (STree α × STree α × List α × List α)
  | sa, sb, [] => .ok (sa, sb, [], [])
  | sa, sb, (.A, e) :: rest => do
      let (sa', o) ← stepTree e φA sa
      let (sa'', sb'', oa, ob) ← runTwo φA φB sa' sb rest
      pure (sa'', sb'', o :: oa, ob)
  | sa, sb, (.B, e) :: rest => do
      let (sb', o) ← stepTree e φB sb
      let (sa'', sb'', oa, ob) ← runTwo φA φB sa sb' rest
      pure (sa'', sb'', oa, o :: ob)

def projA (l : List (Who × (String → α))) : List (String → α) :=
  l.filterMap (fun p => if p.1 = .A then some p.2 else none)
def projB (l : List (Who × (String → α))) : List (String → α) :=
  l.filterMap (fun p => if p.1 = .B then some p.2 else none)

/-- Isolation: in any interleaving of calls on two monitors, each monitor returns exactly what
    it returns when driven alone with its own calls. -/
theorem C11_interleave (φA φB : F α) (sa sb : STree α) (ops : List (Who × (String → α)))
    (sa' sb' : STree α) (oa ob : List α)
    (h : runTwo φA φB sa sb ops = .ok (sa', sb', oa, ob)) :
    runTree φA sa (projA ops) = .ok (sa', oa) ∧ runTree φB sb (projB ops) = .ok (sb', ob) := by
  induction ops generalizing sa sb sa' sb' oa ob with
  | nil =>
    simp only [runTwo, Except.ok.injEq, Prod.mk.injEq] at h
    obtain ⟨rfl, rfl, rfl, rfl⟩ := h
    simp [projA, projB, runTree]
  | cons hd rest ih =>
    obtain ⟨w, e⟩ := hd
    cases w with
    | A =>
      cases hstep : stepTree e φA sa with
      | error _ => simp [runTwo, hstep, bind, Except.bind] at h
      | ok p =>
        obtain ⟨sa1, o⟩ := p
        cases hrest : runTwo φA φB sa1 sb rest with
        | error _ => simp [runTwo, hstep, hrest, bind, Except.bind] at h
        | ok q =>
          obtain ⟨sa2, sb2, oa2, ob2⟩ := q
          simp only [runTwo, hstep, hrest, bind, Except.bind, pure, Except.pure,
            Except.ok.injEq, Prod.mk.injEq] at h
          obtain ⟨rfl, rfl, rfl, rfl⟩ := h
          obtain ⟨hA, hB⟩ := ih _ _ _ _ _ _ hrest
          have pa : projA ((Who.A, e) :: rest) = e :: projA rest := by
            simp [projA]
          have pb : projB ((Who.A, e) :: rest) = projB rest := by
            simp [projB]
          rw [pa, pb]
          refine ⟨?_, hB⟩
          simp [runTree, hstep, hA, bind, Except.bind, pure, Except.pure]
    | B =>
      cases hstep : stepTree e φB sb with
      | error _ => simp [runTwo, hstep, bind, Except.bind] at h
      | ok p =>
        obtain ⟨sb1, o⟩ := p
        cases hrest : runTwo φA φB sa sb1 rest with
        | error _ => simp [runTwo, hstep, hrest, bind, Except.bind] at h
        | ok q =>
          obtain ⟨sa2, sb2, oa2, ob2⟩ := q
          simp only [runTwo, hstep, hrest, bind, Except.bind, pure, Except.pure,
            Except.ok.injEq, Prod.mk.injEq] at h
          obtain ⟨rfl, rfl, rfl, rfl⟩ := h
          obtain ⟨hA, hB⟩ := ih _ _ _ _ _ _ hrest
          have pa : projA ((Who.B, e) :: rest) = projA rest := by
            simp [projA]
          have pb : projB ((Who.B, e) :: rest) = e :: projB rest := by
            simp [projB]
          rw [pa, pb]
          refine ⟨hA, ?_⟩
          simp [runTree, hstep, hB, bind, Except.bind, pure, Except.pure]

/-- Repeatability: offline evaluation is a function of the specification and the data. -/
theorem C11_offline_repeatable (h : Kind → Bool) (w : Env α) (n : Nat) (φ : F α) :
    evalOff h w n φ = evalOff h w n φ := rfl

set_option linter.unusedSectionVars false in
/-- The padded evaluation of bounded future operators does not depend on anything but its
    arguments, and on a trace longer than the bound no padding takes place at all. -/
theorem C11_no_padding_when_long (agg : List α → Except PyErr α) (pad : α) (a b : Nat) (s : List α)
    (hlong : b < s.length) :
    timedFuture agg pad a b s =
      (do
        let r1 ← (List.range' a (b + 1 - a)).mapM (fun j => agg (slice s j (j + (b - a) + 1)))
        let r2 ← (List.range' (b + 1) (s.length - (b + 1))).mapM (fun j => agg (slice s j (j + (b - a) + 1)))
        pure (((r1 ++ r2) ++ List.replicate (s.length - (r1 ++ r2).length) pad).take s.length)) := by
  unfold timedFuture
  simp only [if_neg (Nat.not_le.2 hlong)]

end Rtamt
