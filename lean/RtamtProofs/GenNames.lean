/-
  The names under which the online interpreters store their operators tell the nodes apart.

  `Rtamt/Py/GeneratedNames.lean` is produced on every run by `harness/py2lean.py` from the constructors of the node
  classes (`rtamt/syntax/node/{ltl,stl,arithmetic}/*.py`): for each class the pieces `self.name` is concatenated from.
  `names_injective`: two parsed formulas (`NF`: node classes, operands, comparison operator, constants, variables and the
  interval as written — the texts of both bounds and of both units) with the same name, as a list of tokens, are the same
  formula; hence the dictionary keyed by the name (the code) and the dictionary keyed by the formula (the model,
  `Rtamt/Discrete/Program.lean`) have the same entries.  A constructor that leaves an attribute out of the name, or two
  classes that print the same, break this theorem.
-/
import Rtamt.Py.GeneratedNames

namespace Rtamt.Py
open Rtamt

variable {α : Type}

namespace NamesAux

/-- Opening literal of the unary and the timed unary classes. -/
def op1 : Kind → String
  | .Abs => "abs(" | .Sqrt => "sqrt(" | .Exp => "exp(" | .Ln => "ln(" | .Negate => "-(" | .Neg => "not("
  | .Rise => "rise(" | .Fall => "fall(" | .Previous => "previous(" | .StrongPrevious => "s_previous("
  | .Next => "next(" | .StrongNext => "s_next(" | .Once => "once(" | .Historically => "historically("
  | .Eventually => "eventually(" | .Always => "always("
  | .TimedOnce => "once[" | .TimedHistorically => "historically[" | .TimedEventually => "eventually["
  | .TimedAlways => "always["
  | _ => ""

/-- Opening literal of the binary classes. -/
def op2 : Kind → String
  | .Pow => "pow(" | .Log => "log(" | _ => "("

/-- Middle literal of the binary and the timed binary classes. -/
def mid : Kind → String
  | .Addition => ")+(" | .Subtraction => ")-(" | .Multiplication => ")*(" | .Division => ")/("
  | .Pow => "," | .Log => ","
  | .Conjunction => ")and(" | .Disjunction => ")or(" | .Implies => ")->(" | .Iff => ")<->(" | .Xor => ")xor("
  | .Since => ")since(" | .Until => ")until("
  | .TimedSince => ")since[" | .TimedUntil => ")until[" | .TimedPrecedes => ")precedes["
  | _ => ""

theorem lookupVar : Gen.Names.table.lookup .Variable = some [.var] := by decide
theorem lookupConst : Gen.Names.table.lookup .Constant = some [.val] := by decide
theorem lookupPred : Gen.Names.table.lookup .Predicate =
    some [.lit "(", .child 0, .lit ")", .operator, .lit "(", .child 1, .lit ")"] := by decide
theorem lookup1 : ∀ k ∈ unaryKinds, Gen.Names.table.lookup k = some [.lit (op1 k), .child 0, .lit ")"] := by decide
theorem lookup2 : ∀ k ∈ binaryKinds,
    Gen.Names.table.lookup k = some [.lit (op2 k), .child 0, .lit (mid k), .child 1, .lit ")"] := by decide
theorem lookupT1 : ∀ k ∈ timedUnaryKinds, Gen.Names.table.lookup k =
    some [.lit (op1 k), .begin_, .beginUnit, .lit ",", .end_, .endUnit, .lit "](", .child 0, .lit ")"] := by decide
theorem lookupT2 : ∀ k ∈ timedBinaryKinds, Gen.Names.table.lookup k =
    some [.lit "(", .child 0, .lit (mid k), .begin_, .beginUnit, .lit ",", .end_, .endUnit, .lit "](", .child 1,
      .lit ")"] := by decide

local notation "N" => nameTok Gen.Names.table

theorem name_var (x : String) (s : List (Tok α)) : N (.var x : NF α) = some s ↔ s = [.ident x] := by
  simp [nameTok, lookupVar, renderPieces, pieceTok, eq_comm]

theorem name_const (c : α) (s : List (Tok α)) : N (.const c : NF α) = some s ↔ s = [.num c] := by
  simp [nameTok, lookupConst, renderPieces, pieceTok, eq_comm]

theorem name_pred (o : Cmp) (φ ψ : NF α) (s : List (Tok α)) :
    N (.pred o φ ψ) = some s ↔ ∃ a b, N φ = some a ∧ N ψ = some b ∧
      s = .lit "(" :: (a ++ .lit ")" :: .cmp o :: .lit "(" :: (b ++ [.lit ")"])) := by
  simp only [nameTok, lookupPred]
  cases N φ <;> cases N ψ <;> simp [renderPieces, pieceTok, eq_comm]

theorem name_node1 {k : Kind} (hk : k ∈ unaryKinds) (φ : NF α) (s : List (Tok α)) :
    N (.node1 k φ) = some s ↔ ∃ a, N φ = some a ∧ s = .lit (op1 k) :: (a ++ [.lit ")"]) := by
  simp only [nameTok, lookup1 k hk]
  cases N φ <;> simp [renderPieces, pieceTok, eq_comm]

theorem name_node2 {k : Kind} (hk : k ∈ binaryKinds) (φ ψ : NF α) (s : List (Tok α)) :
    N (.node2 k φ ψ) = some s ↔ ∃ a b, N φ = some a ∧ N ψ = some b ∧
      s = .lit (op2 k) :: (a ++ .lit (mid k) :: (b ++ [.lit ")"])) := by
  simp only [nameTok, lookup2 k hk]
  cases N φ <;> cases N ψ <;> simp [renderPieces, pieceTok, eq_comm]

theorem name_tnode1 {k : Kind} (hk : k ∈ timedUnaryKinds) (iv : RawIv) (φ : NF α) (s : List (Tok α)) :
    N (.tnode1 k iv φ) = some s ↔ ∃ a, N φ = some a ∧
      s = .lit (op1 k) :: .txt iv.b :: .txt iv.bu :: .lit "," :: .txt iv.e :: .txt iv.eu :: .lit "](" ::
        (a ++ [.lit ")"]) := by
  simp only [nameTok, lookupT1 k hk]
  cases N φ <;> simp [renderPieces, pieceTok, eq_comm]

theorem name_tnode2 {k : Kind} (hk : k ∈ timedBinaryKinds) (iv : RawIv) (φ ψ : NF α) (s : List (Tok α)) :
    N (.tnode2 k iv φ ψ) = some s ↔ ∃ a b, N φ = some a ∧ N ψ = some b ∧
      s = .lit "(" :: (a ++ .lit (mid k) :: .txt iv.b :: .txt iv.bu :: .lit "," :: .txt iv.e :: .txt iv.eu ::
        .lit "](" :: (b ++ [.lit ")"])) := by
  simp only [nameTok, lookupT2 k hk]
  cases N φ <;> cases N ψ <;> simp [renderPieces, pieceTok, eq_comm]


/-! Literals tell the classes apart. -/

theorem op1_ne_paren : ∀ k ∈ unaryKinds ++ timedUnaryKinds, op1 k ≠ "(" := by decide
theorem op1_ne_op2 : ∀ k ∈ unaryKinds ++ timedUnaryKinds, ∀ k' ∈ binaryKinds, op1 k ≠ op2 k' := by decide
theorem op1_inj : ∀ k ∈ unaryKinds ++ timedUnaryKinds, ∀ k' ∈ unaryKinds ++ timedUnaryKinds,
    op1 k = op1 k' → k = k' := by decide
theorem op1_ne_op1 : ∀ k ∈ unaryKinds, ∀ k' ∈ timedUnaryKinds, op1 k ≠ op1 k' := by decide
theorem bin_inj : ∀ k ∈ binaryKinds, ∀ k' ∈ binaryKinds, op2 k = op2 k' → mid k = mid k' → k = k' := by decide
theorem mid_ne_close : ∀ k ∈ binaryKinds ++ timedBinaryKinds, mid k ≠ ")" := by decide
theorem mid_ne_mid : ∀ k ∈ binaryKinds, ∀ k' ∈ timedBinaryKinds, mid k ≠ mid k' := by decide
theorem midT_inj : ∀ k ∈ timedBinaryKinds, ∀ k' ∈ timedBinaryKinds, mid k = mid k' → k = k' := by decide

theorem ok_pred {o : Cmp} {φ ψ : NF α} : (NF.pred o φ ψ).ok = true ↔ φ.ok = true ∧ ψ.ok = true := by
  simp [NF.ok]
theorem ok_node1 {k : Kind} {φ : NF α} : (NF.node1 k φ).ok = true ↔ k ∈ unaryKinds ∧ φ.ok = true := by
  simp [NF.ok]
theorem ok_node2 {k : Kind} {φ ψ : NF α} :
    (NF.node2 k φ ψ).ok = true ↔ k ∈ binaryKinds ∧ φ.ok = true ∧ ψ.ok = true := by
  simp [NF.ok, and_assoc]
theorem ok_tnode1 {k : Kind} {iv : RawIv} {φ : NF α} :
    (NF.tnode1 k iv φ).ok = true ↔ k ∈ timedUnaryKinds ∧ φ.ok = true := by
  simp [NF.ok]
theorem ok_tnode2 {k : Kind} {iv : RawIv} {φ ψ : NF α} :
    (NF.tnode2 k iv φ ψ).ok = true ↔ k ∈ timedBinaryKinds ∧ φ.ok = true ∧ ψ.ok = true := by
  simp [NF.ok, and_assoc]

theorem total (φ : NF α) (h : φ.ok = true) : ∃ s, N φ = some s := by
  induction φ with
  | var x => exact ⟨_, (name_var x _).2 rfl⟩
  | const c => exact ⟨_, (name_const c _).2 rfl⟩
  | pred o φ ψ ih1 ih2 =>
    obtain ⟨h1, h2⟩ := ok_pred.1 h
    obtain ⟨a, ha⟩ := ih1 h1
    obtain ⟨b, hb⟩ := ih2 h2
    exact ⟨_, (name_pred o φ ψ _).2 ⟨a, b, ha, hb, rfl⟩⟩
  | node1 k φ ih1 =>
    obtain ⟨hk, h1⟩ := ok_node1.1 h
    obtain ⟨a, ha⟩ := ih1 h1
    exact ⟨_, (name_node1 hk φ _).2 ⟨a, ha, rfl⟩⟩
  | node2 k φ ψ ih1 ih2 =>
    obtain ⟨hk, h1, h2⟩ := ok_node2.1 h
    obtain ⟨a, ha⟩ := ih1 h1
    obtain ⟨b, hb⟩ := ih2 h2
    exact ⟨_, (name_node2 hk φ ψ _).2 ⟨a, b, ha, hb, rfl⟩⟩
  | tnode1 k iv φ ih1 =>
    obtain ⟨hk, h1⟩ := ok_tnode1.1 h
    obtain ⟨a, ha⟩ := ih1 h1
    exact ⟨_, (name_tnode1 hk iv φ _).2 ⟨a, ha, rfl⟩⟩
  | tnode2 k iv φ ψ ih1 ih2 =>
    obtain ⟨hk, h1, h2⟩ := ok_tnode2.1 h
    obtain ⟨a, ha⟩ := ih1 h1
    obtain ⟨b, hb⟩ := ih2 h2
    exact ⟨_, (name_tnode2 hk iv φ ψ _).2 ⟨a, b, ha, hb, rfl⟩⟩

/-- Compare two token lists from the left. -/
local macro "nm_simp" "at" h:ident : tactic =>
  `(tactic| simp only [List.cons_append, List.append_assoc, List.nil_append, List.cons.injEq, Tok.lit.injEq,
      Tok.txt.injEq, Tok.cmp.injEq, Tok.ident.injEq, Tok.num.injEq, reduceCtorEq, false_and, and_false, true_and,
      and_true] at $h:ident)

theorem prefix_free (φ : NF α) : ∀ (ψ : NF α) (s s' r r' : List (Tok α)), φ.ok = true → ψ.ok = true →
    N φ = some s → N ψ = some s' → s ++ r = s' ++ r' → φ = ψ ∧ r = r' := by
  induction φ with
  | var x =>
    intro ψ s s' r r' hφ hψ h1 h2 h
    obtain rfl := (name_var x s).1 h1
    cases ψ with
    | var y =>
      obtain rfl := (name_var y s').1 h2
      nm_simp at h
      exact ⟨by rw [h.1], h.2⟩
    | const c => obtain rfl := (name_const c s').1 h2; nm_simp at h
    | pred o ψ1 ψ2 => obtain ⟨a', b', -, -, rfl⟩ := (name_pred o ψ1 ψ2 s').1 h2; nm_simp at h
    | node1 k' ψ1 =>
      obtain ⟨hk', -⟩ := ok_node1.1 hψ
      obtain ⟨a', -, rfl⟩ := (name_node1 hk' ψ1 s').1 h2; nm_simp at h
    | node2 k' ψ1 ψ2 =>
      obtain ⟨hk', -, -⟩ := ok_node2.1 hψ
      obtain ⟨a', b', -, -, rfl⟩ := (name_node2 hk' ψ1 ψ2 s').1 h2; nm_simp at h
    | tnode1 k' iv' ψ1 =>
      obtain ⟨hk', -⟩ := ok_tnode1.1 hψ
      obtain ⟨a', -, rfl⟩ := (name_tnode1 hk' iv' ψ1 s').1 h2; nm_simp at h
    | tnode2 k' iv' ψ1 ψ2 =>
      obtain ⟨hk', -, -⟩ := ok_tnode2.1 hψ
      obtain ⟨a', b', -, -, rfl⟩ := (name_tnode2 hk' iv' ψ1 ψ2 s').1 h2; nm_simp at h
  | const c =>
    intro ψ s s' r r' hφ hψ h1 h2 h
    obtain rfl := (name_const c s).1 h1
    cases ψ with
    | var y => obtain rfl := (name_var y s').1 h2; nm_simp at h
    | const c' =>
      obtain rfl := (name_const c' s').1 h2
      nm_simp at h
      exact ⟨by rw [h.1], h.2⟩
    | pred o ψ1 ψ2 => obtain ⟨a', b', -, -, rfl⟩ := (name_pred o ψ1 ψ2 s').1 h2; nm_simp at h
    | node1 k' ψ1 =>
      obtain ⟨hk', -⟩ := ok_node1.1 hψ
      obtain ⟨a', -, rfl⟩ := (name_node1 hk' ψ1 s').1 h2; nm_simp at h
    | node2 k' ψ1 ψ2 =>
      obtain ⟨hk', -, -⟩ := ok_node2.1 hψ
      obtain ⟨a', b', -, -, rfl⟩ := (name_node2 hk' ψ1 ψ2 s').1 h2; nm_simp at h
    | tnode1 k' iv' ψ1 =>
      obtain ⟨hk', -⟩ := ok_tnode1.1 hψ
      obtain ⟨a', -, rfl⟩ := (name_tnode1 hk' iv' ψ1 s').1 h2; nm_simp at h
    | tnode2 k' iv' ψ1 ψ2 =>
      obtain ⟨hk', -, -⟩ := ok_tnode2.1 hψ
      obtain ⟨a', b', -, -, rfl⟩ := (name_tnode2 hk' iv' ψ1 ψ2 s').1 h2; nm_simp at h
  | pred o φ1 φ2 ih1 ih2 =>
    intro ψ s s' r r' hφ hψ h1 h2 h
    obtain ⟨hφ1, hφ2⟩ := ok_pred.1 hφ
    obtain ⟨a, b, ha, hb, rfl⟩ := (name_pred o φ1 φ2 s).1 h1
    cases ψ with
    | var y => obtain rfl := (name_var y s').1 h2; nm_simp at h
    | const c => obtain rfl := (name_const c s').1 h2; nm_simp at h
    | pred o' ψ1 ψ2 =>
      obtain ⟨hψ1, hψ2⟩ := ok_pred.1 hψ
      obtain ⟨a', b', ha', hb', rfl⟩ := (name_pred o' ψ1 ψ2 s').1 h2
      nm_simp at h
      have g := ih1 ψ1 _ _ _ _ hφ1 hψ1 ha ha' h; clear h; obtain ⟨rfl, h⟩ := g
      nm_simp at h
      obtain ⟨rfl, h⟩ := h
      have g := ih2 ψ2 _ _ _ _ hφ2 hψ2 hb hb' h; clear h; obtain ⟨rfl, h⟩ := g
      nm_simp at h
      exact ⟨rfl, h⟩
    | node1 k' ψ1 =>
      obtain ⟨hk', -⟩ := ok_node1.1 hψ
      obtain ⟨a', -, rfl⟩ := (name_node1 hk' ψ1 s').1 h2
      nm_simp at h
      exact absurd h.1.symm (op1_ne_paren k' (List.mem_append_left _ hk'))
    | node2 k' ψ1 ψ2 =>
      obtain ⟨hk', hψ1, -⟩ := ok_node2.1 hψ
      obtain ⟨a', b', ha', -, rfl⟩ := (name_node2 hk' ψ1 ψ2 s').1 h2
      nm_simp at h
      have g := ih1 ψ1 _ _ _ _ hφ1 hψ1 ha ha' h.2; clear h; obtain ⟨rfl, h⟩ := g
      nm_simp at h
      exact absurd h.1.symm (mid_ne_close k' (List.mem_append_left _ hk'))
    | tnode1 k' iv' ψ1 =>
      obtain ⟨hk', -⟩ := ok_tnode1.1 hψ
      obtain ⟨a', -, rfl⟩ := (name_tnode1 hk' iv' ψ1 s').1 h2
      nm_simp at h
      exact absurd h.1.symm (op1_ne_paren k' (List.mem_append_right _ hk'))
    | tnode2 k' iv' ψ1 ψ2 =>
      obtain ⟨hk', hψ1, -⟩ := ok_tnode2.1 hψ
      obtain ⟨a', b', ha', -, rfl⟩ := (name_tnode2 hk' iv' ψ1 ψ2 s').1 h2
      nm_simp at h
      have g := ih1 ψ1 _ _ _ _ hφ1 hψ1 ha ha' h; clear h; obtain ⟨rfl, h⟩ := g
      nm_simp at h
  | node1 k φ1 ih1 =>
    intro ψ s s' r r' hφ hψ h1 h2 h
    obtain ⟨hk, hφ1⟩ := ok_node1.1 hφ
    obtain ⟨a, ha, rfl⟩ := (name_node1 hk φ1 s).1 h1
    have hkm := List.mem_append_left timedUnaryKinds hk
    cases ψ with
    | var y => obtain rfl := (name_var y s').1 h2; nm_simp at h
    | const c => obtain rfl := (name_const c s').1 h2; nm_simp at h
    | pred o' ψ1 ψ2 =>
      obtain ⟨a', b', -, -, rfl⟩ := (name_pred o' ψ1 ψ2 s').1 h2
      nm_simp at h
      exact absurd h.1 (op1_ne_paren k hkm)
    | node1 k' ψ1 =>
      obtain ⟨hk', hψ1⟩ := ok_node1.1 hψ
      obtain ⟨a', ha', rfl⟩ := (name_node1 hk' ψ1 s').1 h2
      nm_simp at h
      obtain rfl := op1_inj k hkm k' (List.mem_append_left _ hk') h.1
      have g := ih1 ψ1 _ _ _ _ hφ1 hψ1 ha ha' h.2; clear h; obtain ⟨rfl, h⟩ := g
      nm_simp at h
      exact ⟨rfl, h⟩
    | node2 k' ψ1 ψ2 =>
      obtain ⟨hk', -, -⟩ := ok_node2.1 hψ
      obtain ⟨a', b', -, -, rfl⟩ := (name_node2 hk' ψ1 ψ2 s').1 h2
      nm_simp at h
      exact absurd h.1 (op1_ne_op2 k hkm k' hk')
    | tnode1 k' iv' ψ1 =>
      obtain ⟨hk', -⟩ := ok_tnode1.1 hψ
      obtain ⟨a', -, rfl⟩ := (name_tnode1 hk' iv' ψ1 s').1 h2
      nm_simp at h
      exact absurd h.1 (op1_ne_op1 k hk k' hk')
    | tnode2 k' iv' ψ1 ψ2 =>
      obtain ⟨hk', -, -⟩ := ok_tnode2.1 hψ
      obtain ⟨a', b', -, -, rfl⟩ := (name_tnode2 hk' iv' ψ1 ψ2 s').1 h2
      nm_simp at h
      exact absurd h.1 (op1_ne_paren k hkm)
  | node2 k φ1 φ2 ih1 ih2 =>
    intro ψ s s' r r' hφ hψ h1 h2 h
    obtain ⟨hk, hφ1, hφ2⟩ := ok_node2.1 hφ
    obtain ⟨a, b, ha, hb, rfl⟩ := (name_node2 hk φ1 φ2 s).1 h1
    cases ψ with
    | var y => obtain rfl := (name_var y s').1 h2; nm_simp at h
    | const c => obtain rfl := (name_const c s').1 h2; nm_simp at h
    | pred o' ψ1 ψ2 =>
      obtain ⟨hψ1, -⟩ := ok_pred.1 hψ
      obtain ⟨a', b', ha', -, rfl⟩ := (name_pred o' ψ1 ψ2 s').1 h2
      nm_simp at h
      have g := ih1 ψ1 _ _ _ _ hφ1 hψ1 ha ha' h.2; clear h; obtain ⟨rfl, h⟩ := g
      nm_simp at h
      exact absurd h.1 (mid_ne_close k (List.mem_append_left _ hk))
    | node1 k' ψ1 =>
      obtain ⟨hk', -⟩ := ok_node1.1 hψ
      obtain ⟨a', -, rfl⟩ := (name_node1 hk' ψ1 s').1 h2
      nm_simp at h
      exact absurd h.1.symm (op1_ne_op2 k' (List.mem_append_left _ hk') k hk)
    | node2 k' ψ1 ψ2 =>
      obtain ⟨hk', hψ1, hψ2⟩ := ok_node2.1 hψ
      obtain ⟨a', b', ha', hb', rfl⟩ := (name_node2 hk' ψ1 ψ2 s').1 h2
      nm_simp at h
      obtain ⟨ho, h⟩ := h
      have g := ih1 ψ1 _ _ _ _ hφ1 hψ1 ha ha' h; clear h; obtain ⟨rfl, h⟩ := g
      nm_simp at h
      obtain rfl := bin_inj k hk k' hk' ho h.1
      have g := ih2 ψ2 _ _ _ _ hφ2 hψ2 hb hb' h.2; clear h; obtain ⟨rfl, h⟩ := g
      nm_simp at h
      exact ⟨rfl, h⟩
    | tnode1 k' iv' ψ1 =>
      obtain ⟨hk', -⟩ := ok_tnode1.1 hψ
      obtain ⟨a', -, rfl⟩ := (name_tnode1 hk' iv' ψ1 s').1 h2
      nm_simp at h
      exact absurd h.1.symm (op1_ne_op2 k' (List.mem_append_right _ hk') k hk)
    | tnode2 k' iv' ψ1 ψ2 =>
      obtain ⟨hk', hψ1, -⟩ := ok_tnode2.1 hψ
      obtain ⟨a', b', ha', -, rfl⟩ := (name_tnode2 hk' iv' ψ1 ψ2 s').1 h2
      nm_simp at h
      have g := ih1 ψ1 _ _ _ _ hφ1 hψ1 ha ha' h.2; clear h; obtain ⟨rfl, h⟩ := g
      nm_simp at h
      exact absurd h.1 (mid_ne_mid k hk k' hk')
  | tnode1 k iv φ1 ih1 =>
    intro ψ s s' r r' hφ hψ h1 h2 h
    obtain ⟨hk, hφ1⟩ := ok_tnode1.1 hφ
    obtain ⟨a, ha, rfl⟩ := (name_tnode1 hk iv φ1 s).1 h1
    have hkm := List.mem_append_right unaryKinds hk
    cases ψ with
    | var y => obtain rfl := (name_var y s').1 h2; nm_simp at h
    | const c => obtain rfl := (name_const c s').1 h2; nm_simp at h
    | pred o' ψ1 ψ2 =>
      obtain ⟨a', b', -, -, rfl⟩ := (name_pred o' ψ1 ψ2 s').1 h2
      nm_simp at h
      exact absurd h.1 (op1_ne_paren k hkm)
    | node1 k' ψ1 =>
      obtain ⟨hk', -⟩ := ok_node1.1 hψ
      obtain ⟨a', -, rfl⟩ := (name_node1 hk' ψ1 s').1 h2
      nm_simp at h
      exact absurd h.1.symm (op1_ne_op1 k' hk' k hk)
    | node2 k' ψ1 ψ2 =>
      obtain ⟨hk', -, -⟩ := ok_node2.1 hψ
      obtain ⟨a', b', -, -, rfl⟩ := (name_node2 hk' ψ1 ψ2 s').1 h2
      nm_simp at h
      exact absurd h.1 (op1_ne_op2 k hkm k' hk')
    | tnode1 k' iv' ψ1 =>
      obtain ⟨hk', hψ1⟩ := ok_tnode1.1 hψ
      obtain ⟨a', ha', rfl⟩ := (name_tnode1 hk' iv' ψ1 s').1 h2
      nm_simp at h
      obtain ⟨ho, hb, hbu, he, heu, h⟩ := h
      obtain rfl := op1_inj k hkm k' (List.mem_append_right _ hk') ho
      have g := ih1 ψ1 _ _ _ _ hφ1 hψ1 ha ha' h; clear h; obtain ⟨rfl, h⟩ := g
      nm_simp at h
      obtain ⟨b, bu, e, eu⟩ := iv
      obtain ⟨b', bu', e', eu'⟩ := iv'
      simp only at hb hbu he heu
      subst hb hbu he heu
      exact ⟨rfl, h⟩
    | tnode2 k' iv' ψ1 ψ2 =>
      obtain ⟨hk', -, -⟩ := ok_tnode2.1 hψ
      obtain ⟨a', b', -, -, rfl⟩ := (name_tnode2 hk' iv' ψ1 ψ2 s').1 h2
      nm_simp at h
      exact absurd h.1 (op1_ne_paren k hkm)
  | tnode2 k iv φ1 φ2 ih1 ih2 =>
    intro ψ s s' r r' hφ hψ h1 h2 h
    obtain ⟨hk, hφ1, hφ2⟩ := ok_tnode2.1 hφ
    obtain ⟨a, b, ha, hb, rfl⟩ := (name_tnode2 hk iv φ1 φ2 s).1 h1
    cases ψ with
    | var y => obtain rfl := (name_var y s').1 h2; nm_simp at h
    | const c => obtain rfl := (name_const c s').1 h2; nm_simp at h
    | pred o' ψ1 ψ2 =>
      obtain ⟨hψ1, -⟩ := ok_pred.1 hψ
      obtain ⟨a', b', ha', -, rfl⟩ := (name_pred o' ψ1 ψ2 s').1 h2
      nm_simp at h
      have g := ih1 ψ1 _ _ _ _ hφ1 hψ1 ha ha' h; clear h; obtain ⟨rfl, h⟩ := g
      nm_simp at h
    | node1 k' ψ1 =>
      obtain ⟨hk', -⟩ := ok_node1.1 hψ
      obtain ⟨a', -, rfl⟩ := (name_node1 hk' ψ1 s').1 h2
      nm_simp at h
      exact absurd h.1.symm (op1_ne_paren k' (List.mem_append_left _ hk'))
    | node2 k' ψ1 ψ2 =>
      obtain ⟨hk', hψ1, -⟩ := ok_node2.1 hψ
      obtain ⟨a', b', ha', -, rfl⟩ := (name_node2 hk' ψ1 ψ2 s').1 h2
      nm_simp at h
      have g := ih1 ψ1 _ _ _ _ hφ1 hψ1 ha ha' h.2; clear h; obtain ⟨rfl, h⟩ := g
      nm_simp at h
      exact absurd h.1.symm (mid_ne_mid k' hk' k hk)
    | tnode1 k' iv' ψ1 =>
      obtain ⟨hk', -⟩ := ok_tnode1.1 hψ
      obtain ⟨a', -, rfl⟩ := (name_tnode1 hk' iv' ψ1 s').1 h2
      nm_simp at h
      exact absurd h.1.symm (op1_ne_paren k' (List.mem_append_right _ hk'))
    | tnode2 k' iv' ψ1 ψ2 =>
      obtain ⟨hk', hψ1, hψ2⟩ := ok_tnode2.1 hψ
      obtain ⟨a', b', ha', hb', rfl⟩ := (name_tnode2 hk' iv' ψ1 ψ2 s').1 h2
      nm_simp at h
      have g := ih1 ψ1 _ _ _ _ hφ1 hψ1 ha ha' h; clear h; obtain ⟨rfl, h⟩ := g
      nm_simp at h
      obtain ⟨hm, hb0, hbu, he, heu, h⟩ := h
      obtain rfl := midT_inj k hk k' hk' hm
      have g := ih2 ψ2 _ _ _ _ hφ2 hψ2 hb hb' h; clear h; obtain ⟨rfl, h⟩ := g
      nm_simp at h
      obtain ⟨b0, bu, e, eu⟩ := iv
      obtain ⟨b0', bu', e', eu'⟩ := iv'
      simp only at hb0 hbu he heu
      subst hb0 hbu he heu
      exact ⟨rfl, h⟩

end NamesAux

open NamesAux in
/-- Every class has its constructor in the table and every piece is understood. -/
theorem names_total (φ : NF α) (h : φ.ok = true) : (nameTok Gen.Names.table φ).isSome = true := by
  obtain ⟨s, hs⟩ := total φ h
  rw [hs]; rfl

/-- Unique readability from the left: a name followed by anything is read back in one way only. -/
theorem names_prefix_free (φ ψ : NF α) (hφ : φ.ok = true) (hψ : ψ.ok = true) (s s' r r' : List (Tok α))
    (h1 : nameTok Gen.Names.table φ = some s) (h2 : nameTok Gen.Names.table ψ = some s') (h : s ++ r = s' ++ r') :
    φ = ψ ∧ r = r' :=
  NamesAux.prefix_free φ ψ s s' r r' hφ hψ h1 h2 h

/-- The name determines the node. -/
theorem names_injective (φ ψ : NF α) (hφ : φ.ok = true) (hψ : ψ.ok = true) (t : List (Tok α))
    (h1 : nameTok Gen.Names.table φ = some t) (h2 : nameTok Gen.Names.table ψ = some t) : φ = ψ :=
  (names_prefix_free φ ψ hφ hψ t t [] [] h1 h2 rfl).1

end Rtamt.Py
