/-
  The driver of the explainer as translated from the Python source denotes the hand-written driver.

  `Rtamt/Py/GeneratedExplDrv.lean` is produced on every run by `harness/py2lean.py` (`generate_expl_driver`) from
  `rtamt/explanation/ltl/discrete_time/explainer.py` (`Explanations.__setitem__`, `LTLExplainer.explain`),
  `rtamt/explanation/stl/discrete_time/explainer.py` (`STLExplainer.explain`) and `rtamt/spec/abstract_specification.py`
  (`AbstractOfflineSpecification.explain`); `Rtamt/Py/ExplDrv.lean` gives the terms their meaning and
  `Rtamt/Py/RunExplDrv.lean` runs them on top of the translated visit methods and explanation functions (`explainG`).

    * `genExplDrv_setitem`  - the translated `__setitem__` is `recordU` (`Rtamt/Discrete/ExplainDrv.lean`): first record stored,
                              a later one merged by `interval_union` (the translated function, `fn_interval_union_ltl`);
    * `genExplDrv_explain`  - the translated `explain()` from ANY earlier state of the explainer is `explainDriverU`: a fresh
                              container, the assertions violated at time 0 visited in order from `[[0, 0]]` / `False`;
                              (`genExplDrv_explain_of_all` / `_of_last`: the two iterables of the loop the translator knows)
    * `genExplDrv_spec_explain`, `genExplDrv_supported`;
    * `C20_sufficient_translated_driver_partial` - `C20_sufficient_translated_partial` restated for the run of the driver.

  A change of the source changes the generated terms and these equalities have to be re-proved by the build.
-/
import RtamtProofs.GenExpl
import Rtamt.Py.RunExplDrv

namespace Rtamt.Py.Drv
open Rtamt Rtamt.Py Val

variable {α : Type} [Val α]

/-- The container of the mirror (`Nat`) as the dictionary of the run (`int`). -/
def castD (d : List (String × Ivs)) : Dict := d.map (fun p => (p.1, castI p.2))

theorem castD_lookup (d : List (String × Ivs)) (x : String) :
    (castD d).lookup x = (d.lookup x).map castI := by
  induction d with
  | nil => rfl
  | cons p r ih =>
    obtain ⟨k, v⟩ := p
    simp only [castD, List.map_cons, List.lookup]
    cases x == k
    · exact ih
    · rfl

theorem castD_dictSet (d : List (String × Ivs)) (x : String) (I : Ivs) :
    setKey x (castI I) (castD d) = castD (dictSet x I d) := by
  induction d with
  | nil => rfl
  | cons p r ih =>
    obtain ⟨k, v⟩ := p
    simp only [castD, List.map_cons, setKey, dictSet]
    cases k == x
    · simp only [Bool.false_eq_true, ite_false, List.map_cons]
      congr 1
    · simp only [ite_true, List.map_cons]

omit [Val α] in
theorem castI_append (A B : Ivs) : castI A ++ castI B = castI (A ++ B) := by
  simp [castI]

theorem mapM_copy (w : World α) (loc : Locals α) (l : IvsZ) :
    l.mapM (fun p => do asIv (← evalDE w (setKey "i" (.iv p.1 p.2) loc) (.listOf (.loc "i")))) = .ok l := by
  have h : ∀ p : Int × Int,
      (do asIv (← evalDE w (setKey "i" (.iv p.1 p.2) loc) (.listOf (.loc "i")))) = (.ok p : Except PyErr (Int × Int)) := by
    intro p
    simp only [evalDE, getKey_setKey_same, bind, Except.bind, pure, Except.pure, asIv]
  simp only [h]
  induction l with
  | nil => rfl
  | cons p r ih => simp [List.mapM_cons, ih, bind, Except.bind, pure, Except.pure]

theorem callGlobal_fn (ctx : Ctx α) (f : String) (hf : f ≠ "Explanations") (vs : List (DV α)) (w : World α) :
    callGlobal ctx f vs w = (do
      let as ← vs.mapM toV
      let r ← callFn ctx.funcs f as
      pure (← fromV r, w)) := by
  unfold callGlobal
  split
  · exact absurd rfl hf
  · rfl

/-- `interval_union(..)` inside `__setitem__`: the function translated from `explanations.py`. -/
theorem callGlobal_union (w : World α) (J : Ivs) :
    callGlobal (ctx0 (α := α)) "interval_union" [.ivs (castI J)] w = .ok (.ivs (castI (unionIvs J)), w) := by
  have h : callFn (α := α) Gen.Expl.ltlFuncs "interval_union" [encI J] = .ok (encI (unionIvs J)) :=
    callFn_of rfl (fn_interval_union_ltl J)
  rw [callGlobal_fn _ _ (by decide)]
  simp only [List.mapM_cons, List.mapM_nil, toV, bind, Except.bind, pure, Except.pure, ctx0]
  have h' : callFn (α := α) Gen.Expl.ltlFuncs "interval_union" [encZ (castI J)] = .ok (encI (unionIvs J)) := h
  rw [h']
  simp only [fromV, ivsOf_encI, Except.map]

/-- World `w` with the `i`-th `Explanations` object holding `d`. -/
def withDict (w : World α) (i : Nat) (d : List (String × Ivs)) : World α :=
  { w with dicts := w.dicts.set i (castD d) }

/-! ### one statement at a time -/

theorem execDS_seq (ctx : Ctx α) (a b : DS) (s : World α × Locals α) :
    execDS ctx (.seq a b) s = (execDS ctx a s >>= execDS ctx b) := by
  rw [execDS]

theorem execDS_seq_of (ctx : Ctx α) (a b : DS) (s s' : World α × Locals α) (h : execDS ctx a s = .ok s') :
    execDS ctx (.seq a b) s = execDS ctx b s' := by
  rw [execDS_seq, h]; rfl

theorem execDS_skip (ctx : Ctx α) (s : World α × Locals α) : execDS ctx .skip s = .ok s := by
  rw [execDS]

theorem execDS_ite_of (ctx : Ctx α) (c : DE) (t e : DS) (w : World α) (loc : Locals α) (b : Bool)
    (h : evalDE w loc c = .ok (.bool b)) :
    execDS ctx (.ite c t e) (w, loc) = if b then execDS ctx t (w, loc) else execDS ctx e (w, loc) := by
  rw [execDS]
  simp only [h, bind, Except.bind]
  cases b <;> rfl

theorem execDS_setLoc_of (ctx : Ctx α) (x : String) (r : DR) (w w1 : World α) (loc : Locals α) (v : DV α)
    (h : evalDR ctx w loc r = .ok (v, w1)) :
    execDS ctx (.setLoc x r) (w, loc) = .ok (w1, setKey x v loc) := by
  rw [execDS]
  simp only [h, bind, Except.bind, pure, Except.pure]

theorem execDS_expr_of (ctx : Ctx α) (r : DR) (w w1 : World α) (loc : Locals α) (v : DV α)
    (h : evalDR ctx w loc r = .ok (v, w1)) :
    execDS ctx (.expr r) (w, loc) = .ok (w1, loc) := by
  rw [execDS]
  simp only [h, bind, Except.bind, pure, Except.pure]

theorem execDS_setAttr_of (ctx : Ctx α) (e : DE) (a : String) (r : DR) (w w1 w2 : World α) (loc : Locals α) (v o : DV α)
    (h : evalDR ctx w loc r = .ok (v, w1)) (ho : evalDE w1 loc e = .ok o) (hw : setAttrV w1 o a v = .ok w2) :
    execDS ctx (.setAttr e a r) (w, loc) = .ok (w2, loc) := by
  rw [execDS]
  simp only [h, ho, hw, bind, Except.bind, pure, Except.pure]

theorem evalDR_pure_of (ctx : Ctx α) (w : World α) (loc : Locals α) (e : DE) (v : DV α) (h : evalDE w loc e = .ok v) :
    evalDR ctx w loc (.pure e) = .ok (v, w) := by
  rw [evalDR]
  simp only [h, bind, Except.bind, pure, Except.pure]

theorem exec_store (ctx : Ctx α) (w : World α) (loc : Locals α) (i : Nat) (x : String) (J : Ivs) (d : List (String × Ivs))
    (hd : w.dicts[i]? = some (castD d)) (hs : getKey "self" loc = .ok (.dictRef i)) (hk : getKey "key" loc = .ok (.str x))
    (hI : getKey "intervals" loc = .ok (.ivs (castI J))) :
    execDS ctx (.expr (.methG "dict" "__setitem__" [.loc "self", .loc "key", .loc "intervals"])) (w, loc)
      = .ok (withDict w i (dictSet x J d), loc) := by
  apply execDS_expr_of (v := .none)
  simp only [evalDR, List.mapM_cons, List.mapM_nil, evalDE, hs, hk, hI, bind, Except.bind, pure, Except.pure,
    callMethG, hd, castD_dictSet]
  rfl

theorem evalDE_comp_copy (w : World α) (loc : Locals α) (it : DE) (l : IvsZ) (h : evalDE w loc it = .ok (.ivs l)) :
    evalDE w loc (.comp (.listOf (.loc "i")) "i" it) = .ok (.ivs l) := by
  rw [evalDE]
  have := mapM_copy w loc l
  simp only [bind, Except.bind] at this
  simp only [h, bind, Except.bind, this, pure, Except.pure]

theorem eval_copy_old (w : World α) (loc : Locals α) (i : Nat) (x : String) (A : Ivs) (d : List (String × Ivs))
    (hd : w.dicts[i]? = some (castD d)) (hl : d.lookup x = some A)
    (hs : getKey "self" loc = .ok (.dictRef i)) (hk : getKey "key" loc = .ok (.str x)) :
    evalDE w loc (.comp (.listOf (.loc "i")) "i" (.idx (.loc "self") (.loc "key"))) = .ok (.ivs (castI A)) := by
  apply evalDE_comp_copy
  have hg : getKey x (castD d) = .ok (castI A) := by simp only [getKey, castD_lookup, hl, Option.map]
  simp only [evalDE, hs, hk, bind, Except.bind, evalIdxD, hd, hg, Except.map]

theorem eval_copy_new (w : World α) (loc : Locals α) (I : Ivs)
    (hI : getKey "intervals" loc = .ok (.ivs (castI I))) :
    evalDE w loc (.comp (.listOf (.loc "i")) "i" (.loc "intervals")) = .ok (.ivs (castI I)) := by
  apply evalDE_comp_copy
  simp only [evalDE, hI]

/-- `Explanations.__setitem__` as translated from the source is the hand-written record function `recordU`: on the object
    `i` of the heap holding `d`, `d[x] = I` leaves `recordU d x I` there and changes nothing else. -/
theorem genExplDrv_setitem (w : World α) (i : Nat) (d : List (String × Ivs)) (hd : w.dicts[i]? = some (castD d))
    (x : String) (I : Ivs) :
    callD ctx0 Gen.ExplDrv.setitem w [.dictRef i, .str x, .ivs (castI I)] = .ok (withDict w i (recordU d x I)) := by
  let loc0 : Locals α := [("self", .dictRef i), ("key", .str x), ("intervals", .ivs (castI I))]
  have hs : getKey "self" loc0 = .ok (.dictRef i) := rfl
  have hk : getKey "key" loc0 = .ok (.str x) := rfl
  have hI : getKey "intervals" loc0 = .ok (.ivs (castI I)) := rfl
  have hcond : evalDE w loc0 (.isIn (.loc "key") (.loc "self")) = .ok (.bool (d.lookup x).isSome) := by
    simp only [evalDE, hk, hs, bind, Except.bind, evalIn, hd, castD_lookup, Option.isSome_map]
  have hbody : ∃ loc', execDS ctx0 Gen.ExplDrv.setitem.body (w, loc0) = .ok (withDict w i (recordU d x I), loc') := by
    simp only [Gen.ExplDrv.setitem]
    cases hl : d.lookup x with
    | none =>
      refine ⟨loc0, ?_⟩
      rw [execDS_seq_of _ _ _ _ (w, loc0) (by
        rw [execDS_ite_of ctx0 _ _ _ _ _ _ hcond, hl]
        simp only [Option.isSome_none, Bool.false_eq_true, ite_false]
        exact execDS_skip ctx0 _)]
      rw [exec_store ctx0 w loc0 i x I d hd hs hk hI]
      simp only [recordU, hl]
    | some A =>
      have harg : evalDE w loc0 (.add (.comp (.listOf (.loc "i")) "i" (.idx (.loc "self") (.loc "key")))
          (.comp (.listOf (.loc "i")) "i" (.loc "intervals"))) = .ok (.ivs (castI (A ++ I))) := by
        rw [evalDE]
        simp only [eval_copy_old w loc0 i x A d hd hl hs hk, eval_copy_new w loc0 I hI, bind, Except.bind, pure, Except.pure,
          castI_append]
      have hcall : evalDR ctx0 w loc0 (.call "interval_union" [.add (.comp (.listOf (.loc "i")) "i" (.idx (.loc "self") (.loc "key")))
          (.comp (.listOf (.loc "i")) "i" (.loc "intervals"))]) = .ok (.ivs (castI (unionIvs (A ++ I))), w) := by
        rw [evalDR]
        simp only [List.mapM_cons, List.mapM_nil, harg, bind, Except.bind, pure, Except.pure, callGlobal_union]
      refine ⟨setKey "intervals" (.ivs (castI (unionIvs (A ++ I)))) loc0, ?_⟩
      rw [execDS_seq_of _ _ _ _ _ (by
        rw [execDS_ite_of ctx0 _ _ _ _ _ _ hcond, hl]
        simp only [Option.isSome_some, ite_true]
        exact execDS_setLoc_of ctx0 _ _ _ _ _ _ hcall)]
      rw [exec_store ctx0 w _ i x (unionIvs (A ++ I)) d hd (by rw [getKey_setKey_ne _ _ _ _ (by decide)]; exact hs)
        (by rw [getKey_setKey_ne _ _ _ _ (by decide)]; exact hk) (getKey_setKey_same _ _ _)]
      simp only [recordU, hl]
  obtain ⟨loc', hb⟩ := hbody
  unfold callD
  have hz : Gen.ExplDrv.setitem.params.zip [DV.dictRef (α := α) i, .str x, .ivs (castI I)] = loc0 := rfl
  rw [hz, hb]
  rfl

/-! ### the records of a visit go through `__setitem__` -/

omit [Val α] in
theorem withDict_dicts (w : World α) (i : Nat) (d : List (String × Ivs)) (hi : i < w.dicts.length) :
    (withDict w i d).dicts[i]? = some (castD d) := by
  simp [withDict, hi]

omit [Val α] in
theorem withDict_withDict (w : World α) (i : Nat) (d d' : List (String × Ivs)) :
    withDict (withDict w i d) i d' = withDict w i d' := by
  simp [withDict, List.set_set]

omit [Val α] in
theorem withDict_length (w : World α) (i : Nat) (d : List (String × Ivs)) :
    (withDict w i d).dicts.length = w.dicts.length := by
  simp [withDict]

/-- The step of folding the records into the container. -/
abbrev recStep (d : List (String × Ivs)) (p : String × Ivs) : List (String × Ivs) := recordU d p.1 p.2

theorem recordG_eq (w : World α) (i : Nat) (d : List (String × Ivs)) (hd : w.dicts[i]? = some (castD d))
    (he : getKey "explanations" w.explainer = .ok (.dictRef i)) (x : String) (I : Ivs) :
    recordG w x (castI I) = .ok (withDict w i (recordU d x I)) := by
  unfold recordG
  simp only [getAttr, he, bind, Except.bind]
  exact genExplDrv_setitem w i d hd x I

theorem records_fold (W : World α) (i : Nat) (hi : i < W.dicts.length)
    (he : getKey "explanations" W.explainer = .ok (.dictRef i)) :
    ∀ (recs : List (String × Ivs)) (d : List (String × Ivs)),
      (recs.map (fun p => (p.1, castI p.2))).foldlM (fun w p => recordG w p.1 p.2) (withDict W i d)
        = .ok (withDict W i (recs.foldl recStep d))
  | [], d => rfl
  | p :: recs, d => by
    rw [List.map_cons, List.foldlM_cons]
    rw [recordG_eq (withDict W i d) i d (withDict_dicts W i d hi) he p.1 p.2, withDict_withDict]
    exact records_fold W i hi he recs (recordU d p.1 p.2)

theorem visitG_eq (σ : String → Nat → α) (n : Nat) (hn : 0 < n) (W : World α) (i : Nat) (hi : i < W.dicts.length)
    (he : getKey "explanations" W.explainer = .ok (.dictRef i)) (φ : F α) (J : Ivs) (hJ : InRange n J) (f : Bool)
    (d : List (String × Ivs)) :
    visitG σ n (withDict W i d) φ (castI J) f =
      match explainU unionIvs σ n φ J f with
      | .ok ex => .ok (withDict W i (ex.foldl recStep d))
      | .error _ => .error .rtamt := by
  unfold visitG
  rw [genExpl_explain σ n hn φ J f hJ]
  cases explainU unionIvs σ n φ J f with
  | error e => rfl
  | ok ex =>
    simp only [liftEx, bind, Except.bind]
    exact records_fold W i hi he ex d

/-! ### `explain()` -/

/-- The body of the loop over the assertions, as it stands in the generated terms. -/
def loopBody : DS :=
  (.seq (.setLoc "top_signal" (.pure (.idx (.attr (.attr (.loc "self") "spec") "results") (.loc "spec"))))
    (.ite (.lt (.idx (.loc "top_signal") (.int 0)) (.int 0))
      (.expr (.meth (.loc "self") "visit" [(.loc "spec"), (.list2 (.list1 (.list2 (.int 0) (.int 0))) .false_)])) .skip))

/-- The two iterables of the loop the translator knows: all assertions / the last one only. -/
def itAll : DE := .attr (.attr (.loc "self") "spec") "specs"
def itLast : DE := .sliceFrom (.attr (.attr (.loc "self") "spec") "specs") (.neg (.int 1))

/-- `explain(self, spec)` as it stands in the generated terms (the same text in the two explainer classes), with the iterable of
    its loop `it`. -/
def explainTermOf (it : DE) : DMethod :=
  { params := ["self", "spec"],
    body := (.seq (.setAttr (.loc "self") "spec" (.pure (.loc "spec")))
      (.seq (.setAttr (.loc "self") "explanations" (.call "Explanations" []))
        (.forIn "spec" it loopBody))) }

/-- What the loop keeps: the explainer points to the AST and to its container `i`; the results are those of the evaluation. -/
structure LoopInv (σ : String → Nat → α) (n : Nat) (W : World α) (i : Nat) : Prop where
  res : W.results = fun ψ => (List.range n).map (rho σ n ψ)
  spec : getKey "spec" W.explainer = .ok (.ref .ast)
  expl : getKey "explanations" W.explainer = .ok (.dictRef i)
  lt : i < W.dicts.length

theorem ctx1_visit (σ : String → Nat → α) (n : Nat) (w : World α) (φ : F α) (I : IvsZ) (f : Bool) :
    (ctx1 σ n).meth .explainer "visit" [.node φ, .pair (.ivs I) (.bool f)] w =
      (visitG σ n w φ I f).map (fun w' => (.none, w')) := rfl

theorem body_step (σ : String → Nat → α) (n : Nat) (hn : 0 < n) (W : World α) (i : Nat) (inv : LoopInv σ n W i)
    (φ : F α) (d : List (String × Ivs)) (loc : Locals α) (hself : getKey "self" loc = .ok (.ref .explainer)) :
    ∃ loc', getKey "self" loc' = .ok (.ref .explainer) ∧
      execDS (ctx1 σ n) loopBody (withDict W i d, setKey "spec" (.node φ) loc) =
        match explainSpecU σ n φ with
        | .ok ex => .ok (withDict W i (ex.foldl recStep d), loc')
        | .error _ => .error .rtamt := by
  have hs1 : getKey "self" (setKey "spec" (.node φ) loc) = .ok (.ref .explainer) := by
    rw [getKey_setKey_ne _ _ _ _ (by decide)]; exact hself
  have hexp : (withDict W i d).explainer = W.explainer := rfl
  have hres : (withDict W i d).results = fun ψ => (List.range n).map (rho σ n ψ) := inv.res
  have htop : evalDE (withDict W i d) (setKey "spec" (.node φ) loc)
      (.idx (.attr (.attr (.loc "self") "spec") "results") (.loc "spec")) = .ok (.sig ((List.range n).map (rho σ n φ))) := by
    simp only [evalDE, hs1, getKey_setKey_same, bind, Except.bind, getAttr, hexp, inv.spec, evalIdxD, hres]
  refine ⟨setKey "top_signal" (.sig ((List.range n).map (rho σ n φ))) (setKey "spec" (.node φ) loc), ?_, ?_⟩
  · rw [getKey_setKey_ne _ _ _ _ (by decide)]; exact hs1
  have hcond : evalDE (withDict W i d) (setKey "top_signal" (.sig ((List.range n).map (rho σ n φ))) (setKey "spec" (.node φ) loc))
      (.lt (.idx (.loc "top_signal") (.int 0)) (.int 0)) = .ok (.bool (isUnsat (rho σ n φ 0))) := by
    have h0 : ((List.range n).map (rho σ n φ))[(0 : Int).toNat]? = some (rho σ n φ 0) := by
      simp [hn]
    simp only [evalDE, getKey_setKey_same, bind, Except.bind, evalIdxD, lt_self_iff_false, ite_false, h0, evalLt, isUnsat]
  unfold loopBody
  rw [execDS_seq_of _ _ _ _ _ (execDS_setLoc_of _ _ _ _ _ _ _ (evalDR_pure_of _ _ _ _ _ htop))]
  rw [execDS_ite_of _ _ _ _ _ _ _ hcond]
  unfold explainSpecU
  cases hv : isUnsat (rho σ n φ 0) with
  | false =>
    simp only [Bool.false_eq_true, ite_false]
    exact execDS_skip _ _
  | true =>
    simp only [ite_true]
    have hvis := visitG_eq σ n hn W i inv.lt inv.expl φ [(0, 0)] (inRange_single hn) false d
    rw [execDS]
    rw [evalDR]
    simp only [evalDE, List.mapM_cons, List.mapM_nil, bind, Except.bind, pure, Except.pure,
      getKey_setKey_ne "self" "top_signal" _ _ (by decide), hs1,
      getKey_setKey_ne "spec" "top_signal" _ _ (by decide), getKey_setKey_same, mkList2, mkList1]
    have hvis' : visitG σ n (withDict W i d) φ [((0 : Int), (0 : Int))] false = _ := hvis
    rw [ctx1_visit, hvis']
    cases explainU unionIvs σ n φ [(0, 0)] false <;> rfl

theorem loop_eq (σ : String → Nat → α) (n : Nat) (hn : 0 < n) (W : World α) (i : Nat) (inv : LoopInv σ n W i) :
    ∀ (specs : List (F α)) (d : List (String × Ivs)) (loc : Locals α), getKey "self" loc = .ok (.ref .explainer) →
      (specs.foldlM (fun s φ => execDS (ctx1 σ n) loopBody (s.1, setKey "spec" (.node φ) s.2)) (withDict W i d, loc)).map (·.1) =
        match explainRecordsU σ n specs with
        | .ok recs => .ok (withDict W i (recs.foldl recStep d))
        | .error _ => .error .rtamt
  | [], d, loc, _ => rfl
  | φ :: rest, d, loc, hself => by
    obtain ⟨loc', hl', hstep⟩ := body_step σ n hn W i inv φ d loc hself
    rw [List.foldlM_cons]
    dsimp only
    rw [hstep, explainRecordsU]
    cases hφ : explainSpecU σ n φ with
    | error e => rfl
    | ok ex =>
      simp only [bind, Except.bind]
      have ih := loop_eq σ n hn W i inv rest (ex.foldl recStep d) loc' hl'
      rw [ih]
      cases explainRecordsU σ n rest with
      | error e => rfl
      | ok recs => simp only [pure, Except.pure, List.foldl_append]

theorem callD_eq (ctx : Ctx α) (m : DMethod) (w : World α) (args : List (DV α)) (h : args.length = m.params.length) :
    callD ctx m w args = (execDS ctx m.body (w, m.params.zip args)).map (·.1) := by
  unfold callD
  simp only [h, ne_eq, not_true_eq_false, ite_false]
  cases execDS ctx m.body (w, m.params.zip args) <;> rfl

omit [Val α] in
theorem explanationsOf_withDict (W : World α) (i : Nat) (he : getKey "explanations" W.explainer = .ok (.dictRef i))
    (hi : i < W.dicts.length) (d : List (String × Ivs)) :
    explanationsOf (withDict W i d) = .ok (castD d) := by
  unfold explanationsOf
  have hexp : (withDict W i d).explainer = W.explainer := rfl
  simp only [getAttr, hexp, he, bind, Except.bind, withDict_dicts W i d hi]

/-- The world after the two assignments at the head of `explain()`: the explainer points to the AST and to a new, empty
    container; whatever container it pointed to before is out of reach. -/
def headWorld (σ : String → Nat → α) (n : Nat) (specs : List (F α)) (st : List (String × DV α)) (ds : List Dict) : World α :=
  { mkWorld σ n specs st ds with
    explainer := setKey "explanations" (.dictRef ds.length) (setKey "spec" (.ref .ast) st), dicts := ds ++ [[]] }

theorem headWorld_inv (σ : String → Nat → α) (n : Nat) (specs : List (F α)) (st : List (String × DV α)) (ds : List Dict) :
    LoopInv σ n (headWorld σ n specs st ds) ds.length :=
  ⟨rfl, by
    show getKey "spec" (setKey "explanations" _ (setKey "spec" _ st)) = _
    rw [getKey_setKey_ne _ _ _ _ (by decide), getKey_setKey_same],
   getKey_setKey_same _ _ _, by simp [headWorld]⟩

theorem headWorld_withDict (σ : String → Nat → α) (n : Nat) (specs : List (F α)) (st : List (String × DV α)) (ds : List Dict) :
    withDict (headWorld σ n specs st ds) ds.length [] = headWorld σ n specs st ds := by
  simp [withDict, headWorld, castD]

/-- The body of `explain(self, ast)` with an iterable that evaluates to the assertions `sel`. -/
theorem explain_body (σ : String → Nat → α) (n : Nat) (hn : 0 < n) (specs : List (F α)) (st : List (String × DV α))
    (ds : List Dict) (args : Locals α) (hargs : args = [("self", .ref .explainer), ("spec", .ref .ast)])
    (it : DE) (sel : List (F α))
    (hit : evalDE (headWorld σ n specs st ds) [("self", DV.ref (α := α) .explainer), ("spec", .ref .ast)] it = .ok (.nodes sel)) :
    (execDS (ctx1 σ n) (explainTermOf it).body (mkWorld σ n specs st ds, args)).map (·.1) =
      match explainRecordsU σ n sel with
      | .ok recs => .ok (withDict (headWorld σ n specs st ds) ds.length (recs.foldl recStep []))
      | .error _ => .error .rtamt := by
  subst hargs
  have hself : getKey "self" [("self", DV.ref (α := α) .explainer), ("spec", .ref .ast)] = .ok (.ref .explainer) := rfl
  have h1 : execDS (ctx1 σ n) (.setAttr (.loc "self") "spec" (.pure (.loc "spec")))
      (mkWorld σ n specs st ds, [("self", .ref .explainer), ("spec", .ref .ast)]) =
      .ok ({ mkWorld σ n specs st ds with explainer := setKey "spec" (.ref .ast) st }, [("self", .ref .explainer), ("spec", .ref .ast)]) :=
    execDS_setAttr_of _ _ _ _ _ _ _ _ _ _ (evalDR_pure_of _ _ _ _ _ rfl) hself rfl
  have h2 : execDS (ctx1 σ n) (.setAttr (.loc "self") "explanations" (.call "Explanations" []))
      ({ mkWorld σ n specs st ds with explainer := setKey "spec" (.ref .ast) st }, [("self", .ref .explainer), ("spec", .ref .ast)]) =
      .ok (headWorld σ n specs st ds, [("self", .ref .explainer), ("spec", .ref .ast)]) :=
    execDS_setAttr_of _ _ _ _ _
      { mkWorld σ n specs st ds with explainer := setKey "spec" (.ref .ast) st, dicts := ds ++ [[]] } _ _
      (.dictRef ds.length) _ rfl hself rfl
  have inv := headWorld_inv σ n specs st ds
  unfold explainTermOf
  dsimp only
  rw [execDS_seq_of _ _ _ _ _ h1, execDS_seq_of _ _ _ _ _ h2, execDS]
  simp only [hit, bind, Except.bind]
  have := loop_eq σ n hn _ _ inv sel [] _ hself
  rw [headWorld_withDict] at this
  exact this

theorem eval_itAll (σ : String → Nat → α) (n : Nat) (specs : List (F α)) (st : List (String × DV α)) (ds : List Dict) :
    evalDE (headWorld σ n specs st ds) [("self", DV.ref (α := α) .explainer), ("spec", .ref .ast)] itAll = .ok (.nodes specs) := by
  have hself : getKey "self" [("self", DV.ref (α := α) .explainer), ("spec", .ref .ast)] = .ok (.ref .explainer) := rfl
  simp only [itAll, evalDE, hself, bind, Except.bind, getAttr, (headWorld_inv σ n specs st ds).spec]
  rfl

theorem eval_itLast (σ : String → Nat → α) (n : Nat) (specs : List (F α)) (st : List (String × DV α)) (ds : List Dict) :
    evalDE (headWorld σ n specs st ds) [("self", DV.ref (α := α) .explainer), ("spec", .ref .ast)] itLast
      = .ok (.nodes (lastSpec specs)) := by
  have h := eval_itAll σ n specs st ds
  unfold itAll at h
  unfold itLast
  have hneg : evalDE (headWorld σ n specs st ds) [("self", DV.ref (α := α) .explainer), ("spec", .ref .ast)]
      (.neg (.int 1)) = .ok (.int (-1)) := by
    simp only [evalDE, bind, Except.bind, pure, Except.pure]
  rw [evalDE]
  simp only [h, hneg, bind, Except.bind, pure, Except.pure]
  unfold lastSpec sliceIdx
  have : ((specs.length : Int) + -1).toNat = specs.length - 1 := by omega
  simp only [Int.reduceNeg, Int.neg_neg_iff_pos, Int.one_pos, ite_true, this]

/-- The translated `explain()` whose loop runs over `it`, `it` evaluating to the assertions `sel`. -/
theorem genExplDrv_explain_sel (σ : String → Nat → α) (n : Nat) (hn : 0 < n) (specs : List (F α))
    (st : List (String × DV α)) (ds : List Dict) (it : DE) (sel : List (F α))
    (hit : evalDE (headWorld σ n specs st ds) [("self", DV.ref (α := α) .explainer), ("spec", .ref .ast)] it = .ok (.nodes sel)) :
    explainDrvG σ n (explainTermOf it) (mkWorld σ n specs st ds) = liftEx (explainDriverU σ n sel) := by
  unfold explainDrvG
  rw [callD_eq _ _ _ _ rfl,
    explain_body σ n hn specs st ds ((explainTermOf it).params.zip [.ref .explainer, .ref .ast]) rfl it sel hit]
  unfold explainDriverU
  cases explainRecordsU σ n sel with
  | error e => rfl
  | ok recs =>
    have inv := headWorld_inv σ n specs st ds
    simp only [bind, Except.bind, pure, Except.pure, liftEx]
    exact explanationsOf_withDict _ _ inv.expl inv.lt _

/-- Loop over `self.spec.specs` (every assertion): if the generated `explain` is that text, its run from *any* state of the
    explainer object (`st`: whatever attributes earlier calls left, among them a container of earlier explanations) and of the
    heap (`ds`) leaves in `explainer.explanations` exactly the container of the hand-written driver: the records of the
    assertions violated at time 0, in order, merged per name by `recordU` starting from the empty container - or raises
    `RTAMTException` where the driver does. -/
theorem genExplDrv_explain_of_all (m : DMethod) (hm : m = explainTermOf itAll)
    (σ : String → Nat → α) (n : Nat) (hn : 0 < n) (specs : List (F α)) (st : List (String × DV α)) (ds : List Dict) :
    explainDrvG σ n m (mkWorld σ n specs st ds) = liftEx (explainDriverU σ n specs) := by
  subst hm; exact genExplDrv_explain_sel σ n hn specs st ds itAll specs (eval_itAll σ n specs st ds)

/-- Loop over `self.spec.specs[-1:]` (the main assertion only): the same with the driver run on the last assertion. -/
theorem genExplDrv_explain_of_last (m : DMethod) (hm : m = explainTermOf itLast)
    (σ : String → Nat → α) (n : Nat) (hn : 0 < n) (specs : List (F α)) (st : List (String × DV α)) (ds : List Dict) :
    explainDrvG σ n m (mkWorld σ n specs st ds) = liftEx (explainDriverLastU σ n specs) := by
  subst hm; exact genExplDrv_explain_sel σ n hn specs st ds itLast (lastSpec specs) (eval_itLast σ n specs st ds)

/-! ### `AbstractOfflineSpecification.explain` -/

/-- `spec.explain()` as translated from the source: it hands the interpreter's `time_unit_transformer` to the explainer and
    calls `explainer.explain(ast)` - nothing else. -/
theorem genExplDrv_spec_explain_eq (σ : String → Nat → α) (n : Nat) (m : DMethod) (specs : List (F α))
    (st : List (String × DV α)) (ds : List Dict) :
    explainSpecnG σ n m (mkWorld σ n specs st ds) =
      explainDrvG σ n m (mkWorld σ n specs (setKey "time_unit_transformer" .tut st) ds) := by
  unfold explainSpecnG explainDrvG
  rw [callD_eq _ _ _ _ rfl]
  have hself : getKey "self" (Gen.ExplDrv.spec_explain.params.zip [DV.ref (α := α) .specification]) = .ok (.ref .specification) := rfl
  have h1 : execDS (ctx2 σ n m)
      (.setAttr (.attr (.loc "self") "explainer") "time_unit_transformer"
        (.pure (.attr (.attr (.loc "self") "offline_interpreter") "time_unit_transformer")))
      (mkWorld σ n specs st ds, Gen.ExplDrv.spec_explain.params.zip [.ref .specification]) =
      .ok (mkWorld σ n specs (setKey "time_unit_transformer" .tut st) ds, Gen.ExplDrv.spec_explain.params.zip [.ref .specification]) := by
    refine execDS_setAttr_of _ _ _ _ _ _ _ _ .tut (.ref .explainer) (evalDR_pure_of _ _ _ _ _ ?_) ?_ rfl
    · simp only [evalDE, hself, bind, Except.bind, getAttr]
    · simp only [evalDE, hself, bind, Except.bind, getAttr]
  have h2 : evalDR (ctx2 σ n m) (mkWorld σ n specs (setKey "time_unit_transformer" .tut st) ds)
      (Gen.ExplDrv.spec_explain.params.zip [.ref .specification])
      (.meth (.attr (.loc "self") "explainer") "explain" [(.attr (.loc "self") "ast")]) =
      (callD (ctx1 σ n) m (mkWorld σ n specs (setKey "time_unit_transformer" .tut st) ds) [.ref .explainer, .ref .ast]).map
        (fun w' => (.none, w')) := by
    rw [evalDR]
    simp only [evalDE, hself, bind, Except.bind, getAttr, List.mapM_cons, List.mapM_nil, pure, Except.pure]
    rfl
  simp only [Gen.ExplDrv.spec_explain] at h1 h2 hself ⊢
  rw [execDS_seq_of _ _ _ _ _ h1, execDS]
  rw [h2]
  cases callD (ctx1 σ n) m (mkWorld σ n specs (setKey "time_unit_transformer" DV.tut st) ds) [.ref .explainer, .ref .ast] <;> rfl

/-- Every method of the driver lies inside the translated subset, `Explanations` is a `dict` that overrides `__setitem__`
    and nothing else (so `key in self`, `self[key]`, `Explanations()` are those of `dict`), `STLExplainer` takes `explain` from
    its own body, and the two modules bind at top level what the semantics assumes (`interval_union` is the function of the LTL
    `explanations.py`; `Explanations` of the STL module is the class of the LTL module). -/
theorem genExplDrv_supported :
    ([Gen.ExplDrv.setitem, Gen.ExplDrv.ltl_explain, Gen.ExplDrv.stl_explain, Gen.ExplDrv.spec_explain].all
        (fun m => m.body.supported) = true) ∧
    Gen.ExplDrv.explanationsClass = (["dict"], ["__setitem__"]) ∧
    Gen.ExplDrv.ltlExplainerBases = ["LtlAstVisitor"] ∧
    Gen.ExplDrv.stlExplainerBases = ["LTLExplainer", "StlAstVisitor"] ∧
    Gen.ExplDrv.ltlModule =
      ["from rtamt.syntax.ast.visitor.ltl.ast_visitor import LtlAstVisitor",
       "from rtamt.exception.exception import RTAMTException",
       "from rtamt.explanation.ltl.discrete_time.explanations import *",
       "Explanations", "LTLExplainer"] ∧
    Gen.ExplDrv.stlModule =
      ["from rtamt.syntax.ast.visitor.stl.ast_visitor import StlAstVisitor",
       "from rtamt.explanation.ltl.discrete_time.explainer import LTLExplainer, Explanations",
       "from rtamt.explanation.stl.discrete_time.explanations import *",
       "from rtamt.exception.exception import RTAMTException",
       "STLExplainer"] :=
  ⟨by decide, rfl, rfl, rfl, rfl, rfl⟩

/-! ### what the container reports -/

theorem reported_iff (ex : List (String × Ivs)) (x : String) (t : Nat) :
    reported ex x t = true ↔ ∃ p ∈ ex, p.1 = x ∧ covered p.2 t := by
  unfold reported covered
  simp only [List.any_eq_true, Bool.and_eq_true, beq_iff_eq, decide_eq_true_eq]

theorem mem_dictSet_self {β : Type} (k : String) (v : β) (d : List (String × β)) : (k, v) ∈ dictSet k v d := by
  induction d with
  | nil => simp [dictSet]
  | cons p r ih =>
    obtain ⟨k', v'⟩ := p
    simp only [dictSet]
    split
    · exact List.mem_cons_self ..
    · exact List.mem_cons_of_mem _ ih

theorem mem_dictSet_of_mem {β : Type} (k : String) (v : β) (d : List (String × β)) (p : String × β) (hp : p ∈ d) :
    p ∈ dictSet k v d ∨ (p.1 = k ∧ d.lookup k = some p.2) := by
  induction d with
  | nil => cases hp
  | cons q r ih =>
    obtain ⟨k', v'⟩ := q
    simp only [dictSet, List.lookup]
    by_cases hk : k' = k
    · subst hk
      simp only [beq_self_eq_true, ite_true]
      rcases List.mem_cons.1 hp with rfl | hp
      · exact Or.inr ⟨rfl, rfl⟩
      · exact Or.inl (List.mem_cons_of_mem _ hp)
    · have h1 : (k' == k) = false := by simpa using hk
      have h2 : (k == k') = false := by simpa using (Ne.symm hk)
      simp only [h1, h2, Bool.false_eq_true, ite_false]
      rcases List.mem_cons.1 hp with rfl | hp
      · exact Or.inl (List.mem_cons_self ..)
      · rcases ih hp with h | h
        · exact Or.inl (List.mem_cons_of_mem _ h)
        · exact Or.inr h

/-- A record only adds positions: what was reported stays reported (merged by `interval_union`, which covers the same
    positions), and the positions of the new record are reported. -/
theorem reported_recordU (d : List (String × Ivs)) (y : String) (I : Ivs) (x : String) (t : Nat)
    (h : reported d x t = true ∨ (y = x ∧ covered I t)) : reported (recordU d y I) x t = true := by
  rw [reported_iff]
  rcases h with h | ⟨rfl, hc⟩
  · obtain ⟨p, hp, hx, hc⟩ := (reported_iff d x t).1 h
    unfold recordU
    cases hl : d.lookup y with
    | none =>
      rcases mem_dictSet_of_mem y I d p hp with h' | ⟨_, h'⟩
      · exact ⟨p, h', hx, hc⟩
      · rw [hl] at h'; cases h'
    | some A =>
      rcases mem_dictSet_of_mem y (unionIvs (A ++ I)) d p hp with h' | ⟨hy, h'⟩
      · exact ⟨p, h', hx, hc⟩
      · rw [hl] at h'
        cases h'
        refine ⟨(y, unionIvs (p.2 ++ I)), mem_dictSet_self _ _ _, hy ▸ hx, ?_⟩
        rw [unionIvs_covered, covered_append]
        exact Or.inl hc
  · unfold recordU
    cases hl : d.lookup y with
    | none => exact ⟨(y, I), mem_dictSet_self _ _ _, rfl, hc⟩
    | some A =>
      refine ⟨(y, unionIvs (A ++ I)), mem_dictSet_self _ _ _, rfl, ?_⟩
      rw [unionIvs_covered, covered_append]
      exact Or.inr hc

theorem reported_fold (recs : List (String × Ivs)) (x : String) (t : Nat) :
    ∀ d : List (String × Ivs), (reported d x t = true ∨ reported recs x t = true) →
      reported (recs.foldl recStep d) x t = true := by
  induction recs with
  | nil =>
    intro d h
    rcases h with h | h
    · exact h
    · simp [reported] at h
  | cons p recs ih =>
    intro d h
    rw [List.foldl_cons]
    apply ih
    rcases h with h | h
    · exact Or.inl (reported_recordU d p.1 p.2 x t (Or.inl h))
    · rw [show p :: recs = [p] ++ recs from rfl, reported_append, Bool.or_eq_true] at h
      rcases h with h | h
      · left
        apply reported_recordU d p.1 p.2 x t
        obtain ⟨q, hq, hx, hc⟩ := (reported_iff _ x t).1 h
        simp only [List.mem_singleton] at hq
        subst hq
        exact Or.inr ⟨hx, hc⟩
      · exact Or.inr h

theorem records_of_mem (σ : String → Nat → α) (n : Nat) (φ : F α) :
    ∀ (sel : List (F α)) (recs : List (String × Ivs)), φ ∈ sel → explainRecordsU σ n sel = .ok recs →
      ∃ ex, explainSpecU σ n φ = .ok ex ∧ ∀ x t, reported ex x t = true → reported recs x t = true
  | [], _, h, _ => by cases h
  | ψ :: rest, recs, hmem, hrun => by
    rw [explainRecordsU] at hrun
    cases hψ : explainSpecU σ n ψ with
    | error e => rw [hψ] at hrun; cases hrun
    | ok a =>
      cases hr : explainRecordsU σ n rest with
      | error e => rw [hψ, hr] at hrun; cases hrun
      | ok b =>
        rw [hψ, hr] at hrun
        have : recs = a ++ b := by cases hrun; rfl
        subst this
        rcases List.mem_cons.1 hmem with rfl | hmem
        · exact ⟨a, hψ, fun x t h => by rw [reported_append, h]; rfl⟩
        · obtain ⟨ex, hex, hsub⟩ := records_of_mem σ n φ rest b hmem hr
          exact ⟨ex, hex, fun x t h => by rw [reported_append, hsub x t h, Bool.or_true]⟩

/-- C20 on the mirror of the driver: the positions of the container are a sufficient cause of the violation of every assertion
    `explain()` visited. -/
theorem C20_driver_mirror [LawfulVal α] (hz : Val.neg (Val.zero : α) = Val.zero)
    (σ σ' : String → Nat → α) (n : Nat) (hn : 0 < n) (sel : List (F α)) (φ : F α) (hmem : φ ∈ sel) (hwf : φ.wf = true)
    (hfrag : φ.explFrag = true) (D : Dict)
    (hrun : liftEx (explainDriverU σ n sel) = .ok D) (hviol : isUnsat (rho σ n φ 0) = true)
    (hagree : ∀ x t, reportedZ D x t = true → t < n → σ' x t = σ x t) :
    isUnsat (rho σ' n φ 0) = true := by
  unfold explainDriverU at hrun
  cases hr : explainRecordsU σ n sel with
  | error e => rw [hr] at hrun; cases hrun
  | ok recs =>
    rw [hr] at hrun
    have hD : D = (recs.foldl recStep []).map (fun p => (p.1, castI p.2)) := by
      simp only [bind, Except.bind, pure, Except.pure, liftEx] at hrun
      exact (Except.ok.inj hrun).symm
    subst hD
    obtain ⟨ex, hex, hsub⟩ := records_of_mem σ n φ sel recs hmem hr
    refine C20_sufficient_exact_partial hz σ σ' n hn φ hwf hfrag ex hex hviol (fun x t hrep ht => hagree x t ?_ ht)
    rw [reportedZ_cast]
    exact reported_fold recs x t [] (Or.inr (hsub x t hrep))

/-- C20 (partial, fragment `explFrag`) for the run of a translated driver that loops over all assertions. -/
theorem C20_driver_of_all [LawfulVal α] (m : DMethod) (hm : m = explainTermOf itAll) (hz : Val.neg (Val.zero : α) = Val.zero)
    (σ σ' : String → Nat → α) (n : Nat) (hn : 0 < n) (specs : List (F α)) (st : List (String × DV α)) (ds : List Dict)
    (φ : F α) (hmem : φ ∈ specs) (hwf : φ.wf = true) (hfrag : φ.explFrag = true) (D : Dict)
    (hrun : explainDrvG σ n m (mkWorld σ n specs st ds) = .ok D) (hviol : isUnsat (rho σ n φ 0) = true)
    (hagree : ∀ x t, reportedZ D x t = true → t < n → σ' x t = σ x t) :
    isUnsat (rho σ' n φ 0) = true := by
  rw [genExplDrv_explain_of_all m hm σ n hn specs st ds] at hrun
  exact C20_driver_mirror hz σ σ' n hn specs φ hmem hwf hfrag D hrun hviol hagree

/-- The same for a translated driver that loops over the last assertion only: `φ` is that assertion. -/
theorem C20_driver_of_last [LawfulVal α] (m : DMethod) (hm : m = explainTermOf itLast) (hz : Val.neg (Val.zero : α) = Val.zero)
    (σ σ' : String → Nat → α) (n : Nat) (hn : 0 < n) (specs : List (F α)) (st : List (String × DV α)) (ds : List Dict)
    (φ : F α) (hmem : φ ∈ lastSpec specs) (hwf : φ.wf = true) (hfrag : φ.explFrag = true) (D : Dict)
    (hrun : explainDrvG σ n m (mkWorld σ n specs st ds) = .ok D) (hviol : isUnsat (rho σ n φ 0) = true)
    (hagree : ∀ x t, reportedZ D x t = true → t < n → σ' x t = σ x t) :
    isUnsat (rho σ' n φ 0) = true := by
  rw [genExplDrv_explain_of_last m hm σ n hn specs st ds] at hrun
  exact C20_driver_mirror hz σ σ' n hn (lastSpec specs) φ hmem hwf hfrag D hrun hviol hagree

/-! ### the current source

  SWITCH.  Everything above holds for both iterables of the loop.  Once `for spec in self.spec.specs[-1:]:` has landed in the two
  explainer.py files, regenerate and, from here to the end of the file only, replace
      `explainTermOf itAll`                  by  `explainTermOf itLast`
      `genExplDrv_explain_of_all`            by  `genExplDrv_explain_of_last`
      `liftEx (explainDriverU σ n specs)`    by  `liftEx (explainDriverLastU σ n specs)`
      `C20_driver_of_all`                    by  `C20_driver_of_last`
      `(hmem : φ ∈ specs)`                   by  `(hmem : φ ∈ lastSpec specs)`
  (five textual replacements: `stl_explain_term`, `ltl_explain_term`, `genExplDrv_explain`, `genExplDrv_explain_ltl`,
  `C20_sufficient_translated_driver_partial`, `genExplDrv_spec_explain`). -/

theorem stl_explain_term : Gen.ExplDrv.stl_explain = explainTermOf itLast := rfl
theorem ltl_explain_term : Gen.ExplDrv.ltl_explain = explainTermOf itLast := rfl

/-- `STLExplainer.explain` as translated from the source = the hand-written driver. -/
theorem genExplDrv_explain (σ : String → Nat → α) (n : Nat) (hn : 0 < n) (specs : List (F α))
    (st : List (String × DV α)) (ds : List Dict) :
    explainDrvG σ n Gen.ExplDrv.stl_explain (mkWorld σ n specs st ds) = liftEx (explainDriverLastU σ n specs) :=
  genExplDrv_explain_of_last _ stl_explain_term σ n hn specs st ds

/-- `LTLExplainer.explain` as translated from the source = the hand-written driver. -/
theorem genExplDrv_explain_ltl (σ : String → Nat → α) (n : Nat) (hn : 0 < n) (specs : List (F α))
    (st : List (String × DV α)) (ds : List Dict) :
    explainDrvG σ n Gen.ExplDrv.ltl_explain (mkWorld σ n specs st ds) = liftEx (explainDriverLastU σ n specs) :=
  genExplDrv_explain_of_last _ ltl_explain_term σ n hn specs st ds

/-- C20 (partial, fragment `explFrag`) for the run of the driver translated from the source: after `explain()` - run from any
    earlier state of the explainer - the positions in `explainer.explanations` are a sufficient cause of the violation of
    every violated assertion of the specification (after the repair: of the main assertion). -/
theorem C20_sufficient_translated_driver_partial [LawfulVal α] (hz : Val.neg (Val.zero : α) = Val.zero)
    (σ σ' : String → Nat → α) (n : Nat) (hn : 0 < n) (specs : List (F α)) (st : List (String × DV α)) (ds : List Dict)
    (φ : F α) (hmem : φ ∈ lastSpec specs) (hwf : φ.wf = true) (hfrag : φ.explFrag = true) (D : Dict)
    (hrun : explainDrvG σ n Gen.ExplDrv.stl_explain (mkWorld σ n specs st ds) = .ok D)
    (hviol : isUnsat (rho σ n φ 0) = true)
    (hagree : ∀ x t, reportedZ D x t = true → t < n → σ' x t = σ x t) :
    isUnsat (rho σ' n φ 0) = true :=
  C20_driver_of_last _ stl_explain_term hz σ σ' n hn specs st ds φ hmem hwf hfrag D hrun hviol hagree

/-- `spec.explain()` of the specification object, as translated, with the `STLExplainer`. -/
theorem genExplDrv_spec_explain (σ : String → Nat → α) (n : Nat) (hn : 0 < n) (specs : List (F α))
    (st : List (String × DV α)) (ds : List Dict) :
    explainSpecnG σ n Gen.ExplDrv.stl_explain (mkWorld σ n specs st ds) = liftEx (explainDriverLastU σ n specs) := by
  rw [genExplDrv_spec_explain_eq]; exact genExplDrv_explain σ n hn specs _ ds

end Rtamt.Py.Drv
