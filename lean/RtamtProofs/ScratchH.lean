import Rtamt.Py.RunDn
open Rtamt Rtamt.Py Rtamt.Py.Dn Rtamt.Dense.Alg

def l1 : ASig Float := [(.fin 0, 1.0), (.fin 1, 2.0)]
def r1 : ASig Float := [(.fin 0, 0.0), (.fin 1, 3.0)]
def sh : Except PyErr (ASig Float) → String
  | .ok s => "ok " ++ toString (repr s)
  | .error .other => "other" | .error .type => "type" | .error .rtamt => "rtamt" | .error .index => "index" | .error .key => "key" | .error .value => "value" | .error _ => "err"
#eval sh (callD 100 Gen.Dense.visitPredicate_outRob [l1, r1] none [("$operator", .cmp .le), ("$out_vars", .list [])] )
#eval sh (predicateIA .le (fun b => if b then Val.pinf else Val.ninf) l1 r1 )
#eval sh (callD 100 Gen.Dense.visitPredicate_outRob [l1, r1] none [("$operator", .cmp .le), ("$out_vars", .list [.int 1])] )
#eval sh (predicate .le l1 r1)
#eval sh (callD 100 Gen.Dense.visitPredicate_outRob [l1, []] none [("$operator", .cmp .le), ("$out_vars", .list [])] )
