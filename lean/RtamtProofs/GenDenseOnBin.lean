/-
  The binary point-wise operation classes of the dense-time online monitor, translated from the source
  (`Gen.DenseOn.AndOperation_update`, …, `Gen.DenseOn.PredicateOperation_update`), compute what the mirror
  `Rtamt.Dense.AlgOn.binUpdate` / `binUpdateNL` (and the `.pred c` clause of `stepOn`) computes: the returned sample list and
  the new state of the object, or the exception.  The contract of the translated online `intersection` is the hypothesis
  `InterOnSpec α fuel k` (`RtamtProofs/GenDenseOnBase.lean`).
-/
import RtamtProofs.GenDenseOnBase

namespace Rtamt.Py.DnOn.GOnBin
open Rtamt Val Rtamt.Dense Rtamt.Dense.Alg Rtamt.Dense.AlgOn Rtamt.Py.DnOn

set_option linter.unusedSectionVars false
set_option linter.unusedVariables false
set_option linter.unusedSimpArgs false

variable {α : Type} [Val α]

/-! ### a structured copy of the generated bodies (checked by `rfl` against the generated terms) -/

/-- `if buf and smp and buf[-1][0] == smp[0][0]: buf = buf + smp[1:] else: buf = buf + smp` -/
def joinStmt (buf smp : String) : S :=
  .ite (.and_ (.loc buf) (.and_ (.loc smp)
      (.bin .eq (.idx (.idx (.loc buf) (.neg (.int 1))) (.int 0)) (.idx (.idx (.loc smp) (.int 0)) (.int 0)))))
    (.setLoc buf (.bin .add (.loc buf) (.sliceFrom (.loc smp) 1)))
    (.setLoc buf (.bin .add (.loc buf) (.loc smp)))

/-- `result, last, left, right = intersection(self.sample_left_buf, self.sample_right_buf, m)` -/
def callStmt (m : String) : S :=
  .unpack ["result", "last", "left", "right"]
    (.call3 "intersection" (.loc "self.sample_left_buf") (.loc "self.sample_right_buf") (.fnRef m))

/-- `if last: if not result: result.append(last) elif last[0] > result[-1][0]: result.append(last)` -/
def lastStmt : S :=
  .ite (.loc "last")
    (.ite (.not (.loc "result")) (.appendLoc "result" (.loc "last"))
      (.ite (.bin .gt (.idx (.loc "last") (.int 0)) (.idx (.idx (.loc "result") (.neg (.int 1))) (.int 0)))
        (.appendLoc "result" (.loc "last")) .skip)) .skip

/-- `if self.last_output and result: if self.last_output[0] == result[0][0] and self.last_output[1] == result[0][1]:
    result.pop(0)` -/
def dropStmt : S :=
  .ite (.and_ (.loc "self.last_output") (.loc "result"))
    (.ite (.and_ (.bin .eq (.idx (.loc "self.last_output") (.int 0)) (.idx (.idx (.loc "result") (.int 0)) (.int 0)))
        (.bin .eq (.idx (.loc "self.last_output") (.int 1)) (.idx (.idx (.loc "result") (.int 0)) (.int 1))))
      (.delIdx "result" (.int 0)) .skip) .skip

/-- `if result: self.last_output = result[-1]` -/
def saveStmt : S :=
  .ite (.loc "result") (.setLoc "self.last_output" (.idx (.loc "result") (.neg (.int 1)))) .skip

def binTail (m : String) (fin : S) : S :=
  .seq (callStmt m) (.seq lastStmt (.seq (.setLoc "self.sample_left_buf" (.loc "left"))
    (.seq (.setLoc "self.sample_right_buf" (.loc "right")) (.seq dropStmt (.seq saveStmt fin)))))

/-- `return result` -/
def retR : S := .ret (.loc "result")
/-- `XorOperation.update` ends with `return result` twice -/
def retRR : S := .seq retR retR

/-- the body of `update` of ten of the eleven classes (`fin`: the final `return result`) -/
def binBodyF (m : String) (fin : S) : S :=
  .seq (joinStmt "self.sample_left_buf" "sample_left") (.seq (joinStmt "self.sample_right_buf" "sample_right") (binTail m fin))

def binBody (m : String) : S := binBodyF m retR

/-- the body of `MultiplicationOperation.update`: `self.last_output = []` before the call of `intersection` -/
def mulBody : S :=
  .seq (joinStmt "self.sample_left_buf" "sample_left") (.seq (joinStmt "self.sample_right_buf" "sample_right")
    (.seq (.setLoc "self.last_output" .emptyList) (binTail "multiplication" retR)))

theorem And_body : Gen.DenseOn.AndOperation_update.body = binBody "conjunction" := rfl
theorem Or_body : Gen.DenseOn.OrOperation_update.body = binBody "disjunction" := rfl
theorem Implies_body : Gen.DenseOn.ImpliesOperation_update.body = binBody "implication" := rfl
theorem Iff_body : Gen.DenseOn.IffOperation_update.body = binBody "iff" := rfl
/-- `XorOperation.update` has its `return result` twice -/
theorem Xor_body : Gen.DenseOn.XorOperation_update.body = binBodyF "xor" retRR := rfl
theorem Addition_body : Gen.DenseOn.AdditionOperation_update.body = binBody "addition" := rfl
theorem Subtraction_body : Gen.DenseOn.SubtractionOperation_update.body = binBody "subtraction" := rfl
theorem Division_body : Gen.DenseOn.DivisionOperation_update.body = binBody "division" := rfl
theorem Pow_body : Gen.DenseOn.PowOperation_update.body = binBody "power" := rfl
theorem Log_body : Gen.DenseOn.LogOperation_update.body = binBody "log" := rfl
theorem Multiplication_body : Gen.DenseOn.MultiplicationOperation_update.body = mulBody := rfl

/-! ### locals, stores -/

theorem getLoc_ok_iff {k : String} {env : Env α} {v : DV α} : getLoc k env = .ok v ↔ env.lookup k = some v := by
  unfold getLoc
  cases h : env.lookup k with
  | none => simp
  | some w => simp

theorem getLoc_err_iff {k : String} {env : Env α} : getLoc k env = .error .key ↔ env.lookup k = none := by
  unfold getLoc
  cases h : env.lookup k with
  | none => simp
  | some w => simp

theorem getLoc_eq_of_lookup {k : String} {env env' : Env α} (h : env'.lookup k = env.lookup k) :
    getLoc k env' = getLoc k env := by
  unfold getLoc; rw [h]

theorem lookup_eq_of_getLoc {k : String} {env env' : Env α} (h : getLoc k env' = getLoc k env) :
    env'.lookup k = env.lookup k := by
  unfold getLoc at h
  cases h1 : env'.lookup k with
  | none =>
      cases h2 : env.lookup k with
      | none => rfl
      | some w => rw [h1, h2] at h; cases h
  | some v =>
      cases h2 : env.lookup k with
      | none => rw [h1, h2] at h; cases h
      | some w => rw [h1, h2] at h; cases h; rfl

/-- all keys of a store are attribute names -/
def SelfKeys (store : Env α) : Prop := ∀ p ∈ store, isSelfKey p.1 = true

theorem selfKeys_filter (env : Env α) : SelfKeys (env.filter (fun p => isSelfKey p.1)) := by
  intro p hp
  exact (List.mem_filter.mp hp).2

theorem lookup_filter_self (env : Env α) (k : String) (hk : isSelfKey k = true) :
    (env.filter (fun p => isSelfKey p.1)).lookup k = env.lookup k := by
  induction env with
  | nil => rfl
  | cons p env ih =>
      obtain ⟨k', v⟩ := p
      cases hs : isSelfKey k' with
      | true =>
          rw [List.filter_cons_of_pos (by simpa using hs)]
          simp only [List.lookup_cons, ih]
      | false =>
          rw [List.filter_cons_of_neg (by simp [hs])]
          have hne : (k == k') = false := by
            rw [beq_eq_false_iff_ne]; intro e; subst e; rw [hk] at hs; cases hs
          simp only [List.lookup_cons, hne, ih]

theorem lookup_none_of_selfKeys (store : Env α) (hs : SelfKeys store) (k : String) (hk : isSelfKey k = false) :
    store.lookup k = none := by
  induction store with
  | nil => rfl
  | cons p store ih =>
      obtain ⟨k', v⟩ := p
      have h1 : isSelfKey k' = true := hs (k', v) (by simp)
      have hne : (k == k') = false := by
        rw [beq_eq_false_iff_ne]; intro e; subst e; rw [hk] at h1; cases h1
      simp only [List.lookup_cons, hne]
      exact ih (fun p hp => hs p (by simp [hp]))

theorem getLoc_append_left {store rest : Env α} {k : String} {v : DV α} (h : store.lookup k = some v) :
    getLoc k (store ++ rest) = .ok v := by
  rw [getLoc_ok_iff, List.lookup_append, h]; rfl

theorem getLoc_append_right {store rest : Env α} {k : String} (h : store.lookup k = none) :
    getLoc k (store ++ rest) = getLoc k rest := by
  apply getLoc_eq_of_lookup
  rw [List.lookup_append, h]; rfl

theorem resolve_of_key {env : Env α} {f : String} (h : getLoc f env = .error .key) : resolve env f = f := by
  unfold getLoc at h
  unfold resolve
  cases hl : env.lookup f with
  | none => rfl
  | some v => rw [hl] at h; cases h

/-- the two agree outside `xs` -/
def Frame (xs : List String) (env env' : Env α) : Prop := ∀ k, k ∉ xs → getLoc k env' = getLoc k env

theorem Frame.refl (xs : List String) (env : Env α) : Frame xs env env := fun _ _ => rfl

theorem Frame.setLoc (x : String) (v : DV α) (env : Env α) : Frame [x] env (setLoc x v env) := by
  intro k hk
  have : k ≠ x := by simpa using hk
  exact getLoc_setLoc_ne _ _ _ _ this

/-! ### statements -/

section stmts
variable (call : Call α) (fuel : Nat)

theorem exec_seq_ok {a b : S} {env env' : Env α} (h : exec call fuel a env = .ok (env', .none)) :
    exec call fuel (.seq a b) env = exec call fuel b env' := by
  simp [exec, h]

theorem exec_seq_err {a b : S} {env : Env α} {e : PyErr} (h : exec call fuel a env = .error e) :
    exec call fuel (.seq a b) env = .error e := by
  simp [exec, h]

theorem exec_setLoc {x : String} {e : E} {env : Env α} {v : DV α} (h : evalE call env e = .ok v) :
    exec call fuel (.setLoc x e) env = .ok (setLoc x v env, .none) := by
  simp [exec, h]

theorem exec_retR {env : Env α} {v : DV α} (h : getLoc "result" env = .ok v) :
    exec call fuel retR env = .ok (env, .ret v) := by
  simp [retR, exec, evalE, h]

theorem exec_retRR {env : Env α} {v : DV α} (h : getLoc "result" env = .ok v) :
    exec call fuel retRR env = .ok (env, .ret v) := by
  simp [retRR, retR, exec, evalE, h]

theorem evalIdx_last (l : List (DV α)) (x : DV α) : evalIdx (.list (l ++ [x])) (.int (-1)) = .ok x := by
  simp [evalIdx, pyIndex]

theorem evalIdx_smp0 (t : Tm) (p : DV α) : evalIdx (.smp t p) (.int 0) = .ok (.tm t) := by
  simp [evalIdx, pyIndex]

theorem evalIdx_smp1 (t : Tm) (p : DV α) : evalIdx (.smp t p) (.int 1) = .ok p := by
  simp [evalIdx, pyIndex]

theorem evalIdx_cons0 (a : DV α) (l : List (DV α)) : evalIdx (.list (a :: l)) (.int 0) = .ok a := by
  simp [evalIdx, pyIndex]

theorem cmpDV_eq_tm (a b : Tm) : cmpDV (α := α) .eq (.tm a) (.tm b) = .ok (a == b) := by
  have h : (XT.t a == XT.t b) = (a == b) := by
    by_cases h : a = b
    · subst h; simp
    · have h' : XT.t a ≠ XT.t b := fun e => h (XT.t.inj e)
      rw [beq_eq_false_iff_ne.mpr h', beq_eq_false_iff_ne.mpr h]
  simp [cmpDV, isTimeLike, toXT, toTm, cmpXT, Except.map, h]

theorem cmpDV_gt_tm (a b : Tm) : cmpDV (α := α) .gt (.tm a) (.tm b) = .ok (Tm.lt b a) := by
  simp [cmpDV, isTimeLike, toXT, toTm, cmpXT, Except.map, XT.lt]

theorem cmpDV_eq_val (a b : α) : cmpDV .eq (.val a) (.val b) = .ok (!vne a b) := by
  simp [cmpDV, isTimeLike, isValLike, toVal, cmpVal, numEq, vne]

theorem cmpDV_ne_val (a b : α) : cmpDV .ne (.val a) (.val b) = .ok (vne a b) := by
  simp [cmpDV, isTimeLike, isValLike, toVal, cmpVal]

end stmts

/-! ### the mirror `binUpdate` in pieces -/

/-- `if last: if not result: result.append(last) elif last[0] > result[-1][0]: result.append(last)` -/
def addLast (result : ASig α) : Last α → ASig α
  | .nil => result
  | .item t v =>
      match result.getLast? with
      | none => [(t, v)]
      | some (t', _) => if Tm.lt t' t then result ++ [(t, v)] else result

/-- `result.pop(0)` when the first sample repeats `self.last_output` -/
def dropFirst (lo : Option (Tm × α)) (result : ASig α) : ASig α :=
  match lo, result with
  | some (t, v), (t', v') :: rest => if t == t' && !vne v v' then rest else result
  | _, _ => result

/-- `if result: self.last_output = result[-1]` -/
def newLast (lo : Option (Tm × α)) (result : ASig α) : Option (Tm × α) :=
  match result.getLast? with
  | some p => some p
  | none => lo

theorem binUpdate_eq (f : α → α → α) (st : BinSt α) (sl sr : ASig α) :
    binUpdate f st sl sr =
      match interOn f vne (joinBuf st.buf1 sl) (joinBuf st.buf2 sr) with
      | .error e => .error e
      | .ok (result, last, left, right) =>
          .ok ({ buf1 := left, buf2 := right,
                 lastOut := newLast st.lastOut (dropFirst st.lastOut (addLast result last)) },
               dropFirst st.lastOut (addLast result last)) := by
  unfold binUpdate
  dsimp only
  cases hI : interOn f vne (joinBuf st.buf1 sl) (joinBuf st.buf2 sr) with
  | error e => rfl
  | ok r =>
      obtain ⟨result, last, left, right⟩ := r
      cases last with
      | nil => rfl
      | item t v =>
          simp only [ok_bind, addLast]
          cases hg : result.getLast? with
          | none => rfl
          | some p => rfl

/-! ### the statements of `update` -/

section specs
variable (call : Call α) (fuel : Nat)

theorem joinStmt_spec (buf smp : String) (env : Env α) (b s : ASig α)
    (hb : getLoc buf env = .ok (encSig b)) (hs : getLoc smp env = .ok (encSig s)) :
    exec call fuel (joinStmt buf smp) env = .ok (setLoc buf (encSig (joinBuf b s)) env, .none) := by
  rcases List.eq_nil_or_concat b with rfl | ⟨b', ⟨t, v⟩, rfl⟩
  · simp [joinStmt, exec, evalE, hb, hs, truthy, encSig, joinBuf, evalBin, isCmp, arith]
  · cases s with
    | nil =>
        simp [joinStmt, exec, evalE, hb, hs, truthy, encSig, joinBuf, evalBin, isCmp, arith]
    | cons p rest =>
        obtain ⟨t', v'⟩ := p
        have e1 : evalIdx (α := α) (.list (List.map encSmp b' ++ [DV.smp t (.val v)])) (.int (-1)) = .ok (.smp t (.val v)) :=
          evalIdx_last _ _
        by_cases htt : t = t'
        · subst htt
          simp [joinStmt, exec, evalE, hb, hs, truthy, encSig, joinBuf, evalBin, isCmp, arith, evalNeg, e1, encSmp,
            evalIdx_smp0, evalIdx_cons0, cmpDV_eq_tm, Except.map]
        · have hbeq : (t == t') = false := beq_eq_false_iff_ne.mpr htt
          simp [joinStmt, exec, evalE, hb, hs, truthy, encSig, joinBuf, evalBin, isCmp, arith, evalNeg, e1, encSmp,
            evalIdx_smp0, evalIdx_cons0, cmpDV_eq_tm, hbeq, htt, Except.map]

theorem callStmt_ok (m : String) (env : Env α) (b1 b2 a b c d : DV α)
    (h1 : getLoc "self.sample_left_buf" env = .ok b1) (h2 : getLoc "self.sample_right_buf" env = .ok b2)
    (hres : getLoc "intersection" env = .error .key)
    (hc : call "intersection" [b1, b2, .fn m] = .ok (.list [a, b, c, d])) :
    exec call fuel (callStmt m) env =
      .ok (setLoc "right" d (setLoc "left" c (setLoc "last" b (setLoc "result" a env))), .none) := by
  simp [callStmt, exec, evalE, h1, h2, resolve_of_key hres, hc]

theorem callStmt_err (m : String) (env : Env α) (b1 b2 : DV α) (e : PyErr)
    (h1 : getLoc "self.sample_left_buf" env = .ok b1) (h2 : getLoc "self.sample_right_buf" env = .ok b2)
    (hres : getLoc "intersection" env = .error .key)
    (hc : call "intersection" [b1, b2, .fn m] = .error e) :
    exec call fuel (callStmt m) env = .error e := by
  simp [callStmt, exec, evalE, h1, h2, resolve_of_key hres, hc]

theorem lastStmt_spec (env : Env α) (r : ASig α) (last : Last α)
    (hr : getLoc "result" env = .ok (encSig r)) (hl : getLoc "last" env = .ok (encLast DV.val last)) :
    ∃ env', exec call fuel lastStmt env = .ok (env', .none) ∧ getLoc "result" env' = .ok (encSig (addLast r last)) ∧
      Frame ["result"] env env' := by
  cases last with
  | nil =>
      refine ⟨env, ?_, hr, Frame.refl _ _⟩
      simp [lastStmt, exec, evalE, hl, encLast, truthy]
  | item t v =>
      rcases List.eq_nil_or_concat r with rfl | ⟨r', ⟨t', v'⟩, rfl⟩
      · refine ⟨setLoc "result" (encSig [(t, v)]) env, ?_, by simp [addLast], Frame.setLoc _ _ _⟩
        simp [lastStmt, exec, evalE, hl, hr, encLast, truthy, encSig, encSmp]
      · have e1 : evalIdx (α := α) (.list (List.map encSmp r' ++ [DV.smp t' (.val v')])) (.int (-1)) =
            .ok (.smp t' (.val v')) := evalIdx_last _ _
        cases hlt : Tm.lt t' t with
        | true =>
            refine ⟨setLoc "result" (encSig (r' ++ [(t', v')] ++ [(t, v)])) env, ?_, ?_, Frame.setLoc _ _ _⟩
            · simp [lastStmt, exec, evalE, hl, hr, encLast, truthy, encSig, encSmp, evalNeg, e1, evalIdx_smp0, evalBin, isCmp,
                cmpDV_gt_tm, Except.map, hlt]
            · simp [addLast, hlt]
        | false =>
            refine ⟨env, ?_, ?_, Frame.refl _ _⟩
            · simp [lastStmt, exec, evalE, hl, hr, encLast, truthy, encSig, encSmp, evalNeg, e1, evalIdx_smp0, evalBin, isCmp,
                cmpDV_gt_tm, Except.map, hlt]
            · simp [addLast, hlt, hr]

theorem dropStmt_spec (env : Env α) (lo : Option (Tm × α)) (r : ASig α)
    (hlo : getLoc "self.last_output" env = .ok (encOptSmp lo)) (hr : getLoc "result" env = .ok (encSig r)) :
    ∃ env', exec call fuel dropStmt env = .ok (env', .none) ∧ getLoc "result" env' = .ok (encSig (dropFirst lo r)) ∧
      Frame ["result"] env env' := by
  cases lo with
  | none =>
      refine ⟨env, ?_, by simpa [dropFirst] using hr, Frame.refl _ _⟩
      simp [dropStmt, exec, evalE, hlo, encOptSmp, truthy]
  | some p =>
      obtain ⟨t, v⟩ := p
      cases r with
      | nil =>
          refine ⟨env, ?_, by simpa [dropFirst] using hr, Frame.refl _ _⟩
          simp [dropStmt, exec, evalE, hlo, hr, encOptSmp, encSmp, encSig, truthy]
      | cons q rest =>
          obtain ⟨t', v'⟩ := q
          cases htt : (t == t') with
          | false =>
              refine ⟨env, ?_, by simpa [dropFirst, htt] using hr, Frame.refl _ _⟩
              simp [dropStmt, exec, evalE, hlo, hr, encOptSmp, encSmp, encSig, truthy, evalIdx_smp0, evalIdx_smp1,
                evalIdx_cons0, evalBin, isCmp, cmpDV_eq_tm, cmpDV_eq_val, Except.map, htt]
          | true =>
              cases hvv : vne v v' with
              | true =>
                  refine ⟨env, ?_, by simpa [dropFirst, htt, hvv] using hr, Frame.refl _ _⟩
                  simp [dropStmt, exec, evalE, hlo, hr, encOptSmp, encSmp, encSig, truthy, evalIdx_smp0, evalIdx_smp1,
                    evalIdx_cons0, evalBin, isCmp, cmpDV_eq_tm, cmpDV_eq_val, Except.map, htt, hvv]
              | false =>
                  refine ⟨setLoc "result" (encSig rest) env, ?_, by simp [dropFirst, htt, hvv], Frame.setLoc _ _ _⟩
                  simp [dropStmt, exec, evalE, hlo, hr, encOptSmp, encSmp, encSig, truthy, evalIdx_smp0, evalIdx_smp1,
                    evalIdx_cons0, evalBin, isCmp, cmpDV_eq_tm, cmpDV_eq_val, Except.map, htt, hvv, delAt, pyIndex]

theorem saveStmt_spec (env : Env α) (lo : Option (Tm × α)) (r : ASig α)
    (hlo : getLoc "self.last_output" env = .ok (encOptSmp lo)) (hr : getLoc "result" env = .ok (encSig r)) :
    ∃ env', exec call fuel saveStmt env = .ok (env', .none) ∧
      getLoc "self.last_output" env' = .ok (encOptSmp (newLast lo r)) ∧ Frame ["self.last_output"] env env' := by
  rcases List.eq_nil_or_concat r with rfl | ⟨r', ⟨t, v⟩, rfl⟩
  · refine ⟨env, ?_, by simpa [newLast] using hlo, Frame.refl _ _⟩
    simp [saveStmt, exec, evalE, hr, encSig, truthy]
  · have e1 : evalIdx (α := α) (.list (List.map encSmp r' ++ [DV.smp t (.val v)])) (.int (-1)) =
        .ok (.smp t (.val v)) := evalIdx_last _ _
    refine ⟨setLoc "self.last_output" (encSmp (t, v)) env, ?_, by simp [newLast, encOptSmp], Frame.setLoc _ _ _⟩
    simp [saveStmt, exec, evalE, hr, encSig, truthy, encSmp, evalNeg, e1]

end specs

/-! ### the tail of `update`: the call of `intersection` and what follows -/

/-- a final statement that returns `result` -/
def IsRet (fin : S) : Prop :=
  ∀ (α : Type) [Val α] (call : Call α) (fuel : Nat) (env : Env α) (v : DV α),
    getLoc "result" env = .ok v → exec call fuel fin env = .ok (env, .ret v)

theorem isRet_retR : IsRet retR := fun _ _ call fuel _ _ h => exec_retR call fuel h
theorem isRet_retRR : IsRet retRR := fun _ _ call fuel _ _ h => exec_retRR call fuel h

theorem binTail_spec (fuel k : Nat) (hI : InterOnSpec α fuel k) (m : String) (f : α → α → α)
    (hm : ∀ a b, callAt Gen.DenseOn.fns fuel (k + 1) m [.val a, .val b] = .ok (.val (f a b)))
    (fin : S) (hfin : IsRet fin) (env : Env α) (b1 b2 : ASig α) (lo : Option (Tm × α))
    (h1 : getLoc "self.sample_left_buf" env = .ok (encSig b1))
    (h2 : getLoc "self.sample_right_buf" env = .ok (encSig b2))
    (hlo : getLoc "self.last_output" env = .ok (encOptSmp lo))
    (hres : getLoc "intersection" env = .error .key)
    (hfuel : 2 * (b1.length + b2.length) + 4 ≤ fuel) :
    match interOn f vne b1 b2 with
    | .error e => exec (callAt Gen.DenseOn.fns fuel (k + 2)) fuel (binTail m fin) env = .error e
    | .ok (result, last, left, right) =>
        ∃ env', exec (callAt Gen.DenseOn.fns fuel (k + 2)) fuel (binTail m fin) env =
            .ok (env', .ret (encSig (dropFirst lo (addLast result last)))) ∧
          getLoc "self.sample_left_buf" env' = .ok (encSig left) ∧
          getLoc "self.sample_right_buf" env' = .ok (encSig right) ∧
          getLoc "self.last_output" env' = .ok (encOptSmp (newLast lo (dropFirst lo (addLast result last)))) := by
  have hspec := hI α DV.val f vne m hm (fun _ => rfl) cmpDV_ne_val b1 b2 hfuel
  cases hio : interOn f vne b1 b2 with
  | error e =>
      rw [hio] at hspec
      simp only at hspec
      show exec _ fuel (binTail m fin) env = .error e
      unfold binTail
      exact exec_seq_err _ _ (callStmt_err _ fuel m env _ _ e h1 h2 hres hspec)
  | ok r =>
      obtain ⟨result, last, left, right⟩ := r
      rw [hio] at hspec
      simp only at hspec
      have hc := callStmt_ok _ fuel m env _ _ _ _ _ _ h1 h2 hres hspec
      generalize henv1 : setLoc "right" (encSig right) (setLoc "left" (encSig left)
        (setLoc "last" (encLast DV.val last) (setLoc "result" (encSigP DV.val result) env))) = env1 at hc
      have g1 : ∀ k', k' ∉ ["right", "left", "last", "result"] → getLoc k' env1 = getLoc k' env := by
        intro k' hk
        simp only [List.mem_cons, List.not_mem_nil, or_false, not_or] at hk
        rw [← henv1]
        simp [hk.1, hk.2.1, hk.2.2.1, hk.2.2.2]
      have r1 : getLoc "result" env1 = .ok (encSig result) := by rw [← henv1]; simp [encSigP_val]
      have l1 : getLoc "last" env1 = .ok (encLast DV.val last) := by rw [← henv1]; simp
      have le1 : getLoc "left" env1 = .ok (encSig left) := by rw [← henv1]; simp
      have ri1 : getLoc "right" env1 = .ok (encSig right) := by rw [← henv1]; simp
      have lo1 : getLoc "self.last_output" env1 = .ok (encOptSmp lo) := by rw [g1 _ (by simp)]; exact hlo
      obtain ⟨env2, hx2, r2, f2⟩ := lastStmt_spec (callAt Gen.DenseOn.fns fuel (k + 2)) fuel env1 result last r1 l1
      have hx3 : exec (callAt Gen.DenseOn.fns fuel (k + 2)) fuel (.setLoc "self.sample_left_buf" (.loc "left")) env2 =
          .ok (setLoc "self.sample_left_buf" (encSig left) env2, .none) :=
        exec_setLoc _ fuel (by rw [evalE, f2 _ (by simp)]; exact le1)
      have hx4 : exec (callAt Gen.DenseOn.fns fuel (k + 2)) fuel (.setLoc "self.sample_right_buf" (.loc "right"))
          (setLoc "self.sample_left_buf" (encSig left) env2) =
          .ok (setLoc "self.sample_right_buf" (encSig right) (setLoc "self.sample_left_buf" (encSig left) env2), .none) :=
        exec_setLoc _ fuel (by rw [evalE]; simp; rw [f2 _ (by simp)]; exact ri1)
      generalize henv4 : setLoc "self.sample_right_buf" (encSig right)
        (setLoc "self.sample_left_buf" (encSig left) env2) = env4 at hx4
      have lo4 : getLoc "self.last_output" env4 = .ok (encOptSmp lo) := by
        rw [← henv4]; simp; rw [f2 _ (by simp)]; exact lo1
      have r4 : getLoc "result" env4 = .ok (encSig (addLast result last)) := by
        rw [← henv4]; simp; exact r2
      have lb4 : getLoc "self.sample_left_buf" env4 = .ok (encSig left) := by rw [← henv4]; simp
      have rb4 : getLoc "self.sample_right_buf" env4 = .ok (encSig right) := by rw [← henv4]; simp
      obtain ⟨env5, hx5, r5, f5⟩ := dropStmt_spec (callAt Gen.DenseOn.fns fuel (k + 2)) fuel env4 lo _ lo4 r4
      have lo5 : getLoc "self.last_output" env5 = .ok (encOptSmp lo) := by rw [f5 _ (by simp)]; exact lo4
      obtain ⟨env6, hx6, lo6, f6⟩ := saveStmt_spec (callAt Gen.DenseOn.fns fuel (k + 2)) fuel env5 lo _ lo5 r5
      have r6 : getLoc "result" env6 = .ok (encSig (dropFirst lo (addLast result last))) := by
        rw [f6 _ (by simp)]; exact r5
      refine ⟨env6, ?_, ?_, ?_, lo6⟩
      · unfold binTail
        rw [exec_seq_ok _ fuel hc, exec_seq_ok _ fuel hx2, exec_seq_ok _ fuel hx3, exec_seq_ok _ fuel hx4,
          exec_seq_ok _ fuel hx5, exec_seq_ok _ fuel hx6]
        exact hfin α _ fuel env6 _ r6
      · rw [f6 _ (by simp), f5 _ (by simp)]; exact lb4
      · rw [f6 _ (by simp), f5 _ (by simp)]; exact rb4

/-! ### the whole body -/

theorem joinBuf_length_le (b s : ASig α) : (joinBuf b s).length ≤ b.length + s.length := by
  unfold joinBuf
  split
  · split <;> simp
  · simp

/-- `binUpdate` written with the pieces, for a state given by its fields -/
theorem binBodyF_spec (fuel k : Nat) (hI : InterOnSpec α fuel k) (m : String) (f : α → α → α)
    (hm : ∀ a b, callAt Gen.DenseOn.fns fuel (k + 1) m [.val a, .val b] = .ok (.val (f a b)))
    (fin : S) (hfin : IsRet fin) (env : Env α) (st : BinSt α) (sl sr : ASig α)
    (h1 : getLoc "self.sample_left_buf" env = .ok (encSig st.buf1))
    (h2 : getLoc "self.sample_right_buf" env = .ok (encSig st.buf2))
    (hsl : getLoc "sample_left" env = .ok (encSig sl)) (hsr : getLoc "sample_right" env = .ok (encSig sr))
    (hlo : getLoc "self.last_output" env = .ok (encOptSmp st.lastOut))
    (hres : getLoc "intersection" env = .error .key)
    (hfuel : 2 * (st.buf1.length + sl.length + st.buf2.length + sr.length) + 4 ≤ fuel) :
    match binUpdate f st sl sr with
    | .error e => exec (callAt Gen.DenseOn.fns fuel (k + 2)) fuel (binBodyF m fin) env = .error e
    | .ok (st', out) =>
        ∃ env', exec (callAt Gen.DenseOn.fns fuel (k + 2)) fuel (binBodyF m fin) env = .ok (env', .ret (encSig out)) ∧
          getLoc "self.sample_left_buf" env' = .ok (encSig st'.buf1) ∧
          getLoc "self.sample_right_buf" env' = .ok (encSig st'.buf2) ∧
          getLoc "self.last_output" env' = .ok (encOptSmp st'.lastOut) := by
  have hj1 := joinStmt_spec (callAt Gen.DenseOn.fns fuel (k + 2)) fuel "self.sample_left_buf" "sample_left" env _ _ h1 hsl
  generalize henv1 : setLoc "self.sample_left_buf" (encSig (joinBuf st.buf1 sl)) env = env1 at hj1
  have hj2 := joinStmt_spec (callAt Gen.DenseOn.fns fuel (k + 2)) fuel "self.sample_right_buf" "sample_right" env1
    st.buf2 sr (by rw [← henv1]; simpa using h2) (by rw [← henv1]; simpa using hsr)
  generalize henv2 : setLoc "self.sample_right_buf" (encSig (joinBuf st.buf2 sr)) env1 = env2 at hj2
  have l2 : getLoc "self.sample_left_buf" env2 = .ok (encSig (joinBuf st.buf1 sl)) := by
    rw [← henv2, ← henv1]; simp
  have r2 : getLoc "self.sample_right_buf" env2 = .ok (encSig (joinBuf st.buf2 sr)) := by
    rw [← henv2]; simp
  have lo2 : getLoc "self.last_output" env2 = .ok (encOptSmp st.lastOut) := by
    rw [← henv2, ← henv1]; simpa using hlo
  have res2 : getLoc "intersection" env2 = .error .key := by
    rw [← henv2, ← henv1]; simpa using hres
  have hlen1 := joinBuf_length_le st.buf1 sl
  have hlen2 := joinBuf_length_le st.buf2 sr
  have ht := binTail_spec fuel k hI m f hm fin hfin env2 _ _ st.lastOut l2 r2 lo2 res2 (by omega)
  have hx : exec (callAt Gen.DenseOn.fns fuel (k + 2)) fuel (binBodyF m fin) env =
      exec (callAt Gen.DenseOn.fns fuel (k + 2)) fuel (binTail m fin) env2 := by
    unfold binBodyF
    rw [exec_seq_ok _ fuel hj1, exec_seq_ok _ fuel hj2]
  rw [binUpdate_eq, hx]
  revert ht
  cases hio : interOn f vne (joinBuf st.buf1 sl) (joinBuf st.buf2 sr) with
  | error e => intro ht; exact ht
  | ok r =>
      obtain ⟨result, last, left, right⟩ := r
      intro ht
      exact ht

/-- the same for `MultiplicationOperation.update`; `self.last_output` need not exist before the call -/
theorem mulBody_spec (fuel k : Nat) (hI : InterOnSpec α fuel k) (f : α → α → α)
    (hm : ∀ a b, callAt Gen.DenseOn.fns fuel (k + 1) "multiplication" [.val a, .val b] = .ok (.val (f a b)))
    (env : Env α) (st : BinSt α) (sl sr : ASig α)
    (h1 : getLoc "self.sample_left_buf" env = .ok (encSig st.buf1))
    (h2 : getLoc "self.sample_right_buf" env = .ok (encSig st.buf2))
    (hsl : getLoc "sample_left" env = .ok (encSig sl)) (hsr : getLoc "sample_right" env = .ok (encSig sr))
    (hres : getLoc "intersection" env = .error .key)
    (hfuel : 2 * (st.buf1.length + sl.length + st.buf2.length + sr.length) + 4 ≤ fuel) :
    match binUpdateNL f st sl sr with
    | .error e => exec (callAt Gen.DenseOn.fns fuel (k + 2)) fuel mulBody env = .error e
    | .ok (st', out) =>
        ∃ env', exec (callAt Gen.DenseOn.fns fuel (k + 2)) fuel mulBody env = .ok (env', .ret (encSig out)) ∧
          getLoc "self.sample_left_buf" env' = .ok (encSig st'.buf1) ∧
          getLoc "self.sample_right_buf" env' = .ok (encSig st'.buf2) ∧
          getLoc "self.last_output" env' = .ok (encOptSmp st'.lastOut) := by
  have hj1 := joinStmt_spec (callAt Gen.DenseOn.fns fuel (k + 2)) fuel "self.sample_left_buf" "sample_left" env _ _ h1 hsl
  generalize henv1 : setLoc "self.sample_left_buf" (encSig (joinBuf st.buf1 sl)) env = env1 at hj1
  have hj2 := joinStmt_spec (callAt Gen.DenseOn.fns fuel (k + 2)) fuel "self.sample_right_buf" "sample_right" env1
    st.buf2 sr (by rw [← henv1]; simpa using h2) (by rw [← henv1]; simpa using hsr)
  generalize henv2 : setLoc "self.sample_right_buf" (encSig (joinBuf st.buf2 sr)) env1 = env2 at hj2
  have hj3 : exec (callAt Gen.DenseOn.fns fuel (k + 2)) fuel (.setLoc "self.last_output" .emptyList) env2 =
      .ok (setLoc "self.last_output" (.list []) env2, .none) := exec_setLoc _ fuel (by simp [evalE])
  generalize henv3 : setLoc "self.last_output" (DV.list []) env2 = env3 at hj3
  have l2 : getLoc "self.sample_left_buf" env3 = .ok (encSig (joinBuf st.buf1 sl)) := by
    rw [← henv3, ← henv2, ← henv1]; simp
  have r2 : getLoc "self.sample_right_buf" env3 = .ok (encSig (joinBuf st.buf2 sr)) := by
    rw [← henv3, ← henv2]; simp
  have lo2 : getLoc "self.last_output" env3 = .ok (encOptSmp (none : Option (Tm × α))) := by
    rw [← henv3]; simp [encOptSmp]
  have res2 : getLoc "intersection" env3 = .error .key := by
    rw [← henv3, ← henv2, ← henv1]; simpa using hres
  have hlen1 := joinBuf_length_le st.buf1 sl
  have hlen2 := joinBuf_length_le st.buf2 sr
  have ht := binTail_spec fuel k hI "multiplication" f hm retR isRet_retR env3 _ _ none l2 r2 lo2 res2 (by omega)
  have hx : exec (callAt Gen.DenseOn.fns fuel (k + 2)) fuel mulBody env =
      exec (callAt Gen.DenseOn.fns fuel (k + 2)) fuel (binTail "multiplication" retR) env3 := by
    unfold mulBody
    rw [exec_seq_ok _ fuel hj1, exec_seq_ok _ fuel hj2, exec_seq_ok _ fuel hj3]
  unfold binUpdateNL
  rw [binUpdate_eq, hx]
  revert ht
  show (match interOn f vne (joinBuf st.buf1 sl) (joinBuf st.buf2 sr) with
    | .error e => _
    | .ok (result, last, left, right) => _) → _
  cases hio : interOn f vne (joinBuf st.buf1 sl) (joinBuf st.buf2 sr) with
  | error e => intro ht; exact ht
  | ok r =>
      obtain ⟨result, last, left, right⟩ := r
      intro ht
      exact ht

/-! ### methods and objects -/

theorem runFn_method_ret (call : Call α) (fuel : Nat) (fn : Fn) (hmeth : fn.isMethod = true) (cls : String)
    (store : Env α) (rest : List (DV α)) (hlen : rest.length + 1 = fn.params.length) (env : Env α) (v : DV α)
    (h : exec call fuel fn.body (store ++ (fn.params.drop 1).zip rest) = .ok (env, .ret v)) :
    runFn call fuel fn (.obj cls store :: rest) = .ok (.list [.obj cls (env.filter (fun p => isSelfKey p.1)), v]) := by
  unfold runFn
  have h' := h
  simp only [List.drop_one] at h'
  simp [hmeth, hlen, h']

theorem runFn_method_none (call : Call α) (fuel : Nat) (fn : Fn) (hmeth : fn.isMethod = true) (cls : String)
    (store : Env α) (rest : List (DV α)) (hlen : rest.length + 1 = fn.params.length) (env : Env α)
    (h : exec call fuel fn.body (store ++ (fn.params.drop 1).zip rest) = .ok (env, .none)) :
    runFn call fuel fn (.obj cls store :: rest) = .ok (.list [.obj cls (env.filter (fun p => isSelfKey p.1)), .none]) := by
  unfold runFn
  have h' := h
  simp only [List.drop_one] at h'
  simp [hmeth, hlen, h']

theorem runFn_method_err (call : Call α) (fuel : Nat) (fn : Fn) (hmeth : fn.isMethod = true) (cls : String)
    (store : Env α) (rest : List (DV α)) (hlen : rest.length + 1 = fn.params.length) (e : PyErr)
    (h : exec call fuel fn.body (store ++ (fn.params.drop 1).zip rest) = .error e) :
    runFn call fuel fn (.obj cls store :: rest) = .error e := by
  unfold runFn
  have h' := h
  simp only [List.drop_one] at h'
  simp [hmeth, hlen, h']

/-- the object `o` of class `cls` is in the state `st` (without `self.last_output`: `MultiplicationOperation` before its first
    `update`) -/
def BinRelNL (cls : String) (st : BinSt α) (o : DV α) : Prop :=
  ∃ store, o = .obj cls store ∧
    store.lookup "self.sample_left_buf" = some (encSig st.buf1) ∧
    store.lookup "self.sample_right_buf" = some (encSig st.buf2) ∧
    SelfKeys store

/-- the object `o` of class `cls` is in the state `st` -/
def BinRel (cls : String) (st : BinSt α) (o : DV α) : Prop :=
  ∃ store, o = .obj cls store ∧
    store.lookup "self.sample_left_buf" = some (encSig st.buf1) ∧
    store.lookup "self.sample_right_buf" = some (encSig st.buf2) ∧
    store.lookup "self.last_output" = some (encOptSmp st.lastOut) ∧
    SelfKeys store

theorem BinRel.toNL {cls : String} {st : BinSt α} {o : DV α} (h : BinRel cls st o) : BinRelNL cls st o := by
  obtain ⟨store, e, h1, h2, _, hk⟩ := h
  exact ⟨store, e, h1, h2, hk⟩

/-- `BinRelNL` does not look at `lastOut` -/
theorem BinRelNL.congr {cls : String} {st st' : BinSt α} {o : DV α} (h : BinRelNL cls st o)
    (h1 : st'.buf1 = st.buf1) (h2 : st'.buf2 = st.buf2) : BinRelNL cls st' o := by
  obtain ⟨store, e, g1, g2, hk⟩ := h
  exact ⟨store, e, by rw [h1]; exact g1, by rw [h2]; exact g2, hk⟩

theorem binRel_of_env (cls : String) (st : BinSt α) (env : Env α)
    (g1 : getLoc "self.sample_left_buf" env = .ok (encSig st.buf1))
    (g2 : getLoc "self.sample_right_buf" env = .ok (encSig st.buf2))
    (g3 : getLoc "self.last_output" env = .ok (encOptSmp st.lastOut)) :
    BinRel cls st (.obj cls (env.filter (fun p => isSelfKey p.1))) := by
  refine ⟨_, rfl, ?_, ?_, ?_, selfKeys_filter env⟩
  · rw [lookup_filter_self _ _ (by simp [isSelfKey])]; exact getLoc_ok_iff.mp g1
  · rw [lookup_filter_self _ _ (by simp [isSelfKey])]; exact getLoc_ok_iff.mp g2
  · rw [lookup_filter_self _ _ (by simp [isSelfKey])]; exact getLoc_ok_iff.mp g3

/-- the locals a method `update(self, sample_left, sample_right)` starts with -/
theorem env0_facts (store : Env α) (hk : SelfKeys store) (x y : DV α) :
    getLoc "sample_left" (store ++ [("sample_left", x), ("sample_right", y)]) = .ok x ∧
    getLoc "sample_right" (store ++ [("sample_left", x), ("sample_right", y)]) = .ok y ∧
    getLoc "intersection" (store ++ [("sample_left", x), ("sample_right", y)]) = .error .key ∧
    getLoc "abs" (store ++ [("sample_left", x), ("sample_right", y)]) = .error .key := by
  refine ⟨?_, ?_, ?_, ?_⟩
  · rw [getLoc_append_right (lookup_none_of_selfKeys store hk _ (by simp [isSelfKey]))]; simp
  · rw [getLoc_append_right (lookup_none_of_selfKeys store hk _ (by simp [isSelfKey]))]; simp
  · rw [getLoc_append_right (lookup_none_of_selfKeys store hk _ (by simp [isSelfKey]))]; simp
  · rw [getLoc_append_right (lookup_none_of_selfKeys store hk _ (by simp [isSelfKey]))]; simp

/-- `cls.update` is a method `update(self, sample_left, sample_right)` with the body `binBodyF m fin` -/
def BinClass (cls m : String) : Prop :=
  ∃ fn fin, Gen.DenseOn.fns.lookup (cls ++ ".update") = some fn ∧ fn.isMethod = true ∧
    fn.params = ["self", "sample_left", "sample_right"] ∧ fn.body = binBodyF m fin ∧ IsRet fin

theorem binClass_And : BinClass "AndOperation" "conjunction" :=
  ⟨Gen.DenseOn.AndOperation_update, retR, rfl, rfl, rfl, rfl, isRet_retR⟩
theorem binClass_Or : BinClass "OrOperation" "disjunction" :=
  ⟨Gen.DenseOn.OrOperation_update, retR, rfl, rfl, rfl, rfl, isRet_retR⟩
theorem binClass_Implies : BinClass "ImpliesOperation" "implication" :=
  ⟨Gen.DenseOn.ImpliesOperation_update, retR, rfl, rfl, rfl, rfl, isRet_retR⟩
theorem binClass_Iff : BinClass "IffOperation" "iff" :=
  ⟨Gen.DenseOn.IffOperation_update, retR, rfl, rfl, rfl, rfl, isRet_retR⟩
theorem binClass_Xor : BinClass "XorOperation" "xor" :=
  ⟨Gen.DenseOn.XorOperation_update, retRR, rfl, rfl, rfl, rfl, isRet_retRR⟩
theorem binClass_Addition : BinClass "AdditionOperation" "addition" :=
  ⟨Gen.DenseOn.AdditionOperation_update, retR, rfl, rfl, rfl, rfl, isRet_retR⟩
theorem binClass_Subtraction : BinClass "SubtractionOperation" "subtraction" :=
  ⟨Gen.DenseOn.SubtractionOperation_update, retR, rfl, rfl, rfl, rfl, isRet_retR⟩
theorem binClass_Division : BinClass "DivisionOperation" "division" :=
  ⟨Gen.DenseOn.DivisionOperation_update, retR, rfl, rfl, rfl, rfl, isRet_retR⟩
theorem binClass_Pow : BinClass "PowOperation" "power" :=
  ⟨Gen.DenseOn.PowOperation_update, retR, rfl, rfl, rfl, rfl, isRet_retR⟩
theorem binClass_Log : BinClass "LogOperation" "log" :=
  ⟨Gen.DenseOn.LogOperation_update, retR, rfl, rfl, rfl, rfl, isRet_retR⟩

/-- the fuel `update` needs: the loop of `intersection` over the two joined buffers -/
def binFuel (st : BinSt α) (sl sr : ASig α) : Nat :=
  2 * (st.buf1.length + sl.length + st.buf2.length + sr.length) + 4

/-! ### the methods handed to `intersection` -/

section methods
variable (fuel k : Nat) (a b : α)

theorem meth_conjunction :
    callAt Gen.DenseOn.fns fuel (k + 1) "conjunction" [.val a, .val b] = .ok (.val (pmin a b) : DV α) := by
  rw [callAt_fn _ _ _ _ Gen.DenseOn.fn_conjunction _ rfl]
  simp [runFn, Gen.DenseOn.fn_conjunction, exec, evalE, getLoc, resolve, List.lookup,
    callAt_builtin Gen.DenseOn.fns fuel k "min" _ rfl, builtin, isTimeLike, toVal]

theorem meth_disjunction :
    callAt Gen.DenseOn.fns fuel (k + 1) "disjunction" [.val a, .val b] = .ok (.val (pmax a b) : DV α) := by
  rw [callAt_fn _ _ _ _ Gen.DenseOn.fn_disjunction _ rfl]
  simp [runFn, Gen.DenseOn.fn_disjunction, exec, evalE, getLoc, resolve, List.lookup,
    callAt_builtin Gen.DenseOn.fns fuel k "max" _ rfl, builtin, isTimeLike, toVal]

theorem meth_implication :
    callAt Gen.DenseOn.fns fuel (k + 1) "implication" [.val a, .val b] = .ok (.val (pmax (Val.neg a) b) : DV α) := by
  rw [callAt_fn _ _ _ _ Gen.DenseOn.fn_implication _ rfl]
  simp [runFn, Gen.DenseOn.fn_implication, exec, evalE, evalNeg, getLoc, resolve, List.lookup,
    callAt_builtin Gen.DenseOn.fns fuel k "max" _ rfl, builtin, isTimeLike, toVal]

theorem meth_xor :
    callAt Gen.DenseOn.fns fuel (k + 1) "xor" [.val a, .val b] = .ok (.val (Val.abs (Val.sub a b)) : DV α) := by
  rw [callAt_fn _ _ _ _ Gen.DenseOn.fn_xor _ rfl]
  simp [runFn, Gen.DenseOn.fn_xor, exec, evalE, evalBin, isCmp, arith, isTimeLike, isValLike, getLoc, resolve, List.lookup,
    callAt_builtin Gen.DenseOn.fns fuel k "abs" _ rfl, builtin, toVal]

theorem meth_iff :
    callAt Gen.DenseOn.fns fuel (k + 1) "iff" [.val a, .val b] = .ok (.val (Val.neg (Val.abs (Val.sub a b))) : DV α) := by
  rw [callAt_fn _ _ _ _ Gen.DenseOn.fn_iff _ rfl]
  simp [runFn, Gen.DenseOn.fn_iff, exec, evalE, evalNeg, evalBin, isCmp, arith, isTimeLike, isValLike, getLoc, resolve,
    List.lookup, callAt_builtin Gen.DenseOn.fns fuel k "abs" _ rfl, builtin, toVal]

theorem meth_addition :
    callAt Gen.DenseOn.fns fuel (k + 1) "addition" [.val a, .val b] = .ok (.val (Val.add a b) : DV α) := by
  rw [callAt_fn _ _ _ _ Gen.DenseOn.fn_addition _ rfl]
  simp [runFn, Gen.DenseOn.fn_addition, exec, evalE, evalBin, isCmp, arith, isTimeLike, isValLike, getLoc, List.lookup, toVal]

theorem meth_subtraction :
    callAt Gen.DenseOn.fns fuel (k + 1) "subtraction" [.val a, .val b] = .ok (.val (Val.sub a b) : DV α) := by
  rw [callAt_fn _ _ _ _ Gen.DenseOn.fn_subtraction _ rfl]
  simp [runFn, Gen.DenseOn.fn_subtraction, exec, evalE, evalBin, isCmp, arith, isTimeLike, isValLike, getLoc, List.lookup,
    toVal]

theorem meth_multiplication :
    callAt Gen.DenseOn.fns fuel (k + 1) "multiplication" [.val a, .val b] = .ok (.val (Val.mul a b) : DV α) := by
  rw [callAt_fn _ _ _ _ Gen.DenseOn.fn_multiplication _ rfl]
  simp [runFn, Gen.DenseOn.fn_multiplication, exec, evalE, evalBin, isCmp, arith, isTimeLike, isValLike, getLoc,
    List.lookup, toVal]

theorem meth_division :
    callAt Gen.DenseOn.fns fuel (k + 1) "division" [.val a, .val b] = .ok (.val (Val.div a b) : DV α) := by
  rw [callAt_fn _ _ _ _ Gen.DenseOn.fn_division _ rfl]
  simp [runFn, Gen.DenseOn.fn_division, exec, evalE, evalBin, isCmp, arith, isTimeLike, isValLike, getLoc, resolve,
    List.lookup, callAt_builtin Gen.DenseOn.fns fuel k "float" _ rfl, builtin, toVal]

theorem meth_power :
    callAt Gen.DenseOn.fns fuel (k + 1) "power" [.val a, .val b] = .ok (.val (Val.pow a b) : DV α) := by
  rw [callAt_fn _ _ _ _ Gen.DenseOn.fn_power _ rfl]
  simp [runFn, Gen.DenseOn.fn_power, exec, evalE, getLoc, resolve, List.lookup,
    callAt_builtin Gen.DenseOn.fns fuel k "math.pow" _ rfl, builtin, toVal]

theorem meth_log :
    callAt Gen.DenseOn.fns fuel (k + 1) "log" [.val a, .val b] = .ok (.val (Val.log a b) : DV α) := by
  rw [callAt_fn _ _ _ _ Gen.DenseOn.fn_log _ rfl]
  simp [runFn, Gen.DenseOn.fn_log, exec, evalE, getLoc, resolve, List.lookup,
    callAt_builtin Gen.DenseOn.fns fuel k "math.log" _ rfl, builtin, toVal]

end methods

/-! ### construction -/

def init3 : S :=
  .seq (.setLoc "self.sample_left_buf" .emptyList) (.seq (.setLoc "self.sample_right_buf" .emptyList)
    (.setLoc "self.last_output" .emptyList))

def init4 : S :=
  .seq (.setLoc "self.sample_left_buf" .emptyList) (.seq (.setLoc "self.sample_right_buf" .emptyList)
    (.seq (.setLoc "self.sample_last_buf" .emptyList) (.setLoc "self.last_output" .emptyList)))

def init2 : S :=
  .seq (.setLoc "self.sample_left_buf" .emptyList) (.setLoc "self.sample_right_buf" .emptyList)

/-- `cls.__init__(self)` sets the buffers and `self.last_output` to `[]` -/
def InitClass (cls : String) : Prop :=
  ∃ fn, Gen.DenseOn.fns.lookup (cls ++ ".__init__") = some fn ∧ fn.isMethod = true ∧ fn.params = ["self"] ∧
    (fn.body = init3 ∨ fn.body = init4)

theorem initClass_And : InitClass "AndOperation" := ⟨Gen.DenseOn.AndOperation_init, rfl, rfl, rfl, .inr rfl⟩
theorem initClass_Or : InitClass "OrOperation" := ⟨Gen.DenseOn.OrOperation_init, rfl, rfl, rfl, .inl rfl⟩
theorem initClass_Implies : InitClass "ImpliesOperation" := ⟨Gen.DenseOn.ImpliesOperation_init, rfl, rfl, rfl, .inl rfl⟩
theorem initClass_Iff : InitClass "IffOperation" := ⟨Gen.DenseOn.IffOperation_init, rfl, rfl, rfl, .inl rfl⟩
theorem initClass_Xor : InitClass "XorOperation" := ⟨Gen.DenseOn.XorOperation_init, rfl, rfl, rfl, .inl rfl⟩
theorem initClass_Addition : InitClass "AdditionOperation" := ⟨Gen.DenseOn.AdditionOperation_init, rfl, rfl, rfl, .inl rfl⟩
theorem initClass_Subtraction : InitClass "SubtractionOperation" :=
  ⟨Gen.DenseOn.SubtractionOperation_init, rfl, rfl, rfl, .inl rfl⟩
theorem initClass_Division : InitClass "DivisionOperation" := ⟨Gen.DenseOn.DivisionOperation_init, rfl, rfl, rfl, .inl rfl⟩
theorem initClass_Pow : InitClass "PowOperation" := ⟨Gen.DenseOn.PowOperation_init, rfl, rfl, rfl, .inl rfl⟩
theorem initClass_Log : InitClass "LogOperation" := ⟨Gen.DenseOn.LogOperation_init, rfl, rfl, rfl, .inl rfl⟩

theorem Multiplication_init_body : Gen.DenseOn.MultiplicationOperation_init.body = init2 := rfl

/-! ### `PredicateOperation` -/

def predChain : S :=
  .ite (.bin .eq (.loc "self.comparison_op") (.cmpc .eq))
    (.setLoc "out_val" (.neg (.call1 "abs" (.idx (.loc "i") (.int 1)))))
  (.ite (.bin .eq (.loc "self.comparison_op") (.cmpc .ne))
    (.setLoc "out_val" (.call1 "abs" (.idx (.loc "i") (.int 1))))
  (.ite (.or_ (.bin .eq (.loc "self.comparison_op") (.cmpc .le)) (.bin .eq (.loc "self.comparison_op") (.cmpc .lt)))
    (.setLoc "out_val" (.neg (.idx (.loc "i") (.int 1))))
  (.ite (.or_ (.bin .eq (.loc "self.comparison_op") (.cmpc .ge)) (.bin .eq (.loc "self.comparison_op") (.cmpc .gt)))
    (.setLoc "out_val" (.idx (.loc "i") (.int 1)))
    (.setLoc "out_val" .nan))))

def predLoopBody : S :=
  .seq predChain (.seq (.appendLoc "sample_result" (.list2 (.idx (.loc "i") (.int 0)) (.loc "out_val")))
    (.setLoc "prev" (.loc "out_val")))

def predRest : S :=
  .seq (.setLoc "self.subtraction_output" (.loc "input_list")) (.seq (.setLoc "prev" .nan)
    (.seq (.forIn "i" (.loc "input_list") predLoopBody) (.ret (.loc "sample_result"))))

def predBody : S :=
  .seq (.setLoc "sample_result" .emptyList)
    (.seq (.mcall (some "input_list") "self.sub" "update" [(.loc "sample_left"), (.loc "sample_right")]) predRest)

theorem Pred_body : Gen.DenseOn.PredicateOperation_update.body = predBody := rfl

def predInit : S :=
  .seq (.new "self.sub" "SubtractionOperation" []) (.seq (.setLoc "self.comparison_op" (.loc "comparison_op"))
    (.setLoc "self.subtraction_output" .emptyList))

theorem Pred_init_body : Gen.DenseOn.PredicateOperation_init.body = predInit := rfl

theorem cmpDV_eq_cmp (a b : Cmp) : cmpDV (α := α) .eq (.cmp a) (.cmp b) = .ok (decide (a = b)) := by
  simp [cmpDV]

section pred
variable (call : Call α) (fuel : Nat)

theorem exec_mcall2_ok (t o m : String) (a1 a2 : E) (env : Env α) (v1 v2 : DV α) (cls : String) (store : Env α)
    (o' r : DV α) (h1 : evalE call env a1 = .ok v1) (h2 : evalE call env a2 = .ok v2)
    (ho : getLoc o env = .ok (.obj cls store))
    (hc : call (cls ++ "." ++ m) [.obj cls store, v1, v2] = .ok (.list [o', r])) :
    exec call fuel (.mcall (some t) o m [a1, a2]) env = .ok (setLoc t r (setLoc o o' env), .none) := by
  simp [exec, h1, h2, ho, hc]

theorem exec_mcall2_err (t o m : String) (a1 a2 : E) (env : Env α) (v1 v2 : DV α) (cls : String) (store : Env α)
    (e : PyErr) (h1 : evalE call env a1 = .ok v1) (h2 : evalE call env a2 = .ok v2)
    (ho : getLoc o env = .ok (.obj cls store))
    (hc : call (cls ++ "." ++ m) [.obj cls store, v1, v2] = .error e) :
    exec call fuel (.mcall (some t) o m [a1, a2]) env = .error e := by
  simp [exec, h1, h2, ho, hc]

theorem exec_new0_ok (t cls : String) (env : Env α) (o' r : DV α)
    (hc : call (cls ++ ".__init__") [.obj cls []] = .ok (.list [o', r])) :
    exec call fuel (.new t cls []) env = .ok (setLoc t o' env, .none) := by
  simp [exec, hc]

theorem predLoopBody_spec (habs : ∀ x : α, call "abs" [.val x] = .ok (.val (Val.abs x))) (env : Env α) (c : Cmp)
    (acc : ASig α) (t : Tm) (x : α)
    (hc : getLoc "self.comparison_op" env = .ok (.cmp c)) (hi : getLoc "i" env = .ok (.smp t (.val x)))
    (hr : getLoc "sample_result" env = .ok (encSig acc)) (hres : getLoc "abs" env = .error .key) :
    exec call fuel predLoopBody env =
      .ok (setLoc "prev" (.val (cmpOfDiff c x)) (setLoc "sample_result" (encSig (acc ++ [(t, cmpOfDiff c x)]))
        (setLoc "out_val" (.val (cmpOfDiff c x)) env)), .none) := by
  cases c <;>
    simp [predLoopBody, predChain, exec, evalE, hc, hi, hr, resolve_of_key hres, habs, evalBin, isCmp, cmpDV_eq_cmp,
      Except.map, truthy, evalIdx_smp0, evalIdx_smp1, evalNeg, mkList2, toPayload, cmpOfDiff, encSig, encSmp]

theorem predLoop_spec (habs : ∀ x : α, call "abs" [.val x] = .ok (.val (Val.abs x))) (c : Cmp) (d : ASig α) :
    ∀ (env : Env α) (acc : ASig α),
      getLoc "self.comparison_op" env = .ok (.cmp c) → getLoc "sample_result" env = .ok (encSig acc) →
      getLoc "abs" env = .error .key →
      ∃ env', forLoop (fun p env => setLoc "i" p.1 env) (exec call fuel predLoopBody)
            ((d.map encSmp).map (fun v => (v, 0))) env = .ok (env', .none) ∧
        getLoc "sample_result" env' = .ok (encSig (acc ++ d.map (fun p => (p.1, cmpOfDiff c p.2)))) ∧
        Frame ["i", "out_val", "sample_result", "prev"] env env' := by
  induction d with
  | nil =>
      intro env acc hc hr hres
      exact ⟨env, rfl, by simpa using hr, Frame.refl _ _⟩
  | cons p d ih =>
      obtain ⟨t, x⟩ := p
      intro env acc hc hr hres
      have hb := predLoopBody_spec call fuel habs (setLoc "i" (.smp t (.val x)) env) c acc t x
        (by simpa using hc) (by simp) (by simpa using hr) (by simpa using hres)
      generalize henv1 : setLoc "prev" (DV.val (cmpOfDiff c x)) (setLoc "sample_result"
        (encSig (acc ++ [(t, cmpOfDiff c x)])) (setLoc "out_val" (DV.val (cmpOfDiff c x))
          (setLoc "i" (DV.smp t (DV.val x)) env))) = env1 at hb
      have f1 : Frame ["i", "out_val", "sample_result", "prev"] env env1 := by
        intro k' hk
        simp only [List.mem_cons, List.not_mem_nil, or_false, not_or] at hk
        rw [← henv1]
        simp [hk.1, hk.2.1, hk.2.2.1, hk.2.2.2]
      obtain ⟨env', hx, hr', f2⟩ := ih env1 (acc ++ [(t, cmpOfDiff c x)])
        (by rw [f1 _ (by simp)]; exact hc) (by rw [← henv1]; simp) (by rw [f1 _ (by simp)]; exact hres)
      refine ⟨env', ?_, ?_, ?_⟩
      · have e : (((t, x) :: d).map encSmp).map (fun v => (v, (0 : Nat))) =
            (DV.smp t (.val x), 0) :: (d.map encSmp).map (fun v => (v, 0)) := rfl
        rw [e, forLoop_cons]
        simp only [hb, ok_bind]
        exact hx
      · simpa using hr'
      · intro k' hk; rw [f2 _ hk, f1 _ hk]

end pred

theorem exec_forIn_list (call : Call α) (fuel : Nat) (x : String) (it : E) (body : S) (env : Env α) (l : List (DV α))
    (h : evalE call env it = .ok (.list l)) :
    exec call fuel (.forIn x it body) env =
      forLoop (fun p env => setLoc x p.1 env) (exec call fuel body) (l.map (fun v => (v, 0))) env := by
  simp [exec, h]

theorem call_abs (fuel k : Nat) (x : α) :
    callAt Gen.DenseOn.fns fuel k "abs" [.val x] = .ok (.val (Val.abs x) : DV α) := by
  rw [callAt_builtin _ _ _ "abs" _ rfl]; simp [builtin, toVal]

/-- the object `o` is a `PredicateOperation(c)` whose subtraction object is in the state `st` -/
def PredRel (c : Cmp) (st : BinSt α) (o : DV α) : Prop :=
  ∃ store sub, o = .obj "PredicateOperation" store ∧
    store.lookup "self.sub" = some sub ∧ BinRel "SubtractionOperation" st sub ∧
    store.lookup "self.comparison_op" = some (.cmp c) ∧
    (∃ d : ASig α, store.lookup "self.subtraction_output" = some (encSig d)) ∧
    SelfKeys store

end Rtamt.Py.DnOn.GOnBin

/-! ## main theorems: the binary point-wise classes -/

namespace Rtamt.Py.DnOn
open Rtamt Val Rtamt.Dense Rtamt.Dense.Alg Rtamt.Dense.AlgOn GOnBin

set_option linter.unusedSectionVars false
set_option linter.unusedVariables false
set_option linter.unusedSimpArgs false

variable {α : Type} [Val α]

/-- (1) construction: `Cls()` is in the initial state (ten classes; `MultiplicationOperation`: `gen_mul_init`) -/
theorem gen_bin_init (fuel k : Nat) (cls : String) (hcls : InitClass cls) :
    ∃ o : DV α, callAt Gen.DenseOn.fns fuel (k + 1) (cls ++ ".__init__") [.obj cls []] = .ok (.list [o, .none]) ∧
      BinRel cls {} o := by
  obtain ⟨fn, hlook, hmeth, hpar, hbody⟩ := hcls
  rw [callAt_fn _ _ _ _ fn _ hlook]
  rcases hbody with hbody | hbody
  · have hx : exec (callAt (α := α) Gen.DenseOn.fns fuel k) fuel fn.body ([] ++ (fn.params.drop 1).zip []) =
        .ok ([("self.sample_left_buf", .list []), ("self.sample_right_buf", .list []), ("self.last_output", .list [])],
          .none) := by
      rw [hbody, hpar]; simp [init3, exec, evalE, setLoc]
    exact ⟨_, runFn_method_none _ fuel fn hmeth cls [] [] (by rw [hpar]; rfl) _ hx,
      binRel_of_env cls {} _ (by simp [encSig]) (by simp [encSig]) (by simp [encOptSmp])⟩
  · have hx : exec (callAt (α := α) Gen.DenseOn.fns fuel k) fuel fn.body ([] ++ (fn.params.drop 1).zip []) =
        .ok ([("self.sample_left_buf", .list []), ("self.sample_right_buf", .list []), ("self.sample_last_buf", .list []),
          ("self.last_output", .list [])], .none) := by
      rw [hbody, hpar]; simp [init4, exec, evalE, setLoc]
    exact ⟨_, runFn_method_none _ fuel fn hmeth cls [] [] (by rw [hpar]; rfl) _ hx,
      binRel_of_env cls {} _ (by simp [encSig]) (by simp [encSig]) (by simp [encOptSmp])⟩

/-- (1) for `MultiplicationOperation`: its `__init__` does not set `self.last_output` -/
theorem gen_mul_init (fuel k : Nat) :
    ∃ o : DV α, callAt Gen.DenseOn.fns fuel (k + 1) "MultiplicationOperation.__init__"
        [.obj "MultiplicationOperation" []] = .ok (.list [o, .none]) ∧
      BinRelNL "MultiplicationOperation" {} o := by
  rw [callAt_fn _ _ _ _ Gen.DenseOn.MultiplicationOperation_init _ rfl]
  have hx : exec (callAt (α := α) Gen.DenseOn.fns fuel k) fuel Gen.DenseOn.MultiplicationOperation_init.body
      ([] ++ (Gen.DenseOn.MultiplicationOperation_init.params.drop 1).zip []) =
      .ok ([("self.sample_left_buf", .list []), ("self.sample_right_buf", .list [])], .none) := by
    rw [Multiplication_init_body]; simp [init2, exec, evalE, setLoc, Gen.DenseOn.MultiplicationOperation_init]
  refine ⟨_, runFn_method_none _ fuel _ rfl "MultiplicationOperation" [] [] rfl _ hx, _, rfl, ?_, ?_, selfKeys_filter _⟩
  · rw [lookup_filter_self _ _ (by simp [isSelfKey])]; rfl
  · rw [lookup_filter_self _ _ (by simp [isSelfKey])]; rfl

/-- (2), complete form: `Cls.update` of the ten classes with the common body: values and exceptions -/
theorem gen_bin_update_full (fuel k : Nat) (cls m : String) (hcls : BinClass cls m) (f : α → α → α)
    (hI : InterOnSpec α fuel k)
    (hm : ∀ a b, callAt Gen.DenseOn.fns fuel (k + 1) m [.val a, .val b] = .ok (.val (f a b)))
    (st : BinSt α) (o : DV α) (hrel : BinRel cls st o) (sl sr : ASig α) (hfuel : binFuel st sl sr ≤ fuel) :
    match binUpdate f st sl sr with
    | .ok (st', out) =>
        ∃ o', callAt Gen.DenseOn.fns fuel (k + 3) (cls ++ ".update") [o, encSig sl, encSig sr] =
            .ok (.list [o', encSig out]) ∧ BinRel cls st' o'
    | .error e =>
        callAt Gen.DenseOn.fns fuel (k + 3) (cls ++ ".update") [o, encSig sl, encSig sr] = .error e := by
  obtain ⟨fn, fin, hlook, hmeth, hpar, hbody, hfin⟩ := hcls
  obtain ⟨store, rfl, s1, s2, s3, hk⟩ := hrel
  rw [callAt_fn _ _ _ _ fn _ hlook]
  obtain ⟨e1, e2, e3, _⟩ := env0_facts store hk (encSig sl) (encSig sr)
  have hs := binBodyF_spec fuel k hI m f hm fin hfin
    (store ++ [("sample_left", encSig sl), ("sample_right", encSig sr)]) st sl sr
    (getLoc_append_left s1) (getLoc_append_left s2) e1 e2 (getLoc_append_left s3) e3
    (by unfold binFuel at hfuel; exact hfuel)
  have henv : store ++ (fn.params.drop 1).zip [encSig sl, encSig sr] =
      store ++ [("sample_left", encSig sl), ("sample_right", encSig sr)] := by rw [hpar]; rfl
  revert hs
  cases hb : binUpdate f st sl sr with
  | error e =>
      intro hs
      exact runFn_method_err _ fuel fn hmeth cls store _ (by rw [hpar]; rfl) e (by rw [henv, hbody]; exact hs)
  | ok r =>
      obtain ⟨st', out⟩ := r
      rintro ⟨env', hx, g1, g2, g3⟩
      exact ⟨_, runFn_method_ret _ fuel fn hmeth cls store _ (by rw [hpar]; rfl) env' _ (by rw [henv, hbody]; exact hx),
        binRel_of_env cls st' env' g1 g2 g3⟩

/-- (2) `Cls.update` of the ten classes with the common body -/
theorem gen_bin_update (fuel k : Nat) (cls m : String) (hcls : BinClass cls m) (f : α → α → α)
    (hI : InterOnSpec α fuel k)
    (hm : ∀ a b, callAt Gen.DenseOn.fns fuel (k + 1) m [.val a, .val b] = .ok (.val (f a b)))
    (st : BinSt α) (o : DV α) (hrel : BinRel cls st o) (sl sr : ASig α) (hfuel : binFuel st sl sr ≤ fuel) :
    match binUpdate f st sl sr with
    | .ok (st', out) =>
        ∃ o', callAt Gen.DenseOn.fns fuel (k + 3) (cls ++ ".update") [o, encSig sl, encSig sr] =
            .ok (.list [o', encSig out]) ∧ BinRel cls st' o'
    | .error e =>
        callAt Gen.DenseOn.fns fuel (k + 3) (cls ++ ".update") [o, encSig sl, encSig sr] = .error e :=
  gen_bin_update_full fuel k cls m hcls f hI hm st o hrel sl sr hfuel

/-- (2), complete form, for `MultiplicationOperation.update` (`self.last_output = []` at every call) against
    `binUpdateNL` -/
theorem gen_mul_update_full (fuel k : Nat) (f : α → α → α) (hI : InterOnSpec α fuel k)
    (hm : ∀ a b, callAt Gen.DenseOn.fns fuel (k + 1) "multiplication" [.val a, .val b] = .ok (.val (f a b)))
    (st : BinSt α) (o : DV α) (hrel : BinRelNL "MultiplicationOperation" st o) (sl sr : ASig α)
    (hfuel : binFuel st sl sr ≤ fuel) :
    match binUpdateNL f st sl sr with
    | .ok (st', out) =>
        ∃ o', callAt Gen.DenseOn.fns fuel (k + 3) "MultiplicationOperation.update" [o, encSig sl, encSig sr] =
            .ok (.list [o', encSig out]) ∧ BinRel "MultiplicationOperation" st' o'
    | .error e =>
        callAt Gen.DenseOn.fns fuel (k + 3) "MultiplicationOperation.update" [o, encSig sl, encSig sr] = .error e := by
  obtain ⟨store, rfl, s1, s2, hk⟩ := hrel
  rw [callAt_fn _ _ _ _ Gen.DenseOn.MultiplicationOperation_update _ rfl]
  obtain ⟨e1, e2, e3, _⟩ := env0_facts store hk (encSig sl) (encSig sr)
  have hs := mulBody_spec fuel k hI f hm
    (store ++ [("sample_left", encSig sl), ("sample_right", encSig sr)]) st sl sr
    (getLoc_append_left s1) (getLoc_append_left s2) e1 e2 e3
    (by unfold binFuel at hfuel; exact hfuel)
  revert hs
  cases hb : binUpdateNL f st sl sr with
  | error e =>
      intro hs
      exact runFn_method_err _ fuel _ rfl _ store _ rfl e hs
  | ok r =>
      obtain ⟨st', out⟩ := r
      rintro ⟨env', hx, g1, g2, g3⟩
      exact ⟨_, runFn_method_ret _ fuel _ rfl _ store _ rfl env' _ hx, binRel_of_env _ st' env' g1 g2 g3⟩

/-- (2) `MultiplicationOperation.update` against `binUpdateNL` -/
theorem gen_mul_update (fuel k : Nat) (f : α → α → α) (hI : InterOnSpec α fuel k)
    (hm : ∀ a b, callAt Gen.DenseOn.fns fuel (k + 1) "multiplication" [.val a, .val b] = .ok (.val (f a b)))
    (st : BinSt α) (o : DV α) (hrel : BinRelNL "MultiplicationOperation" st o) (sl sr : ASig α)
    (hfuel : binFuel st sl sr ≤ fuel) :
    match binUpdateNL f st sl sr with
    | .ok (st', out) =>
        ∃ o', callAt Gen.DenseOn.fns fuel (k + 3) "MultiplicationOperation.update" [o, encSig sl, encSig sr] =
            .ok (.list [o', encSig out]) ∧ BinRel "MultiplicationOperation" st' o'
    | .error e =>
        callAt Gen.DenseOn.fns fuel (k + 3) "MultiplicationOperation.update" [o, encSig sl, encSig sr] = .error e :=
  gen_mul_update_full fuel k f hI hm st o hrel sl sr hfuel

/-- the same through `updateObj` (`RunDnOn.lean`; call depth `depth = 7`), which decodes the returned list -/
theorem gen_bin_updateObj (fuel : Nat) (cls m : String) (hcls : BinClass cls m) (f : α → α → α)
    (hI : InterOnSpec α fuel 4)
    (hm : ∀ a b, callAt Gen.DenseOn.fns fuel 5 m [.val a, .val b] = .ok (.val (f a b)))
    (st : BinSt α) (o : DV α) (hrel : BinRel cls st o) (sl sr : ASig α) (hfuel : binFuel st sl sr ≤ fuel) :
    match binUpdate f st sl sr with
    | .ok (st', out) => ∃ o', updateObj fuel o [sl, sr] = .ok (o', out) ∧ BinRel cls st' o'
    | .error e => updateObj fuel o [sl, sr] = .error e := by
  have h := gen_bin_update_full fuel 4 cls m hcls f hI hm st o hrel sl sr hfuel
  obtain ⟨store, rfl, -⟩ := hrel
  have hd : (depth : Nat) = 4 + 3 := rfl
  revert h
  cases hb : binUpdate f st sl sr with
  | error e =>
      intro h
      simp [updateObj, hd, h]
  | ok r =>
      obtain ⟨st', out⟩ := r
      rintro ⟨o', h, hr⟩
      exact ⟨o', by simp [updateObj, hd, h], hr⟩

theorem gen_mul_updateObj (fuel : Nat) (f : α → α → α) (hI : InterOnSpec α fuel 4)
    (hm : ∀ a b, callAt Gen.DenseOn.fns fuel 5 "multiplication" [.val a, .val b] = .ok (.val (f a b)))
    (st : BinSt α) (o : DV α) (hrel : BinRelNL "MultiplicationOperation" st o) (sl sr : ASig α)
    (hfuel : binFuel st sl sr ≤ fuel) :
    match binUpdateNL f st sl sr with
    | .ok (st', out) => ∃ o', updateObj fuel o [sl, sr] = .ok (o', out) ∧ BinRel "MultiplicationOperation" st' o'
    | .error e => updateObj fuel o [sl, sr] = .error e := by
  have h := gen_mul_update_full fuel 4 f hI hm st o hrel sl sr hfuel
  obtain ⟨store, rfl, -⟩ := hrel
  have hd : (depth : Nat) = 4 + 3 := rfl
  have hn : ("MultiplicationOperation" ++ ".update" : String) = "MultiplicationOperation.update" := rfl
  revert h
  cases hb : binUpdateNL f st sl sr with
  | error e =>
      intro h
      simp only [updateObj, hd, hn, List.map_cons, List.map_nil, h]; rfl
  | ok r =>
      obtain ⟨st', out⟩ := r
      rintro ⟨o', h, hr⟩
      refine ⟨o', ?_, hr⟩
      simp only [updateObj, hd, hn, List.map_cons, List.map_nil, h]; simp

/-! ## main theorems: `PredicateOperation` -/

/-- (3) `PredicateOperation(c)`: the nested `SubtractionOperation()` is in the initial state -/
theorem gen_pred_init (fuel k : Nat) (c : Cmp) :
    ∃ o : DV α, callAt Gen.DenseOn.fns fuel (k + 2) "PredicateOperation.__init__"
        [.obj "PredicateOperation" [], .cmp c] = .ok (.list [o, .none]) ∧ PredRel c {} o := by
  obtain ⟨sub, hsub, hrel⟩ := gen_bin_init (α := α) fuel k "SubtractionOperation" initClass_Subtraction
  rw [callAt_fn _ _ _ _ Gen.DenseOn.PredicateOperation_init _ rfl]
  have hx : exec (callAt (α := α) Gen.DenseOn.fns fuel (k + 1)) fuel Gen.DenseOn.PredicateOperation_init.body
      ([] ++ (Gen.DenseOn.PredicateOperation_init.params.drop 1).zip [DV.cmp c]) =
      .ok (setLoc "self.subtraction_output" (.list []) (setLoc "self.comparison_op" (.cmp c)
        (setLoc "self.sub" sub [("comparison_op", .cmp c)])), .none) := by
    rw [Pred_init_body]
    show exec _ fuel predInit [("comparison_op", .cmp c)] = _
    unfold predInit
    rw [exec_seq_ok _ fuel (exec_new0_ok _ fuel "self.sub" "SubtractionOperation" _ sub .none hsub)]
    simp [exec, evalE]
  refine ⟨_, runFn_method_none _ fuel _ rfl "PredicateOperation" [] [.cmp c] rfl _ hx, _, sub, rfl, ?_, hrel, ?_,
    ⟨[], ?_⟩, selfKeys_filter _⟩
  · rw [lookup_filter_self _ _ (by simp [isSelfKey])]; exact getLoc_ok_iff.mp (by simp)
  · rw [lookup_filter_self _ _ (by simp [isSelfKey])]; exact getLoc_ok_iff.mp (by simp)
  · rw [lookup_filter_self _ _ (by simp [isSelfKey])]; exact getLoc_ok_iff.mp (by simp [encSig])

/-- (3) `PredicateOperation.update`: the `.pred c` clause of `stepOn` (`binUpdate` with the subtraction, then the value
    the comparison derives from the difference); after the call `self.subtraction_output` holds the difference signal -/
theorem gen_pred_update (fuel k : Nat) (c : Cmp) (hI : InterOnSpec α fuel k)
    (hm : ∀ a b, callAt Gen.DenseOn.fns fuel (k + 1) "subtraction" [.val a, .val b] = .ok (.val (Val.sub a b) : DV α))
    (st : BinSt α) (o : DV α) (hrel : PredRel c st o) (sl sr : ASig α) (hfuel : binFuel st sl sr ≤ fuel) :
    match binUpdate (fun a b => Val.sub a b) st sl sr with
    | .ok (st', d) =>
        ∃ o', callAt Gen.DenseOn.fns fuel (k + 4) "PredicateOperation.update" [o, encSig sl, encSig sr] =
            .ok (.list [o', encSig (d.map (fun p => (p.1, cmpOfDiff c p.2)))]) ∧ PredRel c st' o' ∧
          ∃ store', o' = .obj "PredicateOperation" store' ∧ store'.lookup "self.subtraction_output" = some (encSig d)
    | .error e =>
        callAt Gen.DenseOn.fns fuel (k + 4) "PredicateOperation.update" [o, encSig sl, encSig sr] = .error e := by
  obtain ⟨store, sub, rfl, hsub, hrelsub, hcmp, ⟨d0, hd0⟩, hk⟩ := hrel
  have hupd := gen_bin_update_full fuel k "SubtractionOperation" "subtraction" binClass_Subtraction
    (fun a b => Val.sub a b) hI hm st sub hrelsub sl sr hfuel
  obtain ⟨substore, rfl, -⟩ := hrelsub
  rw [callAt_fn _ _ _ _ Gen.DenseOn.PredicateOperation_update _ rfl]
  obtain ⟨e1, e2, _, e4⟩ := env0_facts store hk (encSig sl) (encSig sr)
  have hname : ("SubtractionOperation" ++ "." ++ "update" : String) = "SubtractionOperation" ++ ".update" := rfl
  have hx1 : exec (callAt (α := α) Gen.DenseOn.fns fuel (k + 3)) fuel (.setLoc "sample_result" .emptyList)
      (store ++ [("sample_left", encSig sl), ("sample_right", encSig sr)]) =
      .ok (setLoc "sample_result" (.list []) (store ++ [("sample_left", encSig sl), ("sample_right", encSig sr)]), .none) :=
    exec_setLoc _ fuel (by simp [evalE])
  generalize henv1 : setLoc "sample_result" (DV.list [])
    (store ++ [("sample_left", encSig sl), ("sample_right", encSig sr)]) = env1 at hx1
  have g1 : ∀ k', k' ≠ "sample_result" →
      getLoc k' env1 = getLoc k' (store ++ [("sample_left", encSig sl), ("sample_right", encSig sr)]) := by
    intro k' hk'; rw [← henv1]; exact getLoc_setLoc_ne _ _ _ _ hk'
  have sl1 : evalE (callAt (α := α) Gen.DenseOn.fns fuel (k + 3)) env1 (.loc "sample_left") = .ok (encSig sl) := by
    rw [evalE, g1 _ (by decide)]; exact e1
  have sr1 : evalE (callAt (α := α) Gen.DenseOn.fns fuel (k + 3)) env1 (.loc "sample_right") = .ok (encSig sr) := by
    rw [evalE, g1 _ (by decide)]; exact e2
  have sub1 : getLoc "self.sub" env1 = .ok (.obj "SubtractionOperation" substore) := by
    rw [g1 _ (by decide)]; exact getLoc_append_left hsub
  revert hupd
  cases hb : binUpdate (fun a b => Val.sub a b) st sl sr with
  | error e =>
      intro hcall
      have hx2 := exec_mcall2_err (callAt (α := α) Gen.DenseOn.fns fuel (k + 3)) fuel "input_list" "self.sub" "update"
        _ _ env1 _ _ "SubtractionOperation" substore e sl1 sr1 sub1 (by rw [hname]; exact hcall)
      refine runFn_method_err _ fuel _ rfl _ store _ rfl e ?_
      rw [Pred_body]
      show exec _ fuel predBody (store ++ [("sample_left", encSig sl), ("sample_right", encSig sr)]) = _
      unfold predBody
      rw [exec_seq_ok _ fuel hx1, exec_seq_err _ fuel hx2]
  | ok r =>
      obtain ⟨st', d⟩ := r
      rintro ⟨sub', hcall, hrel'⟩
      have hx2 := exec_mcall2_ok (callAt (α := α) Gen.DenseOn.fns fuel (k + 3)) fuel "input_list" "self.sub" "update"
        _ _ env1 _ _ "SubtractionOperation" substore sub' (encSig d) sl1 sr1 sub1 (by rw [hname]; exact hcall)
      have hx3 : exec (callAt (α := α) Gen.DenseOn.fns fuel (k + 3)) fuel
          (.setLoc "self.subtraction_output" (.loc "input_list"))
          (setLoc "input_list" (encSig d) (setLoc "self.sub" sub' env1)) =
          .ok (setLoc "self.subtraction_output" (encSig d)
            (setLoc "input_list" (encSig d) (setLoc "self.sub" sub' env1)), .none) :=
        exec_setLoc _ fuel (by simp [evalE])
      have hx4 : exec (callAt (α := α) Gen.DenseOn.fns fuel (k + 3)) fuel (.setLoc "prev" .nan)
          (setLoc "self.subtraction_output" (encSig d) (setLoc "input_list" (encSig d) (setLoc "self.sub" sub' env1))) =
          .ok (setLoc "prev" .nan (setLoc "self.subtraction_output" (encSig d)
            (setLoc "input_list" (encSig d) (setLoc "self.sub" sub' env1))), .none) :=
        exec_setLoc _ fuel (by simp [evalE])
      generalize henv4 : setLoc "prev" DV.nan (setLoc "self.subtraction_output" (encSig d)
        (setLoc "input_list" (encSig d) (setLoc "self.sub" sub' env1))) = env4 at hx4
      have cmp4 : getLoc "self.comparison_op" env4 = .ok (.cmp c) := by
        rw [← henv4]; simp; rw [g1 _ (by decide)]; exact getLoc_append_left hcmp
      have res4 : getLoc "sample_result" env4 = .ok (encSig ([] : ASig α)) := by
        rw [← henv4, ← henv1]; simp [encSig]
      have abs4 : getLoc "abs" env4 = .error .key := by
        rw [← henv4]; simp; rw [g1 _ (by decide)]; exact e4
      have il4 : evalE (callAt (α := α) Gen.DenseOn.fns fuel (k + 3)) env4 (.loc "input_list") =
          .ok (.list (d.map encSmp)) := by
        rw [evalE, ← henv4]; simp [encSig]
      have sub4 : getLoc "self.sub" env4 = .ok sub' := by rw [← henv4]; simp
      have so4 : getLoc "self.subtraction_output" env4 = .ok (encSig d) := by rw [← henv4]; simp
      obtain ⟨env5, hx5, r5, f5⟩ := predLoop_spec (callAt (α := α) Gen.DenseOn.fns fuel (k + 3)) fuel
        (call_abs fuel (k + 3)) c d env4 [] cmp4 res4 abs4
      have hx5' := exec_forIn_list (callAt (α := α) Gen.DenseOn.fns fuel (k + 3)) fuel "i" (.loc "input_list")
        predLoopBody env4 _ il4
      rw [hx5] at hx5'
      have hx : exec (callAt (α := α) Gen.DenseOn.fns fuel (k + 3)) fuel Gen.DenseOn.PredicateOperation_update.body
          (store ++ (Gen.DenseOn.PredicateOperation_update.params.drop 1).zip [encSig sl, encSig sr]) =
          .ok (env5, .ret (encSig (d.map (fun p => (p.1, cmpOfDiff c p.2))))) := by
        rw [Pred_body]
        show exec _ fuel predBody (store ++ [("sample_left", encSig sl), ("sample_right", encSig sr)]) = _
        unfold predBody predRest
        rw [exec_seq_ok _ fuel hx1, exec_seq_ok _ fuel hx2, exec_seq_ok _ fuel hx3, exec_seq_ok _ fuel hx4,
          exec_seq_ok _ fuel hx5']
        simp [exec, evalE, r5]
      have hso : (env5.filter (fun p => isSelfKey p.1)).lookup "self.subtraction_output" = some (encSig d) := by
        rw [lookup_filter_self _ _ (by simp [isSelfKey])]
        exact getLoc_ok_iff.mp (by rw [f5 _ (by simp)]; exact so4)
      refine ⟨_, runFn_method_ret _ fuel _ rfl _ store _ rfl env5 _ hx,
        ⟨_, sub', rfl, ?_, hrel', ?_, ⟨d, hso⟩, selfKeys_filter _⟩, _, rfl, hso⟩
      · rw [lookup_filter_self _ _ (by simp [isSelfKey])]
        exact getLoc_ok_iff.mp (by rw [f5 _ (by simp)]; exact sub4)
      · rw [lookup_filter_self _ _ (by simp [isSelfKey])]
        exact getLoc_ok_iff.mp (by rw [f5 _ (by simp)]; exact cmp4)

/-- the same through `updateObj` (call depth `depth = 7`) -/
theorem gen_pred_updateObj (fuel : Nat) (c : Cmp) (hI : InterOnSpec α fuel 3)
    (hm : ∀ a b, callAt Gen.DenseOn.fns fuel 4 "subtraction" [.val a, .val b] = .ok (.val (Val.sub a b) : DV α))
    (st : BinSt α) (o : DV α) (hrel : PredRel c st o) (sl sr : ASig α) (hfuel : binFuel st sl sr ≤ fuel) :
    match binUpdate (fun a b => Val.sub a b) st sl sr with
    | .ok (st', d) =>
        ∃ o', updateObj fuel o [sl, sr] = .ok (o', d.map (fun p => (p.1, cmpOfDiff c p.2))) ∧ PredRel c st' o'
    | .error e => updateObj fuel o [sl, sr] = .error e := by
  have h := gen_pred_update fuel 3 c hI hm st o hrel sl sr hfuel
  obtain ⟨store, sub, rfl, -⟩ := hrel
  have hd : (depth : Nat) = 3 + 4 := rfl
  have hn : ("PredicateOperation" ++ ".update" : String) = "PredicateOperation.update" := rfl
  revert h
  cases hb : binUpdate (fun a b => Val.sub a b) st sl sr with
  | error e =>
      intro h
      simp only [updateObj, hd, hn, List.map_cons, List.map_nil, h]; rfl
  | ok r =>
      obtain ⟨st', d⟩ := r
      rintro ⟨o', h, hr, -⟩
      refine ⟨o', ?_, hr⟩
      simp only [updateObj, hd, hn, List.map_cons, List.map_nil, h]; simp

/-! ## the operators of the formula: which class, which method (`build`, `updateObj` of `RunDnOn.lean`) -/

namespace GOnBin

/-- the binary operators whose class has the common `update` body and hands `op.app` to `intersection` -/
def plainBin : Bin → Bool
  | .add | .sub | .div | .pow | .log | .and | .or | .implies | .iff | .xor => true
  | _ => false

def binCls : Bin → String
  | .add => "AdditionOperation" | .sub => "SubtractionOperation" | .mul => "MultiplicationOperation"
  | .div => "DivisionOperation" | .pow => "PowOperation" | .log => "LogOperation"
  | .and => "AndOperation" | .or => "OrOperation" | .implies => "ImpliesOperation" | .iff => "IffOperation"
  | .xor => "XorOperation" | _ => "PredicateOperation"

def binMeth : Bin → String
  | .add => "addition" | .sub => "subtraction" | .mul => "multiplication"
  | .div => "division" | .pow => "power" | .log => "log"
  | .and => "conjunction" | .or => "disjunction" | .implies => "implication" | .iff => "iff"
  | .xor => "xor" | _ => ""

theorem plainBin_spec (op : Bin) (h : plainBin op = true) :
    BinClass (binCls op) (binMeth op) ∧ InitClass (binCls op) ∧
    (∀ (α : Type) [Val α] (fuel k : Nat) (a b : α),
      callAt Gen.DenseOn.fns fuel (k + 1) (binMeth op) [.val a, .val b] = .ok (.val (op.app a b) : DV α)) ∧
    ctorOf op.kind = some (.builds (binCls op) []) := by
  cases op <;> simp [plainBin] at h
  · exact ⟨binClass_Addition, initClass_Addition, fun α _ fuel k a b => meth_addition fuel k a b, rfl⟩
  · exact ⟨binClass_Subtraction, initClass_Subtraction, fun α _ fuel k a b => meth_subtraction fuel k a b, rfl⟩
  · exact ⟨binClass_Division, initClass_Division, fun α _ fuel k a b => meth_division fuel k a b, rfl⟩
  · exact ⟨binClass_Pow, initClass_Pow, fun α _ fuel k a b => meth_power fuel k a b, rfl⟩
  · exact ⟨binClass_Log, initClass_Log, fun α _ fuel k a b => meth_log fuel k a b, rfl⟩
  · exact ⟨binClass_And, initClass_And, fun α _ fuel k a b => meth_conjunction fuel k a b, rfl⟩
  · exact ⟨binClass_Or, initClass_Or, fun α _ fuel k a b => meth_disjunction fuel k a b, rfl⟩
  · exact ⟨binClass_Implies, initClass_Implies, fun α _ fuel k a b => meth_implication fuel k a b, rfl⟩
  · exact ⟨binClass_Iff, initClass_Iff, fun α _ fuel k a b => meth_iff fuel k a b, rfl⟩
  · exact ⟨binClass_Xor, initClass_Xor, fun α _ fuel k a b => meth_xor fuel k a b, rfl⟩

end GOnBin

/-- the construction visitor on a node `.bin op` of the ten plain operators -/
theorem gen_binop_build (fuel : Nat) (op : Bin) (h : plainBin op = true) :
    ∃ o : DV α, build fuel op.kind none none = .ok o ∧ BinRel (binCls op) {} o := by
  obtain ⟨_, hinit, _, hctor⟩ := plainBin_spec op h
  obtain ⟨o, ho, hrel⟩ := gen_bin_init (α := α) fuel 6 (binCls op) hinit
  refine ⟨o, ?_, hrel⟩
  have hd : (depth : Nat) = 6 + 1 := rfl
  simp [build, hctor, construct, hd, ho]

/-- one `update` of the object of a node `.bin op` of the ten plain operators: the clause of `stepOn` -/
theorem gen_binop_updateObj (fuel : Nat) (op : Bin) (h : plainBin op = true) (hI : InterOnSpec α fuel 4)
    (st : BinSt α) (o : DV α) (hrel : BinRel (binCls op) st o) (sl sr : ASig α) (hfuel : binFuel st sl sr ≤ fuel) :
    match binUpdate op.app st sl sr with
    | .ok (st', out) => ∃ o', updateObj fuel o [sl, sr] = .ok (o', out) ∧ BinRel (binCls op) st' o'
    | .error e => updateObj fuel o [sl, sr] = .error e := by
  obtain ⟨hcls, _, hm, _⟩ := plainBin_spec op h
  exact gen_bin_updateObj fuel (binCls op) (binMeth op) hcls op.app hI (fun a b => hm α fuel 4 a b) st o hrel sl sr hfuel

theorem gen_mul_build (fuel : Nat) :
    ∃ o : DV α, build fuel Bin.mul.kind none none = .ok o ∧ BinRelNL "MultiplicationOperation" {} o := by
  obtain ⟨o, ho, hrel⟩ := gen_mul_init (α := α) fuel 6
  refine ⟨o, ?_, hrel⟩
  have hd : (depth : Nat) = 6 + 1 := rfl
  have hc : ctorOf Bin.mul.kind = some (.builds "MultiplicationOperation" []) := rfl
  have hn : ("MultiplicationOperation" ++ ".__init__" : String) = "MultiplicationOperation.__init__" := rfl
  simp only [build, hc, List.mapM_nil, pure_eq_ok, ok_bind, construct, hd, hn, ho]

theorem gen_mulop_updateObj (fuel : Nat) (hI : InterOnSpec α fuel 4)
    (st : BinSt α) (o : DV α) (hrel : BinRelNL "MultiplicationOperation" st o) (sl sr : ASig α)
    (hfuel : binFuel st sl sr ≤ fuel) :
    match binUpdateNL Bin.mul.app st sl sr with
    | .ok (st', out) => ∃ o', updateObj fuel o [sl, sr] = .ok (o', out) ∧ BinRel "MultiplicationOperation" st' o'
    | .error e => updateObj fuel o [sl, sr] = .error e :=
  gen_mul_updateObj fuel Bin.mul.app hI (fun a b => meth_multiplication fuel 4 a b) st o hrel sl sr hfuel

theorem gen_pred_build (fuel : Nat) (c : Cmp) :
    ∃ o : DV α, build fuel (Bin.pred c).kind (some c) none = .ok o ∧ PredRel c {} o := by
  obtain ⟨o, ho, hrel⟩ := gen_pred_init (α := α) fuel 5 c
  refine ⟨o, ?_, hrel⟩
  have hd : (depth : Nat) = 5 + 2 := rfl
  have hc : ctorOf (Bin.pred c).kind = some (.builds "PredicateOperation" [.operator]) := rfl
  have hn : ("PredicateOperation" ++ ".__init__" : String) = "PredicateOperation.__init__" := rfl
  simp only [build, hc, List.mapM_cons, List.mapM_nil, pure_eq_ok, ok_bind, construct, hd, hn, ho]

theorem gen_predop_updateObj (fuel : Nat) (c : Cmp) (hI : InterOnSpec α fuel 3)
    (st : BinSt α) (o : DV α) (hrel : PredRel c st o) (sl sr : ASig α) (hfuel : binFuel st sl sr ≤ fuel) :
    match binUpdate (fun a b => Val.sub a b) st sl sr with
    | .ok (st', d) =>
        ∃ o', updateObj fuel o [sl, sr] = .ok (o', d.map (fun p => (p.1, cmpOfDiff c p.2))) ∧ PredRel c st' o'
    | .error e => updateObj fuel o [sl, sr] = .error e :=
  gen_pred_updateObj fuel c hI (fun a b => meth_subtraction fuel 3 a b) st o hrel sl sr hfuel

end Rtamt.Py.DnOn
