/-
  Symbolic execution of the method shapes of the translated pastifier (`GeneratedPast.lean`).
-/
import Rtamt.Py.RunPast
import RtamtProofs.GenOps

namespace Rtamt.Py
open Rtamt Val

variable {α : Type}

theorem pos_sub_iff (R : Int) (H : Nat) : (0 < R - (H : Int)) ↔ (0 < R.toNat - H) := by omega
theorem toNat_sub_nat (R : Int) (H : Nat) : (R - (H : Int)).toNat = R.toNat - H := by omega

def bodyDelay1 (cls : String) : PS :=
  (.seq (.setLoc "node_horizon" (.loc "$node_horizon")) (.seq (.setLoc "remaining_horizon" (.loc "$horizon")) (.seq (.setLoc "horizon" (.sub (.loc "remaining_horizon") (.loc "node_horizon"))) (.seq (.setLoc "child_node" (.visit 0 (.loc "node_horizon"))) (.seq (.setLoc "node" (.mk1 cls (.loc "child_node"))) (.ite (.gt (.loc "horizon") (.int 0)) (.setLoc "node" (.mk2 "TimedOnce" (.loc "node") (.interval (.loc "horizon") (.loc "horizon")))) .skip))))))

theorem call_delay1 (rec : Nat → Int → Except PyErr (F α)) (m : PMethod) (cls : String) (R : Int) (H : Nat)
    (c n : F α) (hbody : m.body = bodyDelay1 cls) (hret : m.ret = some (.loc "node"))
    (hrec : rec 0 (H : Int) = .ok c) (hmk : mkNode1 cls c = some n) :
    callPast rec m [("$horizon", .int R), ("$node_horizon", .int H)] = .ok (delay (R.toNat - H) n) := by
  simp only [callPast, hbody, hret, bodyDelay1]
  simp [execPS, evalPE, setKey, getKey, List.lookup, bind, Except.bind, pure, Except.pure, hrec, hmk, ofOpt]
  by_cases h : (H : Int) < R
  · have h1 : ¬ (R - (H : Int) < 0) := by omega
    have h2 : 0 < R.toNat - H := by omega
    simp [h, h1, h2, mkNodeT1, delay, List.lookup]
  · have h2 : ¬ (0 < R.toNat - H) := by omega
    simp [h, h2, delay, List.lookup]

end Rtamt.Py
