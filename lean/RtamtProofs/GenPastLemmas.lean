/-
  Symbolic execution of the method shapes of the translated pastifier (`Rtamt/Py/GeneratedPast.lean`):
  one lemma per shape of body, used by `RtamtProofs/GenPast.lean`.
-/
import Rtamt.Py.RunPast
import RtamtProofs.GenOps

namespace Rtamt.Py
open Rtamt Val

variable {α : Type}

/-- The horizon visitor is defined exactly on the formulas without unbounded future operator, with value `hor`. -/
theorem hor?_eq (φ : F α) : hor? φ = if φ.bounded then some (hor φ) else none := by
  induction φ with
  | var x => rfl
  | const c => rfl
  | un op φ ih => cases h1 : φ.bounded <;> simp [hor?, hor, F.bounded, ih, h1]
  | bin op φ ψ ih1 ih2 =>
    cases h1 : φ.bounded <;> cases h2 : ψ.bounded <;> simp [hor?, hor, F.bounded, ih1, ih2, h1, h2]
  | tmp1 op φ ih =>
    cases h1 : φ.bounded <;> cases op <;> simp [hor?, hor, F.bounded, ih, h1]
  | tmp2 op φ ψ ih1 ih2 =>
    cases h1 : φ.bounded <;> cases h2 : ψ.bounded <;> cases op <;> simp [hor?, hor, F.bounded, ih1, ih2, h1, h2]
  | tb1 op a b φ ih =>
    cases h1 : φ.bounded <;> cases op <;> simp [hor?, hor, F.bounded, ih, h1]
  | tb2 op a b φ ψ ih1 ih2 =>
    cases h1 : φ.bounded <;> cases h2 : ψ.bounded <;> cases op <;> simp [hor?, hor, F.bounded, ih1, ih2, h1, h2]

/-- Symbolic execution of a loop-free body on a concrete store. -/
macro "past_exec" "[" ls:Lean.Parser.Tactic.simpLemma,* "]" : tactic =>
  `(tactic| simp [execPS, evalPE, setKey, getKey, List.lookup, bind, Except.bind, pure, Except.pure, ofOpt,
      mkNodeT1, mkNodeT2, natCast_lt_zero, $ls,*])

/-- the tail `if horizon > 0: node = TimedOnce(node, Interval(horizon, horizon))` against `delay`. -/
macro "past_delay" R:ident H:ident : tactic =>
  `(tactic| (
      by_cases h : ($H : Int) < $R
      · have h1 : ¬ ($R - ($H : Int) < 0) := by omega
        have h2 : 0 < Int.toNat $R - $H := by omega
        simp [h, h1, h2, mkNodeT1, delay, List.lookup]
      · have h2 : ¬ (0 < Int.toNat $R - $H) := by omega
        simp [h, h2, delay, List.lookup]))

/-! ### `visitAbs` … `visitHistorically`: one child, `Cls(child)`, delayed -/

def bodyDelay1 (cls : String) : PS :=
  (.seq (.setLoc "node_horizon" (.loc "$node_horizon")) (.seq (.setLoc "remaining_horizon" (.loc "$horizon")) (.seq (.setLoc "horizon" (.sub (.loc "remaining_horizon") (.loc "node_horizon"))) (.seq (.setLoc "child_node" (.visit 0 (.loc "node_horizon"))) (.seq (.setLoc "node" (.mk1 cls (.loc "child_node"))) (.ite (.gt (.loc "horizon") (.int 0)) (.setLoc "node" (.mk2 "TimedOnce" (.loc "node") (.interval (.loc "horizon") (.loc "horizon")))) .skip))))))

theorem call_delay1 (rec : Nat → Int → Except PyErr (F α)) (m : PMethod) (cls : String) (c n : F α) (R : Int) (H : Nat)
    (hbody : m.body = bodyDelay1 cls) (hret : m.ret = some (.loc "node"))
    (hrec : rec 0 (H : Int) = .ok c) (hmk : mkNode1 cls c = some n) :
    callPast rec m [("$horizon", .int R), ("$node_horizon", .int H)] = .ok (delay (R.toNat - H) n) := by
  simp only [callPast, hbody, hret, bodyDelay1]
  past_exec [hrec, hmk]
  past_delay R H

/-! ### `visitAddition` … `visitXor`: two children, `Cls(child1, child2)`, delayed -/

def bodyDelay2 (cls : String) : PS :=
  (.seq (.setLoc "node_horizon" (.loc "$node_horizon")) (.seq (.setLoc "remaining_horizon" (.loc "$horizon")) (.seq (.setLoc "horizon" (.sub (.loc "remaining_horizon") (.loc "node_horizon"))) (.seq (.setLoc "child1_node" (.visit 0 (.loc "node_horizon"))) (.seq (.setLoc "child2_node" (.visit 1 (.loc "node_horizon"))) (.seq (.setLoc "node" (.mk2 cls (.loc "child1_node") (.loc "child2_node"))) (.ite (.gt (.loc "horizon") (.int 0)) (.setLoc "node" (.mk2 "TimedOnce" (.loc "node") (.interval (.loc "horizon") (.loc "horizon")))) .skip)))))))

theorem call_delay2 (rec : Nat → Int → Except PyErr (F α)) (m : PMethod) (cls : String) (c1 c2 n : F α) (R : Int) (H : Nat)
    (hbody : m.body = bodyDelay2 cls) (hret : m.ret = some (.loc "node"))
    (hrec1 : rec 0 (H : Int) = .ok c1) (hrec2 : rec 1 (H : Int) = .ok c2) (hmk : mkNode2 cls c1 c2 = some n) :
    callPast rec m [("$horizon", .int R), ("$node_horizon", .int H)] = .ok (delay (R.toNat - H) n) := by
  simp only [callPast, hbody, hret, bodyDelay2]
  past_exec [hrec1, hrec2, hmk]
  past_delay R H

theorem call_predicate (rec : Nat → Int → Except PyErr (F α)) (cmp : Cmp) (c1 c2 : F α) (R : Int) (H : Nat)
    (hrec1 : rec 0 (H : Int) = .ok c1) (hrec2 : rec 1 (H : Int) = .ok c2) :
    callPast rec Gen.Past.visitPredicate [("$horizon", .int R), ("$node_horizon", .int H), ("$operator", .cmp cmp)]
      = .ok (delay (R.toNat - H) (.bin (.pred cmp) c1 c2)) := by
  simp only [callPast, Gen.Past.visitPredicate]
  past_exec [hrec1, hrec2]
  past_delay R H

theorem call_since (rec : Nat → Int → Except PyErr (F α)) (c1 c2 : F α) (R : Int) (H : Nat)
    (hrec1 : rec 0 (H : Int) = .ok c1) (hrec2 : rec 1 (H : Int) = .ok c2) :
    callPast rec Gen.Past.visitSince [("$horizon", .int R), ("$node_horizon", .int H)]
      = .ok (delay (R.toNat - H) (.tmp2 .since c1 c2)) := by
  simp only [callPast, Gen.Past.visitSince]
  past_exec [hrec1, hrec2, mkNode2]
  past_delay R H

/-! ### leaves -/

theorem call_variable (rec : Nat → Int → Except PyErr (F α)) (x : String) (R : Int) :
    callPast rec Gen.Past.visitVariable [("$horizon", .int R), ("$node_horizon", .int 0), ("$self", .fml (.var x))]
      = .ok (delay R.toNat (.var x)) := by
  simp only [callPast, Gen.Past.visitVariable]
  past_exec []
  by_cases h : 0 < R
  · have h1 : ¬ (R < 0) := by omega
    simp [h, h1, delay, List.lookup]
  · have h2 : ¬ (0 < R.toNat) := by omega
    simp [h, h2, delay, List.lookup]

theorem call_constant (rec : Nat → Int → Except PyErr (F α)) (v : α) (R : Int) :
    callPast rec Gen.Past.visitConstant [("$horizon", .int R), ("$node_horizon", .int 0), ("$self", .fml (.const v))]
      = .ok (.const v) := by
  simp only [callPast, Gen.Past.visitConstant]
  past_exec []

/-! ### `next`, `s_next`: consume one sample of the horizon -/

def bodyNext : PS :=
  (.seq (.setLoc "horizon" (.sub (.loc "$horizon") (.int 1))) (.setLoc "child_node" (.visit 0 (.loc "horizon"))))

theorem call_next (rec : Nat → Int → Except PyErr (F α)) (m : PMethod) (c : F α) (R : Int) (H : Nat)
    (hbody : m.body = bodyNext) (hret : m.ret = some (.loc "child_node"))
    (hrec : rec 0 (R - 1) = .ok c) :
    callPast rec m [("$horizon", .int R), ("$node_horizon", .int H)] = .ok c := by
  simp only [callPast, hbody, hret, bodyNext]
  past_exec [hrec]

/-! ### bounded past operators -/

theorem call_timedHistorically (rec : Nat → Int → Except PyErr (F α)) (c : F α) (a b : Nat) (R : Int) (H : Nat)
    (hrec : rec 0 (H : Int) = .ok c) :
    callPast rec Gen.Past.visitTimedHistorically
        [("$horizon", .int R), ("$node_horizon", .int H), ("$begin", .int a), ("$end", .int b)]
      = .ok (delay (R.toNat - H) (.tb1 .hist a b c)) := by
  simp only [callPast, Gen.Past.visitTimedHistorically]
  past_exec [hrec]
  past_delay R H

theorem call_timedSince (rec : Nat → Int → Except PyErr (F α)) (c1 c2 : F α) (a b : Nat) (R : Int) (H : Nat)
    (hrec1 : rec 0 (H : Int) = .ok c1) (hrec2 : rec 1 (H : Int) = .ok c2) :
    callPast rec Gen.Past.visitTimedSince
        [("$horizon", .int R), ("$node_horizon", .int H), ("$begin", .int a), ("$end", .int b)]
      = .ok (delay (R.toNat - H) (.tb2 .since a b c1 c2)) := by
  simp only [callPast, Gen.Past.visitTimedSince]
  past_exec [hrec1, hrec2]
  past_delay R H

theorem call_timedPrecedes (rec : Nat → Int → Except PyErr (F α)) (c1 c2 : F α) (a b : Nat) (R : Int) (H : Nat)
    (hrec1 : rec 0 (H : Int) = .ok c1) (hrec2 : rec 1 (H : Int) = .ok c2) :
    callPast rec Gen.Past.visitTimedPrecedes
        [("$horizon", .int R), ("$node_horizon", .int H), ("$begin", .int a), ("$end", .int b)]
      = .ok (delay (R.toNat - H) (.tb2 .precedes a b c1 c2)) := by
  simp only [callPast, Gen.Past.visitTimedPrecedes]
  past_exec [hrec1, hrec2]
  past_delay R H

theorem call_timedOnce (rec : Nat → Int → Except PyErr (F α)) (c : F α) (a b : Nat) (R : Int) (H : Nat)
    (hrec : rec 0 (H : Int) = .ok c) :
    callPast rec Gen.Past.visitTimedOnce
        [("$horizon", .int R), ("$node_horizon", .int H), ("$begin", .int a), ("$end", .int b)]
      = .ok (if R.toNat - H > 0 then .tb1 .once (a + (R.toNat - H)) (b + (R.toNat - H)) c else .tb1 .once a b c) := by
  simp only [callPast, Gen.Past.visitTimedOnce]
  past_exec [hrec]
  by_cases h : (H : Int) < R
  · have h1 : ¬ ((a : Int) + (R - H) < 0 ∨ (b : Int) + (R - H) < 0) := by omega
    have h2 : 0 < R.toNat - H := by omega
    have h3 : ((a : Int) + (R - H)).toNat = a + (R.toNat - H) := by omega
    have h4 : ((b : Int) + (R - H)).toNat = b + (R.toNat - H) := by omega
    simp [h, h1, h2, h3, h4, List.lookup]
  · have h2 : ¬ (0 < R.toNat - H) := by omega
    simp [h, h2, List.lookup]

/-! ### bounded future operators: consume the bound -/

def bodyTimedFuture (cls : String) : PS :=
  (.seq (.setLoc "begin" (.loc "$begin")) (.seq (.setLoc "end" (.loc "$end")) (.seq (.setLoc "horizon" (.sub (.loc "$horizon") (.loc "end"))) (.seq (.setLoc "node" (.visit 0 (.loc "horizon"))) (.ite (.gt (.sub (.loc "end") (.loc "begin")) (.int 0)) (.setLoc "node" (.mk2 cls (.loc "node") (.interval (.int 0) (.sub (.loc "end") (.loc "begin"))))) .skip)))))

theorem call_timedFuture (rec : Nat → Int → Except PyErr (F α)) (m : PMethod) (cls : String) (c n : F α)
    (a b : Nat) (R : Int) (H : Nat)
    (hbody : m.body = bodyTimedFuture cls) (hret : m.ret = some (.loc "node"))
    (hrec : rec 0 (R - (b : Int)) = .ok c) (hmk : mkNodeT1 cls 0 (b - a) c = some n) :
    callPast rec m [("$horizon", .int R), ("$node_horizon", .int H), ("$begin", .int a), ("$end", .int b)]
      = .ok (if b - a > 0 then n else c) := by
  simp only [callPast, hbody, hret, bodyTimedFuture]
  simp [execPS, evalPE, setKey, getKey, List.lookup, bind, Except.bind, pure, Except.pure, ofOpt, hrec]
  by_cases h : a < b
  · have h1 : ¬ ((b : Int) - a < 0) := by omega
    have h2 : 0 < b - a := by omega
    simp [h, h1, h2, hmk, List.lookup]
  · have h2 : ¬ (0 < b - a) := by omega
    simp [h, h2, List.lookup]

theorem call_timedUntil (rec : Nat → Int → Except PyErr (F α)) (c1 c2 : F α) (a b : Nat) (R : Int) (H : Nat)
    (hrec1 : rec 0 (R - (b : Int)) = .ok c1) (hrec2 : rec 1 (R - (b : Int)) = .ok c2) :
    callPast rec Gen.Past.visitTimedUntil
        [("$horizon", .int R), ("$node_horizon", .int H), ("$begin", .int a), ("$end", .int b)]
      = .ok (.tb2 .precedes a b c1 c2) := by
  simp only [callPast, Gen.Past.visitTimedUntil]
  past_exec [hrec1, hrec2]

end Rtamt.Py
