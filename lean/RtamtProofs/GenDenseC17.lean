/-
  C17, rejection clause, on the TRANSLATED dense-time code:

  "Every construct a monitor does not support (unbounded future online, prev/next/rise/fall in dense time, bounded until in
   the dense-time online monitor) is rejected with an RTAMTException no later than the first evaluation instead of yielding
   a value."

  (1) offline (`evalAlgG`, `Rtamt/Py/RunDn.lean`: the visit methods translated from the source, `Gen.Dense.methods`):
      `F.usesDenseUnsupported`; `C17_dense_offline_rejects_translated` (never a value, for EVERY fuel, environment and
      formula - no hypothesis on the interface-aware forms is needed: the children are evaluated first),
      `C17_dense_offline_never_ok`, the direct cases `C17_dense_offline_tmp1_rtamt` / `C17_dense_offline_precedes_rtamt`
      and the general sharper form `C17_dense_offline_rtamt` (the exception is the RTAMTException as soon as the supported
      sub-formulas evaluate).
  (2) online (`initOnG` / `runOnG`, `Rtamt/Py/RunDnOn.lean`: the constructor table `Gen.DenseOn.table` extracted from the
      construction visitor): `F.usesOnlineUnsupported`; `C17_dense_online_rejects_translated`,
      `C17_dense_online_run_rejects_translated` (no list of updates yields a value), `C17_dense_online_rtamt`,
      `C17_dense_online_rtamt_of_supported`, `C17_dense_online_run_rtamt_of_supported`.
  (3) the tables: `C17_dense_online_table` (+ `_exact`: the listed kinds are exactly the entries `.raises`),
      `C17_dense_offline_table` (+ `_exact`: the listed kinds are exactly the methods whose body is a single `raise`).
-/
import RtamtProofs.GenDense
import RtamtProofs.GenDenseOn

set_option linter.unusedSectionVars false
set_option linter.unusedVariables false
set_option linter.unusedSimpArgs false

namespace Rtamt

/-! ### the unsupported constructs -/

/-- the unary operators the dense-time monitors do not implement (`visitX` raises) -/
def T1.denseUnsupported : T1 → Bool
  | .rise | .fall | .prev | .sprev | .next | .snext => true
  | .once | .hist | .ev | .alw => false

def TB2.denseUnsupported : TB2 → Bool
  | .precedes => true
  | .since | .until => false

/-- Some sub-formula is `rise` / `fall` / `prev` / `sprev` / `next` / `snext` or a bounded `precedes`. -/
def F.usesDenseUnsupported {α : Type} : F α → Bool
  | .var _ => false
  | .const _ => false
  | .un _ φ => φ.usesDenseUnsupported
  | .bin _ φ ψ => φ.usesDenseUnsupported || ψ.usesDenseUnsupported
  | .tmp1 op φ => op.denseUnsupported || φ.usesDenseUnsupported
  | .tmp2 _ φ ψ => φ.usesDenseUnsupported || ψ.usesDenseUnsupported
  | .tb1 _ _ _ φ => φ.usesDenseUnsupported
  | .tb2 op _ _ φ ψ => op.denseUnsupported || φ.usesDenseUnsupported || ψ.usesDenseUnsupported

/-- online additionally: every future operator -/
def T1.onlineUnsupported : T1 → Bool
  | .once | .hist => false
  | .rise | .fall | .prev | .sprev | .next | .snext | .ev | .alw => true

def T2.onlineUnsupported : T2 → Bool
  | .since => false
  | .until => true

def TB1.onlineUnsupported : TB1 → Bool
  | .once | .hist => false
  | .ev | .alw => true

def TB2.onlineUnsupported : TB2 → Bool
  | .since => false
  | .until | .precedes => true

/-- Some sub-formula is not supported by the dense-time online monitor: the constructs of `usesDenseUnsupported`, the
    unbounded future operators `ev` / `alw` / `until` and the bounded future operators `ev` / `alw` / `until`. -/
def F.usesOnlineUnsupported {α : Type} : F α → Bool
  | .var _ => false
  | .const _ => false
  | .un _ φ => φ.usesOnlineUnsupported
  | .bin _ φ ψ => φ.usesOnlineUnsupported || ψ.usesOnlineUnsupported
  | .tmp1 op φ => op.onlineUnsupported || φ.usesOnlineUnsupported
  | .tmp2 op φ ψ => op.onlineUnsupported || φ.usesOnlineUnsupported || ψ.usesOnlineUnsupported
  | .tb1 op _ _ φ => op.onlineUnsupported || φ.usesOnlineUnsupported
  | .tb2 op _ _ φ ψ => op.onlineUnsupported || φ.usesOnlineUnsupported || ψ.usesOnlineUnsupported

/-- what the offline monitor rejects, the online monitor rejects -/
theorem F.usesOnlineUnsupported_of_dense {α : Type} (φ : F α) (h : φ.usesDenseUnsupported = true) :
    φ.usesOnlineUnsupported = true := by
  induction φ with
  | var x => simp [F.usesDenseUnsupported] at h
  | const c => simp [F.usesDenseUnsupported] at h
  | un op φ ih => exact ih h
  | bin op φ ψ ih1 ih2 =>
      simp only [F.usesDenseUnsupported, Bool.or_eq_true] at h
      simp only [F.usesOnlineUnsupported, Bool.or_eq_true]
      exact h.imp ih1 ih2
  | tmp1 op φ ih =>
      simp only [F.usesDenseUnsupported, Bool.or_eq_true] at h
      simp only [F.usesOnlineUnsupported, Bool.or_eq_true]
      exact h.imp (fun h => by cases op <;> simp_all [T1.denseUnsupported, T1.onlineUnsupported]) ih
  | tmp2 op φ ψ ih1 ih2 =>
      simp only [F.usesDenseUnsupported, Bool.or_eq_true] at h
      simp only [F.usesOnlineUnsupported, Bool.or_eq_true]
      rcases h with h | h
      · exact .inl (.inr (ih1 h))
      · exact .inr (ih2 h)
  | tb1 op a b φ ih =>
      simp only [F.usesOnlineUnsupported, Bool.or_eq_true]
      exact .inr (ih h)
  | tb2 op a b φ ψ ih1 ih2 =>
      simp only [F.usesDenseUnsupported, Bool.or_eq_true] at h
      simp only [F.usesOnlineUnsupported, Bool.or_eq_true]
      rcases h with (h | h) | h
      · exact .inl (.inl (by cases op <;> simp_all [TB2.denseUnsupported, TB2.onlineUnsupported]))
      · exact .inl (.inr (ih1 h))
      · exact .inr (ih2 h)

theorem F.self_mem_subs {α : Type} (φ : F α) : φ ∈ φ.subs := by
  cases φ <;> simp [F.subs]

/-! ### the exception monad -/

namespace C17G

theorem isErr_bind_left {ε σ ρ : Type} {x : Except ε σ} (f : σ → Except ε ρ) (h : ∃ e, x = .error e) :
    ∃ e, (x >>= f) = .error e := by
  obtain ⟨e, rfl⟩ := h
  exact ⟨e, rfl⟩

theorem isErr_bind_right {ε σ ρ : Type} (x : Except ε σ) {f : σ → Except ε ρ} (h : ∀ a, ∃ e, f a = .error e) :
    ∃ e, (x >>= f) = .error e := by
  cases x with
  | error e => exact ⟨e, rfl⟩
  | ok a => exact h a

theorem ne_ok_of_isErr {ε σ : Type} {x : Except ε σ} (h : ∃ e, x = .error e) (a : σ) : x ≠ .ok a := by
  obtain ⟨e, rfl⟩ := h
  intro h; cases h

end C17G

end Rtamt

/-! ## (1) the dense-time offline visitor -/

namespace Rtamt.Py.Dn
open Rtamt Val Rtamt.Dense Rtamt.Dense.Alg Rtamt.C17G

variable {α : Type} [Val α]

/-- the node of an unsupported unary operator: its `visitX` raises the RTAMTException whatever the child returned -/
theorem node_tmp1_rejects (fuel : Nat) (op : T1) (s : ASig α) (h : op.denseUnsupported = true) :
    (match lookupD op.kind with
     | some m => callD fuel m [s] none []
     | none => pure s) = .error .rtamt := by
  cases op <;> simp only [T1.denseUnsupported, Bool.false_eq_true] at h <;>
    simp only [T1.kind, lookupD_Rise, lookupD_Fall, lookupD_Previous, lookupD_StrongPrevious, lookupD_Next,
      lookupD_StrongNext]
  · exact gen_visitRise fuel _ _ _
  · exact gen_visitFall fuel _ _ _
  · exact gen_visitPrevious fuel _ _ _
  · exact gen_visitStrongPrevious fuel _ _ _
  · exact gen_visitNext fuel _ _ _
  · exact gen_visitStrongNext fuel _ _ _

theorem node_tb2_rejects (fuel : Nat) (op : TB2) (iv : Option (Rat × Rat)) (l r : ASig α)
    (h : op.denseUnsupported = true) :
    (match lookupD op.kind with
     | some m => callD fuel m [l, r] iv []
     | none => pure r) = .error .rtamt := by
  cases op <;> simp only [TB2.denseUnsupported, Bool.false_eq_true] at h
  simp only [TB2.kind, lookupD_TimedPrecedes]
  exact gen_visitTimedPrecedes fuel _ _ _

/-- **C17, dense time, offline, on the translated visitor.**  A formula with an unsupported construct never yields a value:
    `evaluate()` raises, for every fuel, every environment (bound or not) and every formula (the interface-aware forms
    included: the children are evaluated before the node). -/
theorem C17_dense_offline_rejects_translated (fuel : Nat) (cfg : DCfg) (w : DEnv α) (φ : F α)
    (h : φ.usesDenseUnsupported = true) : ∃ e, evalAlgG fuel cfg w φ = .error e := by
  induction φ with
  | var x => simp [F.usesDenseUnsupported] at h
  | const c => simp [F.usesDenseUnsupported] at h
  | un op φ ih =>
      simp only [F.usesDenseUnsupported] at h
      simp only [evalAlgG]
      exact isErr_bind_left _ (ih h)
  | bin op φ ψ ih1 ih2 =>
      simp only [F.usesDenseUnsupported, Bool.or_eq_true] at h
      simp only [evalAlgG]
      rcases h with h | h
      · exact isErr_bind_left _ (ih1 h)
      · exact isErr_bind_right _ (fun l => isErr_bind_left _ (ih2 h))
  | tmp1 op φ ih =>
      simp only [F.usesDenseUnsupported, Bool.or_eq_true] at h
      simp only [evalAlgG]
      rcases h with h | h
      · exact isErr_bind_right _ (fun s => ⟨.rtamt, node_tmp1_rejects fuel op s h⟩)
      · exact isErr_bind_left _ (ih h)
  | tmp2 op φ ψ ih1 ih2 =>
      simp only [F.usesDenseUnsupported, Bool.or_eq_true] at h
      simp only [evalAlgG]
      rcases h with h | h
      · exact isErr_bind_left _ (ih1 h)
      · exact isErr_bind_right _ (fun l => isErr_bind_left _ (ih2 h))
  | tb1 op a b φ ih =>
      simp only [F.usesDenseUnsupported] at h
      simp only [evalAlgG]
      exact isErr_bind_left _ (ih h)
  | tb2 op a b φ ψ ih1 ih2 =>
      simp only [F.usesDenseUnsupported, Bool.or_eq_true] at h
      simp only [evalAlgG]
      rcases h with (h | h) | h
      · exact isErr_bind_right _ (fun l => isErr_bind_right _ (fun r => ⟨.rtamt, node_tb2_rejects fuel op _ l r h⟩))
      · exact isErr_bind_left _ (ih1 h)
      · exact isErr_bind_right _ (fun l => isErr_bind_left _ (ih2 h))

/-- the same, as "never a value" -/
theorem C17_dense_offline_never_ok (fuel : Nat) (cfg : DCfg) (w : DEnv α) (φ : F α)
    (h : φ.usesDenseUnsupported = true) (s : ASig α) : evalAlgG fuel cfg w φ ≠ .ok s :=
  ne_ok_of_isErr (C17_dense_offline_rejects_translated fuel cfg w φ h) s

/-- direct case: the operand evaluates, the node raises the RTAMTException -/
theorem C17_dense_offline_tmp1_rtamt (fuel : Nat) (cfg : DCfg) (w : DEnv α) (op : T1) (ψ : F α) (s : ASig α)
    (hop : op.denseUnsupported = true) (hψ : evalAlgG fuel cfg w ψ = .ok s) :
    evalAlgG fuel cfg w (.tmp1 op ψ) = .error .rtamt := by
  simp only [evalAlgG, hψ, ok_bind]
  exact node_tmp1_rejects fuel op s hop

theorem C17_dense_offline_precedes_rtamt (fuel : Nat) (cfg : DCfg) (w : DEnv α) (a b : Nat) (φ ψ : F α) (l r : ASig α)
    (hφ : evalAlgG fuel cfg w φ = .ok l) (hψ : evalAlgG fuel cfg w ψ = .ok r) :
    evalAlgG fuel cfg w (.tb2 .precedes a b φ ψ) = .error .rtamt := by
  simp only [evalAlgG, hφ, hψ, ok_bind]
  exact node_tb2_rejects fuel .precedes _ l r rfl

/-- **The sharper form.**  The exception is the RTAMTException as soon as nothing else raises first: every sub-formula
    without an unsupported construct evaluates to a value (variables bound, no `sqrt` / `ln` of a negative sample, enough
    fuel, no `.predZero`). -/
theorem C17_dense_offline_rtamt (fuel : Nat) (cfg : DCfg) (w : DEnv α) (φ : F α)
    (h : φ.usesDenseUnsupported = true)
    (hsub : ∀ ψ ∈ φ.subs, ψ.usesDenseUnsupported = false → ∃ s, evalAlgG fuel cfg w ψ = .ok s) :
    evalAlgG fuel cfg w φ = .error .rtamt := by
  induction φ with
  | var x => simp [F.usesDenseUnsupported] at h
  | const c => simp [F.usesDenseUnsupported] at h
  | un op φ ih =>
      simp only [F.usesDenseUnsupported] at h
      have h1 := ih h (fun ψ hm => hsub ψ (by simp [F.subs, hm]))
      simp only [evalAlgG, h1, error_bind]
  | bin op φ ψ ih1 ih2 =>
      simp only [F.usesDenseUnsupported, Bool.or_eq_true] at h
      cases h1 : φ.usesDenseUnsupported with
      | true =>
          have e1 := ih1 h1 (fun χ hm => hsub χ (by simp [F.subs, hm]))
          simp only [evalAlgG, e1, error_bind]
      | false =>
          obtain ⟨l, hl⟩ := hsub φ (by simp [F.subs, F.self_mem_subs]) h1
          have h2 : ψ.usesDenseUnsupported = true := by simpa [h1] using h
          have e2 := ih2 h2 (fun χ hm => hsub χ (by simp [F.subs, hm]))
          simp only [evalAlgG, hl, e2, ok_bind, error_bind]
  | tmp1 op φ ih =>
      simp only [F.usesDenseUnsupported, Bool.or_eq_true] at h
      cases h1 : φ.usesDenseUnsupported with
      | true =>
          have e1 := ih h1 (fun χ hm => hsub χ (by simp [F.subs, hm]))
          simp only [evalAlgG, e1, error_bind]
      | false =>
          obtain ⟨s, hs⟩ := hsub φ (by simp [F.subs, F.self_mem_subs]) h1
          have hop : op.denseUnsupported = true := by simpa [h1] using h
          exact C17_dense_offline_tmp1_rtamt fuel cfg w op φ s hop hs
  | tmp2 op φ ψ ih1 ih2 =>
      simp only [F.usesDenseUnsupported, Bool.or_eq_true] at h
      cases h1 : φ.usesDenseUnsupported with
      | true =>
          have e1 := ih1 h1 (fun χ hm => hsub χ (by simp [F.subs, hm]))
          simp only [evalAlgG, e1, error_bind]
      | false =>
          obtain ⟨l, hl⟩ := hsub φ (by simp [F.subs, F.self_mem_subs]) h1
          have h2 : ψ.usesDenseUnsupported = true := by simpa [h1] using h
          have e2 := ih2 h2 (fun χ hm => hsub χ (by simp [F.subs, hm]))
          simp only [evalAlgG, hl, e2, ok_bind, error_bind]
  | tb1 op a b φ ih =>
      simp only [F.usesDenseUnsupported] at h
      have h1 := ih h (fun ψ hm => hsub ψ (by simp [F.subs, hm]))
      simp only [evalAlgG, h1, error_bind]
  | tb2 op a b φ ψ ih1 ih2 =>
      simp only [F.usesDenseUnsupported, Bool.or_eq_true] at h
      cases h1 : φ.usesDenseUnsupported with
      | true =>
          have e1 := ih1 h1 (fun χ hm => hsub χ (by simp [F.subs, hm]))
          simp only [evalAlgG, e1, error_bind]
      | false =>
          obtain ⟨l, hl⟩ := hsub φ (by simp [F.subs, F.self_mem_subs]) h1
          cases h2 : ψ.usesDenseUnsupported with
          | true =>
              have e2 := ih2 h2 (fun χ hm => hsub χ (by simp [F.subs, hm]))
              simp only [evalAlgG, hl, e2, ok_bind, error_bind]
          | false =>
              obtain ⟨r, hr⟩ := hsub ψ (by simp [F.subs, F.self_mem_subs]) h2
              have hop : op.denseUnsupported = true := by simpa [h1, h2] using h
              simp only [evalAlgG, hl, hr, ok_bind]
              exact node_tb2_rejects fuel op _ l r hop

/-! ### the table of the visit methods -/

/-- the node classes whose `visitX` of the dense-time offline visitor only raises -/
def denseRaisingKinds : List Kind :=
  [.Rise, .Fall, .Previous, .StrongPrevious, .Next, .StrongNext, .TimedPrecedes]

/-- the body of a translated method is a single `raise RTAMTException` -/
def isRaiseRtamt : S → Bool
  | .raise .rtamt => true
  | _ => false

theorem isRaiseRtamt_iff (b : S) : isRaiseRtamt b = true ↔ b = .raise .rtamt := by
  constructor
  · intro h
    cases b with
    | raise k => cases k <;> first | rfl | simp [isRaiseRtamt] at h
    | _ => simp [isRaiseRtamt] at h
  · rintro rfl; rfl

/-- **table level, offline**: each of the seven methods is in the translated table and its body is the single statement
    `raise RTAMTException(…)` (it fetches no child). -/
theorem C17_dense_offline_table :
    ∀ k ∈ denseRaisingKinds, ∃ m, lookupD k = some m ∧ m.kids = [] ∧ m.body = .raise .rtamt := by
  intro k hk
  simp only [denseRaisingKinds, List.mem_cons, List.not_mem_nil, or_false] at hk
  rcases hk with rfl | rfl | rfl | rfl | rfl | rfl | rfl
  · exact ⟨_, lookupD_Rise, rfl, rfl⟩
  · exact ⟨_, lookupD_Fall, rfl, rfl⟩
  · exact ⟨_, lookupD_Previous, rfl, rfl⟩
  · exact ⟨_, lookupD_StrongPrevious, rfl, rfl⟩
  · exact ⟨_, lookupD_Next, rfl, rfl⟩
  · exact ⟨_, lookupD_StrongNext, rfl, rfl⟩
  · exact ⟨_, lookupD_TimedPrecedes, rfl, rfl⟩

/-- … and they are the only ones: of the 39 node classes exactly these seven have a method that is a single `raise`. -/
theorem C17_dense_offline_table_exact :
    ∀ k ∈ Kind.all, ((lookupD k).any (fun m => isRaiseRtamt m.body)) = decide (k ∈ denseRaisingKinds) := by
  intro k hk
  simp only [Kind.all, List.mem_cons, List.not_mem_nil, or_false] at hk
  rcases hk with rfl | rfl | rfl | rfl | rfl | rfl | rfl | rfl | rfl | rfl | rfl | rfl | rfl | rfl | rfl | rfl | rfl |
    rfl | rfl | rfl | rfl | rfl | rfl | rfl | rfl | rfl | rfl | rfl | rfl | rfl | rfl | rfl | rfl | rfl | rfl | rfl |
    rfl | rfl | rfl <;> rfl

/-- the operators of `usesDenseUnsupported` are those of the table -/
theorem T1.denseUnsupported_iff (op : T1) : op.denseUnsupported = true ↔ op.kind ∈ denseRaisingKinds := by
  cases op <;> simp [T1.denseUnsupported, T1.kind, denseRaisingKinds]

theorem TB2.denseUnsupported_iff (op : TB2) : op.denseUnsupported = true ↔ op.kind ∈ denseRaisingKinds := by
  cases op <;> simp [TB2.denseUnsupported, TB2.kind, denseRaisingKinds]

/-! ### non-vacuity -/

/-- `rise(x)`, `x` bound: the RTAMTException -/
example (fuel : Nat) (cfg : DCfg) (s : DSig α) :
    evalAlgG fuel cfg [("x", s)] (.tmp1 .rise (.var "x") : F α) = .error .rtamt :=
  C17_dense_offline_tmp1_rtamt fuel cfg _ .rise _ (ofDSig s) rfl (by
    simp only [evalAlgG, lookupD_Variable]
    exact gen_visitVariable fuel (ofDSig s))

/-- `prev(c)` below an `always[0,2]` and a negation: never a value, and the RTAMTException by the sharper form -/
example (fuel : Nat) (cfg : DCfg) (w : DEnv α) (c : α) :
    ∃ e, evalAlgG fuel cfg w (.un .not (.tb1 .alw 0 2 (.tmp1 .prev (.const c))) : F α) = .error e :=
  C17_dense_offline_rejects_translated fuel cfg w _ rfl

example (fuel : Nat) (cfg : DCfg) (w : DEnv α) (c : α) :
    evalAlgG fuel cfg w (.un .not (.tb1 .alw 0 2 (.tmp1 .prev (.const c))) : F α) = .error .rtamt := by
  refine C17_dense_offline_rtamt fuel cfg w _ rfl ?_
  intro ψ hm hu
  simp only [F.subs, List.mem_cons, List.not_mem_nil, or_false] at hm
  rcases hm with rfl | rfl | rfl | rfl
  · simp [F.usesDenseUnsupported, T1.denseUnsupported] at hu
  · simp [F.usesDenseUnsupported, T1.denseUnsupported] at hu
  · simp [F.usesDenseUnsupported, T1.denseUnsupported] at hu
  · exact ⟨_, by simp only [evalAlgG, lookupD_Constant]; exact gen_visitConstant fuel c⟩

/-- `c precedes[1,2] d` -/
example (fuel : Nat) (cfg : DCfg) (w : DEnv α) (c d : α) :
    evalAlgG fuel cfg w (.tb2 .precedes 1 2 (.const c) (.const d) : F α) = .error .rtamt :=
  C17_dense_offline_precedes_rtamt fuel cfg w 1 2 _ _ _ _
    (by simp only [evalAlgG, lookupD_Constant]; exact gen_visitConstant fuel c)
    (by simp only [evalAlgG, lookupD_Constant]; exact gen_visitConstant fuel d)

/-- an unbound variable to the left of the unsupported construct: still no value, but the KeyError comes first -/
example (fuel : Nat) (cfg : DCfg) (c : α) :
    evalAlgG fuel cfg [] (.bin .and (.var "x") (.tmp1 .rise (.const c)) : F α) = .error .key := by
  simp [evalAlgG, List.lookup]

end Rtamt.Py.Dn

/-! ## (2) the dense-time online monitor -/

namespace Rtamt.Py.DnOn
open Rtamt Val Rtamt.Dense Rtamt.Dense.Alg Rtamt.Dense.AlgOn Rtamt.C17G

variable {α : Type} [Val α]

/-! ### the constructor table -/

/-- the node classes for which the construction visitor of the dense-time online monitor raises -/
def onlineRaisingKinds : List Kind :=
  [.Rise, .Fall, .Previous, .StrongPrevious, .Next, .StrongNext, .TimedPrecedes,
   .Eventually, .Always, .Until, .TimedEventually, .TimedAlways, .TimedUntil]

/-- **table level, online**: the entry of every unsupported construct in the table extracted from the construction visitor is
    `.raises` (`raise RTAMTException(…)`). -/
theorem C17_dense_online_table : ∀ k ∈ onlineRaisingKinds, ctorOf k = some .raises := by decide

/-- … and these are the only ones. -/
theorem C17_dense_online_table_exact :
    ∀ k ∈ Kind.all, (ctorOf k = some .raises ↔ k ∈ onlineRaisingKinds) := by decide

theorem T1.onlineUnsupported_ctor (op : T1) (h : op.onlineUnsupported = true) : ctorOf op.kind = some .raises := by
  cases op <;> first | rfl | simp [T1.onlineUnsupported] at h

theorem T2.onlineUnsupported_ctor (op : T2) (h : op.onlineUnsupported = true) : ctorOf op.kind = some .raises := by
  cases op <;> first | rfl | simp [T2.onlineUnsupported] at h

theorem TB1.onlineUnsupported_ctor (op : TB1) (h : op.onlineUnsupported = true) : ctorOf op.kind = some .raises := by
  cases op <;> first | rfl | simp [TB1.onlineUnsupported] at h

theorem TB2.onlineUnsupported_ctor (op : TB2) (h : op.onlineUnsupported = true) : ctorOf op.kind = some .raises := by
  cases op <;> first | rfl | simp [TB2.onlineUnsupported] at h

/-- `visitX` of the construction visitor raises: no object is built -/
theorem build_raises (fuel : Nat) (k : Kind) (op : Option Cmp) (iv : Option (Rat × Rat)) (h : ctorOf k = some .raises) :
    build (α := α) fuel k op iv = .error .rtamt := by
  simp only [build, h]

/-! ### construction -/

/-- **C17, dense time, online, on the translated monitor.**  The construction of the monitor of a formula with an
    unsupported construct raises (that is: at `parse()` / `pastify()`, before the first `update()`), for every fuel and
    every formula. -/
theorem C17_dense_online_rejects_translated (fuel : Nat) (cfg : DCfg) (φ : F α)
    (h : φ.usesOnlineUnsupported = true) : ∃ e, initOnG fuel cfg φ = .error e := by
  induction φ with
  | var x => simp [F.usesOnlineUnsupported] at h
  | const c => simp [F.usesOnlineUnsupported] at h
  | un op φ ih =>
      simp only [F.usesOnlineUnsupported] at h
      simp only [initOnG]
      exact isErr_bind_left _ (ih h)
  | bin op φ ψ ih1 ih2 =>
      simp only [F.usesOnlineUnsupported, Bool.or_eq_true] at h
      simp only [initOnG]
      rcases h with h | h
      · exact isErr_bind_left _ (ih1 h)
      · exact isErr_bind_right _ (fun l => isErr_bind_left _ (ih2 h))
  | tmp1 op φ ih =>
      simp only [F.usesOnlineUnsupported, Bool.or_eq_true] at h
      simp only [initOnG]
      rcases h with h | h
      · exact isErr_bind_right _ (fun c => ⟨.rtamt, by
          simp only [build_raises fuel _ _ _ (T1.onlineUnsupported_ctor op h), error_bind]⟩)
      · exact isErr_bind_left _ (ih h)
  | tmp2 op φ ψ ih1 ih2 =>
      simp only [F.usesOnlineUnsupported, Bool.or_eq_true] at h
      simp only [initOnG]
      rcases h with (h | h) | h
      · exact isErr_bind_right _ (fun l => isErr_bind_right _ (fun r => ⟨.rtamt, by
          simp only [build_raises fuel _ _ _ (T2.onlineUnsupported_ctor op h), error_bind]⟩))
      · exact isErr_bind_left _ (ih1 h)
      · exact isErr_bind_right _ (fun l => isErr_bind_left _ (ih2 h))
  | tb1 op a b φ ih =>
      simp only [F.usesOnlineUnsupported, Bool.or_eq_true] at h
      simp only [initOnG]
      rcases h with h | h
      · exact isErr_bind_right _ (fun c => ⟨.rtamt, by
          simp only [build_raises fuel _ _ _ (TB1.onlineUnsupported_ctor op h), error_bind]⟩)
      · exact isErr_bind_left _ (ih h)
  | tb2 op a b φ ψ ih1 ih2 =>
      simp only [F.usesOnlineUnsupported, Bool.or_eq_true] at h
      simp only [initOnG]
      rcases h with (h | h) | h
      · exact isErr_bind_right _ (fun l => isErr_bind_right _ (fun r => ⟨.rtamt, by
          simp only [build_raises fuel _ _ _ (TB2.onlineUnsupported_ctor op h), error_bind]⟩))
      · exact isErr_bind_left _ (ih1 h)
      · exact isErr_bind_right _ (fun l => isErr_bind_left _ (ih2 h))

/-- a monitor that is not constructed is never updated -/
theorem runOnG_error_of_init (fuel : Nat) (cfg : DCfg) (φ : F α) (e : PyErr) (h : initOnG fuel cfg φ = .error e)
    (batches : List (String → ASig α)) : runOnG fuel cfg φ batches = .error e := by
  simp only [runOnG, h, error_bind]

/-- … consequently no sequence of updates (the empty one included) ever yields a value. -/
theorem C17_dense_online_run_rejects_translated (fuel : Nat) (cfg : DCfg) (φ : F α)
    (h : φ.usesOnlineUnsupported = true) (batches : List (String → ASig α)) :
    ∃ e, runOnG fuel cfg φ batches = .error e := by
  obtain ⟨e, he⟩ := C17_dense_online_rejects_translated fuel cfg φ h
  exact ⟨e, runOnG_error_of_init fuel cfg φ e he batches⟩

theorem C17_dense_online_run_never_ok (fuel : Nat) (cfg : DCfg) (φ : F α)
    (h : φ.usesOnlineUnsupported = true) (batches : List (String → ASig α)) (outs : List (ASig α)) :
    runOnG fuel cfg φ batches ≠ .ok outs :=
  ne_ok_of_isErr (C17_dense_online_run_rejects_translated fuel cfg φ h batches) outs

/-- **The sharper form.**  The exception is the RTAMTException as soon as the sub-formulas without an unsupported construct
    are constructed (enough fuel for the `__init__` methods, no `.predZero`). -/
theorem C17_dense_online_rtamt (fuel : Nat) (cfg : DCfg) (φ : F α)
    (h : φ.usesOnlineUnsupported = true)
    (hsub : ∀ ψ ∈ φ.subs, ψ.usesOnlineUnsupported = false → ∃ g, initOnG fuel cfg ψ = .ok g) :
    initOnG fuel cfg φ = .error .rtamt := by
  induction φ with
  | var x => simp [F.usesOnlineUnsupported] at h
  | const c => simp [F.usesOnlineUnsupported] at h
  | un op φ ih =>
      simp only [F.usesOnlineUnsupported] at h
      have h1 := ih h (fun ψ hm => hsub ψ (by simp [F.subs, hm]))
      simp only [initOnG, h1, error_bind]
  | bin op φ ψ ih1 ih2 =>
      simp only [F.usesOnlineUnsupported, Bool.or_eq_true] at h
      cases h1 : φ.usesOnlineUnsupported with
      | true =>
          have e1 := ih1 h1 (fun χ hm => hsub χ (by simp [F.subs, hm]))
          simp only [initOnG, e1, error_bind]
      | false =>
          obtain ⟨l, hl⟩ := hsub φ (by simp [F.subs, F.self_mem_subs]) h1
          have h2 : ψ.usesOnlineUnsupported = true := by simpa [h1] using h
          have e2 := ih2 h2 (fun χ hm => hsub χ (by simp [F.subs, hm]))
          simp only [initOnG, hl, e2, ok_bind, error_bind]
  | tmp1 op φ ih =>
      simp only [F.usesOnlineUnsupported, Bool.or_eq_true] at h
      cases h1 : φ.usesOnlineUnsupported with
      | true =>
          have e1 := ih h1 (fun χ hm => hsub χ (by simp [F.subs, hm]))
          simp only [initOnG, e1, error_bind]
      | false =>
          obtain ⟨s, hs⟩ := hsub φ (by simp [F.subs, F.self_mem_subs]) h1
          have hop : op.onlineUnsupported = true := by simpa [h1] using h
          simp only [initOnG, hs, ok_bind, build_raises fuel _ _ _ (T1.onlineUnsupported_ctor op hop), error_bind]
  | tmp2 op φ ψ ih1 ih2 =>
      simp only [F.usesOnlineUnsupported, Bool.or_eq_true] at h
      cases h1 : φ.usesOnlineUnsupported with
      | true =>
          have e1 := ih1 h1 (fun χ hm => hsub χ (by simp [F.subs, hm]))
          simp only [initOnG, e1, error_bind]
      | false =>
          obtain ⟨l, hl⟩ := hsub φ (by simp [F.subs, F.self_mem_subs]) h1
          cases h2 : ψ.usesOnlineUnsupported with
          | true =>
              have e2 := ih2 h2 (fun χ hm => hsub χ (by simp [F.subs, hm]))
              simp only [initOnG, hl, e2, ok_bind, error_bind]
          | false =>
              obtain ⟨r, hr⟩ := hsub ψ (by simp [F.subs, F.self_mem_subs]) h2
              have hop : op.onlineUnsupported = true := by simpa [h1, h2] using h
              simp only [initOnG, hl, hr, ok_bind, build_raises fuel _ _ _ (T2.onlineUnsupported_ctor op hop),
                error_bind]
  | tb1 op a b φ ih =>
      simp only [F.usesOnlineUnsupported, Bool.or_eq_true] at h
      cases h1 : φ.usesOnlineUnsupported with
      | true =>
          have e1 := ih h1 (fun χ hm => hsub χ (by simp [F.subs, hm]))
          simp only [initOnG, e1, error_bind]
      | false =>
          obtain ⟨s, hs⟩ := hsub φ (by simp [F.subs, F.self_mem_subs]) h1
          have hop : op.onlineUnsupported = true := by simpa [h1] using h
          simp only [initOnG, hs, ok_bind, build_raises fuel _ _ _ (TB1.onlineUnsupported_ctor op hop), error_bind]
  | tb2 op a b φ ψ ih1 ih2 =>
      simp only [F.usesOnlineUnsupported, Bool.or_eq_true] at h
      cases h1 : φ.usesOnlineUnsupported with
      | true =>
          have e1 := ih1 h1 (fun χ hm => hsub χ (by simp [F.subs, hm]))
          simp only [initOnG, e1, error_bind]
      | false =>
          obtain ⟨l, hl⟩ := hsub φ (by simp [F.subs, F.self_mem_subs]) h1
          cases h2 : ψ.usesOnlineUnsupported with
          | true =>
              have e2 := ih2 h2 (fun χ hm => hsub χ (by simp [F.subs, hm]))
              simp only [initOnG, hl, e2, ok_bind, error_bind]
          | false =>
              obtain ⟨r, hr⟩ := hsub ψ (by simp [F.subs, F.self_mem_subs]) h2
              have hop : op.onlineUnsupported = true := by simpa [h1, h2] using h
              simp only [initOnG, hl, hr, ok_bind, build_raises fuel _ _ _ (TB2.onlineUnsupported_ctor op hop),
                error_bind]

/-- direct case: the operand is constructed, `visitX` of the node raises the RTAMTException -/
theorem C17_dense_online_tb2_rtamt (fuel : Nat) (cfg : DCfg) (op : TB2) (a b : Nat) (φ ψ : F α) (l r : GSt α)
    (hop : op.onlineUnsupported = true) (hφ : initOnG fuel cfg φ = .ok l) (hψ : initOnG fuel cfg ψ = .ok r) :
    initOnG fuel cfg (.tb2 op a b φ ψ) = .error .rtamt := by
  simp only [initOnG, hφ, hψ, ok_bind, build_raises fuel _ _ _ (TB2.onlineUnsupported_ctor op hop), error_bind]

/-! ### the hypothesis of the sharper form discharged: formulas without `.predZero` -/

/-- the mirror constructs every formula without an unsupported construct and without `.predZero` -/
theorem initOn_ok_of_supported (φ : F α) (hφ : φ.onSupported = true) (h : φ.usesOnlineUnsupported = false) :
    ∃ st, initOn φ = .ok st := by
  induction φ with
  | var x => exact ⟨_, rfl⟩
  | const c => exact ⟨_, rfl⟩
  | un op φ ih =>
      obtain ⟨c, hc⟩ := ih hφ h
      exact ⟨_, by simp only [initOn, hc]; rfl⟩
  | bin op φ ψ ih1 ih2 =>
      simp only [F.onSupported, Bool.and_eq_true] at hφ
      simp only [F.usesOnlineUnsupported, Bool.or_eq_false_iff] at h
      obtain ⟨l, hl⟩ := ih1 hφ.1.2 h.1
      obtain ⟨r, hr⟩ := ih2 hφ.2 h.2
      have hz : op ≠ .predZero := by rintro rfl; simp at hφ
      exact ⟨_, by rw [GOn.initOn_bin_ok hz, hl, hr]; rfl⟩
  | tmp1 op φ ih =>
      simp only [F.usesOnlineUnsupported, Bool.or_eq_false_iff] at h
      obtain ⟨c, hc⟩ := ih hφ h.2
      cases op <;> simp [T1.onlineUnsupported] at h
      · exact ⟨_, by simp only [initOn, hc]; rfl⟩
      · exact ⟨_, by simp only [initOn, hc]; rfl⟩
  | tmp2 op φ ψ ih1 ih2 =>
      simp only [F.onSupported, Bool.and_eq_true] at hφ
      simp only [F.usesOnlineUnsupported, Bool.or_eq_false_iff] at h
      obtain ⟨l, hl⟩ := ih1 hφ.1 h.1.2
      obtain ⟨r, hr⟩ := ih2 hφ.2 h.2
      cases op <;> simp [T2.onlineUnsupported] at h
      exact ⟨_, by simp only [initOn, hl, hr]; rfl⟩
  | tb1 op a b φ ih =>
      simp only [F.usesOnlineUnsupported, Bool.or_eq_false_iff] at h
      obtain ⟨c, hc⟩ := ih hφ h.2
      cases op <;> simp [TB1.onlineUnsupported] at h
      · exact ⟨_, by simp only [initOn, hc]; rfl⟩
      · exact ⟨_, by simp only [initOn, hc]; rfl⟩
  | tb2 op a b φ ψ ih1 ih2 =>
      simp only [F.onSupported, Bool.and_eq_true] at hφ
      simp only [F.usesOnlineUnsupported, Bool.or_eq_false_iff] at h
      obtain ⟨l, hl⟩ := ih1 hφ.1 h.1.2
      obtain ⟨r, hr⟩ := ih2 hφ.2 h.2
      cases op <;> simp [TB2.onlineUnsupported] at h
      exact ⟨_, by simp only [initOn, hl, hr]; rfl⟩

/-- … hence the translated constructors do (`genOn_init`), given enough fuel -/
theorem initOnG_ok_of_supported (cfg : DCfg) (φ : F α) (hφ : φ.onSupported = true)
    (h : φ.usesOnlineUnsupported = false) : ∃ N, ∀ fuel, N ≤ fuel → ∃ g, initOnG fuel cfg φ = .ok g := by
  obtain ⟨st, hst⟩ := initOn_ok_of_supported φ hφ h
  obtain ⟨N, hN⟩ := genOn_init cfg φ hφ st hst
  exact ⟨N, fun fuel hf => by obtain ⟨g, hg, _⟩ := hN fuel hf; exact ⟨g, hg⟩⟩

/-- **The sharper form without side conditions on the run**: for a formula without `.predZero` (the vacuity override of the
    interface-aware semantics, which is not translated) the exception raised by the construction is the RTAMTException,
    given enough fuel. -/
theorem C17_dense_online_rtamt_of_supported (cfg : DCfg) (φ : F α) (hφ : φ.onSupported = true)
    (h : φ.usesOnlineUnsupported = true) : ∃ N, ∀ fuel, N ≤ fuel → initOnG fuel cfg φ = .error .rtamt := by
  -- a bound for every sub-formula
  have hall : ∀ (L : List (F α)), (∀ ψ ∈ L, ψ.onSupported = true) →
      ∃ N, ∀ fuel, N ≤ fuel → ∀ ψ ∈ L, ψ.usesOnlineUnsupported = false → ∃ g, initOnG fuel cfg ψ = .ok g := by
    intro L
    induction L with
    | nil => exact fun _ => ⟨0, fun _ _ ψ hm => by simp at hm⟩
    | cons χ L ih =>
        intro hs
        obtain ⟨N, hN⟩ := ih (fun ψ hm => hs ψ (List.mem_cons_of_mem _ hm))
        cases hu : χ.usesOnlineUnsupported with
        | true =>
            refine ⟨N, fun fuel hf ψ hm hψ => ?_⟩
            rcases List.mem_cons.1 hm with rfl | hm
            · rw [hu] at hψ; cases hψ
            · exact hN fuel hf ψ hm hψ
        | false =>
            obtain ⟨M, hM⟩ := initOnG_ok_of_supported cfg χ (hs χ (List.mem_cons_self ..)) hu
            refine ⟨N + M, fun fuel hf ψ hm hψ => ?_⟩
            rcases List.mem_cons.1 hm with rfl | hm
            · exact hM fuel (by omega)
            · exact hN fuel (by omega) ψ hm hψ
  have hsubs : ∀ (χ : F α), χ.onSupported = true → ∀ ψ ∈ χ.subs, ψ.onSupported = true := by
    intro χ
    induction χ with
    | var x => intro h ψ hm; simp only [F.subs, List.mem_singleton] at hm; subst hm; exact h
    | const c => intro h ψ hm; simp only [F.subs, List.mem_singleton] at hm; subst hm; exact h
    | un op χ ih =>
        intro h ψ hm
        simp only [F.subs, List.mem_cons] at hm
        rcases hm with rfl | hm
        · exact h
        · exact ih h ψ hm
    | bin op χ₁ χ₂ ih1 ih2 =>
        intro h ψ hm
        simp only [F.subs, List.mem_cons, List.mem_append] at hm
        rcases hm with rfl | hm | hm
        · exact h
        · simp only [F.onSupported, Bool.and_eq_true] at h; exact ih1 h.1.2 ψ hm
        · simp only [F.onSupported, Bool.and_eq_true] at h; exact ih2 h.2 ψ hm
    | tmp1 op χ ih =>
        intro h ψ hm
        simp only [F.subs, List.mem_cons] at hm
        rcases hm with rfl | hm
        · exact h
        · exact ih h ψ hm
    | tmp2 op χ₁ χ₂ ih1 ih2 =>
        intro h ψ hm
        simp only [F.subs, List.mem_cons, List.mem_append] at hm
        rcases hm with rfl | hm | hm
        · exact h
        · simp only [F.onSupported, Bool.and_eq_true] at h; exact ih1 h.1 ψ hm
        · simp only [F.onSupported, Bool.and_eq_true] at h; exact ih2 h.2 ψ hm
    | tb1 op a b χ ih =>
        intro h ψ hm
        simp only [F.subs, List.mem_cons] at hm
        rcases hm with rfl | hm
        · exact h
        · exact ih h ψ hm
    | tb2 op a b χ₁ χ₂ ih1 ih2 =>
        intro h ψ hm
        simp only [F.subs, List.mem_cons, List.mem_append] at hm
        rcases hm with rfl | hm | hm
        · exact h
        · simp only [F.onSupported, Bool.and_eq_true] at h; exact ih1 h.1 ψ hm
        · simp only [F.onSupported, Bool.and_eq_true] at h; exact ih2 h.2 ψ hm
  obtain ⟨N, hN⟩ := hall φ.subs (hsubs φ hφ)
  exact ⟨N, fun fuel hf => C17_dense_online_rtamt fuel cfg φ h (hN fuel hf)⟩

theorem C17_dense_online_run_rtamt_of_supported (cfg : DCfg) (φ : F α) (hφ : φ.onSupported = true)
    (h : φ.usesOnlineUnsupported = true) :
    ∃ N, ∀ fuel, N ≤ fuel → ∀ batches, runOnG fuel cfg φ batches = .error .rtamt := by
  obtain ⟨N, hN⟩ := C17_dense_online_rtamt_of_supported cfg φ hφ h
  exact ⟨N, fun fuel hf batches => runOnG_error_of_init fuel cfg φ .rtamt (hN fuel hf) batches⟩

/-- the operators of `usesOnlineUnsupported` are those of the table -/
theorem T1.onlineUnsupported_iff (op : T1) : op.onlineUnsupported = true ↔ op.kind ∈ onlineRaisingKinds := by
  cases op <;> simp [T1.onlineUnsupported, T1.kind, onlineRaisingKinds]

theorem T2.onlineUnsupported_iff (op : T2) : op.onlineUnsupported = true ↔ op.kind ∈ onlineRaisingKinds := by
  cases op <;> simp [T2.onlineUnsupported, T2.kind, onlineRaisingKinds]

theorem TB1.onlineUnsupported_iff (op : TB1) : op.onlineUnsupported = true ↔ op.kind ∈ onlineRaisingKinds := by
  cases op <;> simp [TB1.onlineUnsupported, TB1.kind, onlineRaisingKinds]

theorem TB2.onlineUnsupported_iff (op : TB2) : op.onlineUnsupported = true ↔ op.kind ∈ onlineRaisingKinds := by
  cases op <;> simp [TB2.onlineUnsupported, TB2.kind, onlineRaisingKinds]

/-! ### non-vacuity -/

/-- bounded `until` in the online monitor: the RTAMTException at construction, for every fuel -/
example (fuel : Nat) (cfg : DCfg) :
    initOnG fuel cfg (.tb2 .until 0 2 (.var "x") (.var "y") : F α) = .error .rtamt :=
  C17_dense_online_tb2_rtamt fuel cfg .until 0 2 _ _ .leaf .leaf rfl rfl rfl

/-- … and no update yields a value -/
example (fuel : Nat) (cfg : DCfg) (batches : List (String → ASig α)) :
    runOnG fuel cfg (.tb2 .until 0 2 (.var "x") (.var "y") : F α) batches = .error .rtamt :=
  runOnG_error_of_init fuel cfg _ _ (C17_dense_online_tb2_rtamt fuel cfg .until 0 2 _ _ .leaf .leaf rfl rfl rfl) batches

/-- unbounded future (`always`) below a predicate and a `once[0,1]` -/
example (fuel : Nat) (cfg : DCfg) (c : α) (batches : List (String → ASig α)) :
    ∃ e, runOnG fuel cfg (.tb1 .once 0 1 (.bin (.pred .le) (.tmp1 .alw (.var "x")) (.const c)) : F α) batches
      = .error e :=
  C17_dense_online_run_rejects_translated fuel cfg _ rfl batches

example (cfg : DCfg) (c : α) :
    ∃ N, ∀ fuel, N ≤ fuel → ∀ batches,
      runOnG fuel cfg (.tb1 .once 0 1 (.bin (.pred .le) (.tmp1 .alw (.var "x")) (.const c)) : F α) batches
        = .error .rtamt :=
  C17_dense_online_run_rtamt_of_supported cfg _ rfl rfl

/-- `rise` (unsupported offline as well) -/
example (fuel : Nat) (cfg : DCfg) :
    initOnG fuel cfg (.tmp1 .rise (.var "x") : F α) = .error .rtamt := by
  refine C17_dense_online_rtamt fuel cfg _ rfl ?_
  intro ψ hm hu
  simp only [F.subs, List.mem_cons, List.not_mem_nil, or_false] at hm
  rcases hm with rfl | rfl
  · simp [F.usesOnlineUnsupported, T1.onlineUnsupported] at hu
  · exact ⟨.leaf, rfl⟩

end Rtamt.Py.DnOn
