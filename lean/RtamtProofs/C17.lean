/-
  C17 — Well-formed use never crashes; unsupported constructs are rejected cleanly.

  "For every supported specification and well-formed data - including one-sample traces,
   variables that are declared or supplied but not used by the formula, and inputs listed
   in any order - evaluate() and update() return normally. Every construct a monitor does
   not support (unbounded future online, prev/next/rise/fall in dense time, bounded until
   in the dense-time online monitor) is rejected with an RTAMTException no later than the
   first evaluation instead of yielding a value."

  Discrete time: the mirrors are written with `Except PyErr` for every partial Python
  primitive (list index, `max([])`, dict lookup); totality on well-formed input is a
  corollary of C01/C02, rejection is proved from the table regenerated from the source.
  Dense time: correspondence only (table `Generated.offlineDense/onlineDense` + stream `wf`).
-/
import RtamtProofs.C01Table
import RtamtProofs.C02Table
import Rtamt.Discrete.Pastify

namespace Rtamt
open Val

variable {α : Type} [Val α] [LawfulVal α]

/-- Offline: no IndexError / ValueError / KeyError is reachable on well-formed data, for
    every trace length `n ≥ 1` (in particular `n = 1`), whatever else the data set contains
    and in whatever order (only the variables of the formula are looked up, by name). -/
theorem C17_offline_total (w : Env α) (σ : String → Nat → α) (n : Nat) (hn : 0 < n) (φ : F α)
    (hwf : φ.wf = true) (hp : φ.noPrecedes) (hw : w.Agrees σ n φ.vars) :
    ∃ v, evalOff Generated.offlineDiscrete.handles w n φ = .ok v ∧ v.length = n := by
  exact ⟨_, C01_current_tree w σ n hn φ hwf hp hw, by simp⟩

/-- The data set may list its variables in any order and contain surplus variables. -/
theorem C17_offline_order_irrelevant (w w' : Env α) (σ : String → Nat → α) (n : Nat) (hn : 0 < n)
    (φ : F α) (hwf : φ.wf = true) (hp : φ.noPrecedes)
    (hw : w.Agrees σ n φ.vars) (hw' : w'.Agrees σ n φ.vars) :
    evalOff Generated.offlineDiscrete.handles w n φ = evalOff Generated.offlineDiscrete.handles w' n φ := by
  rw [C01_current_tree w σ n hn φ hwf hp hw, C01_current_tree w' σ n hn φ hwf hp hw']

/-- Online: every update of a past-time specification returns normally. -/
theorem C17_online_total (σ : String → Nat → α) (n : Nat) (φ : F α)
    (hon : φ.online = true) (hwf : φ.wf = true) :
    ∃ v, runOnline Generated.onlineDiscrete.handles Generated.onlineDiscrete.raises φ (envs σ n) = .ok v
      ∧ v.length = n := by
  exact ⟨_, C02_current_tree σ n φ hon hwf, by simp⟩


section OnlineReject

private theorem kind_mem_all (k : Kind) : k ∈ Kind.all := by
  cases k <;> simp [Kind.all]

/-- Per node class: either it is supported (registered, does not raise) or it raises. -/
private theorem kind_dich (k : Kind) (hc : k ≠ .Constant) :
    (k ∈ onlineKinds ∧ Generated.onlineDiscrete.handles k = true
        ∧ Generated.onlineDiscrete.raises k = false)
    ∨ (k ∉ onlineKinds ∧ Generated.onlineDiscrete.raises k = true) := by
  by_cases hk : k ∈ onlineKinds
  · left
    obtain ⟨h1, h2⟩ := C02_table_supported k hk hc
    exact ⟨hk, h1, h2⟩
  · right
    exact ⟨hk, C02_table_future_rejected k (kind_mem_all k) hk⟩

private theorem un_kind_ne (op : Un) : op.kind ≠ .Constant := by cases op <;> simp [Un.kind]
private theorem bin_kind_ne (op : Bin) : op.kind ≠ .Constant := by cases op <;> simp [Bin.kind]
private theorem t1_kind_ne (op : T1) : op.kind ≠ .Constant := by cases op <;> simp [T1.kind]
private theorem t2_kind_ne (op : T2) : op.kind ≠ .Constant := by cases op <;> simp [T2.kind]
private theorem tb1_kind_ne (op : TB1) : op.kind ≠ .Constant := by cases op <;> simp [TB1.kind]
private theorem tb2_kind_ne (op : TB2) : op.kind ≠ .Constant := by cases op <;> simp [TB2.kind]

omit [Val α] [LawfulVal α] in
private theorem online_cons1 (k : Kind) (φ : F α) (χ : F α) (h : χ.kinds = k :: φ.kinds) :
    χ.online = (onlineKinds.contains k && φ.online) := by
  simp [F.online, h]

omit [Val α] [LawfulVal α] in
private theorem online_cons2 (k : Kind) (φ ψ : F α) (χ : F α)
    (h : χ.kinds = k :: (φ.kinds ++ ψ.kinds)) :
    χ.online = (onlineKinds.contains k && (φ.online && ψ.online)) := by
  simp [F.online, h, List.all_append]

omit [LawfulVal α] in
private theorem initTree_dich (φ : F α) :
    (φ.online = false →
        initTree Generated.onlineDiscrete.handles Generated.onlineDiscrete.raises φ = .error .rtamt)
    ∧ (φ.online = true →
        ∃ st, initTree Generated.onlineDiscrete.handles Generated.onlineDiscrete.raises φ = .ok st) := by
  induction φ with
  | var x =>
      have hv : Generated.onlineDiscrete.handles .Variable = true
          ∧ Generated.onlineDiscrete.raises .Variable = false := by decide
      refine ⟨fun h => ?_, fun _ => ⟨.leaf, by simp [initTree, hv.1, hv.2]⟩⟩
      simp [F.online, F.kinds, onlineKinds] at h
  | const c =>
      refine ⟨fun h => ?_, fun _ => ⟨.leaf, by simp [initTree]⟩⟩
      simp [F.online, F.kinds, onlineKinds] at h
  | un op φ ih =>
      rw [online_cons1 op.kind φ (.un op φ) rfl]
      rcases kind_dich op.kind (un_kind_ne op) with ⟨hc, hh, hr⟩ | ⟨hc, hr⟩
      · constructor
        · intro h
          have h1 := ih.1 (by simpa [hc] using h)
          simp [initTree, hr, h1, bind, Except.bind]
        · intro h
          obtain ⟨st, h1⟩ := ih.2 (by simpa [hc] using h)
          exact ⟨_, by simp [initTree, hh, hr, h1, bind, Except.bind, pure, Except.pure]; rfl⟩
      · constructor
        · intro _
          simp [initTree, hr, bind, Except.bind, throw, throwThe, MonadExceptOf.throw]
        · intro h; simp [hc] at h
  | bin op φ ψ ih1 ih2 =>
      rw [online_cons2 op.kind φ ψ (.bin op φ ψ) rfl]
      rcases kind_dich op.kind (bin_kind_ne op) with ⟨hc, hh, hr⟩ | ⟨hc, hr⟩
      · constructor
        · intro h
          cases hφ : φ.online with
          | false =>
              have h1 := ih1.1 hφ
              simp [initTree, hr, h1, bind, Except.bind]
          | true =>
              obtain ⟨st, h1⟩ := ih1.2 hφ
              have h2 := ih2.1 (by simpa [hc, hφ] using h)
              simp [initTree, hr, h1, h2, bind, Except.bind]
        · intro h
          have hb : φ.online = true ∧ ψ.online = true := by simpa [hc] using h
          obtain ⟨st1, h1⟩ := ih1.2 hb.1
          obtain ⟨st2, h2⟩ := ih2.2 hb.2
          exact ⟨_, by simp [initTree, hh, hr, h1, h2, bind, Except.bind, pure, Except.pure]; rfl⟩
      · constructor
        · intro _
          simp [initTree, hr, bind, Except.bind, throw, throwThe, MonadExceptOf.throw]
        · intro h; simp [hc] at h
  | tmp1 op φ ih =>
      rw [online_cons1 op.kind φ (.tmp1 op φ) rfl]
      rcases kind_dich op.kind (t1_kind_ne op) with ⟨hc, hh, hr⟩ | ⟨hc, hr⟩
      · constructor
        · intro h
          have h1 := ih.1 (by simpa [hc] using h)
          simp [initTree, hr, h1, bind, Except.bind]
        · intro h
          obtain ⟨st, h1⟩ := ih.2 (by simpa [hc] using h)
          exact ⟨_, by simp [initTree, hh, hr, h1, bind, Except.bind, pure, Except.pure]; rfl⟩
      · constructor
        · intro _
          simp [initTree, hr, bind, Except.bind, throw, throwThe, MonadExceptOf.throw]
        · intro h; simp [hc] at h
  | tmp2 op φ ψ ih1 ih2 =>
      rw [online_cons2 op.kind φ ψ (.tmp2 op φ ψ) rfl]
      rcases kind_dich op.kind (t2_kind_ne op) with ⟨hc, hh, hr⟩ | ⟨hc, hr⟩
      · constructor
        · intro h
          cases hφ : φ.online with
          | false =>
              have h1 := ih1.1 hφ
              simp [initTree, hr, h1, bind, Except.bind]
          | true =>
              obtain ⟨st, h1⟩ := ih1.2 hφ
              have h2 := ih2.1 (by simpa [hc, hφ] using h)
              simp [initTree, hr, h1, h2, bind, Except.bind]
        · intro h
          have hb : φ.online = true ∧ ψ.online = true := by simpa [hc] using h
          obtain ⟨st1, h1⟩ := ih1.2 hb.1
          obtain ⟨st2, h2⟩ := ih2.2 hb.2
          exact ⟨_, by simp [initTree, hh, hr, h1, h2, bind, Except.bind, pure, Except.pure]; rfl⟩
      · constructor
        · intro _
          simp [initTree, hr, bind, Except.bind, throw, throwThe, MonadExceptOf.throw]
        · intro h; simp [hc] at h
  | tb1 op a b φ ih =>
      rw [online_cons1 op.kind φ (.tb1 op a b φ) rfl]
      rcases kind_dich op.kind (tb1_kind_ne op) with ⟨hc, hh, hr⟩ | ⟨hc, hr⟩
      · constructor
        · intro h
          have h1 := ih.1 (by simpa [hc] using h)
          simp [initTree, hr, h1, bind, Except.bind]
        · intro h
          obtain ⟨st, h1⟩ := ih.2 (by simpa [hc] using h)
          exact ⟨_, by simp [initTree, hh, hr, h1, bind, Except.bind, pure, Except.pure]; rfl⟩
      · constructor
        · intro _
          simp [initTree, hr, bind, Except.bind, throw, throwThe, MonadExceptOf.throw]
        · intro h; simp [hc] at h
  | tb2 op a b φ ψ ih1 ih2 =>
      rw [online_cons2 op.kind φ ψ (.tb2 op a b φ ψ) rfl]
      rcases kind_dich op.kind (tb2_kind_ne op) with ⟨hc, hh, hr⟩ | ⟨hc, hr⟩
      · constructor
        · intro h
          cases hφ : φ.online with
          | false =>
              have h1 := ih1.1 hφ
              simp [initTree, hr, h1, bind, Except.bind]
          | true =>
              obtain ⟨st, h1⟩ := ih1.2 hφ
              have h2 := ih2.1 (by simpa [hc, hφ] using h)
              simp [initTree, hr, h1, h2, bind, Except.bind]
        · intro h
          have hb : φ.online = true ∧ ψ.online = true := by simpa [hc] using h
          obtain ⟨st1, h1⟩ := ih1.2 hb.1
          obtain ⟨st2, h2⟩ := ih2.2 hb.2
          exact ⟨_, by simp [initTree, hh, hr, h1, h2, bind, Except.bind, pure, Except.pure]; rfl⟩
      · constructor
        · intro _
          simp [initTree, hr, bind, Except.bind, throw, throwThe, MonadExceptOf.throw]
        · intro h; simp [hc] at h

end OnlineReject

set_option linter.unusedSectionVars false in
/-- Online: a specification with a future operator is rejected with RTAMTException when the
    monitor is constructed (first update), and no value is produced. -/
theorem C17_online_rejects (φ : F α) (hon : φ.online = false) (es : List (String → α)) :
    runOnline Generated.onlineDiscrete.handles Generated.onlineDiscrete.raises φ es = .error .rtamt := by
  simp [runOnline, (initTree_dich φ).1 hon, bind, Except.bind]

omit [Val α] [LawfulVal α] in
private theorem hor?_isSome_iff (φ : F α) : (hor? φ).isSome = true ↔ φ.bounded = true := by
  induction φ with
  | var x => simp [hor?, F.bounded]
  | const c => simp [hor?, F.bounded]
  | un op φ ih => simpa [hor?, F.bounded] using ih
  | bin op φ ψ ih1 ih2 =>
      cases h1 : hor? φ <;> cases h2 : hor? ψ <;>
        simp_all [hor?, F.bounded, bind, Option.bind]
  | tmp1 op φ ih =>
      cases op <;> cases h1 : hor? φ <;> simp_all [hor?, F.bounded]
  | tmp2 op φ ψ ih1 ih2 =>
      cases op <;> cases h1 : hor? φ <;> cases h2 : hor? ψ <;>
        simp_all [hor?, F.bounded, bind, Option.bind]
  | tb1 op a b φ ih =>
      cases op <;> cases h1 : hor? φ <;> simp_all [hor?, F.bounded]
  | tb2 op a b φ ψ ih1 ih2 =>
      cases op <;> cases h1 : hor? φ <;> cases h2 : hor? ψ <;>
        simp_all [hor?, F.bounded, bind, Option.bind]

set_option linter.unusedSectionVars false in
/-- The pastifier / horizon visitor reject unbounded future operators with RTAMTException
    (model: `hor?` is `none` exactly on formulas that are not `bounded`). -/
theorem C17_pastify_rejects_unbounded (φ : F α) : (hor? φ = none) ↔ φ.bounded = false := by
  have key := hor?_isSome_iff φ
  cases h : hor? φ <;> cases hb : φ.bounded <;> simp_all

end Rtamt
