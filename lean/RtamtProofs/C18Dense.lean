/-
  C18 (dense part) — the duality / expansion laws on the dense-time semantics `rhoD`.
-/
import RtamtProofs.Dense.Step

set_option linter.unusedSectionVars false

namespace Rtamt.Dense
open Rtamt Val

variable {α : Type} [Val α] [LawfulVal α]

/-- Two formulas denote the same dense-time robustness signal on every input. -/
def EquivD (φ ψ : F α) : Prop :=
  ∀ (cfg : DCfg) (w : DEnv α) (t : Rat), 0 ≤ cfg.scale → w.WF (φ.vars ++ ψ.vars) →
    rhoD cfg w φ t = rhoD cfg w ψ t

theorem neg_pmax' (a b : α) : Val.neg (pmax a b) = pmin (Val.neg a) (Val.neg b) := by
  rw [pmax_eq, pmin_eq, neg_max]

theorem foldlM_neg (g : Rat → Option α) (pts : List Rat) (acc : α) :
    (pts.foldlM (fun acc τ => (g τ).map (fun v => pmax acc v)) acc).map Val.neg
      = pts.foldlM (fun acc τ => ((g τ).map Val.neg).map (fun v => pmin acc v)) (Val.neg acc) := by
  induction pts generalizing acc with
  | nil => rfl
  | cons τ pts ih =>
    simp only [List.foldlM_cons]
    cases h : g τ with
    | none => rfl
    | some v =>
      simp only [Option.map_some, Option.bind_eq_bind, Option.bind_some]
      rw [ih, neg_pmax']

theorem foldWin_neg (g : Rat → Option α) (B : List Rat) (lo : Rat) (hi : Option Rat) :
    (foldWin pmax ninf g B lo hi).map Val.neg
      = foldWin pmin pinf (fun t => (g t).map Val.neg) B lo hi := by
  rw [foldWin_eq, foldWin_eq, foldlM_neg, neg_ninf]

theorem rhoD_tb1_ev (cfg : DCfg) (w : DEnv α) (a b : Nat) (p : F α) (t : Rat) :
    rhoD cfg w (.tb1 .ev a b p) t = if t < dom w p then none else
      foldWin pmax ninf (rhoD cfg w p) (bps cfg w p) (t + (a : Rat) * cfg.scale)
        (some (t + (b : Rat) * cfg.scale)) := rfl

theorem rhoD_tb1_alw (cfg : DCfg) (w : DEnv α) (a b : Nat) (p : F α) (t : Rat) :
    rhoD cfg w (.tb1 .alw a b p) t = if t < dom w p then none else
      foldWin pmin pinf (rhoD cfg w p) (bps cfg w p) (t + (a : Rat) * cfg.scale)
        (some (t + (b : Rat) * cfg.scale)) := rfl

theorem rhoD_tb1_once (cfg : DCfg) (w : DEnv α) (a b : Nat) (p : F α) (t : Rat) :
    rhoD cfg w (.tb1 .once a b p) t = if t < dom w p then none else
      if t - (a : Rat) * cfg.scale < dom w p then some ninf else
      foldWin pmax ninf (rhoD cfg w p) (bps cfg w p) (max (t - (b : Rat) * cfg.scale) (dom w p))
        (some (t - (a : Rat) * cfg.scale)) := rfl

theorem rhoD_tb1_hist (cfg : DCfg) (w : DEnv α) (a b : Nat) (p : F α) (t : Rat) :
    rhoD cfg w (.tb1 .hist a b p) t = if t < dom w p then none else
      if t - (a : Rat) * cfg.scale < dom w p then some pinf else
      foldWin pmin pinf (rhoD cfg w p) (bps cfg w p) (max (t - (b : Rat) * cfg.scale) (dom w p))
        (some (t - (a : Rat) * cfg.scale)) := rfl

theorem rhoD_not (cfg : DCfg) (w : DEnv α) (p : F α) :
    rhoD cfg w (.un .not p) = fun t => (rhoD cfg w p t).map Val.neg := rfl

theorem rhoD_un (cfg : DCfg) (w : DEnv α) (op : Un) (p : F α) (t : Rat) :
    rhoD cfg w (.un op p) t = (rhoD cfg w p t).map op.app := rfl

theorem dom_un (w : DEnv α) (op : Un) (p : F α) : dom w (.un op p) = dom w p := rfl
theorem bps_un (cfg : DCfg) (w : DEnv α) (op : Un) (p : F α) :
    bps cfg w (.un op p) = bps cfg w p := rfl

theorem rhoD_tmp1_ev (cfg : DCfg) (w : DEnv α) (p : F α) (t : Rat) :
    rhoD cfg w (.tmp1 .ev p) t = if t < dom w p then none else
      foldWin pmax ninf (rhoD cfg w p) (bps cfg w p) t none := rfl

theorem rhoD_tmp1_alw (cfg : DCfg) (w : DEnv α) (p : F α) (t : Rat) :
    rhoD cfg w (.tmp1 .alw p) t = if t < dom w p then none else
      foldWin pmin pinf (rhoD cfg w p) (bps cfg w p) t none := rfl

theorem rhoD_tmp1_once (cfg : DCfg) (w : DEnv α) (p : F α) (t : Rat) :
    rhoD cfg w (.tmp1 .once p) t = if t < dom w p then none else
      foldWin pmax ninf (rhoD cfg w p) (bps cfg w p) (dom w p) (some t) := rfl

theorem rhoD_tmp1_hist (cfg : DCfg) (w : DEnv α) (p : F α) (t : Rat) :
    rhoD cfg w (.tmp1 .hist p) t = if t < dom w p then none else
      foldWin pmin pinf (rhoD cfg w p) (bps cfg w p) (dom w p) (some t) := rfl


theorem C18D_not_ev_bounded (a b : Nat) (p : F α) :
    EquivD (.un .not (.tb1 .ev a b p)) (.tb1 .alw a b (.un .not p)) := by
  intro cfg w t _ _
  rw [rhoD_un, rhoD_tb1_ev, rhoD_tb1_alw, dom_un, bps_un, rhoD_not]
  split
  · rfl
  · exact foldWin_neg _ _ _ _

theorem C18D_not_once_bounded (a b : Nat) (p : F α) :
    EquivD (.un .not (.tb1 .once a b p)) (.tb1 .hist a b (.un .not p)) := by
  intro cfg w t _ _
  rw [rhoD_un, rhoD_tb1_once, rhoD_tb1_hist, dom_un, bps_un, rhoD_not]
  split
  · rfl
  · split
    · exact congrArg some neg_ninf
    · exact foldWin_neg _ _ _ _

theorem C18D_not_once (p : F α) :
    EquivD (.un .not (.tmp1 .once p)) (.tmp1 .hist (.un .not p)) := by
  intro cfg w t _ _
  rw [rhoD_un, rhoD_tmp1_once, rhoD_tmp1_hist, dom_un, bps_un, rhoD_not]
  split
  · rfl
  · exact foldWin_neg _ _ _ _

theorem C18D_not_ev (p : F α) :
    EquivD (.un .not (.tmp1 .ev p)) (.tmp1 .alw (.un .not p)) := by
  intro cfg w t _ _
  rw [rhoD_un, rhoD_tmp1_ev, rhoD_tmp1_alw, dom_un, bps_un, rhoD_not]
  split
  · rfl
  · exact foldWin_neg _ _ _ _

theorem C18D_implies (p q : F α) :
    EquivD (.bin .implies p q) (.bin .or (.un .not p) q) := by
  intro cfg w t _ _
  show (do
      let l ← rhoD cfg w p t
      let r ← rhoD cfg w q t
      pure (Bin.app .implies l r)) = (do
      let l ← (rhoD cfg w p t).map (Un.app .not)
      let r ← rhoD cfg w q t
      pure (Bin.app .or l r))
  cases rhoD cfg w p t <;> cases rhoD cfg w q t <;> rfl

theorem dom_tb1 (w : DEnv α) (op : TB1) (a b : Nat) (p : F α) : dom w (.tb1 op a b p) = dom w p := rfl

theorem leHi_some (s h : Rat) : leHi s (some h) = (s ≤ h) := rfl

/-- The bounded `eventually` of a step function, as a least upper bound. -/
theorem rhoD_ev_spec (cfg : DCfg) (hs : 0 ≤ cfg.scale) (w : DEnv α) (c d : Nat) (hcd : c ≤ d)
    (p : F α) (hsup : supported p = true) (hw : w.WF p.vars) (t' : Rat) (ht' : dom w p ≤ t') :
    ∃ v', rhoD cfg w (.tb1 .ev c d p) t' = some v' ∧
      IsLUB (winSet (rhoD cfg w p) (t' + (c : Rat) * cfg.scale) (some (t' + (d : Rat) * cfg.scale))) v' := by
  obtain ⟨hc0, hcd'⟩ := scale_bounds cfg hs hcd
  rw [rhoD_tb1_ev, if_neg (not_lt.2 ht')]
  exact foldWin_max_spec ((rhoD_stepOn cfg hs w p hsup hw).restrict (by linarith) _)
    (by rw [leHi_some]; linarith)

/-- The bounded `once` of a step function: `ninf` while the window lies before the domain,
    then a least upper bound. -/
theorem rhoD_once_spec (cfg : DCfg) (hs : 0 ≤ cfg.scale) (w : DEnv α) (c d : Nat) (hcd : c ≤ d)
    (p : F α) (hsup : supported p = true) (hw : w.WF p.vars) (t' : Rat) (ht' : dom w p ≤ t') :
    (t' - (c : Rat) * cfg.scale < dom w p → rhoD cfg w (.tb1 .once c d p) t' = some ninf) ∧
    (dom w p ≤ t' - (c : Rat) * cfg.scale →
      ∃ v', rhoD cfg w (.tb1 .once c d p) t' = some v' ∧
        IsLUB (winSet (rhoD cfg w p) (max (t' - (d : Rat) * cfg.scale) (dom w p))
          (some (t' - (c : Rat) * cfg.scale))) v') := by
  obtain ⟨hc0, hcd'⟩ := scale_bounds cfg hs hcd
  constructor
  · intro h
    rw [rhoD_tb1_once, if_neg (not_lt.2 ht'), if_pos h]
  · intro h
    rw [rhoD_tb1_once, if_neg (not_lt.2 ht'), if_neg (not_lt.2 h)]
    exact foldWin_max_spec ((rhoD_stepOn cfg hs w p hsup hw).restrict (le_max_right _ _) _)
      (by rw [leHi_some]; exact max_le (by linarith) h)

/-- `eventually[a,b] eventually[c,d] p = eventually[a+c,b+d] p` for supported `p`. -/
theorem C18D_ev_ev (a b c d : Nat) (hab : a ≤ b) (hcd : c ≤ d) (p : F α) (hsup : supported p = true) :
    EquivD (.tb1 .ev a b (.tb1 .ev c d p)) (.tb1 .ev (a + c) (b + d) p) := by
  intro cfg w t hs hw
  have hwp : w.WF p.vars := fun x hx => hw x (List.mem_append_left _ hx)
  have hsupψ : supported (F.tb1 .ev c d p) = true := by
    simp [supported, hcd, hsup]
  obtain ⟨hc0, hcd'⟩ := scale_bounds cfg hs hcd
  obtain ⟨ha0, hab'⟩ := scale_bounds cfg hs hab
  have hgp := rhoD_stepOn cfg hs w p hsup hwp
  have hgψ : StepOn (rhoD cfg w (.tb1 .ev c d p)) (bps cfg w (.tb1 .ev c d p)) (dom w p) none :=
    rhoD_stepOn cfg hs w _ hsupψ hwp
  rw [rhoD_tb1_ev, rhoD_tb1_ev, dom_tb1]
  by_cases ht : t < dom w p
  · rw [if_pos ht, if_pos ht]
  rw [if_neg ht, if_neg ht]
  have ht' := not_lt.1 ht
  have e1 : ((a + c : ℕ) : Rat) * cfg.scale = (a : Rat) * cfg.scale + (c : Rat) * cfg.scale := by
    rw [Nat.cast_add, add_mul]
  have e2 : ((b + d : ℕ) : Rat) * cfg.scale = (b : Rat) * cfg.scale + (d : Rat) * cfg.scale := by
    rw [Nat.cast_add, add_mul]
  rw [e1, e2]
  obtain ⟨v, hv, hvl⟩ := foldWin_max_spec
    (hgψ.restrict (lo' := t + (a : Rat) * cfg.scale) (by linarith) (some (t + (b : Rat) * cfg.scale)))
    (by rw [leHi_some]; linarith)
  obtain ⟨u, hu, hul⟩ := foldWin_max_spec
    (hgp.restrict (lo' := t + ((a : Rat) * cfg.scale + (c : Rat) * cfg.scale)) (by linarith)
      (some (t + ((b : Rat) * cfg.scale + (d : Rat) * cfg.scale))))
    (by rw [leHi_some]; linarith)
  rw [hv, hu]
  congr 1
  refine IsLUB.unique ?_ hul
  have inner := rhoD_ev_spec cfg hs w c d hcd p hsup hwp
  constructor
  · rintro y ⟨s, h1, h2, h3⟩
    rw [leHi_some] at h2
    obtain ⟨v', hv', hl'⟩ := inner (max (t + (a : Rat) * cfg.scale) (s - (d : Rat) * cfg.scale))
      (le_trans (by linarith) (le_max_left _ _))
    have k1 : y ≤ v' := by
      refine hl'.1 ⟨s, ?_, ?_, h3⟩
      · rcases le_total (t + (a : Rat) * cfg.scale) (s - (d : Rat) * cfg.scale) with h | h
        · rw [max_eq_right h]; linarith
        · rw [max_eq_left h]; linarith
      · rw [leHi_some]
        have := le_max_right (t + (a : Rat) * cfg.scale) (s - (d : Rat) * cfg.scale)
        linarith
    have k2 : v' ≤ v := by
      refine hvl.1 ⟨_, le_max_left _ _, ?_, hv'⟩
      rw [leHi_some]
      exact max_le (by linarith) (by linarith)
    exact le_trans k1 k2
  · intro z hz
    apply hvl.2
    rintro y ⟨t', h1, h2, h3⟩
    rw [leHi_some] at h2
    obtain ⟨v', hv', hl'⟩ := inner t' (by linarith)
    rw [hv'] at h3
    cases h3
    apply hl'.2
    rintro y' ⟨s, k1, k2, k3⟩
    rw [leHi_some] at k2
    exact hz ⟨s, by linarith, by rw [leHi_some]; linarith, k3⟩

/-- `once[a,b] once[c,d] p = once[a+c,b+d] p` for supported `p`, at every time of the domain. -/
theorem C18D_once_once (a b c d : Nat) (hab : a ≤ b) (hcd : c ≤ d) (p : F α) (hsup : supported p = true)
    (cfg : DCfg) (hs : 0 ≤ cfg.scale) (w : DEnv α) (hw : w.WF p.vars) (t : Rat) :
    rhoD cfg w (.tb1 .once a b (.tb1 .once c d p)) t = rhoD cfg w (.tb1 .once (a + c) (b + d) p) t := by
  have hsupψ : supported (F.tb1 .once c d p) = true := by
    simp [supported, hcd, hsup]
  obtain ⟨hc0, hcd'⟩ := scale_bounds cfg hs hcd
  obtain ⟨ha0, hab'⟩ := scale_bounds cfg hs hab
  have hgp := rhoD_stepOn cfg hs w p hsup hw
  have hgψ : StepOn (rhoD cfg w (.tb1 .once c d p)) (bps cfg w (.tb1 .once c d p)) (dom w p) none :=
    rhoD_stepOn cfg hs w _ hsupψ hw
  rw [rhoD_tb1_once cfg w a b, rhoD_tb1_once cfg w (a + c) (b + d), dom_tb1]
  by_cases ht : t < dom w p
  · rw [if_pos ht, if_pos ht]
  rw [if_neg ht, if_neg ht]
  have ht' := not_lt.1 ht
  have e1 : ((a + c : ℕ) : Rat) * cfg.scale = (a : Rat) * cfg.scale + (c : Rat) * cfg.scale := by
    rw [Nat.cast_add, add_mul]
  have e2 : ((b + d : ℕ) : Rat) * cfg.scale = (b : Rat) * cfg.scale + (d : Rat) * cfg.scale := by
    rw [Nat.cast_add, add_mul]
  rw [e1, e2]
  have inner := rhoD_once_spec cfg hs w c d hcd p hsup hw
  by_cases h1 : t - (a : Rat) * cfg.scale < dom w p
  · rw [if_pos h1, if_pos (by linarith)]
  rw [if_neg h1]
  have h1' := not_lt.1 h1
  obtain ⟨v, hv, hvl⟩ := foldWin_max_spec
    (hgψ.restrict (lo' := max (t - (b : Rat) * cfg.scale) (dom w p)) (le_max_right _ _)
      (some (t - (a : Rat) * cfg.scale)))
    (by rw [leHi_some]; exact max_le (by linarith) h1')
  rw [hv]
  by_cases h2 : t - ((a : Rat) * cfg.scale + (c : Rat) * cfg.scale) < dom w p
  · rw [if_pos h2]
    congr 1
    apply le_antisymm
    · apply hvl.2
      rintro y ⟨t', k1, k2, k3⟩
      rw [leHi_some] at k2
      have hD : dom w p ≤ t' := le_trans (le_max_right _ _) k1
      rw [(inner t' hD).1 (by linarith)] at k3
      cases k3
      exact le_rfl
    · rw [LawfulVal.ninf_bot]; exact bot_le
  rw [if_neg h2]
  have h2' := not_lt.1 h2
  obtain ⟨u, hu, hul⟩ := foldWin_max_spec
    (hgp.restrict
      (lo' := max (t - ((b : Rat) * cfg.scale + (d : Rat) * cfg.scale)) (dom w p)) (le_max_right _ _)
      (some (t - ((a : Rat) * cfg.scale + (c : Rat) * cfg.scale))))
    (by rw [leHi_some]; exact max_le (by linarith) h2')
  rw [hu]
  congr 1
  refine IsLUB.unique ?_ hul
  constructor
  · rintro y ⟨s, k1, k2, k3⟩
    rw [leHi_some] at k2
    have ks1 : t - ((b : Rat) * cfg.scale + (d : Rat) * cfg.scale) ≤ s := le_trans (le_max_left _ _) k1
    have ks2 : dom w p ≤ s := le_trans (le_max_right _ _) k1
    -- witness t' = min (t - a') (s + d')
    have m1 := min_le_left (t - (a : Rat) * cfg.scale) (s + (d : Rat) * cfg.scale)
    have m2 := min_le_right (t - (a : Rat) * cfg.scale) (s + (d : Rat) * cfg.scale)
    have m3 : s + (c : Rat) * cfg.scale ≤ min (t - (a : Rat) * cfg.scale) (s + (d : Rat) * cfg.scale) :=
      le_min (by linarith) (by linarith)
    have hD : dom w p ≤ min (t - (a : Rat) * cfg.scale) (s + (d : Rat) * cfg.scale) := by linarith
    obtain ⟨v', hv', hl'⟩ := (inner _ hD).2 (by linarith)
    have q1 : y ≤ v' := by
      refine hl'.1 ⟨s, max_le (by linarith) ks2, ?_, k3⟩
      rw [leHi_some]; linarith
    have q2 : v' ≤ v := by
      refine hvl.1 ⟨_, max_le ?_ hD, ?_, hv'⟩
      · exact le_min (by linarith) (by linarith)
      · rw [leHi_some]; exact m1
    exact le_trans q1 q2
  · intro z hz
    apply hvl.2
    rintro y ⟨t', k1, k2, k3⟩
    rw [leHi_some] at k2
    have kt1 : t - (b : Rat) * cfg.scale ≤ t' := le_trans (le_max_left _ _) k1
    have hD : dom w p ≤ t' := le_trans (le_max_right _ _) k1
    by_cases h3 : t' - (c : Rat) * cfg.scale < dom w p
    · rw [(inner t' hD).1 h3] at k3
      cases k3
      rw [LawfulVal.ninf_bot]; exact bot_le
    · obtain ⟨v', hv', hl'⟩ := (inner t' hD).2 (not_lt.1 h3)
      rw [hv'] at k3
      cases k3
      apply hl'.2
      rintro y' ⟨s, j1, j2, j3⟩
      rw [leHi_some] at j2
      have js1 : t' - (d : Rat) * cfg.scale ≤ s := le_trans (le_max_left _ _) j1
      have js2 : dom w p ≤ s := le_trans (le_max_right _ _) j1
      exact hz ⟨s, max_le (by linarith) js2, by rw [leHi_some]; linarith, j3⟩

end Rtamt.Dense
