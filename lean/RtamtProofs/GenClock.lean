/-
  The sampling bookkeeping of the discrete-time interpreters — the tail of online
  `update(timestamp, dataset)` (`update_counter`, `previous_time`, the call of
  `update_sampling_violation_counter` with `self.normalize` inlined), online `reset()` and the gap loop of
  offline `evaluate(dataset)` — as translated from the Python source (`Rtamt/Py/GeneratedClock.lean`,
  regenerated on every run), denotes the hand-written mirrors `Clock.tick`, `Clock.reset` and
  `offlineCounter` (`Rtamt/Discrete/Sampling.lean`) that the C13 theorems are stated on.

  Numbers are exact (`Rat`): time stamps, period and tolerance.
-/
import Rtamt.Py.GeneratedClock
import Rtamt.Discrete.Sampling
import RtamtProofs.GenUnits

namespace Rtamt.Py
open Rtamt Val

variable {α : Type} [Val α]

/-- The attributes of the interpreter that the bookkeeping reads and writes. -/
def clockStore (c : SamplingCfg) (k : Clock) : Store α :=
  [("sampling_period", .rat c.period), ("sampling_period_unit", .str (unitStr c.periodUnit)),
   ("sampling_tolerance", .rat c.tol), ("update_counter", .int k.count), ("previous_time", .rat k.prev),
   ("sampling_violation_counter", .int k.viol)]

/-- The three translated fragments lie inside the translated subset. -/
theorem gen_clock_supported :
    Gen.Clock.online_tick.supported = true ∧ Gen.Clock.online_reset.supported = true ∧
    Gen.Clock.offline_count.supported = true := by
  decide

/-! ### helper lemmas for the symbolic execution -/

omit [Val α] in
theorem setKey_viol (c : SamplingCfg) (k : Clock) (n : Nat) :
    setKey "sampling_violation_counter" (.int n) (clockStore (α := α) c k) = clockStore c { k with viol := n } := by
  simp [clockStore, setKey]

omit [Val α] in
theorem setKey_prev (c : SamplingCfg) (k : Clock) (q : Rat) :
    setKey "previous_time" (.rat q) (clockStore (α := α) c k) = clockStore c { k with prev := q } := by
  simp [clockStore, setKey]

omit [Val α] in
theorem setKey_count (c : SamplingCfg) (k : Clock) (n : Nat) :
    setKey "update_counter" (.int n) (clockStore (α := α) c k) = clockStore c { k with count := n } := by
  simp [clockStore, setKey]

theorem nanos_ne_zero (u : TUnit) : ((u.nanos : Int) : Rat) ≠ 0 := by
  cases u <;> simp [TUnit.nanos]

theorem evalBin_div_rat_int (a : Rat) (n : Int) (hn : (n : Rat) ≠ 0) :
    evalBin (α := α) .div (.rat a) (.int n) = .ok (.rat (a / (n : Rat))) := by
  simp [evalBin, coerce, ratOf, hn]

/-- `self.normalize`, inlined by the translator. -/
theorem evalE_normalize (c : SamplingCfg) (env : Env α)
    (hu : getKey "$unit" env.loc = .ok (.str (unitStr c.unit)))
    (hp : getKey "sampling_period_unit" env.self = .ok (.str (unitStr c.periodUnit))) :
    evalE env (.bin .div (.un .frac (.un .unitNs (.loc "$unit"))) (.un .unitNs (.attr "sampling_period_unit")))
      = .ok (.rat c.normalize) := by
  simp only [evalE, hu, hp, u_ok_bind', unitNs_eq]
  have h1 : evalUn (α := α) .frac (.int (c.unit.nanos : Int)) = .ok (.rat ((c.unit.nanos : Int) : Rat)) := rfl
  rw [h1, u_ok_bind', evalBin_div_rat_int _ _ (nanos_ne_zero _)]
  simp only [SamplingCfg.normalize, Rat.intCast_natCast]

theorem evalE_bin' (env : Env α) (op : BinOp) (a b : E) :
    evalE env (.bin op a b) = (evalE env a >>= fun x => evalE env b >>= fun y => evalBin op x y) := id rfl

theorem evalBin_mul_rat_rat (a b : Rat) : evalBin (α := α) .mul (.rat a) (.rat b) = .ok (.rat (a * b)) := by
  simp [evalBin, coerce, ratOf]

theorem evalBin_sub_rat_rat (a b : Rat) : evalBin (α := α) .sub (.rat a) (.rat b) = .ok (.rat (a - b)) := by
  simp [evalBin, coerce, ratOf]
theorem evalBin_add_rat_rat (a b : Rat) : evalBin (α := α) .add (.rat a) (.rat b) = .ok (.rat (a + b)) := by
  simp [evalBin, coerce, ratOf]
theorem evalBin_lt_rat_rat (a b : Rat) : evalBin (α := α) .lt (.rat a) (.rat b) = .ok (.bool (decide (a < b))) := by
  simp [evalBin, coerce, ratOf]
theorem evalBin_gt_rat_rat (a b : Rat) : evalBin (α := α) .gt (.rat a) (.rat b) = .ok (.bool (decide (b < a))) := by
  simp [evalBin, coerce, ratOf]
theorem evalBin_or_bool' (x y : Bool) : evalBin (α := α) .or (.bool x) (.bool y) = .ok (.bool (x || y)) := id rfl
theorem evalBin_add_int' (x y : Int) : evalBin (α := α) .add (.int x) (.int y) = .ok (.int (x + y)) := by
  simp [evalBin, coerce]

theorem evalBin_sub_int' (x y : Int) : evalBin (α := α) .sub (.int x) (.int y) = .ok (.int (x - y)) := by
  simp [evalBin, coerce]

/-- `duration = X * self.normalize(); self.update_sampling_violation_counter(duration)` (inlined). -/
theorem exec_gap (c : SamplingCfg) (k : Clock) (loc : Store α) (X : E) (d : Rat)
    (hX : evalE ⟨clockStore c k, loc⟩ X = .ok (.rat d))
    (hu : getKey "$unit" loc = .ok (.str (unitStr c.unit))) :
    exec (.seq (.setLoc "duration" (.bin .mul X (.bin .div (.un .frac (.un .unitNs (.loc "$unit"))) (.un .unitNs (.attr "sampling_period_unit"))))) (.seq (.setLoc "tolerance" (.bin .mul (.attr "sampling_period") (.attr "sampling_tolerance"))) (.ite (.bin .or (.bin .lt (.loc "duration") (.bin .sub (.attr "sampling_period") (.loc "tolerance"))) (.bin .gt (.loc "duration") (.bin .add (.attr "sampling_period") (.loc "tolerance")))) (.setAttr "sampling_violation_counter" (.bin .add (.attr "sampling_violation_counter") (.int 1))) .skip)))
      ⟨clockStore c k, loc⟩
    = .ok ⟨clockStore c { k with viol := if c.violates (d * c.normalize) then k.viol + 1 else k.viol },
           setKey "tolerance" (.rat (c.period * c.tol)) (setKey "duration" (.rat (d * c.normalize)) loc)⟩ := by
  have hN := evalE_normalize c ⟨clockStore c k, loc⟩ hu (by simp [clockStore, getKey_cons_same, getKey_cons_ne])
  have hD : evalE ⟨clockStore c k, loc⟩ (.bin .mul X (.bin .div (.un .frac (.un .unitNs (.loc "$unit"))) (.un .unitNs (.attr "sampling_period_unit")))) = .ok (.rat (d * c.normalize)) := by
    rw [evalE_bin', hX, u_ok_bind', hN, u_ok_bind', evalBin_mul_rat_rat]
  simp only [u_exec_seq', exec_setLoc, hD, u_ok_bind']
  generalize d * c.normalize = D
  simp only [SamplingCfg.violates]
  have hT : evalE ⟨clockStore c k, setKey "duration" (.rat D) loc⟩ (.bin .mul (.attr "sampling_period") (.attr "sampling_tolerance")) = .ok (.rat (c.period * c.tol)) := by
    simp only [evalE, clockStore, getKey_cons_same, getKey_cons_ne, u_ok_bind', evalBin_mul_rat_rat, ne_eq, String.reduceEq, not_false_eq_true]
  simp only [hT, u_ok_bind']
  have hC : evalE ⟨clockStore c k, setKey "tolerance" (.rat (c.period * c.tol)) (setKey "duration" (.rat D) loc)⟩
      (.bin .or (.bin .lt (.loc "duration") (.bin .sub (.attr "sampling_period") (.loc "tolerance"))) (.bin .gt (.loc "duration") (.bin .add (.attr "sampling_period") (.loc "tolerance"))))
      = .ok (.bool (decide (D < c.period - c.period * c.tol) || decide (D > c.period + c.period * c.tol))) := by
    simp only [evalE, clockStore, getKey_cons_same, getKey_setKey_same, getKey_setKey_ne, u_ok_bind',
      evalBin_sub_rat_rat, evalBin_add_rat_rat, evalBin_lt_rat_rat, evalBin_gt_rat_rat, evalBin_or_bool',
      ne_eq, String.reduceEq, not_false_eq_true, gt_iff_lt]
  rw [u_exec_ite, hC, u_ok_bind']
  by_cases hb : (decide (D < c.period - c.period * c.tol) || decide (D > c.period + c.period * c.tol)) = true
  · have hA : evalE ⟨clockStore c k, setKey "tolerance" (.rat (c.period * c.tol)) (setKey "duration" (.rat D) loc)⟩
        (.bin .add (.attr "sampling_violation_counter") (.int 1)) = .ok (.int ((k.viol + 1 : Nat) : Int)) := by
      simp only [evalE, clockStore, getKey_cons_same, getKey_cons_ne, u_ok_bind', evalBin_add_int',
        ne_eq, String.reduceEq, not_false_eq_true]
      rfl
    simp only [hb, exec_setAttr, hA, u_ok_bind', if_true]
    rw [setKey_viol]
  · rw [Bool.not_eq_true] at hb
    simp only [hb, exec_skip, Bool.false_eq_true, if_false]

/-- `self.previous_time = timestamp; self.update_counter = self.update_counter + 1`. -/
theorem exec_tick_tail (c : SamplingCfg) (k : Clock) (loc : Store α) (ts : Rat)
    (ht : getKey "timestamp" loc = .ok (.rat ts)) :
    exec (.seq (.setAttr "previous_time" (.loc "timestamp")) (.setAttr "update_counter" (.bin .add (.attr "update_counter") (.int 1))))
      ⟨clockStore c k, loc⟩ = .ok ⟨clockStore c { k with count := k.count + 1, prev := ts }, loc⟩ := by
  simp only [u_exec_seq', exec_setAttr, evalE, ht, u_ok_bind', setKey_prev]
  have hA : getKey "update_counter" (clockStore (α := α) c { k with prev := ts }) = .ok (.int k.count) := by
    simp only [clockStore, getKey_cons_same, getKey_cons_ne, ne_eq, String.reduceEq, not_false_eq_true]
  rw [hA, u_ok_bind', evalBin_add_int', u_ok_bind']
  exact congrArg (fun s => Except.ok (Env.mk s loc)) (setKey_count c _ (k.count + 1))

/-- The translated tail of online `update(timestamp, …)` is `Clock.tick`. -/
theorem gen_clock_tick (c : SamplingCfg) (k : Clock) (ts : Rat) :
    call (α := α) Gen.Clock.online_tick (clockStore c k) [.rat ts, .str (unitStr c.unit)]
      = .ok (clockStore c (k.tick c ts), .none) := by
  simp only [call, Gen.Clock.online_tick, List.length_cons, List.length_nil, ne_eq, not_true_eq_false, if_false,
    List.zip_cons_cons, List.zip_nil_right]
  have hC : evalE (α := α) ⟨clockStore c k, [("timestamp", V.rat ts), ("$unit", V.str (unitStr c.unit))]⟩
      (.bin .gt (.attr "update_counter") (.int 0)) = .ok (.bool (decide (0 < (k.count : Int)))) := by
    simp only [evalE, clockStore, getKey_cons_same, getKey_cons_ne, ne_eq, String.reduceEq, not_false_eq_true,
      u_ok_bind', evalBin_gt_int_zero]
  have ht : getKey (β := V α) "timestamp" [("timestamp", V.rat ts), ("$unit", V.str (unitStr c.unit))] = .ok (.rat ts) :=
    getKey_cons_same _ _ _
  have hu : getKey (β := V α) "$unit" [("timestamp", V.rat ts), ("$unit", V.str (unitStr c.unit))]
      = .ok (.str (unitStr c.unit)) := by
    rw [getKey_cons_ne _ _ _ _ (by decide), getKey_cons_same]
  rw [u_exec_seq', u_exec_ite, hC, u_ok_bind']
  by_cases hk : 0 < k.count
  · have hk' : decide (0 < (k.count : Int)) = true := by simpa using hk
    have hX : evalE (α := α) ⟨clockStore c k, [("timestamp", V.rat ts), ("$unit", V.str (unitStr c.unit))]⟩
        (.bin .sub (.loc "timestamp") (.attr "previous_time")) = .ok (.rat (ts - k.prev)) := by
      simp only [evalE, ht, clockStore, getKey_cons_same, getKey_cons_ne, ne_eq, String.reduceEq, not_false_eq_true,
        u_ok_bind', evalBin_sub_rat_rat]
    simp only [hk', exec_gap c k _ _ _ hX hu, u_ok_bind']
    rw [exec_tick_tail _ _ _ ts]
    · simp only [u_ok_bind', pure, Except.pure, Clock.tick, gt_iff_lt, hk, true_and]
    · rw [getKey_setKey_ne _ _ _ _ (by decide), getKey_setKey_ne _ _ _ _ (by decide)]; exact ht
  · have hk' : decide (0 < (k.count : Int)) = false := by simpa using hk
    simp only [hk', exec_skip, u_ok_bind']
    rw [exec_tick_tail _ _ _ ts ht]
    simp only [u_ok_bind', pure, Except.pure, Clock.tick, gt_iff_lt, hk, false_and, if_false]

/-- The translated online `reset()` restores the initial bookkeeping. -/
theorem gen_clock_reset (c : SamplingCfg) (k : Clock) :
    call (α := α) Gen.Clock.online_reset (clockStore c k) [] = .ok (clockStore c k.reset, .none) := by
  py_simp [Gen.Clock.online_reset, clockStore, Clock.reset]

/-- Feeding a list of time stamps to the translated tail, one `update` after the other. -/
def ticksG (c : SamplingCfg) : Store α → List Rat → Except PyErr (Store α)
  | st, [] => .ok st
  | st, t :: rest => do
      let (st', _) ← call (α := α) Gen.Clock.online_tick st [.rat t, .str (unitStr c.unit)]
      ticksG c st' rest

/-- A run of online updates leaves the counter of the mirror (`onlineCounter` for a fresh monitor). -/
theorem gen_clock_run (c : SamplingCfg) (k : Clock) (ts : List Rat) :
    ticksG (α := α) c (clockStore c k) ts = .ok (clockStore c (ts.foldl (Clock.tick c) k)) := by
  induction ts generalizing k with
  | nil => rfl
  | cons t rest ih =>
    rw [ticksG, gen_clock_tick, u_ok_bind']
    exact ih _

omit [Val α] in
theorem evalIdx_rlist (l : List Rat) (n : Nat) (h : n < l.length) :
    evalIdx (α := α) (.rlist l) (.int n) = .ok (.rat (l.getD n 0)) := by
  have hneg : ¬ ((n : Int) < 0) := by omega
  simp [evalIdx, hneg, List.getElem?_eq_getElem h, List.getD_eq_getElem?_getD]

theorem exec_for' {i : String} {lo hi : E} {body : S} {env : Env α} (a : Nat) (hb : Int)
    (hlo : evalE env lo = .ok (.int a)) (hhi : evalE env hi = .ok (.int hb)) :
    exec (.for_ i lo hi body) env =
      (List.range' a (hb - a).toNat).foldlM
        (fun env k => exec body { env with loc := setKey i (.int (k : Nat)) env.loc }) env := by
  have hneg : ¬ ((a : Int) < 0) := by omega
  simp [exec, hlo, hhi, u_ok_bind', hneg]

/-- The gap loop of offline `evaluate`, over any list of valid indices. -/
theorem offline_loop (c : SamplingCfg) (k : Clock) (ts : List Rat) (is : List Nat)
    (his : ∀ i ∈ is, i + 1 < ts.length) (loc : Store α) (acc : Nat)
    (hts : getKey "ts" loc = .ok (.rlist ts)) (hu : getKey "$unit" loc = .ok (.str (unitStr c.unit))) :
    ∃ loc', is.foldlM (fun (env : Env α) (i : Nat) => exec (.seq (.setLoc "duration" (.bin .mul (.bin .sub (.idx (.loc "ts") (.bin .add (.loc "i") (.int 1))) (.idx (.loc "ts") (.loc "i"))) (.bin .div (.un .frac (.un .unitNs (.loc "$unit"))) (.un .unitNs (.attr "sampling_period_unit"))))) (.seq (.setLoc "tolerance" (.bin .mul (.attr "sampling_period") (.attr "sampling_tolerance"))) (.ite (.bin .or (.bin .lt (.loc "duration") (.bin .sub (.attr "sampling_period") (.loc "tolerance"))) (.bin .gt (.loc "duration") (.bin .add (.attr "sampling_period") (.loc "tolerance")))) (.setAttr "sampling_violation_counter" (.bin .add (.attr "sampling_violation_counter") (.int 1))) .skip)))
          { env with loc := setKey "i" (.int (i : Nat)) env.loc })
        ⟨clockStore c { k with viol := acc }, loc⟩
      = .ok ⟨clockStore c { k with viol := is.foldl (fun acc i => if c.violates ((ts.getD (i + 1) 0 - ts.getD i 0) * c.normalize) then acc + 1 else acc) acc }, loc'⟩ := by
  induction is generalizing loc acc with
  | nil => exact ⟨loc, rfl⟩
  | cons i rest ih =>
    have hi : i + 1 < ts.length := his i (List.mem_cons_self ..)
    have hts' : getKey "ts" (setKey "i" (V.int (i : Nat)) loc) = .ok (.rlist ts) := by
      rw [getKey_setKey_ne _ _ _ _ (by decide)]; exact hts
    have hu' : getKey "$unit" (setKey "i" (V.int (i : Nat)) loc) = .ok (.str (unitStr c.unit)) := by
      rw [getKey_setKey_ne _ _ _ _ (by decide)]; exact hu
    have hX : evalE ⟨clockStore c { k with viol := acc }, setKey "i" (V.int (i : Nat)) loc⟩
        (.bin .sub (.idx (.loc "ts") (.bin .add (.loc "i") (.int 1))) (.idx (.loc "ts") (.loc "i")))
        = .ok (.rat (ts.getD (i + 1) 0 - ts.getD i 0)) := by
      have h1 : ((i : Int) + 1) = ((i + 1 : Nat) : Int) := by omega
      simp only [evalE, hts', getKey_setKey_same, u_ok_bind', evalBin_add_int', h1,
        evalIdx_rlist ts (i + 1) hi, evalIdx_rlist ts i (by omega), evalBin_sub_rat_rat]
    rw [List.foldlM_cons]
    have hstep := exec_gap c { k with viol := acc } _ _ _ hX hu'
    simp only at hstep ⊢
    rw [hstep, u_ok_bind']
    refine ih (fun j hj => his j (List.mem_cons_of_mem _ hj)) _ _ ?_ ?_
    · rw [getKey_setKey_ne _ _ _ _ (by decide), getKey_setKey_ne _ _ _ _ (by decide)]; exact hts'
    · rw [getKey_setKey_ne _ _ _ _ (by decide), getKey_setKey_ne _ _ _ _ (by decide)]; exact hu'

/-- The translated gap loop of offline `evaluate(dataset)` is `offlineCounter`, started from the current counter. -/
theorem gen_clock_offline (c : SamplingCfg) (k : Clock) (ts : List Rat) :
    call (α := α) Gen.Clock.offline_count (clockStore c k) [.rlist ts, .str (unitStr c.unit)]
      = .ok (clockStore c { k with viol := offlineCounter c k.viol ts }, .none) := by
  simp only [call, Gen.Clock.offline_count, List.length_cons, List.length_nil, ne_eq, not_true_eq_false, if_false,
    List.zip_cons_cons, List.zip_nil_right]
  have h0 : exec (α := α) (.setLoc "ts" (.loc "$time"))
      ⟨clockStore c k, [("$time", V.rlist ts), ("$unit", V.str (unitStr c.unit))]⟩
      = .ok ⟨clockStore c k, [("$time", V.rlist ts), ("$unit", V.str (unitStr c.unit)), ("ts", V.rlist ts)]⟩ := by
    simp only [exec_setLoc, evalE, getKey_cons_same, u_ok_bind', setKey, String.reduceBEq, Bool.false_eq_true, if_false]
  have hts : getKey (β := V α) "ts" [("$time", V.rlist ts), ("$unit", V.str (unitStr c.unit)), ("ts", V.rlist ts)]
      = .ok (.rlist ts) := by
    rw [getKey_cons_ne _ _ _ _ (by decide), getKey_cons_ne _ _ _ _ (by decide), getKey_cons_same]
  have hu : getKey (β := V α) "$unit" [("$time", V.rlist ts), ("$unit", V.str (unitStr c.unit)), ("ts", V.rlist ts)]
      = .ok (.str (unitStr c.unit)) := by
    rw [getKey_cons_ne _ _ _ _ (by decide), getKey_cons_same]
  have hhi : evalE (α := α) ⟨clockStore c k, [("$time", V.rlist ts), ("$unit", V.str (unitStr c.unit)), ("ts", V.rlist ts)]⟩
      (.bin .sub (.len (.loc "ts")) (.int 1)) = .ok (.int ((ts.length : Int) - 1)) := by
    simp only [evalE, hts, u_ok_bind', evalBin_sub_int']
  rw [u_exec_seq', h0, u_ok_bind', exec_for' 0 _ (id rfl) hhi]
  have hn : ((ts.length : Int) - 1 - ((0 : Nat) : Int)).toNat = ts.length - 1 := by omega
  rw [hn]
  obtain ⟨loc', hl⟩ := offline_loop c k ts (List.range' 0 (ts.length - 1))
    (fun i hi => by have := (List.mem_range'_1.1 hi).2; omega) _ k.viol hts hu
  rw [hl, u_ok_bind', offlineCounter, List.range_eq_range']
  rfl

end Rtamt.Py
